import AlgoVerif.Lemmas.PlayerAttestFrame
import AlgoVerif.Model.AgreementSvc
/-!
What one `Model.Player.handle` does to the player's (Round, Period, Step, Napping) and which `attest` actions it emits
(`HStep`), proved for every event — the Step discipline of `agreement/player.go`:

* (Round, Period) never decreases (lexicographically); `enterPeriod` / `enterRound` reset Step to soft, Napping to false;
* inside a period Step never decreases;
* at most one attest per `handle`, always for the player's (Round, Period) after the handle, and
  - soft: issued at Step = soft, leaves Step = cert;
  - cert: issued with Step ≤ cert; its value is the period's staged value (written by a soft/cert threshold);
  - next s: issued at Step = s with Napping cleared, reached from cert (s = next) or from a nap at s;
  - late / redo / down (fast recovery): Step is advanced as `issueFastVote` prescribes; late carries the staged value,
    redo the cached next value of the previous period (non-bottom), down carries bottom.
-/
namespace AlgoVerif.Lemmas.PlayerAttest
open AlgoVerif.Model AlgoVerif.Model.Player AlgoVerif.Model.VoteTracker AlgoVerif.Spec.VoteTracker AlgoVerif.Lemmas.Player

abbrev Attest := AlgoVerif.Model.AgreementSvc.Attest

/-- the attest action as the `Attest` record of `Model.AgreementSvc` -/
def attOf : Action → List Attest
  | .attest r p s v => [⟨r, p, s, v⟩]
  | _ => []

/-- the attest actions of an action list, in order -/
def atts (as : List Action) : List Attest := as.flatMap attOf

theorem atts_append (a b : List Action) : atts (a ++ b) = atts a ++ atts b := List.flatMap_append
theorem atts_cons (a : Action) (as : List Action) : atts (a :: as) = attOf a ++ atts as := List.flatMap_cons

/-! ### relations on the tracked player fields -/

def Same4 (a b : PlayerF) : Prop := a.round = b.round ∧ a.period = b.period ∧ a.step = b.step ∧ a.napping = b.napping

/-- `enterPeriod` / `enterRound` happened (possibly several) -/
def Entered (a b : PlayerF) : Prop :=
  (a.round < b.round ∨ (a.round = b.round ∧ a.period < b.period)) ∧ b.step = 1 ∧ b.napping = false

def Move (a b : PlayerF) : Prop := Same4 a b ∨ Entered a b

theorem Same4.refl (a : PlayerF) : Same4 a a := ⟨rfl, rfl, rfl, rfl⟩
theorem Same4.of_eq {a b : PlayerF} (h : b = a) : Same4 a b := h ▸ Same4.refl a
theorem Same4.trans {a b c : PlayerF} (h1 : Same4 a b) (h2 : Same4 b c) : Same4 a c :=
  ⟨h1.1.trans h2.1, h1.2.1.trans h2.2.1, h1.2.2.1.trans h2.2.2.1, h1.2.2.2.trans h2.2.2.2⟩

theorem Entered.of_same_left {a b c : PlayerF} (h1 : Same4 a b) (h2 : Entered b c) : Entered a c := by
  obtain ⟨e1, e2, _, _⟩ := h1
  obtain ⟨h, s, n⟩ := h2
  exact ⟨by rw [e1, e2]; exact h, s, n⟩

theorem Entered.then_move {a b c : PlayerF} (h1 : Entered a b) (h2 : Move b c) : Entered a c := by
  obtain ⟨h, s, n⟩ := h1
  rcases h2 with ⟨e1, e2, e3, e4⟩ | ⟨h', s', n'⟩
  · exact ⟨by rw [← e1, ← e2]; exact h, by rw [← e3]; exact s, by rw [← e4]; exact n⟩
  · refine ⟨?_, s', n'⟩
    rcases h with h | ⟨h, hp⟩ <;> rcases h' with h' | ⟨h', hp'⟩
    · exact Or.inl (Nat.lt_trans h h')
    · exact Or.inl (h' ▸ h)
    · exact Or.inl (h ▸ h')
    · exact Or.inr ⟨h.trans h', Nat.lt_trans hp hp'⟩

theorem Move.trans {a b c : PlayerF} (h1 : Move a b) (h2 : Move b c) : Move a c := by
  rcases h1 with h1 | h1
  · rcases h2 with h2 | h2
    · exact Or.inl (h1.trans h2)
    · exact Or.inr (Entered.of_same_left h1 h2)
  · exact Or.inr (h1.then_move h2)

theorem Move.of_eq {a b : PlayerF} (h : b = a) : Move a b := Or.inl (Same4.of_eq h)

/-! ### what the tree holds for a vote's value -/

/-- the period (r, p) has a staged value `v`, written by a soft or cert threshold -/
def StagedIs (root : Root) (r p v : Nat) : Prop := ∃ vw, viewAt root r p = some vw ∧ vw.set = true ∧ vw.staging = v

/-- the next-threshold cache of (r, p) is (Bottom = false, Proposal = v) -/
def CachedIs (root : Root) (r p v : Nat) : Prop :=
  ∃ vw, viewAt root r p = some vw ∧ vw.cached.bottom = false ∧ vw.cached.proposal = v

theorem stagedIs_of_PAt {root : Root} {r p v : Nat} {pr : PeriodR} (h : PAt root r p pr) (h1 : (pview pr).set = true)
    (h2 : (pview pr).staging = v) : StagedIs root r p v := ⟨_, viewAt_of_PAt h, h1, h2⟩

theorem G_of_PAt {G : Nat → Nat → PView → Prop} {root : Root} {r p : Nat} {pr : PeriodR} (hG : GRoot G root)
    (h : PAt root r p pr) : G r p (pview pr) := by
  obtain ⟨rr, h1, h2⟩ := h
  exact (hG (r, rr) (aget_mem h1)).1 (p, pr) (aget_mem h2)

/-- the attests of a threshold / payload event: none, or one cert vote for the staged value of the period the player is
in afterwards, with Step ≤ cert -/
def CertOnly (σ' : State) (bs : List Attest) : Prop :=
  bs = [] ∨ ∃ v, bs = [⟨σ'.pl.round, σ'.pl.period, 2, v⟩] ∧ σ'.pl.step ≤ 2 ∧
    StagedIs σ'.root σ'.pl.round σ'.pl.period v ∧ commVal σ'.root σ'.pl.round σ'.pl.period = some v

variable {P : Params} {good : Nat → Nat → Nat → Vote → Bool} {G : Nat → Nat → PView → Prop}

/-! ### vote-issuing functions -/

theorem partitionPolicy_a (hs : GSpec P good G) {σ σ' : State} {acts : List Action}
    (hQ : QRoot P good σ.root) (hG : GRoot G σ.root) (h : partitionPolicy P σ = .ok (σ', acts)) :
    QRoot P good σ'.root ∧ GRoot G σ'.root ∧ σ'.pl = σ.pl ∧ atts acts = [] := by
  unfold partitionPolicy at h
  split at h
  · simp only [Except.ok.injEq, Prod.mk.injEq] at h; obtain ⟨rfl, rfl⟩ := h; exact ⟨hQ, hG, rfl, rfl⟩
  split at h
  · cases h
  rename_i σ₁ ok fr hf
  obtain ⟨q1, _, p1⟩ := freshest_spec P good hQ hf
  obtain ⟨g1, _, _⟩ := freshest_g hs hQ hG hf
  simp only [] at h
  have ha0 : atts (if ok = true then [Action.broadcastBundle fr.cert] else []) = [] := by split <;> rfl
  split at h
  · split at h
    · cases h
    rename_i σ₂ st hs2
    obtain ⟨q2, _, p2⟩ := staged_spec P good q1 hs2
    obtain ⟨g2, _, _⟩ := staged_g hs q1 g1 hs2
    split at h
    · simp only [Except.ok.injEq, Prod.mk.injEq] at h; obtain ⟨rfl, rfl⟩ := h
      exact ⟨q2, g2, p2.trans p1, by rw [atts_append, ha0]; rfl⟩
    · split at h
      · cases h
      rename_i σ₃ pin hp
      obtain ⟨q3, _, p3⟩ := pinned_spec P good q2 hp
      obtain ⟨g3, _⟩ := pinned_g hs q2 g2 hp
      split at h
      · simp only [Except.ok.injEq, Prod.mk.injEq] at h; obtain ⟨rfl, rfl⟩ := h
        exact ⟨q3, g3, p3.trans (p2.trans p1), by rw [atts_append, ha0]; rfl⟩
      · simp only [Except.ok.injEq, Prod.mk.injEq] at h; obtain ⟨rfl, rfl⟩ := h
        exact ⟨q3, g3, p3.trans (p2.trans p1), ha0⟩
  · simp only [Except.ok.injEq, Prod.mk.injEq] at h; obtain ⟨rfl, rfl⟩ := h
    exact ⟨q1, g1, p1, ha0⟩

theorem issueSoftVote_a (hs : GSpec P good G) {σ σ' : State} {d : Nat} {acts : List Action}
    (hQ : QRoot P good σ.root) (hG : GRoot G σ.root) (h : issueSoftVote P σ d = .ok (σ', acts)) :
    QRoot P good σ'.root ∧ GRoot G σ'.root ∧ Same4 σ.pl σ'.pl ∧
      (atts acts = [] ∨ ∃ v, atts acts = [⟨σ.pl.round, σ.pl.period, 1, v⟩]) := by
  unfold issueSoftVote at h
  split at h
  · cases h
  rename_i σ₁ frozen hf
  obtain ⟨q1, p1⟩ := freezeProposal_spec P good hQ hf
  obtain ⟨g1, _⟩ := freezeProposal_g hs hQ hG hf
  split at h
  · cases h
  rename_i σ₂ ns hn
  obtain ⟨q2, p2⟩ := nextStatus_spec P good q1 hn
  obtain ⟨g2, _, _⟩ := nextStatus_g hs q1 g1 hn
  have hpl : σ₂.pl = σ.pl := p2.trans p1
  simp only [] at h
  repeat' split at h
  all_goals (simp only [Except.ok.injEq, Prod.mk.injEq] at h; obtain ⟨rfl, rfl⟩ := h
             rw [← hpl]
             exact ⟨q2, g2, ⟨rfl, rfl, rfl, rfl⟩, by first | exact Or.inl rfl | exact Or.inr ⟨_, rfl⟩⟩)

theorem issueNextVote_a (hs : GSpec P good G) {σ σ' : State} {d : Nat} {acts : List Action}
    (hQ : QRoot P good σ.root) (hG : GRoot G σ.root) (h : issueNextVote P σ d = .ok (σ', acts)) :
    QRoot P good σ'.root ∧ GRoot G σ'.root ∧ σ'.pl.round = σ.pl.round ∧ σ'.pl.period = σ.pl.period ∧
      σ'.pl.step = σ.pl.step ∧ σ'.pl.napping = false ∧
      ∃ v, atts acts = [⟨σ.pl.round, σ.pl.period, σ.pl.step, v⟩] ∧
        (σ.pl.period + 1 < 18446744073709551616 →
          commVal σ'.root σ.pl.round σ.pl.period = some v ∨ commVal σ'.root σ.pl.round σ.pl.period = none) := by
  unfold issueNextVote at h
  split at h
  · cases h
  rename_i σ₁ acts₁ hp
  obtain ⟨q1, g1, p1, a1⟩ := partitionPolicy_a hs hQ hG hp
  split at h
  · cases h
  rename_i σ₂ ans hs2
  obtain ⟨q2, _, p2⟩ := staged_spec P good q1 hs2
  obtain ⟨g2, _, _⟩ := staged_g hs q1 g1 hs2
  simp only [] at h
  split at h
  · rename_i hpay
    simp only [Except.ok.injEq, Prod.mk.injEq] at h; obtain ⟨rfl, rfl⟩ := h
    have hpl : σ₂.pl = σ.pl := p2.trans p1
    have hcv := commVal_staged hs2
    rw [hpay, if_pos rfl, ← p2] at hcv
    rw [← hpl]
    exact ⟨q2, g2, rfl, rfl, rfl, rfl, ans.proposal, by rw [atts_append, a1]; rfl, fun _ => Or.inl hcv⟩
  · rename_i hpay
    split at h
    · cases h
    rename_i σ₃ ns hn
    obtain ⟨q3, p3⟩ := nextStatus_spec P good q2 hn
    obtain ⟨g3, _, _⟩ := nextStatus_g hs q2 g2 hn
    simp only [Except.ok.injEq, Prod.mk.injEq] at h; obtain ⟨rfl, rfl⟩ := h
    have hpl : σ₃.pl = σ.pl := p3.trans (p2.trans p1)
    have hcv := commVal_staged hs2
    rw [if_neg hpay, ← p2] at hcv
    obtain ⟨rr2, pr2, hat2, _, _⟩ := staged_out hs2
    rw [← p2] at hat2
    rw [← hpl]
    refine ⟨q3, g3, rfl, rfl, rfl, rfl, _, by rw [atts_append, a1]; rfl, fun hfit => Or.inr ?_⟩
    rw [p3] at hfit ⊢
    obtain ⟨rr3, hat3, hst3⟩ := nextStatus_comm hfit hat2 hn
    rw [commVal_frame hat2 hat3 hst3]; exact hcv

/-- `p.Step` after `issueFastVote` cast a vote of step `a` at Step `st` -/
def fastStep (st a : Nat) : Nat := if a ≠ 253 ∧ st ≤ 2 then 3 else if a = 253 ∧ st < 2 then 2 else st

/-- the outcome of `issueFastVote` started from player fields `pl` -/
def FastOut (pl : PlayerF) (σ' : State) (bs : List Attest) : Prop :=
  ∃ a v, bs = [⟨pl.round, pl.period, a, v⟩] ∧ σ'.pl.round = pl.round ∧ σ'.pl.period = pl.period ∧
    σ'.pl.napping = pl.napping ∧ σ'.pl.step = fastStep pl.step a ∧
    ((a = 253 ∧ StagedIs σ'.root pl.round pl.period v) ∨
     (a = 254 ∧ v ≠ 0 ∧ CachedIs σ'.root pl.round (predPeriod pl.period) v) ∨
     (a = 255 ∧ v = 0)) ∧
    (pl.period + 1 < 18446744073709551616 →
      commVal σ'.root pl.round pl.period = some v ∨ commVal σ'.root pl.round pl.period = none)

theorem fastFinish_pl (σ : State) (acts : List Action) (a v : Nat) :
    (fastFinish σ acts a v).1.root = σ.root ∧ (fastFinish σ acts a v).1.pl.round = σ.pl.round ∧
    (fastFinish σ acts a v).1.pl.period = σ.pl.period ∧ (fastFinish σ acts a v).1.pl.napping = σ.pl.napping ∧
    (fastFinish σ acts a v).1.pl.step = fastStep σ.pl.step a ∧
    atts (fastFinish σ acts a v).2 = atts acts ++ [⟨σ.pl.round, σ.pl.period, a, v⟩] := by
  unfold fastFinish fastStep sLate
  refine ⟨rfl, ?_, ?_, ?_, ?_, by rw [atts_append]; rfl⟩
  all_goals (simp only []; repeat' split)
  all_goals first | rfl | omega

theorem fastOut_of_finish {pl : PlayerF} {τ : State} {acts : List Action} {a v : Nat} (hpl : τ.pl = pl)
    (ha : atts acts = [])
    (hv : (a = 253 ∧ StagedIs τ.root pl.round pl.period v) ∨
          (a = 254 ∧ v ≠ 0 ∧ CachedIs τ.root pl.round (predPeriod pl.period) v) ∨ (a = 255 ∧ v = 0))
    (hc : pl.period + 1 < 18446744073709551616 →
      commVal τ.root pl.round pl.period = some v ∨ commVal τ.root pl.round pl.period = none) :
    FastOut pl (fastFinish τ acts a v).1 (atts (fastFinish τ acts a v).2) := by
  obtain ⟨e0, e1, e2, e3, e4, e5⟩ := fastFinish_pl τ acts a v
  subst hpl
  refine ⟨a, v, by rw [e5, ha]; rfl, e1, e2, e3, e4, ?_, ?_⟩
  · rw [e0]; exact hv
  · rw [e0]; exact hc

theorem issueFastVote_a (hs : GSpec P good G) (hset : ∀ r p vw, G r p vw → vw.staging ≠ 0 → vw.set = true)
    {σ σ' : State} {acts : List Action}
    (hQ : QRoot P good σ.root) (hG : GRoot G σ.root) (h : issueFastVote P σ = .ok (σ', acts)) :
    QRoot P good σ'.root ∧ GRoot G σ'.root ∧ FastOut σ.pl σ' (atts acts) := by
  unfold issueFastVote at h
  split at h
  · cases h
  rename_i σ₁ acts₁ hp
  obtain ⟨q1, g1, p1, a1⟩ := partitionPolicy_a hs hQ hG hp
  split at h
  · cases h
  rename_i σ₂ e1 hd1
  obtain ⟨q2, p2⟩ := dumpVotes_spec P good q1 hd1
  obtain ⟨g2, _⟩ := dumpVotes_g hs q1 g1 hd1
  split at h
  · cases h
  rename_i σ₃ e2 hd2
  obtain ⟨q3, p3⟩ := dumpVotes_spec P good q2 hd2
  obtain ⟨g3, _⟩ := dumpVotes_g hs q2 g2 hd2
  split at h
  · cases h
  rename_i σ₄ e3 hd3
  obtain ⟨q4, p4⟩ := dumpVotes_spec P good q3 hd3
  obtain ⟨g4, _⟩ := dumpVotes_g hs q3 g3 hd3
  simp only [] at h
  split at h
  · cases h
  rename_i σ₅ ans hs5
  obtain ⟨q5, _, p5⟩ := staged_spec P good q4 hs5
  obtain ⟨g5, ⟨pr5, hpr5, hst5⟩, _⟩ := staged_g hs q4 g4 hs5
  have hpl4 : σ₄.pl = σ.pl := p4.trans (p3.trans (p2.trans p1))
  have hpl5 : σ₅.pl = σ.pl := p5.trans hpl4
  have hb : atts (acts₁ ++ [Action.broadcastVotes (e1 ++ (e2 ++ e3))]) = [] := by rw [atts_append, a1]; rfl
  rw [hpl4] at hpr5
  have hcv5 := commVal_staged hs5
  rw [hpl4] at hcv5
  split at h
  · rename_i hpay
    rw [hpay, if_pos rfl] at hcv5
    simp only [Except.ok.injEq] at h
    split at h
    · rename_i hz
      have := fastOut_of_finish (pl := σ.pl) (τ := σ₅) (acts := acts₁ ++ [Action.broadcastVotes (e1 ++ (e2 ++ e3))])
        (a := sDown) (v := 0) hpl5 hb (Or.inr (Or.inr ⟨rfl, rfl⟩)) (fun _ => Or.inl (by rw [hcv5, hz]))
      rw [h] at this
      have e0 := (fastFinish_pl σ₅ (acts₁ ++ [Action.broadcastVotes (e1 ++ (e2 ++ e3))]) sDown 0).1
      rw [h] at e0
      exact ⟨e0 ▸ q5, e0 ▸ g5, this⟩
    · rename_i hne
      have hstg : StagedIs σ₅.root σ.pl.round σ.pl.period ans.proposal :=
        stagedIs_of_PAt hpr5 (hset _ _ _ (G_of_PAt g5 hpr5) (by rw [show (pview pr5).staging = ans.proposal from hst5]; exact hne)) hst5
      have := fastOut_of_finish (pl := σ.pl) (τ := σ₅) (acts := acts₁ ++ [Action.broadcastVotes (e1 ++ (e2 ++ e3))])
        (a := sLate) (v := ans.proposal) hpl5 hb (Or.inl ⟨rfl, hstg⟩) (fun _ => Or.inl hcv5)
      rw [h] at this
      have e0 := (fastFinish_pl σ₅ (acts₁ ++ [Action.broadcastVotes (e1 ++ (e2 ++ e3))]) sLate ans.proposal).1
      rw [h] at e0
      exact ⟨e0 ▸ q5, e0 ▸ g5, this⟩
  · rename_i hpay
    split at h
    · cases h
    rename_i σ₆ ns hn
    obtain ⟨q6, p6⟩ := nextStatus_spec P good q5 hn
    obtain ⟨g6, ⟨pr6, hpr6, hc6⟩, _⟩ := nextStatus_g hs q5 g5 hn
    have hpl6 : σ₆.pl = σ.pl := p6.trans hpl5
    rw [hpl5] at hpr6
    have hcv6 : σ.pl.period + 1 < 18446744073709551616 → commVal σ₆.root σ.pl.round σ.pl.period = none := by
      intro hfit
      obtain ⟨rr5, pr5', hat5, _, _⟩ := staged_out hs5
      rw [hpl4, ← hpl5] at hat5
      rw [← hpl5] at hfit
      obtain ⟨rr6, hat6, hst6⟩ := nextStatus_comm hfit hat5 hn
      have hfr := commVal_frame hat5 hat6 hst6
      rw [hpl5] at hfr
      rw [hfr, hcv5, if_neg hpay]
    split at h
    · simp only [Except.ok.injEq] at h
      have := fastOut_of_finish (pl := σ.pl) (τ := σ₆) (acts := acts₁ ++ [Action.broadcastVotes (e1 ++ (e2 ++ e3))])
        (a := sDown) (v := 0) hpl6 hb (Or.inr (Or.inr ⟨rfl, rfl⟩)) (fun hf => Or.inr (hcv6 hf))
      rw [h] at this
      have e0 := (fastFinish_pl σ₆ (acts₁ ++ [Action.broadcastVotes (e1 ++ (e2 ++ e3))]) sDown 0).1
      rw [h] at e0
      exact ⟨e0 ▸ q6, e0 ▸ g6, this⟩
    · rename_i hbot
      split at h
      · simp only [Except.ok.injEq] at h
        have := fastOut_of_finish (pl := σ.pl) (τ := σ₆) (acts := acts₁ ++ [Action.broadcastVotes (e1 ++ (e2 ++ e3))])
          (a := sDown) (v := 0) hpl6 hb (Or.inr (Or.inr ⟨rfl, rfl⟩)) (fun hf => Or.inr (hcv6 hf))
        rw [h] at this
        have e0 := (fastFinish_pl σ₆ (acts₁ ++ [Action.broadcastVotes (e1 ++ (e2 ++ e3))]) sDown 0).1
        rw [h] at e0
        exact ⟨e0 ▸ q6, e0 ▸ g6, this⟩
      · rename_i hprop
        simp only [Except.ok.injEq] at h
        have hc : CachedIs σ₆.root σ.pl.round (predPeriod σ.pl.period) ns.proposal :=
          ⟨_, viewAt_of_PAt hpr6, by simpa [pview, hc6] using hbot, by simp [pview, hc6]⟩
        have := fastOut_of_finish (pl := σ.pl) (τ := σ₆) (acts := acts₁ ++ [Action.broadcastVotes (e1 ++ (e2 ++ e3))])
          (a := sRedo) (v := ns.proposal) hpl6 hb (Or.inr (Or.inl ⟨rfl, hprop, hc⟩)) (fun hf => Or.inr (hcv6 hf))
        rw [h] at this
        have e0 := (fastFinish_pl σ₆ (acts₁ ++ [Action.broadcastVotes (e1 ++ (e2 ++ e3))]) sRedo ns.proposal).1
        rw [h] at e0
        exact ⟨e0 ▸ q6, e0 ▸ g6, this⟩

/-! ### the values of soft / next / down votes (pure unfolding: what was read from the tree when the vote was cast) -/

/-- a frame that says nothing: used to get `σ'.pl = σ.pl` out of the generic pass -/
theorem trivFrame : Frame P (fun _ => True) (fun _ => True) (fun _ _ => True) where
  congr := fun _ _ _ _ _ => trivial
  upd := fun _ _ _ _ _ => trivial
  atRound := fun _ _ _ _ _ _ _ _ _ _ _ => trivial
  rupd := fun _ _ _ _ _ _ => trivial
  atPeriod := fun _ _ _ _ _ _ _ _ _ _ _ _ => trivial
  pvote := fun _ _ _ _ _ _ _ _ _ => trivial
  payP := fun _ _ _ _ _ _ => trivial
  payV := fun _ _ _ _ _ _ _ _ _ => trivial
  fresh := fun _ _ _ _ _ => trivial

/-- the next-threshold cache the tree holds for (r, q) -/
def CacheAt (root : Root) (r q : Nat) (ns : NextStatus) : Prop := ∃ vw, viewAt root r q = some vw ∧ vw.cached = ns

theorem nextStatus_out {σ σ' : State} {ns : NextStatus} (h : nextStatus P σ = .ok (σ', ns)) :
    CacheAt σ'.root σ.pl.round (predPeriod σ.pl.period) ns ∧ σ'.pl = σ.pl := by
  unfold nextStatus at h
  simp only [] at h
  split at h
  · cases h
  rename_i root a hx
  simp only [Except.ok.injEq, Prod.mk.injEq] at h
  obtain ⟨rfl, rfl⟩ := h
  obtain ⟨_, rr', _, hf, hrr'⟩ := atRound_out hx
  obtain ⟨pr₀, pr', _, hfp, hper, _⟩ := atPeriod_out hf
  simp only [Except.ok.injEq, Prod.mk.injEq] at hfp
  obtain ⟨rfl, rfl⟩ := hfp
  refine ⟨⟨_, viewAt_of_RAt (rr := rr') (pr := pr₀.upd 0) ⟨hrr', by rw [hper]; exact aget_aset_self _ _ _⟩, rfl⟩, rfl⟩

theorem partitionPolicy_noatt {σ σ' : State} {acts : List Action} (h : partitionPolicy P σ = .ok (σ', acts)) :
    atts acts = [] ∧ σ'.pl = σ.pl := by
  refine ⟨?_, (f_partitionPolicy trivFrame trivial trivial h).2⟩
  unfold partitionPolicy at h
  split at h
  · simp only [Except.ok.injEq, Prod.mk.injEq] at h; obtain ⟨_, rfl⟩ := h; rfl
  split at h
  · cases h
  rename_i σ₁ ok fr hf
  simp only [] at h
  have ha0 : atts (if ok = true then [Action.broadcastBundle fr.cert] else []) = [] := by split <;> rfl
  split at h
  · split at h
    · cases h
    split at h
    · simp only [Except.ok.injEq, Prod.mk.injEq] at h; obtain ⟨_, rfl⟩ := h
      rw [atts_append, ha0]; rfl
    · split at h
      · cases h
      split at h
      · simp only [Except.ok.injEq, Prod.mk.injEq] at h; obtain ⟨_, rfl⟩ := h
        rw [atts_append, ha0]; rfl
      · simp only [Except.ok.injEq, Prod.mk.injEq] at h; obtain ⟨_, rfl⟩ := h
        exact ha0
  · simp only [Except.ok.injEq, Prod.mk.injEq] at h; obtain ⟨_, rfl⟩ := h
    exact ha0

/-- `issueSoftVote`: never bottom; the cached starting value if the previous period's cache is (Bottom = false, value) -/
theorem issueSoftVote_val {σ σ' : State} {d : Nat} {acts : List Action} (h : issueSoftVote P σ d = .ok (σ', acts)) :
    ∀ v, atts acts = [⟨σ.pl.round, σ.pl.period, 1, v⟩] →
      ∃ ns, CacheAt σ'.root σ.pl.round (predPeriod σ.pl.period) ns ∧ v ≠ 0 ∧
        (0 < σ.pl.period → ns.bottom = false → ns.proposal ≠ 0 → v = ns.proposal) := by
  unfold issueSoftVote at h
  split at h
  · cases h
  rename_i σ₁ frozen hf
  have p1 := (f_freezeProposal trivFrame trivial trivial hf).2
  split at h
  · cases h
  rename_i σ₂ ns hn
  obtain ⟨hc, p2⟩ := nextStatus_out hn
  rw [p1] at hc
  have hpl : σ₂.pl = σ.pl := p2.trans p1
  simp only [] at h
  intro v hv
  split at h
  · rename_i hcond
    simp only [Except.ok.injEq, Prod.mk.injEq] at h; obtain ⟨rfl, rfl⟩ := h
    have : v = ns.proposal := by
      have := congrArg (fun l => l.map (·.v)) hv
      simpa [atts, attOf] using this.symm
    subst this
    exact ⟨ns, hc, hcond.2.2, fun _ _ _ => rfl⟩
  rename_i hcond
  rw [hpl] at hcond
  split at h
  · simp only [Except.ok.injEq, Prod.mk.injEq] at h; obtain ⟨_, rfl⟩ := h
    cases hv
  rename_i hfz
  have hvac : 0 < σ.pl.period → ns.bottom = false → ns.proposal ≠ 0 → v = ns.proposal :=
    fun a b c => absurd ⟨a, b, c⟩ hcond
  split at h
  · split at h
    · simp only [Except.ok.injEq, Prod.mk.injEq] at h; obtain ⟨rfl, rfl⟩ := h
      have : v = frozen := by
        have := congrArg (fun l => l.map (·.v)) hv
        simpa [atts, attOf] using this.symm
      subst this
      exact ⟨ns, hc, hfz, hvac⟩
    · simp only [Except.ok.injEq, Prod.mk.injEq] at h; obtain ⟨_, rfl⟩ := h
      cases hv
  · simp only [Except.ok.injEq, Prod.mk.injEq] at h; obtain ⟨rfl, rfl⟩ := h
    have : v = frozen := by
      have := congrArg (fun l => l.map (·.v)) hv
      simpa [atts, attOf] using this.symm
    subst this
    exact ⟨ns, hc, hfz, hvac⟩

/-- `issueNextVote`: the committable value, else what the previous period's cache says -/
theorem issueNextVote_val {σ σ' : State} {d : Nat} {acts : List Action} (h : issueNextVote P σ d = .ok (σ', acts)) :
    ∀ v, atts acts = [⟨σ.pl.round, σ.pl.period, σ.pl.step, v⟩] →
      commVal σ'.root σ.pl.round σ.pl.period = some v ∨
      ∃ ns, CacheAt σ'.root σ.pl.round (predPeriod σ.pl.period) ns ∧ v = if ns.bottom then 0 else ns.proposal := by
  unfold issueNextVote at h
  split at h
  · cases h
  rename_i σ₁ acts₁ hp
  obtain ⟨a1, p1⟩ := partitionPolicy_noatt hp
  split at h
  · cases h
  rename_i σ₂ ans hs2
  have p2 := (f_staged trivFrame trivial trivial hs2).2
  have hcv := commVal_staged hs2
  rw [p1] at hcv
  simp only [] at h
  intro v hv
  split at h
  · rename_i hpay
    simp only [Except.ok.injEq, Prod.mk.injEq] at h; obtain ⟨rfl, rfl⟩ := h
    rw [hpay, if_pos rfl] at hcv
    have : v = ans.proposal := by
      rw [atts_append, a1] at hv
      have := congrArg (fun l => l.map (·.v)) hv
      simpa [atts, attOf] using this.symm
    subst this
    exact Or.inl hcv
  · split at h
    · cases h
    rename_i σ₃ ns hn
    obtain ⟨hc, p3⟩ := nextStatus_out hn
    rw [p2, p1] at hc
    simp only [Except.ok.injEq, Prod.mk.injEq] at h; obtain ⟨rfl, rfl⟩ := h
    have : v = if ns.bottom = true then 0 else ns.proposal := by
      rw [atts_append, a1] at hv
      have := congrArg (fun l => l.map (·.v)) hv
      simpa [atts, attOf] using this.symm
    exact Or.inr ⟨ns, hc, this⟩

/-- `issueFastVote`, down vote: the committable value is bottom, or the previous period's cache has Bottom or no value -/
theorem issueFastVote_val {σ σ' : State} {acts : List Action} (h : issueFastVote P σ = .ok (σ', acts)) :
    ∀ v, atts acts = [⟨σ.pl.round, σ.pl.period, 255, v⟩] →
      commVal σ'.root σ.pl.round σ.pl.period = some 0 ∨
      ∃ ns, CacheAt σ'.root σ.pl.round (predPeriod σ.pl.period) ns ∧ (ns.bottom = true ∨ ns.proposal = 0) := by
  unfold issueFastVote at h
  split at h
  · cases h
  rename_i σ₁ acts₁ hp
  obtain ⟨a1, p1⟩ := partitionPolicy_noatt hp
  split at h
  · cases h
  rename_i σ₂ e1 hd1
  have p2 := (f_dumpVotes trivFrame trivial trivial hd1).2
  split at h
  · cases h
  rename_i σ₃ e2 hd2
  have p3 := (f_dumpVotes trivFrame trivial trivial hd2).2
  split at h
  · cases h
  rename_i σ₄ e3 hd3
  have p4 := (f_dumpVotes trivFrame trivial trivial hd3).2
  simp only [] at h
  split at h
  · cases h
  rename_i σ₅ ans hs5
  have p5 := (f_staged trivFrame trivial trivial hs5).2
  have hpl4 : σ₄.pl = σ.pl := p4.trans (p3.trans (p2.trans p1))
  have hpl5 : σ₅.pl = σ.pl := p5.trans hpl4
  have hcv := commVal_staged hs5
  rw [hpl4] at hcv
  have hb : atts (acts₁ ++ [Action.broadcastVotes (e1 ++ (e2 ++ e3))]) = [] := by rw [atts_append, a1]; rfl
  intro v hv
  have hstep : ∀ (τ : State) (a w : Nat), τ.pl = σ.pl →
      fastFinish τ (acts₁ ++ [Action.broadcastVotes (e1 ++ (e2 ++ e3))]) a w = (σ', acts) → a = 255 ∧ σ'.root = τ.root := by
    intro τ a w hτ hfe
    obtain ⟨e0, _, _, _, _, e5⟩ := fastFinish_pl τ (acts₁ ++ [Action.broadcastVotes (e1 ++ (e2 ++ e3))]) a w
    rw [hfe] at e0 e5
    rw [hb, hτ] at e5
    simp only [] at e0 e5
    rw [hv] at e5
    have := congrArg (fun l => l.map (·.s)) e5
    simp at this
    exact ⟨this.symm, e0⟩
  split at h
  · rename_i hpay
    rw [hpay, if_pos rfl] at hcv
    simp only [Except.ok.injEq] at h
    split at h
    · rename_i hz
      obtain ⟨_, hr⟩ := hstep σ₅ sDown 0 hpl5 h
      rw [hr]; exact Or.inl (by rw [hcv, hz])
    · obtain ⟨habs, _⟩ := hstep σ₅ sLate ans.proposal hpl5 h
      exact absurd habs (by decide)
  · split at h
    · cases h
    rename_i σ₆ ns hn
    obtain ⟨hc, p6⟩ := nextStatus_out hn
    rw [hpl5] at hc
    have hpl6 : σ₆.pl = σ.pl := p6.trans hpl5
    split at h
    · rename_i hbot
      simp only [Except.ok.injEq] at h
      obtain ⟨_, hr⟩ := hstep σ₆ sDown 0 hpl6 h
      rw [hr]; exact Or.inr ⟨ns, hc, Or.inl hbot⟩
    · split at h
      · rename_i hz
        simp only [Except.ok.injEq] at h
        obtain ⟨_, hr⟩ := hstep σ₆ sDown 0 hpl6 h
        rw [hr]; exact Or.inr ⟨ns, hc, Or.inr hz⟩
      · simp only [Except.ok.injEq] at h
        obtain ⟨habs, _⟩ := hstep σ₆ sRedo ns.proposal hpl6 h
        exact absurd habs (by decide)

/-! ### period and round changes, threshold events -/

theorem certOnly_nil (σ' : State) : CertOnly σ' [] := Or.inl rfl

theorem certOnly_prefix {σ' : State} {pre rest : List Action} (h : atts pre = []) (c : CertOnly σ' (atts rest)) :
    CertOnly σ' (atts (pre ++ rest)) := by rw [atts_append, h]; exact c

theorem atts_prefix {pre rest : List Action} (h : atts pre = []) : atts (pre ++ rest) = atts rest := by
  rw [atts_append, h]; rfl

theorem entered_period {a b : PlayerF} (hr : b.round = a.round) (hp : a.period < b.period) (hs : b.step = 1)
    (hn : b.napping = false) : Entered a b := ⟨Or.inr ⟨hr.symm, hp⟩, hs, hn⟩

theorem entered_round {a b : PlayerF} (hr : a.round < b.round) (hs : b.step = 1) (hn : b.napping = false) :
    Entered a b := ⟨Or.inl hr, hs, hn⟩

theorem enterPeriod_a (hs : GSpec P good G) {σ σ' : State} {src : Thresh} {target : Nat} {acts : List Action}
    (hQ : QRoot P good σ.root) (hG : GRoot G σ.root) (he : ThreshValid P good src) (hkind : KindOK src)
    (hk0 : src.kind ≠ 0) (hlt : σ.pl.period < target) (htgt : src.kind ≠ 3 → target = src.period)
    (h : enterPeriod P σ src target = .ok (σ', acts)) :
    QRoot P good σ'.root ∧ GRoot G σ'.root ∧ Entered σ.pl σ'.pl ∧ CertOnly σ' (atts acts) := by
  unfold enterPeriod at h
  split at h
  · cases h
  rename_i σ₁ acts₁ hp
  obtain ⟨q1, g1, p1, a1⟩ := partitionPolicy_a hs hQ hG hp
  split at h
  · cases h
  rename_i σ₂ c ht
  obtain ⟨q2, p2, _⟩ := pmThreshold_spec P good q1 ht
  obtain ⟨g2, _, hround, hstage, hc⟩ := pmThreshold_g hs q1 g1 he hkind hk0 ht
  have hpl : σ₂.pl = σ.pl := p2.trans p1
  simp only [] at h
  have hb : atts (acts₁ ++ [Action.rezero σ₂.pl.round]) = [] := by rw [atts_append, a1]; rfl
  have hround2 : σ₂.pl.round = σ.pl.round := by rw [hpl]
  split at h
  · rename_i v x
    simp only [Except.ok.injEq, Prod.mk.injEq] at h; obtain ⟨rfl, rfl⟩ := h
    obtain ⟨hv, hk⟩ := hc v x rfl
    obtain ⟨pr, hpr, hset, hstg⟩ := hstage hk
    refine ⟨q2, g2, entered_period hround2 hlt rfl rfl, Or.inr ⟨v, ?_, ?_, ?_, ?_⟩⟩
    · rw [atts_append, hb]; rfl
    · show (1 : Nat) ≤ 2
      decide
    · have hr : src.round = σ₂.pl.round := by rw [p2]; exact hround.symm
      have htp : src.period = target := (htgt hk).symm
      have := stagedIs_of_PAt hpr hset hstg
      rw [hr, htp, ← hv] at this
      exact this
    · have hr : src.round = σ₂.pl.round := by rw [p2]; exact hround.symm
      have htp : src.period = target := (htgt hk).symm
      have := pmThreshold_comm ht
      rw [hr, htp] at this
      exact this
  · repeat' split at h
    all_goals (simp only [Except.ok.injEq, Prod.mk.injEq] at h; obtain ⟨rfl, rfl⟩ := h
               refine ⟨q2, g2, entered_period hround2 hlt rfl rfl, Or.inl ?_⟩
               first
                 | exact hb
                 | (rw [atts_append, hb]; rfl))

/-- what the continuation of `enterRoundK` (= `handleThresh` with less fuel) must satisfy -/
def KA (P : Params) (good : Nat → Nat → Nat → Vote → Bool) (G : Nat → Nat → PView → Prop)
    (k : State → Thresh → Except Panic (State × List Action)) : Prop :=
  ∀ σ e σ' acts, QRoot P good σ.root → GRoot G σ.root → ThreshValid P good e → KindOK e → k σ e = .ok (σ', acts) →
    QRoot P good σ'.root ∧ GRoot G σ'.root ∧ Move σ.pl σ'.pl ∧ CertOnly σ' (atts acts)

theorem enterRoundK_a (hs : GSpec P good G) {k : State → Thresh → Except Panic (State × List Action)} (hk : KA P good G k)
    {σ σ' : State} {target : Nat} {acts : List Action} (hQ : QRoot P good σ.root) (hG : GRoot G σ.root)
    (hlt : σ.pl.round < target) (h : enterRoundK P k σ target = .ok (σ', acts)) :
    QRoot P good σ'.root ∧ GRoot G σ'.root ∧ Entered σ.pl σ'.pl ∧ CertOnly σ' (atts acts) := by
  unfold enterRoundK at h
  split at h
  · cases h
  rename_i σ₁ e hn
  obtain ⟨q1, p1⟩ := pmNewRound_spec P good hQ hn
  obtain ⟨g1, _⟩ := pmNewRound_g hs hQ hG hn
  simp only [] at h
  split at h
  · cases h
  rename_i σ₂ ok fr hf
  have hq : ∀ pl', QRoot P good (⟨pl', σ₁.root⟩ : State).root := fun _ => q1
  have hgg : ∀ pl', GRoot G (⟨pl', σ₁.root⟩ : State).root := fun _ => g1
  obtain ⟨q2, hfr, p2⟩ := freshest_spec P good (res := (ok, fr)) (hq _) hf
  obtain ⟨g2, kfr, _⟩ := freshest_g hs (res := (ok, fr)) (hq _) (hgg _) hf
  have hb' : ∀ e' : PayRes, atts (match e' with
      | PayRes.pipelined _ per pin _ up _ => [Action.rezero target, Action.assemble target 0] ++ [Action.verifyPayload target per pin up]
      | _ => [Action.rezero target, Action.assemble target 0]) = [] := by
    intro e'; split <;> rfl
  have hb := hb' e
  have hent : Entered σ.pl σ₂.pl := by
    rw [p2]
    exact entered_round hlt rfl rfl
  split at h
  · split at h
    · cases h
    rename_i σ₃ a4 hk4
    obtain ⟨q3, g3, m3, c3⟩ := hk σ₂ fr _ _ q2 g2 (threshValid_of_ok P good hfr) kfr hk4
    simp only [Except.ok.injEq, Prod.mk.injEq] at h; obtain ⟨rfl, rfl⟩ := h
    exact ⟨q3, g3, hent.then_move m3, certOnly_prefix hb c3⟩
  · simp only [Except.ok.injEq, Prod.mk.injEq] at h; obtain ⟨rfl, rfl⟩ := h
    exact ⟨q2, g2, hent, Or.inl hb⟩

theorem handleThresh_a (hs : GSpec P good G) : ∀ fuel, KA P good G (handleThresh P fuel) := by
  intro fuel
  induction fuel with
  | zero => intro σ e σ' acts _ _ _ _ h; simp [handleThresh] at h
  | succ fuel ih =>
    intro σ e σ' acts hQ hG he hkind h
    simp only [handleThresh] at h
    split at h
    · simp only [Except.ok.injEq, Prod.mk.injEq] at h; obtain ⟨rfl, rfl⟩ := h
      exact ⟨hQ, hG, Move.of_eq rfl, Or.inl rfl⟩
    rename_i hk0
    split at h
    · -- certThreshold
      rename_i hk2
      split at h
      · cases h
      rename_i σ₁ c ht
      obtain ⟨q1, p1, _⟩ := pmThreshold_spec P good hQ ht
      obtain ⟨g1, _⟩ := pmThreshold_g hs hQ hG he hkind hk0 ht
      split at h
      · cases h
      rename_i σ₂ res hst
      obtain ⟨q2, _, p2⟩ := staged_spec P good q1 hst
      obtain ⟨g2, _, _⟩ := staged_g hs q1 g1 hst
      have hpl2 : σ₂.pl = σ.pl := p2.trans p1
      split at h
      · rename_i pay hpay
        split at h
        · cases h
        rename_i σ₃ hc
        obtain ⟨q3, p3⟩ := credHistoryTouch_spec P good q2 hc
        obtain ⟨g3, _⟩ := credHistoryTouch_g hs q2 g2 hc
        split at h
        · cases h
        rename_i σ₄ as her
        obtain ⟨q4, g4, e4, c4⟩ := enterRoundK_a hs ih q3 g3 (Nat.lt_succ_self _) her
        simp only [Except.ok.injEq, Prod.mk.injEq] at h; obtain ⟨rfl, rfl⟩ := h
        exact ⟨q4, g4, Or.inr (Entered.of_same_left (Same4.of_eq (p3.trans hpl2)) e4), by rw [atts_cons]; exact c4⟩
      · split at h
        · rename_i hlt
          split at h
          · cases h
          rename_i σ₃ as hep
          obtain ⟨q3, g3, e3, c3⟩ := enterPeriod_a hs q2 g2 he hkind hk0 hlt (fun _ => rfl) hep
          simp only [Except.ok.injEq, Prod.mk.injEq] at h; obtain ⟨rfl, rfl⟩ := h
          exact ⟨q3, g3, Or.inr (Entered.of_same_left (Same4.of_eq hpl2) e3), by rw [atts_cons]; exact c3⟩
        · simp only [Except.ok.injEq, Prod.mk.injEq] at h; obtain ⟨rfl, rfl⟩ := h
          exact ⟨q2, g2, Move.of_eq hpl2, Or.inl rfl⟩
    rename_i hk2
    split at h
    · -- softThreshold
      rename_i hk1
      split at h
      · simp only [Except.ok.injEq, Prod.mk.injEq] at h; obtain ⟨rfl, rfl⟩ := h
        exact ⟨hQ, hG, Move.of_eq rfl, Or.inl rfl⟩
      split at h
      · rename_i hlt
        obtain ⟨q3, g3, e3, c3⟩ := enterPeriod_a hs hQ hG he hkind hk0 hlt (fun _ => rfl) h
        exact ⟨q3, g3, Or.inr e3, c3⟩
      rename_i hngt hnlt
      split at h
      · cases h
      rename_i σ₁ c ht
      obtain ⟨q1, p1, _⟩ := pmThreshold_spec P good hQ ht
      obtain ⟨g1, _, hround, hstage, hc⟩ := pmThreshold_g hs hQ hG he hkind hk0 ht
      have hper : e.period = σ.pl.period := by omega
      split at h
      · rename_i v x
        split at h
        · rename_i hstep
          simp only [Except.ok.injEq, Prod.mk.injEq] at h; obtain ⟨rfl, rfl⟩ := h
          obtain ⟨hv, hk⟩ := hc v x rfl
          obtain ⟨pr, hpr, hset, hstg⟩ := hstage hk
          refine ⟨q1, g1, Move.of_eq p1, Or.inr ⟨v, rfl, hstep, ?_, ?_⟩⟩
          · have := stagedIs_of_PAt hpr hset hstg
            rw [← hround, hper, ← hv, ← p1] at this
            exact this
          · have := pmThreshold_comm ht
            rw [← hround, hper, ← p1] at this
            exact this
        · simp only [Except.ok.injEq, Prod.mk.injEq] at h; obtain ⟨rfl, rfl⟩ := h
          exact ⟨q1, g1, Move.of_eq p1, Or.inl rfl⟩
      · simp only [Except.ok.injEq, Prod.mk.injEq] at h; obtain ⟨rfl, rfl⟩ := h
        exact ⟨q1, g1, Move.of_eq p1, Or.inl rfl⟩
    · -- nextThreshold
      rename_i hk1
      have hk3 : e.kind = 3 := by
        rcases hkind with h0 | ⟨h1, _⟩ | ⟨h2, _⟩ | ⟨h3, _⟩
        · exact absurd h0 hk0
        · exact absurd h1 hk1
        · exact absurd h2 hk2
        · exact h3
      split at h
      · simp only [Except.ok.injEq, Prod.mk.injEq] at h; obtain ⟨rfl, rfl⟩ := h
        exact ⟨hQ, hG, Move.of_eq rfl, Or.inl rfl⟩
      · rename_i hngt
        obtain ⟨q3, g3, e3, c3⟩ := enterPeriod_a hs hQ hG he hkind hk0 (by omega) (fun hne => absurd hk3 hne) h
        exact ⟨q3, g3, Or.inr e3, c3⟩

/-! ### message events -/

theorem payloadPre_atts (round : Nat) (p : Payload) (ef : PayRes) :
    (∀ ret, (payloadPre round p ef).1 = some ret → atts ret = []) ∧ atts (payloadPre round p ef).2 = [] := by
  cases ef with
  | pipelined r per pin v up vote =>
    unfold payloadPre
    by_cases hr : r = round
    · simp only [hr, if_true]
      refine ⟨?_, rfl⟩
      intro ret h; simp only [Option.some.injEq] at h; subst h; rfl
    · simp only [hr, if_false]
      exact ⟨(by intro ret h; cases h), rfl⟩
  | rejected => exact ⟨(by intro ret h; cases h), rfl⟩
  | malformed => exact ⟨(by intro ret h; cases h), rfl⟩
  | accepted _ _ => exact ⟨(by intro ret h; cases h), rfl⟩
  | committable _ _ => exact ⟨(by intro ret h; cases h), rfl⟩

theorem payloadActs_atts (round : Nat) (p : Payload) (own : Bool) (ef : PayRes) :
    atts (payloadActs round p own ef) = [] := by
  unfold payloadActs
  split
  · rw [atts_append, (payloadPre_atts round p ef).2]; rfl
  · exact (payloadPre_atts round p ef).2

theorem payloadCont_a (τ : State) (ef : PayRes) (acts : List Action) (ha : atts acts = []) :
    (payloadCont τ ef acts).1 = τ ∧
    (atts (payloadCont τ ef acts).2 = [] ∨
      ∃ v a, ef = .committable v a ∧ τ.pl.step ≤ 2 ∧ atts (payloadCont τ ef acts).2 = [⟨τ.pl.round, τ.pl.period, 2, v⟩]) := by
  unfold payloadCont
  split
  · rename_i v a
    split
    · rename_i hstep
      exact ⟨rfl, Or.inr ⟨v, a, rfl, hstep, by rw [atts_append, ha]; rfl⟩⟩
    · exact ⟨rfl, Or.inl ha⟩
  · exact ⟨rfl, Or.inl ha⟩

/-- what the verifiers guarantee about a payload delivered as verified (C03's `EventOK`, plus: its proposal-value is not
bottom; and the modelling bound `Period + 1 < 2^64`, see the header of `Model.Player`) -/
def PayloadOK (σ : State) (verified : Bool) (bad : Bad) (p : Payload) : Prop :=
  verified = true → bad ≠ 2 → bad ≠ 1 →
    p.round = σ.pl.round ∧ p.value ≠ 0 ∧ σ.pl.period + 1 < 18446744073709551616

theorem handlePayload_a (hs : GSpec P good G) (hset : ∀ r p vw, G r p vw → vw.staging ≠ 0 → vw.set = true)
    {fuel : Nat} {σ σ' : State} {verified : Bool} {bad : Bad} {p : Payload} {own : Bool} {acts : List Action}
    (hQ : QRoot P good σ.root) (hG : GRoot G σ.root) (hp : PayloadOK σ verified bad p)
    (h : handlePayload P fuel σ verified bad p own = .ok (σ', acts)) :
    QRoot P good σ'.root ∧ GRoot G σ'.root ∧ Move σ.pl σ'.pl ∧ CertOnly σ' (atts acts) := by
  unfold handlePayload at h
  split at h
  · cases h
  rename_i σ₁ ef hpm
  obtain ⟨q1, p1⟩ := pmPayload_spec P good hQ (fun a b c => (hp a b c).1) hpm
  obtain ⟨g1, hcomm⟩ := pmPayload_g hs hQ hG (fun a b c => (hp a b c).1) hpm
  split at h
  · simp only [Except.ok.injEq, Prod.mk.injEq] at h; obtain ⟨rfl, rfl⟩ := h
    exact ⟨q1, g1, Move.of_eq p1, Or.inl rfl⟩
  split at h
  · rename_i ret hret
    simp only [Except.ok.injEq, Prod.mk.injEq] at h; obtain ⟨rfl, rfl⟩ := h
    exact ⟨q1, g1, Move.of_eq p1, Or.inl ((payloadPre_atts _ p ef).1 _ hret)⟩
  simp only [] at h
  have hacts := payloadActs_atts σ₁.pl.round p own ef
  split at h
  · rename_i hlate
    obtain ⟨hv1, hv2, hv3⟩ := pmPayload_late P hpm hlate
    obtain ⟨hpr, hpv, hfit⟩ := hp hv1 hv2 hv3
    split at h
    · cases h
    rename_i σ₂ ok fr hf
    obtain ⟨q2, hfr, p2⟩ := freshest_spec P good (res := (ok, fr)) q1 hf
    obtain ⟨g2, kfr, _⟩ := freshest_g hs (res := (ok, fr)) q1 g1 hf
    have hpl2 : σ₂.pl = σ.pl := p2.trans p1
    split at h
    · rename_i hcond
      simp only [Bool.and_eq_true, decide_eq_true_eq] at hcond
      obtain ⟨⟨hok, hk2⟩, hval⟩ := hcond
      split at h
      · cases h
      rename_i σ₃ hc
      obtain ⟨q3, p3⟩ := credHistoryTouch_spec P good q2 hc
      obtain ⟨g3, _⟩ := credHistoryTouch_g hs q2 g2 hc
      split at h
      · cases h
      rename_i σ₄ as her
      have hfround : fr.cert.round = σ₃.pl.round := by
        obtain ⟨hr, _⟩ := hfr.1 (by rw [hk2]; decide)
        show fr.round = σ₃.pl.round
        rw [hr, p3, p2]
      obtain ⟨q4, g4, e4, c4⟩ := enterRoundK_a hs (handleThresh_a hs fuel) q3 g3 (by rw [hfround]; exact Nat.lt_succ_self _) her
      simp only [Except.ok.injEq, Prod.mk.injEq] at h; obtain ⟨rfl, rfl⟩ := h
      refine ⟨q4, g4, Or.inr (Entered.of_same_left (Same4.of_eq (p3.trans hpl2)) e4), ?_⟩
      rw [atts_append, hacts, atts_cons]; exact c4
    · simp only [Except.ok.injEq] at h
      obtain ⟨e1, e2⟩ := payloadCont_a σ₂ ef (payloadActs σ₁.pl.round p own ef) hacts
      rw [h] at e1 e2
      simp only [] at e1 e2
      subst e1
      refine ⟨q2, g2, Move.of_eq hpl2, ?_⟩
      rcases e2 with e2 | ⟨v, a, hef, hstep, e2⟩
      · exact Or.inl e2
      · obtain ⟨hvp, pr, hpat, hst⟩ := hcomm v a hef
        have hpat1 : PAt σ₁.root σ₁.pl.round σ₁.pl.period pr := by rw [p1]; exact hpat
        have hpat2 := freshest_frame (by rw [p1]; exact hfit) hpat1 hf
        rw [← p2] at hpat2
        have hset2 := hset _ _ _ (G_of_PAt g2 hpat2) (by
          show pr.ptracker.staging ≠ 0
          rw [hst, hvp]; exact hpv)
        refine Or.inr ⟨v, e2, hstep, stagedIs_of_PAt hpat2 hset2 hst, ?_⟩
        have hc1 := pmPayload_comm (hef ▸ hpm)
        rw [← p1] at hc1
        obtain ⟨rr1, pr1, hat1⟩ := commVal_some hc1
        obtain ⟨rr2, hat2, hst2⟩ := freshest_comm (by rw [p1]; exact hfit) hat1 hf
        rw [← commVal_frame hat1 hat2 hst2, ← p2] at hc1
        exact hc1
  · rename_i hnl
    simp only [Except.ok.injEq] at h
    obtain ⟨e1, e2⟩ := payloadCont_a σ₁ ef (payloadActs σ₁.pl.round p own ef) hacts
    rw [h] at e1 e2
    simp only [] at e1 e2
    subst e1
    refine ⟨q1, g1, Move.of_eq p1, ?_⟩
    rcases e2 with e2 | ⟨v, a, hef, _, _⟩
    · exact Or.inl e2
    · subst hef; simp [PayRes.isLate] at hnl

theorem pvoteFinish_a (hs : GSpec P good G) (hset : ∀ r p vw, G r p vw → vw.staging ≠ 0 → vw.set = true)
    {fuel : Nat} {verified : Bool} {taskIndex : Nat} {tail : Option Payload} {σ σ' : State}
    {acts acts' : List Action} {done : Bool} (hQ : QRoot P good σ.root) (hG : GRoot G σ.root) (ha : atts acts = [])
    (h : pvoteFinish P fuel verified taskIndex tail σ acts done = .ok (σ', acts')) :
    QRoot P good σ'.root ∧ GRoot G σ'.root ∧ Move σ.pl σ'.pl ∧ CertOnly σ' (atts acts') := by
  unfold pvoteFinish at h
  simp only [] at h
  have hsame : Same4 σ.pl (if verified = true then pendingPop σ.pl taskIndex else (σ.pl, tail)).1 := by
    split
    · exact ⟨rfl, rfl, rfl, rfl⟩
    · exact Same4.refl _
  split at h
  · simp only [Except.ok.injEq, Prod.mk.injEq] at h; obtain ⟨rfl, rfl⟩ := h
    exact ⟨hQ, hG, Or.inl hsame, Or.inl ha⟩
  split at h
  · simp only [Except.ok.injEq, Prod.mk.injEq] at h; obtain ⟨rfl, rfl⟩ := h
    exact ⟨hQ, hG, Or.inl hsame, Or.inl ha⟩
  split at h
  · cases h
  rename_i σ₁ suffix hp
  have hq : ∀ pl', QRoot P good (⟨pl', σ.root⟩ : State).root := fun _ => hQ
  have hgg : ∀ pl', GRoot G (⟨pl', σ.root⟩ : State).root := fun _ => hG
  obtain ⟨h1, h2, h3, h4⟩ := handlePayload_a hs hset (hq _) (hgg _) (by intro hv; cases hv) hp
  simp only [Except.ok.injEq, Prod.mk.injEq] at h; obtain ⟨rfl, rfl⟩ := h
  exact ⟨h1, h2, Move.trans (Or.inl hsame) h3, by rw [atts_append, ha]; exact h4⟩

theorem pvoteGo_a (hs : GSpec P good G) (hset : ∀ r p vw, G r p vw → vw.staging ≠ 0 → vw.set = true)
    {fuel : Nat} {verified : Bool} {v : PVote} {taskIndex : Nat} {tail : Option Payload} {ef : PMVote}
    {σ σ' : State} {acts : List Action} (hQ : QRoot P good σ.root) (hG : GRoot G σ.root)
    (h : pvoteGo P fuel verified v taskIndex tail ef σ = .ok (σ', acts)) :
    QRoot P good σ'.root ∧ GRoot G σ'.root ∧ Move σ.pl σ'.pl ∧ CertOnly σ' (atts acts) := by
  unfold pvoteGo at h
  split at h
  · have hq : ∀ pl', QRoot P good (⟨pl', σ.root⟩ : State).root := fun _ => hQ
    have hgg : ∀ pl', GRoot G (⟨pl', σ.root⟩ : State).root := fun _ => hG
    obtain ⟨h1, h2, h3, h4⟩ := pvoteFinish_a hs hset (hq _) (hgg _)
      (acts := [Action.verifyVote v.round v.period (pendingPush σ.pl tail).2]) rfl h
    exact ⟨h1, h2, Move.trans (Or.inl ⟨rfl, rfl, rfl, rfl⟩) h3, h4⟩
  split at h
  · exact pvoteFinish_a hs hset hQ hG rfl h
  · exact pvoteFinish_a hs hset hQ hG rfl h
  · cases h

theorem handlePVote_a (hs : GSpec P good G) (hset : ∀ r p vw, G r p vw → vw.staging ≠ 0 → vw.set = true)
    {fuel : Nat} {σ σ' : State} {verified : Bool} {bad : Bad} {v : PVote} {taskIndex : Nat}
    {tail : Option Payload} {acts : List Action} (hQ : QRoot P good σ.root) (hG : GRoot G σ.root)
    (h : handlePVote P fuel σ verified bad v taskIndex tail = .ok (σ', acts)) :
    QRoot P good σ'.root ∧ GRoot G σ'.root ∧ Move σ.pl σ'.pl ∧ CertOnly σ' (atts acts) := by
  unfold handlePVote at h
  split at h
  · cases h
  rename_i σ₁ ef hpm
  have h1 : QRoot P good σ₁.root ∧ GRoot G σ₁.root ∧ σ₁.pl = σ.pl := by
    split at hpm
    · exact ⟨(pmVoteVerified_spec P good hQ hpm).1, pmVoteVerified_g hs hQ hG hpm, (pmVoteVerified_spec P good hQ hpm).2⟩
    · exact ⟨(pmVotePresent_spec P good hQ hpm).1, pmVotePresent_g hs hQ hG hpm, (pmVotePresent_spec P good hQ hpm).2⟩
  obtain ⟨q1, g1, p1⟩ := h1
  have key : ∀ {σ'' acts''}, (QRoot P good σ''.root ∧ GRoot G σ''.root ∧ Move σ₁.pl σ''.pl ∧ CertOnly σ'' (atts acts'')) →
      (QRoot P good σ''.root ∧ GRoot G σ''.root ∧ Move σ.pl σ''.pl ∧ CertOnly σ'' (atts acts'')) := by
    intro σ'' acts'' ⟨a, b, c, d⟩
    exact ⟨a, b, Move.trans (Move.of_eq p1) c, d⟩
  split at h
  · exact key (pvoteFinish_a hs hset q1 g1 rfl h)
  · repeat' split at h
    all_goals first
      | exact key (pvoteFinish_a hs hset q1 g1 rfl h)
      | exact key (pvoteGo_a hs hset q1 g1 h)
  · exact key (pvoteGo_a hs hset q1 g1 h)

/-! ### the top level: one `handle` -/

def SamePer (a b : PlayerF) : Prop := a.round = b.round ∧ a.period = b.period
def LexLe (a b : PlayerF) : Prop := a.round < b.round ∨ (a.round = b.round ∧ a.period ≤ b.period)

/-- how the attest `b` emitted by a `handle` from player fields `pl` to state `σ'` came about -/
def AttKind (pl : PlayerF) (σ' : State) (b : Attest) : Prop :=
  (b.s = 1 ∧ SamePer pl σ'.pl ∧ pl.step = 1 ∧ σ'.pl.step = 2) ∨
  (b.s = 2 ∧ σ'.pl.step ≤ 2 ∧ StagedIs σ'.root b.r b.p b.v) ∨
  (3 ≤ b.s ∧ b.s = σ'.pl.step ∧ SamePer pl σ'.pl ∧ σ'.pl.napping = false ∧
     ((pl.step = 2 ∧ b.s = 3) ∨ (pl.napping = true ∧ pl.step = b.s))) ∨
  (SamePer pl σ'.pl ∧ σ'.pl.napping = pl.napping ∧ σ'.pl.step = fastStep pl.step b.s ∧
     ((b.s = 253 ∧ StagedIs σ'.root b.r b.p b.v) ∨
      (b.s = 254 ∧ b.v ≠ 0 ∧ CachedIs σ'.root b.r (predPeriod b.p) b.v) ∨ (b.s = 255 ∧ b.v = 0)))

/-- what the proposal store says about the value of a cert / next-type attest right after the `handle` that emitted it:
a cert vote is for the committable value; a next-type vote is for the committable value, or nothing is committable -/
def CommFact (σ' : State) (b : Attest) : Prop :=
  (b.s = 2 → commVal σ'.root b.r b.p = some b.v) ∧
  (3 ≤ b.s → commVal σ'.root b.r b.p = some b.v ∨ commVal σ'.root b.r b.p = none)

/-- what was read from the tree for the value of a soft, next or down vote (abstract rules `RSoftStart`, `RNextVal`; the values
of cert / late / redo votes are in `AttKind`) -/
def ValFact (σ' : State) (b : Attest) : Prop :=
  (b.s = 1 → ∃ ns, CacheAt σ'.root b.r (predPeriod b.p) ns ∧ b.v ≠ 0 ∧
    (0 < b.p → ns.bottom = false → ns.proposal ≠ 0 → b.v = ns.proposal)) ∧
  (3 ≤ b.s → b.s < 253 → commVal σ'.root b.r b.p = some b.v ∨
    ∃ ns, CacheAt σ'.root b.r (predPeriod b.p) ns ∧ b.v = if ns.bottom then 0 else ns.proposal) ∧
  (b.s = 255 → commVal σ'.root b.r b.p = some 0 ∨
    ∃ ns, CacheAt σ'.root b.r (predPeriod b.p) ns ∧ (ns.bottom = true ∨ ns.proposal = 0))

/-- one `handle`: the Step discipline and the attest it may emit -/
structure HStep (pl : PlayerF) (σ' : State) (bs : List Attest) : Prop where
  lex : LexLe pl σ'.pl
  reset : ¬ SamePer pl σ'.pl → σ'.pl.step = 1 ∧ σ'.pl.napping = false
  mono : SamePer pl σ'.pl → pl.step ≤ σ'.pl.step
  nap : σ'.pl.napping = true → SamePer pl σ'.pl ∧
    ((pl.napping = true ∧ σ'.pl.step = pl.step) ∨ (σ'.pl.step = pl.step + 1 ∧ 3 ≤ pl.step))
  att : bs = [] ∨ ∃ b, bs = [b] ∧ b.r = σ'.pl.round ∧ b.p = σ'.pl.period ∧ AttKind pl σ' b
  comm : pl.period + 1 < 18446744073709551616 → ∀ b ∈ bs, CommFact σ' b
  val : σ'.pl.step < 253 → ∀ b ∈ bs, ValFact σ' b

theorem hstep_of_move {pl : PlayerF} {σ' : State} {bs : List Attest} (hm : Move pl σ'.pl) (hc : CertOnly σ' bs) :
    HStep pl σ' bs := by
  have hatt : bs = [] ∨ ∃ b, bs = [b] ∧ b.r = σ'.pl.round ∧ b.p = σ'.pl.period ∧ AttKind pl σ' b := by
    rcases hc with hc | ⟨v, hb, hstep, hst, _⟩
    · exact Or.inl hc
    · exact Or.inr ⟨_, hb, rfl, rfl, Or.inr (Or.inl ⟨rfl, hstep, hst⟩)⟩
  have hcomm : ∀ b ∈ bs, CommFact σ' b := by
    intro b hbm
    rcases hc with hc | ⟨v, hb, _, _, hcv⟩
    · rw [hc] at hbm; cases hbm
    · rw [hb] at hbm
      simp only [List.mem_singleton] at hbm
      subst hbm
      exact ⟨fun _ => hcv, fun h3 => absurd (show 3 ≤ 2 from h3) (by decide)⟩
  have hval : ∀ b ∈ bs, ValFact σ' b := by
    intro b hbm
    rcases hc with hc | ⟨v, hb, _, _, _⟩
    · rw [hc] at hbm; cases hbm
    · rw [hb] at hbm
      simp only [List.mem_singleton] at hbm
      subst hbm
      exact ⟨fun h => absurd (show 2 = 1 from h) (by decide), fun h _ => absurd (show 3 ≤ 2 from h) (by decide),
        fun h => absurd (show 2 = 255 from h) (by decide)⟩
  rcases hm with ⟨e1, e2, e3, e4⟩ | ⟨hlt, hs1, hn⟩
  · exact ⟨Or.inr ⟨e1, Nat.le_of_eq e2⟩, fun hne => absurd ⟨e1, e2⟩ hne, fun _ => Nat.le_of_eq e3,
      fun hnap => ⟨⟨e1, e2⟩, Or.inl ⟨by rw [e4]; exact hnap, e3.symm⟩⟩, hatt, fun _ => hcomm, fun _ => hval⟩
  · refine ⟨?_, fun _ => ⟨hs1, hn⟩, ?_, ?_, hatt, fun _ => hcomm, fun _ => hval⟩
    · rcases hlt with hlt | ⟨hr, hp⟩
      · exact Or.inl hlt
      · exact Or.inr ⟨hr, Nat.le_of_lt hp⟩
    · intro ⟨hr, hp⟩
      rcases hlt with hlt | ⟨_, hp'⟩ <;> omega
    · intro hnap; rw [hn] at hnap; cases hnap

theorem fastStep_ge (st a : Nat) : st ≤ fastStep st a := by
  unfold fastStep
  repeat' split
  all_goals omega

theorem fastStep_high {st : Nat} (a : Nat) (h : 4 ≤ st) : fastStep st a = st := by
  unfold fastStep
  repeat' split
  all_goals omega

/-- what the environment guarantees beyond C03's `EventOK`: see `PayloadOK`; a round interruption names a later round
(`demux.next`: `roundInterruptionEvent{Round: Ledger.NextRound()}` after `Ledger.Wait(player round)` fired) -/
def EventOKA (σ : State) : Player.Event → Prop
  | .payload verified bad p _ => PayloadOK σ verified bad p
  | .roundInterruption r => σ.pl.round < r
  | _ => True

theorem handle_a (hs : GSpec P good G) (hset : ∀ r p vw, G r p vw → vw.staging ≠ 0 → vw.set = true)
    (hg : GoodSpec good) {σ σ' : State} {ev : Player.Event} {acts : List Action}
    (hQ : QRoot P good σ.root) (hG : GRoot G σ.root) (hev : EventOK good σ ev) (heva : EventOKA σ ev)
    (hstep : 1 ≤ σ.pl.step) (hnap : σ.pl.napping = true → 4 ≤ σ.pl.step)
    (h : Player.handle P σ ev = .ok (σ', acts)) : GRoot G σ'.root ∧ HStep σ.pl σ' (atts acts) := by
  have hQ₀ := QRoot_updσ P good 0 hQ
  have hG₀ := GRoot_updσ hs 0 hG
  have hsame : ∀ {τ : State} {as : List Action}, τ.pl = σ.pl → atts as = [] → HStep σ.pl τ (atts as) := by
    intro τ as hp ha
    exact hstep_of_move (Move.of_eq hp) (Or.inl ha)
  unfold Player.handle at h
  simp only [] at h
  cases ev with
  | vote verified bad r p s x =>
    simp only [] at h
    split at h
    · cases h
    rename_i σ₁ ef hv
    obtain ⟨q1, v1, p1⟩ := vaVote_spec P good hg (σ := ⟨_, _⟩) hQ₀ hev hv
    obtain ⟨g1, k1⟩ := vaVote_g hs hg (σ := ⟨_, _⟩) hQ₀ hG₀ hev hv
    split at h
    · simp only [Except.ok.injEq, Prod.mk.injEq] at h; obtain ⟨rfl, rfl⟩ := h; exact ⟨g1, hsame p1 rfl⟩
    · simp only [Except.ok.injEq, Prod.mk.injEq] at h; obtain ⟨rfl, rfl⟩ := h; exact ⟨g1, hsame p1 rfl⟩
    · split at h <;> (simp only [Except.ok.injEq, Prod.mk.injEq] at h; obtain ⟨rfl, rfl⟩ := h; exact ⟨g1, hsame p1 rfl⟩)
    · split at h
      · simp only [Except.ok.injEq, Prod.mk.injEq] at h; obtain ⟨rfl, rfl⟩ := h; exact ⟨g1, hsame p1 rfl⟩
      split at h
      · cases h
      rename_i σ₂ a1 ht
      obtain ⟨_, g2, m2, c2⟩ := handleThresh_a hs _ _ _ _ _ q1 g1 v1 k1 ht
      simp only [Except.ok.injEq, Prod.mk.injEq] at h; obtain ⟨rfl, rfl⟩ := h
      exact ⟨g2, hstep_of_move (Move.trans (Move.of_eq p1) m2) (by rw [atts_cons]; exact c2)⟩
  | pvote verified bad v taskIndex tail =>
    obtain ⟨_, g1, m1, c1⟩ := handlePVote_a hs hset (σ := ⟨_, _⟩) hQ₀ hG₀ h
    exact ⟨g1, hstep_of_move m1 c1⟩
  | payload verified bad p own =>
    obtain ⟨_, g1, m1, c1⟩ := handlePayload_a hs hset (σ := ⟨_, _⟩) hQ₀ hG₀ heva h
    exact ⟨g1, hstep_of_move m1 c1⟩
  | bundle verified bad r p s value votes eqs =>
    simp only [] at h
    split at h
    · cases h
    rename_i σ₁ ef hv
    obtain ⟨q1, v1, p1⟩ := vaBundle_spec P good hg (σ := ⟨_, _⟩) hQ₀ hev hv
    obtain ⟨g1, k1⟩ := vaBundle_g hs hg (σ := ⟨_, _⟩) hQ₀ hG₀ hev hv
    split at h
    · simp only [Except.ok.injEq, Prod.mk.injEq] at h; obtain ⟨rfl, rfl⟩ := h; exact ⟨g1, hsame p1 rfl⟩
    · simp only [Except.ok.injEq, Prod.mk.injEq] at h; obtain ⟨rfl, rfl⟩ := h; exact ⟨g1, hsame p1 rfl⟩
    · simp only [Except.ok.injEq, Prod.mk.injEq] at h; obtain ⟨rfl, rfl⟩ := h; exact ⟨g1, hsame p1 rfl⟩
    · split at h
      · cases h
      rename_i σ₂ a1 ht
      obtain ⟨_, g2, m2, c2⟩ := handleThresh_a hs _ _ _ _ _ q1 g1 v1 k1 ht
      simp only [Except.ok.injEq, Prod.mk.injEq] at h; obtain ⟨rfl, rfl⟩ := h
      exact ⟨g2, hstep_of_move (Move.trans (Move.of_eq p1) m2) (by rw [atts_cons]; exact c2)⟩
  | timeout entropy =>
    simp only [] at h
    have hq : ∀ pl', QRoot P good (⟨pl', σ.root.upd P σ.pl 0⟩ : State).root := fun _ => hQ₀
    have hgg : ∀ pl', GRoot G (⟨pl', σ.root.upd P σ.pl 0⟩ : State).root := fun _ => hG₀
    split at h
    · rename_i hs1
      split at h
      · cases h
      rename_i σ₁ acts₁ hsv
      obtain ⟨_, g1, ⟨e1, e2, e3, e4⟩, a1⟩ := issueSoftVote_a hs (σ := ⟨_, _⟩) hQ₀ hG₀ hsv
      simp only [Except.ok.injEq, Prod.mk.injEq] at h; obtain ⟨rfl, rfl⟩ := h
      have e1' : σ.pl.round = σ₁.pl.round := e1
      have e2' : σ.pl.period = σ₁.pl.period := e2
      have e4' : σ.pl.napping = σ₁.pl.napping := e4
      have hs1' : σ.pl.step = 1 := hs1
      refine ⟨g1, ⟨Or.inr ⟨e1', Nat.le_of_eq e2'⟩, fun hne => absurd ⟨e1', e2'⟩ hne, fun _ => by show σ.pl.step ≤ 2; omega, ?_, ?_, ?_, ?_⟩⟩
      · intro hn
        have hn' : σ₁.pl.napping = true := hn
        have := hnap (by rw [e4']; exact hn')
        omega
      · rcases a1 with a1 | ⟨v, a1⟩
        · exact Or.inl a1
        · exact Or.inr ⟨_, a1, e1', e2', Or.inl ⟨rfl, ⟨e1', e2'⟩, hs1', rfl⟩⟩
      · intro _ b hb
        rcases a1 with a1 | ⟨v, a1⟩
        · rw [a1] at hb; cases hb
        · rw [a1] at hb
          simp only [List.mem_singleton] at hb
          subst hb
          exact ⟨fun h2 => absurd (show 1 = 2 from h2) (by decide), fun h3 => absurd (show 3 ≤ 1 from h3) (by decide)⟩
      · intro _ b hb
        rcases a1 with a1 | ⟨v, a1⟩
        · rw [a1] at hb; cases hb
        · have hvf := issueSoftVote_val hsv v a1
          rw [a1] at hb
          simp only [List.mem_singleton] at hb
          subst hb
          exact ⟨fun _ => hvf, fun h3 _ => absurd (show 3 ≤ 1 from h3) (by decide),
            fun h => absurd (show 1 = 255 from h) (by decide)⟩
    rename_i hs1
    split at h
    · rename_i hs2
      obtain ⟨_, g1, e1, e2, e3, e4, v, a1, c1⟩ := issueNextVote_a hs (hq _) (hgg _) h
      have e1' : σ'.pl.round = σ.pl.round := e1
      have e2' : σ'.pl.period = σ.pl.period := e2
      have e3' : σ'.pl.step = 3 := e3
      have hs2' : σ.pl.step = 2 := hs2
      have a1' : atts acts = [⟨σ.pl.round, σ.pl.period, 3, v⟩] := a1
      have c1' : σ.pl.period + 1 < 18446744073709551616 →
          commVal σ'.root σ.pl.round σ.pl.period = some v ∨ commVal σ'.root σ.pl.round σ.pl.period = none := c1
      refine ⟨g1, ⟨Or.inr ⟨e1'.symm, Nat.le_of_eq e2'.symm⟩, fun hne => absurd ⟨e1'.symm, e2'.symm⟩ hne, fun _ => by omega, ?_, ?_, ?_, ?_⟩⟩
      · intro hn; rw [e4] at hn; cases hn
      · exact Or.inr ⟨_, a1', e1'.symm, e2'.symm, Or.inr (Or.inr (Or.inl ⟨by show (3 : Nat) ≤ 3; decide, e3'.symm,
          ⟨e1'.symm, e2'.symm⟩, e4, Or.inl ⟨hs2', rfl⟩⟩))⟩
      · intro hfit b hb
        rw [a1'] at hb
        simp only [List.mem_singleton] at hb
        subst hb
        exact ⟨fun h2 => absurd (show 3 = 2 from h2) (by decide), fun _ => c1' hfit⟩
      · intro _ b hb
        have hvf := issueNextVote_val h v a1
        rw [a1'] at hb
        simp only [List.mem_singleton] at hb
        subst hb
        exact ⟨fun h => absurd (show 3 = 1 from h) (by decide), fun _ _ => hvf,
          fun h => absurd (show 3 = 255 from h) (by decide)⟩
    rename_i hs2
    split at h
    · rename_i hn0
      obtain ⟨_, g1, e1, e2, e3, e4, v, a1, c1⟩ := issueNextVote_a hs (hq _) (hgg _) h
      have e1' : σ'.pl.round = σ.pl.round := e1
      have e2' : σ'.pl.period = σ.pl.period := e2
      have e3' : σ'.pl.step = σ.pl.step := e3
      have hn0' : σ.pl.napping = true := hn0
      have h4 := hnap hn0'
      have a1' : atts acts = [⟨σ.pl.round, σ.pl.period, σ.pl.step, v⟩] := a1
      have c1' : σ.pl.period + 1 < 18446744073709551616 →
          commVal σ'.root σ.pl.round σ.pl.period = some v ∨ commVal σ'.root σ.pl.round σ.pl.period = none := c1
      refine ⟨g1, ⟨Or.inr ⟨e1'.symm, Nat.le_of_eq e2'.symm⟩, fun hne => absurd ⟨e1'.symm, e2'.symm⟩ hne, fun _ => by omega, ?_, ?_, ?_, ?_⟩⟩
      · intro hn; rw [e4] at hn; cases hn
      · exact Or.inr ⟨_, a1', e1'.symm, e2'.symm, Or.inr (Or.inr (Or.inl ⟨by show 3 ≤ σ.pl.step; omega, e3'.symm,
          ⟨e1'.symm, e2'.symm⟩, e4, Or.inr ⟨hn0', rfl⟩⟩))⟩
      · intro hfit b hb
        rw [a1'] at hb
        simp only [List.mem_singleton] at hb
        subst hb
        exact ⟨fun h2 => by have h2' : σ.pl.step = 2 := h2; omega, fun _ => c1' hfit⟩
      · intro hlt b hb
        have hvf := issueNextVote_val h v a1
        rw [a1'] at hb
        simp only [List.mem_singleton] at hb
        subst hb
        rw [e3'] at hlt
        exact ⟨fun h => by have h' : σ.pl.step = 1 := h; omega, fun _ _ => hvf,
          fun h => by have h' : σ.pl.step = 255 := h; omega⟩
    · simp only [Except.ok.injEq, Prod.mk.injEq] at h; obtain ⟨rfl, rfl⟩ := h
      have hs1' : σ.pl.step ≠ 1 := hs1
      have hs2' : σ.pl.step ≠ 2 := hs2
      refine ⟨hG₀, ⟨Or.inr ⟨rfl, Nat.le_refl _⟩, fun hne => absurd ⟨rfl, rfl⟩ hne, fun _ => by show σ.pl.step ≤ σ.pl.step + 1; omega, ?_, Or.inl rfl, fun _ b hb => (by cases hb), fun _ b hb => (by cases hb)⟩⟩
      intro _
      exact ⟨⟨rfl, rfl⟩, Or.inr ⟨rfl, by omega⟩⟩
  | fastTimeout entropy =>
    simp only [] at h
    split at h
    · simp only [Except.ok.injEq, Prod.mk.injEq] at h; obtain ⟨rfl, rfl⟩ := h
      exact ⟨hG₀, hstep_of_move (Or.inl ⟨rfl, rfl, rfl, rfl⟩) (Or.inl rfl)⟩
    · have hq : ∀ pl', QRoot P good (⟨pl', σ.root.upd P σ.pl 0⟩ : State).root := fun _ => hQ₀
      have hgg : ∀ pl', GRoot G (⟨pl', σ.root.upd P σ.pl 0⟩ : State).root := fun _ => hG₀
      obtain ⟨_, g1, a, v, hb, e1, e2, e3, e4, hk, hcm⟩ := issueFastVote_a hs hset (hq _) (hgg _) h
      have hcm' : σ.pl.period + 1 < 18446744073709551616 →
          commVal σ'.root σ.pl.round σ.pl.period = some v ∨ commVal σ'.root σ.pl.round σ.pl.period = none := hcm
      have hb' : atts acts = [⟨σ.pl.round, σ.pl.period, a, v⟩] := hb
      have hfv := issueFastVote_val h
      have e1' : σ'.pl.round = σ.pl.round := e1
      have e2' : σ'.pl.period = σ.pl.period := e2
      have e3' : σ'.pl.napping = σ.pl.napping := e3
      have e4' : σ'.pl.step = fastStep σ.pl.step a := e4
      refine ⟨g1, ⟨Or.inr ⟨e1'.symm, Nat.le_of_eq e2'.symm⟩, fun hne => absurd ⟨e1'.symm, e2'.symm⟩ hne,
        fun _ => by rw [e4']; exact fastStep_ge _ _, ?_, ?_, ?_, ?_⟩⟩
      · intro hn
        have hn' : σ.pl.napping = true := by rw [← e3']; exact hn
        exact ⟨⟨e1'.symm, e2'.symm⟩, Or.inl ⟨hn', by rw [e4']; exact fastStep_high a (hnap hn')⟩⟩
      · exact Or.inr ⟨_, hb', e1'.symm, e2'.symm, Or.inr (Or.inr (Or.inr ⟨⟨e1'.symm, e2'.symm⟩, e3', e4', hk⟩))⟩
      · intro hfit b hbm
        rw [hb'] at hbm
        simp only [List.mem_singleton] at hbm
        subst hbm
        refine ⟨fun h2 => ?_, fun _ => hcm' hfit⟩
        have h2' : a = 2 := h2
        rcases hk with ⟨k, _⟩ | ⟨k, _⟩ | ⟨k, _⟩ <;> omega
      · intro _ b hbm
        rw [hb'] at hbm
        simp only [List.mem_singleton] at hbm
        subst hbm
        refine ⟨fun h1 => ?_, fun _ h253 => ?_, fun h255 => ?_⟩
        · have h1' : a = 1 := h1
          rcases hk with ⟨k, _⟩ | ⟨k, _⟩ | ⟨k, _⟩ <;> omega
        · have h' : a < 253 := h253
          rcases hk with ⟨k, _⟩ | ⟨k, _⟩ | ⟨k, _⟩ <;> omega
        · have h' : a = 255 := h255
          subst h'
          exact hfv v hb
  | roundInterruption r =>
    obtain ⟨_, g1, e1, c1⟩ := enterRoundK_a hs (handleThresh_a hs _) (σ := ⟨_, _⟩) hQ₀ hG₀ heva h
    exact ⟨g1, hstep_of_move (Or.inr e1) c1⟩
  | checkpoint r p s err =>
    simp only [Except.ok.injEq, Prod.mk.injEq] at h; obtain ⟨rfl, rfl⟩ := h
    exact ⟨hG₀, hsame rfl rfl⟩

end AlgoVerif.Lemmas.PlayerAttest
