import AlgoVerif.Lemmas.VoteTrackerRefine
/-! "Over the threshold" in history terms: stability and monotonicity along accepted votes. -/
namespace AlgoVerif.Lemmas.VoteTracker
open AlgoVerif.Model.VoteTracker AlgoVerif.Spec.VoteTracker

theorem reachesQuorum_mono {c : Cfg} {a b : Nat} (hab : a ≤ b) (h : reachesQuorum c a = true) : reachesQuorum c b = true := by
  unfold reachesQuorum at *
  by_cases hs : c.step = 0
  · simp [hs] at h
  · simp only [hs, if_false, decide_eq_true_eq] at *; omega

theorem specOver_same {c : Cfg} {vs vs' : List Vote} (hf : firsts vs' = firsts vs) (he : ∀ s, IsEquiv vs' s ↔ IsEquiv vs s)
    (u : Nat) : SpecOver c vs' u ↔ SpecOver c vs u := by
  obtain ⟨h1, h2⟩ := spec_same hf he
  unfold SpecOver specCount regWeight eqWeight votersOf
  rw [h1, h2]

theorem mono_new {c : Cfg} {vs : List Vote} {x : Vote} (hn : ¬ Seen vs x.sender) {u : Nat}
    (h : SpecOver c vs u) : SpecOver c (vs ++ [x]) u := by
  obtain ⟨h1, h2⟩ := regular_snoc_new hn
  have hv : votersOf (vs ++ [x]) u = votersOf vs u ++ (if x.value = u then [x] else []) := by
    unfold votersOf; rw [h1, List.filter_append]
    by_cases h : x.value = u <;> simp [h]
  obtain ⟨hne, hq⟩ := h
  constructor
  · rw [hv]; intro h0
    exact hne (List.append_eq_nil_iff.mp h0).1
  · apply reachesQuorum_mono _ hq
    unfold specCount regWeight eqWeight
    rw [hv, h2, wsum_append]; omega

theorem votersOf_equivocate {vs : List Vote} {x old : Vote} (hold : old ∈ regular vs) (hs : old.sender = x.sender)
    (hv : old.value ≠ x.value) (v : Nat) :
    votersOf (vs ++ [x]) v = (votersOf vs v).filter (fun y => y.sender != x.sender) := by
  obtain ⟨holdf, hne'⟩ := regular_sub_firsts hold
  obtain ⟨h1, _⟩ := regular_snoc_equivocate holdf hs (hs ▸ hne') hv
  unfold votersOf; rw [h1, List.filter_filter, List.filter_filter]
  apply filter_congr'; intro a _; exact Bool.and_comm _ _

theorem mono_equivocate {c : Cfg} {vs : List Vote} {x old : Vote} (hpos : PosWeights vs)
    (hold : old ∈ regular vs) (hs : old.sender = x.sender) (hv : old.value ≠ x.value)
    (hq : reachesQuorum c (eqWeight (vs ++ [x])) = false) {u : Nat}
    (h : SpecOver c vs u) : SpecOver c (vs ++ [x]) u := by
  obtain ⟨holdf, hne'⟩ := regular_sub_firsts hold
  obtain ⟨_, h2⟩ := regular_snoc_equivocate holdf hs (hs ▸ hne') hv
  obtain ⟨e1, e2, e3⟩ := old_entry hpos hold hs
  have hvo := votersOf_equivocate hold hs hv
  obtain ⟨hne, hr⟩ := h
  by_cases hu : u = old.value
  · subst hu
    by_cases hrest : (votersOf vs old.value).filter (fun y => y.sender != x.sender) = []
    · exfalso
      rw [hrest, wsum_nil] at e1
      have : specCount vs old.value = eqWeight (vs ++ [x]) := by
        unfold specCount regWeight; rw [h2, e1]; omega
      rw [this, hq] at hr; cases hr
    · constructor
      · rw [hvo]; exact hrest
      · apply reachesQuorum_mono _ hr
        unfold specCount regWeight
        rw [hvo, h2]; omega
  · constructor
    · rw [hvo, e3 u hu]; exact hne
    · apply reachesQuorum_mono _ hr
      unfold specCount regWeight
      rw [hvo, e3 u hu, h2]; omega

/-- no regular voter ⇒ nothing is over the threshold and `overThreshold` returns (_, false) -/
theorem no_voters_no_over {c : Cfg} {vs : List Vote} {t : Tracker} (hR : Refines vs t) (h : t.voters = []) :
    (∀ u, ¬ SpecOver c vs u) ∧ overThreshold c t = .ok none := by
  have hreg : regular vs = [] := by rw [← hR.voters]; exact h
  have hvo : ∀ u, votersOf vs u = [] := by intro u; unfold votersOf; rw [hreg]; rfl
  constructor
  · intro u hu; exact hu.1 (hvo u)
  · rw [overThreshold_eq]
    have : t.counts = [] := by
      cases hc : t.counts with
      | nil => rfl
      | cons kv l =>
        exfalso
        have : kv.1 ∈ t.counts.map Prod.fst := by rw [hc]; simp
        exact (mem_keys_iff hR kv.1).mp this (hvo _)
    rw [this]; rfl

end AlgoVerif.Lemmas.VoteTracker
