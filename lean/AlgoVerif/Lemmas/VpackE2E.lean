import AlgoVerif.Lemmas.VpackDecompressS
/-! The stateless form of a canonical vote is a well-formed `SVote`: the stateful theorem applies to it. -/
namespace AlgoVerif.Lemmas.Vpack
open AlgoVerif.Model.Vpack AlgoVerif.Spec.Vpack

theorem dec_iff {P : Prop} [Decidable P] {b : Bool} (h : decide P = b) : P ↔ b = true := by
  subst h; simp

theorem mask_bit_iff (m : MVote) :
    ((m.mask &&& bitPer ≠ 0) ↔ m.per.isSome = true) ∧ ((m.mask &&& bitDig ≠ 0) ↔ m.dig.isSome = true) ∧
    ((m.mask &&& bitEncDig ≠ 0) ↔ m.encdig.isSome = true) ∧ ((m.mask &&& bitOper ≠ 0) ↔ m.oper.isSome = true) ∧
    ((m.mask &&& bitOprop ≠ 0) ↔ m.oprop.isSome = true) ∧ ((m.mask &&& bitStep ≠ 0) ↔ m.step.isSome = true) := by
  obtain ⟨g1, g2, g3, g4, g5, g6, _⟩ := maskB_facts m.per.isSome m.dig.isSome m.encdig.isSome m.oper.isSome m.oprop.isSome m.step.isSome
  rw [mask_eq]
  exact ⟨dec_iff g1, dec_iff g2, dec_iff g3, dec_iff g4, dec_iff g5, dec_iff g6⟩

theorem opt_ouint (mask bit : UInt8) (o : Option Nat) (h : (mask &&& bit ≠ 0) ↔ o.isSome = true) :
    opt mask bit (ouint o) = ouint o := by
  unfold opt
  cases o with
  | none => simp [ouint]
  | some v => rw [if_pos (h.2 rfl)]

theorem opt_obytes (mask bit : UInt8) (o : Option Bytes) (h : (mask &&& bit ≠ 0) ↔ o.isSome = true) :
    opt mask bit (obytes o) = obytes o := by
  unfold opt
  cases o with
  | none => simp [obytes]
  | some v => rw [if_pos (h.2 rfl)]

theorem sl_eq_ser (m : MVote) : m.sl = ser m.toSVote := by
  obtain ⟨b1, b2, b3, b4, b5, b6⟩ := mask_bit_iff m
  simp only [ser, SVote.body, SVote.propLit, MVote.toSVote, MVote.sl,
    opt_ouint _ _ _ b1, opt_obytes _ _ _ b2, opt_obytes _ _ _ b3, opt_ouint _ _ _ b4, opt_obytes _ _ _ b5, opt_ouint _ _ _ b6,
    List.append_assoc]

theorem ouint_isVaruint (o : Option Nat) (ho : ∀ x, o = some x → x < M64) (hs : o.isSome = true) :
    ∃ x, IsVaruint (ouint o) x := by
  cases o with
  | none => cases hs
  | some v => exact ⟨v, isVaruint_appendUint64 v (ho v rfl)⟩

theorem obytes_len (o : Option Bytes) (ho : ∀ x, o = some x → x.length = 32) (hs : o.isSome = true) :
    (obytes o).length = 32 := by
  cases o with
  | none => cases hs
  | some v => exact ho v rfl

theorem toSVote_wf (m : MVote) (hw : m.WF) : m.toSVote.WF := by
  obtain ⟨b1, b2, b3, b4, b5, b6⟩ := mask_bit_iff m
  exact {
    pf := hw.pf
    per := fun h => ouint_isVaruint m.per hw.per (b1.1 h)
    dig := fun h => obytes_len m.dig hw.dig (b2.1 h)
    encdig := fun h => obytes_len m.encdig hw.encdig (b3.1 h)
    oper := fun h => ouint_isVaruint m.oper hw.oper (b4.1 h)
    oprop := fun h => obytes_len m.oprop hw.oprop (b5.1 h)
    rnd := hw.rnd
    snd := hw.snd
    step := fun h => ouint_isVaruint m.step hw.step (b6.1 h)
    pk := by show (m.p ++ m.p1s).length = 96; rw [List.length_append, hw.p, hw.p1s]
    pk2 := by show (m.p2 ++ m.p2s).length = 96; rw [List.length_append, hw.p2, hw.p2s]
    sig := hw.s }

end AlgoVerif.Lemmas.Vpack
