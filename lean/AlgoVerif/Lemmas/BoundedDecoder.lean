/-
Lemmas about Model.BoundedDecoder: the log invariant `Inv` (reads are paid for by consumed bytes, every allocation request
meets `okEv` and was made with no more input left than the decode started with), its preservation by `P.bind`, by every
runtime primitive and by every combinator of the generated code, and `dec_inv` by structural induction on the schema.
-/
import AlgoVerif.Model.BoundedDecoder
namespace AlgoVerif.BoundedDecoder
open AlgoVerif.Msgpack

/-! ## input accounting of `Base.Msgpack` -/

theorem readBE_len : ∀ (k : Nat) (r : Bytes) (n : Nat) (t : Bytes), readBE k r = some (n, t) → t.length + k = r.length
  | 0, r, n, t, h => by simp [readBE] at h; obtain ⟨_, rfl⟩ := h; simp
  | k+1, [], n, t, h => by simp [readBE] at h
  | k+1, b :: r, n, t, h => by
    simp only [readBE] at h
    split at h
    · simp at h
    · next m t' hm =>
      simp only [Option.some.injEq, Prod.mk.injEq] at h
      obtain ⟨_, rfl⟩ := h
      have := readBE_len k r m t' hm
      simp; omega

theorem readBE_lt : ∀ (k : Nat) (r : Bytes) (n : Nat) (t : Bytes), readBE k r = some (n, t) → n < 256 ^ k
  | 0, r, n, t, h => by simp [readBE] at h; obtain ⟨rfl, _⟩ := h; simp
  | k+1, [], n, t, h => by simp [readBE] at h
  | k+1, b :: r, n, t, h => by
    simp only [readBE] at h
    split at h
    · simp at h
    · next m t' hm =>
      simp only [Option.some.injEq, Prod.mk.injEq] at h
      obtain ⟨rfl, _⟩ := h
      have h1 := readBE_lt k r m t' hm
      have h2 : b.toNat < 256 := UInt8.toNat_lt b
      calc b.toNat * 256 ^ k + m < b.toNat * 256 ^ k + 256 ^ k := by omega
        _ = (b.toNat + 1) * 256 ^ k := by rw [Nat.add_mul, Nat.one_mul]
        _ ≤ 256 * 256 ^ k := Nat.mul_le_mul_right _ (by omega)
        _ = 256 ^ (k + 1) := by rw [Nat.pow_succ, Nat.mul_comm]

theorem rd_spec {k : Nat} {f : Nat → Hd} {r : Bytes} {h : Hd} {t : Bytes} (e : rd k f r = some (h, t)) :
    t.length + k = r.length ∧ ∃ m, m < 256 ^ k ∧ h = f m := by
  unfold rd at e
  split at e
  · simp at e
  · next n t' hn =>
    simp only [Option.some.injEq, Prod.mk.injEq] at e
    obtain ⟨rfl, rfl⟩ := e
    exact ⟨readBE_len k r n t' hn, n, readBE_lt k r n t' hn, rfl⟩

theorem pw2 : (256:Nat)^2 = 65536 := by decide
theorem pw4 : (256:Nat)^4 = 4294967296 := by decide

set_option hygiene false in
local macro "hd_leaf" : tactic => `(tactic| first
  | (simp only [Option.some.injEq, Prod.mk.injEq] at e
     obtain ⟨rfl, rfl⟩ := e
     refine ⟨by simp, ?_, ?_⟩ <;> intro n hn <;>
       first | (cases hn; done) | (simp only [Hd.arr.injEq, Hd.map.injEq] at hn; omega))
  | (obtain ⟨hl, m, hm, rfl⟩ := rd_spec e
     refine ⟨by simp only [List.length_cons]; omega, ?_, ?_⟩ <;> intro n hn <;>
       first
       | (cases hn; done)
       | (simp only [Hd.arr.injEq, Hd.map.injEq] at hn; subst hn; simp only [pw2, pw4] at hm; omega)
       | (unfold sint at hn; split at hn <;> cases hn)))

set_option maxRecDepth 8000 in
/-- a header that parses consumes at least one byte; array / map headers announce fewer than 2^32 (the chain of
`by_cases` follows the tag dispatch of `decHd` line by line) -/
theorem decHd_spec {bs : Bytes} {h : Hd} {r : Bytes} (e : decHd bs = some (h, r)) :
    r.length + 1 ≤ bs.length ∧ (∀ n, h = .arr n → n < 4294967296) ∧ (∀ n, h = .map n → n < 4294967296) := by
  unfold decHd at e
  split at e
  · simp at e
  · next b r' =>
    simp only at e
    by_cases c0 : b.toNat < 128
    · rw [if_pos c0] at e; hd_leaf
    rw [if_neg c0] at e
    by_cases c1 : b.toNat < 144
    · rw [if_pos c1] at e; hd_leaf
    rw [if_neg c1] at e
    by_cases c2 : b.toNat < 160
    · rw [if_pos c2] at e; hd_leaf
    rw [if_neg c2] at e
    by_cases c3 : b.toNat < 192
    · rw [if_pos c3] at e; hd_leaf
    rw [if_neg c3] at e
    by_cases c4 : 224 ≤ b.toNat
    · rw [if_pos c4] at e; hd_leaf
    rw [if_neg c4] at e
    by_cases c5 : b.toNat = 192
    · rw [if_pos c5] at e; hd_leaf
    rw [if_neg c5] at e
    by_cases c6 : b.toNat = 194
    · rw [if_pos c6] at e; hd_leaf
    rw [if_neg c6] at e
    by_cases c7 : b.toNat = 195
    · rw [if_pos c7] at e; hd_leaf
    rw [if_neg c7] at e
    by_cases c8 : b.toNat = 196
    · rw [if_pos c8] at e; hd_leaf
    rw [if_neg c8] at e
    by_cases c9 : b.toNat = 197
    · rw [if_pos c9] at e; hd_leaf
    rw [if_neg c9] at e
    by_cases c10 : b.toNat = 198
    · rw [if_pos c10] at e; hd_leaf
    rw [if_neg c10] at e
    by_cases c11 : b.toNat = 204
    · rw [if_pos c11] at e; hd_leaf
    rw [if_neg c11] at e
    by_cases c12 : b.toNat = 205
    · rw [if_pos c12] at e; hd_leaf
    rw [if_neg c12] at e
    by_cases c13 : b.toNat = 206
    · rw [if_pos c13] at e; hd_leaf
    rw [if_neg c13] at e
    by_cases c14 : b.toNat = 207
    · rw [if_pos c14] at e; hd_leaf
    rw [if_neg c14] at e
    by_cases c15 : b.toNat = 208
    · rw [if_pos c15] at e; hd_leaf
    rw [if_neg c15] at e
    by_cases c16 : b.toNat = 209
    · rw [if_pos c16] at e; hd_leaf
    rw [if_neg c16] at e
    by_cases c17 : b.toNat = 210
    · rw [if_pos c17] at e; hd_leaf
    rw [if_neg c17] at e
    by_cases c18 : b.toNat = 211
    · rw [if_pos c18] at e; hd_leaf
    rw [if_neg c18] at e
    by_cases c19 : b.toNat = 217
    · rw [if_pos c19] at e; hd_leaf
    rw [if_neg c19] at e
    by_cases c20 : b.toNat = 218
    · rw [if_pos c20] at e; hd_leaf
    rw [if_neg c20] at e
    by_cases c21 : b.toNat = 219
    · rw [if_pos c21] at e; hd_leaf
    rw [if_neg c21] at e
    by_cases c22 : b.toNat = 220
    · rw [if_pos c22] at e; hd_leaf
    rw [if_neg c22] at e
    by_cases c23 : b.toNat = 221
    · rw [if_pos c23] at e; hd_leaf
    rw [if_neg c23] at e
    by_cases c24 : b.toNat = 222
    · rw [if_pos c24] at e; hd_leaf
    rw [if_neg c24] at e
    by_cases c25 : b.toNat = 223
    · rw [if_pos c25] at e; hd_leaf
    rw [if_neg c25] at e
    simp at e

theorem decHd_len {bs : Bytes} {h : Hd} {r : Bytes} (e : decHd bs = some (h, r)) : r.length + 1 ≤ bs.length :=
  (decHd_spec e).1
theorem decHd_arr_lt {bs : Bytes} {n : Nat} {r : Bytes} (e : decHd bs = some (.arr n, r)) : n < 4294967296 :=
  (decHd_spec e).2.1 n rfl
theorem decHd_map_lt {bs : Bytes} {n : Nat} {r : Bytes} (e : decHd bs = some (.map n, r)) : n < 4294967296 :=
  (decHd_spec e).2.2 n rfl

theorem takeAux_len : ∀ (k : Nat) (bs acc x t : Bytes), takeAux k bs acc = some (x, t) →
    t.length + k = bs.length ∧ x.length = acc.length + k
  | 0, bs, acc, x, t, h => by simp [takeAux] at h; obtain ⟨rfl, rfl⟩ := h; simp
  | k+1, [], acc, x, t, h => by simp [takeAux] at h
  | k+1, b :: r, acc, x, t, h => by
    simp only [takeAux] at h
    have := takeAux_len k r (b :: acc) x t h
    simp only [List.length_cons] at this ⊢
    omega

theorem takeN_len {k : Nat} {bs x t : Bytes} (h : takeN k bs = some (x, t)) : t.length + k = bs.length ∧ x.length = k := by
  unfold takeN at h
  have := takeAux_len k bs [] x t h
  simpa using this

/-! ## the invariant -/

def evOK (len : Nat) : Ev → Prop
  | .read => True
  | .dup => True
  | .alloc k ob n avail => okEv (.alloc k ob n avail) = true ∧ avail ≤ len

def logOK (len : Nat) (l : Log) : Prop := ∀ e ∈ l, evOK len e

/-- on input `bs`: every request is sound and was made with at most `bs.length` bytes left; every read of a successful
run is paid for by a consumed byte; a failing run makes at most one read more than it has bytes -/
def Inv {α : Type} (bs : Bytes) (x : Log × Except Err (α × Bytes)) : Prop :=
  logOK bs.length x.1 ∧
  match x.2 with
  | .ok (_, r) => r.length + reads x.1 ≤ bs.length
  | .error _ => reads x.1 ≤ bs.length + 1

def PInv {α : Type} (p : P α) : Prop := ∀ bs, Inv bs (p bs)

theorem reads_append (l1 l2 : Log) : reads (l1 ++ l2) = reads l1 + reads l2 := by
  induction l1 with
  | nil => simp [reads]
  | cons e l ih => cases e <;> simp [reads, ih] <;> omega

theorem evOK_mono {a b : Nat} (h : a ≤ b) {e : Ev} (he : evOK a e) : evOK b e := by
  cases e with
  | read => trivial
  | dup => trivial
  | alloc k ob n avail => exact ⟨he.1, Nat.le_trans he.2 h⟩

theorem logOK_mono {a b : Nat} (h : a ≤ b) {l : Log} (hl : logOK a l) : logOK b l :=
  fun e he => evOK_mono h (hl e he)

theorem logOK_append {len : Nat} {l1 l2 : Log} (h1 : logOK len l1) (h2 : logOK len l2) : logOK len (l1 ++ l2) := by
  intro e he
  rcases List.mem_append.mp he with h | h
  · exact h1 e h
  · exact h2 e h

theorem logOK_nil (len : Nat) : logOK len [] := by intro e he; cases he

theorem logOK_read (len : Nat) : logOK len [.read] := by
  intro e he; simp at he; subst he; trivial

theorem logOK_cons_read {len : Nat} {l : Log} (h : logOK len l) : logOK len (.read :: l) := by
  intro e he
  rcases List.mem_cons.mp he with rfl | h'
  · trivial
  · exact h e h'

theorem inv_pure {α : Type} (a : α) : PInv (P.pure a) := by
  intro bs; exact ⟨logOK_nil _, by simp [P.pure, reads]⟩

theorem inv_fail {α : Type} (e : Err) : PInv (P.fail e : P α) := by
  intro bs; exact ⟨logOK_nil _, by simp [P.fail, reads]⟩

theorem inv_nil_err {α : Type} (bs : Bytes) (e : Err) : Inv bs (([], .error e) : Log × Except Err (α × Bytes)) :=
  ⟨logOK_nil _, by simp [reads]⟩

theorem inv_read_err {α : Type} (bs : Bytes) (e : Err) : Inv bs (([.read], .error e) : Log × Except Err (α × Bytes)) :=
  ⟨logOK_read _, by simp [reads]⟩

theorem inv_read_ok {α : Type} {bs r : Bytes} (a : α) (h : r.length + 1 ≤ bs.length) :
    Inv bs (([.read], .ok (a, r)) : Log × Except Err (α × Bytes)) :=
  ⟨logOK_read _, by simp [reads]; omega⟩

theorem inv_alloc (k : AKind) (ob : Option Nat) (n : Nat) (bs : Bytes) (h : okEv (.alloc k ob n bs.length) = true) :
    Inv bs (P.alloc k ob n bs) := by
  refine ⟨?_, by simp [P.alloc, reads]⟩
  intro e he
  simp [P.alloc] at he
  subst he
  exact ⟨h, Nat.le_refl _⟩

/-- `bind` preserves the invariant: the continuation runs on what is left -/
theorem inv_bind {α β : Type} {p : P α} {f : α → P β} {bs : Bytes} (hp : Inv bs (p bs))
    (hf : ∀ a r, (p bs).2 = .ok (a, r) → Inv r (f a r)) : Inv bs (P.bind p f bs) := by
  unfold P.bind
  rcases hpb : p bs with ⟨l, x⟩
  rw [hpb] at hp hf
  cases x with
  | error e => exact ⟨hp.1, hp.2⟩
  | ok ar =>
    rcases ar with ⟨a, r⟩
    have h2 := hf a r rfl
    obtain ⟨hl, hr⟩ := hp
    obtain ⟨hl2, hr2⟩ := h2
    simp only at hr hl ⊢
    have hle : r.length ≤ bs.length := by omega
    refine ⟨logOK_append hl (logOK_mono hle hl2), ?_⟩
    simp only [reads_append]
    cases hy : (f a r).2 with
    | error e => rw [hy] at hr2; simp only at hr2 ⊢; omega
    | ok br => rcases br with ⟨b, r2⟩; rw [hy] at hr2; simp only at hr2 ⊢; omega

theorem pinv_bind {α β : Type} {p : P α} {f : α → P β} (hp : PInv p) (hf : ∀ a, PInv (f a)) : PInv (P.bind p f) :=
  fun bs => inv_bind (hp bs) (fun a r _ => hf a r)

/-- relabelling errors keeps the invariant -/
theorem inv_asType {α : Type} {p : P α} {bs : Bytes} (h : Inv bs (p bs)) : Inv bs (asType p bs) := by
  unfold asType
  rcases hpb : p bs with ⟨l, x⟩
  rw [hpb] at h
  cases x with
  | error e => exact ⟨h.1, by simpa using h.2⟩
  | ok ar => exact h

/-- mapping the value of a result keeps the invariant -/
theorem inv_map_ok {α β : Type} {bs : Bytes} {l : Log} {a : α} {t : Bytes} (b : β)
    (h : Inv bs ((l, .ok (a, t)) : Log × Except Err (α × Bytes))) : Inv bs ((l, .ok (b, t)) : Log × Except Err (β × Bytes)) := h

theorem inv_map_err {α β : Type} {bs : Bytes} {l : Log} {e e' : Err}
    (h : Inv bs ((l, .error e) : Log × Except Err (α × Bytes))) : Inv bs ((l, .error e') : Log × Except Err (β × Bytes)) := h

/-- one more read in front of a run on the rest of a parsed header -/
theorem inv_cons_read {α : Type} {bs r : Bytes} {x : Log × Except Err (α × Bytes)} (hr : r.length + 1 ≤ bs.length)
    (h : Inv r x) : Inv bs (.read :: x.1, x.2) := by
  obtain ⟨hl, hx⟩ := h
  refine ⟨logOK_cons_read (logOK_mono (by omega) hl), ?_⟩
  simp only [reads]
  cases hx2 : x.2 with
  | error e => rw [hx2] at hx; simp only at hx ⊢; omega
  | ok ar => rcases ar with ⟨a, t⟩; rw [hx2] at hx; simp only at hx ⊢; omega

/-! ## primitives -/

theorem inv_rdMapHdr : PInv rdMapHdr := by
  intro bs; unfold rdMapHdr
  split
  · next n r h => exact inv_read_ok _ (decHd_len h)
  · next r h => exact inv_read_ok _ (decHd_len h)
  · exact inv_read_err _ _
  · exact inv_read_err _ _

theorem inv_rdArrHdr (fl : Bool) : PInv (rdArrHdr fl) := by
  intro bs; unfold rdArrHdr
  split
  · next n r h => exact inv_read_ok _ (decHd_len h)
  · next n r h =>
    split
    · exact inv_read_ok _ (decHd_len h)
    · exact inv_read_err _ _
  · next r h => exact inv_read_ok _ (decHd_len h)
  · exact inv_read_err _ _
  · exact inv_read_err _ _

theorem rdArrHdr_bound {fl : Bool} {bs : Bytes} {n : Nat} {isnil : Bool} {r : Bytes}
    (h : (rdArrHdr fl bs).2 = .ok ((n, isnil), r)) : n ≤ 2 * 4294967295 := by
  unfold rdArrHdr at h
  split at h
  · next m r' hd =>
    simp only [Except.ok.injEq, Prod.mk.injEq] at h
    have := decHd_arr_lt hd; omega
  · next m r' hd =>
    split at h
    · simp only [Except.ok.injEq, Prod.mk.injEq] at h
      have := decHd_map_lt hd; omega
    · simp at h
  · simp only [Except.ok.injEq, Prod.mk.injEq] at h; omega
  · simp at h
  · simp at h

theorem rdMapHdr_bound {bs : Bytes} {n : Nat} {isnil : Bool} {r : Bytes}
    (h : (rdMapHdr bs).2 = .ok ((n, isnil), r)) : n ≤ 2 * 4294967295 := by
  unfold rdMapHdr at h
  split at h
  · next m r' hd =>
    simp only [Except.ok.injEq, Prod.mk.injEq] at h
    have := decHd_map_lt hd; omega
  · simp only [Except.ok.injEq, Prod.mk.injEq] at h; omega
  · simp at h
  · simp at h

theorem inv_rdStructHdr : PInv rdStructHdr := by
  intro bs; unfold rdStructHdr
  split
  · next n r h => exact inv_read_ok _ (decHd_len h)
  · next r h => exact inv_read_ok _ (decHd_len h)
  · next n r h => exact inv_read_ok _ (decHd_len h)
  · exact inv_read_err _ _
  · exact inv_read_err _ _

theorem inv_rdUint (bits : Nat) : PInv (rdUint bits) := by
  intro bs; unfold rdUint
  split
  · next n r h =>
    split
    · exact inv_read_ok _ (decHd_len h)
    · exact inv_read_err _ _
  · next r h => exact inv_read_ok _ (decHd_len h)
  · exact inv_read_err _ _
  · exact inv_read_err _ _
  · exact inv_read_err _ _

theorem inv_rdInt (bits : Nat) : PInv (rdInt bits) := by
  intro bs; unfold rdInt
  split
  · next n r h =>
    split
    · exact inv_read_ok _ (decHd_len h)
    · exact inv_read_err _ _
  · next i r h =>
    split
    · exact inv_read_ok _ (decHd_len h)
    · exact inv_read_err _ _
  · next r h => exact inv_read_ok _ (decHd_len h)
  · exact inv_read_err _ _
  · exact inv_read_err _ _

theorem inv_rdBool : PInv rdBool := by
  intro bs; unfold rdBool
  split
  · next b r h => exact inv_read_ok _ (decHd_len h)
  · next r h => exact inv_read_ok _ (decHd_len h)
  · exact inv_read_err _ _
  · exact inv_read_err _ _

theorem inv_rdByteArr : ∀ n, PInv (rdByteArr n)
  | 0 => by unfold rdByteArr; exact inv_pure _
  | n+1 => by
    unfold rdByteArr
    exact pinv_bind (inv_rdUint 8) fun b => pinv_bind (inv_rdByteArr n) fun t => inv_pure _

theorem inv_slowBytes (ob : Option Nat) (count : Nat) (r : Bytes) (hb : leB count ob = true) : Inv r (slowBytes ob count r) := by
  unfold slowBytes
  split
  · exact inv_nil_err _ _
  · next hlt =>
    refine inv_bind (inv_alloc _ _ _ _ ?_) (fun _ r' _ => inv_asType (inv_rdByteArr count r'))
    simp only [okEv, Bool.and_eq_true, decide_eq_true_eq]
    exact ⟨by omega, hb⟩

/-- `ReadBytesBytes` under the premise that the announced length passed the allocbound check -/
theorem inv_rdBytes (ob : Option Nat) (bs : Bytes) (hb : ∀ n, peekBytesLen bs = .ok n → leB n ob = true) :
    Inv bs (rdBytes ob bs) := by
  unfold rdBytes
  split
  · next n r h =>
    split
    · exact inv_read_err _ _
    · next x t ht =>
      have hl := decHd_len h
      have ht' := (takeN_len ht).1
      have hn : leB n ob = true := hb n (by simp [peekBytesLen, h])
      refine ⟨?_, by simp [reads]; omega⟩
      intro e he
      simp only [List.mem_cons, List.mem_nil_iff, or_false] at he
      rcases he with rfl | rfl
      · trivial
      · exact ⟨by simp only [okEv, Bool.and_eq_true, decide_eq_true_eq]; exact ⟨by omega, hn⟩, by omega⟩
  · next n r h =>
    split
    · exact inv_read_err _ _
    · next x t ht =>
      have hl := decHd_len h
      have ht' := (takeN_len ht).1
      have hn : leB n ob = true := hb n (by simp [peekBytesLen, h])
      refine ⟨?_, by simp [reads]; omega⟩
      intro e he
      simp only [List.mem_cons, List.mem_nil_iff, or_false] at he
      rcases he with rfl | rfl
      · trivial
      · exact ⟨by simp only [okEv, Bool.and_eq_true, decide_eq_true_eq]; exact ⟨by omega, hn⟩, by omega⟩
  · next r h => exact inv_read_ok _ (decHd_len h)
  · next n r h =>
    have hn : leB n ob = true := hb n (by simp [peekBytesLen, h])
    have hs := inv_slowBytes ob n r hn
    have hc := inv_cons_read (decHd_len h) hs
    split
    · next l x t hx => rw [hx] at hc; exact hc
    · next l e hx => rw [hx] at hc; exact hc
  · next n r h =>
    have hn : leB (2 * n) ob = true := hb (2 * n) (by simp [peekBytesLen, h])
    have hs := inv_slowBytes ob (2 * n) r hn
    have hc := inv_cons_read (decHd_len h) hs
    split
    · next l x t hx => rw [hx] at hc; exact hc
    · next l e hx => rw [hx] at hc; exact hc
  · exact inv_read_err _ _
  · exact inv_read_err _ _

theorem leB_none (n : Nat) : leB n none = true := rfl

theorem inv_decBytes (ob : Option Nat) : PInv (decBytes ob) := by
  intro bs; unfold decBytes
  split
  · exact inv_rdBytes none bs (fun n _ => leB_none n)
  · next b =>
    split
    · exact inv_nil_err _ _
    · next n hp =>
      split
      · exact inv_nil_err _ _
      · next hle =>
        refine inv_rdBytes (some b) bs ?_
        intro m hm
        rw [hp] at hm
        simp only [Except.ok.injEq] at hm
        subst hm
        simp only [leB, decide_eq_true_eq]; omega

theorem inv_rdStrCore (ob : Option Nat) (copy binShort : Bool) (bs : Bytes)
    (hb : ∀ n, peekBytesLen bs = .ok n → leB n ob = true) : Inv bs (rdStrCore ob copy binShort bs) := by
  unfold rdStrCore
  split
  · next n r h =>
    split
    · exact inv_read_err _ _
    · next x t ht =>
      have hl := decHd_len h
      have ht' := (takeN_len ht).1
      have hn : leB n ob = true := hb n (by simp [peekBytesLen, h])
      cases copy
      · exact inv_read_ok _ (by omega)
      · refine ⟨?_, by simp [reads]; omega⟩
        intro e he
        simp only [if_true, List.mem_cons, List.mem_nil_iff, or_false] at he
        rcases he with rfl | rfl
        · trivial
        · exact ⟨by simp only [okEv, Bool.and_eq_true, decide_eq_true_eq]; exact ⟨by omega, hn⟩, by omega⟩
  · next r h => exact inv_read_ok _ (decHd_len h)
  · next n r h =>
    split
    · exact inv_read_err _ _
    · next x t ht =>
      have hl := decHd_len h
      have ht' := (takeN_len ht).1
      have hn : leB n ob = true := hb n (by simp [peekBytesLen, h])
      cases copy
      · exact inv_read_ok _ (by omega)
      · refine ⟨?_, by simp [reads]; omega⟩
        intro e he
        simp only [if_true, List.mem_cons, List.mem_nil_iff, or_false] at he
        rcases he with rfl | rfl
        · trivial
        · exact ⟨by simp only [okEv, Bool.and_eq_true, decide_eq_true_eq]; exact ⟨by omega, hn⟩, by omega⟩
  · next n r h =>
    have hn : leB n ob = true := hb n (by simp [peekBytesLen, h])
    have hs := inv_slowBytes ob n r hn
    have hc := inv_cons_read (decHd_len h) hs
    split
    · next l x t hx => rw [hx] at hc; exact hc
    · next l e hx => rw [hx] at hc; exact hc
  · exact inv_read_err _ _
  · split
    · exact inv_read_err _ _
    · simp only
      split
      · exact inv_read_err _ _
      · split
        · exact inv_read_err _ _
        · exact inv_read_err _ _

theorem inv_rdStr (ob : Option Nat) (bs : Bytes) (hb : ∀ n, peekBytesLen bs = .ok n → leB n ob = true) :
    Inv bs (rdStr ob bs) := by
  unfold rdStr
  have h := inv_rdStrCore ob true false bs hb
  split
  · next l x t hx => rw [hx] at h; exact h
  · next l e hx => rw [hx] at h; exact h

theorem inv_decStr (ob : Option Nat) : PInv (decStr ob) := by
  intro bs; unfold decStr
  split
  · exact inv_rdStr none bs (fun n _ => leB_none n)
  · next b =>
    split
    · exact inv_nil_err _ _
    · next n hp =>
      split
      · exact inv_nil_err _ _
      · next hle =>
        refine inv_rdStr (some b) bs ?_
        intro m hm
        rw [hp] at hm
        simp only [Except.ok.injEq] at hm
        subst hm
        simp only [leB, decide_eq_true_eq]; omega

theorem inv_rdKey : PInv rdKey := fun bs => inv_rdStrCore none false true bs (fun n _ => leB_none n)

theorem inv_rdExact (n : Nat) (old : Bytes) : PInv (rdExact n old) := by
  intro bs; unfold rdExact
  split
  · next k r h =>
    split
    · exact inv_read_err _ _
    · next x t ht => exact inv_read_ok _ (by have := decHd_len h; have := (takeN_len ht).1; omega)
  · next k r h =>
    split
    · exact inv_read_err _ _
    · next x t ht => exact inv_read_ok _ (by have := decHd_len h; have := (takeN_len ht).1; omega)
  · next r h => exact inv_read_ok _ (decHd_len h)
  · next k r h =>
    split
    · exact inv_read_err _ _
    · have hs := inv_asType (inv_rdByteArr k r)
      have hc := inv_cons_read (decHd_len h) hs
      split
      · next l x t hx => rw [hx] at hc; exact hc
      · next l e hx => rw [hx] at hc; exact hc
  · next k r h =>
    split
    · exact inv_read_err _ _
    · have hs := inv_asType (inv_rdByteArr (2 * k) r)
      have hc := inv_cons_read (decHd_len h) hs
      split
      · next l x t hx => rw [hx] at hc; exact hc
      · next l e hx => rw [hx] at hc; exact hc
  · exact inv_read_err _ _
  · exact inv_read_err _ _

/-! ## combinators -/

def DInv (f : D) : Prop := ∀ old, PInv (f old)

theorem inv_loopElems {f : D} (hf : DInv f) (z : Val) : ∀ n olds, PInv (loopElems f z n olds)
  | 0, _ => by unfold loopElems; exact inv_pure _
  | n+1, olds => by
    unfold loopElems
    exact pinv_bind (hf _) fun v => pinv_bind (inv_loopElems hf z n _) fun vs => inv_pure _

theorem inv_slice_tail {f : D} (hf : DInv f) (z : Val) (n : Nat) (olds : List Val) :
    PInv (P.bind (loopElems f z n olds) fun vs => P.pure (Val.slice vs)) :=
  pinv_bind (inv_loopElems hf z n olds) fun _ => inv_pure _

theorem inv_alloc_then {α : Type} {k : AKind} {ob : Option Nat} {n : Nat} {p : P α} (hp : PInv p) (r : Bytes)
    (h : okEv (.alloc k ob n r.length) = true) : Inv r (P.bind (P.alloc k ob n) (fun _ => p) r) :=
  inv_bind (inv_alloc k ob n r h) (fun _ r' _ => hp r')

theorem okEv_coll {k : AKind} (hk : k ≠ .bytes) {ob : Option Nat} {n avail : Nat}
    (h1 : ¬ (over ob n = true)) (h2 : n ≤ 2 * 4294967295) :
    okEv (.alloc k ob n avail) = true := by
  cases k with
  | bytes => exact absurd rfl hk
  | slice =>
    cases ob with
    | none => simp only [okEv, decide_eq_true_eq]; exact h2
    | some b => simp only [over, decide_eq_true_eq] at h1; simp only [okEv, decide_eq_true_eq]; omega
  | map =>
    cases ob with
    | none => simp only [okEv, decide_eq_true_eq]; exact h2
    | some b => simp only [over, decide_eq_true_eq] at h1; simp only [okEv, decide_eq_true_eq]; omega

theorem inv_decSlice (ob : Option Nat) {f : D} (hf : DInv f) (z : Val) : DInv (decSlice ob f z) := by
  intro old bs
  unfold decSlice
  refine inv_bind (inv_rdArrHdr true bs) ?_
  intro a r ha
  rcases a with ⟨n, isnil⟩
  have hn := rdArrHdr_bound ha
  simp only
  split
  · exact inv_fail _ r
  · next hov =>
    split
    · exact inv_pure _ r
    · split
      · next xs =>
        split
        · exact inv_slice_tail hf z n xs r
        · exact inv_alloc_then (inv_slice_tail hf z n []) r (okEv_coll (by decide) hov hn)
      · exact inv_alloc_then (inv_slice_tail hf z n []) r (okEv_coll (by decide) hov hn)

theorem inv_decArray (n : Nat) {f : D} (hf : DInv f) (z : Val) : DInv (decArray n f z) := by
  intro old bs
  unfold decArray
  refine inv_bind (inv_rdArrHdr true bs) ?_
  intro a r _
  rcases a with ⟨k, isnil⟩
  simp only
  split
  · exact inv_fail _ r
  · exact pinv_bind (inv_loopElems hf z k _) (fun _ => inv_pure _) r

theorem inv_loopPairs {fk fv : D} (hk : DInv fk) (hv : DInv fv) (zk zv : Val) : ∀ n, PInv (loopPairs fk fv zk zv n)
  | 0 => by unfold loopPairs; exact inv_pure _
  | n+1 => by
    unfold loopPairs
    exact pinv_bind (hk _) fun k => pinv_bind (hv _) fun v => pinv_bind (inv_loopPairs hk hv zk zv n) fun r => inv_pure _

theorem inv_decMap (ob : Option Nat) {fk fv : D} (hk : DInv fk) (hv : DInv fv) (zk zv : Val) : DInv (decMap ob fk fv zk zv) := by
  intro old bs
  unfold decMap
  refine inv_bind (inv_rdMapHdr bs) ?_
  intro a r ha
  rcases a with ⟨n, isnil⟩
  have hn := rdMapHdr_bound ha
  simp only
  split
  · exact inv_fail _ r
  · next hov =>
    split
    · exact inv_pure _ r
    · split
      · exact pinv_bind (inv_loopPairs hk hv zk zv n) (fun _ => inv_pure _) r
      · exact inv_alloc_then (pinv_bind (inv_loopPairs hk hv zk zv n) (fun _ => inv_pure _)) r (okEv_coll (by decide) hov hn)

theorem inv_decPtr {f : D} (hf : DInv f) (z : Val) : DInv (decPtr f z) := by
  intro old bs
  unfold decPtr
  split
  · next b r =>
    split
    · exact inv_read_ok _ (by simp)
    · have h := hf (ptrOld z old) (b :: r)
      split
      · next l v t hx => rw [hx] at h; exact h
      · next l e hx => rw [hx] at h; exact h
  · have h := hf (ptrOld z old) []
    split
    · next l v t hx => rw [hx] at h; exact h
    · next l e hx => rw [hx] at h; exact h

def FDInv (fds : List FD) : Prop := ∀ fd ∈ fds, DInv fd.2.2

theorem findField_inv {key : Bytes} : ∀ {fds : List FD} {i j : Nat} {f : D}, FDInv fds → findField key fds i = some (j, f) → DInv f
  | [], _, _, _, _, h => by simp [findField] at h
  | (nm, rq, g) :: fs, i, j, f, hfd, h => by
    simp only [findField] at h
    split at h
    · simp only [Option.some.injEq, Prod.mk.injEq] at h
      obtain ⟨_, rfl⟩ := h
      exact hfd (nm, rq, g) (by simp)
    · exact findField_inv (fun fd hm => hfd fd (List.mem_cons_of_mem _ hm)) h

theorem inv_note_dup : PInv (P.note .dup) := by
  intro bs
  refine ⟨?_, by simp [P.note, reads]⟩
  intro e he
  simp [P.note] at he
  subst he
  trivial

theorem inv_loopKeys {fds : List FD} (hfd : FDInv fds) (z : Val) : ∀ n seen cur, PInv (loopKeys fds z n seen cur)
  | 0, seen, cur => by unfold loopKeys; exact inv_pure _
  | n+1, seen, cur => by
    unfold loopKeys
    refine pinv_bind inv_rdKey ?_
    intro key
    split
    · exact inv_fail _
    · next i f hfind =>
      refine pinv_bind ?_ ?_
      · split
        · exact inv_note_dup
        · exact inv_pure _
      · intro _
        exact pinv_bind (findField_inv hfd hfind _) fun v => inv_loopKeys hfd z n _ _

theorem inv_seqFields : ∀ {fds : List FD}, FDInv fds → ∀ i k cur, PInv (seqFields fds i k cur)
  | [], _, i, k, cur => by unfold seqFields; exact inv_pure _
  | (nm, rq, f) :: fs, hfd, i, k, cur => by
    unfold seqFields
    split
    · exact inv_pure _
    · next k' =>
      exact pinv_bind (hfd (nm, rq, f) (by simp) _) fun v =>
        inv_seqFields (fun fd hm => hfd fd (List.mem_cons_of_mem _ hm)) _ _ _

theorem inv_decStruct {fds : List FD} (hfd : FDInv fds) (zs : List Val) : DInv (decStruct fds zs) := by
  intro old
  unfold decStruct
  refine pinv_bind inv_rdStructHdr ?_
  intro h
  refine pinv_bind ?_ ?_
  · cases h with
    | mapForm n isnil => exact inv_loopKeys hfd _ n _ _
    | arrForm n =>
      refine pinv_bind (inv_seqFields hfd 0 n _) ?_
      intro a
      rcases a with ⟨left, cur⟩
      simp only
      split
      · exact inv_fail _
      · exact inv_pure _
  · intro cur
    split
    · exact inv_pure _
    · exact inv_fail _

theorem inv_postCheck (m : Nat) {p : P Val} (hp : PInv p) : PInv (postCheck m p) := by
  unfold postCheck
  refine pinv_bind hp ?_
  intro v
  split
  · split
    · exact inv_pure _
    · exact inv_fail _
  · exact inv_pure _

/-! ## the decoder -/

mutual
theorem dec_inv : ∀ (ty : BTy) (d : Nat), DInv (dec ty d)
  | .bool, d => by intro old; unfold dec; exact pinv_bind inv_rdBool fun _ => inv_pure _
  | .uint bits, d => by intro old; unfold dec; exact pinv_bind (inv_rdUint bits) fun _ => inv_pure _
  | .int bits, d => by intro old; unfold dec; exact pinv_bind (inv_rdInt bits) fun _ => inv_pure _
  | .str ob, d => by intro old; unfold dec; exact inv_decStr ob
  | .bytes ob, d => by intro old; unfold dec; exact inv_decBytes ob
  | .fixedBytes n, d => by intro old; unfold dec; exact inv_rdExact n _
  | .slice ob e, d => by unfold dec; exact inv_decSlice ob (dec_inv e d) _
  | .array n e, d => by unfold dec; exact inv_decArray n (dec_inv e d) _
  | .map ob k v, d => by unfold dec; exact inv_decMap ob (dec_inv k d) (dec_inv v d) _ _
  | .ptr e, d => by unfold dec; exact inv_decPtr (dec_inv e d) _
  | .named b, 0 => by intro old; unfold dec; exact inv_fail _
  | .named b, d+1 => by unfold dec; exact dec_inv b d
  | .post m b, d => by intro old; unfold dec; exact inv_postCheck m (dec_inv b d old)
  | .struct fs, d => by unfold dec; exact inv_decStruct (decFs_inv fs d) _
  | .cut, d => by intro old; unfold dec; exact inv_fail _
theorem decFs_inv : ∀ (fs : List BField) (d : Nat), FDInv (decFs fs d)
  | [], d => by intro fd h; simp [decFs] at h
  | (nm, rq, t) :: fs, d => by
    intro fd h
    simp only [decFs, List.mem_cons] at h
    rcases h with rfl | h
    · exact dec_inv t d
    · exact decFs_inv fs d fd h
end


/-! ## every successful decode made at least one consuming read -/

def Pos1 {α : Type} (p : P α) : Prop := ∀ bs a r, (p bs).2 = .ok (a, r) → 1 ≤ reads (p bs).1
def Always1 {α : Type} (p : P α) : Prop := ∀ bs, 1 ≤ reads (p bs).1
def DPos (f : D) : Prop := ∀ old, Pos1 (f old)

theorem always1_pos1 {α : Type} {p : P α} (h : Always1 p) : Pos1 p := fun bs _ _ _ => h bs

theorem pos1_bind_left {α β : Type} {p : P α} {f : α → P β} (hp : Pos1 p) : Pos1 (P.bind p f) := by
  intro bs b r2 h
  have hp' := hp bs
  unfold P.bind at h ⊢
  rcases hpb : p bs with ⟨l, x⟩
  rw [hpb] at h hp'
  cases x with
  | error e => simp at h
  | ok ar =>
    rcases ar with ⟨a, r⟩
    have := hp' a r rfl
    simp only [reads_append] at this ⊢
    omega

theorem always1_rdMapHdr : Always1 rdMapHdr := by
  intro bs; unfold rdMapHdr; split <;> simp [reads]
theorem always1_rdArrHdr (fl : Bool) : Always1 (rdArrHdr fl) := by
  intro bs; unfold rdArrHdr; split <;> (try split) <;> simp [reads]
theorem always1_rdStructHdr : Always1 rdStructHdr := by
  intro bs; unfold rdStructHdr; split <;> simp [reads]
theorem always1_rdUint (bits : Nat) : Always1 (rdUint bits) := by
  intro bs; unfold rdUint; split <;> (try split) <;> simp [reads]
theorem always1_rdInt (bits : Nat) : Always1 (rdInt bits) := by
  intro bs; unfold rdInt; split <;> (try split) <;> simp [reads]
theorem always1_rdBool : Always1 rdBool := by
  intro bs; unfold rdBool; split <;> simp [reads]
theorem always1_rdBytes (ob : Option Nat) : Always1 (rdBytes ob) := by
  intro bs; unfold rdBytes; split <;> (try split) <;> simp [reads]
theorem always1_rdStrCore (ob : Option Nat) (c b : Bool) : Always1 (rdStrCore ob c b) := by
  intro bs; unfold rdStrCore
  split
  · split
    · simp [reads]
    · cases c <;> simp [reads]
  · simp [reads]
  · split
    · simp [reads]
    · cases c <;> simp [reads]
  · split <;> simp [reads]
  · simp [reads]
  · split
    · simp [reads]
    · simp only; split
      · simp [reads]
      · split <;> simp [reads]
theorem always1_rdStr (ob : Option Nat) : Always1 (rdStr ob) := by
  intro bs; unfold rdStr
  have := always1_rdStrCore ob true false bs
  split
  · next l x t hx => rw [hx] at this; exact this
  · next l e hx => rw [hx] at this; exact this
theorem always1_rdExact (n : Nat) (old : Bytes) : Always1 (rdExact n old) := by
  intro bs; unfold rdExact; split <;> (try split) <;> (try split) <;> simp [reads]

theorem pos1_decBytes (ob : Option Nat) : Pos1 (decBytes ob) := by
  intro bs a r h
  unfold decBytes at h ⊢
  split at h
  · exact always1_rdBytes none bs
  · split at h
    · simp at h
    · split at h
      · simp at h
      · next b n hp hle => simp only [hle, if_false]; exact always1_rdBytes _ bs

theorem pos1_decStr (ob : Option Nat) : Pos1 (decStr ob) := by
  intro bs a r h
  unfold decStr at h ⊢
  split at h
  · exact always1_rdStr none bs
  · split at h
    · simp at h
    · split at h
      · simp at h
      · next b n hp hle => simp only [hle, if_false]; exact always1_rdStr _ bs

theorem pos1_decPtr {f : D} (hf : DPos f) (z : Val) : DPos (decPtr f z) := by
  intro old bs a r h
  unfold decPtr at h ⊢
  split
  · next b t =>
    simp only at h ⊢
    split
    · simp [reads]
    · next hne =>
      rw [if_neg hne] at h
      have hp := hf (ptrOld z old) (b :: t)
      rcases hx : f (ptrOld z old) (b :: t) with ⟨l, x⟩
      rw [hx] at h hp
      cases x with
      | error e => simp at h
      | ok vt => rcases vt with ⟨v, t'⟩; exact hp v t' rfl
  · simp only at h ⊢
    have hp := hf (ptrOld z old) []
    rcases hx : f (ptrOld z old) [] with ⟨l, x⟩
    rw [hx] at h hp
    cases x with
    | error e => simp at h
    | ok vt => rcases vt with ⟨v, t'⟩; exact hp v t' rfl

theorem dec_pos : ∀ (ty : BTy) (d : Nat), DPos (dec ty d)
  | .bool, d => by intro old; unfold dec; exact pos1_bind_left (always1_pos1 always1_rdBool)
  | .uint bits, d => by intro old; unfold dec; exact pos1_bind_left (always1_pos1 (always1_rdUint bits))
  | .int bits, d => by intro old; unfold dec; exact pos1_bind_left (always1_pos1 (always1_rdInt bits))
  | .str ob, d => by intro old; unfold dec; exact pos1_decStr ob
  | .bytes ob, d => by intro old; unfold dec; exact pos1_decBytes ob
  | .fixedBytes n, d => by intro old; unfold dec; exact always1_pos1 (always1_rdExact n _)
  | .slice ob e, d => by intro old; unfold dec decSlice; exact pos1_bind_left (always1_pos1 (always1_rdArrHdr true))
  | .array n e, d => by intro old; unfold dec decArray; exact pos1_bind_left (always1_pos1 (always1_rdArrHdr true))
  | .map ob k v, d => by intro old; unfold dec decMap; exact pos1_bind_left (always1_pos1 always1_rdMapHdr)
  | .ptr e, d => by unfold dec; exact pos1_decPtr (dec_pos e d) _
  | .named b, 0 => by intro old bs a r h; unfold dec at h; simp [P.fail] at h
  | .named b, d+1 => by unfold dec; exact dec_pos b d
  | .post m b, d => by intro old; unfold dec postCheck; exact pos1_bind_left (dec_pos b d old)
  | .struct fs, d => by intro old; unfold dec decStruct; exact pos1_bind_left (always1_pos1 always1_rdStructHdr)
  | .cut, d => by intro old bs a r h; unfold dec at h; simp [P.fail] at h

end AlgoVerif.BoundedDecoder
