import AlgoVerif.Lemmas.AgreementAbsLocal
/-!
Lemmas 8, 9 and 11 of DESIGN Appendix C for the strict rule set `WF false`:

* (A) `next_after_cert` — once a period has a cert quorum for `v`, all its next quorums are for `v`;
* `first_soft_quorum` (`first_soft_quorum_members_entered_via_next`) — the earliest history in which period
  `q` has a soft quorum; its honest members voted before anything was staged for `q`, so they had entered
  `q` through a next quorum of `q-1`;
* the cross-period invariant `Inv P h v q` = (B) every soft quorum of `q` is for `v` ∧ (C) every next quorum of
  `q` is for `v` (in particular none for ⊥), and `inv_step : Inv … q → Inv … (q+1)`.
  The induction runs over the **period** with the history fixed; the induction over history prefixes of the
  design is encapsulated in `first_soft_quorum`, `cache_sound`, `local_inv`, `sticky`;
* `next_values_unique` (for C02) — one period never has next quorums for two different non-⊥ values.
-/
namespace AlgoVerif.Lemmas.AgreementAbs
open AlgoVerif.Spec.AgreementAbs

/-! ### 8. (A): a node's cert vote and its next votes of the same period agree -/

theorem cert_then_next {P : Params} {h : List Ev} (wf : WF false P h) {n p k x y}
    (hh : P.honest n = true) (h1 : VotedFor h n p .cert x) (h2 : VotedFor h n p (.next k) y) :
    y = x := by
  induction h with
  | nil => simp [VotedFor, votes] at h1
  | cons e pre ih =>
      cases e with
      | vote v =>
          unfold VotedFor at h1 h2 ih
          rw [votes_cons_vote, List.mem_cons] at h1 h2
          have ok := wf.2
          rcases h1 with h1 | h1 <;> rcases h2 with h2 | h2
          · rw [← h1] at h2; cases h2
          · -- the cert vote is the new event: an earlier next vote of the period carries the same value
            subst h1
            have hb : RCertAfterNext pre _ := (ok hh).2.2.1
            exact hb _ h2 rfl rfl rfl
          · -- the next vote is the new event: it repeats the own cert vote
            subst h2
            have hb : RNextOwnCert false P pre _ := (ok hh).2.2.1
            rcases hb with hu | ⟨hl, _⟩
            · exact (hu _ h1 rfl rfl rfl).symm
            · cases hl
          · exact ih wf.1 h1 h2
      | see => exact ih wf.1 h1 h2
      | enter => exact ih wf.1 h1 h2
      | commit => exact ih wf.1 h1 h2
      | crash => exact ih wf.1 h1 h2

/-- every next quorum of period `q` is for `some v` -/
def NextAll (P : Params) (h : List Ev) (v : Val) (q : Nat) : Prop :=
  ∀ y, nextQ P h q y → y = some v

/-- **(A)** -/
theorem next_after_cert {P : Params} (hq : HQ P) {h : List Ev} (wf : WF false P h) {p v}
    (hc : certQ P h p v) : NextAll P h v p := by
  intro y ⟨k, _, hQ⟩
  obtain ⟨n, _, hh, v1, v2⟩ :=
    quorum_inter_voters hq wf (List.suffix_refl _) (List.suffix_refl _) hc hQ
  exact cert_then_next wf hh v1 v2

/-! ### the first soft quorum of a period -/

theorem first_suffix (Pr : List Ev → Prop) (h : List Ev) (hPr : Pr h) (h0 : ¬ Pr []) :
    ∃ e m, (e :: m) <:+ h ∧ Pr (e :: m) ∧ ¬ Pr m := by
  induction h with
  | nil => exact absurd hPr h0
  | cons e pre ih =>
      by_cases hp : Pr pre
      · obtain ⟨e', m, hs, h1, h2⟩ := ih hp
        exact ⟨e', m, hs.trans (List.suffix_cons _ _), h1, h2⟩
      · exact ⟨e, pre, List.suffix_refl _, hPr, hp⟩

theorem no_quorum_nil {P : Params} (hq : HQ P) {p s x} : ¬ Q P [] p s x := by
  intro hQ
  obtain ⟨n, _, _, hv⟩ := quorum_honest_voter hq (h := []) trivial hQ
  simp [VotedFor, votes] at hv

/-- `first_soft_quorum_members_entered_via_next` -/
theorem first_soft_quorum {P : Params} (hq : HQ P) {h : List Ev} (wf : WF false P h) {q x}
    (hsq : softQ P h q x) :
    ∃ m, m <:+ h ∧ softQ P m q x ∧
      (∀ t, t <:+ h → (∃ z, stagedQ P t q z) → m <:+ t) ∧
      (∀ n, P.honest n = true → VotedFor m n q .soft (some x) →
        ∃ pre1, (Ev.vote ⟨n, q, .soft, some x⟩ :: pre1) <:+ m ∧
          okVote false P pre1 ⟨n, q, .soft, some x⟩ ∧ (0 < q → NotFF ((localOf pre1 n).prev q))) := by
  obtain ⟨e, m', hm, ⟨z, hz⟩, hno⟩ :=
    first_suffix (fun t => ∃ z, softQ P t q z) h ⟨x, hsq⟩ (fun ⟨_, hz⟩ => no_quorum_nil hq hz)
  have hzx : z = x := soft_unique hq wf (softQ_mono hm hz) hsq
  subst hzx
  have wfm : WF false P (e :: m') := wf_suffix hm wf
  -- nothing is staged for `q` strictly before `e :: m'`
  have hnost : ∀ t, t <:+ m' → ∀ z', ¬ stagedQ P t q z' := by
    intro t ht z' hst
    have wft : WF false P t := wf_suffix (ht.trans (List.suffix_cons _ _)) wfm
    exact hno ⟨z', softQ_mono ht (staged_soft hq wft hst)⟩
  refine ⟨e :: m', hm, hz, ?_, ?_⟩
  · intro t ht ⟨z', hst⟩
    rcases List.suffix_or_suffix_of_suffix hm ht with hs | hs
    · exact hs
    · rcases List.suffix_cons_iff.1 hs with heq | hs'
      · rw [heq]; exact List.suffix_refl _
      · exact absurd hst (hnost t hs' z')
  · intro n hh hv
    obtain ⟨pre1, hs1, ok⟩ := vote_ok wfm hv hh
    refine ⟨pre1, hs1, ok, fun hq0 => ?_⟩
    have hp1 : pre1 <:+ m' := suffix_of_cons_suffix hs1
    have wf1 : WF false P pre1 := wf_pre hs1 wfm
    have hper : (localOf pre1 n).period = q := ok.2.1
    rcases localOf_inv wf1 hh with h0 | ⟨z', hst⟩ | hn
    · omega
    · rw [hper] at hst; exact absurd hst (hnost pre1 hp1 z')
    · rw [hper] at hn; exact hn

/-! ### 9. the cross-period invariant -/

/-- (B) ∧ (C) for period `q`, relative to the value `v` -/
def Inv (P : Params) (h : List Ev) (v : Val) (q : Nat) : Prop :=
  (∀ x, softQ P h q x → x = v) ∧ NextAll P h v q

/-- what an honest member of the first soft quorum of `q+1` read in its cache of `q`, given (C) for `q` -/
theorem member_cache {P : Params} {h : List Ev} (wf : WF false P h) {v : Val} {q' : Nat}
    (hC : NextAll P h v (q' - 1)) {n : Node} (hh : P.honest n = true) {pre1 : List Ev}
    (hs : pre1 <:+ h) (hn : NotFF ((localOf pre1 n).prev q')) :
    ((localOf pre1 n).prev q').bottom = false ∧ ((localOf pre1 n).prev q').prop = some v := by
  have hsound := prev_sound (localOf_sound (wf_suffix hs wf) hh) q'
  have hb : ((localOf pre1 n).prev q').bottom = false := by
    cases hbb : ((localOf pre1 n).prev q').bottom with
    | false => rfl
    | true => exact absurd (hC _ (nextQ_mono hs (hsound.1 hbb))) (by simp)
  refine ⟨hb, ?_⟩
  rcases hn with hn | hn
  · rw [hb] at hn; cases hn
  · cases hpp : ((localOf pre1 n).prev q').prop with
    | none => exact absurd hpp hn
    | some u =>
        have := hC _ (nextQ_mono hs (hsound.2 u hpp))
        rw [this]

/-- **(B)** for `q' > 0` from (C) for `q' - 1` -/
theorem soft_step {P : Params} (hq : HQ P) {h : List Ev} (wf : WF false P h) {v : Val} {q' : Nat}
    (hq0 : 0 < q') (hC : NextAll P h v (q' - 1)) : ∀ x, softQ P h q' x → x = v := by
  intro x hsq
  obtain ⟨m, hm, hsm, _, hmem⟩ := first_soft_quorum hq wf hsq
  obtain ⟨n, _, hh, hv⟩ := quorum_honest_voter hq (wf_suffix hm wf) hsm
  obtain ⟨pre1, hs1, ok, hnf⟩ := hmem n hh hv
  have hs : pre1 <:+ h := (suffix_of_cons_suffix' hs1).trans hm
  obtain ⟨hb, hp⟩ := member_cache wf hC hh hs (hnf hq0)
  have hst : RSoftStart pre1 ⟨n, q', .soft, some x⟩ := ok.2.2.2
  have := hst.2 hb (by rw [hp]; simp)
  rw [hp] at this
  exact Option.some.inj this

/-- an honest ⊥ next-voter of period `q' > 0` had fast-forwarded, given (C) for `q' - 1` -/
theorem bot_voter_ff {P : Params} {h : List Ev} (wf : WF false P h) {v : Val} {q' k : Nat}
    (hq0 : 0 < q') (hC : NextAll P h v (q' - 1)) {n : Node} (hh : P.honest n = true) {pre2 : List Ev}
    (hs2 : (Ev.vote ⟨n, q', .next k, none⟩ :: pre2) <:+ h) :
    (∃ z, stagedQ P pre2 q' z) ∧ ((localOf pre2 n).prev q').prop = none := by
  have ok : okVote false P pre2 ⟨n, q', .next k, none⟩ := wf_ok hs2 wf hh
  have hs : pre2 <:+ h := suffix_of_cons_suffix' hs2
  have wf2 : WF false P pre2 := wf_suffix hs wf
  have hsound := prev_sound (localOf_sound wf2 hh) q'
  have hb : ((localOf pre2 n).prev q').bottom = false := by
    cases hbb : ((localOf pre2 n).prev q').bottom with
    | false => rfl
    | true => exact absurd (hC _ (nextQ_mono hs (hsound.1 hbb))) (by simp)
  have hval : RNextVal P pre2 ⟨n, q', .next k, none⟩ := ok.2.2.2
  have hpn : ((localOf pre2 n).prev q').prop = none := by
    rcases hval with hbt | hpn
    · rw [hb] at hbt; cases hbt
    · exact hpn
  refine ⟨?_, hpn⟩
  have hper : (localOf pre2 n).period = q' := ok.2.1
  rcases localOf_inv wf2 hh with h0 | hst | hn
  · omega
  · rw [hper] at hst; exact hst
  · rw [hper] at hn
    rcases hn with hn | hn
    · rw [hb] at hn; cases hn
    · exact absurd hpn hn

/-- **(C)** for `q' > 0` from (C) for `q' - 1` and (B) for `q'` -/
theorem next_step {P : Params} (hq : HQ P) {h : List Ev} (wf : WF false P h) {v : Val} {q' : Nat}
    (hq0 : 0 < q') (hC : NextAll P h v (q' - 1)) (hB : ∀ x, softQ P h q' x → x = v) :
    NextAll P h v q' := by
  intro y ⟨k, _, hQ⟩
  cases y with
  | some z =>
      obtain ⟨n, _, hh, hv⟩ := quorum_honest_voter hq wf hQ
      obtain ⟨pre2, hs2, ok⟩ := vote_ok wf hv hh
      have hs : pre2 <:+ h := suffix_of_cons_suffix' hs2
      have wf2 : WF false P pre2 := wf_suffix hs wf
      have hval : RNextVal P pre2 ⟨n, q', .next k, some z⟩ := ok.2.2.2
      rcases hval with hst | hc
      · rw [hB z (softQ_mono hs (staged_soft hq wf2 hst))]
      · have hsound := prev_sound (localOf_sound wf2 hh) q'
        have hp : ((localOf pre2 n).prev q').prop = some z := by rw [hc]
        exact hC _ (nextQ_mono hs (hsound.2 z hp))
  | none =>
      exfalso
      by_cases hex : ∃ x, softQ P h q' x
      · obtain ⟨x, hsq⟩ := hex
        obtain ⟨m, hm, hsm, hmin, hmem⟩ := first_soft_quorum hq wf hsq
        obtain ⟨n, _, hh, hv1, hv2⟩ := quorum_inter_voters hq wf hm (List.suffix_refl _) hsm hQ
        obtain ⟨pre1, hs1, _, hnf⟩ := hmem n hh hv1
        have hsp1 : pre1 <:+ h := (suffix_of_cons_suffix' hs1).trans hm
        obtain ⟨_, hp1⟩ := member_cache wf hC hh hsp1 (hnf hq0)
        obtain ⟨pre2, hs2⟩ := mem_votes_split hv2
        obtain ⟨hst, hp2⟩ := bot_voter_ff wf hq0 hC hh hs2
        have hmp : m <:+ pre2 := hmin pre2 (suffix_of_cons_suffix' hs2) hst
        have hle := sticky_prev (hs1.trans hmp) q'
        exact hle.2 (by rw [hp1]; simp) hp2
      · obtain ⟨n, _, hh, hv⟩ := quorum_honest_voter hq wf hQ
        obtain ⟨pre2, hs2⟩ := mem_votes_split hv
        obtain ⟨⟨z, hst⟩, _⟩ := bot_voter_ff wf hq0 hC hh hs2
        have hs : pre2 <:+ h := suffix_of_cons_suffix' hs2
        exact hex ⟨z, softQ_mono hs (staged_soft hq (wf_suffix hs wf) hst)⟩

/-- `inv_step`: the invariant propagates from period `q` to period `q + 1` (only its (C) half is needed) -/
theorem inv_step {P : Params} (hq : HQ P) {h : List Ev} (wf : WF false P h) {v : Val} {q : Nat}
    (hC : NextAll P h v q) : Inv P h v (q + 1) := by
  have hB := soft_step hq wf (Nat.succ_pos q) (v := v) (by simpa using hC)
  exact ⟨hB, next_step hq wf (Nat.succ_pos q) (by simpa using hC) hB⟩

/-- after a cert quorum for `v` in period `p`: (C) for every period `≥ p` -/
theorem next_all_after_cert {P : Params} (hq : HQ P) {h : List Ev} (wf : WF false P h) {p v}
    (hc : certQ P h p v) : ∀ d, NextAll P h v (p + d) := by
  intro d
  induction d with
  | zero => exact next_after_cert hq wf hc
  | succ d ih => exact (inv_step hq wf ih).2

/-- after a cert quorum for `v` in period `p`: (B) and (C) for every later period -/
theorem inv_after_cert {P : Params} (hq : HQ P) {h : List Ev} (wf : WF false P h) {p v}
    (hc : certQ P h p v) {q : Nat} (hpq : p < q) : Inv P h v q := by
  obtain ⟨d, rfl⟩ : ∃ d, q = p + d + 1 := ⟨q - p - 1, by omega⟩
  exact inv_step hq wf (next_all_after_cert hq wf hc d)

/-- **Safety for the strict rules.** -/
theorem abs_safety_strict {P : Params} (hq : HQ P) {h : List Ev} (wf : WF false P h) {p p' v v'}
    (h1 : certQ P h p v) (h2 : certQ P h p' v') : v = v' := by
  rcases Nat.lt_trichotomy p p' with hlt | heq | hgt
  · obtain ⟨pre, hs, hsq⟩ := cert_needs_soft hq wf h2
    exact ((inv_after_cert hq wf h1 hlt).1 v' (softQ_mono hs hsq)).symm
  · subst heq; exact cert_unique hq wf h1 h2
  · obtain ⟨pre, hs, hsq⟩ := cert_needs_soft hq wf h1
    exact (inv_after_cert hq wf h2 hgt).1 v (softQ_mono hs hsq)

/-! ### 11. uniqueness of next-quorum values (for C02) -/

theorem nvu_aux {P : Params} (hq : HQ P) {h : List Ev} (wf : WF false P h) {q : Nat}
    (ih : 0 < q → ∀ y z, nextQ P h (q - 1) (some y) → nextQ P h (q - 1) (some z) → y = z)
    {y z : Val} (hy : nextQ P h q (some y)) (hz : nextQ P h q (some z)) (hnz : ¬ softQ P h q z) :
    y = z := by
  obtain ⟨k1, _, hQy⟩ := hy
  obtain ⟨k2, _, hQz⟩ := hz
  -- an honest z-voter justifies z by its cache: z has a next quorum in q-1
  have hzprev : 0 < q ∧ nextQ P h (q - 1) (some z) := by
    obtain ⟨n, _, hh, hv⟩ := quorum_honest_voter hq wf hQz
    obtain ⟨pre2, hs2, ok⟩ := vote_ok wf hv hh
    have hs : pre2 <:+ h := suffix_of_cons_suffix' hs2
    have wf2 := wf_suffix hs wf
    have hval : RNextVal P pre2 ⟨n, q, .next k2, some z⟩ := ok.2.2.2
    rcases hval with hst | hc
    · exact absurd (softQ_mono hs (staged_soft hq wf2 hst)) hnz
    · have hp : ((localOf pre2 n).prev q).prop = some z := by rw [hc]
      have hq0 : 0 < q := by
        rcases Nat.eq_zero_or_pos q with h0 | h0
        · subst h0; simp [Local.prev, Cache.empty] at hp
        · exact h0
      exact ⟨hq0, nextQ_mono hs ((prev_sound (localOf_sound wf2 hh) q).2 z hp)⟩
  obtain ⟨hq0, hzq⟩ := hzprev
  -- an honest y-voter: y is staged, or y has a next quorum in q-1
  have hysoft : softQ P h q y ∨ nextQ P h (q - 1) (some y) := by
    obtain ⟨n, _, hh, hv⟩ := quorum_honest_voter hq wf hQy
    obtain ⟨pre2, hs2, ok⟩ := vote_ok wf hv hh
    have hs : pre2 <:+ h := suffix_of_cons_suffix' hs2
    have wf2 := wf_suffix hs wf
    have hval : RNextVal P pre2 ⟨n, q, .next k1, some y⟩ := ok.2.2.2
    rcases hval with hst | hc
    · exact Or.inl (softQ_mono hs (staged_soft hq wf2 hst))
    · have hp : ((localOf pre2 n).prev q).prop = some y := by rw [hc]
      exact Or.inr (nextQ_mono hs ((prev_sound (localOf_sound wf2 hh) q).2 y hp))
  by_cases hyq : nextQ P h (q - 1) (some y)
  · exact ih hq0 y z hyq hzq
  have hsq : softQ P h q y := hysoft.resolve_right hyq
  -- the first soft quorum of q (for y) meets the next quorum for z in an honest node
  obtain ⟨m, hm, hsm, _, hmem⟩ := first_soft_quorum hq wf hsq
  obtain ⟨n, _, hh, hv1, hv2⟩ := quorum_inter_voters hq wf hm (List.suffix_refl _) hsm hQz
  obtain ⟨pre1, hs1, ok1, hnf⟩ := hmem n hh hv1
  have hs1h : (Ev.vote ⟨n, q, .soft, some y⟩ :: pre1) <:+ h := hs1.trans hm
  have hsp1 : pre1 <:+ h := suffix_of_cons_suffix' hs1h
  have wf1 := wf_suffix hsp1 wf
  have hst1 : RSoftStart pre1 ⟨n, q, .soft, some y⟩ := ok1.2.2.2
  -- at its soft vote the node had seen ⊥ for q-1 (otherwise y is the starting value and the IH applies)
  cases hb1 : ((localOf pre1 n).prev q).bottom with
  | false =>
      rcases hnf hq0 with hn | hn
      · rw [hb1] at hn; cases hn
      · have hp := hst1.2 hb1 hn
        have := (prev_sound (localOf_sound wf1 hh) q).2 y hp.symm
        exact ih hq0 y z (nextQ_mono hsp1 this) hzq
  | true =>
      exfalso
      obtain ⟨pre2, hs2, ok2⟩ := vote_ok wf hv2 hh
      have hs : pre2 <:+ h := suffix_of_cons_suffix' hs2
      have hval : RNextVal P pre2 ⟨n, q, .next k2, some z⟩ := ok2.2.2.2
      rcases hval with hst | hc
      · exact hnz (softQ_mono hs (staged_soft hq (wf_suffix hs wf) hst))
      · have hb2 : ((localOf pre2 n).prev q).bottom = false := by rw [hc]
        rcases cons_suffix_trichotomy hs1h hs2 with hlt | hgt | heq
        · -- soft vote first: ⊥ is sticky
          have := (sticky_prev hlt q).1 hb1
          rw [hb2] at this; cases this
        · -- next vote first: the soft vote would come after a next vote of the period
          have hbn : RBeforeNext pre1 ⟨n, q, .soft, some y⟩ := ok1.2.2.1
          have hmem2 : (⟨n, q, .next k2, some z⟩ : Vote) ∈ votes pre1 :=
            votes_subset hgt (by rw [votes_cons_vote]; exact List.mem_cons_self)
          have := hbn _ hmem2 rfl rfl
          simp [Step.isNext] at this
        · cases heq

/-- **`next_values_unique`** (strict rules): a period has next quorums for at most one non-⊥ value -/
theorem next_values_unique_strict {P : Params} (hq : HQ P) {h : List Ev} (wf : WF false P h) :
    ∀ q y z, nextQ P h q (some y) → nextQ P h q (some z) → y = z := by
  intro q
  induction q with
  | zero =>
      intro y z hy hz
      by_cases hsz : softQ P h 0 z
      · by_cases hsy : softQ P h 0 y
        · exact soft_unique hq wf hsy hsz
        · exact (nvu_aux hq wf (fun h0 => absurd h0 (Nat.lt_irrefl 0)) hz hy hsy).symm
      · exact nvu_aux hq wf (fun h0 => absurd h0 (Nat.lt_irrefl 0)) hy hz hsz
  | succ q ih =>
      intro y z hy hz
      have ih' : 0 < q + 1 → ∀ y z, nextQ P h (q + 1 - 1) (some y) → nextQ P h (q + 1 - 1) (some z) →
          y = z := fun _ => by simpa using ih
      by_cases hsz : softQ P h (q + 1) z
      · by_cases hsy : softQ P h (q + 1) y
        · exact soft_unique hq wf hsy hsz
        · exact (nvu_aux hq wf ih' hz hy hsy).symm
      · exact nvu_aux hq wf ih' hy hz hsz

end AlgoVerif.Lemmas.AgreementAbs
