import AlgoVerif.Lemmas.VpackInvItems
/-! Inversion of the two key loops: a successful run consumed the canonical item sequence of some field set. -/
set_option linter.unusedSimpArgs false
namespace AlgoVerif.Lemmas.Vpack
open AlgoVerif.Model.Vpack AlgoVerif.Spec.Vpack

/-- what `propLoop n _ p = ok p'` consumed and produced, for proposal fields d e o q -/
def PropTail (d e : Option Bytes) (o : Option Nat) (q : Option Bytes) (n : Nat) (p p' : PS) : Prop :=
  (∀ x, d = some x → x.length = 32) ∧ (∀ x, e = some x → x.length = 32) ∧ (∀ x, o = some x → x < M64) ∧
  (∀ x, q = some x → x.length = 32) ∧
  n = cnt d + cnt e + cnt o + cnt q ∧
  p.rem = optBin kDig d ++ (optBin kEncdig e ++ (optUint kOper o ++ (optBin kOprop q ++ p'.rem))) ∧
  p'.out = p.out ++ (obytes d ++ (obytes e ++ (ouint o ++ obytes q))) ∧
  p'.mask = (((p.mask ||| bitIf d bitDig) ||| bitIf e bitEncDig) ||| bitIf o bitOper) ||| bitIf q bitOprop ∧
  p'.req = p.req

theorem PropTail_nil (p : PS) : PropTail none none none none 0 p p := by
  simp [PropTail, cnt, optBin, optUint, obytes, ouint, bitIf]

theorem optBin_none (k : Bytes) : optBin k none = [] := rfl
theorem optBin_some (k v : Bytes) : optBin k (some v) = bin k v := rfl
theorem obytes_none : obytes none = [] := rfl
theorem obytes_some (v : Bytes) : obytes (some v) = v := rfl

theorem PropTail_oprop {n : Nat} {p p' : PS} {v r : Bytes} (hv : v.length = 32)
    (hrem : p.rem = fixstr kOprop ++ ([0xc4, UInt8.ofNat v.length] ++ (v ++ r)))
    (t : PropTail none none none none n { rem := r, out := p.out ++ v, mask := p.mask ||| bitOprop, req := p.req } p') :
    PropTail none none none (some v) (n + 1) p p' := by
  obtain ⟨_, _, _, _, hn, hr, ho, hm, hq⟩ := t
  simp only [cnt_none, optBin_none, optUint_none, obytes_none, ouint_none, bitIf_none, List.nil_append, List.append_nil,
    UInt8.or_zero, Nat.add_zero] at hn hr ho hm hq
  refine ⟨by simp, by simp, by simp, by intro x hx; cases hx; exact hv, ?_, ?_, ?_, ?_, hq⟩
  · simp only [cnt_none, cnt_some, hn]
  · simp only [optBin_none, optUint_none, optBin_some, bin, List.nil_append, List.append_assoc, hrem, hr]
  · simp only [obytes_none, ouint_none, obytes_some, List.nil_append, ho]
  · simp only [bitIf_none, bitIf_some, UInt8.or_zero, hm]

theorem PropTail_oper {n : Nat} {p p' : PS} {x : Nat} {r : Bytes} {q : Option Bytes} (hx : x < M64)
    (hrem : p.rem = fixstr kOper ++ (appendUint64 x ++ r))
    (t : PropTail none none none q n { rem := r, out := p.out ++ appendUint64 x, mask := p.mask ||| bitOper, req := p.req } p') :
    PropTail none none (some x) q (n + 1) p p' := by
  obtain ⟨_, _, _, w4, hn, hr, ho, hm, hq⟩ := t
  simp only [cnt_none, optBin_none, optUint_none, obytes_none, ouint_none, bitIf_none, List.nil_append, List.append_nil,
    UInt8.or_zero, Nat.add_zero, Nat.zero_add] at hn hr ho hm hq
  refine ⟨by simp, by simp, by intro y hy; cases hy; exact hx, w4, ?_, ?_, ?_, ?_, hq⟩
  · simp only [cnt_none, cnt_some, hn]; omega
  · simp only [optBin_none, optUint_some, uintField, List.nil_append, List.append_assoc, hrem, hr]
  · simp only [obytes_none, ouint_some, List.nil_append, List.append_assoc, ho]
  · simp only [bitIf_none, bitIf_some, UInt8.or_zero, hm]

theorem PropTail_encdig {n : Nat} {p p' : PS} {v r : Bytes} {o : Option Nat} {q : Option Bytes} (hv : v.length = 32)
    (hrem : p.rem = fixstr kEncdig ++ ([0xc4, UInt8.ofNat v.length] ++ (v ++ r)))
    (t : PropTail none none o q n { rem := r, out := p.out ++ v, mask := p.mask ||| bitEncDig, req := p.req } p') :
    PropTail none (some v) o q (n + 1) p p' := by
  obtain ⟨_, _, w3, w4, hn, hr, ho, hm, hq⟩ := t
  simp only [cnt_none, optBin_none, obytes_none, bitIf_none, List.nil_append, List.append_nil,
    UInt8.or_zero, Nat.add_zero, Nat.zero_add] at hn hr ho hm hq
  refine ⟨by simp, by intro x hx; cases hx; exact hv, w3, w4, ?_, ?_, ?_, ?_, hq⟩
  · simp only [cnt_none, cnt_some, hn]; omega
  · simp only [optBin_none, optBin_some, bin, List.nil_append, List.append_assoc, hrem, hr]
  · simp only [obytes_none, obytes_some, List.nil_append, List.append_assoc, ho]
  · simp only [bitIf_none, bitIf_some, UInt8.or_zero, hm]

theorem PropTail_dig {n : Nat} {p p' : PS} {v r : Bytes} {e : Option Bytes} {o : Option Nat} {q : Option Bytes}
    (hv : v.length = 32)
    (hrem : p.rem = fixstr kDig ++ ([0xc4, UInt8.ofNat v.length] ++ (v ++ r)))
    (t : PropTail none e o q n { rem := r, out := p.out ++ v, mask := p.mask ||| bitDig, req := p.req } p') :
    PropTail (some v) e o q (n + 1) p p' := by
  obtain ⟨_, w2, w3, w4, hn, hr, ho, hm, hq⟩ := t
  simp only [cnt_none, optBin_none, obytes_none, bitIf_none, List.nil_append, List.append_nil,
    UInt8.or_zero, Nat.add_zero, Nat.zero_add] at hn hr ho hm hq
  refine ⟨by intro x hx; cases hx; exact hv, w2, w3, w4, ?_, ?_, ?_, ?_, hq⟩
  · simp only [cnt_some, hn]; omega
  · simp only [optBin_some, bin, List.append_assoc, hrem, hr]
  · simp only [obytes_some, List.append_assoc, ho]
  · simp only [bitIf_some, hm]

theorem propLoop_zero_inv {prev : Option Bytes} {p p' : PS} (h : propLoop 0 prev p = .ok p') : p' = p := by
  rw [propLoop] at h; cases h; rfl

/-- after `oprop` nothing more can follow -/
theorem propStage4 : ∀ (n : Nat) (p p' : PS), propLoop n (some kOprop) p = .ok p' → PropTail none none none none n p p' := by
  intro n p p' h
  cases n with
  | zero => rw [propLoop_zero_inv h]; exact PropTail_nil p
  | succ n =>
    obtain ⟨k, r0, _, hord, hk⟩ := propLoop_succ_inv h
    rcases hk with ⟨rfl, _⟩ | ⟨rfl, _⟩ | ⟨rfl, _⟩ | ⟨rfl, _⟩ <;> exact absurd hord (by decide)

theorem propStage3 : ∀ (n : Nat) (p p' : PS), propLoop n (some kOper) p = .ok p' → ∃ q, PropTail none none none q n p p' := by
  intro n p p' h
  cases n with
  | zero => rw [propLoop_zero_inv h]; exact ⟨none, PropTail_nil p⟩
  | succ n =>
    obtain ⟨k, r0, hrem, hord, hk⟩ := propLoop_succ_inv h
    rcases hk with ⟨rfl, _⟩ | ⟨rfl, _⟩ | ⟨rfl, _⟩ | ⟨rfl, v, r, hv, hr0, hl⟩
    · exact absurd hord (by decide)
    · exact absurd hord (by decide)
    · exact absurd hord (by decide)
    · subst hr0; exact ⟨some v, PropTail_oprop hv hrem (propStage4 _ _ _ hl)⟩

theorem propStage2 : ∀ (n : Nat) (p p' : PS), propLoop n (some kEncdig) p = .ok p' → ∃ o q, PropTail none none o q n p p' := by
  intro n p p' h
  cases n with
  | zero => rw [propLoop_zero_inv h]; exact ⟨none, none, PropTail_nil p⟩
  | succ n =>
    obtain ⟨k, r0, hrem, hord, hk⟩ := propLoop_succ_inv h
    rcases hk with ⟨rfl, _⟩ | ⟨rfl, _⟩ | ⟨rfl, x, r, hx, hr0, hl⟩ | ⟨rfl, v, r, hv, hr0, hl⟩
    · exact absurd hord (by decide)
    · exact absurd hord (by decide)
    · subst hr0
      obtain ⟨q, t⟩ := propStage3 _ _ _ hl
      exact ⟨some x, q, PropTail_oper hx hrem t⟩
    · subst hr0; exact ⟨none, some v, PropTail_oprop hv hrem (propStage4 _ _ _ hl)⟩

theorem propStage1 : ∀ (n : Nat) (p p' : PS), propLoop n (some kDig) p = .ok p' → ∃ e o q, PropTail none e o q n p p' := by
  intro n p p' h
  cases n with
  | zero => rw [propLoop_zero_inv h]; exact ⟨none, none, none, PropTail_nil p⟩
  | succ n =>
    obtain ⟨k, r0, hrem, hord, hk⟩ := propLoop_succ_inv h
    rcases hk with ⟨rfl, _⟩ | ⟨rfl, v, r, hv, hr0, hl⟩ | ⟨rfl, x, r, hx, hr0, hl⟩ | ⟨rfl, v, r, hv, hr0, hl⟩
    · exact absurd hord (by decide)
    · subst hr0
      obtain ⟨o, q, t⟩ := propStage2 _ _ _ hl
      exact ⟨some v, o, q, PropTail_encdig hv hrem t⟩
    · subst hr0
      obtain ⟨q, t⟩ := propStage3 _ _ _ hl
      exact ⟨none, some x, q, PropTail_oper hx hrem t⟩
    · subst hr0; exact ⟨none, none, some v, PropTail_oprop hv hrem (propStage4 _ _ _ hl)⟩

theorem propStage0 : ∀ (n : Nat) (p p' : PS), propLoop n none p = .ok p' → ∃ d e o q, PropTail d e o q n p p' := by
  intro n p p' h
  cases n with
  | zero => rw [propLoop_zero_inv h]; exact ⟨none, none, none, none, PropTail_nil p⟩
  | succ n =>
    obtain ⟨k, r0, hrem, hord, hk⟩ := propLoop_succ_inv h
    rcases hk with ⟨rfl, v, r, hv, hr0, hl⟩ | ⟨rfl, v, r, hv, hr0, hl⟩ | ⟨rfl, x, r, hx, hr0, hl⟩ | ⟨rfl, v, r, hv, hr0, hl⟩
    · subst hr0
      obtain ⟨e, o, q, t⟩ := propStage1 _ _ _ hl
      exact ⟨some v, e, o, q, PropTail_dig hv hrem t⟩
    · subst hr0
      obtain ⟨o, q, t⟩ := propStage2 _ _ _ hl
      exact ⟨none, some v, o, q, PropTail_encdig hv hrem t⟩
    · subst hr0
      obtain ⟨q, t⟩ := propStage3 _ _ _ hl
      exact ⟨none, none, some x, q, PropTail_oper hx hrem t⟩
    · subst hr0; exact ⟨none, none, none, some v, PropTail_oprop hv hrem (propStage4 _ _ _ hl)⟩

end AlgoVerif.Lemmas.Vpack
