import AlgoVerif.Lemmas.OnlineAcctsTop
/-! C13: the invariant survives a commit (rows inserted, history pruned below the horizon, cache updated and pruned). -/
namespace AlgoVerif.Lemmas.OnlineAccts
open AlgoVerif.Spec.OnlineHistory AlgoVerif.Model.OnlineAccts

theorem InvCore.params_len {σ : State} {M : Nat} (inv : InvCore σ M) :
    ∃ s, s + σ.params.length = σ.ledger.length + 1 ∧ s ≤ σ.dbRound ∧ σ.deltas.length + σ.dbRound = σ.ledger.length := by
  obtain ⟨s, hs1, _, _, hs4⟩ := inv.hparams
  refine ⟨s, hs1, ?_, ?_⟩
  · have := inv.pwf.mpos; rcases hs4 with h | h <;> omega
  · rw [inv.hdeltas, List.length_map, List.length_drop]; have := inv.hdb; omega

theorem protoOf_mem {protos : List Proto} {i : Nat} (h : i < protos.length) : protoOf protos i ∈ protos := by
  unfold protoOf
  rw [List.getD_eq_getElem?_getD, List.getElem?_eq_getElem h]
  exact List.getElem_mem h

/-- `maxBalLookback()` is the one MaxBalLookback of the case -/
theorem InvCore.mbl_eq {σ : State} {M : Nat} (inv : InvCore σ M) : maxBalLookback σ = M := by
  obtain ⟨s, hs1, hs2, _, _⟩ := inv.hparams
  obtain ⟨s', hs1', hs3, _⟩ := inv.params_len
  have hs : s = s' := by omega
  subst hs
  have hdb := inv.hdb
  have hne : σ.params ≠ [] := by
    intro h; rw [h] at hs1; simp at hs1; omega
  unfold maxBalLookback
  rw [List.getLast?_eq_some_getLast hne]
  simp only
  have hmem : σ.params.getLast hne ∈ List.map Block.params (List.drop s (σ.gen :: σ.ledger)) := by
    rw [← hs2]; exact List.getLast_mem hne
  obtain ⟨b, hb, hbp⟩ := List.mem_map.mp hmem
  have hb' : b ∈ σ.gen :: σ.ledger := List.mem_of_mem_drop hb
  have hv := inv.valid b hb'
  have : (σ.params.getLast hne).proto = b.proto := by rw [← hbp]; rfl
  rw [this]
  exact inv.pwf.mbl _ (protoOf_mem hv)

theorem rowsBelow_mono {rows : List Row} {b c : Nat} (h : RowsBelow rows b) (hbc : b ≤ c) : RowsBelow rows c :=
  fun r hr => by have := h r hr; omega

/-- the rows of an address after the insert part of a commit of `offset` rounds -/
theorem InvCore.commitRows_spec {σ : State} {M : Nat} (inv : InvCore σ M) (offset : Nat) (a : Addr) (rows' : List Row)
    (hoff : offset ≤ σ.deltas.length) (h : commitRows σ (σ.deltas.take offset) a = .ok rows') :
    (∃ news, rows' = news ++ σ.db a ∧ (∀ r ∈ news, σ.dbRound < r.upd ∧ r.upd ≤ σ.dbRound + offset)) ∧
    RowsSorted rows' ∧ RowsOK σ.genesisUnit rows' ∧ RowsBelow rows' (σ.dbRound + offset + 1) ∧
    (∀ rnd, σ.dbParamsStart ≤ rnd → rnd ≤ σ.dbRound + offset → recOfRow (rowAt rows' rnd) = recAt σ.hist rnd a) := by
  obtain ⟨hs, hb, hok⟩ := inv.hrows a
  unfold commitRows at h
  have hlen : (σ.deltas.take offset).length = offset := by simp [List.length_take]; omega
  obtain ⟨⟨news, hn1, hn2⟩, hs', hok', hf⟩ :=
    applyUpds_spec σ.genesisUnit a (σ.deltas.take offset) (σ.dbRound + 1) (σ.db a) rows' h hs hb hok
  rw [hlen] at hn2
  have hlat : σ.latest = σ.dbRound + σ.deltas.length := rfl
  refine ⟨⟨news, hn1, fun r hr => by have := hn2 r hr; omega⟩, hs', hok', ?_, ?_⟩
  · intro r hr
    rw [hn1] at hr
    rcases List.mem_append.mp hr with h' | h'
    · have := hn2 r h'; omega
    · have := hb r h'; omega
  · intro rnd h1 h2
    by_cases hle : rnd ≤ σ.dbRound
    · rw [applyUpds_old h hs hb hok rnd (by omega)]
      exact inv.hlook a rnd h1 hle
    · have hge : σ.dbRound + 1 ≤ rnd := by omega
      rw [hf rnd hge]
      have h3 : rnd + 1 - (σ.dbRound + 1) = rnd - σ.dbRound := by omega
      have h4 : (σ.deltas.take offset).take (rnd - σ.dbRound) = σ.deltas.take (rnd - σ.dbRound) := by
        rw [List.take_take]; congr 1; omega
      rw [h3, h4]
      have hrec := inv.recAt_db rnd a h1 (by omega)
      have hnl : ¬ rnd < σ.dbRound := by omega
      simp only [hnl, if_false] at hrec
      rw [hrec]
      cases hl : lastIn (σ.deltas.take (rnd - σ.dbRound)) a with
      | some x => rfl
      | none =>
        simp only
        have hD : σ.dbRound ≤ rnd := by omega
        rw [rowAt_above hb hD]
        unfold cur
        rw [← rowAt_all_le (σ.db a) σ.dbRound hb]


theorem cacheRead_skip (xs ys : List Ent) (rnd : Nat) (h : ∀ e ∈ xs, rnd < e.1) : cacheRead (xs ++ ys) rnd = cacheRead ys rnd := by
  induction xs with
  | nil => rfl
  | cons x xs ih =>
    have hx : ¬ x.1 ≤ rnd := by have := h x (by simp); omega
    simp only [List.cons_append, cacheRead_cons, hx, if_false]
    exact ih (fun e he => h e (by simp [he]))

theorem rowsSorted_append_left {xs ys : List Row} (h : RowsSorted (xs ++ ys)) : RowsSorted xs :=
  (List.pairwise_append.mp h).1

/-- the cached list of an address after `postCommit` (new rows in front if it was cached, then pruned) -/
theorem InvCore.commit_cache {σ : State} {M : Nat} (inv : InvCore σ M) (offset : Nat) (a : Addr) (news : List Row)
    (t H' : Nat) (hH' : σ.dbParamsStart ≤ H')
    (hn2 : ∀ r ∈ news, σ.dbRound < r.upd ∧ r.upd ≤ σ.dbRound + offset)
    (hs' : RowsSorted (news ++ σ.db a))
    (hlook' : ∀ rnd, σ.dbParamsStart ≤ rnd → rnd ≤ σ.dbRound + offset →
      recOfRow (rowAt (news ++ σ.db a) rnd) = recAt σ.hist rnd a) :
    EntSorted (pruneList t (cacheAppend (σ.cache a) news)) ∧
    EntBelow (pruneList t (cacheAppend (σ.cache a) news)) (σ.dbRound + offset + 1) ∧
    ∀ rnd r, H' ≤ rnd → rnd ≤ σ.dbRound + offset →
      cacheRead (pruneList t (cacheAppend (σ.cache a) news)) rnd = some r → r = recAt σ.hist rnd a := by
  obtain ⟨hcs, hcb, hcr⟩ := inv.hcache a
  obtain ⟨_, hrb, _⟩ := inv.hrows a
  have hns : RowsSorted news := rowsSorted_append_left hs'
  have happ := cacheAppend_eq news (σ.cache a) σ.dbRound hns (fun r hr => (hn2 r hr).1) hcb
  obtain ⟨k, hk⟩ := pruneList_prefix t (cacheAppend (σ.cache a) news)
  rw [hk, happ]
  by_cases hnil : σ.cache a = []
  · simp [hnil, EntSorted, EntBelow, cacheRead]
  · simp only [hnil, if_false]
    have hL_sorted : EntSorted (news.map entOf ++ σ.cache a) := by
      unfold EntSorted
      rw [List.pairwise_append]
      refine ⟨entSorted_map hns, hcs, ?_⟩
      intro x hx y hy
      obtain ⟨r, hr, rfl⟩ := List.mem_map.mp hx
      have := (hn2 r hr).1
      have := hcb y hy
      simp only [entOf]; omega
    have hL_below : EntBelow (news.map entOf ++ σ.cache a) (σ.dbRound + offset + 1) := by
      intro e he
      rcases List.mem_append.mp he with h | h
      · obtain ⟨r, hr, rfl⟩ := List.mem_map.mp h
        have := (hn2 r hr).2
        simp only [entOf]; omega
      · have := hcb e h; omega
    refine ⟨entSorted_take k hL_sorted, entBelow_take k hL_below, ?_⟩
    intro rnd r h1 h2 hread
    have hread' := cacheRead_of_take hread
    have hH := inv.horizon_le
    by_cases hle : rnd ≤ σ.dbRound
    · rw [cacheRead_skip _ _ rnd (fun e he => by
        obtain ⟨r', hr', rfl⟩ := List.mem_map.mp he
        have := (hn2 r' hr').1
        simp only [entOf]; omega)] at hread'
      exact hcr rnd r (by omega) hle hread'
    · -- above the old DB round: the cache and the rows agree
      have hhead : ∃ c, cacheRead (σ.cache a) σ.dbRound = some c := by
        cases hc : σ.cache a with
        | nil => exact absurd hc hnil
        | cons e tl =>
          have : e.1 < σ.dbRound + 1 := hcb e (by rw [hc]; simp)
          have h' : e.1 ≤ σ.dbRound := by omega
          exact ⟨e.2, by simp [cacheRead_cons, h']⟩
      obtain ⟨c, hc⟩ := hhead
      have hc1 : c = recAt σ.hist σ.dbRound a := hcr σ.dbRound c hH (Nat.le_refl _) hc
      have hc2 : recOfRow (rowAt (σ.db a) σ.dbRound) = c := by
        rw [hc1]; exact inv.hlook a σ.dbRound hH (Nat.le_refl _)
      have := cache_rows_parallel news (σ.cache a) (σ.db a) σ.dbRound c hcb hrb hc hc2 rnd (by omega)
      rw [this] at hread'
      cases hread'
      exact hlook' rnd (by omega) h2


theorem take_add_drop {α : Type} (l : List α) (m n : Nat) : l.take m ++ (l.drop m).take n = l.take (m + n) := by
  rw [List.take_add]

/-- the round-parameter tables after a commit -/
theorem InvCore.commit_params {σ : State} {M : Nat} (inv : InvCore σ M) (offset fb : Nat)
    (h1 : offset ≤ σ.deltas.length) (hfb : fb = 0 ∨ fb + M ≤ σ.dbRound + offset + 1) :
    let σ' := commitApply σ offset fb (fun a => σ.db a)
    (∃ s, s + σ'.params.length = σ.ledger.length + 1 ∧ σ'.params = ((σ.gen :: σ.ledger).drop s).map Block.params ∧
        σ'.dbParamsStart ≤ s ∧ (s = 0 ∨ s + M ≤ σ.dbRound + offset + 1)) ∧
    σ'.dbParams = (((σ.gen :: σ.ledger).drop σ'.dbParamsStart).take (σ.dbRound + offset + 1 - σ'.dbParamsStart)).map Block.params ∧
    (σ'.dbParamsStart = 0 ∨ σ'.dbParamsStart + M ≤ σ.dbRound + offset + 1) ∧
    σ.dbParamsStart ≤ σ'.dbParamsStart ∧ fb ≤ σ'.dbParamsStart := by
  intro σ'
  obtain ⟨s, hs1, hs2, hs3, hs4⟩ := inv.hparams
  obtain ⟨s0, hs1', hsD, hlen⟩ := inv.params_len
  have hs : s = s0 := by omega
  subst hs
  have hM := inv.mbl_eq
  have hMpos := inv.pwf.mpos
  have hH := inv.horizon_le
  have hHH := inv.hH
  have hstart' : σ'.dbParamsStart = if fb > σ.dbParamsStart then fb else σ.dbParamsStart := rfl
  have hdl : (σ.deltas.drop offset).length + offset = σ.deltas.length := by simp; omega
  generalize hdlen : (σ.deltas.drop offset).length = dl at hdl
  have hparams' : σ'.params = if σ.params.length > M + dl
      then σ.params.drop (σ.params.length - (M + dl)) else σ.params := by
    show (if σ.params.length > maxBalLookback σ + (σ.deltas.drop offset).length then _ else _) = _
    rw [hM, hdlen]
  refine ⟨?_, ?_, ?_, ?_, ?_⟩
  · -- in-memory window
    by_cases htrim : σ.params.length > M + dl
    · refine ⟨s + (σ.params.length - (M + dl)), ?_, ?_, ?_, ?_⟩
      · rw [hparams', if_pos htrim, List.length_drop]; omega
      · rw [hparams', if_pos htrim]
        conv => lhs; arg 2; rw [hs2]
        rw [← List.map_drop, List.drop_drop]
      · rw [hstart']; split <;> omega
      · right; omega
    · refine ⟨s, ?_, ?_, ?_, ?_⟩
      · rw [hparams', if_neg htrim]; exact hs1
      · rw [hparams', if_neg htrim]; exact hs2
      · rw [hstart']; split <;> omega
      · rcases hs4 with h | h
        · exact Or.inl h
        · right; omega
  · -- DB table
    have hdbp : σ'.dbParams = (σ.dbParams ++ (σ.params.drop (σ.params.length - σ.deltas.length)).take offset).drop (fb - σ.dbParamsStart) := rfl
    have hdrop : σ.params.drop (σ.params.length - σ.deltas.length) =
        ((σ.gen :: σ.ledger).drop (σ.dbRound + 1)).map Block.params := by
      have e1 : s + (σ.params.length - σ.deltas.length) = σ.dbRound + 1 := by omega
      conv => lhs; arg 2; rw [hs2]
      rw [← List.map_drop, List.drop_drop, e1]
    rw [hdbp, hdrop, inv.hdbparams, ← List.map_take, ← List.map_append, ← List.map_drop]
    congr 1
    have e2 : List.drop (σ.dbRound + 1) (σ.gen :: σ.ledger) =
        List.drop (σ.dbRound + 1 - σ.dbParamsStart) (List.drop σ.dbParamsStart (σ.gen :: σ.ledger)) := by
      rw [List.drop_drop]; congr 1; omega
    rw [e2, take_add_drop, List.drop_take, List.drop_drop, hstart']
    by_cases hgt : fb > σ.dbParamsStart
    · simp only [hgt, if_true]
      have e3 : σ.dbParamsStart + (fb - σ.dbParamsStart) = fb := by omega
      have e4 : σ.dbRound + 1 - σ.dbParamsStart + offset - (fb - σ.dbParamsStart) = σ.dbRound + offset + 1 - fb := by omega
      rw [e3, e4]
    · simp only [hgt, if_false]
      have e3 : fb - σ.dbParamsStart = 0 := by omega
      have e4 : σ.dbRound + 1 - σ.dbParamsStart + offset - 0 = σ.dbRound + offset + 1 - σ.dbParamsStart := by omega
      rw [e3, e4]; rfl
  · rw [hstart']; split
    · rcases hfb with h | h <;> omega
    · rcases hHH with h | h
      · exact Or.inl h
      · right; omega
  · rw [hstart']; split <;> omega
  · rw [hstart']; split <;> omega


theorem rowsOK_delete {g fb : Nat} {rows : List Row} (h : RowsOK g rows) : RowsOK g (deleteBefore fb rows) :=
  fun r hr => h r (deleteBefore_mem hr)

theorem rowsBelow_delete {b fb : Nat} {rows : List Row} (h : RowsBelow rows b) : RowsBelow (deleteBefore fb rows) b :=
  fun r hr => h r (deleteBefore_mem hr)

/-- **commit keeps the invariant** (and does not touch the history): rows are inserted for the committed rounds, the history
    below the horizon `fb` is pruned keeping what lookups at or above the horizon need, the cache follows -/
theorem InvCore.commitApply_inv {σ : State} {M : Nat} (inv : InvCore σ M) (offset fb : Nat) (rowsOf : Addr → List Row)
    (h1 : offset ≤ σ.deltas.length) (hfb : fb = 0 ∨ fb + M ≤ σ.dbRound + offset + 1)
    (hrows : ∀ a, commitRows σ (σ.deltas.take offset) a = .ok (rowsOf a)) :
    InvCore (commitApply σ offset fb rowsOf) M ∧ (commitApply σ offset fb rowsOf).hist = σ.hist := by
  refine ⟨?_, rfl⟩
  obtain ⟨⟨s, hp1, hp2, hp3, hp4⟩, hdbp, hHn, hHmono, hfbH⟩ := inv.commit_params offset fb h1 hfb
  obtain ⟨_, _, _, hlen⟩ := inv.params_len
  have hM := inv.mbl_eq
  -- the fields of the new state that do not depend on the rows
  have e_params : (commitApply σ offset fb rowsOf).params = (commitApply σ offset fb (fun a => σ.db a)).params := rfl
  have e_dbp : (commitApply σ offset fb rowsOf).dbParams = (commitApply σ offset fb (fun a => σ.db a)).dbParams := rfl
  have e_start : (commitApply σ offset fb rowsOf).dbParamsStart = (commitApply σ offset fb (fun a => σ.db a)).dbParamsStart := rfl
  have e_round : (commitApply σ offset fb rowsOf).dbRound = σ.dbRound + offset := rfl
  have e_hist : (commitApply σ offset fb rowsOf).hist = σ.hist := rfl
  have e_g : (commitApply σ offset fb rowsOf).genesisUnit = σ.genesisUnit := rfl
  have e_db : ∀ a, (commitApply σ offset fb rowsOf).db a = deleteBefore fb (rowsOf a) := fun _ => rfl
  have e_cache : ∀ a, (commitApply σ offset fb rowsOf).cache a =
      pruneList ((σ.dbRound + offset + 1) - maxBalLookback σ)
        (cacheAppend (σ.cache a) ((rowsOf a).take ((rowsOf a).length - (σ.db a).length))) := fun _ => rfl
  have hspec := fun a => inv.commitRows_spec offset a (rowsOf a) h1 (hrows a)
  refine
    { pwf := inv.pwf, valid := inv.valid, huniv := inv.huniv, hdb := ?_, hdeltas := ?_, hparams := ?_, hdbparams := ?_, hH := ?_,
      hrows := ?_, hlook := ?_, hcache := ?_ }
  · show σ.dbRound + offset ≤ σ.ledger.length
    omega
  · show σ.deltas.drop offset = (σ.ledger.drop (σ.dbRound + offset)).map (·.deltas)
    rw [inv.hdeltas, ← List.map_drop, List.drop_drop]
  · rw [e_params, e_start, e_round]; exact ⟨s, hp1, hp2, hp3, hp4⟩
  · rw [e_dbp, e_start, e_round]; exact hdbp
  · rw [e_start, e_round]; exact hHn
  · intro a
    obtain ⟨_, hs', hok', hb', _⟩ := hspec a
    rw [e_db, e_g, e_round]
    exact ⟨deleteBefore_sorted fb _ hs', rowsBelow_delete hb', rowsOK_delete hok'⟩
  · intro a rnd hr1 hr2
    obtain ⟨_, hs', hok', _, hl'⟩ := hspec a
    rw [e_start] at hr1
    rw [e_round] at hr2
    rw [e_db, e_hist, deleteBefore_rec σ.genesisUnit fb _ hs' hok' rnd (by omega)]
    exact hl' rnd (by omega) hr2
  · intro a
    obtain ⟨⟨news, hn1, hn2⟩, hs', _, _, hl'⟩ := hspec a
    have htake : (rowsOf a).take ((rowsOf a).length - (σ.db a).length) = news := by
      rw [hn1]; simp
    rw [e_cache, e_round, e_start, e_hist, htake]
    rw [hn1] at hs' hl'
    exact inv.commit_cache offset a news _ _ hHmono hn2 hs' hl'


theorem sameVersionPrefix_le (p0 : Nat) : ∀ l : List Params, sameVersionPrefix p0 l ≤ l.length := by
  intro l
  induction l with
  | nil => simp [sameVersionPrefix]
  | cons p ps ih =>
    unfold sameVersionPrefix
    split
    · simp only [List.length_cons]; omega
    · omega

theorem consecutiveVersion_le (σ : State) (k : Nat) : consecutiveVersion σ k ≤ k := by
  unfold consecutiveVersion
  simp only
  split
  · rename_i f l _ _
    split
    · have := sameVersionPrefix_le f.proto (List.take k (List.drop (σ.params.length - σ.deltas.length) σ.params))
      simp only [List.length_take] at this
      omega
    · exact Nat.le_refl _
  · exact Nat.le_refl _

theorem updsOf_nil_of_absent : ∀ (ds : List Delta) (r : Nat) (a : Addr), (∀ d ∈ ds, d.lookup a = none) → updsOf ds r a = [] := by
  intro ds
  induction ds with
  | nil => intro r a _; rfl
  | cons d ds ih =>
    intro r a h
    simp only [updsOf, h d (by simp), List.nil_append]
    exact ih (r + 1) a (fun d' hd' => h d' (by simp [hd']))

theorem lookup_none_of_not_mem {d : Delta} {a : Addr} (h : ∀ e ∈ d, e.1 ≠ a) : d.lookup a = none := by
  induction d with
  | nil => rfl
  | cons e tl ih =>
    obtain ⟨k, v⟩ := e
    have hk : k ≠ a := h (k, v) (by simp)
    have : (a == k) = false := by simp; exact fun h' => hk h'.symm
    simp only [List.lookup, this]
    exact ih (fun e he => h e (by simp [he]))

theorem forgetBefore_bound {σ : State} {M : Nat} (inv : InvCore σ M) (newBase lowest : Nat) :
    forgetBefore σ newBase lowest = 0 ∨ forgetBefore σ newBase lowest + M ≤ newBase + 1 := by
  unfold forgetBefore
  rw [inv.mbl_eq]
  simp only
  split <;> omega

/-- **a successful commit keeps the invariant and the history** -/
theorem InvCore.commit_inv {σ σ' : State} {M : Nat} (inv : InvCore σ M) (R : Nat) (h : commit σ R = .done σ') :
    InvCore σ' M ∧ σ'.hist = σ.hist ∧ σ'.expCache = σ.expCache ∧ (∀ e ∈ σ'.voters, e ∈ σ.voters) := by
  unfold commit at h
  simp only at h
  split at h
  · cases h
  · split at h
    · cases h
    · split at h
      · cases h
      · rename_i hR hnb hfar
        split at h
        · cases h
        · rename_i hoff0
          have hk : consecutiveVersion σ (R - σ.lookback - σ.dbRound) ≤ σ.deltas.length := by
            have := consecutiveVersion_le σ (R - σ.lookback - σ.dbRound)
            omega
          split at h
          · cases h
          · rename_i hfind
            -- every address has its rows
            have hall : ∀ a, commitRows σ (σ.deltas.take (consecutiveVersion σ (R - σ.lookback - σ.dbRound))) a =
                .ok (match commitRows σ (σ.deltas.take (consecutiveVersion σ (R - σ.lookback - σ.dbRound))) a with
                  | .ok rows => rows | .error _ => σ.db a) := by
              intro a
              cases hc : commitRows σ (σ.deltas.take (consecutiveVersion σ (R - σ.lookback - σ.dbRound))) a with
              | ok rows => rfl
              | error e =>
                exfalso
                by_cases hau : a ∈ σ.univ
                · -- an error inside the universe would have been found
                  have hmem : (Except.error e : Except Err (List Row)) ∈
                      σ.univ.map (fun a => commitRows σ (σ.deltas.take (consecutiveVersion σ (R - σ.lookback - σ.dbRound))) a) :=
                    List.mem_map.mpr ⟨a, hau, hc⟩
                  cases hf : (σ.univ.map (fun a => commitRows σ (σ.deltas.take (consecutiveVersion σ (R - σ.lookback - σ.dbRound))) a)).find?
                      (fun r => match r with | .error _ => true | .ok _ => false) with
                  | none =>
                    have := List.find?_eq_none.mp hf _ hmem
                    simp at this
                  | some r =>
                    have hp := List.find?_some hf
                    cases r with
                    | error e' => exact hfind e' hf
                    | ok rows => simp at hp
                · -- outside the universe nothing is updated
                  have habs : ∀ d ∈ σ.deltas.take (consecutiveVersion σ (R - σ.lookback - σ.dbRound)), d.lookup a = none := by
                    intro d hd
                    have hd' : d ∈ σ.deltas := List.mem_of_mem_take hd
                    rw [inv.hdeltas] at hd'
                    obtain ⟨b, hb, rfl⟩ := List.mem_map.mp hd'
                    have hb' : b ∈ σ.gen :: σ.ledger := List.mem_cons_of_mem _ (List.mem_of_mem_drop hb)
                    exact lookup_none_of_not_mem (fun e he heq => hau (heq ▸ inv.huniv b hb' e he))
                  unfold commitRows at hc
                  rw [updsOf_nil_of_absent _ _ a habs] at hc
                  simp [applyUpds] at hc
            have hfbb := forgetBefore_bound inv (σ.dbRound + consecutiveVersion σ (R - σ.lookback - σ.dbRound))
              (votersLowest σ (R - σ.lookback))
            obtain ⟨hinv, hhist⟩ := inv.commitApply_inv _ _ _ hk (by
              rcases hfbb with h' | h'
              · exact Or.inl h'
              · right; omega) hall
            split at h
            · cases h
              refine ⟨?_, hhist, rfl, ?_⟩
              · exact
                  { pwf := hinv.pwf, valid := hinv.valid, huniv := hinv.huniv, hdb := hinv.hdb, hdeltas := hinv.hdeltas,
                    hparams := hinv.hparams, hdbparams := hinv.hdbparams, hH := hinv.hH, hrows := hinv.hrows,
                    hlook := hinv.hlook, hcache := hinv.hcache }
              · intro e he
                exact (List.mem_filter.mp he).1
            · cases h
              exact ⟨hinv, hhist, rfl, fun e he => he⟩

end AlgoVerif.Lemmas.OnlineAccts
