import AlgoVerif.Model.AppStorage
/-!
Lemmas about Model.AppStorage used by Props.C23: association lists (Go maps) with weighted sums, the schema-count
invariant of a `Store`, the box-counter invariant of the ledger primitives.
-/
namespace AlgoVerif.Model.AppStorage

/-! ## Except plumbing -/

theorem bind_eq_ok {ε α β : Type} {x : Except ε α} {f : α → Except ε β} {b : β} :
    (x >>= f) = .ok b ↔ ∃ a, x = .ok a ∧ f a = .ok b := by
  cases x with
  | error e => simp [bind, Except.bind]
  | ok a => simp [bind, Except.bind]

/-! ## association lists -/

section AList
set_option linter.unusedSectionVars false
variable {κ : Type} {β : Type} [DecidableEq κ]

theorem adel_cons_eq (t : List (κ × β)) (k : κ) (v : β) : adel ((k, v) :: t) k = adel t k := by
  simp [adel, List.filter]

theorem adel_cons_ne (t : List (κ × β)) {k k0 : κ} (v0 : β) (h : k0 ≠ k) : adel ((k0, v0) :: t) k = (k0, v0) :: adel t k := by
  simp [adel, List.filter, h]

theorem aget_adel (l : List (κ × β)) (k k' : κ) : aget (adel l k) k' = if k' = k then none else aget l k' := by
  induction l with
  | nil => simp [adel, aget]
  | cons p t ih =>
    obtain ⟨k0, v0⟩ := p
    unfold adel at ih ⊢
    by_cases h0 : k0 = k
    · subst h0
      simp only [List.filter, ne_eq, not_true_eq_false, decide_false]
      rw [ih]
      by_cases h1 : k' = k0
      · simp [h1]
      · have : ¬ k0 = k' := fun h => h1 h.symm
        simp [h1, aget, this]
    · have hd : decide ((k0, v0).1 ≠ k) = true := by simp [h0]
      simp only [List.filter, hd]
      simp only [aget]
      rw [ih]
      by_cases h1 : k0 = k'
      · subst h1; simp [h0]
      · simp [h1]

theorem aget_aset (l : List (κ × β)) (k k' : κ) (v : β) : aget (aset l k v) k' = if k = k' then some v else aget l k' := by
  unfold aset
  simp only [aget]
  by_cases h : k = k'
  · simp [h]
  · have : ¬ k' = k := fun e => h e.symm
    simp [h, aget_adel, this]

theorem mem_adel {l : List (κ × β)} {k : κ} {p : κ × β} (h : p ∈ adel l k) : p ∈ l ∧ p.1 ≠ k := by
  unfold adel at h
  simpa using h

theorem keysNodup_adel {l : List (κ × β)} (k : κ) (h : keysNodup l) : keysNodup (adel l k) := by
  unfold keysNodup adel at *
  induction l with
  | nil => simp
  | cons p t ih =>
    simp only [List.map_cons, List.nodup_cons] at h
    by_cases hp : p.1 = k
    · simp only [List.filter, ne_eq, hp, not_true_eq_false, decide_false]
      exact ih h.2
    · have hd : decide (p.1 ≠ k) = true := by simp [hp]
      simp only [List.filter, hd, List.map_cons, List.nodup_cons]
      refine ⟨?_, ih h.2⟩
      intro hm
      apply h.1
      simp only [List.mem_map] at hm ⊢
      obtain ⟨q, hq, hqe⟩ := hm
      exact ⟨q, (List.mem_filter.mp hq).1, hqe⟩

theorem key_not_mem_adel (l : List (κ × β)) (k : κ) : k ∉ (adel l k).map Prod.fst := by
  intro hm
  simp only [List.mem_map] at hm
  obtain ⟨q, hq, hqe⟩ := hm
  exact (mem_adel hq).2 hqe

theorem keysNodup_aset {l : List (κ × β)} (k : κ) (v : β) (h : keysNodup l) : keysNodup (aset l k v) := by
  unfold aset keysNodup
  simp only [List.map_cons, List.nodup_cons]
  exact ⟨key_not_mem_adel l k, keysNodup_adel k h⟩

theorem aget_none_of_not_mem {l : List (κ × β)} {k : κ} (h : k ∉ l.map Prod.fst) : aget l k = none := by
  induction l with
  | nil => rfl
  | cons p t ih =>
    obtain ⟨k0, v0⟩ := p
    simp only [List.map_cons, List.mem_cons, not_or] at h
    simp only [aget]
    have : ¬ k0 = k := fun e => h.1 e.symm
    simp [this, ih h.2]

theorem aget_mem {l : List (κ × β)} {k : κ} {v : β} (h : aget l k = some v) : (k, v) ∈ l := by
  induction l with
  | nil => simp [aget] at h
  | cons p t ih =>
    obtain ⟨k0, v0⟩ := p
    simp only [aget] at h
    by_cases h0 : k0 = k
    · simp [h0] at h; subst h0; subst h; simp
    · simp [h0] at h; exact List.mem_cons_of_mem _ (ih h)

/-- the weight of the entry of key `k` (0 when absent) -/
def wold (w : κ → β → Nat) (l : List (κ × β)) (k : κ) : Nat :=
  match aget l k with
  | some v => w k v
  | none => 0

theorem wold_some {w : κ → β → Nat} {l : List (κ × β)} {k : κ} {v : β} (h : aget l k = some v) : wold w l k = w k v := by
  unfold wold; rw [h]

theorem wold_none {w : κ → β → Nat} {l : List (κ × β)} {k : κ} (h : aget l k = none) : wold w l k = 0 := by
  unfold wold; rw [h]

/-- removing a key removes exactly its weight -/
theorem wsum_adel (w : κ → β → Nat) {l : List (κ × β)} (k : κ) (h : keysNodup l) :
    wsum w (adel l k) + wold w l k = wsum w l := by
  induction l with
  | nil => simp [adel, wsum, wold, aget]
  | cons p t ih =>
    obtain ⟨k0, v0⟩ := p
    unfold keysNodup at h
    simp only [List.map_cons, List.nodup_cons] at h
    have iht := ih h.2
    by_cases h0 : k0 = k
    · subst h0
      have hn : aget t k0 = none := aget_none_of_not_mem h.1
      rw [wold_none hn] at iht
      rw [adel_cons_eq]
      have : wold w ((k0, v0) :: t) k0 = w k0 v0 := wold_some (by simp [aget])
      rw [this]
      simp only [wsum]
      omega
    · rw [adel_cons_ne t v0 h0]
      have : wold w ((k0, v0) :: t) k = wold w t k := by
        unfold wold; simp only [aget, h0, if_false]
      rw [this]
      simp only [wsum]
      omega

theorem wsum_aset (w : κ → β → Nat) {l : List (κ × β)} (k : κ) (v : β) (h : keysNodup l) :
    wsum w (aset l k v) + wold w l k = w k v + wsum w l := by
  unfold aset
  simp only [wsum]
  have := wsum_adel w k h
  omega

theorem wsum_congr {w w' : κ → β → Nat} {l : List (κ × β)} (h : ∀ p, p ∈ l → w p.1 p.2 = w' p.1 p.2) : wsum w l = wsum w' l := by
  induction l with
  | nil => rfl
  | cons p t ih =>
    obtain ⟨k0, v0⟩ := p
    simp only [wsum]
    rw [h (k0, v0) (by simp), ih (fun q hq => h q (List.mem_cons_of_mem _ hq))]

theorem wsum_one_eq_length (l : List (κ × β)) : wsum (fun _ _ => 1) l = l.length := by
  induction l with
  | nil => rfl
  | cons p t ih => obtain ⟨k0, v0⟩ := p; simp only [wsum, List.length_cons, ih]; omega

theorem wsum_le_length_mul {w : κ → β → Nat} {l : List (κ × β)} {B : Nat} (h : ∀ p, p ∈ l → w p.1 p.2 ≤ B) :
    wsum w l ≤ l.length * B := by
  induction l with
  | nil => simp [wsum]
  | cons p t ih =>
    obtain ⟨k0, v0⟩ := p
    have h1 : w k0 v0 ≤ B := h (k0, v0) (by simp)
    have h2 := ih (fun q hq => h q (List.mem_cons_of_mem _ hq))
    simp only [wsum, List.length_cons]
    rw [Nat.add_mul, Nat.one_mul]
    omega

/-- a present key's weight is part of the sum -/
theorem wsum_ge_of_aget (w : κ → β → Nat) {l : List (κ × β)} {k : κ} {v : β} (hn : keysNodup l) (h : aget l k = some v) :
    w k v ≤ wsum w l := by
  have := wsum_adel w k hn
  rw [wold_some h] at this
  omega

theorem length_adel_le (l : List (κ × β)) (k : κ) : (adel l k).length ≤ l.length := by
  unfold adel; exact List.length_filter_le _ _

theorem length_aset_le (l : List (κ × β)) (k : κ) (v : β) : (aset l k v).length ≤ l.length + 1 := by
  unfold aset; simp only [List.length_cons]; have := length_adel_le l k; omega

end AList


end AlgoVerif.Model.AppStorage
