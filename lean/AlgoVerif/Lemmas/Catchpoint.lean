/-
Lemmas for C14: rows as a keyed table, the balances trie follows the rows (through Props.C17's representation relation),
the arithmetic of calculateFirstStageRounds.
-/
import AlgoVerif.Model.Catchpoint
import AlgoVerif.Props.C15
import AlgoVerif.Props.C17
namespace Lemmas.Catchpoint
open Model.CatchpointHash Model.MerkleTrie Model.Catchpoint

/-! ### rows -/

def KeysNodup (rows : Rows) : Prop := (rows.map entryKey).Nodup

theorem mem_applyChange {rows : Rows} {c : Change} {e : Entry} :
    e ∈ applyChange rows c ↔ c = .put e ∨ (e ∈ rows ∧ entryKey e ≠ c.key) := by
  cases c with
  | put e' =>
    simp only [applyChange, List.mem_cons, List.mem_filter, Change.key, decide_eq_true_eq, Change.put.injEq]
    constructor
    · rintro (h | h)
      · exact Or.inl h.symm
      · exact Or.inr h
    · rintro (h | h)
      · exact Or.inl h.symm
      · exact Or.inr h
  | del k =>
    simp only [applyChange, List.mem_filter, Change.key, decide_eq_true_eq, reduceCtorEq, false_or]

theorem keysNodup_filter {rows : Rows} (p : Entry → Bool) (h : KeysNodup rows) : KeysNodup (rows.filter p) := by
  unfold KeysNodup at *
  exact (List.Sublist.map entryKey List.filter_sublist).nodup h

theorem keysNodup_applyChange {rows : Rows} (c : Change) (h : KeysNodup rows) : KeysNodup (applyChange rows c) := by
  cases c with
  | put e =>
    unfold KeysNodup
    simp only [applyChange, List.map_cons, List.nodup_cons]
    refine ⟨?_, keysNodup_filter _ h⟩
    intro hm
    obtain ⟨x, hx, hk⟩ := List.mem_map.1 hm
    simp only [List.mem_filter, decide_eq_true_eq] at hx
    exact hx.2 hk
  | del k => exact keysNodup_filter _ h

theorem keysNodup_applyRound {rows : Rows} (rd : RoundData) (h : KeysNodup rows) : KeysNodup (applyRound rows rd) := by
  unfold applyRound
  generalize rd.changes = cs
  induction cs generalizing rows with
  | nil => exact h
  | cons c cs ih => exact ih (keysNodup_applyChange c h)

theorem keysNodup_foldRounds {rows : Rows} (rds : List RoundData) (h : KeysNodup rows) :
    KeysNodup (rds.foldl applyRound rows) := by
  induction rds generalizing rows with
  | nil => exact h
  | cons rd rds ih => exact ih (keysNodup_applyRound rd h)

theorem lookupRow_some {rows : Rows} {k : RowKey} {e : Entry} (h : lookupRow rows k = some e) :
    e ∈ rows ∧ entryKey e = k := by
  unfold lookupRow at h
  exact ⟨List.mem_of_find?_eq_some h, by simpa using List.find?_some h⟩

theorem lookupRow_of_mem {rows : Rows} (hn : KeysNodup rows) {e : Entry} (he : e ∈ rows) :
    lookupRow rows (entryKey e) = some e := by
  unfold lookupRow KeysNodup at *
  induction rows with
  | nil => cases he
  | cons x xs ih =>
    simp only [List.map_cons, List.nodup_cons] at hn
    rcases List.mem_cons.1 he with rfl | hm
    · simp
    · have hne : entryKey x ≠ entryKey e := fun hk => hn.1 (hk ▸ List.mem_map.2 ⟨e, hm, rfl⟩)
      simp only [List.find?_cons, hne, decide_false]
      exact ih hn.2 hm

theorem lookupRow_none {rows : Rows} {k : RowKey} (h : lookupRow rows k = none) : ∀ e ∈ rows, entryKey e ≠ k := by
  unfold lookupRow at h
  intro e he hk
  have := List.find?_eq_none.1 h e he
  simp [hk] at this

/-- keys not touched keep their row -/
theorem mem_foldChanges_of_untouched {rows : Rows} (cs : List Change) {e : Entry}
    (hu : entryKey e ∉ cs.map Change.key) : e ∈ cs.foldl applyChange rows ↔ e ∈ rows := by
  induction cs generalizing rows with
  | nil => rfl
  | cons c cs ih =>
    simp only [List.map_cons, List.mem_cons, not_or] at hu
    rw [List.foldl_cons, ih hu.2, mem_applyChange]
    constructor
    · rintro (h | h)
      · exact absurd (by rw [h]; rfl) hu.1
      · exact h.1
    · exact fun h => Or.inr ⟨h, hu.1⟩

def roundKeys (rds : List RoundData) : List RowKey := rds.flatMap fun rd => rd.changes.map Change.key

theorem mem_foldRounds_of_untouched {rows : Rows} (rds : List RoundData) {e : Entry}
    (hu : entryKey e ∉ roundKeys rds) : e ∈ rds.foldl applyRound rows ↔ e ∈ rows := by
  induction rds generalizing rows with
  | nil => rfl
  | cons rd rds ih =>
    simp only [roundKeys, List.flatMap_cons, List.mem_append, not_or] at hu
    rw [List.foldl_cons, ih hu.2]
    exact mem_foldChanges_of_untouched rd.changes hu.1

theorem mem_dedupKeys {ks : List RowKey} {k : RowKey} : k ∈ dedupKeys ks ↔ k ∈ ks := by
  induction ks with
  | nil => simp [dedupKeys]
  | cons x xs ih =>
    simp only [dedupKeys]
    split
    · rename_i hx
      rw [ih, List.mem_cons]
      constructor
      · exact Or.inr
      · rintro (rfl | h)
        · exact hx
        · exact h
    · rw [List.mem_cons, List.mem_cons, ih]

theorem nodup_dedupKeys (ks : List RowKey) : (dedupKeys ks).Nodup := by
  induction ks with
  | nil => simp [dedupKeys]
  | cons x xs ih =>
    simp only [dedupKeys]
    split
    · exact ih
    · rename_i hx
      exact List.nodup_cons.2 ⟨fun h => hx (mem_dedupKeys.1 h), ih⟩

theorem mem_changedKeys {rds : List RoundData} {k : RowKey} : k ∈ changedKeys rds ↔ k ∈ roundKeys rds :=
  mem_dedupKeys

theorem stateAt_add (h : Hist) (a n : Nat) :
    h.stateAt (a + n) = ((h.rounds.drop a).take n).foldl applyRound (h.stateAt a) := by
  unfold Hist.stateAt
  rw [List.take_add, List.foldl_append]

/-! ### leaves -/

def AllLen (n : Nat) (S : List Bytes) : Prop := ∀ k ∈ S, k.length = n

theorem leaf_length {H : Bytes → Bytes} (hLen : ∀ x, (H x).length = 32) (e : Entry) : (e.leaf H).length = 36 := by
  obtain ⟨a, h⟩ := Props.C15.Entry.leaf_eq H e
  rw [h, Props.C15.leaf_shape]
  simp [affinityPrefix, hLen]

theorem allLen_leaves {H : Bytes → Bytes} (hLen : ∀ x, (H x).length = 32) (rows : Rows) : AllLen 36 (leavesOf H rows) := by
  intro k hk
  obtain ⟨e, _, rfl⟩ := List.mem_map.1 hk
  exact leaf_length hLen e

/-- no two different rows (of the listed ones) share a trie leaf: excludes hash collisions AND the kv boundary shift -/
def LeafInj (H : Bytes → Bytes) (rows : Rows) : Prop :=
  ∀ e₁ ∈ rows, ∀ e₂ ∈ rows, e₁.leaf H = e₂.leaf H → e₁ = e₂

/-! ### the trie follows a set -/

open Props.C17 in
theorem rep_trieAdd {σ : Store} {S : List Bytes} {n : Nat} {d : Bytes} (h : Rep σ.cur S) (hS : AllLen n S) (hd : d.length = n) :
    ∃ S', Rep (trieAdd σ d).cur S' ∧ AllLen n S' ∧ (∀ x, x ∈ S' ↔ x ∈ S ∨ x = d) ∧
      (trieAdd σ d).persisted = σ.persisted := by
  have hs := add_sim h d
  unfold trieAdd Store.add
  cases S with
  | nil =>
    simp only [setAdd] at hs
    cases ha : σ.cur.add d with
    | error e => rw [ha] at hs; exact absurd hs (by simp)
    | ok v =>
      obtain ⟨r, tr'⟩ := v
      rw [ha] at hs
      refine ⟨[d], hs.2, ?_, ?_, rfl⟩
      · intro k hk; simp only [List.mem_singleton] at hk; rw [hk]; exact hd
      · intro x; simp
  | cons k S' =>
    have hk : k.length = n := hS k (List.mem_cons_self ..)
    simp only [setAdd, hd, hk, ne_eq, not_true_eq_false, if_false] at hs
    by_cases hm : d ∈ k :: S'
    · rw [if_pos hm] at hs
      cases ha : σ.cur.add d with
      | error e => rw [ha] at hs; exact absurd hs (by simp)
      | ok v =>
        obtain ⟨r, tr'⟩ := v
        rw [ha] at hs
        refine ⟨k :: S', hs.2, hS, ?_, rfl⟩
        intro x
        constructor
        · exact Or.inl
        · rintro (hx | rfl)
          · exact hx
          · exact hm
    · rw [if_neg hm] at hs
      cases ha : σ.cur.add d with
      | error e => rw [ha] at hs; exact absurd hs (by simp)
      | ok v =>
        obtain ⟨r, tr'⟩ := v
        rw [ha] at hs
        refine ⟨d :: k :: S', hs.2, ?_, ?_, rfl⟩
        · intro y hy
          rcases List.mem_cons.1 hy with rfl | hy
          · exact hd
          · exact hS y hy
        · intro x
          rw [List.mem_cons]
          constructor
          · rintro (hx | hx)
            · exact Or.inr hx
            · exact Or.inl hx
          · rintro (hx | hx)
            · exact Or.inr hx
            · exact Or.inl hx

open Props.C17 in
theorem rep_trieDel {σ : Store} {S : List Bytes} {n : Nat} {d : Bytes} (h : Rep σ.cur S) (hS : AllLen n S) (hd : d.length = n) :
    ∃ S', Rep (trieDel σ d).cur S' ∧ AllLen n S' ∧ (∀ x, x ∈ S' ↔ x ∈ S ∧ x ≠ d) ∧
      (trieDel σ d).persisted = σ.persisted := by
  have hs := delete_sim h d
  unfold trieDel Store.delete
  cases S with
  | nil =>
    simp only [setDelete] at hs
    cases ha : σ.cur.delete d with
    | error e => rw [ha] at hs; exact absurd hs (by simp)
    | ok v =>
      obtain ⟨r, tr'⟩ := v
      rw [ha] at hs
      exact ⟨[], hs.2, hS, fun x => by simp, rfl⟩
  | cons k S' =>
    have hk : k.length = n := hS k (List.mem_cons_self ..)
    simp only [setDelete, hd, hk, ne_eq, not_true_eq_false, if_false] at hs
    by_cases hm : d ∈ k :: S'
    · rw [if_pos hm] at hs
      cases ha : σ.cur.delete d with
      | error e => rw [ha] at hs; exact absurd hs (by simp)
      | ok v =>
        obtain ⟨r, tr'⟩ := v
        rw [ha] at hs
        refine ⟨_, hs.2, ?_, ?_, rfl⟩
        · intro y hy
          exact hS y (List.mem_filter.1 hy).1
        · intro x
          simp only [List.mem_filter, decide_eq_true_eq]
    · rw [if_neg hm] at hs
      cases ha : σ.cur.delete d with
      | error e => rw [ha] at hs; exact absurd hs (by simp)
      | ok v =>
        obtain ⟨r, tr'⟩ := v
        rw [ha] at hs
        refine ⟨k :: S', hs.2, hS, ?_, rfl⟩
        intro x
        constructor
        · exact fun hx => ⟨hx, fun e => hm (e ▸ hx)⟩
        · exact fun hx => hx.1

/-- rows in which the keys `done` already carry their new value -/
def mix (old new : Rows) (done : List RowKey) : Rows :=
  old.filter (fun e => decide (entryKey e ∉ done)) ++ new.filter (fun e => decide (entryKey e ∈ done))

theorem mix_nil (old new : Rows) : mix old new [] = old := by
  unfold mix
  rw [List.filter_eq_self.2 (by simp), List.filter_eq_nil_iff.2 (by simp)]
  simp

theorem mem_mix {old new : Rows} {done : List RowKey} {e : Entry} :
    e ∈ mix old new done ↔ (e ∈ old ∧ entryKey e ∉ done) ∨ (e ∈ new ∧ entryKey e ∈ done) := by
  simp [mix, List.mem_append, List.mem_filter]

def delOld (H : Bytes → Bytes) (old : Rows) (σ : Store) (k : RowKey) : Store :=
  match lookupRow old k with
  | some e => trieDel σ (e.leaf H)
  | none => σ

def addNew (H : Bytes → Bytes) (new : Rows) (σ : Store) (k : RowKey) : Store :=
  match lookupRow new k with
  | some e => trieAdd σ (e.leaf H)
  | none => σ

theorem updateKey_eq (H : Bytes → Bytes) (old new : Rows) (σ : Store) (k : RowKey) :
    updateKey H old new σ k = addNew H new (delOld H old σ k) k := by
  unfold updateKey addNew delOld
  cases lookupRow old k <;> cases lookupRow new k <;> rfl

open Props.C17 in
theorem rep_delOld {H : Bytes → Bytes} (hLen : ∀ x, (H x).length = 32) {old new : Rows}
    (hno : KeysNodup old) (hinj : LeafInj H (old ++ new))
    {σ : Store} {S : List Bytes} {done : List RowKey} {k : RowKey} (hk : k ∉ done)
    (h : Rep σ.cur S) (hS : AllLen 36 S) (hmem : ∀ x, x ∈ S ↔ x ∈ leavesOf H (mix old new done)) :
    ∃ S1, Rep (delOld H old σ k).cur S1 ∧ AllLen 36 S1 ∧
      (∀ x, x ∈ S1 ↔ ∃ e ∈ mix old new done, entryKey e ≠ k ∧ e.leaf H = x) ∧
      (delOld H old σ k).persisted = σ.persisted := by
  unfold delOld
  cases hl : lookupRow old k with
  | none =>
    simp only
    refine ⟨S, h, hS, ?_, by first | rfl | trivial⟩
    intro x
    rw [hmem x]
    simp only [leavesOf, List.mem_map]
    constructor
    · rintro ⟨e, he, rfl⟩
      refine ⟨e, he, ?_, rfl⟩
      rcases mem_mix.1 he with ⟨ho, _⟩ | ⟨_, hd⟩
      · exact lookupRow_none hl e ho
      · exact fun hek => hk (hek ▸ hd)
    · rintro ⟨e, he, _, rfl⟩
      exact ⟨e, he, rfl⟩
  | some eo =>
    simp only
    obtain ⟨heo, hko⟩ := lookupRow_some hl
    obtain ⟨S1, hr, hl1, hm1, hp⟩ := rep_trieDel (d := eo.leaf H) h hS (leaf_length hLen eo)
    refine ⟨S1, hr, hl1, ?_, hp⟩
    intro x
    rw [hm1 x, hmem x]
    simp only [leavesOf, List.mem_map]
    constructor
    · rintro ⟨⟨e, he, rfl⟩, hne⟩
      refine ⟨e, he, ?_, rfl⟩
      intro hek
      rcases mem_mix.1 he with ⟨ho, _⟩ | ⟨_, hd⟩
      · have : lookupRow old (entryKey e) = some e := lookupRow_of_mem hno ho
        rw [hek, hl] at this
        exact hne (by rw [Option.some.inj this])
      · exact hk (hek ▸ hd)
    · rintro ⟨e, he, hek, rfl⟩
      refine ⟨⟨e, he, rfl⟩, ?_⟩
      intro hleaf
      have he' : e ∈ old ++ new := by
        rcases mem_mix.1 he with ⟨ho, _⟩ | ⟨hn, _⟩
        · exact List.mem_append.2 (Or.inl ho)
        · exact List.mem_append.2 (Or.inr hn)
      have := hinj e he' eo (List.mem_append.2 (Or.inl heo)) hleaf
      exact hek (this ▸ hko)

theorem mem_mix_cons {old new : Rows} {done : List RowKey} {k : RowKey} (hk : k ∉ done) (e : Entry) :
    e ∈ mix old new (k :: done) ↔ (e ∈ mix old new done ∧ entryKey e ≠ k) ∨ (e ∈ new ∧ entryKey e = k) := by
  simp only [mem_mix, List.mem_cons, not_or]
  constructor
  · rintro (⟨ho, hne, hnd⟩ | ⟨hn, rfl | hd⟩)
    · exact Or.inl ⟨Or.inl ⟨ho, hnd⟩, hne⟩
    · exact Or.inr ⟨hn, rfl⟩
    · exact Or.inl ⟨Or.inr ⟨hn, hd⟩, fun hek => hk (hek ▸ hd)⟩
  · rintro (⟨⟨ho, hnd⟩ | ⟨hn, hd⟩, hne⟩ | ⟨hn, hek⟩)
    · exact Or.inl ⟨ho, hne, hnd⟩
    · exact Or.inr ⟨hn, Or.inr hd⟩
    · exact Or.inr ⟨hn, Or.inl hek⟩

open Props.C17 in
theorem rep_addNew {H : Bytes → Bytes} (hLen : ∀ x, (H x).length = 32) {old new : Rows} (hnn : KeysNodup new)
    {σ1 : Store} {S1 : List Bytes} {done : List RowKey} {k : RowKey} (hk : k ∉ done)
    (hr1 : Rep σ1.cur S1) (hl1 : AllLen 36 S1)
    (hm1 : ∀ x, x ∈ S1 ↔ ∃ e ∈ mix old new done, entryKey e ≠ k ∧ e.leaf H = x) :
    ∃ S', Rep (addNew H new σ1 k).cur S' ∧ AllLen 36 S' ∧
      (∀ x, x ∈ S' ↔ x ∈ leavesOf H (mix old new (k :: done))) ∧
      (addNew H new σ1 k).persisted = σ1.persisted := by
  have hmix := mem_mix_cons (old := old) (new := new) hk
  unfold addNew
  cases hl : lookupRow new k with
  | none =>
    simp only
    refine ⟨S1, hr1, hl1, ?_, by first | rfl | trivial⟩
    intro x
    rw [hm1 x]
    simp only [leavesOf, List.mem_map]
    constructor
    · rintro ⟨e, he, hne, rfl⟩
      exact ⟨e, (hmix e).2 (Or.inl ⟨he, hne⟩), rfl⟩
    · rintro ⟨e, he, rfl⟩
      rcases (hmix e).1 he with ⟨hm, hne⟩ | ⟨hn, hek⟩
      · exact ⟨e, hm, hne, rfl⟩
      · exact absurd hek (lookupRow_none hl e hn)
  | some en =>
    simp only
    obtain ⟨hen, hkn⟩ := lookupRow_some hl
    obtain ⟨S2, hr2, hl2, hm2, hp2⟩ := rep_trieAdd (d := en.leaf H) hr1 hl1 (leaf_length hLen en)
    refine ⟨S2, hr2, hl2, ?_, hp2⟩
    intro x
    rw [hm2 x, hm1 x]
    simp only [leavesOf, List.mem_map]
    constructor
    · rintro (⟨e, he, hne, rfl⟩ | rfl)
      · exact ⟨e, (hmix e).2 (Or.inl ⟨he, hne⟩), rfl⟩
      · exact ⟨en, (hmix en).2 (Or.inr ⟨hen, hkn⟩), rfl⟩
    · rintro ⟨e, he, rfl⟩
      rcases (hmix e).1 he with ⟨hm, hne⟩ | ⟨hn, hek⟩
      · exact Or.inl ⟨e, hm, hne, rfl⟩
      · have : lookupRow new (entryKey e) = some e := lookupRow_of_mem hnn hn
        rw [hek, hl] at this
        exact Or.inr (by rw [Option.some.inj this])

open Props.C17 in
/-- one key of accountsUpdateBalances, at the level of the represented set -/
theorem rep_updateKey {H : Bytes → Bytes} (hLen : ∀ x, (H x).length = 32) {old new : Rows}
    (hno : KeysNodup old) (hnn : KeysNodup new) (hinj : LeafInj H (old ++ new))
    {σ : Store} {S : List Bytes} {done : List RowKey} {k : RowKey} (hk : k ∉ done)
    (h : Rep σ.cur S) (hS : AllLen 36 S) (hmem : ∀ x, x ∈ S ↔ x ∈ leavesOf H (mix old new done)) :
    ∃ S', Rep (updateKey H old new σ k).cur S' ∧ AllLen 36 S' ∧
      (∀ x, x ∈ S' ↔ x ∈ leavesOf H (mix old new (k :: done))) ∧
      (updateKey H old new σ k).persisted = σ.persisted := by
  rw [updateKey_eq]
  obtain ⟨S1, hr1, hl1, hm1, hp1⟩ := rep_delOld hLen hno hinj hk h hS hmem
  obtain ⟨S2, hr2, hl2, hm2, hp2⟩ := rep_addNew hLen hnn hk hr1 hl1 hm1
  exact ⟨S2, hr2, hl2, hm2, hp2.trans hp1⟩

open Props.C17 in
theorem rep_foldKeys {H : Bytes → Bytes} (hLen : ∀ x, (H x).length = 32) {old new : Rows}
    (hno : KeysNodup old) (hnn : KeysNodup new) (hinj : LeafInj H (old ++ new)) :
    ∀ (ks : List RowKey) {σ : Store} {S : List Bytes} {done : List RowKey}, ks.Nodup → (∀ k ∈ ks, k ∉ done) →
      Rep σ.cur S → AllLen 36 S → (∀ x, x ∈ S ↔ x ∈ leavesOf H (mix old new done)) →
      ∃ S', Rep (ks.foldl (updateKey H old new) σ).cur S' ∧ AllLen 36 S' ∧
        (∀ x, x ∈ S' ↔ x ∈ leavesOf H (mix old new (ks.reverse ++ done))) ∧
        (ks.foldl (updateKey H old new) σ).persisted = σ.persisted
  | [], σ, S, done, _, _, h, hS, hm => ⟨S, h, hS, by simpa using hm, rfl⟩
  | k :: ks, σ, S, done, hnd, hdis, h, hS, hm => by
    obtain ⟨hk, hnd'⟩ := List.nodup_cons.1 hnd
    obtain ⟨S1, hr1, hl1, hm1, hp1⟩ := rep_updateKey hLen hno hnn hinj (hdis k (List.mem_cons_self ..)) h hS hm
    have hdis' : ∀ k' ∈ ks, k' ∉ k :: done := by
      intro k' hk' hmem
      rcases List.mem_cons.1 hmem with rfl | hd
      · exact hk hk'
      · exact hdis k' (List.mem_cons_of_mem _ hk') hd
    obtain ⟨S2, hr2, hl2, hm2, hp2⟩ := rep_foldKeys hLen hno hnn hinj ks hnd' hdis' hr1 hl1 hm1
    refine ⟨S2, hr2, hl2, ?_, hp2.trans hp1⟩
    intro x
    rw [hm2 x]
    simp [List.reverse_cons, List.append_assoc]

/-- the balances trie holds exactly the leaves of `L` (in memory and persisted), nothing uncommitted -/
def TrieOK (σ : Store) (L : List Bytes) : Prop :=
  σ.modified = false ∧ ∃ S, Props.C17.Rep σ.cur S ∧ Props.C17.Rep σ.persisted S ∧ AllLen 36 S ∧ ∀ x, x ∈ S ↔ x ∈ L

/-- when every changed key is processed the mixed rows are the new rows (as sets) -/
theorem mix_all {old new : Rows} {ks : List RowKey}
    (hun : ∀ e, entryKey e ∉ ks → (e ∈ new ↔ e ∈ old)) (e : Entry) : e ∈ mix old new ks ↔ e ∈ new := by
  rw [mem_mix]
  constructor
  · rintro (⟨ho, hk⟩ | ⟨hn, _⟩)
    · exact (hun e hk).2 ho
    · exact hn
  · intro hn
    by_cases hk : entryKey e ∈ ks
    · exact Or.inr ⟨hn, hk⟩
    · exact Or.inl ⟨(hun e hk).1 hn, hk⟩

/-- **commitRound keeps the trie in step with the rows** -/
theorem trieOK_updateTrie {H : Bytes → Bytes} (hLen : ∀ x, (H x).length = 32) {old : Rows} (rds : List RoundData)
    (hno : KeysNodup old) (hinj : LeafInj H (old ++ rds.foldl applyRound old))
    {σ : Store} (h : TrieOK σ (leavesOf H old)) :
    TrieOK (updateTrie H old (rds.foldl applyRound old) (changedKeys rds) σ) (leavesOf H (rds.foldl applyRound old)) := by
  obtain ⟨_, S, hc, _, hS, hm⟩ := h
  have hnn := keysNodup_foldRounds rds hno
  have hm0 : ∀ x, x ∈ S ↔ x ∈ leavesOf H (mix old (rds.foldl applyRound old) []) := by
    intro x
    rw [hm x, mix_nil]
  obtain ⟨S', hr, hl, hm', _⟩ := rep_foldKeys hLen hno hnn hinj (changedKeys rds) (nodup_dedupKeys _)
    (fun _ _ => by simp) hc hS hm0
  refine ⟨rfl, S', hr, hr, hl, ?_⟩
  intro x
  rw [hm' x]
  simp only [leavesOf, List.mem_map, List.append_nil]
  have hall := mix_all (old := old) (new := rds.foldl applyRound old) (ks := (changedKeys rds).reverse) (fun e hk =>
    mem_foldRounds_of_untouched rds (fun hc => hk (List.mem_reverse.2 (mem_changedKeys.2 hc))))
  constructor
  · rintro ⟨e, he, rfl⟩; exact ⟨e, (hall e).1 he, rfl⟩
  · rintro ⟨e, he, rfl⟩; exact ⟨e, (hall e).2 he, rfl⟩

theorem trieOK_op {σ : Store} {L : List Bytes} (h : TrieOK σ L) (op : TrieOp) : TrieOK (applyTrieOp σ op) L := by
  obtain ⟨hm, S, hc, hp, hS, hmem⟩ := h
  cases op with
  | commit => exact ⟨rfl, S, hc, hc, hS, hmem⟩
  | evict c =>
    simp only [applyTrieOp, Store.evict, hm, Bool.false_eq_true, if_false]
    exact ⟨hm, S, hc, hp, hS, hmem⟩
  | reload => exact ⟨rfl, S, hp, hp, hS, hmem⟩

theorem canonRoot_congr (H : Bytes → Bytes) {S L : List Bytes} (hS : AllLen 36 S) (hL : AllLen 36 L)
    (h : ∀ x, x ∈ S ↔ x ∈ L) : canonRoot H S = canonRoot H L := by
  unfold canonRoot
  by_cases hne : S = []
  · subst hne
    have : L = [] := List.eq_nil_iff_forall_not_mem.2 fun k hk => by simpa using (h k).2 hk
    rw [this]
  · have hneL : L ≠ [] := by
      intro e
      obtain ⟨k, hk⟩ := List.exists_mem_of_ne_nil S hne
      rw [e] at h
      exact absurd ((h k).1 hk) (by simp)
    rw [Props.C17.elemLenOf_eq hne hS, Props.C17.elemLenOf_eq hneL hL, Props.C17.canon_set_only hS h]

/-- RootHash of a trie that is in step with `L` is the canonical root of `L`, and the trie stays as it is -/
theorem trieOK_root (H : Bytes → Bytes) {σ : Store} {L : List Bytes} (hL : AllLen 36 L) (h : TrieOK σ L) :
    (σ.root H).1 = canonRoot H L ∧ TrieOK (σ.root H).2 L := by
  obtain ⟨hm, S, hc, hp, hS, hmem⟩ := h
  have hroot := Props.C17.rep_rootHash H hc
  rw [canonRoot_congr H hS hL hmem] at hroot
  unfold Store.root
  cases hr : σ.cur.root with
  | none =>
    rw [hr] at hroot
    simp only
    exact ⟨hroot, hm, S, hc, hp, hS, hmem⟩
  | some t =>
    rw [hr] at hroot
    simp only [hm, Bool.false_eq_true, if_false]
    exact ⟨hroot, hm, S, hc, hp, hS, hmem⟩

/-- initializeHashes: the trie built from the rows is in step with them -/
theorem trieOK_buildTrie {H : Bytes → Bytes} (hLen : ∀ x, (H x).length = 32) (rows : Rows) :
    TrieOK (buildTrie H rows) (leavesOf H rows) := by
  unfold buildTrie
  have key : ∀ (ls : List Bytes) (σ : Store) (S : List Bytes), AllLen 36 ls → Props.C17.Rep σ.cur S → AllLen 36 S →
      ∃ S', Props.C17.Rep (ls.foldl trieAdd σ).cur S' ∧ AllLen 36 S' ∧ ∀ x, x ∈ S' ↔ x ∈ S ∨ x ∈ ls := by
    intro ls
    induction ls with
    | nil => intro σ S _ h hS; exact ⟨S, h, hS, by simp⟩
    | cons d ds ih =>
      intro σ S hl h hS
      obtain ⟨S1, h1, hS1, hm1, _⟩ := rep_trieAdd (d := d) h hS (hl d (List.mem_cons_self ..))
      obtain ⟨S2, h2, hS2, hm2⟩ := ih (trieAdd σ d) S1 (fun k hk => hl k (List.mem_cons_of_mem _ hk)) h1 hS1
      refine ⟨S2, h2, hS2, ?_⟩
      intro x
      rw [hm2 x, hm1 x, List.mem_cons]
      constructor
      · rintro ((h | h) | h)
        · exact Or.inl h
        · exact Or.inr (Or.inl h)
        · exact Or.inr (Or.inr h)
      · rintro (h | h | h)
        · exact Or.inl (Or.inl h)
        · exact Or.inl (Or.inr h)
        · exact Or.inr h
  obtain ⟨S, h, hS, hm⟩ := key (leavesOf H rows) Store.empty [] (allLen_leaves hLen rows) Props.C17.rep_empty
    (fun _ hk => by cases hk)
  exact ⟨rfl, S, h, h, hS, fun x => by rw [hm x]; simp⟩

end Lemmas.Catchpoint
