/-
Vector-commitment lemmas for C37 (core Lean only): bit reversal is an involution, the padded array,
the depth of the padded tree, and the index map of VerifyVectorCommitment.
-/
import AlgoVerif.Lemmas.MerkleArraySound
namespace Lemmas.MerkleArray
open Model.MerkleArray

/-! ### bit reversal and the padded vector-commitment array -/

theorem bitrev_lt : ∀ (k i : Nat), bitrev k i < 2 ^ k
  | 0, _ => by simp [bitrev]
  | k + 1, i => by
    have ih := bitrev_lt k (i / 2)
    have h2 : i % 2 < 2 := Nat.mod_lt _ (by omega)
    simp only [bitrev, Nat.pow_succ]
    have : i % 2 = 0 ∨ i % 2 = 1 := by omega
    rcases this with h | h <;> rw [h] <;> omega

/-- the same function read from the top bit -/
theorem bitrev_top : ∀ (k i : Nat), i < 2 ^ (k + 1) →
    bitrev (k + 1) i = 2 * bitrev k (i % 2 ^ k) + i / 2 ^ k
  | 0, i, h => by
    simp at h
    simp [bitrev]; omega
  | k + 1, i, h => by
    have hi2 : i / 2 < 2 ^ (k + 1) := by rw [Nat.pow_succ] at h; omega
    have ih := bitrev_top k (i / 2) hi2
    have e1 : (i % 2 ^ (k + 1)) % 2 = i % 2 :=
      Nat.mod_mod_of_dvd i (by rw [Nat.pow_succ]; exact Nat.dvd_mul_left 2 (2 ^ k))
    have e2 : (i % 2 ^ (k + 1)) / 2 = (i / 2) % 2 ^ k := by
      rw [Nat.pow_succ, Nat.mul_comm]; exact Nat.mod_mul_right_div_self i 2 (2 ^ k)
    have e3 : i / 2 / 2 ^ k = i / 2 ^ (k + 1) := by
      rw [Nat.div_div_eq_div_mul, Nat.pow_succ, Nat.mul_comm]
    calc bitrev (k + 2) i = (i % 2) * 2 ^ (k + 1) + bitrev (k + 1) (i / 2) := rfl
      _ = (i % 2) * 2 ^ (k + 1) + (2 * bitrev k ((i / 2) % 2 ^ k) + i / 2 / 2 ^ k) := by rw [ih]
      _ = 2 * ((i % 2) * 2 ^ k + bitrev k ((i / 2) % 2 ^ k)) + i / 2 ^ (k + 1) := by
          rw [e3, Nat.pow_succ]; generalize 2 ^ k = W; generalize bitrev k _ = B
          generalize i / (W * 2) = Q
          have : i % 2 = 0 ∨ i % 2 = 1 := by omega
          rcases this with h0 | h0 <;> rw [h0] <;> omega
      _ = 2 * bitrev (k + 1) (i % 2 ^ (k + 1)) + i / 2 ^ (k + 1) := by
          simp only [bitrev, e1, e2]

theorem bitrev_bitrev : ∀ (k i : Nat), i < 2 ^ k → bitrev k (bitrev k i) = i
  | 0, i, h => by simp at h; simp [bitrev, h]
  | k + 1, i, h => by
    have hi2 : i / 2 < 2 ^ k := by rw [Nat.pow_succ] at h; omega
    have ih := bitrev_bitrev k (i / 2) hi2
    have hb := bitrev_lt k (i / 2)
    have hr := bitrev_lt (k + 1) i
    rw [bitrev_top k _ hr]
    have hdef : bitrev (k + 1) i = bitrev k (i / 2) + (i % 2) * 2 ^ k := by simp [bitrev]; omega
    have hpos : 0 < 2 ^ k := Nat.pow_pos (by omega)
    have e1 : bitrev (k + 1) i % 2 ^ k = bitrev k (i / 2) := by
      rw [hdef, Nat.add_mul_mod_self_right, Nat.mod_eq_of_lt hb]
    have e2 : bitrev (k + 1) i / 2 ^ k = i % 2 := by
      rw [hdef, Nat.add_mul_div_right _ _ hpos, Nat.div_eq_of_lt hb]; omega
    rw [e1, e2, ih]; omega

def vcPath (n : Nat) : Nat := if n ≤ 1 then 1 else bitLen (n - 1)
def vcPadded (n : Nat) : Nat := if n ≤ 1 then 1 else 2 ^ vcPath n

theorem vcLeaves_length (arr : List Bytes) : (vcLeaves arr).length = vcPadded arr.length := by
  simp only [vcLeaves, vcPadded, vcPath, List.length_map, List.length_range]

theorem vcLeaves_get (arr : List Bytes) (m : Nat) (hm : m < vcPadded arr.length) :
    (vcLeaves arr)[m]? = some (match arr[bitrev (vcPath arr.length) m]? with
      | some e => e
      | none => bottomPre) := by
  simp only [vcPadded, vcPath] at hm
  simp only [vcLeaves, vcPath, List.getElem?_map, List.getElem?_range hm, Option.map_some]
  rfl

theorem vcPadded_ge (n : Nat) : n ≤ vcPadded n := by
  simp only [vcPadded, vcPath]
  split
  · omega
  · rename_i h
    have : n - 1 ≠ 0 := by omega
    simp only [bitLen, this, if_false]
    have := @Nat.lt_log2_self (n - 1)
    omega

/-- the depth of an honest tree over `2^k` leaves is `k` -/
theorem chain_depth_pow (c : Cfg) (L : List Bytes) (rest : List (List Bytes)) (k : Nat)
    (hc : Chain c (L :: rest)) (hL : L.length = 2 ^ k) : rest.length = k := by
  have hle := chain_size_le c _ L rest rfl hc
  rw [hL, Nat.pow_le_pow_iff_right (by omega)] at hle
  by_cases hr : rest = []
  · subst hr
    simp only [Chain] at hc
    rw [hc] at hL
    have : k = 0 := by
      cases k with
      | zero => rfl
      | succ j => rw [Nat.pow_succ] at hL; have := Nat.pow_pos (a := 2) (n := j) (by omega); omega
    simp [this]
  · have hgt := chain_size_gt c _ L rest rfl hc hr
    rw [hL, Nat.pow_lt_pow_iff_right (by omega)] at hgt
    omega

/-- depth of the vector-commitment tree: 0 for ≤ 1 element, else `bits.Len64(n-1)` -/
theorem vc_depth (c : Cfg) (arr : List Bytes) (rest : List (List Bytes))
    (hc : Chain c ((vcLeaves arr).map c.H :: rest)) :
    (arr.length ≤ 1 → rest.length = 0) ∧ (1 < arr.length → rest.length = vcPath arr.length) := by
  have hlen : ((vcLeaves arr).map c.H).length = vcPadded arr.length := by simp [vcLeaves_length]
  constructor
  · intro h
    have : vcPadded arr.length = 2 ^ 0 := by simp [vcPadded, h]
    exact chain_depth_pow c _ rest 0 hc (by rw [hlen, this])
  · intro h
    have : vcPadded arr.length = 2 ^ vcPath arr.length := by
      have : ¬ arr.length ≤ 1 := by omega
      simp [vcPadded, this]
    exact chain_depth_pow c _ rest _ hc (by rw [hlen, this])

/-- the leaf the verifier opens for position `i` under the honest depth is `arr[i]` (or the bottom leaf) -/
theorem vcLeaves_at (c : Cfg) (arr : List Bytes) (rest : List (List Bytes))
    (hc : Chain c ((vcLeaves arr).map c.H :: rest)) (i : Nat) (hi : i < 2 ^ rest.length) :
    (vcLeaves arr)[bitrev rest.length i]? = some (match arr[i]? with
      | some e => e
      | none => bottomPre) := by
  obtain ⟨h0, h1⟩ := vc_depth c arr rest hc
  by_cases hn : arr.length ≤ 1
  · have hr := h0 hn
    rw [hr] at hi ⊢
    simp at hi
    subst hi
    have := vcLeaves_get arr 0 (by simp [vcPadded, hn])
    simp only [vcPath, hn, if_true] at this
    simpa [bitrev] using this
  · have hr := h1 (by omega)
    rw [hr] at hi ⊢
    have hlt := bitrev_lt (vcPath arr.length) i
    have := vcLeaves_get arr (bitrev (vcPath arr.length) i) (by simp only [vcPadded, hn, if_false]; exact hlt)
    rw [bitrev_bitrev _ _ hi] at this
    exact this

theorem mapElems_some (f : Nat → Option Nat) : ∀ (elems el' : List (Nat × Bytes)),
    mapElems f elems = some el' →
      el'.length = elems.length ∧ ∀ ie ∈ elems, ∃ j, f ie.1 = some j ∧ (j, ie.2) ∈ el'
  | [], el', h => by simp [mapElems] at h; subst h; simp
  | ie :: rest, el', h => by
    simp only [mapElems] at h
    split at h
    · simp at h
    · rename_i j hj
      split at h
      · simp at h
      · rename_i js hjs
        simp only [Option.some.injEq] at h; subst h
        have ih := mapElems_some f rest js hjs
        refine ⟨by simp [ih.1], ?_⟩
        intro x hx
        simp only [List.mem_cons] at hx
        rcases hx with rfl | hx
        · exact ⟨j, hj, by simp⟩
        · obtain ⟨j', h1, h2⟩ := ih.2 x hx
          exact ⟨j', h1, by simp [h2]⟩

theorem mapElems_snd (f : Nat → Option Nat) : ∀ (elems el' : List (Nat × Bytes)),
    mapElems f elems = some el' → ∀ x ∈ el', ∃ ie ∈ elems, x.2 = ie.2
  | [], el', h => by simp [mapElems] at h; subst h; simp
  | ie :: rest, el', h => by
    simp only [mapElems] at h
    split at h
    · simp at h
    · rename_i j hj
      split at h
      · simp at h
      · rename_i js hjs
        simp only [Option.some.injEq] at h; subst h
        intro x hx
        simp only [List.mem_cons] at hx
        rcases hx with rfl | hx
        · exact ⟨ie, by simp, rfl⟩
        · obtain ⟨ie', h1, h2⟩ := mapElems_snd f rest js hjs x hx
          exact ⟨ie', by simp [h1], h2⟩

end Lemmas.MerkleArray
