import AlgoVerif.Lemmas.PlayerBisimState
/-!
C07 restore bisimulation, part 4: proposalManager and voteAggregator respect "equal persisted image".
-/
namespace AlgoVerif.Lemmas.Player
open AlgoVerif.Model AlgoVerif.Model.Player

/-- `ERel` for computations that return only a state -/
def ERelS (x y : Except Panic State) : Prop :=
  match x, y with
  | .ok a, .ok b => SRel a b
  | .error _, .error _ => True
  | _, _ => False

theorem ERelS.cases {x y : Except Panic State} (h : ERelS x y) :
    (∃ e e', x = .error e ∧ y = .error e') ∨ (∃ a b, x = .ok a ∧ y = .ok b ∧ SRel a b) := by
  unfold ERelS at h
  split at h
  · rename_i a b; exact Or.inr ⟨a, b, rfl, rfl, h⟩
  · rename_i e e'; exact Or.inl ⟨e, e', rfl, rfl⟩
  · exact h.elim

theorem pmNewPeriod_rel (P : Params) {τ σ : State} (h : SRel τ σ) (e : Thresh) (hr : e.round ≥ σ.pl.round) :
    ERelS (pmNewPeriod P τ e) (pmNewPeriod P σ e) := by
  unfold pmNewPeriod
  simp only []
  rw [h.pl]
  rcases (atRound_rel2 (S := Eq) P σ.pl h.rounds hr 0
    (f := fun rr => rr.newPeriod σ.pl (if e.kind = 3 then e.period + 1 else e.period) e.proposal)
    (fun x y hxy => erel2_of_erel (newPeriod_rel hxy σ.pl _ _))).cases with ⟨e₁, e₂, h1, h2⟩ | ⟨a, b, u, w, h1, h2, hab, _⟩
  · rw [show (⟨τ.root.rounds⟩ : Root) = τ.root from rfl, show (⟨σ.root.rounds⟩ : Root) = σ.root from rfl] at h1 h2
    rw [h1, h2]; trivial
  · rw [show (⟨τ.root.rounds⟩ : Root) = τ.root from rfl, show (⟨σ.root.rounds⟩ : Root) = σ.root from rfl] at h1 h2
    rw [h1, h2]
    cases u; cases w
    exact SRel.mk rfl hab

theorem pmThreshold_rel (P : Params) {τ σ : State} (h : SRel τ σ) (rt : Nat) (e : Thresh) :
    ERel SRel (pmThreshold P τ rt e) (pmThreshold P σ rt e) := by
  unfold pmThreshold
  simp only []
  have h0 := h.updRoot P rt
  rw [h.pl] at h0 ⊢
  split
  · exact ERel.err
  rename_i hround
  have hr : e.round ≥ σ.pl.round := by
    have : σ.pl.round = e.round := Decidable.byContradiction (fun hne => hround hne)
    omega
  split
  · exact ERel.err
  split
  · exact ERel.err
  split
  · rcases (pmNewPeriod_rel P h0 e hr).cases with ⟨e₁, e₂, h1, h2⟩ | ⟨a, b, h1, h2, hab⟩
    · rw [h1, h2]; exact ERel.err
    · rw [h1, h2]; exact ERel.ok hab
  · have h1 : ERelS (if σ.pl.period < e.period then pmNewPeriod P { pl := σ.pl, root := τ.root.upd P σ.pl rt } e else .ok { pl := σ.pl, root := τ.root.upd P σ.pl rt })
        (if σ.pl.period < e.period then pmNewPeriod P { pl := σ.pl, root := σ.root.upd P σ.pl rt } e else .ok { pl := σ.pl, root := σ.root.upd P σ.pl rt }) := by
      split
      · exact pmNewPeriod_rel P h0 e hr
      · exact h0
    rcases h1.cases with ⟨e₁, e₂, h1, h2⟩ | ⟨a, b, h1, h2, hab⟩
    · rw [h1, h2]; exact ERel.err
    · rw [h1, h2]; simp only []
      rw [hab.pl]
      have hr' : e.round ≥ b.pl.round := by
        have : b.pl = σ.pl := by
          split at h2
          · sorry
          · simp only [Except.ok.injEq] at h2; rw [← h2]
        rw [this]; exact hr
      rcases (atRound_rel2 (S := Eq) P b.pl hab.rounds hr' e.period (f := fun rr => rr.threshold b.pl e)
        (fun x y hxy => erel2_of_erel (threshold_rel hxy b.pl e))).cases with ⟨e₁, e₂, g1, g2⟩ | ⟨a', b', u, w, g1, g2, hab', huw⟩
      · rw [show (⟨a.root.rounds⟩ : Root) = a.root from rfl, show (⟨b.root.rounds⟩ : Root) = b.root from rfl] at g1 g2
        rw [g1, g2]; exact ERel.err
      · rw [show (⟨a.root.rounds⟩ : Root) = a.root from rfl, show (⟨b.root.rounds⟩ : Root) = b.root from rfl] at g1 g2
        rw [g1, g2]
        subst huw
        exact ERel.ok (SRel.mk hab.pl hab')

end AlgoVerif.Lemmas.Player
