import AlgoVerif.Lemmas.PlayerBisimState
/-!
C07 restore bisimulation, part 4: proposalManager and voteAggregator respect "equal persisted image".
-/
namespace AlgoVerif.Lemmas.Player
open AlgoVerif.Model AlgoVerif.Model.Player

/-- `ERel` for computations that return only a state -/
def ERelS (x y : Except Panic State) : Prop :=
  match x, y with
  | .ok a, .ok b => SRel a b
  | .error _, .error _ => True
  | _, _ => False

theorem ERelS.cases {x y : Except Panic State} (h : ERelS x y) :
    (∃ e e', x = .error e ∧ y = .error e') ∨ (∃ a b, x = .ok a ∧ y = .ok b ∧ SRel a b) := by
  unfold ERelS at h
  split at h
  · rename_i a b; exact Or.inr ⟨a, b, rfl, rfl, h⟩
  · rename_i e e'; exact Or.inl ⟨e, e', rfl, rfl⟩
  · exact h.elim

theorem pmNewPeriod_rel (P : Params) {τ σ : State} (h : SRel τ σ) (e : Thresh) (hr : e.round ≥ σ.pl.round) :
    ERelS (pmNewPeriod P τ e) (pmNewPeriod P σ e) := by
  unfold pmNewPeriod
  simp only []
  rw [h.pl]
  rcases (atRound_rel2 (S := Eq) P σ.pl h.rounds hr 0
    (f := fun rr => rr.newPeriod σ.pl (if e.kind = 3 then e.period + 1 else e.period) e.proposal)
    (fun x y hxy => erel2_of_erel (newPeriod_rel hxy σ.pl _ _))).cases with ⟨e₁, e₂, h1, h2⟩ | ⟨a, b, u, w, h1, h2, hab, _⟩
  · rw [h1, h2]; trivial
  · rw [h1, h2]
    cases u; cases w
    exact SRel.mk rfl hab

theorem pmNewPeriod_pl {P : Params} {σ σ' : State} {e : Thresh} (h : pmNewPeriod P σ e = .ok σ') : σ'.pl = σ.pl := by
  unfold pmNewPeriod at h
  simp only [] at h
  split at h
  · cases h
  · simp only [Except.ok.injEq] at h; rw [← h]

theorem pmThreshold_rel (P : Params) {τ σ : State} (h : SRel τ σ) (rt : Nat) (e : Thresh) :
    ERel SRel (pmThreshold P τ rt e) (pmThreshold P σ rt e) := by
  unfold pmThreshold
  simp only []
  have h0 := h.updRoot P rt
  rw [h.pl] at h0 ⊢
  split
  · exact ERel.err
  rename_i hround
  have hr : e.round ≥ σ.pl.round := by
    have : σ.pl.round = e.round := Decidable.byContradiction (fun hne => hround hne)
    omega
  split
  · exact ERel.err
  split
  · exact ERel.err
  split
  · rcases (pmNewPeriod_rel P h0 e hr).cases with ⟨e₁, e₂, h1, h2⟩ | ⟨a, b, h1, h2, hab⟩
    · rw [h1, h2]; exact ERel.err
    · rw [h1, h2]; exact ERel.ok hab
  · have h1 : ERelS (if σ.pl.period < e.period then pmNewPeriod P { pl := σ.pl, root := τ.root.upd P σ.pl rt } e else .ok { pl := σ.pl, root := τ.root.upd P σ.pl rt })
        (if σ.pl.period < e.period then pmNewPeriod P { pl := σ.pl, root := σ.root.upd P σ.pl rt } e else .ok { pl := σ.pl, root := σ.root.upd P σ.pl rt }) := by
      split
      · exact pmNewPeriod_rel P h0 e hr
      · exact h0
    rcases h1.cases with ⟨e₁, e₂, h1, h2⟩ | ⟨a, b, h1, h2, hab⟩
    · rw [h1, h2]; exact ERel.err
    · rw [h1, h2]; simp only []
      rw [hab.pl]
      have hr' : e.round ≥ b.pl.round := by
        have : b.pl = σ.pl := by
          split at h2
          · exact pmNewPeriod_pl (σ := { pl := σ.pl, root := Root.upd P σ.pl σ.root rt }) h2
          · simp only [Except.ok.injEq] at h2; rw [← h2]
        rw [this]; exact hr
      rcases (atRound_rel2 (S := Eq) P b.pl hab.rounds hr' e.period (f := fun rr => rr.threshold b.pl e)
        (fun x y hxy => erel2_of_erel (threshold_rel hxy b.pl e))).cases with ⟨e₁, e₂, g1, g2⟩ | ⟨a', b', u, w, g1, g2, hab', huw⟩
      · rw [g1, g2]; exact ERel.err
      · rw [g1, g2]
        subst huw
        exact ERel.ok (SRel.mk rfl hab')

theorem pmNewRound_rel (P : Params) {τ σ : State} (h : SRel τ σ) {target : Nat} (hr : target ≥ σ.pl.round) :
    ERel SRel (pmNewRound P τ target) (pmNewRound P σ target) := by
  unfold pmNewRound
  simp only []
  have h0 := h.updRoot P target
  rw [h.pl] at h0 ⊢
  rcases (atRound_rel2 (S := Eq) P σ.pl h0.rounds hr 0 (f := fun rr => rr.newRound σ.pl)
    (fun x y hxy => erel2_of_erel (newRound_rel hxy σ.pl))).cases with ⟨e₁, e₂, h1, h2⟩ | ⟨a, b, u, w, h1, h2, hab, huw⟩
  · rw [h1, h2]; exact ERel.err
  · rw [h1, h2]; subst huw; exact ERel.ok (SRel.mk rfl hab)

/-- answers of the proposalManager to a verified proposal-vote agree up to the late-credential note -/
def PMVote.sim : PMVote → PMVote → Prop
  | .filtered n, .filtered m => n = m ∨ ((n = 0 ∨ n = 2) ∧ (m = 0 ∨ m = 2))
  | .accepted p, .accepted q => p = q
  | .empty, .empty => True
  | .malformed, .malformed => True
  | _, _ => False

theorem pmVoteVerified_rel (P : Params) {τ σ : State} (h : SRel τ σ) (bad : Bad) (v : PVote) (hr : v.round ≥ σ.pl.round) :
    ERel2 SRel PMVote.sim (pmVoteVerified P τ bad v) (pmVoteVerified P σ bad v) := by
  unfold pmVoteVerified
  simp only []
  have h0 := h.updRoot P 0
  rw [h.pl] at h0 ⊢
  split
  · exact ⟨h0, Or.inl rfl⟩
  split
  · exact ⟨h0, trivial⟩
  split
  · exact ⟨h0, Or.inl rfl⟩
  rcases (atRound_rel2 P σ.pl h0.rounds hr v.period (f := fun rr => rr.pvoteVerified σ.pl v)
    (fun x y hxy => pvoteVerified_rrel hxy σ.pl v)).cases with ⟨e₁, e₂, h1, h2⟩ | ⟨a, b, u, w, h1, h2, hab, huw⟩
  · rw [h1, h2]; trivial
  · rw [h1, h2]; simp only []
    have hs : SRel { pl := σ.pl, root := a } { pl := σ.pl, root := b } := SRel.mk rfl hab
    cases u <;> cases w <;> simp only [PVRes.sim] at huw
    · split
      · refine ⟨hs, Or.inr ⟨?_, ?_⟩⟩ <;> split <;> simp
      · refine ⟨hs, Or.inr ⟨?_, ?_⟩⟩ <;> split <;> simp
    · obtain ⟨rfl, rfl⟩ := huw
      split
      · exact ⟨hs, Or.inl rfl⟩
      · exact ⟨hs, rfl⟩

theorem pmVotePresent_rel (P : Params) {τ σ : State} (h : SRel τ σ) (v : PVote) (hr : v.round ≥ σ.pl.round) :
    ERel SRel (pmVotePresent P τ v) (pmVotePresent P σ v) := by
  unfold pmVotePresent
  simp only []
  have h0 := h.updRoot P 0
  rw [h.pl] at h0 ⊢
  rcases (atRound_rel2 (S := Eq) P σ.pl h0.rounds hr v.period
      (f := fun rr => rr.atPeriod σ.pl v.period 0 (fun pr => .ok (pr, pr.pvoteDup v.sender)))
      (fun x y hxy => erel2_of_erel (atPeriod_rel hxy σ.pl _ 0 (fun u w huw => by
        unfold PeriodR.pvoteDup; rw [huw.duplicate]; exact ERel.ok huw)))).cases with ⟨e₁, e₂, h1, h2⟩ | ⟨a', b', u, w, h1, h2, hab', huw⟩
  · simp only [h1, h2]
    split
    · split
      · exact ERel.err
      · exact ERel.ok h0
    · exact ERel.err
  · subst huw
    simp only [h1, h2]
    have hs : SRel { pl := σ.pl, root := a' } { pl := σ.pl, root := b' } := SRel.mk rfl hab'
    split
    · split
      · exact ERel.ok hs
      · exact ERel.ok h0
    · split
      · exact ERel.ok hs
      · exact ERel.ok hs

theorem pmPayload_rel (P : Params) {τ σ : State} (h : SRel τ σ) (verified : Bool) (bad : Bad) (p : Payload) :
    ERel SRel (pmPayload P τ verified bad p) (pmPayload P σ verified bad p) := by
  unfold pmPayload
  simp only []
  have h0 := h.updRoot P 0
  rw [h.pl] at h0 ⊢
  have hpres : ∀ (r q : Nat), r ≥ σ.pl.round → ERel2 (fun a b : Root => E σ.pl.round a.rounds = E σ.pl.round b.rounds) Eq
      (Root.atRound P σ.pl (τ.root.upd P σ.pl 0) r q (fun rr => .ok (rr.payloadPresent σ.pl p)))
      (Root.atRound P σ.pl (σ.root.upd P σ.pl 0) r q (fun rr => .ok (rr.payloadPresent σ.pl p))) := by
    intro r q hr
    refine atRound_rel2 P σ.pl h0.rounds hr q (fun x y hxy => ?_)
    obtain ⟨g1, g2⟩ := payloadPresent_rel hxy σ.pl p
    exact ⟨g1, g2⟩
  split
  · split
    · rcases (hpres σ.pl.round σ.pl.period (Nat.le_refl _)).cases with ⟨e₁, e₂, h1, h2⟩ | ⟨a, b, u, w, h1, h2, hab, huw⟩
      · rw [h1, h2]; exact ERel.err
      · rw [h1, h2]; subst huw; simp only []
        split <;> exact ERel.ok (SRel.mk rfl hab)
    · rcases (hpres (σ.pl.round + 1) 0 (by omega)).cases with ⟨e₁, e₂, h1, h2⟩ | ⟨a, b, u, w, h1, h2, hab, huw⟩
      · rw [h1, h2]; exact ERel.err
      · rw [h1, h2]; subst huw; simp only []
        split <;> exact ERel.ok (SRel.mk rfl hab)
  · split
    · exact ERel.ok h0
    split
    · exact ERel.ok h0
    rcases (atRound_rel2 (S := Eq) P σ.pl h0.rounds (Nat.le_refl _) σ.pl.period (f := fun rr => rr.payloadVerified σ.pl p)
      (fun x y hxy => erel2_of_erel (payloadVerified_rel hxy σ.pl p))).cases with ⟨e₁, e₂, h1, h2⟩ | ⟨a, b, u, w, h1, h2, hab, huw⟩
    · rw [h1, h2]; exact ERel.err
    · rw [h1, h2]; subst huw; exact ERel.ok (SRel.mk rfl hab)

/-! ### voteAggregator -/

theorem voteFresh_round {pl : PlayerF} {r p s : Nat} (h : voteFresh pl r p s = true) : r ≥ pl.round := by
  unfold voteFresh at h
  split at h
  · cases h
  · rename_i hne
    omega

theorem vaFilterVote_rel (P : Params) {τ σ : State} (h : SRel τ σ) (r p s : Nat) (x : VoteTracker.Vote) :
    ERel SRel (vaFilterVote P τ r p s x) (vaFilterVote P σ r p s x) := by
  unfold vaFilterVote
  rw [h.pl]
  split
  · exact ERel.ok h
  rename_i hf
  have hr : r ≥ σ.pl.round := voteFresh_round (by simpa using hf)
  rcases (atRound_rel2 (S := Eq) P σ.pl h.rounds hr p
    (f := fun rr => rr.atPeriod σ.pl p s (fun pr => pr.atStep s (fun sr => .ok (sr, sr.filter x.sender x.value))))
    (fun a b hab => erel2_of_erel (atPeriod_rel hab σ.pl p s (fun u w huw => atStep_rel huw s _)))).cases
    with ⟨e₁, e₂, h1, h2⟩ | ⟨a, b, u, w, h1, h2, hab, huw⟩
  · rw [h1, h2]; exact ERel.err
  · rw [h1, h2]; subst huw; exact ERel.ok (SRel.mk rfl hab)

theorem deliverVote_rel (P : Params) {τ σ : State} (h : SRel τ σ) {r : Nat} (hr : r ≥ σ.pl.round) (p s : Nat) (x : VoteTracker.Vote) :
    ERel SRel (deliverVote P τ r p s x) (deliverVote P σ r p s x) := by
  unfold deliverVote
  rw [h.pl]
  rcases (atRound_rel2 (S := Eq) P σ.pl h.rounds hr p (f := fun rr => rr.voteAccepted P σ.pl r p s x)
    (fun a b hab => erel2_of_erel (voteAccepted_rel hab P σ.pl r p s x))).cases with ⟨e₁, e₂, h1, h2⟩ | ⟨a, b, u, w, h1, h2, hab, huw⟩
  · rw [h1, h2]; exact ERel.err
  · rw [h1, h2]; subst huw; exact ERel.ok (SRel.mk rfl hab)

theorem vaFilterVote_true {P : Params} {σ σ' : State} {r p s : Nat} {x : VoteTracker.Vote}
    (h : vaFilterVote P σ r p s x = .ok (σ', true)) : voteFresh σ.pl r p s = true ∧ σ'.pl = σ.pl := by
  unfold vaFilterVote at h
  split at h
  · simp at h
  rename_i hf
  split at h
  · cases h
  simp only [Except.ok.injEq, Prod.mk.injEq] at h
  exact ⟨by simpa using hf, by rw [← h.1]⟩

theorem vaVote_rel (P : Params) {τ σ : State} (h : SRel τ σ) (verified : Bool) (bad : Bad) (r p s : Nat) (x : VoteTracker.Vote) :
    ERel SRel (vaVote P τ verified bad r p s x) (vaVote P σ verified bad r p s x) := by
  unfold vaVote
  simp only []
  have h0 := h.updRoot P 0
  rw [h.pl] at h0 ⊢
  split
  · split
    · exact ERel.ok h0
    rcases (vaFilterVote_rel P h0 r p s x).cases with ⟨e₁, e₂, h1, h2⟩ | ⟨a, b, u, h1, h2, hab⟩
    · rw [h1, h2]; exact ERel.err
    · rw [h1, h2]; exact ERel.ok hab
  split
  · exact ERel.ok h0
  split
  · exact ERel.ok h0
  split
  · exact ERel.ok h0
  rcases (vaFilterVote_rel P h0 r p s x).cases with ⟨e₁, e₂, h1, h2⟩ | ⟨a, b, u, h1, h2, hab⟩
  · rw [h1, h2]; exact ERel.err
  · rw [h1, h2]
    cases u with
    | false => exact ERel.ok hab
    | true =>
      simp only []
      obtain ⟨hfresh, hbpl⟩ := vaFilterVote_true h2
      have hr : r ≥ b.pl.round := by rw [hbpl]; exact voteFresh_round hfresh
      rcases (deliverVote_rel P hab hr p s x).cases with ⟨e₁, e₂, g1, g2⟩ | ⟨a', b', ev, g1, g2, hab'⟩
      · rw [g1, g2]; exact ERel.err
      · rw [g1, g2]; simp only []
        rw [hab'.pl]
        split
        · exact ERel.ok hab'
        split
        · exact ERel.ok hab'
        split
        · exact ERel.ok hab'
        · exact ERel.err

theorem deliverVote_pl {P : Params} {σ σ' : State} {r p s : Nat} {x : VoteTracker.Vote} {ev : Thresh}
    (h : deliverVote P σ r p s x = .ok (σ', ev)) : σ'.pl = σ.pl := by
  unfold deliverVote at h
  split at h
  · cases h
  simp only [Except.ok.injEq, Prod.mk.injEq] at h
  rw [← h.1]

theorem deliverAll_rel (P : Params) (r p s : Nat) : ∀ (vs : List VoteTracker.Vote) {τ σ : State} (acc : Thresh),
    SRel τ σ → r ≥ σ.pl.round → ERel SRel (deliverAll P r p s τ vs acc) (deliverAll P r p s σ vs acc) := by
  intro vs
  induction vs with
  | nil => intro τ σ acc h _; simp only [deliverAll]; exact ERel.ok h
  | cons x rest ih =>
    intro τ σ acc h hr
    simp only [deliverAll]
    rcases (deliverVote_rel P h hr p s x).cases with ⟨e₁, e₂, g1, g2⟩ | ⟨a, b, ev, g1, g2, hab⟩
    · rw [g1, g2]; exact ERel.err
    · rw [g1, g2]; simp only []
      exact ih _ hab (by rw [deliverVote_pl g2]; exact hr)

theorem bundleFresh_round {pl : PlayerF} {r p s : Nat} (h : bundleFresh pl r p s = true) : r = pl.round := by
  unfold bundleFresh at h
  split at h
  · cases h
  · rename_i hne; exact (Decidable.byContradiction (fun hc => hne (fun heq => hc heq.symm)))

theorem vaBundle_rel (P : Params) {τ σ : State} (h : SRel τ σ) (verified : Bool) (bad : Bad) (r p s value : Nat)
    (votes : List (Nat × Nat)) (eqs : List VoteTracker.EqVote) :
    ERel SRel (vaBundle P τ verified bad r p s value votes eqs) (vaBundle P σ verified bad r p s value votes eqs) := by
  unfold vaBundle
  simp only []
  have h0 := h.updRoot P 0
  rw [h.pl] at h0 ⊢
  split
  · exact ERel.ok h0
  split
  · exact ERel.ok h0
  split
  · exact ERel.ok h0
  split
  · exact ERel.ok h0
  split
  · exact ERel.ok h0
  rename_i hf
  have hr : r ≥ σ.pl.round := by
    have := bundleFresh_round (pl := σ.pl) (r := r) (p := p) (s := s) (by simpa using hf)
    omega
  rcases (deliverAll_rel P r p s _ {} h0 hr).cases with ⟨e₁, e₂, g1, g2⟩ | ⟨a, b, ev, g1, g2, hab⟩
  · rw [g1, g2]; exact ERel.err
  · rw [g1, g2]; simp only []
    split
    · exact ERel.ok hab
    · exact ERel.ok hab

end AlgoVerif.Lemmas.Player
