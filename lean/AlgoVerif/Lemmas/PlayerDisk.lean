import AlgoVerif.Model.PlayerDisk
import AlgoVerif.Lemmas.Msgpack
/-! Round trip of the PlayerM disk schema: `ofV (toV d) = some d` for every disk state that `encode` can write
(`Seeker.lowestLate = none`: the unexported field has no slot), then `decode (encode d) = some d` by `Msgpack.decF_enc`. -/
namespace AlgoVerif.Lemmas.PlayerDisk
open AlgoVerif.Msgpack AlgoVerif.Model AlgoVerif.Model.Player AlgoVerif.Model.PlayerDisk

theorem gl_vl {α : Type} {f : α → V} {g : V → Option α} (h : ∀ x, g (f x) = some x) (l : List α) : gl g (vl f l) = some l := by
  unfold gl vl
  simp only []
  induction l with
  | nil => rfl
  | cons a rest ih => simp [List.mapM_cons, h a, ih]

/-- the same for lists whose elements satisfy a side condition -/
theorem gl_vl_of {α : Type} {f : α → V} {g : V → Option α} {C : α → Prop} (h : ∀ x, C x → g (f x) = some x) (l : List α)
    (hl : ∀ x ∈ l, C x) : gl g (vl f l) = some l := by
  unfold gl vl
  simp only []
  induction l with
  | nil => rfl
  | cons a rest ih =>
    simp [List.mapM_cons, h a (hl a List.mem_cons_self), ih (fun x hx => hl x (List.mem_cons_of_mem _ hx))]

theorem go_vo {α : Type} {f : α → V} {g : V → Option α} (h : ∀ x, g (f x) = some x) (o : Option α) : go g (vo f o) = some o := by
  cases o with
  | none => rfl
  | some x => simp [vo, go, h x]

theorem gkv_vkv {α : Type} {f : α → V} {g : V → Option α} (h : ∀ x, g (f x) = some x) (kv : Nat × α) :
    gkv g (vkv f kv) = some kv := by
  obtain ⟨k, x⟩ := kv
  simp [vkv, gkv, vn, gn, h x]

theorem gm_vm {α : Type} {f : α → V} {g : V → Option α} (h : ∀ x, g (f x) = some x) (l : List (Nat × α)) :
    gm g (vm f l) = some l := gl_vl (gkv_vkv h) l

theorem gm_vm_of {α : Type} {f : α → V} {g : V → Option α} {C : α → Prop} (h : ∀ x, C x → g (f x) = some x)
    (l : List (Nat × α)) (hl : ∀ kv ∈ l, C kv.2) : gm g (vm f l) = some l := by
  refine gl_vl_of (C := fun kv => C kv.2) ?_ l hl
  intro kv hc
  obtain ⟨k, x⟩ := kv
  simp [vkv, gkv, vn, gn, h x hc]

theorem gn_vn (n : Nat) : gn (vn n) = some n := rfl
theorem gb_vb (b : Bool) : gb (vb b) = some b := rfl

theorem payload_rt (x : Payload) : payloadG (payloadV x) = some x := by cases x; rfl
theorem pvote_rt (x : PVote) : pvoteG (pvoteV x) = some x := by cases x; rfl
theorem vote_rt (x : VoteTracker.Vote) : voteG (voteV x) = some x := by cases x; rfl
theorem eqVote_rt (x : VoteTracker.EqVote) : eqVoteG (eqVoteV x) = some x := by cases x; rfl
theorem uvote_rt (x : UVote) : uvoteG (uvoteV x) = some x := by cases x; rfl
theorem vtContract_rt (x : VTContract) : vtContractG (vtContractV x) = some x := by cases x; rfl
theorem ptContract_rt (x : PTContract) : ptContractG (ptContractV x) = some x := by cases x; rfl
theorem nextStatus_rt (x : NextStatus) : nextStatusG (nextStatusV x) = some x := by cases x; rfl

theorem counter_rt (x : VoteTracker.Counter) : counterG (counterV x) = some x := by
  cases x; simp [counterV, counterG, gn_vn, gl_vl vote_rt]

theorem tracker_rt (x : VoteTracker.Tracker) : trackerG (trackerV x) = some x := by
  cases x; simp [trackerV, trackerG, gn_vn, gl_vl vote_rt, gl_vl eqVote_rt, gm_vm counter_rt]

theorem stepR_rt (x : StepR) : stepRG (stepRV x) = some x := by
  cases x; simp [stepRV, stepRG, tracker_rt, vtContract_rt]

theorem bundle_rt (x : VoteTracker.Bundle) : bundleG (bundleV x) = some x := by
  cases x; simp [bundleV, bundleG, gn_vn, gl_vl vote_rt, gl_vl eqVote_rt]

theorem thresh_rt (x : Thresh) : threshG (threshV x) = some x := by
  cases x; simp [threshV, threshG, gn_vn, bundle_rt]

theorem cert_rt (x : Cert) : certG (certV x) = some x := by
  cases x; simp [certV, certG, gn_vn, gl_vl vote_rt, gl_vl eqVote_rt]

theorem assembler_rt (x : Assembler) : assemblerG (assemblerV x) = some x := by
  cases x; simp [assemblerV, assemblerG, go_vo payload_rt, gl_vl pvote_rt]

theorem store_rt (x : Store) : storeG (storeV x) = some x := by
  cases x; simp [storeV, storeG, gn_vn, gm_vm gn_vn, gm_vm assembler_rt]

/-- a seeker as `encode` sees it -/
theorem seeker_rt (x : Seeker) (h : x.lowestLate = none) : seekerG (seekerV x) = some x := by
  cases x; simp only [] at h; subst h; simp [seekerV, seekerG, go_vo pvote_rt, gb_vb]

def PeriodClean (p : PeriodR) : Prop := p.ptracker.freezer.lowestLate = none
def RoundClean (r : RoundR) : Prop := ∀ kv ∈ r.periods, PeriodClean kv.2
def RootClean (r : Root) : Prop := ∀ kv ∈ r.rounds, RoundClean kv.2

theorem ptracker_rt (x : PTracker) (h : x.freezer.lowestLate = none) : ptrackerG (ptrackerV x) = some x := by
  cases x; simp only [] at h; simp [ptrackerV, ptrackerG, gn_vn, gl_vl gn_vn, seeker_rt _ h]

theorem periodR_rt (x : PeriodR) (h : PeriodClean x) : periodRG (periodRV x) = some x := by
  cases x; simp only [PeriodClean] at h
  simp [periodRV, periodRG, ptracker_rt _ h, ptContract_rt, nextStatus_rt, gm_vm stepR_rt]

theorem roundR_rt (x : RoundR) (h : RoundClean x) : roundRG (roundRV x) = some x := by
  cases x; simp only [RoundClean] at h
  simp [roundRV, roundRG, store_rt, thresh_rt, gb_vb, gm_vm_of periodR_rt _ h]

theorem root_rt (x : Root) (h : RootClean x) : rootG (rootV x) = some x := by
  cases x; simp only [RootClean] at h
  simp [rootV, rootG, gm_vm_of roundR_rt _ h]

theorem player_rt (x : PlayerF) : playerG (playerV x) = some x := by
  cases x; simp [playerV, playerG, gn_vn, gb_vb, gm_vm (go_vo payload_rt)]

theorem action_rt (x : Action) : actionG (actionV x) = some x := by
  cases x <;> simp [actionV, actionG, vn, gn, gb_vb, uvote_rt, cert_rt, payload_rt, go_vo pvote_rt, gl_vl uvote_rt]

theorem ofV_toV (d : DiskState) (h : RootClean d.root) : ofV (toV d) = some d := by
  cases d; simp only [] at h
  simp [toV, ofV, root_rt _ h, player_rt, gl_vl action_rt]

theorem persistView_clean (σ : State) : RootClean (persistView σ).root := by
  intro kv hkv pkv hp
  simp only [persistView, List.mem_map, List.mem_filter] at hkv
  obtain ⟨kv₀, _, rfl⟩ := hkv
  simp only [RoundR.persist, List.mem_map] at hp
  obtain ⟨pkv₀, _, rfl⟩ := hp
  rfl

theorem decode_encode (d : DiskState) (hc : RootClean d.root) (hw : WF (toV d)) : decode (encode d) = some d := by
  unfold decode encode
  have := decF_enc (toV d) (2 * (enc (toV d) ++ []).length + 1) [] hw (by simp)
  simp only [List.append_nil] at this
  unfold dec
  rw [this]
  exact ofV_toV d hc

end AlgoVerif.Lemmas.PlayerDisk
