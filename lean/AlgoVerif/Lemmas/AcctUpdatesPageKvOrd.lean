import AlgoVerif.Lemmas.AcctUpdatesPagesRes
/-! C10 (model pages): the key interval of the DB prefix scan (`prefixIncr`) is exactly the set of byte strings with the
prefix; generic facts on strictly sorted lists (take = "not greater than the last taken", filter by an upper bound is a
prefix, a sorted sub-collection with enough small elements has the same first `limit` elements). Core Lean only. -/
namespace AlgoVerif.Lemmas.PageKv
open AlgoVerif.Spec.LedgerHistory AlgoVerif.Model.AcctUpdates AlgoVerif.Lemmas.Pages

/-! ### `prefixIncr` by recursion on the prefix itself -/

/-- the successor of a prefix, by recursion from the front: increment the last byte that is not 0xff and cut there -/
def incr : Key → Option Key
  | [] => none
  | b :: rest =>
    match incr rest with
    | some r => some (b :: r)
    | none => if b + 1 > 255 then none else some [b + 1]

theorem prefixIncr'_snoc (xs : List Nat) (b : Nat) :
    prefixIncr.prefixIncr' (xs ++ [b]) =
      match prefixIncr.prefixIncr' xs with
      | some r => some (r ++ [b])
      | none => if b + 1 > 255 then none else some [b + 1] := by
  induction xs with
  | nil => simp [prefixIncr.prefixIncr']
  | cons x xs ih =>
    simp only [List.cons_append, prefixIncr.prefixIncr']
    by_cases hx : x + 1 > 255
    · simp only [hx, if_true]; exact ih
    · simp only [hx, if_false, List.cons_append]

theorem prefixIncr'_reverse (l : Key) : (prefixIncr.prefixIncr' l.reverse).map List.reverse = incr l := by
  induction l with
  | nil => rfl
  | cons b rest ih =>
    rw [List.reverse_cons, prefixIncr'_snoc]
    simp only [incr]
    cases h : prefixIncr.prefixIncr' rest.reverse with
    | none =>
      rw [h] at ih; simp only [Option.map_none] at ih
      rw [← ih]
      by_cases hb : b + 1 > 255 <;> simp [hb]
    | some r =>
      rw [h] at ih; simp only [Option.map_some] at ih
      rw [← ih]
      simp

theorem prefixIncr_eq_incr (p : Key) : prefixIncr p = incr p := by
  cases p with
  | nil => rfl
  | cons b rest =>
    rw [← prefixIncr'_reverse]
    simp only [prefixIncr]
    cases prefixIncr.prefixIncr' (b :: rest).reverse <;> rfl

theorem keyLt_nil_right (k : Key) : keyLt k [] = false := by cases k <;> rfl

theorem ne_nil_of_keyLt {a b : Key} (h : keyLt a b = true) : b ≠ [] := by
  intro e; subst e; rw [keyLt_nil_right] at h; exact absurd h (by simp)

/-- a prefix with no successor (all bytes 0xff): the byte strings not below it are those that carry it as a prefix -/
theorem keyLe_iff_prefix_of_incr_none (p k : Key) (hk : ∀ b ∈ k, b ≤ 255) (h : incr p = none) : keyLe p k = hasPrefix p k := by
  induction p generalizing k with
  | nil => simp [keyLe, hasPrefix, keyLt_nil_right]
  | cons t ts ih =>
    simp only [incr] at h
    cases hi : incr ts with
    | some r => rw [hi] at h; simp at h
    | none =>
      rw [hi] at h
      have ht : t + 1 > 255 := by
        by_cases ht : t + 1 > 255
        · exact ht
        · simp [ht] at h
      cases k with
      | nil => simp [keyLe, keyLt, hasPrefix]
      | cons s ss =>
        have hs : s ≤ 255 := hk s (by simp)
        have ih' := ih ss (fun b hb => hk b (by simp [hb])) hi
        simp only [keyLe] at ih' ⊢
        simp only [keyLt, hasPrefix]
        by_cases hst : s = t
        · subst hst
          simp only [Nat.lt_irrefl, decide_false, beq_self_eq_true, Bool.true_and, Bool.false_or]
          exact ih'
        · have hlt : s < t := by omega
          have hne : (t == s) = false := by simp; omega
          simp [hlt, hne]

/-- the rows of the range query `start ≤ key < prefixIncr pfx`, for byte strings, are those with the prefix -/
theorem range_iff_prefix (pfx hi k : Key) (hk : ∀ b ∈ k, b ≤ 255) (h : incr pfx = some hi) :
    (keyLe pfx k && keyLt k hi) = hasPrefix pfx k := by
  induction pfx generalizing hi k with
  | nil => simp [incr] at h
  | cons b rest ih =>
    cases k with
    | nil => simp [keyLe, keyLt, hasPrefix]
    | cons c ks =>
      have hc : c ≤ 255 := hk c (by simp)
      have hks : ∀ x ∈ ks, x ≤ 255 := fun x hx => hk x (by simp [hx])
      simp only [incr] at h
      cases hi' : incr rest with
      | some r =>
        rw [hi'] at h; simp only [Option.some.injEq] at h; subst h
        have ih' := ih r ks hks hi'
        simp only [keyLe] at ih' ⊢
        simp only [keyLt, hasPrefix]
        by_cases hcb : c = b
        · subst hcb
          simp only [Nat.lt_irrefl, decide_false, beq_self_eq_true, Bool.true_and, Bool.false_or]
          exact ih'
        · have hne : (b == c) = false := by simp; omega
          have hne' : (c == b) = false := by simp; omega
          by_cases hlt : c < b
          · simp [hlt, hne]
          · have : ¬ c < b := hlt
            simp [this, hne, hne']
      | none =>
        rw [hi'] at h
        by_cases hb : b + 1 > 255
        · simp [hb] at h
        · simp only [hb, if_false, Option.some.injEq] at h; subst h
          have hle := keyLe_iff_prefix_of_incr_none rest ks hks hi'
          simp only [keyLe] at hle ⊢
          simp only [keyLt, hasPrefix, keyLt_nil_right, Bool.and_false, Bool.or_false]
          by_cases hcb : c = b
          · subst hcb
            simp only [Nat.lt_irrefl, decide_false, beq_self_eq_true, Bool.true_and, Bool.false_or]
            rw [hle]; simp
          · have hne : (b == c) = false := by simp; omega
            by_cases hlt : c < b
            · simp [hlt, hne]
            · have h1 : ¬ c < b + 1 := by omega
              simp [hne, h1]

theorem hasPrefix_keyLe (p k : Key) (h : hasPrefix p k = true) : keyLe p k = true := by
  induction p generalizing k with
  | nil => simp [keyLe, keyLt_nil_right]
  | cons b rest ih =>
    cases k with
    | nil => simp [hasPrefix] at h
    | cons c ks =>
      simp only [hasPrefix, Bool.and_eq_true, beq_iff_eq] at h
      obtain ⟨rfl, h2⟩ := h
      have := ih ks h2
      simp only [keyLe, keyLt] at this ⊢
      simp [this]

theorem keyLt_of_le_of_lt {a b c : Key} (h1 : keyLe a b = true) (h2 : keyLt b c = true) : keyLt a c = true := by
  rcases keyLt_total a b with h | h | h
  · exact keyLt_trans h h2
  · subst h; exact h2
  · unfold keyLe at h1; rw [h] at h1; simp at h1

theorem keyLe_of_keyLt {a b : Key} (h : keyLt a b = true) : keyLe a b = true := by
  unfold keyLe; rw [keyLt_asymm h]; rfl

/-- what the DB range scan followed by the cursor test selects = prefix and strictly after the cursor -/
theorem scan_range_iff (pfx cursor hi k : Key) (hk : ∀ b ∈ k, b ≤ 255) (h : incr pfx = some hi) :
    ((keyLe (if cursor ≠ [] && keyLe pfx cursor then cursor else pfx) k && keyLt k hi) && keyLt cursor k) =
      (hasPrefix pfx k && keyLt cursor k) := by
  by_cases hc : keyLt cursor k = true
  · simp only [hc, Bool.and_true]
    by_cases hs : (cursor ≠ [] && keyLe pfx cursor) = true
    · rw [if_pos hs]
      simp only [Bool.and_eq_true, decide_eq_true_eq] at hs
      rw [← range_iff_prefix pfx hi k hk h]
      have h1 : keyLe cursor k = true := keyLe_of_keyLt hc
      have h2 : keyLe pfx k = true := keyLe_trans _ _ _ hs.2 h1
      rw [h1, h2]
    · rw [if_neg hs]; exact range_iff_prefix pfx hi k hk h
  · have : keyLt cursor k = false := by simpa using hc
    simp [this]

/-! ### strictly sorted lists -/

/-- sorted for a total preorder and without repeated keys = strictly sorted -/
theorem strict_of_sorted_nodup {α : Type} (key : α → Key) (l : List α)
    (hs : l.Pairwise (fun x y => keyLe (key x) (key y) = true)) (hn : (l.map key).Nodup) :
    l.Pairwise (fun x y => keyLt (key x) (key y) = true) := by
  induction l with
  | nil => simp
  | cons a t ih =>
    rw [List.pairwise_cons] at hs ⊢
    simp only [List.map_cons, List.nodup_cons] at hn
    refine ⟨fun b hb => ?_, ih hs.2 hn.2⟩
    have hle := hs.1 b hb
    rcases keyLt_total (key a) (key b) with h | h | h
    · exact h
    · exact absurd (by rw [h]; exact List.mem_map_of_mem hb) hn.1
    · unfold keyLe at hle; rw [h] at hle; simp at hle

theorem strict_nat_of_sorted_nodup {α : Type} (key : α → Nat) (l : List α)
    (hs : l.Pairwise (fun x y => key x ≤ key y)) (hn : (l.map key).Nodup) :
    l.Pairwise (fun x y => key x < key y) := by
  induction l with
  | nil => simp
  | cons a t ih =>
    rw [List.pairwise_cons] at hs ⊢
    simp only [List.map_cons, List.nodup_cons] at hn
    refine ⟨fun b hb => ?_, ih hs.2 hn.2⟩
    have hle := hs.1 b hb
    have hne : key a ≠ key b := fun e => hn.1 (by rw [e]; exact List.mem_map_of_mem hb)
    omega

/-- in a strictly increasing list, the first `n+1` elements are exactly those not greater than the n-th -/
theorem mem_take_sorted {α K : Type} (key : α → K) (lt : K → K → Prop) (hirr : ∀ a, ¬ lt a a) (htr : ∀ a b c, lt a b → lt b c → lt a c)
    (l : List α) (h : l.Pairwise (fun x y => lt (key x) (key y))) (n : Nat) (x : α) (hx : l[n]? = some x) (z : α) :
    z ∈ l.take (n + 1) ↔ z ∈ l ∧ ¬ lt (key x) (key z) := by
  have hsplit : l = l.take (n + 1) ++ l.drop (n + 1) := (List.take_append_drop _ _).symm
  have hd := mem_drop_sorted key lt hirr htr l h n x hx z
  constructor
  · intro hz
    refine ⟨List.mem_of_mem_take hz, fun hlt => ?_⟩
    have hz' : z ∈ l.drop (n + 1) := hd.mpr ⟨List.mem_of_mem_take hz, hlt⟩
    rw [hsplit, List.pairwise_append] at h
    exact hirr _ (h.2.2 z hz z hz')
  · rintro ⟨hz, hnlt⟩
    rw [hsplit, List.mem_append] at hz
    rcases hz with hz | hz
    · exact hz
    · exact absurd (hd.mp hz).2 hnlt

/-- filtering a strictly increasing list by an upper bound on the key keeps a prefix -/
theorem filter_le_is_take {α K : Type} (key : α → K) (lt : K → K → Prop)
    (p : K → Bool) (hp : ∀ a b, lt a b → p b = true → p a = true)
    (l : List α) (h : l.Pairwise (fun x y => lt (key x) (key y))) :
    l.filter (fun x => p (key x)) = l.take (l.filter (fun x => p (key x))).length := by
  induction l with
  | nil => rfl
  | cons a t ih =>
    rw [List.pairwise_cons] at h
    by_cases ha : p (key a) = true
    · simp only [List.filter_cons, ha, if_true, List.length_cons, List.take_succ_cons]
      congr 1
      exact ih h.2
    · have hnil : t.filter (fun x => p (key x)) = [] := by
        rw [List.filter_eq_nil_iff]
        intro b hb hpb
        exact ha (hp _ _ (h.1 b hb) hpb)
      simp [ha, hnil]

/-- a strictly increasing list `s` whose elements all occur in the strictly increasing `l`, and such that every element of `l`
    missing from `s` has at least `limit` elements of `s` below it, starts with the same `limit` elements as `l` -/
theorem take_eq_of_sub_sorted {α : Type} (key : α → Nat) (l : List α) (hl : l.Pairwise (fun x y => key x < key y)) :
    ∀ (s : List α) (limit : Nat), s.Pairwise (fun x y => key x < key y) → (∀ x ∈ s, x ∈ l) →
      (∀ y ∈ l, y ∉ s → limit ≤ (s.filter (fun x => key x < key y)).length) → s.take limit = l.take limit := by
  induction l with
  | nil =>
    intro s limit _ hsub _
    cases s with
    | nil => rfl
    | cons a t => exact absurd (hsub a (by simp)) (by simp)
  | cons y l' ih =>
    intro s limit hs hsub hmiss
    rw [List.pairwise_cons] at hl
    cases limit with
    | zero => simp
    | succ lim =>
      by_cases hy : y ∈ s
      · -- y is the least element of l, hence the head of s
        cases s with
        | nil => simp at hy
        | cons a t =>
          rw [List.pairwise_cons] at hs
          have hay : a = y := by
            rcases List.mem_cons.mp hy with e | hyt
            · exact e.symm
            · have h1 := hs.1 y hyt
              rcases List.mem_cons.mp (hsub a (by simp)) with e | hal
              · exact e
              · have := hl.1 a hal; omega
          subst hay
          simp only [List.take_succ_cons]
          congr 1
          apply ih hl.2 t lim hs.2
          · intro x hx
            rcases List.mem_cons.mp (hsub x (by simp [hx])) with e | h'
            · subst e; exact absurd (hs.1 x hx) (Nat.lt_irrefl _)
            · exact h'
          · intro z hz hzt
            have hza : key a < key z := hl.1 z hz
            have hzs : z ∉ a :: t := by
              intro hm
              rcases List.mem_cons.mp hm with e | hm
              · subst e; exact absurd hza (Nat.lt_irrefl _)
              · exact hzt hm
            have := hmiss z (by simp [hz]) hzs
            simp only [List.filter_cons, hza, decide_true, if_true, List.length_cons] at this
            omega
      · have := hmiss y (by simp) hy
        have hnil : s.filter (fun x => key x < key y) = [] := by
          rw [List.filter_eq_nil_iff]
          intro x hx
          rcases List.mem_cons.mp (hsub x hx) with e | h'
          · subst e; simp
          · have := hl.1 x h'; simp; omega
        rw [hnil] at this
        simp at this

end AlgoVerif.Lemmas.PageKv
