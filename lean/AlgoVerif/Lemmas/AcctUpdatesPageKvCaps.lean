import AlgoVerif.Lemmas.AcctUpdatesPageKv
/-! C10 (model pages): every box page the model returns respects the caps — at most `limit` items (when a limit is given) and at
most `maxBytes` bytes unless it is a single item (the "at least one" rule). Holds for every `.ok` result, on any state. -/
namespace AlgoVerif.Lemmas.PageKv
open AlgoVerif.Spec.LedgerHistory AlgoVerif.Model.AcctUpdates AlgoVerif.Lemmas.Pages AlgoVerif.Lemmas.AcctUpdates

/-- the page rule never exceeds the byte budget, except by the single item it always allows -/
theorem kvTrim_cap {α : Type} (sz : α → Nat) (maxb limit : Nat) (l : List α) (i acc : Nat) (hpre : i = 0 ∨ acc ≤ maxb ∨ i = 1) :
    acc + ((l.take (kvTrim sz maxb limit l i acc - i)).map sz).sum ≤ maxb ∨ kvTrim sz maxb limit l i acc ≤ 1 := by
  induction l generalizing i acc with
  | nil =>
    simp only [kvTrim, Nat.sub_self, List.take_nil, List.map_nil, List.sum_nil, Nat.add_zero]
    omega
  | cons x xs ih =>
    unfold kvTrim
    by_cases h1 : (decide (acc + sz x > maxb) && decide (i > 0)) = true
    · rw [if_pos h1]
      simp only [Bool.and_eq_true, decide_eq_true_eq] at h1
      simp only [Nat.sub_self, List.take_zero, List.map_nil, List.sum_nil, Nat.add_zero]
      omega
    · rw [if_neg h1]
      simp only [Bool.and_eq_true, decide_eq_true_eq, not_and, Nat.not_lt] at h1
      by_cases h2 : (decide (limit > 0) && decide (i + 1 ≥ limit)) = true
      · rw [if_pos h2]
        simp only [Nat.add_sub_cancel_left, List.take_succ_cons, List.take_zero, List.map_cons, List.map_nil, List.sum_cons,
          List.sum_nil, Nat.add_zero]
        by_cases hx : acc + sz x > maxb
        · have := h1 hx; omega
        · omega
      · rw [if_neg h2]
        have hpre' : i + 1 = 0 ∨ acc + sz x ≤ maxb ∨ i + 1 = 1 := by
          by_cases hx : acc + sz x > maxb
          · have := h1 hx; omega
          · omega
        have hb := (kvTrim_bounds sz maxb limit xs (i + 1) (acc + sz x)).1
        rcases ih (i + 1) (acc + sz x) hpre' with hsum | hone
        · left
          have : kvTrim sz maxb limit xs (i + 1) (acc + sz x) - i = (kvTrim sz maxb limit xs (i + 1) (acc + sz x) - (i + 1)) + 1 := by omega
          rw [this, List.take_succ_cons, List.map_cons, List.sum_cons]
          omega
        · right; exact hone

/-- every page the model returns is within its caps -/
theorem pageKv_caps (σ : State) (rnd : Nat) (pfx cursor : Key) (limit maxb : Nat) (vals : Bool) (out : KvPageOut)
    (h : Model.AcctUpdates.pageKv σ rnd pfx cursor limit maxb vals = .ok out) :
    (0 < limit → out.items.length ≤ limit) ∧ ((out.items.map kvSz).sum ≤ maxb ∨ out.items.length ≤ 1) := by
  cases ho : roundOffset σ rnd with
  | error e => unfold Model.AcctUpdates.pageKv at h; rw [ho] at h; simp at h
  | ok off =>
    cases hp : prefixIncr pfx with
    | none => unfold Model.AcctUpdates.pageKv dbKvScan at h; rw [ho] at h; simp only [hp] at h; simp at h
    | some hi =>
      by_cases hr : σ.db.round = σ.dbRound
      · rw [pageKv_eq σ rnd pfx cursor limit maxb vals off hi ho hp hr] at h
        simp only [Except.ok.injEq] at h
        subst h
        simp only []
        generalize ((processKvRows (kvRows σ.db pfx cursor hi) cursor limit maxb vals (AMap.keys (kvWalk pfx cursor (σ.deltas.take off)))).items ++
          kvFromDelta (kvWalk pfx cursor (σ.deltas.take off))
            (kvCutoff (processKvRows (kvRows σ.db pfx cursor hi) cursor limit maxb vals (AMap.keys (kvWalk pfx cursor (σ.deltas.take off))))) vals).mergeSort
          (fun x y => keyLe x.1 y.1) = all
        have hb := kvTrim_bounds kvSz maxb limit all 0 0
        refine ⟨fun hl => ?_, ?_⟩
        · rw [List.length_take]
          have := kvTrim_le_limit kvSz maxb limit hl all 0 0 hl
          omega
        · have := kvTrim_cap kvSz maxb limit all 0 0 (Or.inl rfl)
          simp only [Nat.sub_zero, Nat.zero_add] at this
          rcases this with h1 | h1
          · left; exact h1
          · right; rw [List.length_take]; omega
      · unfold Model.AcctUpdates.pageKv dbKvScan at h
        rw [ho] at h
        simp only [hp, hr, if_false] at h
        split at h <;> simp at h

end AlgoVerif.Lemmas.PageKv
