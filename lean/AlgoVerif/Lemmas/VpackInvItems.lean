import AlgoVerif.Lemmas.VpackInvUint
/-! Inversion of the parser steps and of one iteration of each key loop. -/
set_option linter.unusedSimpArgs false
namespace AlgoVerif.Lemmas.Vpack
open AlgoVerif.Model.Vpack AlgoVerif.Spec.Vpack

theorem uintOpt_inv {bit : UInt8} {p p' : PS} (h : uintOpt bit p = .ok p') :
    ∃ x r, x < M64 ∧ p.rem = appendUint64 x ++ r ∧
      p' = { rem := r, out := p.out ++ appendUint64 x, mask := p.mask ||| bit, req := p.req } := by
  unfold uintOpt at h
  split at h
  · cases h
  · rename_i v q hq
    obtain ⟨x, r, hx, hd, hrem, hp⟩ := readUintBytes_inv hq
    cases h
    subst hd hp
    exact ⟨x, r, hx, hrem, rfl⟩

theorem uintReq_inv {p p' : PS} (h : uintReq p = .ok p') :
    ∃ x r, x < M64 ∧ p.rem = appendUint64 x ++ r ∧
      p' = { rem := r, out := p.out ++ appendUint64 x, mask := p.mask, req := p.req + 1 } := by
  unfold uintReq at h
  split at h
  · cases h
  · rename_i v q hq
    obtain ⟨x, r, hx, hd, hrem, hp⟩ := readUintBytes_inv hq
    cases h
    subst hd hp
    exact ⟨x, r, hx, hrem, rfl⟩

theorem binOpt_inv {bit : UInt8} {p p' : PS} (h : binOpt bit p = .ok p') :
    ∃ v r, v.length = 32 ∧ p.rem = [0xc4, UInt8.ofNat v.length] ++ (v ++ r) ∧
      p' = { rem := r, out := p.out ++ v, mask := p.mask ||| bit, req := p.req } := by
  unfold binOpt at h
  split at h
  · cases h
  · rename_i v q hq
    obtain ⟨r, hv, _, hrem, hp⟩ := readBin_inv hq
    cases h
    subst hp
    exact ⟨v, r, hv, hrem, rfl⟩

theorem binReq_inv {sz : Nat} {p p' : PS} (h : binReq sz p = .ok p') :
    ∃ v r, v.length = sz ∧ p.rem = [0xc4, UInt8.ofNat v.length] ++ (v ++ r) ∧
      p' = { rem := r, out := p.out ++ v, mask := p.mask, req := p.req + 1 } := by
  unfold binReq at h
  split at h
  · cases h
  · rename_i v q hq
    obtain ⟨r, hv, _, hrem, hp⟩ := readBin_inv hq
    cases h
    subst hp
    exact ⟨v, r, hv, hrem, rfl⟩

theorem expectKey_inv {k : Bytes} {p p' : PS} (h : expectKey k p = .ok p') :
    ∃ r, p.rem = fixstr k ++ r ∧ p' = { p with rem := r } := by
  unfold expectKey at h
  split at h
  · cases h
  · rename_i s q hq
    obtain ⟨r, _, hrem, hp⟩ := readString_inv hq
    split at h
    · rename_i hs; cases h; subst hs; exact ⟨r, hrem, hp⟩
    · cases h

theorem expectMap_inv {n : Nat} {p p' : PS} (h : expectMap n p = .ok p') :
    ∃ r, p.rem = UInt8.ofNat (0x80 + n) :: r ∧ p' = { p with rem := r } := by
  unfold expectMap at h
  split at h
  · cases h
  · rename_i c q hq
    obtain ⟨r, _, hrem, hp⟩ := readFixMap_inv hq
    split at h
    · rename_i hc; cases h; subst hc; exact ⟨r, hrem, hp⟩
    · cases h

theorem psZero_inv {p p' : PS} (h : psZero p = .ok p') :
    ∃ r, p.rem = [0xc4, UInt8.ofNat (zeros 64).length] ++ (zeros 64 ++ r) ∧ p' = { p with rem := r } := by
  unfold psZero at h
  split at h
  · cases h
  · rename_i v q hq
    obtain ⟨r, _, _, hrem, hp⟩ := readBin_inv hq
    split at h
    · cases h
    · rename_i hz
      have hv : v = zeros 64 := Classical.byContradiction (fun hh => hz hh)
      cases h; subst hv; exact ⟨r, hrem, hp⟩

theorem checkTrailing_inv {p p' : PS} (h : checkTrailing p = .ok p') : p.rem = [] ∧ p' = p := by
  unfold checkTrailing at h
  split at h
  · cases h
  · rename_i hr
    cases h
    exact ⟨Classical.byContradiction (fun hh => hr hh), rfl⟩

theorem runAll_cons_inv {f : PS → SM PS} {fs : List (PS → SM PS)} {p r : PS} (h : runAll (f :: fs) p = .ok r) :
    ∃ p', f p = .ok p' ∧ runAll fs p' = .ok r := by
  rw [runAll] at h
  split at h
  · rename_i p' hp; exact ⟨p', hp, h⟩
  · cases h

/-- one iteration of the `proposalValue` loop -/
theorem propLoop_succ_inv {n : Nat} {prev : Option Bytes} {p p' : PS} (h : propLoop (n + 1) prev p = .ok p') :
    ∃ k r0, p.rem = fixstr k ++ r0 ∧ keyOrderOk prev k = true ∧
      ((k = kDig ∧ ∃ v r, v.length = 32 ∧ r0 = [0xc4, UInt8.ofNat v.length] ++ (v ++ r) ∧
          propLoop n (some kDig) { rem := r, out := p.out ++ v, mask := p.mask ||| bitDig, req := p.req } = .ok p') ∨
       (k = kEncdig ∧ ∃ v r, v.length = 32 ∧ r0 = [0xc4, UInt8.ofNat v.length] ++ (v ++ r) ∧
          propLoop n (some kEncdig) { rem := r, out := p.out ++ v, mask := p.mask ||| bitEncDig, req := p.req } = .ok p') ∨
       (k = kOper ∧ ∃ x r, x < M64 ∧ r0 = appendUint64 x ++ r ∧
          propLoop n (some kOper) { rem := r, out := p.out ++ appendUint64 x, mask := p.mask ||| bitOper, req := p.req } = .ok p') ∨
       (k = kOprop ∧ ∃ v r, v.length = 32 ∧ r0 = [0xc4, UInt8.ofNat v.length] ++ (v ++ r) ∧
          propLoop n (some kOprop) { rem := r, out := p.out ++ v, mask := p.mask ||| bitOprop, req := p.req } = .ok p')) := by
  rw [propLoop] at h
  split at h
  · cases h
  · rename_i k q hq
    obtain ⟨r0, _, hrem, hp⟩ := readString_inv hq
    subst hp
    split at h
    · cases h
    · rename_i hord
      have hord' : keyOrderOk prev k = true := by simpa using hord
      refine ⟨k, r0, hrem, hord', ?_⟩
      split at h
      · cases h
      · rename_i q' hd
        split at hd
        · rename_i hk
          obtain ⟨v, r, hv, hr, hq'⟩ := binOpt_inv hd
          subst hq'
          exact Or.inl ⟨hk, v, r, hv, hr, by rw [← hk]; exact h⟩
        split at hd
        · rename_i hk
          obtain ⟨v, r, hv, hr, hq'⟩ := binOpt_inv hd
          subst hq'
          exact Or.inr (Or.inl ⟨hk, v, r, hv, hr, by rw [← hk]; exact h⟩)
        split at hd
        · rename_i hk
          obtain ⟨x, r, hx, hr, hq'⟩ := uintOpt_inv hd
          subst hq'
          exact Or.inr (Or.inr (Or.inl ⟨hk, x, r, hx, hr, by rw [← hk]; exact h⟩))
        split at hd
        · rename_i hk
          obtain ⟨v, r, hv, hr, hq'⟩ := binOpt_inv hd
          subst hq'
          exact Or.inr (Or.inr (Or.inr ⟨hk, v, r, hv, hr, by rw [← hk]; exact h⟩))
        · cases hd

end AlgoVerif.Lemmas.Vpack
