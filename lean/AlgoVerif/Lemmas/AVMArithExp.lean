/-
C32 helper lemmas: the multiplication loops of `opExpImpl` / `opExpwImpl` with their own overflow
tests (`next/answer != base` on wrapped uint64 products, `BitLen() > 128` on big integers) return the
true power exactly when it fits and report overflow exactly when it does not.
-/
import AlgoVerif.Lemmas.AVMArithByteOps
namespace Lemmas.AVMArith
open Spec.AVMArith Model.AVMArith AlgoVerif.U64

/-- the `c / b ≠ a` test detects exactly a wrapped product -/
theorem wrapped_div_eq (W a b : Nat) (hW : 0 < W) (hb : 0 < b) :
    ((a * b) % W) / b = a ↔ a * b < W := by
  constructor
  · intro h
    by_cases hlt : a * b < W
    · exact hlt
    · exfalso
      have h1 : (a * b) % W < a * b := by
        have := Nat.mod_lt (a * b) hW
        omega
      have h2 : ((a * b) % W) / b * b ≤ (a * b) % W := Nat.div_mul_le_self _ _
      rw [h] at h2
      omega
  · intro h
    rw [Nat.mod_eq_of_lt h, Nat.mul_div_cancel _ hb]

theorem pow_mono_exp (b m n : Nat) (hb : 0 < b) (h : m ≤ n) : b ^ m ≤ b ^ n :=
  Nat.pow_le_pow_right hb h

theorem expLoop_succ (n answer base : Nat) :
    expLoop (n + 1) answer base =
      if answer = 0 then .error .panic
      else if answer * base % 2 ^ 64 / answer ≠ base then .error .overflow
      else expLoop n (answer * base % 2 ^ 64) base := rfl

theorem expwLoop_succ (n answer base : Nat) :
    expwLoop (n + 1) answer base =
      if bitlen (answer * base) > 128 then .error .overflow
      else expwLoop n (answer * base) base := rfl

theorem expLoop_exact (n : Nat) : ∀ (answer base k : Nat), 2 ≤ base → answer = base ^ k → answer < 2 ^ 64 →
    expLoop n answer base = if base ^ (k + n) < 2 ^ 64 then .ok (base ^ (k + n)) else .error .overflow := by
  induction n with
  | zero =>
    intro answer base k _ ha hlt
    simp only [expLoop, Nat.add_zero]
    rw [← ha, if_pos hlt]
  | succ n ih =>
    intro answer base k hb ha hlt
    have hapos : 0 < answer := by rw [ha]; exact Nat.pow_pos (by omega)
    have hne : answer ≠ 0 := by omega
    rw [expLoop_succ, if_neg hne]
    have key := wrapped_div_eq (2 ^ 64) base answer (Nat.pow_pos (by decide)) hapos
    rw [Nat.mul_comm base answer] at key
    by_cases hfit : answer * base < 2 ^ 64
    · have h1 : ¬ (answer * base % 2 ^ 64 / answer ≠ base) := by
        intro h; exact h (key.mpr hfit)
      rw [if_neg h1, Nat.mod_eq_of_lt hfit]
      have ha' : answer * base = base ^ (k + 1) := by rw [ha, Nat.pow_succ]
      rw [ih (answer * base) base (k + 1) hb ha' hfit]
      have : k + 1 + n = k + (n + 1) := by omega
      rw [this]
    · have h1 : answer * base % 2 ^ 64 / answer ≠ base := by
        intro h; exact hfit (key.mp h)
      rw [if_pos h1]
      have ha' : answer * base = base ^ (k + 1) := by rw [ha, Nat.pow_succ]
      have : base ^ (k + 1) ≤ base ^ (k + (n + 1)) := pow_mono_exp base _ _ (by omega) (by omega)
      have : ¬ base ^ (k + (n + 1)) < 2 ^ 64 := by omega
      rw [if_neg this]

theorem two_pow_le_pow (a e k : Nat) (ha : 2 ≤ a) (he : k ≤ e) : 2 ^ k ≤ a ^ e :=
  Nat.le_trans (Nat.pow_le_pow_right (by decide) he) (Nat.pow_le_pow_left ha e)

theorem opExpImpl_exact (a e : Nat) (ha : a < 2 ^ 64) :
    opExpImpl a e =
      if a = 0 ∧ e = 0 then .error .undefined
      else if a ^ e < 2 ^ 64 then .ok (a ^ e) else .error .overflow := by
  unfold opExpImpl
  by_cases h00 : e = 0 ∧ a = 0
  · have : a = 0 ∧ e = 0 := ⟨h00.2, h00.1⟩
    rw [if_pos h00, if_pos this]
  · have h00' : ¬ (a = 0 ∧ e = 0) := fun h => h00 ⟨h.2, h.1⟩
    rw [if_neg h00, if_neg h00']
    by_cases ha0 : a = 0
    · have he : e ≠ 0 := fun h => h00 ⟨h, ha0⟩
      subst ha0
      rw [if_pos rfl, Nat.zero_pow (Nat.pos_of_ne_zero he)]; simp
    · rw [if_neg ha0]
      by_cases h1 : e = 0 ∨ a = 1
      · rw [if_pos h1]
        have : a ^ e = 1 := by
          rcases h1 with h | h
          · rw [h]; rfl
          · rw [h]; exact Nat.one_pow e
        rw [this]; simp
      · rw [if_neg h1]
        have ha2 : 2 ≤ a := by omega
        by_cases h64 : e ≥ 64
        · have := two_pow_le_pow a e 64 ha2 h64
          have : ¬ a ^ e < 2 ^ 64 := by omega
          rw [if_pos h64, if_neg this]
        · rw [if_neg h64, expLoop_exact (e - 1) a a 1 ha2 (by simp) ha]
          have : 1 + (e - 1) = e := by omega
          rw [this]

/-! ### expw -/
theorem bitlen_le_iff (n k : Nat) : bitlen n ≤ k ↔ n < 2 ^ k := by
  have ⟨h1, h2⟩ := bitlen_spec n
  constructor
  · intro h
    exact Nat.lt_of_lt_of_le h1 (Nat.pow_le_pow_right (by decide) h)
  · intro h
    apply Nat.le_of_not_lt
    intro hk
    rcases h2 with h2 | h2
    · omega
    · have : 2 ^ k ≤ 2 ^ (bitlen n - 1) := Nat.pow_le_pow_right (by decide) (by omega)
      omega

theorem expwLoop_exact (n : Nat) : ∀ (answer base k : Nat), 1 ≤ base → answer = base ^ k → answer < 2 ^ 128 →
    expwLoop n answer base = if base ^ (k + n) < 2 ^ 128 then .ok (base ^ (k + n)) else .error .overflow := by
  induction n with
  | zero =>
    intro answer base k _ ha hlt
    simp only [expwLoop, Nat.add_zero]
    rw [← ha, if_pos hlt]
  | succ n ih =>
    intro answer base k hb ha _
    rw [expwLoop_succ]
    have ha' : answer * base = base ^ (k + 1) := by rw [ha, Nat.pow_succ]
    by_cases hfit : answer * base < 2 ^ 128
    · have h1 : ¬ bitlen (answer * base) > 128 := by
        have := (bitlen_le_iff (answer * base) 128).mpr hfit; omega
      rw [if_neg h1, ih (answer * base) base (k + 1) hb ha' hfit]
      have : k + 1 + n = k + (n + 1) := by omega
      rw [this]
    · have h1 : bitlen (answer * base) > 128 := by
        apply Nat.lt_of_not_le
        intro h; exact hfit ((bitlen_le_iff _ _).mp h)
      rw [if_pos h1]
      have : base ^ (k + 1) ≤ base ^ (k + (n + 1)) := pow_mono_exp base _ _ (by omega) (by omega)
      have : ¬ base ^ (k + (n + 1)) < 2 ^ 128 := by omega
      rw [if_neg this]

theorem opExpwImpl_exact (a e : Nat) (ha : a < 2 ^ 64) :
    opExpwImpl a e =
      if a = 0 ∧ e = 0 then .error .undefined
      else if a ^ e < 2 ^ 128 then .ok (a ^ e) else .error .overflow := by
  unfold opExpwImpl
  by_cases h00 : e = 0 ∧ a = 0
  · have : a = 0 ∧ e = 0 := ⟨h00.2, h00.1⟩
    rw [if_pos h00, if_pos this]
  · have h00' : ¬ (a = 0 ∧ e = 0) := fun h => h00 ⟨h.2, h.1⟩
    rw [if_neg h00, if_neg h00']
    by_cases ha0 : a = 0
    · have he : e ≠ 0 := fun h => h00 ⟨h, ha0⟩
      subst ha0
      rw [if_pos rfl, Nat.zero_pow (Nat.pos_of_ne_zero he)]; simp
    · rw [if_neg ha0]
      by_cases h1 : e = 0 ∨ a = 1
      · rw [if_pos h1]
        have : a ^ e = 1 := by
          rcases h1 with h | h
          · rw [h]; rfl
          · rw [h]; exact Nat.one_pow e
        rw [this]; simp
      · rw [if_neg h1]
        have ha2 : 2 ≤ a := by omega
        by_cases h128 : e ≥ 128
        · have := two_pow_le_pow a e 128 ha2 h128
          have : ¬ a ^ e < 2 ^ 128 := by omega
          rw [if_pos h128, if_neg this]
        · have ha128 : a < 2 ^ 128 := Nat.lt_of_lt_of_le ha (Nat.pow_le_pow_right (by decide) (by decide))
          rw [if_neg h128, expwLoop_exact (e - 1) a a 1 (by omega) (by simp) ha128]
          have : 1 + (e - 1) = e := by omega
          rw [this]

end Lemmas.AVMArith
