import AlgoVerif.Lemmas.VoteTrackerBundle
/-! Weight accounting behind `no_panic`: totals are monotone along the history and two values cannot both be over the
threshold while `totalWeight + eqWeight < 2T`. -/
namespace AlgoVerif.Lemmas.VoteTracker
open AlgoVerif.Model.VoteTracker AlgoVerif.Spec.VoteTracker

theorem reaches_le {c : Cfg} {w : Nat} (h : reachesQuorum c w = true) : c.T ≤ w := by
  unfold reachesQuorum at h
  by_cases hs : c.step = 0
  · simp [hs] at h
  · simpa [hs] using h

theorem two_values_le (l : List Vote) {u v : Nat} (huv : u ≠ v) :
    wsum (l.filter (fun a => a.value == u)) + wsum (l.filter (fun a => a.value == v)) ≤ wsum l := by
  have h1 := wsum_filter_split (fun a => a.value == u) l
  have h2 : l.filter (fun a => a.value == v) = (l.filter (fun a => !(a.value == u))).filter (fun a => a.value == v) := by
    rw [List.filter_filter]
    apply filter_congr'; intro a _
    by_cases h : a.value = v
    · have : ¬ a.value = u := fun h' => huv (h'.symm.trans h)
      simp [h]; exact fun h' => huv h'.symm
    · simp [h]
  have h3 := wsum_filter_le (fun a => a.value == v) (l.filter (fun a => !(a.value == u)))
  rw [← h2] at h3
  omega

/-- under the honesty bound `overThreshold` cannot see two values over the threshold -/
theorem no_two_over {c : Cfg} {vs : List Vote} {t : Tracker} (hR : Refines vs t)
    (htot : totalWeight vs + eqWeight vs < 2 * c.T) : ∃ ob, overThreshold c t = .ok ob := by
  cases h : overThreshold c t with
  | ok ob => exact ⟨ob, rfl⟩
  | error k =>
    exfalso
    obtain ⟨u, v, huv, hu, hv⟩ := overThreshold_error hR.keys h
    have hu' := reaches_le ((overAt_iff_specOver hR u).mp hu).2
    have hv' := reaches_le ((overAt_iff_specOver hR v).mp hv).2
    have h2 := two_values_le (regular vs) huv
    have h3 := total_split vs
    unfold specCount regWeight votersOf at hu' hv'
    omega

/-- appending a vote never decreases the equivocating weight nor `totalWeight + eqWeight` -/
theorem weights_mono_snoc (vs : List Vote) (x : Vote) :
    eqWeight vs ≤ eqWeight (vs ++ [x]) ∧ totalWeight vs + eqWeight vs ≤ totalWeight (vs ++ [x]) + eqWeight (vs ++ [x]) := by
  by_cases he : IsEquiv vs x.sender
  · obtain ⟨hf, hi⟩ := snoc_equiv he
    obtain ⟨_, h2⟩ := spec_same hf hi
    unfold eqWeight totalWeight; rw [h2, hf]; omega
  · by_cases hs : Seen vs x.sender
    · obtain ⟨old, hold, hso⟩ := seen_regular hs he
      obtain ⟨holdf, _⟩ := regular_sub_firsts hold
      by_cases hv : old.value = x.value
      · obtain ⟨hf, hi⟩ := snoc_dup holdf hso he hv
        obtain ⟨_, h2⟩ := spec_same hf hi
        unfold eqWeight totalWeight; rw [h2, hf]; omega
      · obtain ⟨_, h2⟩ := regular_snoc_equivocate holdf hso he hv
        obtain ⟨hf, _⟩ := snoc_equivocate holdf hso hv
        unfold totalWeight; rw [hf, h2]; omega
    · obtain ⟨hf, _⟩ := snoc_new hs
      obtain ⟨_, h2⟩ := regular_snoc_new hs
      unfold eqWeight totalWeight; rw [h2, hf, wsum_append]; omega

theorem weights_mono_append (pre rest : List Vote) :
    eqWeight pre ≤ eqWeight (pre ++ rest) ∧
    totalWeight pre + eqWeight pre ≤ totalWeight (pre ++ rest) + eqWeight (pre ++ rest) := by
  induction rest generalizing pre with
  | nil => simp
  | cons x rest ih =>
    have hassoc : pre ++ x :: rest = (pre ++ [x]) ++ rest := by simp
    rw [hassoc]
    have h1 := weights_mono_snoc pre x
    have h2 := ih (pre ++ [x])
    omega

end AlgoVerif.Lemmas.VoteTracker
