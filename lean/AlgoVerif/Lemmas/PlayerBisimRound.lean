import AlgoVerif.Lemmas.PlayerBisimBasic
/-!
C07 restore bisimulation, part 2: period- and round-level machines respect "equal persisted image".
`ERel R x y`: both computations fail, or both succeed with `R`-related states and EQUAL outputs.
-/
namespace AlgoVerif.Lemmas.Player
open AlgoVerif.Model AlgoVerif.Model.Player

/-- same failure class, or related successes with equal outputs -/
def ERel {σ α : Type} (R : σ → σ → Prop) (x y : Except Panic (σ × α)) : Prop :=
  match x, y with
  | .ok (a, u), .ok (b, v) => R a b ∧ u = v
  | .error _, .error _ => True
  | _, _ => False

theorem ERel.cases {σ α : Type} {R : σ → σ → Prop} {x y : Except Panic (σ × α)} (h : ERel R x y) :
    (∃ e e', x = .error e ∧ y = .error e') ∨ (∃ a b u, x = .ok (a, u) ∧ y = .ok (b, u) ∧ R a b) := by
  unfold ERel at h
  split at h
  · rename_i a u b v
    exact Or.inr ⟨a, b, u, rfl, by rw [h.2], h.1⟩
  · rename_i e e'
    exact Or.inl ⟨e, e', rfl, rfl⟩
  · exact h.elim

theorem ERel.ok {σ α : Type} {R : σ → σ → Prop} {a b : σ} {u : α} (h : R a b) : ERel R (.ok (a, u)) (.ok (b, u)) := ⟨h, rfl⟩
theorem ERel.err {σ α : Type} {R : σ → σ → Prop} {e e' : Panic} : ERel (α := α) R (.error e) (.error e') := trivial

/-- period routers with the same persisted image (they differ at most in `lowestLate`) -/
def PRel (a b : PeriodR) : Prop := a.persist = b.persist
/-- round routers with the same persisted image -/
def RRel (a b : RoundR) : Prop := a.persist = b.persist

theorem PRel.steps {a b : PeriodR} (h : PRel a b) : a.steps = b.steps := (congrArg PeriodR.steps (show a.persist = b.persist from h) :)
theorem PRel.cached {a b : PeriodR} (h : PRel a b) : a.cached = b.cached := (congrArg PeriodR.cached (show a.persist = b.persist from h) :)
theorem PRel.ptContract {a b : PeriodR} (h : PRel a b) : a.ptContract = b.ptContract := (congrArg PeriodR.ptContract (show a.persist = b.persist from h) :)
theorem PRel.staging {a b : PeriodR} (h : PRel a b) : a.ptracker.staging = b.ptracker.staging :=
  (congrArg (fun p => p.ptracker.staging) (show a.persist = b.persist from h) :)
theorem PRel.duplicate {a b : PeriodR} (h : PRel a b) : a.ptracker.duplicate = b.ptracker.duplicate :=
  (congrArg (fun p => p.ptracker.duplicate) (show a.persist = b.persist from h) :)
theorem PRel.lowest {a b : PeriodR} (h : PRel a b) : a.ptracker.freezer.lowest = b.ptracker.freezer.lowest :=
  (congrArg (fun p => p.ptracker.freezer.lowest) (show a.persist = b.persist from h) :)
theorem PRel.frozen {a b : PeriodR} (h : PRel a b) : a.ptracker.freezer.frozen = b.ptracker.freezer.frozen :=
  (congrArg (fun p => p.ptracker.freezer.frozen) (show a.persist = b.persist from h) :)

theorem PRel.upd {a b : PeriodR} (h : PRel a b) (s : Nat) : PRel (a.upd s) (b.upd s) := by
  unfold PRel at h ⊢; rw [PeriodR.upd_persist, PeriodR.upd_persist, h]

theorem RRel.store {a b : RoundR} (h : RRel a b) : a.store = b.store := (congrArg RoundR.store (show a.persist = b.persist from h) :)
theorem RRel.freshest {a b : RoundR} (h : RRel a b) : a.freshest = b.freshest := (congrArg RoundR.freshest (show a.persist = b.persist from h) :)
theorem RRel.okf {a b : RoundR} (h : RRel a b) : a.ok = b.ok := (congrArg RoundR.ok (show a.persist = b.persist from h) :)
theorem RRel.periods {a b : RoundR} (h : RRel a b) : Pm a.periods = Pm b.periods := (congrArg RoundR.periods (show a.persist = b.persist from h) :)

theorem RRel.upd {a b : RoundR} (h : RRel a b) (pl : PlayerF) (p : Nat) : RRel (a.upd pl p) (b.upd pl p) := by
  unfold RRel at h ⊢; rw [RoundR.upd_persist, RoundR.upd_persist, h]

theorem RRel.aget {a b : RoundR} (h : RRel a b) (p : Nat) :
    (aget a.periods p).map PeriodR.persist = (aget b.periods p).map PeriodR.persist := by
  rw [← aget_Pm, ← aget_Pm, h.periods]

/-- rebuilding a round router from related parts -/
theorem RRel.mk {a b : RoundR} (h : RRel a b) {pa pb : PeriodR} (hp : PRel pa pb) (p : Nat) :
    RRel { a with periods := aset a.periods p pa } { b with periods := aset b.periods p pb } := by
  unfold RRel RoundR.persist
  simp only []
  have := h.periods
  unfold Pm at this
  have e1 := aset_Pm a.periods p pa
  have e2 := aset_Pm b.periods p pb
  unfold Pm at e1 e2
  rw [← e1, ← e2, this, hp, h.store, h.freshest, h.okf]

/-- step-level machines do not see the difference at all -/
theorem atStep_rel {α : Type} {a b : PeriodR} (h : PRel a b) (s : Nat) (f : StepR → Except Panic (StepR × α)) :
    ERel PRel (a.atStep s f) (b.atStep s f) := by
  unfold PeriodR.atStep
  simp only []
  have hs : (a.upd s).steps = (b.upd s).steps := (h.upd s).steps
  rw [hs]
  cases aget (b.upd s).steps s with
  | none => exact ERel.err
  | some sr =>
    simp only []
    cases f sr with
    | error e => exact ERel.err
    | ok r =>
      obtain ⟨sr', u⟩ := r
      refine ERel.ok ?_
      have := h.upd s
      unfold PRel PeriodR.persist at this ⊢
      simp only [] at this ⊢
      injection this with h1 h2 h3 h4
      rw [h1, h2, h3]

/-- a period-level machine that respects `PRel`, run through `roundRouter.dispatch` -/
theorem atPeriod_rel {α : Type} {a b : RoundR} (h : RRel a b) (pl : PlayerF) (p s : Nat)
    {f : PeriodR → Except Panic (PeriodR × α)} (hf : ∀ x y, PRel x y → ERel PRel (f x) (f y)) :
    ERel RRel (a.atPeriod pl p s f) (b.atPeriod pl p s f) := by
  unfold RoundR.atPeriod
  simp only []
  have hu := h.upd pl p
  have hg := hu.aget p
  cases ha : aget (a.upd pl p).periods p with
  | none =>
    rw [ha] at hg
    cases hb : aget (b.upd pl p).periods p with
    | none => exact ERel.err
    | some y => rw [hb] at hg; cases hg
  | some x =>
    rw [ha] at hg
    cases hb : aget (b.upd pl p).periods p with
    | none => rw [hb] at hg; cases hg
    | some y =>
      rw [hb] at hg
      simp only [Option.map_some, Option.some.injEq] at hg
      simp only []
      rcases (hf _ _ (PRel.upd hg s)).cases with ⟨e, e', h1, h2⟩ | ⟨x', y', u, h1, h2, hxy⟩
      · rw [h1, h2]; exact ERel.err
      · rw [h1, h2]; exact ERel.ok (hu.mk hxy p)

/-! ### round machines -/

theorem RRel.withStore {a b : RoundR} (h : RRel a b) (st : Store) : RRel { a with store := st } { b with store := st } := by
  have h1 := h.periods
  have h2 := h.freshest
  have h3 := h.okf
  unfold RRel RoundR.persist
  unfold Pm at h1
  simp only []
  rw [h1, h2, h3]

theorem RRel.withFresh {a b : RoundR} (h : RRel a b) (e : Thresh) (o : Bool) :
    RRel { a with freshest := e, ok := o } { b with freshest := e, ok := o } := by
  have h1 := h.periods
  have h2 := h.store
  unfold RRel RoundR.persist
  unfold Pm at h1
  simp only []
  rw [h1, h2]

theorem readStaging_rel {a b : RoundR} (h : RRel a b) (pl : PlayerF) (p : Nat) :
    ERel RRel (a.readStaging pl p) (b.readStaging pl p) := by
  unfold RoundR.readStaging
  rcases (atPeriod_rel h pl p 0 (f := fun pr => .ok (pr, pr.ptracker.staging))
    (fun x y hxy => ⟨hxy, hxy.staging⟩)).cases with ⟨e, e', h1, h2⟩ | ⟨a', b', v, h1, h2, hab⟩
  · rw [h1, h2]; exact ERel.err
  · rw [h1, h2]; simp only []; rw [hab.store]; exact ERel.ok hab

theorem stagedSelf_rel {a b : RoundR} (h : RRel a b) (pl : PlayerF) :
    ERel RRel (RoundR.stagedSelf pl a) (RoundR.stagedSelf pl b) := by
  unfold RoundR.stagedSelf
  exact readStaging_rel (h.upd pl pl.period) pl pl.period

theorem payloadPresent_rel {a b : RoundR} (h : RRel a b) (pl : PlayerF) (up : Payload) :
    RRel (a.payloadPresent pl up).1 (b.payloadPresent pl up).1 ∧ (a.payloadPresent pl up).2 = (b.payloadPresent pl up).2 := by
  unfold RoundR.payloadPresent
  rw [h.store]
  split
  · exact ⟨h, rfl⟩
  split
  · exact ⟨h, rfl⟩
  split
  · exact ⟨h, rfl⟩
  exact ⟨h.withStore _, rfl⟩

theorem payloadVerified_rel {a b : RoundR} (h : RRel a b) (pl : PlayerF) (pp : Payload) :
    ERel RRel (a.payloadVerified pl pp) (b.payloadVerified pl pp) := by
  unfold RoundR.payloadVerified
  rw [h.store]
  split
  · exact ERel.ok h
  split
  · exact ERel.ok h
  simp only []
  rcases (stagedSelf_rel (h.withStore _) pl).cases with ⟨e, e', h1, h2⟩ | ⟨a', b', v, h1, h2, hab⟩
  · rw [h1, h2]; exact ERel.err
  · rw [h1, h2]; simp only []
    split
    · exact ERel.ok hab
    · exact ERel.ok hab

theorem newPeriod_rel {a b : RoundR} (h : RRel a b) (pl : PlayerF) (target starting : Nat) :
    ERel RRel (a.newPeriod pl target starting) (b.newPeriod pl target starting) := by
  unfold RoundR.newPeriod
  rcases (stagedSelf_rel h pl).cases with ⟨e, e', h1, h2⟩ | ⟨a', b', v, h1, h2, hab⟩
  · rw [h1, h2]; exact ERel.err
  · rw [h1, h2]; simp only []; rw [hab.store]; exact ERel.ok (hab.withStore _)

theorem newRound_rel {a b : RoundR} (h : RRel a b) (pl : PlayerF) : ERel RRel (a.newRound pl) (b.newRound pl) := by
  unfold RoundR.newRound
  rw [h.store]
  split
  · exact ERel.ok h
  · split
    · exact ERel.ok h
    · exact ERel.ok h
  · exact ERel.err

theorem stage_rel {x y : PeriodR} (h : PRel x y) (kind value : Nat) : ERel PRel (x.stage kind value) (y.stage kind value) := by
  unfold PeriodR.stage
  rw [h.ptContract]
  split
  · exact ERel.err
  · refine ERel.ok ?_
    have h1 := h.steps
    have h2 := h.cached
    have h3 := h.duplicate
    have h4 := h.lowest
    have h5 := h.frozen
    unfold PRel PeriodR.persist
    simp only []
    rw [h1, h2, h3, h4, h5]

theorem threshold_rel {a b : RoundR} (h : RRel a b) (pl : PlayerF) (e : Thresh) :
    ERel RRel (a.threshold pl e) (b.threshold pl e) := by
  unfold RoundR.threshold
  rcases (atPeriod_rel h pl e.period 0 (f := fun pr => pr.stage e.kind e.proposal)
    (fun x y hxy => stage_rel hxy _ _)).cases with ⟨e₁, e₂, h1, h2⟩ | ⟨a', b', v, h1, h2, hab⟩
  · rw [h1, h2]; exact ERel.err
  · rw [h1, h2]; simp only []; rw [hab.store]
    split
    · exact ERel.ok (hab.withStore _)
    · exact ERel.ok (hab.withStore _)

theorem pvoteAccepted_rel {u v : PeriodR} (huv : PRel u v) (P : Params) (r p s : Nat) (x : VoteTracker.Vote) :
    ERel PRel (u.voteAccepted P r p s x) (v.voteAccepted P r p s x) := by
  unfold PeriodR.voteAccepted
  rcases (atStep_rel huv s (fun sr => sr.accept P r p s x)).cases with ⟨e₁, e₂, h1, h2⟩ | ⟨u', v', ev, h1, h2, huv'⟩
  · rw [h1, h2]; exact ERel.err
  · rw [h1, h2]; simp only []
    split
    · refine ERel.ok ?_
      have hu := huv'.upd 0
      have h1 := hu.steps
      have h2 := hu.cached
      have h3 := hu.duplicate
      have h4 := hu.lowest
      have h5 := hu.frozen
      have h6 := hu.staging
      have h7 := hu.ptContract
      unfold PRel PeriodR.persist
      simp only []
      rw [h1, h2, h3, h4, h5, h6, h7]
    · exact ERel.ok huv'

theorem voteAccepted_rel {a b : RoundR} (h : RRel a b) (P : Params) (pl : PlayerF) (r p s : Nat) (x : VoteTracker.Vote) :
    ERel RRel (a.voteAccepted P pl r p s x) (b.voteAccepted P pl r p s x) := by
  unfold RoundR.voteAccepted
  rcases (atPeriod_rel h pl p 0 (f := fun pr => pr.voteAccepted P r p s x)
    (fun u v huv => pvoteAccepted_rel huv P r p s x)).cases with ⟨e₁, e₂, h1, h2⟩ | ⟨a', b', ev, h1, h2, hab⟩
  · rw [h1, h2]; exact ERel.err
  · rw [h1, h2]; simp only []
    split
    · have hu := hab.upd pl 0
      rw [hu.freshest]
      split
      · exact ERel.ok (hu.withFresh _ _)
      · exact ERel.ok hu
    · exact ERel.ok hab

/-! ### the proposal-vote chain: the only place where the unpersisted `lowestLate` is read -/

/-- like `ERel`, with a relation on the outputs -/
def ERel2 {σ α : Type} (R : σ → σ → Prop) (S : α → α → Prop) (x y : Except Panic (σ × α)) : Prop :=
  match x, y with
  | .ok (a, u), .ok (b, v) => R a b ∧ S u v
  | .error _, .error _ => True
  | _, _ => False

theorem ERel2.cases {σ α : Type} {R : σ → σ → Prop} {S : α → α → Prop} {x y : Except Panic (σ × α)} (h : ERel2 R S x y) :
    (∃ e e', x = .error e ∧ y = .error e') ∨ (∃ a b u v, x = .ok (a, u) ∧ y = .ok (b, v) ∧ R a b ∧ S u v) := by
  unfold ERel2 at h
  split at h
  · rename_i a u b v
    exact Or.inr ⟨a, b, u, v, rfl, rfl, h.1, h.2⟩
  · rename_i e e'
    exact Or.inl ⟨e, e', rfl, rfl⟩
  · exact h.elim

/-- results of a verified proposal-vote agree up to the late-credential flag -/
def PVRes.sim : PVRes → PVRes → Prop
  | .filtered _, .filtered _ => True
  | .accepted a p, .accepted b q => a = b ∧ p = q
  | _, _ => False

theorem ptv_rel (dup : List Nat) (low : Option PVote) (fz : Bool) (ll ll' : Option PVote) (stg : Nat) (v : PVote) :
    let r := (⟨dup, ⟨low, fz, ll⟩, stg⟩ : PTracker).voteVerified v
    let r' := (⟨dup, ⟨low, fz, ll'⟩, stg⟩ : PTracker).voteVerified v
    r.1.duplicate = r'.1.duplicate ∧ r.1.freezer.lowest = r'.1.freezer.lowest ∧ r.1.freezer.frozen = r'.1.freezer.frozen
      ∧ r.1.staging = r'.1.staging ∧ PVRes.sim r.2 r'.2 := by
  unfold PTracker.voteVerified Seeker.accept
  by_cases hd : v.sender ∈ dup
  · simp [hd, PVRes.sim]
  · simp only [List.contains_iff_mem, hd, if_false]
    cases fz with
    | true =>
      by_cases hs : stg = 0
      · simp [hs, PVRes.sim]
      · simp [hs, PVRes.sim]
    | false =>
      cases low with
      | none => by_cases hs : stg = 0 <;> simp [hs, PVRes.sim]
      | some l =>
        by_cases hc : v.cred < l.cred <;> by_cases hs : stg = 0 <;> simp [hc, hs, PVRes.sim]

theorem PVRes.sim_bad {r r' : PVRes} (h : PVRes.sim r r') (c : PTContract) (v : PVote) : ptVoteBad c r v = ptVoteBad c r' v := by
  cases r <;> cases r' <;> simp_all [PVRes.sim, ptVoteBad]

theorem pvoteVerified_prel {x y : PeriodR} (h : PRel x y) (v : PVote) :
    ERel2 PRel PVRes.sim (x.pvoteVerified v) (y.pvoteVerified v) := by
  obtain ⟨⟨dup, ⟨low, fz, ll⟩, stg⟩, c, ca, st⟩ := x
  obtain ⟨⟨dup', ⟨low', fz', ll'⟩, stg'⟩, c', ca', st'⟩ := y
  have h1 := h.steps; have h2 := h.cached; have h3 := h.duplicate; have h4 := h.lowest
  have h5 := h.frozen; have h6 := h.staging; have h7 := h.ptContract
  simp only [] at h1 h2 h3 h4 h5 h6 h7
  subst h1 h2 h3 h4 h5 h6 h7
  obtain ⟨g1, g2, g3, g4, g5⟩ := ptv_rel dup low fz ll ll' stg v
  unfold PeriodR.pvoteVerified
  simp only []
  rw [PVRes.sim_bad g5]
  split
  · trivial
  · refine ⟨?_, g5⟩
    unfold PRel PeriodR.persist
    simp only []
    rw [g1, g2, g3, g4]

/-- voteVerified (proposal-vote) at the store -/
theorem pvoteVerified_rrel {a b : RoundR} (h : RRel a b) (pl : PlayerF) (v : PVote) :
    ERel2 RRel PVRes.sim (a.pvoteVerified pl v) (b.pvoteVerified pl v) := by
  unfold RoundR.pvoteVerified
  -- `atPeriod_rel` for an output relation
  have hat : ERel2 RRel PVRes.sim (a.atPeriod pl v.period 0 (fun pr => pr.pvoteVerified v))
      (b.atPeriod pl v.period 0 (fun pr => pr.pvoteVerified v)) := by
    unfold RoundR.atPeriod
    simp only []
    have hu := h.upd pl v.period
    have hg := hu.aget v.period
    cases ha : aget (a.upd pl v.period).periods v.period with
    | none =>
      rw [ha] at hg
      cases hb : aget (b.upd pl v.period).periods v.period with
      | none => trivial
      | some y => rw [hb] at hg; cases hg
    | some x =>
      rw [ha] at hg
      cases hb : aget (b.upd pl v.period).periods v.period with
      | none => rw [hb] at hg; cases hg
      | some y =>
        rw [hb] at hg
        simp only [Option.map_some, Option.some.injEq] at hg
        simp only []
        rcases (pvoteVerified_prel (PRel.upd hg 0) v).cases with ⟨e, e', h1, h2⟩ | ⟨x', y', u, w, h1, h2, hxy, huw⟩
        · rw [h1, h2]; trivial
        · rw [h1, h2]; exact ⟨hu.mk hxy v.period, huw⟩
  rcases hat.cases with ⟨e, e', h1, h2⟩ | ⟨a', b', u, w, h1, h2, hab, huw⟩
  · rw [h1, h2]; trivial
  · rw [h1, h2]
    cases u <;> cases w <;> simp only [PVRes.sim] at huw
    · exact ⟨hab, trivial⟩
    · obtain ⟨rfl, rfl⟩ := huw
      simp only []
      rw [hab.store]
      exact ⟨hab.withStore _, rfl, rfl⟩

end AlgoVerif.Lemmas.Player
