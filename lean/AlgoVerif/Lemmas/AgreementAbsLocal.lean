import AlgoVerif.Lemmas.AgreementAbsQuorum
/-!
Lemma 7 of DESIGN Appendix C and the node-local invariants of `Spec.AgreementAbs` (they hold for the current
local state **and** for the crash snapshot, which is why crashes are harmless):

* `cache_sound` — every cached next-threshold value has a next quorum among the votes cast so far;
* `local_inv` (`entered_cause_sound`) — a node in period `p > 0` either holds a non-empty cache of `p-1`
  (it entered through a next quorum) or a value is staged for `p` (it fast-forwarded on a soft/cert quorum);
* `sticky` — what a node's cache contained when it cast a vote, it contains forever after (the snapshot is
  taken at the vote, and `see` only adds).

None of these needs the quorum hypothesis, and they hold for both rule sets.
-/
namespace AlgoVerif.Lemmas.AgreementAbs
open AlgoVerif.Spec.AgreementAbs

/-! ### cache order -/

/-- `c'` knows at least what `c` knows -/
def CacheLe (c c' : Cache) : Prop :=
  (c.bottom = true → c'.bottom = true) ∧ (c.prop ≠ none → c'.prop ≠ none)

theorem CacheLe.refl (c : Cache) : CacheLe c c := ⟨id, id⟩
theorem CacheLe.trans {a b c : Cache} (h1 : CacheLe a b) (h2 : CacheLe b c) : CacheLe a c :=
  ⟨fun h => h2.1 (h1.1 h), fun h => h2.2 (h1.2 h)⟩

theorem cacheLe_see_cache (c : Cache) (y : Option Val) : CacheLe c (c.see y) := by
  cases y <;> simp [CacheLe, Cache.see]

theorem cacheLe_see (L : Local) (p : Nat) (y : Option Val) (q : Nat) :
    CacheLe (L.cache q) ((L.see p y).cache q) := by
  unfold Local.see
  by_cases hq : q = p
  · subst hq; simp only; exact cacheLe_see_cache _ _
  · simp only [if_neg hq]; exact CacheLe.refl _

theorem prev_le {L L' : Local} (h : ∀ q, CacheLe (L.cache q) (L'.cache q)) (p : Nat) :
    CacheLe (L.prev p) (L'.prev p) := by
  unfold Local.prev
  by_cases hp : p = 0
  · simp only [if_pos hp]; exact CacheLe.refl _
  · simp only [if_neg hp]; exact h _

/-- the cache is not the empty one a fast-forwarding node holds -/
def NotFF (c : Cache) : Prop := c.bottom = true ∨ c.prop ≠ none

theorem NotFF.mono {c c' : Cache} (h : CacheLe c c') (hn : NotFF c) : NotFF c' :=
  hn.imp h.1 h.2

/-! ### 7. cache soundness -/

def CacheSound (P : Params) (h : List Ev) (L : Local) : Prop :=
  ∀ q, ((L.cache q).bottom = true → nextQ P h q none) ∧
       (∀ v, (L.cache q).prop = some v → nextQ P h q (some v))

theorem cacheSound_mono {P : Params} {t h : List Ev} (hs : t <:+ h) {L : Local}
    (hc : CacheSound P t L) : CacheSound P h L :=
  fun q => ⟨fun hb => nextQ_mono hs ((hc q).1 hb), fun v hv => nextQ_mono hs ((hc q).2 v hv)⟩

theorem cacheSound_init (P : Params) (h : List Ev) : CacheSound P h Local.init := by
  intro q; simp [Local.init, Cache.empty]

theorem cacheSound_see {P : Params} {h : List Ev} {L : Local} (hc : CacheSound P h L) {p y}
    (hq : nextQ P h p y) : CacheSound P h (L.see p y) := by
  intro q
  unfold Local.see
  by_cases hqp : q = p
  · subst hqp
    simp only
    cases y with
    | none =>
        simp only [Cache.see]
        exact ⟨fun _ => hq, (hc q).2⟩
    | some v =>
        simp only [Cache.see]
        refine ⟨(hc q).1, fun u hu => ?_⟩
        cases hu; exact hq
  · simp only [if_neg hqp]; exact hc q

theorem cache_sound {l : Bool} {P : Params} {h : List Ev} (wf : WF l P h) {n : Node}
    (hh : P.honest n = true) :
    CacheSound P h (nstate h n).cur ∧ CacheSound P h (nstate h n).snap := by
  induction h with
  | nil => exact ⟨cacheSound_init _ _, cacheSound_init _ _⟩
  | cons e pre ih =>
      obtain ⟨ihc, ihs⟩ := ih wf.1
      have hs : pre <:+ e :: pre := List.suffix_cons _ _
      have ihc' := cacheSound_mono hs ihc
      have ihs' := cacheSound_mono hs ihs
      cases e with
      | vote v =>
          simp only [nstate, stepN]
          split
          · exact ⟨ihc', ihc'⟩
          · exact ⟨ihc', ihs'⟩
      | see m p y =>
          simp only [nstate, stepN]
          split
          · rename_i hm; subst hm
            exact ⟨cacheSound_see ihc' (nextQ_mono hs (wf.2 hh)), ihs'⟩
          · exact ⟨ihc', ihs'⟩
      | enter m p c =>
          simp only [nstate, stepN]
          split
          · exact ⟨fun q => ihc' q, ihs'⟩
          · exact ⟨ihc', ihs'⟩
      | commit m p v => exact ⟨ihc', ihs'⟩
      | crash m =>
          simp only [nstate, stepN]
          split
          · exact ⟨ihs', ihs'⟩
          · exact ⟨ihc', ihs'⟩

/-- soundness of the cache of the previous period as the player reads it -/
theorem prev_sound {P : Params} {h : List Ev} {L : Local} (hc : CacheSound P h L) (p : Nat) :
    ((L.prev p).bottom = true → nextQ P h (p - 1) none) ∧
    (∀ v, (L.prev p).prop = some v → nextQ P h (p - 1) (some v)) := by
  unfold Local.prev
  by_cases hp : p = 0
  · simp [hp, Cache.empty]
  · simp only [if_neg hp]; exact hc (p - 1)

theorem localOf_sound {l : Bool} {P : Params} {h : List Ev} (wf : WF l P h) {n : Node}
    (hh : P.honest n = true) : CacheSound P h (localOf h n) := (cache_sound wf hh).1

/-! ### how a node got into its period (`entered_cause_sound`) -/

def LocalInv (P : Params) (h : List Ev) (L : Local) : Prop :=
  L.period = 0 ∨ (∃ z, stagedQ P h L.period z) ∨ NotFF (L.prev L.period)

theorem localInv_mono {P : Params} {t h : List Ev} (hs : t <:+ h) {L : Local}
    (hc : LocalInv P t L) : LocalInv P h L := by
  rcases hc with h0 | ⟨z, hz⟩ | hn
  · exact Or.inl h0
  · exact Or.inr (Or.inl ⟨z, stagedQ_mono hs hz⟩)
  · exact Or.inr (Or.inr hn)

theorem localInv_see {P : Params} {h : List Ev} {L : Local} (hc : LocalInv P h L) (p : Nat)
    (y : Option Val) : LocalInv P h (L.see p y) := by
  rcases hc with h0 | hz | hn
  · exact Or.inl h0
  · exact Or.inr (Or.inl hz)
  · exact Or.inr (Or.inr (NotFF.mono (prev_le (cacheLe_see L p y) _) hn))

theorem local_inv {l : Bool} {P : Params} {h : List Ev} (wf : WF l P h) {n : Node}
    (hh : P.honest n = true) :
    LocalInv P h (nstate h n).cur ∧ LocalInv P h (nstate h n).snap := by
  induction h with
  | nil => exact ⟨Or.inl rfl, Or.inl rfl⟩
  | cons e pre ih =>
      obtain ⟨ihc, ihs⟩ := ih wf.1
      have hs : pre <:+ e :: pre := List.suffix_cons _ _
      have ihc' := localInv_mono hs ihc
      have ihs' := localInv_mono hs ihs
      cases e with
      | vote v =>
          simp only [nstate, stepN]
          split
          · exact ⟨ihc', ihc'⟩
          · exact ⟨ihc', ihs'⟩
      | see m p y =>
          simp only [nstate, stepN]
          split
          · exact ⟨localInv_see ihc' p y, ihs'⟩
          · exact ⟨ihc', ihs'⟩
      | enter m p c =>
          simp only [nstate, stepN]
          split
          · rename_i hm; subst hm
            refine ⟨?_, ihs'⟩
            have ok := wf.2 hh
            have hc : REnterCause P pre m p c := ok.2
            cases c with
            | viaNext y =>
                cases y with
                | none => exact Or.inr (Or.inr (Or.inl hc))
                | some v =>
                    refine Or.inr (Or.inr (Or.inr ?_))
                    show ((nstate pre m).cur.prev p).prop ≠ none
                    have hc' : ((nstate pre m).cur.prev p).prop = some v := hc
                    rw [hc']; simp
            | viaSoft x => exact Or.inr (Or.inl ⟨x, Or.inl (softQ_mono hs hc)⟩)
            | viaCert x => exact Or.inr (Or.inl ⟨x, Or.inr (certQ_mono hs hc)⟩)
          · exact ⟨ihc', ihs'⟩
      | commit m p v => exact ⟨ihc', ihs'⟩
      | crash m =>
          simp only [nstate, stepN]
          split
          · exact ⟨ihs', ihs'⟩
          · exact ⟨ihc', ihs'⟩

theorem localOf_inv {l : Bool} {P : Params} {h : List Ev} (wf : WF l P h) {n : Node}
    (hh : P.honest n = true) : LocalInv P h (localOf h n) := (local_inv wf hh).1

/-! ### 3b. what a node knew when it voted, it knows forever (`snapshot_at_vote`) -/

theorem sticky {v : Vote} {pre1 h : List Ev} (hs : (Ev.vote v :: pre1) <:+ h) :
    (∀ q, CacheLe ((localOf pre1 v.n).cache q) ((nstate h v.n).cur.cache q)) ∧
    (∀ q, CacheLe ((localOf pre1 v.n).cache q) ((nstate h v.n).snap.cache q)) := by
  induction h with
  | nil => simp at hs
  | cons e pre ih =>
      rcases List.suffix_cons_iff.1 hs with heq | hs'
      · cases heq
        simp only [nstate, stepN]
        exact ⟨fun q => CacheLe.refl _, fun q => CacheLe.refl _⟩
      · obtain ⟨ihc, ihs⟩ := ih hs'
        cases e with
        | vote u =>
            simp only [nstate, stepN]
            split
            · exact ⟨ihc, ihc⟩
            · exact ⟨ihc, ihs⟩
        | see m p y =>
            simp only [nstate, stepN]
            split
            · exact ⟨fun q => (ihc q).trans (cacheLe_see _ p y q), ihs⟩
            · exact ⟨ihc, ihs⟩
        | enter m p c =>
            simp only [nstate, stepN]
            split
            · exact ⟨fun q => ihc q, ihs⟩
            · exact ⟨ihc, ihs⟩
        | commit m p v => exact ⟨ihc, ihs⟩
        | crash m =>
            simp only [nstate, stepN]
            split
            · exact ⟨ihs, ihs⟩
            · exact ⟨ihc, ihs⟩

/-- the previous-period cache a node read at a vote is below the one it reads at any later time -/
theorem sticky_prev {v : Vote} {pre1 h : List Ev} (hs : (Ev.vote v :: pre1) <:+ h) (p : Nat) :
    CacheLe ((localOf pre1 v.n).prev p) ((localOf h v.n).prev p) :=
  prev_le (sticky hs).1 p

end AlgoVerif.Lemmas.AgreementAbs
