import AlgoVerif.Lemmas.AppStorageBox
/-! Lemmas about Model.AppStorage: the write-budget bookkeeping of logic/box.go (`availableAppBox`): dirtyBytes is the sum of
the current lengths of the boxes marked dirty, its unsigned subtractions / additions never wrap, and it stays ≤ ioBudget. -/
namespace AlgoVerif.Model.AppStorage

attribute [local irreducible] M64 add64 sub64

/-- current length of the box `r` (0 when it does not exist) -/
def curLen (σ : State) (r : BoxRef) : Nat :=
  match boxLenAt σ r with
  | some n => n
  | none => 0

/-- weight of an availability entry: the current length of the box if it is marked dirty -/
def dw (σ : State) : BoxRef → Bool → Nat := fun r d => if d then curLen σ r else 0

/-- Σ over the boxes marked dirty of their current length -/
def dsum (σ : State) (l : List (BoxRef × Bool)) : Nat := wsum (dw σ) l

/-- the invariant of the per-group write-budget bookkeeping -/
structure GInv (P : Proto) (σ : State) (av : Avail) : Prop where
  nodup : keysNodup av.boxes
  dirty_exists : ∀ r, aget av.boxes r = some true → (boxLenAt σ r).isSome
  sum : av.dirtyBytes = dsum σ av.boxes
  le : av.dirtyBytes ≤ av.ioBudget
  small : av.ioBudget + P.maxBoxSize < M64

theorem curLen_congr {σ σ' : State} {r : BoxRef} (h : boxLenAt σ' r = boxLenAt σ r) : curLen σ' r = curLen σ r := by
  unfold curLen; rw [h]

theorem wold_dw (σ : State) (l : List (BoxRef × Bool)) (r : BoxRef) :
    wold (dw σ) l r = if aget l r = some true then curLen σ r else 0 := by
  unfold wold dw
  cases h : aget l r with
  | none => simp
  | some d => cases d <;> simp

/-- the state did not change any box length, the availability kept its three relevant fields -/
theorem ginv_frame {P : Proto} {σ σ' : State} {av av' : Avail} (hg : GInv P σ av)
    (hframe : ∀ r, boxLenAt σ' r = boxLenAt σ r) (hb : av'.boxes = av.boxes) (hd : av'.dirtyBytes = av.dirtyBytes)
    (hio : av'.ioBudget = av.ioBudget) : GInv P σ' av' := by
  refine ⟨by rw [hb]; exact hg.nodup, ?_, ?_, by rw [hd, hio]; exact hg.le, by rw [hio]; exact hg.small⟩
  · intro r hr
    rw [hb] at hr
    rw [hframe r]; exact hg.dirty_exists r hr
  · rw [hd, hb, hg.sum]
    unfold dsum
    apply wsum_congr
    intro p _
    unfold dw
    rw [curLen_congr (hframe p.1)]

/-- one step of the bookkeeping: the entry of `ref` is (re)written with flag `d1`, only the box `ref` may have changed -/
theorem ginv_step {P : Proto} {σ σ' : State} {av av' : Avail} (hg : GInv P σ av) (ref : BoxRef) (d1 : Bool)
    (hb : av'.boxes = aset av.boxes ref d1) (hio : av'.ioBudget = av.ioBudget)
    (hframe : ∀ r, r ≠ ref → boxLenAt σ' r = boxLenAt σ r)
    (hD : av'.dirtyBytes + wold (dw σ) av.boxes ref = av.dirtyBytes + dw σ' ref d1)
    (hex : d1 = true → (boxLenAt σ' ref).isSome)
    (hle : av'.dirtyBytes ≤ av.ioBudget) : GInv P σ' av' := by
  refine ⟨by rw [hb]; exact keysNodup_aset _ _ hg.nodup, ?_, ?_, by rw [hio]; exact hle, by rw [hio]; exact hg.small⟩
  · intro r hr
    rw [hb, aget_aset] at hr
    by_cases hrr : ref = r
    · subst hrr
      rw [if_pos rfl] at hr
      exact hex (by cases hr; rfl)
    · rw [if_neg hrr] at hr
      have : r ≠ ref := fun e => hrr e.symm
      rw [hframe r this]; exact hg.dirty_exists r hr
  · rw [hb]
    have h1 := wsum_adel (dw σ) ref hg.nodup
    have h2 : wsum (dw σ') (adel av.boxes ref) = wsum (dw σ) (adel av.boxes ref) := by
      apply wsum_congr
      intro p hp
      have hne := (mem_adel hp).2
      unfold dw
      rw [curLen_congr (hframe p.1 hne)]
    have h3 := hg.sum
    unfold dsum at h3 ⊢
    unfold aset
    simp only [wsum]
    omega

theorem add64_eq {a b : Nat} (h : a + b < M64) : add64 a b = a + b := by
  unfold add64; unfold M64 at *; omega

theorem sub64_eq {a b : Nat} (h : b ≤ a) (ha : a < M64) : sub64 a b = a - b := by
  unfold sub64; unfold M64 at *; omega

theorem availLookup_spec {av av0 : Avail} {owner : AppId} {name : Bytes} {d0 naa : Bool}
    (h : availLookup av owner name = .ok (d0, av0, naa)) :
    av0.boxes = av.boxes ∧ av0.dirtyBytes = av.dirtyBytes ∧ av0.ioBudget = av.ioBudget ∧
    (naa = false → aget av.boxes (owner, name) = some d0) ∧ (naa = true → aget av.boxes (owner, name) = none ∧ d0 = false) := by
  unfold availLookup at h
  split at h
  · rename_i d hd
    cases h
    exact ⟨rfl, rfl, rfl, fun _ => hd, (fun e => by cases e)⟩
  · rename_i hd
    split at h
    · split at h
      · cases h
        exact ⟨rfl, rfl, rfl, (fun e => by cases e), fun _ => ⟨hd, rfl⟩⟩
      · cases h
    · cases h

/-- the length the box will have after the operation (if it exists then) -/
def opLen (op : BoxOp) (ex : Bool) (content : Bytes) (sz : Nat) : Nat :=
  match op with
  | .create => if ex then content.length else sz
  | .write => if ex then content.length else sz
  | .resize => sz
  | .delete => 0
  | .read => content.length

/-- the arithmetic heart of `availableAppBox`: no wrap in `dirtyBytes -= len(content)` / `+= size`, and the new value is the old
    one minus the old contribution of this box plus its new contribution -/
theorem availOp_spec {P : Proto} {D0 D1 budget : Nat} {d0 d1 early ex : Bool} {content : Bytes} {op : BoxOp} {sz : Nat}
    (hle : D0 ≤ budget) (hsmall : budget + P.maxBoxSize < M64)
    (hc : content.length ≤ P.maxBoxSize) (hsz : sz ≤ P.maxBoxSize)
    (hdc : d0 = true → content.length ≤ D0) (hde : d0 = true → ex = true)
    (h : availOp D0 d0 content ex op sz = .ok (D1, d1, early)) :
    D1 + (if d0 then content.length else 0) = D0 + (if d1 then opLen op ex content sz else 0) ∧
    (op = .delete → d1 = false) ∧ (op = .read → d1 = d0) ∧ (early = true → op = .create ∧ ex = true ∧ d1 = d0 ∧ D1 = D0) := by
  have hM : D0 < M64 := by omega
  have ha1 : add64 D0 sz = D0 + sz := add64_eq (by omega)
  have ha2 : add64 D0 content.length = D0 + content.length := add64_eq (by omega)
  unfold availOp at h
  unfold opLen
  cases op with
  | create =>
    cases ex with
    | true =>
      simp only [if_true] at h
      split at h
      · cases h
      · cases h
        exact ⟨by simp, (fun e => by cases e), (fun e => by cases e), fun _ => ⟨rfl, rfl, rfl, rfl⟩⟩
    | false =>
      cases d0 with
      | true => exact absurd (hde rfl) (by simp)
      | false =>
        simp only [Bool.false_eq_true, if_false] at h
        cases h
        refine ⟨?_, (fun e => by cases e), (fun e => by cases e), (fun e => by cases e)⟩
        simp only [Bool.false_eq_true, if_false, if_true]
        omega
  | write =>
    cases d0 with
    | true =>
      have hex := hde rfl
      subst hex
      simp only [if_true] at h
      cases h
      exact ⟨by simp, (fun e => by cases e), (fun e => by cases e), (fun e => by cases e)⟩
    | false =>
      cases ex with
      | true =>
        simp only [Bool.false_eq_true, if_false, if_true] at h
        cases h
        refine ⟨?_, (fun e => by cases e), (fun e => by cases e), (fun e => by cases e)⟩
        simp only [Bool.false_eq_true, if_false, if_true]
        omega
      | false =>
        simp only [Bool.false_eq_true, if_false] at h
        cases h
        refine ⟨?_, (fun e => by cases e), (fun e => by cases e), (fun e => by cases e)⟩
        simp only [Bool.false_eq_true, if_false, if_true]
        omega
  | resize =>
    cases d0 with
    | true =>
      have hcd := hdc rfl
      have hs : sub64 D0 content.length = D0 - content.length := sub64_eq hcd hM
      have ha3 : add64 (D0 - content.length) sz = D0 - content.length + sz := add64_eq (by omega)
      simp only [if_true] at h
      rw [hs, ha3] at h
      cases h
      refine ⟨?_, (fun e => by cases e), (fun e => by cases e), (fun e => by cases e)⟩
      simp only [if_true]
      omega
    | false =>
      simp only [Bool.false_eq_true, if_false] at h
      cases h
      refine ⟨?_, (fun e => by cases e), (fun e => by cases e), (fun e => by cases e)⟩
      simp only [Bool.false_eq_true, if_false, if_true]
      omega
  | delete =>
    cases d0 with
    | true =>
      have hcd := hdc rfl
      have hs : sub64 D0 content.length = D0 - content.length := sub64_eq hcd hM
      simp only [if_true] at h
      rw [hs] at h
      cases h
      refine ⟨?_, (fun _ => rfl), (fun e => by cases e), (fun e => by cases e)⟩
      simp only [if_true, Bool.false_eq_true, if_false]
      omega
    | false =>
      simp only [Bool.false_eq_true, if_false] at h
      cases h
      exact ⟨by simp, (fun _ => rfl), (fun e => by cases e), (fun e => by cases e)⟩
  | read =>
    cases h
    refine ⟨?_, (fun e => by cases e), (fun _ => rfl), (fun e => by cases e)⟩
    cases d0 <;> simp

theorem aget_of_mem_nodup {κ β : Type} [DecidableEq κ] {l : List (κ × β)} {k : κ} {v : β} (hn : keysNodup l) (hm : (k, v) ∈ l) :
    aget l k = some v := by
  induction l with
  | nil => cases hm
  | cons p t ih =>
    obtain ⟨k0, v0⟩ := p
    unfold keysNodup at hn
    simp only [List.map_cons, List.nodup_cons] at hn
    simp only [aget]
    rcases List.mem_cons.mp hm with h1 | h2
    · cases h1; simp
    · have : k0 ≠ k := by
        intro e; subst e
        exact hn.1 (List.mem_map.mpr ⟨(k0, v), h2, rfl⟩)
      rw [if_neg this]; exact ih hn.2 h2

/-- only the lengths of the boxes marked dirty matter -/
theorem ginv_dirty_frame {P : Proto} {σ σ' : State} {av av' : Avail} (hg : GInv P σ av)
    (hframe : ∀ r, aget av.boxes r = some true → boxLenAt σ' r = boxLenAt σ r) (hb : av'.boxes = av.boxes)
    (hd : av'.dirtyBytes = av.dirtyBytes) (hio : av'.ioBudget = av.ioBudget) : GInv P σ' av' := by
  refine ⟨by rw [hb]; exact hg.nodup, ?_, ?_, by rw [hd, hio]; exact hg.le, by rw [hio]; exact hg.small⟩
  · intro r hr
    rw [hb] at hr
    rw [hframe r hr]; exact hg.dirty_exists r hr
  · rw [hd, hb, hg.sum]
    unfold dsum
    apply wsum_congr
    intro p hp
    obtain ⟨r, d⟩ := p
    unfold dw
    cases d with
    | false => rfl
    | true =>
      have := aget_of_mem_nodup hg.nodup hp
      simp only [if_true]
      exact (curLen_congr (hframe r this)).symm

theorem availFinish_spec {av1 av' : Avail} {ref : BoxRef} {d1 : Bool} (h : availFinish av1 ref d1 = .ok av') :
    av' = { av1 with boxes := aset av1.boxes ref d1 } ∧ av1.dirtyBytes ≤ av1.ioBudget := by
  unfold availFinish at h
  dsimp only at h
  split at h
  · cases h
  · rename_i hle
    cases h
    exact ⟨rfl, by omega⟩

theorem boxLenAt_some {σ : State} {a : AppId} {name c : Bytes} (h : aget (σ.boxes a) name = some c) :
    boxLenAt σ (a, name) = some c.length := by
  unfold boxLenAt; rw [h]

theorem boxLenAt_isSome {σ : State} {a : AppId} {name : Bytes} (h : (boxLenAt σ (a, name)).isSome) :
    ∃ c, aget (σ.boxes a) name = some c := by
  unfold boxLenAt at h
  cases hc : aget (σ.boxes a) name with
  | none => rw [hc] at h; cases h
  | some c => exact ⟨c, rfl⟩

theorem curLen_some {σ : State} {r : BoxRef} {n : Nat} (h : boxLenAt σ r = some n) : curLen σ r = n := by
  unfold curLen; rw [h]

/-- `availableAppBox`: what the caller learns, and the invariant of the bookkeeping after the ledger operation that follows -/
theorem avail_ginv {P : Proto} {n : Nat} {σ : State} {av av' : Avail} {cx : Cx} {owner : AppId} {name content : Bytes}
    {op : BoxOp} {sz : Nat} {ex : Bool}
    (hg : GInv P σ av) (hbi : BoxInv P n σ) (hsz : sz ≤ P.maxBoxSize)
    (h : availableAppBox σ av cx owner name op sz = .ok (av', content, ex)) :
    (ex = true → aget (σ.boxes owner) name = some content) ∧ (ex = false → content = []) ∧
    (∃ app, σ.apps owner = some app) ∧ av'.created = av.created ∧ av'.started = av.started ∧
    ∃ d1 : Bool, (op = .delete → d1 = false) ∧ (d1 = true → op = .read → ex = true) ∧
      ∀ σ', (∀ r, r ≠ (owner, name) → boxLenAt σ' r = boxLenAt σ r) →
        (d1 = true → boxLenAt σ' (owner, name) = some (opLen op ex content sz)) → GInv P σ' av' := by
  unfold availableAppBox at h
  split at h
  · cases h
  · split at h
    · cases h
    · rename_i d0 av0 naa hl
      obtain ⟨hb0, hd0, hio0, hnf, hnt⟩ := availLookup_spec hl
      have hcr : av0.created = av.created ∧ av0.started = av.started := by
        unfold availLookup at hl
        split at hl
        · cases hl; exact ⟨rfl, rfl⟩
        · split at hl
          · split at hl
            · cases hl; exact ⟨rfl, rfl⟩
            · cases hl
          · cases hl
      split at h
      · cases h
      · rename_i hauth
        have happ : ∃ app, σ.apps owner = some app := by
          unfold authorize at hauth
          split at hauth
          · cases hauth
          · rename_i o ho; exact ⟨o, ho⟩
        dsimp only at h
        -- the contents as the code sees them
        generalize hcur : (if naa = true then none else aget (σ.boxes owner) name) = cur at h
        have hex1 : cur.isSome = true → aget (σ.boxes owner) name = some (cur.getD []) := by
          intro hs
          cases naa with
          | true => simp at hcur; subst hcur; cases hs
          | false =>
            simp at hcur; subst hcur
            cases hc : aget (σ.boxes owner) name with
            | none => rw [hc] at hs; cases hs
            | some c => rfl
        have hex0 : cur.isSome = false → cur.getD [] = [] := by
          intro hs
          cases cur with
          | none => rfl
          | some c => cases hs
        have hclen : (cur.getD []).length ≤ P.maxBoxSize := by
          cases hcs : cur.isSome with
          | false => rw [hex0 hcs]; simp
          | true => exact (hbi.small owner (name, cur.getD []) (aget_mem (hex1 hcs))).2
        -- a dirty entry means: not the unnamed path, the box exists, its length is part of dirtyBytes
        have hdirty : d0 = true → cur.isSome = true ∧ (cur.getD []).length ≤ av0.dirtyBytes ∧
            aget av.boxes (owner, name) = some true := by
          intro hd
          cases naa with
          | true => have := (hnt rfl).2; rw [this] at hd; cases hd
          | false =>
            have hget := hnf rfl
            rw [hd] at hget
            obtain ⟨c, hc⟩ := boxLenAt_isSome (hg.dirty_exists (owner, name) hget)
            simp at hcur; subst hcur
            rw [hc]
            refine ⟨rfl, ?_, hget⟩
            have hge := wsum_ge_of_aget (dw σ) hg.nodup hget
            have hs := hg.sum
            unfold dsum at hs
            have : dw σ (owner, name) true = c.length := by
              unfold dw; simp only [if_true]; exact curLen_some (boxLenAt_some hc)
            simp only [Option.getD_some]
            omega
        split at h
        · cases h
        · rename_i db1 d1 early hop
          have hspec := availOp_spec (P := P) (budget := av0.ioBudget) (by rw [hd0, hio0]; exact hg.le) (by rw [hio0]; exact hg.small)
            hclen hsz (fun hd => (hdirty hd).2.1) (fun hd => (hdirty hd).1) hop
          obtain ⟨hE, hdel, hread, hearly⟩ := hspec
          -- the old contribution of this box, as the invariant counts it
          have hwold : wold (dw σ) av.boxes (owner, name) = if d0 = true then (cur.getD []).length else 0 := by
            rw [wold_dw]
            cases hd : d0 with
            | true =>
              obtain ⟨hs, _, hget⟩ := hdirty hd
              rw [if_pos hget, if_pos rfl]
              exact curLen_some (boxLenAt_some (hex1 hs))
            | false =>
              have : ¬ aget av.boxes (owner, name) = some true := by
                cases naa with
                | true => rw [(hnt rfl).1]; simp
                | false => rw [hnf rfl, hd]; simp
              rw [if_neg this]; simp
          split at h
          · -- early return: create of an existing box with the same size
            rename_i he
            cases h
            obtain ⟨hopc, hexx, hd1, hdb⟩ := hearly he
            refine ⟨hex1, hex0, happ, hcr.1, hcr.2, d1, hdel, fun hd hr => hexx, ?_⟩
            intro σ' hframe hnew
            apply ginv_dirty_frame hg _ hb0 hd0 hio0
            intro r hr
            by_cases hrr : r = (owner, name)
            · subst hrr
              have hd0t : d0 = true := by
                cases naa with
                | true => rw [(hnt rfl).1] at hr; cases hr
                | false => rw [hnf rfl] at hr; cases hr; rfl
              rw [hnew (by rw [hd1]; exact hd0t), boxLenAt_some (hex1 hexx), hopc]
              unfold opLen; rw [if_pos hexx]
            · exact hframe r hrr
          · split at h
            · cases h
            · rename_i av2 hfin
              cases h
              obtain ⟨hav2, hle2⟩ := availFinish_spec hfin
              refine ⟨hex1, hex0, happ, by rw [hav2]; exact hcr.1, by rw [hav2]; exact hcr.2, d1, hdel, ?_, ?_⟩
              · intro hd hr
                have := hread hr
                rw [this] at hd
                exact (hdirty hd).1
              · intro σ' hframe hnew
                apply ginv_step hg (owner, name) d1 (by rw [hav2]; show aset av0.boxes _ _ = _; rw [hb0]) (by rw [hav2]; exact hio0) hframe
                · rw [hwold, hav2]
                  show db1 + _ = av.dirtyBytes + dw σ' (owner, name) d1
                  rw [← hd0]
                  unfold dw
                  cases hd1 : d1 with
                  | false => rw [hd1] at hE; simpa using hE
                  | true =>
                    rw [hd1] at hE
                    rw [curLen_some (hnew hd1)]
                    simpa using hE
                · intro hd1; rw [hnew hd1]; rfl
                · rw [hav2] at *; show db1 ≤ av.ioBudget; rw [← hio0]; exact hle2

end AlgoVerif.Model.AppStorage
