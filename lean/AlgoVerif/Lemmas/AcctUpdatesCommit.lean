import AlgoVerif.Lemmas.AcctUpdatesOps
/-! `commitRound` of Model.AcctUpdates writes, for every key space, exactly the value of the history at the new DB round;
it never fails on a state satisfying `Inv` (the old rows it believes in — cached or read — are the rows the DB holds). -/
namespace AlgoVerif.Lemmas.AcctUpdates
open AlgoVerif.Spec.LedgerHistory AlgoVerif.Model.AcctUpdates

/-! ### folds over a compacted map: every step touches its own key only -/

theorem exceptFold_keys {K X V : Type} [DecidableEq K] (step : AMap K V → K × X → Except Err (AMap K V))
    (tgt : K → X → Option V) (m0 : AMap K V) (l : AMap K X) (hn : (AMap.keys l).Nodup)
    (hstep : ∀ m k x, (k, x) ∈ l → AMap.get m k = AMap.get m0 k →
      ∃ m', step m (k, x) = .ok m' ∧ AMap.get m' k = tgt k x ∧ ∀ k', k ≠ k' → AMap.get m' k' = AMap.get m k') :
    ∃ mF, exceptFold step l m0 = .ok mF ∧
      ∀ k, AMap.get mF k = match AMap.get l k with | some x => tgt k x | none => AMap.get m0 k := by
  suffices ∀ (rest : AMap K X), (AMap.keys rest).Nodup → (∀ p ∈ rest, p ∈ l) → ∀ m, (∀ k ∈ AMap.keys rest, AMap.get m k = AMap.get m0 k) →
      ∃ mF, exceptFold step rest m = .ok mF ∧
        ∀ k, AMap.get mF k = match AMap.get rest k with | some x => tgt k x | none => AMap.get m k by
    exact this l hn (fun p hp => hp) m0 (fun _ _ => rfl)
  intro rest
  induction rest with
  | nil => intro _ _ m _; exact ⟨m, rfl, fun k => by simp⟩
  | cons p t ih =>
    intro hnr hsub m hm
    obtain ⟨k0, x0⟩ := p
    simp [AMap.keys] at hnr
    have hnt : (AMap.keys t).Nodup := by simpa [AMap.keys] using hnr.2
    have hk0t : AMap.get t k0 = none := get_none_of_not_mem_keys (by
      simp only [AMap.keys, List.mem_map]; rintro ⟨⟨a, b⟩, hmem, rfl⟩; exact hnr.1 b hmem)
    obtain ⟨m1, hs1, hg1, hf1⟩ := hstep m k0 x0 (hsub _ (by simp)) (hm k0 (by simp [AMap.keys]))
    have hm1 : ∀ k ∈ AMap.keys t, AMap.get m1 k = AMap.get m0 k := by
      intro k hk
      have hne : k0 ≠ k := by
        intro e; subst e
        have := get_isSome_of_mem_keys (m := t) hk
        rw [hk0t] at this; simp at this
      rw [hf1 k hne]
      exact hm k (by simp [AMap.keys] at hk ⊢; exact Or.inr hk)
    obtain ⟨mF, hsF, hgF⟩ := ih hnt (fun p hp => hsub p (by simp [hp])) m1 hm1
    refine ⟨mF, by simp only [exceptFold, hs1]; exact hsF, fun k => ?_⟩
    rw [hgF k, get_cons]
    by_cases hk : k0 = k
    · subst hk; simp [hk0t, hg1]
    · simp only [hk, if_false]
      cases AMap.get t k with
      | none => exact hf1 k hk
      | some x => rfl

/-! ### single writes -/

theorem writeAcct_spec (m : AMap Addr AcctData) (a : Addr) (new : AcctData) :
    ∃ m', writeAcct m a (AMap.get m a) new = .ok m' ∧ AMap.get m' a = acctRowOf new ∧
      ∀ a', a ≠ a' → AMap.get m' a' = AMap.get m a' := by
  unfold writeAcct acctRowOf
  cases hg : AMap.get m a with
  | none =>
    simp only []
    by_cases hn : new = AcctData.empty
    · simp only [hn, if_true]; exact ⟨m, rfl, hg, fun _ _ => rfl⟩
    · simp only [hn, if_false, hg, Option.isSome_none, Bool.false_eq_true]
      exact ⟨_, rfl, by rw [get_set]; simp, fun a' ha' => by rw [get_set]; simp [ha']⟩
  | some old =>
    simp only [hg, Option.isNone_some, Bool.false_eq_true, if_false]
    by_cases hn : new = AcctData.empty
    · simp only [hn, if_true]
      exact ⟨_, rfl, get_del_self _ _, fun a' ha' => get_del_ne _ _ _ ha'⟩
    · simp only [hn, if_false]
      exact ⟨_, rfl, by rw [get_set]; simp, fun a' ha' => by rw [get_set]; simp [ha']⟩

theorem writeRes_spec (m : AMap (Addr × Cidx) ResRow) (k : Addr × Cidx) (new : Option ResRow) :
    ∃ m', writeRes m k (AMap.get m k) new = .ok m' ∧ AMap.get m' k = new ∧
      ∀ k', k ≠ k' → AMap.get m' k' = AMap.get m k' := by
  unfold writeRes
  cases hg : AMap.get m k with
  | none =>
    cases new with
    | none => exact ⟨m, rfl, hg, fun _ _ => rfl⟩
    | some r =>
      simp only [hg, Option.isSome_none, Bool.false_eq_true, if_false]
      exact ⟨_, rfl, by rw [get_set]; simp, fun k' hk' => by rw [get_set]; simp [hk']⟩
  | some old =>
    cases new with
    | none =>
      simp only [hg, Option.isNone_some, Bool.false_eq_true, if_false]
      exact ⟨_, rfl, get_del_self _ _, fun k' hk' => get_del_ne _ _ _ hk'⟩
    | some r =>
      simp only [hg, Option.isNone_some, Bool.false_eq_true, if_false]
      exact ⟨_, rfl, by rw [get_set]; simp, fun k' hk' => by rw [get_set]; simp [hk']⟩

/-- what the commit believes the old account row is, is the row the DB holds -/
theorem acctOld_eq (ct : Cidx → CType) (σ : State) (h : Inv ct σ) (a : Addr) : acctOld σ a = AMap.get σ.db.accts a := by
  unfold acctOld
  cases hr : σ.baseAccounts.read a with
  | some e => exact (lru_read_valid h.lruA hr).1
  | none => rfl

theorem resOld_eq (ct : Cidx → CType) (σ : State) (h : Inv ct σ) (k : Addr × Cidx) : resOld σ k = AMap.get σ.db.res k := by
  unfold resOld
  cases hr : σ.baseResources.read k with
  | some e =>
    have := (lru_read_valid h.lruR hr).1
    simp only [] at this ⊢
    cases hv : e.val with
    | some row => rw [hv] at this; exact this
    | none => rfl
  | none => rfl

/-! ### facts about the entries of a key in the flushed rounds -/

theorem Inv.deltas_wf {ct : Cidx → CType} {σ : State} (h : Inv ct σ) : ∀ d ∈ σ.deltas, DeltaWF ct d :=
  fun d hd => h.wf.deltas d (h.deltas_sub d hd)

/-- the j-th in-memory delta is block number dbRound + j of the store -/
theorem Inv.delta_block {ct : Cidx → CType} {σ : State} (h : Inv ct σ) (j : Nat) (d : Delta) (hj : σ.deltas[j]? = some d) :
    σ.hist.blocks[σ.dbRound + j]? = some d := by
  obtain ⟨rest, hrest⟩ := h.pre
  have : (σ.hist.blocks.drop σ.dbRound)[j]? = some d := by
    rw [← hrest, List.getElem?_append_left (by
      have := List.getElem?_eq_some_iff.mp hj; exact this.1)]
    exact hj
  rwa [List.getElem?_drop] at this

theorem entriesOf_head_split {K E : Type} [DecidableEq K] (rs : List (AMap K E)) (k : K) (e : E)
    (h : (entriesOf rs k).head? = some e) :
    ∃ (j : Nat) (r : AMap K E), rs[j]? = some r ∧ AMap.get r k = some e ∧ entriesOf (rs.take j) k = [] := by
  induction rs with
  | nil => simp at h
  | cons r t ih =>
    cases hg : AMap.get r k with
    | some v =>
      simp only [entriesOf, List.filterMap_cons, hg, List.head?_cons, Option.some.injEq] at h
      subst h
      exact ⟨0, r, rfl, hg, rfl⟩
    | none =>
      simp only [entriesOf, List.filterMap_cons, hg] at h
      obtain ⟨j, r', hj, hg', hnil⟩ := ih h
      refine ⟨j + 1, r', by simpa using hj, hg', ?_⟩
      simp only [List.take_succ_cons, entriesOf, List.filterMap_cons, hg]
      exact hnil

theorem entriesOf_last_index {K E : Type} [DecidableEq K] (rs : List (AMap K E)) (k : K) (e : E)
    (h : (entriesOf rs k).getLast? = some e) : ∃ (j : Nat) (r : AMap K E), rs[j]? = some r ∧ AMap.get r k = some e := by
  obtain ⟨r, hr, hg⟩ := getLast?_entries_mem rs k e h
  obtain ⟨j, hj⟩ := List.getElem?_of_mem hr
  exact ⟨j, r, hj, hg⟩

/-! ### accounts -/

theorem acctRow_eq (v : AcctData) : acctRowOf v = acctRow v := rfl

theorem commitAccts_spec (ct : Cidx → CType) (σ : State) (h : Inv ct σ) (off : Nat) (hoff : off ≤ σ.deltas.length) :
    ∃ accts, exceptFold (acctStep σ) (compact ((σ.deltas.take off).map (·.accts))) σ.db.accts = .ok accts ∧
      (∀ a, AMap.get accts a = acctRow (acctAt σ.hist (σ.dbRound + off) a)) ∧
      (∀ p ∈ (compact ((σ.deltas.take off).map (·.accts))).map (fun p => (p.1, acctRowOf (acctNew p.2))), p.2 = AMap.get accts p.1) ∧
      (∀ a, AMap.get accts a ≠ AMap.get σ.db.accts a →
        ∃ v, (a, v) ∈ (compact ((σ.deltas.take off).map (·.accts))).map (fun p => (p.1, acctRowOf (acctNew p.2)))) := by
  have hci := compact_inv ((σ.deltas.take off).map acctMods) (by
    intro r hr
    simp only [List.mem_map] at hr
    obtain ⟨d, hd, rfl⟩ := hr
    exact (h.deltas_wf d (List.mem_of_mem_take hd)).nodupA)
  change CompactInv (compact ((σ.deltas.take off).map (·.accts))) _ at hci
  generalize compact ((σ.deltas.take off).map (·.accts)) = cA at hci ⊢
  obtain ⟨hn, hg⟩ := hci
  obtain ⟨accts, hf, hget⟩ := exceptFold_keys (acctStep σ) (fun _ es => acctRowOf (acctNew es)) σ.db.accts cA hn (by
    intro m a es _ hm
    unfold acctStep
    simp only []
    rw [acctOld_eq ct σ h a, ← hm]
    exact writeAcct_spec m a _)
  have hval : ∀ a, AMap.get accts a = acctRow (acctAt σ.hist (σ.dbRound + off) a) := by
    intro a
    rw [hget a, hg a, acctAt_split ct σ h a off hoff]
    by_cases he : entriesOf ((σ.deltas.take off).map acctMods) a = []
    · simp only [he, if_true, List.getLast?_nil]; exact h.dbA a
    · simp only [he, if_false]
      unfold acctNew
      cases hl : (entriesOf ((σ.deltas.take off).map acctMods) a).getLast? with
      | none =>
        cases hd : entriesOf ((σ.deltas.take off).map acctMods) a with
        | nil => exact absurd hd he
        | cons x l => rw [hd] at hl; simp [List.getLast?_cons] at hl
      | some v => rfl
  refine ⟨accts, hf, hval, ?_, ?_⟩
  · intro p hp
    simp only [List.mem_map] at hp
    obtain ⟨⟨a, es⟩, hmem, rfl⟩ := hp
    simp only []
    rw [hget a, get_of_mem_nodup hn hmem]
  · intro a hne
    cases hc : AMap.get cA a with
    | none => rw [hget a, hc] at hne; exact absurd rfl hne
    | some es =>
      exact ⟨acctRowOf (acctNew es), by
        simp only [List.mem_map]; exact ⟨(a, es), get_some_mem hc, rfl⟩⟩

/-! ### resources: the compacted row is the last record's value (records are full) -/

theorem setResData_eq (prev : ResVal) (r : ResRec) (hp : r.params = .absent → prev.params = none)
    (hh : r.hold = .absent → prev.hold = none) : setResData prev r = r.val := by
  unfold setResData ResRec.val
  cases hrp : r.params <;> cases hrh : r.hold <;> simp_all [Part.toOpt]

theorem setResData_empty (r : ResRec) : setResData {} r = r.val :=
  setResData_eq {} r (fun _ => rfl) (fun _ => rfl)

theorem take_succ_snoc {α : Type} (l : List α) (n : Nat) (x : α) (h : l[n]? = some x) : l.take (n + 1) = l.take n ++ [x] := by
  rw [List.take_succ, h]; rfl

theorem res_compact_val (ct : Cidx → CType) (σ : State) (h : Inv ct σ) (a : Addr) (c : Cidx) (n : Nat) (hn : n ≤ σ.deltas.length) :
    ∀ e, (entriesOf ((σ.deltas.take n).map resMods) (a, c)).getLast? = some e →
      (entriesOf ((σ.deltas.take n).map resMods) (a, c)).foldl setResData {} = e.val := by
  induction n with
  | zero => intro e he; simp at he
  | succ n ih =>
    intro e he
    have hlt : n < σ.deltas.length := by omega
    obtain ⟨d, hd⟩ : ∃ d, σ.deltas[n]? = some d := ⟨σ.deltas[n], by simp [hlt]⟩
    rw [take_succ_snoc _ _ _ hd, List.map_append, entriesOf_append] at he ⊢
    simp only [List.map_cons, List.map_nil] at he ⊢
    cases hg : AMap.get (resMods d) (a, c) with
    | none =>
      have : entriesOf [resMods d] (a, c) = [] := by simp [entriesOf, hg]
      rw [this, List.append_nil] at he ⊢
      exact ih (by omega) e he
    | some r =>
      have hent : entriesOf [resMods d] (a, c) = [r] := by simp [entriesOf, hg]
      rw [hent] at he ⊢
      rw [List.getLast?_append] at he
      simp at he; subst he
      rw [List.foldl_append]
      simp only [List.foldl_cons, List.foldl_nil]
      obtain ⟨hmem, hra, hrc⟩ := resMods_mem d a c r hg
      have hdw := h.deltas_wf d (List.mem_of_getElem? hd)
      have hct : r.ctype = ct c := by rw [← hrc]; exact hdw.ctR r hmem
      have hfull := h.wf.resFull (σ.dbRound + n) d (h.delta_block n d hd) r hmem
      rw [hra, hrc, hct, resAt_split ct σ h a c n (by omega)] at hfull
      cases hl : (entriesOf ((σ.deltas.take n).map resMods) (a, c)).getLast? with
      | none =>
        have hnil : entriesOf ((σ.deltas.take n).map resMods) (a, c) = [] := by
          cases hd' : entriesOf ((σ.deltas.take n).map resMods) (a, c) with
          | nil => rfl
          | cons x l => rw [hd'] at hl; simp [List.getLast?_cons] at hl
        rw [hnil]; exact setResData_empty r
      | some e' =>
        rw [ih (by omega) e' hl]
        rw [hl] at hfull
        exact setResData_eq _ _ hfull.1 hfull.2

theorem entries_head_ctype (ct : Cidx → CType) (σ : State) (h : Inv ct σ) (a : Addr) (c : Cidx) (n : Nat) (r : ResRec)
    (hr : r ∈ entriesOf ((σ.deltas.take n).map resMods) (a, c)) : r.ctype = ct c := by
  unfold entriesOf at hr
  rw [List.mem_filterMap] at hr
  obtain ⟨m, hm, hg⟩ := hr
  simp only [List.mem_map] at hm
  obtain ⟨d, hd, rfl⟩ := hm
  obtain ⟨hmem, _, hrc⟩ := resMods_mem d a c r hg
  rw [← hrc]
  exact (h.deltas_wf d (List.mem_of_mem_take hd)).ctR r hmem

theorem commitRes_spec (ct : Cidx → CType) (σ : State) (h : Inv ct σ) (off : Nat) (hoff : off ≤ σ.deltas.length) :
    ∃ res, exceptFold (resStep σ) (compact ((σ.deltas.take off).map (fun d => d.res.map (fun r => ((r.addr, r.cidx), r))))) σ.db.res = .ok res ∧
      (∀ a c, AMap.get res (a, c) = rowOf ct c (resAt σ.hist (σ.dbRound + off) a c (ct c))) ∧
      (∀ p ∈ (compact ((σ.deltas.take off).map (fun d => d.res.map (fun r => ((r.addr, r.cidx), r))))).map (fun p => (p.1, resNew p.2)),
        p.2 = AMap.get res p.1) ∧
      (∀ k, AMap.get res k ≠ AMap.get σ.db.res k →
        ∃ v, (k, v) ∈ (compact ((σ.deltas.take off).map (fun d => d.res.map (fun r => ((r.addr, r.cidx), r))))).map (fun p => (p.1, resNew p.2))) := by
  have hci := compact_inv ((σ.deltas.take off).map resMods) (by
    intro r hr
    simp only [List.mem_map] at hr
    obtain ⟨d, hd, rfl⟩ := hr
    exact (h.deltas_wf d (List.mem_of_mem_take hd)).nodupR)
  change CompactInv (compact ((σ.deltas.take off).map (fun d => d.res.map (fun r => ((r.addr, r.cidx), r))))) _ at hci
  generalize compact ((σ.deltas.take off).map (fun d => d.res.map (fun r => ((r.addr, r.cidx), r)))) = cR at hci ⊢
  obtain ⟨hn, hg⟩ := hci
  obtain ⟨res, hf, hget⟩ := exceptFold_keys (resStep σ) (fun _ es => resNew es) σ.db.res cR hn (by
    intro m k es _ hm
    unfold resStep
    simp only []
    rw [resOld_eq ct σ h k, ← hm]
    exact writeRes_spec m k _)
  have hval : ∀ a c, AMap.get res (a, c) = rowOf ct c (resAt σ.hist (σ.dbRound + off) a c (ct c)) := by
    intro a c
    rw [hget (a, c), hg (a, c), resAt_split ct σ h a c off hoff]
    by_cases he : entriesOf ((σ.deltas.take off).map resMods) (a, c) = []
    · simp only [he, if_true, List.getLast?_nil]; exact h.dbR a c
    · simp only [he, if_false]
      cases hl : (entriesOf ((σ.deltas.take off).map resMods) (a, c)).getLast? with
      | none =>
        cases hd : entriesOf ((σ.deltas.take off).map resMods) (a, c) with
        | nil => exact absurd hd he
        | cons x l => rw [hd] at hl; simp [List.getLast?_cons] at hl
      | some e =>
        simp only []
        unfold resNew rowOf
        rw [res_compact_val ct σ h a c off hoff e hl]
        have hhead : ((entriesOf ((σ.deltas.take off).map resMods) (a, c)).head?.map (·.ctype)).getD .asset = ct c := by
          cases hd : entriesOf ((σ.deltas.take off).map resMods) (a, c) with
          | nil => exact absurd hd he
          | cons x l =>
            simp only [List.head?_cons, Option.map_some, Option.getD_some]
            exact entries_head_ctype ct σ h a c off x (by rw [hd]; simp)
        simp only [hhead]
  refine ⟨res, hf, hval, ?_, ?_⟩
  · intro p hp
    simp only [List.mem_map] at hp
    obtain ⟨⟨k, es⟩, hmem, rfl⟩ := hp
    simp only []
    rw [hget k, get_of_mem_nodup hn hmem]
  · intro k hne
    cases hc : AMap.get cR k with
    | none => rw [hget k, hc] at hne; exact absurd rfl hne
    | some es =>
      exact ⟨resNew es, by simp only [List.mem_map]; exact ⟨(k, es), get_some_mem hc, rfl⟩⟩

/-! ### boxes -/

/-- the DB half of kvStep -/
def kvWrite (db : AMap Key Bytes) (p : Key × List KvMod) : AMap Key Bytes :=
  match (p.2.getLast?.map (·.data)).getD none with
  | some v => if (p.2.head?.map (·.old)).getD none = some v then db else AMap.set db p.1 v
  | none => if ((p.2.head?.map (·.old)).getD none).isNone then db else AMap.del db p.1

/-- the cache half of kvStep -/
def kvUpd (p : Key × List KvMod) : Option (Key × Option Bytes) :=
  match (p.2.getLast?.map (·.data)).getD none with
  | some v => if (p.2.head?.map (·.old)).getD none = some v then none else some (p.1, some v)
  | none => if ((p.2.head?.map (·.old)).getD none).isNone then none else some (p.1, none)

theorem kvStep_split (acc : AMap Key Bytes × List (Key × Option Bytes)) (p : Key × List KvMod) :
    kvStep acc p = (kvWrite acc.1 p, acc.2 ++ (kvUpd p).toList) := by
  unfold kvStep kvWrite kvUpd
  cases (p.2.getLast?.map (·.data)).getD none with
  | some v => simp only []; split <;> simp
  | none => simp only []; split <;> simp

theorem kvFold_split (l : AMap Key (List KvMod)) (acc : AMap Key Bytes × List (Key × Option Bytes)) :
    l.foldl kvStep acc = (l.foldl kvWrite acc.1, acc.2 ++ l.filterMap kvUpd) := by
  induction l generalizing acc with
  | nil => simp
  | cons p t ih =>
    simp only [List.foldl_cons, List.filterMap_cons]
    rw [kvStep_split, ih]
    cases kvUpd p <;> simp

theorem exceptFold_ok {α β : Type} (f : β → α → β) (l : List α) (b : β) :
    exceptFold (fun b x => .ok (f b x)) l b = .ok (l.foldl f b) := by
  induction l generalizing b with
  | nil => rfl
  | cons x t ih => simp only [exceptFold, List.foldl_cons]; exact ih _

theorem kvMods_mem (d : Delta) (k : Key) (m : KvMod) (h : AMap.get (kvMods d) k = some m) : m ∈ d.kvs ∧ m.key = k := by
  have := get_some_mem h
  unfold kvMods at this
  simp only [List.mem_map] at this
  obtain ⟨m', hm', he⟩ := this
  simp only [Prod.mk.injEq] at he
  obtain ⟨he1, he2⟩ := he
  subst he2
  exact ⟨hm', he1⟩

/-- OldData of the first modification in the flushed span is the row the DB holds -/
theorem kv_first_old (ct : Cidx → CType) (σ : State) (h : Inv ct σ) (off : Nat) (hoff : off ≤ σ.deltas.length) (k : Key) (m : KvMod)
    (hm : (entriesOf ((σ.deltas.take off).map kvMods) k).head? = some m) : m.old = AMap.get σ.db.kvs k := by
  obtain ⟨j, r, hj, hg, hnil⟩ := entriesOf_head_split _ k m hm
  rw [List.getElem?_map] at hj
  cases hd : (σ.deltas.take off)[j]? with
  | none => rw [hd] at hj; simp at hj
  | some d =>
    rw [hd] at hj; simp at hj; subst hj
    have hjlt : j < off ∧ σ.deltas[j]? = some d := by
      rw [List.getElem?_take] at hd
      split at hd
      · next hlt => exact ⟨hlt, hd⟩
      · simp at hd
    obtain ⟨hmem, hkey⟩ := kvMods_mem d k m hg
    have hold := h.wf.kvOld (σ.dbRound + j) d (h.delta_block j d hjlt.2) m hmem
    rw [hold, hkey, kvAt_split ct σ h k j (by omega), h.dbK k]
    have : (σ.deltas.take j).map kvMods = ((σ.deltas.take off).map kvMods).take j := by
      rw [← List.map_take, List.take_take, Nat.min_eq_left (by omega)]
    rw [this, hnil]
    rfl

theorem commitKvs_spec (ct : Cidx → CType) (σ : State) (h : Inv ct σ) (off : Nat) (hoff : off ≤ σ.deltas.length) :
    let r := (compact ((σ.deltas.take off).map (fun d => d.kvs.map (fun m => (m.key, m))))).foldl kvStep (σ.db.kvs, [])
    (∀ k, AMap.get r.1 k = kvAt σ.hist (σ.dbRound + off) k) ∧
    (∀ p ∈ r.2, p.2 = AMap.get r.1 p.1) ∧
    (∀ k, AMap.get r.1 k ≠ AMap.get σ.db.kvs k → ∃ v, (k, v) ∈ r.2) := by
  have hci := compact_inv ((σ.deltas.take off).map kvMods) (by
    intro r hr
    simp only [List.mem_map] at hr
    obtain ⟨d, hd, rfl⟩ := hr
    exact (h.deltas_wf d (List.mem_of_mem_take hd)).nodupK)
  change CompactInv (compact ((σ.deltas.take off).map (fun d => d.kvs.map (fun m => (m.key, m))))) _ at hci
  generalize compact ((σ.deltas.take off).map (fun d => d.kvs.map (fun m => (m.key, m)))) = cK at hci ⊢
  obtain ⟨hn, hg⟩ := hci
  simp only []
  rw [kvFold_split]
  simp only [List.nil_append]
  -- entries of a key in the compacted map
  have hes : ∀ k es, (k, es) ∈ cK → es = entriesOf ((σ.deltas.take off).map kvMods) k ∧ es ≠ [] := by
    intro k es hmem
    have := get_of_mem_nodup hn hmem
    rw [hg k] at this
    split at this
    · simp at this
    · next hne => simp only [Option.some.injEq] at this; exact ⟨this.symm, by rw [← this]; exact hne⟩
  -- the value every written key ends with
  have hlast : ∀ k es, (k, es) ∈ cK → ∀ m, AMap.get m k = AMap.get σ.db.kvs k →
      AMap.get (kvWrite m (k, es)) k = (es.getLast?.map (·.data)).getD none ∧ ∀ k', k ≠ k' → AMap.get (kvWrite m (k, es)) k' = AMap.get m k' := by
    intro k es hmem m hm
    obtain ⟨hes1, hes2⟩ := hes k es hmem
    have hold : (es.head?.map (·.old)).getD none = AMap.get σ.db.kvs k := by
      cases hh : es.head? with
      | none => cases es with | nil => exact absurd rfl hes2 | cons x l => simp at hh
      | some m0 => simp only [Option.map_some, Option.getD_some]; exact kv_first_old ct σ h off hoff k m0 (by rw [← hes1]; exact hh)
    unfold kvWrite
    simp only [hold]
    cases hdata : (es.getLast?.map (·.data)).getD none with
    | some v =>
      simp only []
      split
      · next heq => exact ⟨by rw [hm, heq], fun _ _ => rfl⟩
      · exact ⟨by rw [get_set]; simp, fun k' hk' => by rw [get_set]; simp [hk']⟩
    | none =>
      simp only []
      split
      · next heq =>
        refine ⟨by rw [hm]; simpa using heq, fun _ _ => rfl⟩
      · exact ⟨get_del_self _ _, fun k' hk' => get_del_ne _ _ _ hk'⟩
  obtain ⟨mF, hfF, hgetF⟩ := exceptFold_keys (fun m p => .ok (kvWrite m p)) (fun _ es => (es.getLast?.map (·.data)).getD none)
    σ.db.kvs cK hn (by
      intro m k es hmem hm
      exact ⟨_, rfl, (hlast k es hmem m hm).1, (hlast k es hmem m hm).2⟩)
  rw [exceptFold_ok] at hfF
  simp only [Except.ok.injEq] at hfF
  subst hfF
  have hval : ∀ k, AMap.get (cK.foldl kvWrite σ.db.kvs) k = kvAt σ.hist (σ.dbRound + off) k := by
    intro k
    rw [hgetF k, hg k, kvAt_split ct σ h k off hoff]
    by_cases he : entriesOf ((σ.deltas.take off).map kvMods) k = []
    · simp only [he, if_true, List.getLast?_nil]; exact h.dbK k
    · simp only [he, if_false]
      cases hl : (entriesOf ((σ.deltas.take off).map kvMods) k).getLast? with
      | none =>
        cases hd : entriesOf ((σ.deltas.take off).map kvMods) k with
        | nil => exact absurd hd he
        | cons x l => rw [hd] at hl; simp [List.getLast?_cons] at hl
      | some m => rfl
  refine ⟨hval, ?_, ?_⟩
  · intro p hp
    rw [List.mem_filterMap] at hp
    obtain ⟨⟨k, es⟩, hmem, hu⟩ := hp
    rw [hgetF p.1]
    unfold kvUpd at hu
    simp only [] at hu
    cases hdata : (es.getLast?.map (·.data)).getD none with
    | some v =>
      rw [hdata] at hu; simp only [] at hu
      split at hu
      · simp at hu
      · simp at hu; subst hu; simp only []; rw [get_of_mem_nodup hn hmem]; simp only [hdata]
    | none =>
      rw [hdata] at hu; simp only [] at hu
      split at hu
      · simp at hu
      · simp at hu; subst hu; simp only []; rw [get_of_mem_nodup hn hmem]; simp only [hdata]
  · intro k hne
    cases hc : AMap.get cK k with
    | none => rw [hgetF k, hc] at hne; exact absurd rfl hne
    | some es =>
      have hmem := get_some_mem hc
      obtain ⟨hes1, hes2⟩ := hes k es hmem
      have hold : (es.head?.map (·.old)).getD none = AMap.get σ.db.kvs k := by
        cases hh : es.head? with
        | none => cases es with | nil => exact absurd rfl hes2 | cons x l => simp at hh
        | some m0 => simp only [Option.map_some, Option.getD_some]; exact kv_first_old ct σ h off hoff k m0 (by rw [← hes1]; exact hh)
      rw [hgetF k, hc] at hne
      simp only [] at hne
      have hku : ∃ q, kvUpd (k, es) = some q ∧ q.1 = k := by
        unfold kvUpd
        simp only [hold]
        cases hdata : (es.getLast?.map (·.data)).getD none with
        | some v =>
          simp only []
          split
          · next heq => rw [hdata, heq] at hne; exact absurd rfl hne
          · exact ⟨_, rfl, rfl⟩
        | none =>
          simp only []
          split
          · next heq => rw [hdata] at hne; exfalso; apply hne; simp only [Option.isNone_iff_eq_none] at heq; exact heq.symm
          · exact ⟨_, rfl, rfl⟩
      obtain ⟨q, hq, hq1⟩ := hku
      refine ⟨q.2, ?_⟩
      rw [List.mem_filterMap]
      exact ⟨(k, es), hmem, by rw [hq, ← hq1]⟩

/-! ### creators -/

theorem creatorRaw_split (ct : Cidx → CType) (σ : State) (h : Inv ct σ) (c : Cidx) (off : Nat) (hoff : off ≤ σ.deltas.length) :
    creatorRaw σ.hist (σ.dbRound + off) c =
      match (entriesOf ((σ.deltas.take off).map creatMods) c).getLast? with
      | some m => if m.created then some m.creator else none
      | none => creatorRaw σ.hist σ.dbRound c := by
  rw [creatorRaw_eq, creatorRaw_eq, lastIn_mods ct σ h creatMods c _ hoff]
  cases (entriesOf ((σ.deltas.take off).map creatMods) c).getLast? <;> rfl

theorem commitCreat_spec (ct : Cidx → CType) (σ : State) (h : Inv ct σ) (off : Nat) (hoff : off ≤ σ.deltas.length) :
    ∃ creat, exceptFold creatStep (compact ((σ.deltas.take off).map (fun d => d.creat.map (fun m => (m.cidx, m))))) σ.db.creat = .ok creat ∧
      (∀ c, AMap.get creat c = (creatorRaw σ.hist (σ.dbRound + off) c).map (fun a => (ct c, a))) := by
  have hci := compact_inv ((σ.deltas.take off).map creatMods) (by
    intro r hr
    simp only [List.mem_map] at hr
    obtain ⟨d, hd, rfl⟩ := hr
    exact (h.deltas_wf d (List.mem_of_mem_take hd)).nodupC)
  change CompactInv (compact ((σ.deltas.take off).map (fun d => d.creat.map (fun m => (m.cidx, m))))) _ at hci
  generalize compact ((σ.deltas.take off).map (fun d => d.creat.map (fun m => (m.cidx, m)))) = cC at hci ⊢
  obtain ⟨hn, hg⟩ := hci
  have hes : ∀ c es, (c, es) ∈ cC → es = entriesOf ((σ.deltas.take off).map creatMods) c ∧ es ≠ [] := by
    intro c es hmem
    have := get_of_mem_nodup hn hmem
    rw [hg c] at this
    split at this
    · simp at this
    · next hne => simp only [Option.some.injEq] at this; exact ⟨this.symm, by rw [← this]; exact hne⟩
  obtain ⟨creat, hf, hget⟩ := exceptFold_keys creatStep
    (fun c es => match es.getLast? with | some m => (if m.created then some (ct c, m.creator) else none) | none => none)
    σ.db.creat cC hn (by
      intro m c es hmem hm
      obtain ⟨hes1, hes2⟩ := hes c es hmem
      cases hl : es.getLast? with
      | none => cases es with | nil => exact absurd rfl hes2 | cons x l => simp [List.getLast?_cons] at hl
      | some md =>
        -- where the last modification comes from
        obtain ⟨j, r, hj, hgr⟩ := entriesOf_last_index _ c md (by rw [← hes1]; exact hl)
        rw [List.getElem?_map] at hj
        cases hd : (σ.deltas.take off)[j]? with
        | none => rw [hd] at hj; simp at hj
        | some d =>
          rw [hd] at hj; simp at hj; subst hj
          have hjlt : j < off ∧ σ.deltas[j]? = some d := by
            rw [List.getElem?_take] at hd
            split at hd
            · next hlt => exact ⟨hlt, hd⟩
            · simp at hd
          obtain ⟨hmd, hmc⟩ := creatMods_mem d c md hgr
          have hct : md.ctype = ct c := by rw [← hmc]; exact (h.deltas_wf d (List.mem_of_getElem? hjlt.2)).ctC md hmd
          unfold creatStep
          simp only [hl]
          by_cases hcr : md.created = true
          · simp only [hcr, if_true]
            have hfresh := h.wf.creatFresh (σ.dbRound + j) d (h.delta_block j d hjlt.2) md hmd hcr
            rw [hmc] at hfresh
            unfold History.upTo at hfresh
            rw [lastIn_split _ σ.hist.blocks σ.deltas σ.dbRound j h.pre (by omega)] at hfresh
            have hnone : lastIn (fun d => d.creat? c) (σ.hist.blocks.take σ.dbRound) = none := by
              cases hw : walkBack (fun d => d.creat? c) σ.deltas j with
              | none => rw [hw] at hfresh; simpa using hfresh
              | some v => rw [hw] at hfresh; simp at hfresh
            have hdb0 : AMap.get σ.db.creat c = none := by
              rw [h.dbC c]; unfold creatorRaw History.upTo; rw [hnone]; rfl
            rw [hm, hdb0]
            simp only [Option.isSome_none, Bool.false_eq_true, if_false]
            exact ⟨_, rfl, by rw [get_set, hct]; simp, fun c' hc' => by rw [get_set]; simp [hc']⟩
          · simp only [hcr, Bool.false_eq_true, if_false]
            cases hrow : AMap.get m c with
            | none => exact ⟨m, rfl, hrow, fun _ _ => rfl⟩
            | some row =>
              have hrt : row.1 = md.ctype := by
                rw [hm, h.dbC c] at hrow
                cases hraw : creatorRaw σ.hist σ.dbRound c with
                | none => rw [hraw] at hrow; simp at hrow
                | some a => rw [hraw] at hrow; simp at hrow; rw [← hrow, hct]
              simp only [hrt, if_true]
              exact ⟨_, rfl, get_del_self _ _, fun c' hc' => get_del_ne _ _ _ hc'⟩)
  refine ⟨creat, hf, fun c => ?_⟩
  rw [hget c, hg c, creatorRaw_split ct σ h c off hoff]
  by_cases he : entriesOf ((σ.deltas.take off).map creatMods) c = []
  · simp only [he, if_true, List.getLast?_nil]; exact h.dbC c
  · simp only [he, if_false]
    cases hl : (entriesOf ((σ.deltas.take off).map creatMods) c).getLast? with
    | none =>
      cases hd : entriesOf ((σ.deltas.take off).map creatMods) c with
      | nil => exact absurd hd he
      | cons x l => rw [hd] at hl; simp [List.getLast?_cons] at hl
    | some m =>
      simp only []
      by_cases hcr : m.created = true <;> simp [hcr]

end AlgoVerif.Lemmas.AcctUpdates
