/-
Lemmas.LedgerCoreMinBal — the min-balance post-condition (C21): what `checkMinBalance` establishes, that it holds for the
child after every transaction of a group, and the closed form of the regenerated `basics.MinBalance` on this model's accounts.
-/
import AlgoVerif.Lemmas.LedgerCoreGroup
import AlgoVerif.Props.C45
namespace AlgoVerif.Lemmas.LedgerCore
open AlgoVerif.Model.LedgerCore

/-- the post-condition of `checkMinBalance` for one account -/
def MinBalOK (P : Params) (d : Account) : Prop :=
  d = Account.zero ∨ (minBalance P d ≤ balWP P d ∧ (P.maxMinBalance ≠ 0 → minBalance P d ≤ P.maxMinBalance))

/-- every non-exempt account in the layer's deltas satisfies it -/
def Checked (P : Params) (x : Ctx) (l : Layer) : Prop :=
  ∀ a ∈ modified l, exempt P a = false → MinBalOK P (acctOf x l a)

theorem minBalance_withRewards {P : Params} {d d' : Account} (h : withRewards P d = .ok d') : minBalance P d' = minBalance P d := by
  unfold minBalance; rw [(withRewards_ok h).2.2.2.1]

theorem checkOne_ok {P : Params} {x : Ctx} {l : Layer} {a : Addr} (h : checkOne P x l a = .ok ()) (he : exempt P a = false) :
    MinBalOK P (acctOf x l a) := by
  unfold checkOne at h
  rw [he] at h
  simp only [Bool.false_eq_true, if_false] at h
  split at h
  · rename_i hz
    exact Or.inl (by simpa [Account.isZero] using hz)
  · split at h
    · cases h
    · rename_i d' hw
      split at h
      · cases h
      · rename_i hlt
        split at h
        · cases h
        · rename_i hmax
          refine Or.inr ⟨?_, ?_⟩
          · rw [← minBalance_withRewards hw, ← (withRewards_ok hw).1]; omega
          · intro hne
            rw [← minBalance_withRewards hw]
            by_cases hgt : P.maxMinBalance < minBalance P d'
            · exact absurd ⟨hne, hgt⟩ hmax
            · omega

theorem checkAll_ok {P : Params} {x : Ctx} {l : Layer} : ∀ (as : List Addr), checkAll P x l as = .ok () →
    ∀ a ∈ as, exempt P a = false → MinBalOK P (acctOf x l a) := by
  intro as
  induction as with
  | nil => intro _ a ha; cases ha
  | cons b r ih =>
    intro h a ha he
    unfold checkAll at h
    split at h
    · cases h
    · rename_i hb
      rcases List.mem_cons.mp ha with e | e
      · subst e; exact checkOne_ok hb he
      · exact ih h a e he

/-- after every accepted transaction the whole cumulative modified set of the child has been checked -/
theorem evalTxn_checked {P : Params} {x : Ctx} {l l' : Layer} {g : List Txn} {t : Txn}
    (h : evalTxn P x l g t = .ok l') : Checked P x l' := by
  unfold evalTxn at h
  split at h
  · cases h
  · split at h
    · cases h
    · split at h
      · cases h
      · rename_i l1 h1
        split at h
        · cases h
        · rename_i hc
          cases h
          intro a ha he
          exact checkAll_ok _ hc a ha he

theorem groupLoop_checked {P : Params} {x : Ctx} {g : List Txn} {g0 : Nat} :
    ∀ (ts : List Txn) (used i : Nat) (l l' : Layer), Checked P x l → groupLoop P x g g0 used i l ts = .ok l' → Checked P x l' := by
  intro ts
  induction ts with
  | nil => intro used i l l' hl h; cases h; exact hl
  | cons t r ih =>
    intro used i l l' _ h
    unfold groupLoop at h
    split at h
    · cases h
    · rename_i l1 h1
      split at h
      · cases h
      · split at h
        · cases h
        · split at h
          · cases h
          · exact ih _ _ _ _ (evalTxn_checked h1) h

theorem evalGroupChild_checked {P : Params} {x : Ctx} {top child : Layer} {used : Nat} {g : List Txn}
    (h : evalGroupChild P x top used g = .ok child) : Checked P (childCtx x top) child := by
  unfold evalGroupChild at h
  split at h
  · cases h
  · split at h
    · cases h
    · split at h
      · cases h
      · rename_i c hc
        split at h
        · cases h
        · split at h
          · cases h
          · cases h
            exact groupLoop_checked _ _ _ _ _ (fun a ha => by simp [modified] at ha) hc

/-- an account that is not in the child's deltas is read from the parent -/
theorem acctOf_not_modified (x : Ctx) (top child : Layer) (a : Addr) (h : a ∉ modified child) :
    acctOf (childCtx x top) child a = acctOf x top a := by
  have : alookup a child.accts = none := alookup_none_of_not_mem (by simpa [modified, keys] using h)
  simp [acctOf, childCtx, lookupAcct, this]

/-! ## closed form of the regenerated MinBalance for accounts without applications and boxes -/

open Gen.Basics Gen.Fees in
theorem minBalance_closed (reqs : basics_BalanceRequirements) (ta : Nat)
    (h1 : reqs.MinBalance < 2^64) (h2 : reqs.AppFlatParamsMinBalance < 2^64) (h3 : reqs.AppFlatOptInMinBalance < 2^64)
    (h4 : reqs.BoxFlatMinBalance < 2^64) (h5 : reqs.BoxByteMinBalance < 2^64) (h6 : reqs.SchemaMinBalancePerEntry < 2^64)
    (h7 : reqs.SchemaUintMinBalance < 2^64) (h8 : reqs.SchemaBytesMinBalance < 2^64) (hta : ta < 2^64) :
    MinBalance reqs ta ⟨0, 0⟩ 0 0 0 0 0 = min (reqs.MinBalance * (1 + ta)) (2^64 - 1) := by
  have z : (0 : Nat) < 2^64 := by decide
  have hm : ∀ a, a < 2^64 → MulSaturate 64 a 0 = 0 := fun a ha => by rw [Props.C45.mulsat_exact 64 a 0 ha z]; simp
  have ha0 : ∀ a, a < 2^64 → AddSaturate 64 a 0 = a := fun a ha => by
    rw [Props.C45.addsat_exact 64 a 0 ha z]; omega
  have hschema : StateSchema_MinBalance ⟨0, 0⟩ reqs = 0 := by
    unfold StateSchema_MinBalance StateSchema_NumEntries
    simp only
    rw [ha0 0 z, hm _ h6, hm _ h7, hm _ h8, ha0 0 z, ha0 0 z]
  unfold MinBalance
  simp only
  rw [hschema, hm _ h2, hm _ h3, hm _ h4, hm _ h5]
  rw [Props.C45.mulsat_exact 64 _ ta h1 hta]
  have hb : min (reqs.MinBalance * ta) (2^64 - 1) < 2^64 := by omega
  rw [Props.C45.addsat_exact 64 _ _ h1 hb]
  have hc : min (reqs.MinBalance + min (reqs.MinBalance * ta) (2^64 - 1)) (2^64 - 1) < 2^64 := by omega
  rw [ha0 _ hc, ha0 _ hc, ha0 _ hc, ha0 _ hc, ha0 _ hc, ha0 _ hc]
  have : reqs.MinBalance * (1 + ta) = reqs.MinBalance + reqs.MinBalance * ta := by
    rw [Nat.mul_add, Nat.mul_one]
  rw [this]
  omega

end AlgoVerif.Lemmas.LedgerCore
