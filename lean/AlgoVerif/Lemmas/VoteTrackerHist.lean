import AlgoVerif.Spec.VoteTracker
/-! Lemmas about the declarative history spec: how `firsts`, `IsEquiv`, `regular`, `equivs` evolve when one
vote is appended. -/
namespace AlgoVerif.Lemmas.VoteTracker
open AlgoVerif.Model.VoteTracker AlgoVerif.Spec.VoteTracker

/-- `s` has a vote in `vs` -/
def Seen (vs : List Vote) (s : Nat) : Prop := ∃ a ∈ vs, a.sender = s

instance (vs : List Vote) (s : Nat) : Decidable (Seen vs s) := by
  unfold Seen; infer_instance

theorem wsum_nil : wsum [] = 0 := rfl
theorem wsum_cons (a : Vote) (l : List Vote) : wsum (a :: l) = a.weight + wsum l := by
  simp [wsum]
theorem wsum_append (l₁ l₂ : List Vote) : wsum (l₁ ++ l₂) = wsum l₁ + wsum l₂ := by
  simp [wsum, List.sum_append]

theorem wsum_filter_split (p : Vote → Bool) (l : List Vote) :
    wsum l = wsum (l.filter p) + wsum (l.filter (fun a => !p a)) := by
  induction l with
  | nil => rfl
  | cons a l ih =>
    by_cases h : p a = true
    · simp [h, wsum_cons, ih]; omega
    · simp [h, wsum_cons, ih]; omega

theorem wsum_filter_le (p : Vote → Bool) (l : List Vote) : wsum (l.filter p) ≤ wsum l := by
  have := wsum_filter_split p l; omega

theorem wsum_eq_zero_of_pos {l : List Vote} (hpos : ∀ a ∈ l, 0 < a.weight) (h : wsum l = 0) : l = [] := by
  cases l with
  | nil => rfl
  | cons a l =>
    have := hpos a (by simp)
    rw [wsum_cons] at h; omega

/-! ### firsts -/

theorem mem_firsts_iff (vs : List Vote) (b : Vote) :
    b ∈ firsts vs ↔ vs.find? (fun y => y.sender == b.sender) = some b := by
  induction vs with
  | nil => simp [firsts]
  | cons x xs ih =>
    simp only [firsts, List.mem_cons, List.mem_filter, List.find?_cons]
    by_cases h : x.sender = b.sender
    · have h' : (x.sender == b.sender) = true := by simp [h]
      simp only [h']
      constructor
      · rintro (rfl | ⟨_, h2⟩)
        · rfl
        · simp [h] at h2
      · intro h3
        left
        exact (Option.some.inj h3).symm
    · have h' : (x.sender == b.sender) = false := by simp [h]
      simp only [h']
      constructor
      · rintro (rfl | ⟨h1, _⟩)
        · exact absurd rfl h
        · exact ih.mp h1
      · intro h3
        right
        refine ⟨ih.mpr h3, ?_⟩
        simp; exact fun h4 => h h4.symm

theorem mem_of_mem_firsts {vs : List Vote} {b : Vote} (h : b ∈ firsts vs) : b ∈ vs :=
  List.mem_of_find?_eq_some ((mem_firsts_iff vs b).mp h)

/-- two first votes of the same sender are the same vote -/
theorem firsts_inj {vs : List Vote} {a b : Vote} (ha : a ∈ firsts vs) (hb : b ∈ firsts vs)
    (h : a.sender = b.sender) : a = b := by
  have h1 := (mem_firsts_iff vs a).mp ha
  have h2 := (mem_firsts_iff vs b).mp hb
  rw [h] at h1
  rw [h1] at h2
  exact Option.some.inj h2

theorem seen_iff_firsts (vs : List Vote) (s : Nat) : Seen vs s ↔ ∃ b ∈ firsts vs, b.sender = s := by
  constructor
  · rintro ⟨a, ha, rfl⟩
    cases hf : vs.find? (fun y => y.sender == a.sender) with
    | none =>
      have := List.find?_eq_none.mp hf a ha
      simp at this
    | some b =>
      have hs := List.find?_some hf
      simp at hs
      refine ⟨b, ?_, hs⟩
      rw [mem_firsts_iff, hs]; exact hf
  · rintro ⟨b, hb, rfl⟩
    exact ⟨b, mem_of_mem_firsts hb, rfl⟩

theorem firsts_nodup (vs : List Vote) : ((firsts vs).map Vote.sender).Nodup := by
  induction vs with
  | nil => simp [firsts]
  | cons x xs ih =>
    simp only [firsts, List.map_cons, List.nodup_cons]
    constructor
    · simp only [List.mem_map, List.mem_filter]
      rintro ⟨a, ⟨_, h2⟩, h3⟩
      simp [h3] at h2
    · have : ((firsts xs).filter (fun y => y.sender != x.sender)).Sublist (firsts xs) := List.filter_sublist
      exact (this.map Vote.sender).nodup ih

theorem firsts_snoc (vs : List Vote) (x : Vote) :
    firsts (vs ++ [x]) = if Seen vs x.sender then firsts vs else firsts vs ++ [x] := by
  induction vs with
  | nil => simp [firsts, Seen]
  | cons a vs ih =>
    simp only [List.cons_append, firsts, ih]
    by_cases h1 : Seen vs x.sender
    · have : Seen (a :: vs) x.sender := by
        obtain ⟨b, hb, hs⟩ := h1; exact ⟨b, List.mem_cons_of_mem _ hb, hs⟩
      simp [h1, this]
    · by_cases h2 : a.sender = x.sender
      · have : Seen (a :: vs) x.sender := ⟨a, by simp, h2⟩
        simp [h1, this, List.filter_append, h2]
      · have : ¬ Seen (a :: vs) x.sender := by
          rintro ⟨b, hb, hs⟩
          rcases List.mem_cons.mp hb with rfl | hb
          · exact h2 hs
          · exact h1 ⟨b, hb, hs⟩
        have h3 : (x.sender != a.sender) = true := by simp; exact fun h => h2 h.symm
        simp [h1, this, List.filter_append, h3]

/-! ### IsEquiv -/

theorem isEquiv_seen {vs : List Vote} {s : Nat} (h : IsEquiv vs s) : Seen vs s := by
  obtain ⟨a, ha, _, _, hs, _, _⟩ := h; exact ⟨a, ha, hs⟩

theorem isEquiv_snoc (vs : List Vote) (x : Vote) (s : Nat) :
    IsEquiv (vs ++ [x]) s ↔ IsEquiv vs s ∨ (x.sender = s ∧ ∃ a ∈ vs, a.sender = s ∧ a.value ≠ x.value) := by
  constructor
  · rintro ⟨a, ha, b, hb, hsa, hsb, hv⟩
    simp only [List.mem_append, List.mem_singleton] at ha hb
    rcases ha with ha | ha
    · rcases hb with hb | hb
      · exact Or.inl ⟨a, ha, b, hb, hsa, hsb, hv⟩
      · subst hb
        exact Or.inr ⟨hsb, a, ha, hsa, hv⟩
    · rcases hb with hb | hb
      · subst ha
        exact Or.inr ⟨hsa, b, hb, hsb, fun h => hv h.symm⟩
      · subst ha; subst hb; exact absurd rfl hv
  · rintro (⟨a, ha, b, hb, h⟩ | ⟨hx, a, ha, hsa, hv⟩)
    · exact ⟨a, List.mem_append_left _ ha, b, List.mem_append_left _ hb, h⟩
    · exact ⟨a, List.mem_append_left _ ha, x, by simp, hsa, hx, hv⟩

theorem isEquiv_snoc_other (vs : List Vote) (x : Vote) (s : Nat) (h : s ≠ x.sender) :
    IsEquiv (vs ++ [x]) s ↔ IsEquiv vs s := by
  rw [isEquiv_snoc]
  constructor
  · rintro (h1 | ⟨h2, _⟩)
    · exact h1
    · exact absurd h2.symm h
  · exact Or.inl

/-- a non-equivocating sender's votes all carry the value of its first vote -/
theorem value_eq_first {vs : List Vote} {old a : Vote} (hold : old ∈ firsts vs) (ha : a ∈ vs)
    (hs : a.sender = old.sender) (hne : ¬ IsEquiv vs old.sender) : a.value = old.value := by
  by_cases h : a.value = old.value
  · exact h
  · exact absurd ⟨a, ha, old, mem_of_mem_firsts hold, hs, rfl, h⟩ hne

/-! ### the four cases of appending a vote -/

/-- (E) the sender already equivocated: nothing changes -/
theorem snoc_equiv {vs : List Vote} {x : Vote} (h : IsEquiv vs x.sender) :
    firsts (vs ++ [x]) = firsts vs ∧ ∀ s, IsEquiv (vs ++ [x]) s ↔ IsEquiv vs s := by
  refine ⟨by rw [firsts_snoc, if_pos (isEquiv_seen h)], fun s => ?_⟩
  rw [isEquiv_snoc]
  constructor
  · rintro (h1 | ⟨h2, _⟩)
    · exact h1
    · exact h2 ▸ h
  · exact Or.inl

/-- (N) a new sender: its vote is appended to the first votes, nobody becomes an equivocator -/
theorem snoc_new {vs : List Vote} {x : Vote} (h : ¬ Seen vs x.sender) :
    firsts (vs ++ [x]) = firsts vs ++ [x] ∧ ∀ s, IsEquiv (vs ++ [x]) s ↔ IsEquiv vs s := by
  refine ⟨by rw [firsts_snoc, if_neg h], fun s => ?_⟩
  rw [isEquiv_snoc]
  constructor
  · rintro (h1 | ⟨h2, a, ha, hsa, _⟩)
    · exact h1
    · exact absurd ⟨a, ha, hsa.trans h2.symm⟩ h
  · exact Or.inl

/-- (D) a duplicate of a regular sender's value: nothing changes -/
theorem snoc_dup {vs : List Vote} {x old : Vote} (hold : old ∈ firsts vs) (hs : old.sender = x.sender)
    (hne : ¬ IsEquiv vs x.sender) (hv : old.value = x.value) :
    firsts (vs ++ [x]) = firsts vs ∧ ∀ s, IsEquiv (vs ++ [x]) s ↔ IsEquiv vs s := by
  refine ⟨by rw [firsts_snoc, if_pos ⟨old, mem_of_mem_firsts hold, hs⟩], fun s => ?_⟩
  rw [isEquiv_snoc]
  constructor
  · rintro (h1 | ⟨h2, a, ha, hsa, hva⟩)
    · exact h1
    · exfalso
      apply hva
      rw [← hv]
      exact value_eq_first hold ha (by rw [hsa, ← h2, hs]) (by rw [hs]; exact hne)
  · exact Or.inl

/-- (Q) a regular sender votes for a different value: it becomes the only new equivocator -/
theorem snoc_equivocate {vs : List Vote} {x old : Vote} (hold : old ∈ firsts vs) (hs : old.sender = x.sender)
    (hv : old.value ≠ x.value) :
    firsts (vs ++ [x]) = firsts vs ∧ ∀ s, IsEquiv (vs ++ [x]) s ↔ (IsEquiv vs s ∨ s = x.sender) := by
  refine ⟨by rw [firsts_snoc, if_pos ⟨old, mem_of_mem_firsts hold, hs⟩], fun s => ?_⟩
  rw [isEquiv_snoc]
  constructor
  · rintro (h1 | ⟨h2, _⟩)
    · exact Or.inl h1
    · exact Or.inr h2.symm
  · rintro (h1 | h2)
    · exact Or.inl h1
    · exact Or.inr ⟨h2.symm, old, mem_of_mem_firsts hold, hs.trans h2.symm, hv⟩

end AlgoVerif.Lemmas.VoteTracker

namespace AlgoVerif.Lemmas.VoteTracker
open AlgoVerif.Model.VoteTracker AlgoVerif.Spec.VoteTracker

/-! ### regular / equivs under the four cases -/

theorem filter_congr' {α : Type} {p q : α → Bool} {l : List α} (h : ∀ a ∈ l, p a = q a) :
    l.filter p = l.filter q := by
  induction l with
  | nil => rfl
  | cons a l ih =>
    have ha := h a (by simp)
    have := ih (fun b hb => h b (List.mem_cons_of_mem _ hb))
    simp [List.filter_cons, ha, this]

theorem spec_same {vs vs' : List Vote} (hf : firsts vs' = firsts vs) (he : ∀ s, IsEquiv vs' s ↔ IsEquiv vs s) :
    regular vs' = regular vs ∧ equivs vs' = equivs vs := by
  unfold regular equivs
  rw [hf]
  constructor
  · apply filter_congr'; intro a _; simp [he a.sender]
  · apply filter_congr'; intro a _; simp [he a.sender]

theorem regular_snoc_new {vs : List Vote} {x : Vote} (h : ¬ Seen vs x.sender) :
    regular (vs ++ [x]) = regular vs ++ [x] ∧ equivs (vs ++ [x]) = equivs vs := by
  obtain ⟨hf, he⟩ := snoc_new h
  have hx : ¬ IsEquiv vs x.sender := fun h' => h (isEquiv_seen h')
  unfold regular equivs
  rw [hf, List.filter_append, List.filter_append]
  constructor
  · congr 1
    · apply filter_congr'; intro a _; simp [he a.sender]
    · simp [he x.sender, hx]
  · have : List.filter (fun a => decide (IsEquiv (vs ++ [x]) a.sender)) [x] = [] := by
      simp [he x.sender, hx]
    rw [this, List.append_nil]
    apply filter_congr'; intro a _; simp [he a.sender]

theorem filter_sender_singleton {l : List Vote} {old : Vote} (hnd : (l.map Vote.sender).Nodup) (hold : old ∈ l)
    (s : Nat) (hs : old.sender = s) : l.filter (fun a => a.sender == s) = [old] := by
  induction l with
  | nil => cases hold
  | cons b l ih =>
    simp only [List.map_cons, List.nodup_cons] at hnd
    rcases List.mem_cons.mp hold with rfl | hmem
    · have : l.filter (fun a => a.sender == s) = [] := by
        rw [List.filter_eq_nil_iff]; intro a ha h3
        simp at h3
        exact hnd.1 (List.mem_map.mpr ⟨a, ha, h3.trans hs.symm⟩)
      simp [hs, this]
    · have hb : b.sender ≠ s := by
        intro h3
        exact hnd.1 (List.mem_map.mpr ⟨old, hmem, hs.trans h3.symm⟩)
      simp [hb, ih hnd.2 hmem]

theorem regular_snoc_equivocate {vs : List Vote} {x old : Vote} (hold : old ∈ firsts vs) (hs : old.sender = x.sender)
    (hne : ¬ IsEquiv vs x.sender) (hv : old.value ≠ x.value) :
    regular (vs ++ [x]) = (regular vs).filter (fun y => y.sender != x.sender) ∧
    eqWeight (vs ++ [x]) = eqWeight vs + old.weight := by
  obtain ⟨hf, he⟩ := snoc_equivocate hold hs hv
  have hex : IsEquiv (vs ++ [x]) x.sender := (he _).mpr (Or.inr rfl)
  constructor
  · unfold regular
    rw [hf, List.filter_filter]
    apply filter_congr'; intro a _
    by_cases h1 : IsEquiv vs a.sender <;> by_cases h2 : a.sender = x.sender <;> simp [he a.sender, h1, h2, hex]
  · unfold eqWeight equivs
    rw [hf]
    -- split the new filter by "sender = x.sender"
    have hsplit := wsum_filter_split (fun a => a.sender == x.sender)
      ((firsts vs).filter (fun a => decide (IsEquiv (vs ++ [x]) a.sender)))
    rw [List.filter_filter, List.filter_filter] at hsplit
    have h1 : (firsts vs).filter (fun a => (a.sender == x.sender) && decide (IsEquiv (vs ++ [x]) a.sender)) = [old] := by
      have : (firsts vs).filter (fun a => (a.sender == x.sender) && decide (IsEquiv (vs ++ [x]) a.sender))
           = (firsts vs).filter (fun a => a.sender == x.sender) := by
        apply filter_congr'; intro a _
        by_cases h2 : a.sender = x.sender <;> simp [he a.sender, h2, hex]
      rw [this]
      exact filter_sender_singleton (firsts_nodup vs) hold _ hs
    have h2 : (firsts vs).filter (fun a => (!(a.sender == x.sender)) && decide (IsEquiv (vs ++ [x]) a.sender))
            = (firsts vs).filter (fun a => decide (IsEquiv vs a.sender)) := by
      apply filter_congr'; intro a _
      by_cases h1 : IsEquiv vs a.sender <;> by_cases h2 : a.sender = x.sender
      · exact absurd (h2 ▸ h1) hne
      · simp [he a.sender, h1, h2]
      · simp [h2, hne]
      · simp [he a.sender, h1, h2]
    rw [h1, h2] at hsplit
    rw [hsplit, wsum_cons, wsum_nil]; omega

theorem regular_sub_firsts {vs : List Vote} {a : Vote} (h : a ∈ regular vs) : a ∈ firsts vs ∧ ¬ IsEquiv vs a.sender := by
  unfold regular at h
  simpa using h

theorem mem_regular_iff {vs : List Vote} {a : Vote} : a ∈ regular vs ↔ a ∈ firsts vs ∧ ¬ IsEquiv vs a.sender := by
  unfold regular; simp

theorem regular_nodup (vs : List Vote) : ((regular vs).map Vote.sender).Nodup := by
  have : (regular vs).Sublist (firsts vs) := List.filter_sublist
  exact (this.map Vote.sender).nodup (firsts_nodup vs)

theorem total_split (vs : List Vote) : totalWeight vs = wsum (regular vs) + eqWeight vs := by
  unfold totalWeight eqWeight regular equivs
  have := wsum_filter_split (fun a => decide (IsEquiv vs a.sender)) (firsts vs)
  omega

/-- a seen sender that did not equivocate has its first vote among the regular votes -/
theorem seen_regular {vs : List Vote} {s : Nat} (h : Seen vs s) (hne : ¬ IsEquiv vs s) :
    ∃ old ∈ regular vs, old.sender = s := by
  obtain ⟨b, hb, hs⟩ := (seen_iff_firsts vs s).mp h
  exact ⟨b, mem_regular_iff.mpr ⟨hb, hs ▸ hne⟩, hs⟩

end AlgoVerif.Lemmas.VoteTracker
