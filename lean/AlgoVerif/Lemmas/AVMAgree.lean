/-
Lemmas for `check_eval_agree` (Props/C31): classification of the modelled op bodies by how they move the pc (`ctl`), the
row consistency predicate `specWF`, what each class does to nextpc and call stack (`execK_ctl`), and preservation of the
run invariant `J` (pc and every return address are instruction starts recorded by check, or the end of the program).
-/
import AlgoVerif.Model.AVM
import AlgoVerif.Lemmas.AVM
import AlgoVerif.Lemmas.AVMCheck
namespace Lemmas.AVMAgree
open Model.OpTables Model.AVM Lemmas.AVM Lemmas.AVMCheck

inductive Ctl
  | plain | ret | retsub | dyn (k : Nat) | br2 | brV | sw
  deriving DecidableEq, Repr

/-- how an op body of the modelled family moves the pc -/
def ctl : OpK → Ctl
  | .ret => .ret
  | .retsub => .retsub
  | .intcblock => .dyn 5 | .pushints => .dyn 5
  | .bytecblock => .dyn 6 | .pushbytess => .dyn 6
  | .pushbytes => .dyn 4
  | .pushint => .dyn 3
  | .bnz => .brV | .bz => .brV | .b => .brV | .callsub => .brV
  | .bnz2 => .br2 | .bz2 => .br2 | .b2 => .br2 | .callsub2 => .br2
  | .switch => .sw | .match_ => .sw
  | _ => .plain

/-- consistency of a table row: the check function it carries (recognised by its dynamic immediate) is the one that
    belongs to its evalFunc; ops that never move the pc have none -/
def specWFk (s : Spec) : Option OpK → Bool
  | none => !s.hasCheck
  | some k =>
    match ctl k with
    | .plain => !s.hasCheck
    | .ret => !s.hasCheck
    | .retsub => !s.hasCheck
    | .dyn n => s.hasCheck && checkKind s == some n
    | .br2 => s.hasCheck && checkKind s == some 2 && s.size == 3
    | .brV => s.hasCheck && checkKind s == some 8
    | .sw => s.hasCheck && checkKind s == some 7

def specWF (s : Spec) : Bool := specWFk s (opKind s.fn)

/-- where the body of an op of a given class can send the pc, and what it does to the call stack -/
def NextOk (cx : Ctx) (m m' : Mach) : Ctl → Prop
  | .plain => m'.nextpc = m.nextpc ∧ ∀ f ∈ m'.callstack, ∃ f' ∈ m.callstack, f'.retpc = f.retpc
  | .ret => m'.nextpc = cx.prog.length ∧ m'.callstack = m.callstack
  | .retsub => ∃ top rest, m.callstack = top :: rest ∧ m'.callstack = rest ∧ m'.nextpc = top.retpc
  | .dyn 5 => (∃ r, parseIntImmArgs cx.prog (cx.pc + 1) = .ok (r, m'.nextpc)) ∧ m'.callstack = m.callstack
  | .dyn 6 => (∃ r, byteImmArgs cx.cfg cx.prog cx.pc = .ok (r, m'.nextpc)) ∧ m'.callstack = m.callstack
  | .dyn 4 => (∃ r, pushBytesImm cx.prog cx.pc = .ok (r, m'.nextpc)) ∧ m'.callstack = m.callstack
  | .dyn 3 => (∃ r, pushIntImm cx.prog cx.pc = .ok (r, m'.nextpc)) ∧ m'.callstack = m.callstack
  | .dyn _ => False
  | .brV => ∃ t sz, branchTargetVarint cx.prog cx.pc = .ok (t, sz) ∧ (m'.nextpc = t ∨ m'.nextpc = cx.pc + sz) ∧
      ∀ f ∈ m'.callstack, f ∈ m.callstack ∨ f.retpc = cx.pc + sz
  | .br2 => (m'.nextpc = cx.pc + 3 ∨ ∃ t, branchTarget cx.cfg.lim cx.prog cx.pc cx.v = .ok t ∧ m'.nextpc = t) ∧
      ∀ f ∈ m'.callstack, f ∈ m.callstack ∨ f.retpc = cx.pc + 3
  | .sw => (∃ idx t, switchTarget cx.prog cx.pc idx = .ok t ∧ m'.nextpc = t) ∧ m'.callstack = m.callstack

set_option maxHeartbeats 1000000 in
theorem execK_plain {k : OpK} {cx : Ctx} {m m' : Mach} (hk : ctl k = .plain) (h : execK k cx m = .ok m') :
    m'.nextpc = m.nextpc ∧ ∀ f ∈ m'.callstack, ∃ f' ∈ m.callstack, f'.retpc = f.retpc := by
  cases k <;> simp only [ctl] at hk <;> (try cases hk)
  all_goals (
    simp only [execK, pushIntc, pushBytec, pushArg] at h
    repeat' split at h
    all_goals first
      | (injection h with h; subst h; exact ⟨rfl, fun f hf => ⟨f, hf, rfl⟩⟩)
      | (cases h; done)
      | skip)
  -- proto rewrites the top frame, keeping its retpc
  rename_i top rest hcs
  injection h with h; subst h
  refine ⟨rfl, ?_⟩
  intro f hf
  simp only [List.mem_cons] at hf
  rcases hf with hf | hf
  · subst hf; exact ⟨top, by rw [hcs]; exact List.mem_cons_self, rfl⟩
  · exact ⟨f, by rw [hcs]; exact List.mem_cons_of_mem _ hf, rfl⟩

theorem execK_ctl {k : OpK} {cx : Ctx} {m m' : Mach} (h : execK k cx m = .ok m') : NextOk cx m m' (ctl k) := by
  cases hc : ctl k with
  | plain => exact execK_plain hc h
  | ret =>
    cases k <;> simp only [ctl] at hc <;> (try cases hc)
    simp only [execK] at h
    split at h
    · injection h with h; subst h; exact ⟨rfl, rfl⟩
    · cases h
  | retsub =>
    cases k <;> simp only [ctl] at hc <;> (try cases hc)
    simp only [execK] at h
    split at h
    · cases h
    · rename_i top rest hcs
      split at h
      · split at h
        · cases h
        · split at h
          · cases h
          · injection h with h; subst h; exact ⟨top, rest, hcs, rfl, rfl⟩
      · injection h with h; subst h; exact ⟨top, rest, hcs, rfl, rfl⟩
  | dyn n =>
    cases k <;> simp only [ctl] at hc <;> (try cases hc)
    all_goals (
      simp only [execK] at h
      repeat' split at h
      all_goals first
        | (injection h with h; subst h; rename_i r nx hp; exact ⟨⟨r, hp⟩, rfl⟩)
        | (injection h with h; subst h; rename_i r nx hp _ _ _; exact ⟨⟨r, hp⟩, rfl⟩)
        | (cases h; done)
        | skip)
  | brV =>
    cases k <;> simp only [ctl] at hc <;> (try cases hc)
    all_goals (
      simp only [execK] at h
      repeat' split at h
      all_goals first
        | (cases h; done)
        | (injection h with h; subst h
           exact ⟨_, _, by assumption, Or.inl rfl, fun f hf => Or.inl hf⟩)
        | (injection h with h; subst h
           exact ⟨_, _, by assumption, Or.inr rfl, fun f hf => Or.inl hf⟩)
        | (injection h with h; subst h
           refine ⟨_, _, by assumption, Or.inl rfl, ?_⟩
           intro f hf
           simp only [List.mem_cons] at hf
           rcases hf with hf | hf
           · subst hf; exact Or.inr rfl
           · exact Or.inl hf)
        | skip)
  | br2 =>
    cases k <;> simp only [ctl] at hc <;> (try cases hc)
    all_goals (
      simp only [execK] at h
      repeat' split at h
      all_goals first
        | (cases h; done)
        | (injection h with h; subst h
           exact ⟨Or.inl rfl, fun f hf => Or.inl hf⟩)
        | (injection h with h; subst h
           exact ⟨Or.inr ⟨_, by assumption, rfl⟩, fun f hf => Or.inl hf⟩)
        | (injection h with h; subst h
           refine ⟨Or.inr ⟨_, by assumption, rfl⟩, ?_⟩
           intro f hf
           simp only [List.mem_cons] at hf
           rcases hf with hf | hf
           · subst hf; exact Or.inr rfl
           · exact Or.inl hf)
        | skip)
  | sw =>
    cases k <;> simp only [ctl] at hc <;> (try cases hc)
    all_goals (
      simp only [execK] at h
      repeat' split at h
      all_goals first
        | (cases h; done)
        | (injection h with h; subst h
           exact ⟨⟨_, _, by assumption, rfl⟩, rfl⟩)
        | skip)

/-- invariant of the eval run of a checked program -/
def J (starts : List Nat) (L : Nat) (st : State) : Prop :=
  st.m.nextpc = 0 ∧ Good starts L st.pc ∧ ∀ f ∈ st.m.callstack, Good starts L f.retpc

/-- what a successful `check` provides -/
structure CheckFacts (cfg : Cfg) (prog : List Nat) (v : Nat) (starts targets : List Nat) : Prop where
  start_pos : ∀ p ∈ starts, 1 ≤ p ∧ p < prog.length
  fact : ∀ p ∈ starts, StepFact cfg prog v starts targets p
  target_good : ∀ t ∈ targets, Good starts prog.length t

theorem checkKind_unique {s : Spec} {a b : Nat} (h1 : checkKind s = some a) (h2 : checkKind s = some b) : a = b := by
  rw [h1] at h2; injection h2

set_option maxHeartbeats 1000000 in
theorem step_preserves_J {sem : Sem} {cfg : Cfg} {prog : List Nat} {v : Nat} {starts targets : List Nat} {st st' : State}
    (hwf : ∀ op next s, getSpec cfg.tbl v op next = some s → specWF s = true)
    (hf : CheckFacts cfg prog v starts targets) (hJ : J starts prog.length st) (hpc : st.pc < prog.length)
    (hs : step (concreteExec sem) cfg prog v st = .ok st') : J starts prog.length st' := by
  obtain ⟨opc, s, opcost, m', hop, hsp, _, _, _, _, _, _, hex, _, _, rfl⟩ := step_ok_inv hs
  obtain ⟨hn0, hgood, hcs⟩ := hJ
  have hp : st.pc ∈ starts := by
    rcases hgood with h | h
    · exact h
    · omega
  obtain ⟨hp1, _⟩ := hf.start_pos _ hp
  obtain ⟨opc', s', ts, np, st0, hop', hsp', hsize, hfn, hts, hnext⟩ := hf.fact _ hp
  rw [hop] at hop'; injection hop' with e1; subst e1
  rw [hsp] at hsp'; injection hsp' with e2; subst e2
  have hw := hwf _ _ _ hsp
  have good_ne : ∀ t, Good starts prog.length t → t ≠ 0 := by
    intro t ht
    rcases ht with ht | ht
    · have := (hf.start_pos t ht).1; omega
    · omega
  -- ops that leave nextpc alone and touch at most the top frame's bookkeeping
  have plain : s.hasCheck = false → m'.nextpc = 0 →
      (∀ f ∈ m'.callstack, ∃ f' ∈ st.m.callstack, f'.retpc = f.retpc) →
      J starts prog.length { charge cfg st opcost with pc := (if m'.nextpc ≠ 0 then m'.nextpc else st.pc + s.size), m := { m' with nextpc := 0 } } := by
    intro hck hnx hcall
    rcases hfn with ⟨_, _, hnp⟩ | ⟨hck', _⟩
    · subst hnp
      refine ⟨rfl, ?_, ?_⟩
      · simp only [hnx]; simpa using hnext
      · intro f hf'
        obtain ⟨f', hf'', he⟩ := hcall f hf'
        rw [← he]; exact hcs f' hf''
    · rw [hck] at hck'; cases hck'
  unfold concreteExec at hex
  unfold specWF at hw
  cases hk : opKind s.fn with
  | none =>
    rw [hk] at hex hw
    simp only [specWFk] at hex hw
    split at hex
    · injection hex with hex; subst hex
      exact plain (by simpa using hw) hn0 (fun f hf' => ⟨f, hf', rfl⟩)
    · cases hex
  | some k =>
    rw [hk] at hex hw
    simp only [specWFk] at hex hw
    have hnx := execK_ctl hex
    cases hc : ctl k with
    | plain =>
      rw [hc] at hnx hw
      obtain ⟨h1, h2⟩ := hnx
      exact plain (by simpa using hw) (by rw [h1]; exact hn0) h2
    | ret =>
      rw [hc] at hnx hw
      obtain ⟨h1, h2⟩ := hnx
      refine ⟨rfl, ?_, ?_⟩
      · simp only [h1]
        rw [if_pos (by simpa using (show prog.length ≠ 0 by omega))]
        exact Or.inr rfl
      · intro f hf'; simp only [h2] at hf'; exact hcs f hf'
    | retsub =>
      rw [hc] at hnx hw
      obtain ⟨top, rest, h1, h2, h3⟩ := hnx
      have hck : s.hasCheck = false := by simpa using hw
      have htop : Good starts prog.length top.retpc := hcs top (by rw [h1]; exact List.mem_cons_self)
      refine ⟨rfl, ?_, ?_⟩
      · simp only [h3]
        rw [if_pos (good_ne _ htop)]
        exact htop
      · intro f hf'; simp only [h2] at hf'; exact hcs f (by rw [h1]; exact List.mem_cons_of_mem _ hf')
    | dyn n =>
      rw [hc] at hnx hw
      simp only [Bool.and_eq_true, beq_iff_eq] at hw
      obtain ⟨hck, hkind⟩ := hw
      rcases hfn with ⟨hck', _⟩ | ⟨_, k', hk', hres⟩
      · rw [hck] at hck'; cases hck'
      · have := checkKind_unique hk' hkind
        subst this
        have key : m'.nextpc = np ∧ m'.callstack = st.m.callstack := by
          cases hres with
          | br2 _ _ _ _ _ => exact absurd hnx (by simp [NextOk])
          | brV _ _ _ _ _ _ => exact absurd hnx (by simp [NextOk])
          | sw _ _ _ _ _ _ => exact absurd hnx (by simp [NextOk])
          | ints r hp' _ =>
            obtain ⟨⟨r', hr'⟩, h2⟩ := hnx
            rw [hp'] at hr'; injection hr' with hr'; injection hr' with _ hr'
            exact ⟨hr'.symm, h2⟩
          | bytess r hp' _ =>
            obtain ⟨⟨r', hr'⟩, h2⟩ := hnx
            rw [hp'] at hr'; injection hr' with hr'; injection hr' with _ hr'
            exact ⟨hr'.symm, h2⟩
          | bytes r hp' _ =>
            obtain ⟨⟨r', hr'⟩, h2⟩ := hnx
            rw [hp'] at hr'; injection hr' with hr'; injection hr' with _ hr'
            exact ⟨hr'.symm, h2⟩
          | int r hp' _ =>
            obtain ⟨⟨r', hr'⟩, h2⟩ := hnx
            rw [hp'] at hr'; injection hr' with hr'; injection hr' with _ hr'
            exact ⟨hr'.symm, h2⟩
        refine ⟨rfl, ?_, ?_⟩
        · simp only [key.1]; exact hnext
        · intro f hf'; simp only [key.2] at hf'; exact hcs f hf'
    | brV =>
      rw [hc] at hnx hw
      simp only [Bool.and_eq_true, beq_iff_eq] at hw
      obtain ⟨hck, hkind⟩ := hw
      rcases hfn with ⟨hck', _⟩ | ⟨_, k', hk', hres⟩
      · rw [hck] at hck'; cases hck'
      · have := checkKind_unique hk' hkind
        subst this
        obtain ⟨t, sz, hbt, hnp, hcall⟩ := hnx
        cases hres with
        | brV t' sz' hbt' hts' hnp' _ =>
          rw [hbt] at hbt'; injection hbt' with hbt'; injection hbt' with e1 e2
          subst e1; subst e2
          have hgt : Good starts prog.length t := hf.target_good t (hts t (by rw [hts']; exact List.mem_singleton.mpr rfl))
          have hnp0 : np ≠ 0 := by omega
          rw [if_pos hnp0] at hnext
          refine ⟨rfl, ?_, ?_⟩
          · rcases hnp with hnp | hnp
            · simp only [hnp]; rw [if_pos (good_ne _ hgt)]; exact hgt
            · simp only [hnp]; rw [← hnp']; rw [if_pos hnp0]; exact hnext
          · intro f hf'
            rcases hcall f hf' with h | h
            · exact hcs f h
            · rw [h, ← hnp']; exact hnext
    | br2 =>
      rw [hc] at hnx hw
      simp only [Bool.and_eq_true, beq_iff_eq] at hw
      obtain ⟨⟨hck, hkind⟩, hsz⟩ := hw
      rcases hfn with ⟨hck', _⟩ | ⟨_, k', hk', hres⟩
      · rw [hck] at hck'; cases hck'
      · have := checkKind_unique hk' hkind
        subst this
        obtain ⟨hnp, hcall⟩ := hnx
        cases hres with
        | br2 t' hbt' hts' hnp' _ =>
          subst hnp'
          simp only [ne_eq, not_true_eq_false, if_false, hsz] at hnext
          have hgt : Good starts prog.length t' := hf.target_good t' (hts t' (by rw [hts']; exact List.mem_singleton.mpr rfl))
          refine ⟨rfl, ?_, ?_⟩
          · rcases hnp with hnp | ⟨t, hbt, hnp⟩
            · simp only [hnp]; rw [if_pos (by omega)]; exact hnext
            · rw [hbt'] at hbt; injection hbt with hbt; subst hbt
              simp only [hnp]; rw [if_pos (good_ne _ hgt)]; exact hgt
          · intro f hf'
            rcases hcall f hf' with h | h
            · exact hcs f h
            · rw [h]; exact hnext
    | sw =>
      rw [hc] at hnx hw
      simp only [Bool.and_eq_true, beq_iff_eq] at hw
      obtain ⟨hck, hkind⟩ := hw
      rcases hfn with ⟨hck', _⟩ | ⟨_, k', hk', hres⟩
      · rw [hck] at hck'; cases hck'
      · have := checkKind_unique hk' hkind
        subst this
        obtain ⟨⟨idx, t, hst, hnp⟩, hcall⟩ := hnx
        cases hres with
        | sw n hn hnp' hle hall hmem =>
          have hnp0 : np ≠ 0 := by omega
          rw [if_pos hnp0] at hnext
          have hgt : Good starts prog.length t := by
            by_cases hidx : idx < n
            · exact hf.target_good t (hts t (hmem idx hidx t hst))
            · obtain ⟨_, n', hn', _, hfall⟩ := switchTarget_bound hst
              rw [hn] at hn'; injection hn' with hn'; subst hn'
              rw [hfall hidx, ← hnp']; exact hnext
          refine ⟨rfl, ?_, ?_⟩
          · simp only [hnp]; rw [if_pos (good_ne _ hgt)]; exact hgt
          · intro f hf'; simp only [hcall] at hf'; exact hcs f hf'

theorem begin_ok_bounds {cfg : Cfg} {prog : List Nat} {v vlen : Nat} (h : begin cfg prog = .ok (v, vlen)) :
    1 ≤ vlen ∧ vlen ≤ prog.length := by
  unfold begin at h
  split at h
  · cases h
  · split at h
    · rename_i v' vlen' hu
      have := uvarint_bound hu
      repeat' split at h
      all_goals first
        | (cases h; done)
        | (injection h with h; injection h with _ h; subst h; exact this)
    · cases h

/-- a successful `check` yields the facts the run invariant needs, and the invariant holds initially -/
theorem check_facts {cfg : Cfg} {prog : List Nat} {pool : Int} {cs : CState} {v vlen : Nat}
    (hc : check cfg prog pool = .ok cs) (hb : begin cfg prog = .ok (v, vlen)) :
    CheckFacts cfg prog v cs.starts cs.targets ∧ Good cs.starts prog.length vlen := by
  unfold check at hc
  split at hc
  · cases hc
  · rw [hb] at hc
    simp only [] at hc
    obtain ⟨hv1, hv2⟩ := begin_ok_bounds hb
    obtain ⟨_, _, i3, i4, i5⟩ := checkLoop_facts _ _ _ _ hc (by simpa using hv2)
    have hti := checkLoop_TInv _ _ _ _ hc (by simpa using hv1) (by constructor <;> intro x hx <;> cases hx)
    refine ⟨⟨?_, ?_, ?_⟩, ?_⟩
    · intro p hp
      rcases i5 p hp with h | ⟨h1, h2, _⟩
      · cases h
      · simp only at h1; exact ⟨by omega, h2⟩
    · intro p hp
      rcases i5 p hp with h | ⟨_, _, h3⟩
      · cases h
      · exact h3
    · intro t ht
      obtain ⟨h1, h2⟩ := hti.2 t ht
      rcases h2 with h2 | h2
      · exact Or.inl h2
      · exact Or.inr (by omega)
    · by_cases hlt : vlen < prog.length
      · exact Or.inl (i3 (by simpa using hlt))
      · exact Or.inr (by omega)

theorem reach_J {sem : Sem} {cfg : Cfg} {prog : List Nat} {v : Nat} {starts targets : List Nat} {st0 st : State}
    (hwf : ∀ op next s, getSpec cfg.tbl v op next = some s → specWF s = true)
    (hf : CheckFacts cfg prog v starts targets) (h0 : J starts prog.length st0)
    (hr : Reach (concreteExec sem) cfg prog v st0 st) : J starts prog.length st := by
  induction hr with
  | refl => exact h0
  | step _ hpc hs ih => exact step_preserves_J hwf hf ih hpc hs

end Lemmas.AVMAgree
