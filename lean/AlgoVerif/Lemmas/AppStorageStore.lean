import AlgoVerif.Lemmas.AppStorage
/-! Lemmas about Model.AppStorage: the schema-count invariant of one `Store` (appcow.go setKey / delKey / updateCounts /
checkCounts / SetAppGlobalSchema). -/
namespace AlgoVerif.Model.AppStorage

theorem inc64_eq {n : Nat} (h : n + 1 < M64) : inc64 n = n + 1 := by
  unfold inc64; unfold M64 at *; omega

theorem dec64_eq {n : Nat} (h0 : 0 < n) (h : n < M64) : dec64 n = n - 1 := by
  unfold dec64; unfold M64 at *; omega

/-- consistency of one storage: no duplicate keys, the counters are the actual numbers of keys of each type, they are
    within the limits, and the limits are far from 2^64 (consensus bounds schema entries by 64 / 16) -/
structure StoreOK (s : Store) : Prop where
  nodup : keysNodup s.kv
  cu : s.counts.nui = countU s.kv
  cb : s.counts.nbs = countB s.kv
  le_u : s.counts.nui ≤ s.max.nui
  le_b : s.counts.nbs ≤ s.max.nbs
  small_u : s.max.nui + 1 < M64
  small_b : s.max.nbs + 1 < M64

def Schema.small (s : Schema) : Prop := s.nui + 1 < M64 ∧ s.nbs + 1 < M64

theorem storeOK_empty {lim : Schema} (h : lim.small) : StoreOK { max := lim } :=
  ⟨by simp [keysNodup], by simp [countU, wsum], by simp [countB, wsum], by simp, by simp, h.1, h.2⟩

theorem checkCounts_ok {c m : Schema} (h : checkCounts c m = .ok ()) : c.nui ≤ m.nui ∧ c.nbs ≤ m.nbs := by
  unfold checkCounts at h
  split at h
  · cases h
  · split at h
    · cases h
    · omega

/-- number of uint keys as a weight -/
def wU : Bytes → TVal → Nat := fun _ v => if v.isUint then 1 else 0
def wB : Bytes → TVal → Nat := fun _ v => if v.isUint then 0 else 1

theorem countU_eq (kv : List (Bytes × TVal)) : countU kv = wsum wU kv := rfl
theorem countB_eq (kv : List (Bytes × TVal)) : countB kv = wsum wB kv := rfl

/-- the weight of the old value of a key (0 when absent) -/
def oldU (o : Option TVal) : Nat := match o with | some (.uint _) => 1 | _ => 0
def oldB (o : Option TVal) : Nat := match o with | some (.bytes _) => 1 | _ => 0

theorem oldU_eq (kv : List (Bytes × TVal)) (k : Bytes) :
    (match aget kv k with | some v0 => wU k v0 | none => 0) = oldU (aget kv k) := by
  cases aget kv k with
  | none => rfl
  | some v0 => cases v0 <;> rfl

theorem oldB_eq (kv : List (Bytes × TVal)) (k : Bytes) :
    (match aget kv k with | some v0 => wB k v0 | none => 0) = oldB (aget kv k) := by
  cases aget kv k with
  | none => rfl
  | some v0 => cases v0 <;> rfl

/-- `updateCounts` is exact bookkeeping when the old counters are exact, in range and the new ones fit -/
theorem updateCounts_nui (c : Schema) (o n : Option TVal) (hpos : oldU o ≤ c.nui) (hlt : c.nui + 1 < M64) :
    (updateCounts c o n).nui + oldU o = c.nui + oldU n := by
  have hM : c.nui < M64 := by omega
  cases o with
  | none =>
    cases n with
    | none => simp [updateCounts, oldU]
    | some v => cases v <;> simp [updateCounts, oldU, inc64_eq hlt]
  | some v0 =>
    cases v0 with
    | bytes b0 =>
      cases n with
      | none => simp [updateCounts, oldU]
      | some v => cases v <;> simp [updateCounts, oldU, inc64_eq hlt]
    | uint u0 =>
      have h1 : 0 < c.nui := by simpa [oldU] using hpos
      have hd := dec64_eq h1 hM
      have hi : inc64 (c.nui - 1) = c.nui - 1 + 1 := inc64_eq (by omega)
      cases n with
      | none => simp only [updateCounts, oldU, hd]; omega
      | some v => cases v <;> simp only [updateCounts, oldU, hd, hi] <;> omega

theorem updateCounts_nbs (c : Schema) (o n : Option TVal) (hpos : oldB o ≤ c.nbs) (hlt : c.nbs + 1 < M64) :
    (updateCounts c o n).nbs + oldB o = c.nbs + oldB n := by
  have hM : c.nbs < M64 := by omega
  cases o with
  | none =>
    cases n with
    | none => simp [updateCounts, oldB]
    | some v => cases v <;> simp [updateCounts, oldB, inc64_eq hlt]
  | some v0 =>
    cases v0 with
    | uint u0 =>
      cases n with
      | none => simp [updateCounts, oldB]
      | some v => cases v <;> simp [updateCounts, oldB, inc64_eq hlt]
    | bytes b0 =>
      have h1 : 0 < c.nbs := by simpa [oldB] using hpos
      have hd := dec64_eq h1 hM
      have hi : inc64 (c.nbs - 1) = c.nbs - 1 + 1 := inc64_eq (by omega)
      cases n with
      | none => simp only [updateCounts, oldB, hd]; omega
      | some v => cases v <;> simp only [updateCounts, oldB, hd, hi] <;> omega

/-- what `setKey` does when it succeeds -/
theorem setKey_eq {P : Proto} {s s' : Store} {k : Bytes} {v : TVal} (h : setKey P s k v = .ok s') :
    s' = { s with kv := aset s.kv k v, counts := updateCounts s.counts (aget s.kv k) (some v) } ∧
    checkCounts (updateCounts s.counts (aget s.kv k) (some v)) s.max = .ok () := by
  unfold setKey at h
  simp only [bind_eq_ok] at h
  obtain ⟨_, _, h⟩ := h
  obtain ⟨_, _, h⟩ := h
  obtain ⟨u, hc, h⟩ := h
  cases u
  simp only [pure, Except.pure, Except.ok.injEq] at h
  exact ⟨h.symm, hc⟩

end AlgoVerif.Model.AppStorage
