import AlgoVerif.Lemmas.AppStorage
/-! Lemmas about Model.AppStorage: the schema-count invariant of one `Store` (appcow.go setKey / delKey / updateCounts /
checkCounts / SetAppGlobalSchema). -/
namespace AlgoVerif.Model.AppStorage

-- `M64` is a 20-digit literal: keep definitional unfolding away from `x + M64` (unary recursion on the literal)
attribute [local irreducible] M64

theorem inc64_eq {n : Nat} (h : n + 1 < M64) : inc64 n = n + 1 := by
  unfold inc64; unfold M64 at *; omega

theorem dec64_eq {n : Nat} (h0 : 0 < n) (h : n < M64) : dec64 n = n - 1 := by
  unfold dec64; unfold M64 at *; omega

/-- consistency of one storage: no duplicate keys, the counters are the actual numbers of keys of each type, they are
    within the limits, and the limits are far from 2^64 (consensus bounds schema entries by 64 / 16) -/
structure StoreOK (s : Store) : Prop where
  nodup : keysNodup s.kv
  cu : s.counts.nui = countU s.kv
  cb : s.counts.nbs = countB s.kv
  le_u : s.counts.nui ≤ s.max.nui
  le_b : s.counts.nbs ≤ s.max.nbs
  small_u : s.max.nui + 1 < M64
  small_b : s.max.nbs + 1 < M64

def Schema.small (s : Schema) : Prop := s.nui + 1 < M64 ∧ s.nbs + 1 < M64

theorem storeOK_empty {lim : Schema} (h : lim.small) : StoreOK { max := lim } :=
  ⟨by simp [keysNodup], by simp [countU, wsum], by simp [countB, wsum], by simp, by simp, h.1, h.2⟩

theorem checkCounts_ok {c m : Schema} (h : checkCounts c m = .ok ()) : c.nui ≤ m.nui ∧ c.nbs ≤ m.nbs := by
  unfold checkCounts at h
  split at h
  · cases h
  · split at h
    · cases h
    · omega

/-- number of uint keys as a weight -/
def wU : Bytes → TVal → Nat := fun _ v => if v.isUint then 1 else 0
def wB : Bytes → TVal → Nat := fun _ v => if v.isUint then 0 else 1

theorem countU_eq (kv : List (Bytes × TVal)) : countU kv = wsum wU kv := rfl
theorem countB_eq (kv : List (Bytes × TVal)) : countB kv = wsum wB kv := rfl

/-- the weight of the old value of a key (0 when absent) -/
def oldU (o : Option TVal) : Nat := if optIsU o then 1 else 0
def oldB (o : Option TVal) : Nat := if optIsB o then 1 else 0

theorem oldU_eq (kv : List (Bytes × TVal)) (k : Bytes) : wold wU kv k = oldU (aget kv k) := by
  unfold wold
  cases aget kv k with
  | none => rfl
  | some v0 => cases v0 <;> rfl

theorem oldB_eq (kv : List (Bytes × TVal)) (k : Bytes) : wold wB kv k = oldB (aget kv k) := by
  unfold wold
  cases aget kv k with
  | none => rfl
  | some v0 => cases v0 <;> rfl

theorem updateCounts_nui_eq (c : Schema) (o n : Option TVal) :
    (updateCounts c o n).nui = if optIsU n then inc64 (if optIsU o then dec64 c.nui else c.nui) else (if optIsU o then dec64 c.nui else c.nui) := rfl

theorem updateCounts_nbs_eq (c : Schema) (o n : Option TVal) :
    (updateCounts c o n).nbs = if optIsB n then inc64 (if optIsB o then dec64 c.nbs else c.nbs) else (if optIsB o then dec64 c.nbs else c.nbs) := rfl

/-- `updateCounts` is exact bookkeeping when the old counter covers the old value and the result fits in 64 bits -/
theorem updateCounts_nui (c : Schema) (o n : Option TVal) (hpos : oldU o ≤ c.nui) (hlt : c.nui + 1 < M64) :
    (updateCounts c o n).nui + oldU o = c.nui + oldU n := by
  rw [updateCounts_nui_eq]
  unfold oldU at *
  have hM : c.nui < M64 := by omega
  have hi0 := inc64_eq hlt
  cases ho : optIsU o <;> cases hn : optIsU n
  · simp only [Bool.false_eq_true, if_false]
  · simp only [Bool.false_eq_true, if_false, if_true]; rw [hi0]
  · rw [ho] at hpos
    simp only [if_true] at hpos
    have hd := dec64_eq hpos hM
    simp only [Bool.false_eq_true, if_false, if_true]
    rw [hd]; omega
  · rw [ho] at hpos
    simp only [if_true] at hpos
    have hd := dec64_eq hpos hM
    have hi : inc64 (c.nui - 1) = c.nui - 1 + 1 := inc64_eq (by omega)
    simp only [if_true]
    rw [hd, hi]; omega

theorem updateCounts_nbs (c : Schema) (o n : Option TVal) (hpos : oldB o ≤ c.nbs) (hlt : c.nbs + 1 < M64) :
    (updateCounts c o n).nbs + oldB o = c.nbs + oldB n := by
  rw [updateCounts_nbs_eq]
  unfold oldB at *
  have hM : c.nbs < M64 := by omega
  have hi0 := inc64_eq hlt
  cases ho : optIsB o <;> cases hn : optIsB n
  · simp only [Bool.false_eq_true, if_false]
  · simp only [Bool.false_eq_true, if_false, if_true]; rw [hi0]
  · rw [ho] at hpos
    simp only [if_true] at hpos
    have hd := dec64_eq hpos hM
    simp only [Bool.false_eq_true, if_false, if_true]
    rw [hd]; omega
  · rw [ho] at hpos
    simp only [if_true] at hpos
    have hd := dec64_eq hpos hM
    have hi : inc64 (c.nbs - 1) = c.nbs - 1 + 1 := inc64_eq (by omega)
    simp only [if_true]
    rw [hd, hi]; omega

/-- what `setKey` does when it succeeds -/
theorem setKey_eq {P : Proto} {s s' : Store} {k : Bytes} {v : TVal} (h : setKey P s k v = .ok s') :
    s' = { s with kv := aset s.kv k v, counts := updateCounts s.counts (aget s.kv k) (some v) } ∧
    checkCounts (updateCounts s.counts (aget s.kv k) (some v)) s.max = .ok () := by
  unfold setKey at h
  split at h
  · cases h
  · split at h
    · cases h
    · dsimp only at h
      split at h
      · cases h
      · rename_i u hc
        cases u
        cases h
        exact ⟨rfl, hc⟩

theorem wsumU_old_le {kv : List (Bytes × TVal)} (k : Bytes) (h : keysNodup kv) : oldU (aget kv k) ≤ countU kv := by
  have := wsum_adel wU k h
  rw [oldU_eq] at this
  rw [countU_eq]; omega

theorem wsumB_old_le {kv : List (Bytes × TVal)} (k : Bytes) (h : keysNodup kv) : oldB (aget kv k) ≤ countB kv := by
  have := wsum_adel wB k h
  rw [oldB_eq] at this
  rw [countB_eq]; omega

/-- `setKey` keeps a storage consistent: the counts are updated with the write, a type change moves the counter, nothing
    wraps, and the new counts are within the schema (otherwise the write is rejected) -/
theorem setKey_ok {P : Proto} {s s' : Store} {k : Bytes} {v : TVal} (hs : StoreOK s) (h : setKey P s k v = .ok s') : StoreOK s' := by
  obtain ⟨he, hc⟩ := setKey_eq h
  have hcc := checkCounts_ok hc
  have hu := wsum_aset wU k v hs.nodup
  have hb := wsum_aset wB k v hs.nodup
  rw [oldU_eq] at hu
  rw [oldB_eq] at hb
  have h1 := hs.cu; have h2 := hs.cb; have h3 := hs.le_u; have h4 := hs.le_b; have h5 := hs.small_u; have h6 := hs.small_b
  have pu := wsumU_old_le k hs.nodup
  have pb := wsumB_old_le k hs.nodup
  have eu := updateCounts_nui s.counts (aget s.kv k) (some v) (by omega) (by omega)
  have eb := updateCounts_nbs s.counts (aget s.kv k) (some v) (by omega) (by omega)
  subst he
  refine ⟨keysNodup_aset k v hs.nodup, ?_, ?_, hcc.1, hcc.2, hs.small_u, hs.small_b⟩
  · show (updateCounts s.counts (aget s.kv k) (some v)).nui = countU (aset s.kv k v)
    rw [countU_eq] at *
    have : wU k v = oldU (some v) := by cases v <;> rfl
    omega
  · show (updateCounts s.counts (aget s.kv k) (some v)).nbs = countB (aset s.kv k v)
    rw [countB_eq] at *
    have : wB k v = oldB (some v) := by cases v <;> rfl
    omega

theorem delKey_ok {s : Store} (k : Bytes) (hs : StoreOK s) : StoreOK (delKey s k) := by
  have hu := wsum_adel wU k hs.nodup
  have hb := wsum_adel wB k hs.nodup
  rw [oldU_eq] at hu
  rw [oldB_eq] at hb
  have h1 := hs.cu; have h2 := hs.cb; have h3 := hs.le_u; have h4 := hs.le_b; have h5 := hs.small_u; have h6 := hs.small_b
  have pu := wsumU_old_le k hs.nodup
  have pb := wsumB_old_le k hs.nodup
  have eu := updateCounts_nui s.counts (aget s.kv k) none (by omega) (by omega)
  have eb := updateCounts_nbs s.counts (aget s.kv k) none (by omega) (by omega)
  have z1 : oldU none = 0 := rfl
  have z2 : oldB none = 0 := rfl
  rw [countU_eq] at *
  rw [countB_eq] at *
  refine ⟨keysNodup_adel k hs.nodup, ?_, ?_, ?_, ?_, hs.small_u, hs.small_b⟩
  · show (updateCounts s.counts (aget s.kv k) none).nui = countU (adel s.kv k)
    rw [countU_eq]; omega
  · show (updateCounts s.counts (aget s.kv k) none).nbs = countB (adel s.kv k)
    rw [countB_eq]; omega
  · show (updateCounts s.counts (aget s.kv k) none).nui ≤ s.max.nui
    omega
  · show (updateCounts s.counts (aget s.kv k) none).nbs ≤ s.max.nbs
    omega

theorem setSchema_ok {s s' : Store} {lim : Schema} (hs : StoreOK s) (hl : lim.small) (h : setSchema s lim = .ok s') : StoreOK s' := by
  unfold setSchema at h
  split at h
  · rename_i u hc
    cases u
    cases h
    have := checkCounts_ok hc
    exact ⟨hs.nodup, hs.cu, hs.cb, this.1, this.2, hl.1, hl.2⟩
  · cases h

/-- a write that would exceed the schema is rejected: a NEW key of a type whose count already equals the limit -/
theorem setKey_rejects_past_schema {P : Proto} {s : Store} {k : Bytes} {v : TVal} (hs : StoreOK s)
    (hnew : aget s.kv k = none)
    (hfull : (v.isUint = true ∧ countU s.kv = s.max.nui) ∨ (v.isUint = false ∧ countB s.kv = s.max.nbs)) :
    ∀ s', setKey P s k v ≠ .ok s' := by
  intro s' h
  obtain ⟨_, hc⟩ := setKey_eq h
  have hcc := checkCounts_ok hc
  have eu := updateCounts_nui s.counts none (some v) (Nat.zero_le _) (by have := hs.le_u; have := hs.small_u; omega)
  have eb := updateCounts_nbs s.counts none (some v) (Nat.zero_le _) (by have := hs.le_b; have := hs.small_b; omega)
  rw [hnew] at hcc
  have h1 := hs.cu; have h2 := hs.cb
  have z1 : oldU none = 0 := rfl
  have z2 : oldB none = 0 := rfl
  cases v with
  | uint x =>
    have : oldU (some (TVal.uint x)) = 1 := rfl
    rcases hfull with ⟨_, hf⟩ | ⟨hf, _⟩
    · omega
    · cases hf
  | bytes x =>
    have : oldB (some (TVal.bytes x)) = 1 := rfl
    rcases hfull with ⟨hf, _⟩ | ⟨_, hf⟩
    · cases hf
    · omega

end AlgoVerif.Model.AppStorage
