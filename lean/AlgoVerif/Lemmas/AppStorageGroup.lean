import AlgoVerif.Lemmas.AppStorageEffects
/-! Lemmas about Model.AppStorage: transactions, groups and histories preserve the invariants. -/
namespace AlgoVerif.Model.AppStorage

attribute [local irreducible] M64 add64 sub64

/-- schemas in transactions are far from 2^64 (WellFormed bounds them by MaxGlobalSchemaEntries / MaxLocalSchemaEntries) -/
def Txn.wf : Txn → Prop
  | .create _ gs ls _ _ _ => gs.small ∧ ls.small
  | .update _ _ gs => gs.small
  | _ => True

/-- number of effects of a transaction -/
def txnSize : Txn → Nat
  | .create _ _ _ _ _ script => script.length
  | .call _ _ _ _ _ script => script.length
  | _ => 0

def groupSize : List Txn → Nat
  | [] => 0
  | t :: ts => txnSize t + groupSize ts

/-- the availability invariant between transactions: before the first program evaluation nothing is dirty -/
def AInv (P : Proto) (σ : State) (av : Avail) : Prop :=
  (av.started = true → GInv P σ av) ∧ (av.started = false → av.dirtyBytes = 0)

theorem addRefs_cons (l : List (BoxRef × Bool)) (r : BoxRef) (rs : List BoxRef) :
    addRefs l (r :: rs) = addRefs (aset l r false) rs := rfl

theorem addRefs_nil (l : List (BoxRef × Bool)) : addRefs l [] = l := rfl

def allFalse (l : List (BoxRef × Bool)) : Prop := ∀ p, p ∈ l → p.2 = false

theorem addRefs_good (rs : List BoxRef) : ∀ {l : List (BoxRef × Bool)}, keysNodup l → allFalse l →
    keysNodup (addRefs l rs) ∧ allFalse (addRefs l rs) := by
  induction rs with
  | nil => intro l h1 h2; exact ⟨h1, h2⟩
  | cons r rs ih =>
    intro l h1 h2
    rw [addRefs_cons]
    apply ih (keysNodup_aset _ _ h1)
    intro p hp
    unfold aset at hp
    rcases List.mem_cons.mp hp with e | hm
    · rw [e]
    · exact h2 p (mem_adel hm).1

theorem groupRefs_good (g : List Txn) : keysNodup (groupRefs g) ∧ allFalse (groupRefs g) := by
  unfold groupRefs
  have : ∀ (g : List Txn) (l : List (BoxRef × Bool)), keysNodup l → allFalse l →
      keysNodup (g.foldl (fun acc t => addRefs acc (sharedRefs t)) l) ∧ allFalse (g.foldl (fun acc t => addRefs acc (sharedRefs t)) l) := by
    intro g
    induction g with
    | nil => intro l h1 h2; exact ⟨h1, h2⟩
    | cons t ts ih =>
      intro l h1 h2
      simp only [List.foldl]
      obtain ⟨a, b⟩ := addRefs_good (sharedRefs t) h1 h2
      exact ih _ a b
  exact this g [] (by simp [keysNodup]) (fun p hp => by cases hp)

theorem dsum_allFalse (σ : State) {l : List (BoxRef × Bool)} (h : allFalse l) : dsum σ l = 0 := by
  unfold dsum
  induction l with
  | nil => rfl
  | cons p t ih =>
    obtain ⟨r, d⟩ := p
    have hd : d = false := h (r, d) (by simp)
    subst hd
    simp only [wsum]
    rw [ih (fun q hq => h q (List.mem_cons_of_mem _ hq))]
    unfold dw; simp

/-- adding not-dirty references of boxes that do not exist keeps the write-budget invariant -/
theorem ginv_addRefs {P : Proto} {σ : State} (rs : List BoxRef) : ∀ {av av' : Avail}, GInv P σ av →
    (∀ r, r ∈ rs → boxLenAt σ r = none) → av'.boxes = addRefs av.boxes rs → av'.dirtyBytes = av.dirtyBytes →
    av'.ioBudget = av.ioBudget → GInv P σ av' := by
  induction rs with
  | nil =>
    intro av av' hg _ hb hd hio
    exact ginv_frame hg (fun _ => rfl) hb hd hio
  | cons r rs ih =>
    intro av av' hg hnone hb hd hio
    rw [addRefs_cons] at hb
    have hr : boxLenAt σ r = none := hnone r (by simp)
    have hcl : curLen σ r = 0 := by unfold curLen; rw [hr]
    have hmid : GInv P σ { av with boxes := aset av.boxes r false } := by
      refine ginv_step (σ' := σ) (av' := { av with boxes := aset av.boxes r false }) hg r false rfl rfl (fun _ _ => rfl) ?_ ?_ ?_
      · show av.dirtyBytes + wold (dw σ) av.boxes r = av.dirtyBytes + dw σ r false
        rw [wold_dw, hcl]; unfold dw; simp
      · intro e; cases e
      · exact hg.le
    exact ih hmid (fun x hx => hnone x (List.mem_cons_of_mem _ hx)) hb hd hio

theorem startGroup_inv {P : Proto} {σ : State} {g : List Txn} {av av1 : Avail} {extra : List BoxRef} {newApp : Option AppId}
    (ha : AInv P σ av) (hbud : groupBudget P g + P.maxBoxSize < M64) (hnone : ∀ r, r ∈ extra → boxLenAt σ r = none)
    (h : startGroup P σ g av extra newApp = .ok av1) : GInv P σ av1 ∧ av1.started = true := by
  unfold startGroup at h
  split at h
  · rename_i hs
    cases h
    exact ⟨ginv_addRefs extra (ha.1 hs) hnone rfl rfl rfl, hs⟩
  · rename_i hs
    dsimp only at h
    split at h
    · cases h
    · cases h
      have hs' : av.started = false := bool_false_of_not hs
      obtain ⟨g1, g2⟩ := groupRefs_good g
      obtain ⟨n1, n2⟩ := addRefs_good extra g1 g2
      refine ⟨⟨n1, ?_, ?_, ?_, hbud⟩, rfl⟩
      · intro r hr
        have := n2 (r, true) (aget_mem hr)
        cases this
      · show av.dirtyBytes = dsum σ (addRefs (groupRefs g) extra)
        rw [ha.2 hs', dsum_allFalse σ n2]
      · show av.dirtyBytes ≤ groupBudget P g
        rw [ha.2 hs']; exact Nat.zero_le _

theorem ainv_of_ginv {P : Proto} {σ : State} {av : Avail} (h : GInv P σ av) (hs : av.started = true) : AInv P σ av :=
  ⟨fun _ => h, fun e => by rw [hs] at e; cases e⟩

/-- the availability invariant does not depend on anything but the box lengths -/
theorem ainv_frame {P : Proto} {σ σ' : State} {av : Avail} (ha : AInv P σ av) (hb : σ'.boxes = σ.boxes) : AInv P σ' av :=
  ⟨fun hs => ginv_frame (ha.1 hs) (boxLenAt_congr hb) rfl rfl rfl, ha.2⟩

end AlgoVerif.Model.AppStorage
