import AlgoVerif.Lemmas.AppStorageEffects
/-! Lemmas about Model.AppStorage: transactions, groups and histories preserve the invariants. -/
namespace AlgoVerif.Model.AppStorage

attribute [local irreducible] M64 add64 sub64

/-- schemas in transactions are far from 2^64 (WellFormed bounds them by MaxGlobalSchemaEntries / MaxLocalSchemaEntries) -/
def Txn.wf : Txn → Prop
  | .create _ gs ls _ _ _ => gs.small ∧ ls.small
  | .update _ _ gs => gs.small
  | _ => True

/-- number of effects of a transaction -/
def txnSize : Txn → Nat
  | .create _ _ _ _ _ script => script.length
  | .call _ _ _ _ _ script => script.length
  | _ => 0

def groupSize : List Txn → Nat
  | [] => 0
  | t :: ts => txnSize t + groupSize ts

/-- the availability invariant between transactions: before the first program evaluation nothing is dirty -/
def AInv (P : Proto) (σ : State) (av : Avail) : Prop :=
  (av.started = true → GInv P σ av) ∧ (av.started = false → av.dirtyBytes = 0)

theorem addRefs_cons (l : List (BoxRef × Bool)) (r : BoxRef) (rs : List BoxRef) :
    addRefs l (r :: rs) = addRefs (aset l r false) rs := rfl

theorem addRefs_nil (l : List (BoxRef × Bool)) : addRefs l [] = l := rfl

def allFalse (l : List (BoxRef × Bool)) : Prop := ∀ p, p ∈ l → p.2 = false

theorem addRefs_good (rs : List BoxRef) : ∀ {l : List (BoxRef × Bool)}, keysNodup l → allFalse l →
    keysNodup (addRefs l rs) ∧ allFalse (addRefs l rs) := by
  induction rs with
  | nil => intro l h1 h2; exact ⟨h1, h2⟩
  | cons r rs ih =>
    intro l h1 h2
    rw [addRefs_cons]
    apply ih (keysNodup_aset _ _ h1)
    intro p hp
    unfold aset at hp
    rcases List.mem_cons.mp hp with e | hm
    · rw [e]
    · exact h2 p (mem_adel hm).1

theorem groupRefs_good (g : List Txn) : keysNodup (groupRefs g) ∧ allFalse (groupRefs g) := by
  unfold groupRefs
  have : ∀ (g : List Txn) (l : List (BoxRef × Bool)), keysNodup l → allFalse l →
      keysNodup (g.foldl (fun acc t => addRefs acc (sharedRefs t)) l) ∧ allFalse (g.foldl (fun acc t => addRefs acc (sharedRefs t)) l) := by
    intro g
    induction g with
    | nil => intro l h1 h2; exact ⟨h1, h2⟩
    | cons t ts ih =>
      intro l h1 h2
      simp only [List.foldl]
      obtain ⟨a, b⟩ := addRefs_good (sharedRefs t) h1 h2
      exact ih _ a b
  exact this g [] (by simp [keysNodup]) (fun p hp => by cases hp)

theorem dsum_allFalse (σ : State) {l : List (BoxRef × Bool)} (h : allFalse l) : dsum σ l = 0 := by
  unfold dsum
  induction l with
  | nil => rfl
  | cons p t ih =>
    obtain ⟨r, d⟩ := p
    have hd : d = false := h (r, d) (by simp)
    subst hd
    simp only [wsum]
    rw [ih (fun q hq => h q (List.mem_cons_of_mem _ hq))]
    unfold dw; simp

/-- adding not-dirty references of boxes that do not exist keeps the write-budget invariant -/
theorem ginv_addRefs {P : Proto} {σ : State} (rs : List BoxRef) : ∀ {av av' : Avail}, GInv P σ av →
    (∀ r, r ∈ rs → boxLenAt σ r = none) → av'.boxes = addRefs av.boxes rs → av'.dirtyBytes = av.dirtyBytes →
    av'.ioBudget = av.ioBudget → GInv P σ av' := by
  induction rs with
  | nil =>
    intro av av' hg _ hb hd hio
    exact ginv_frame hg (fun _ => rfl) hb hd hio
  | cons r rs ih =>
    intro av av' hg hnone hb hd hio
    rw [addRefs_cons] at hb
    have hr : boxLenAt σ r = none := hnone r (by simp)
    have hcl : curLen σ r = 0 := by unfold curLen; rw [hr]
    have hmid : GInv P σ { av with boxes := aset av.boxes r false } := by
      refine ginv_step (σ' := σ) (av' := { av with boxes := aset av.boxes r false }) hg r false rfl rfl (fun _ _ => rfl) ?_ ?_ ?_
      · show av.dirtyBytes + wold (dw σ) av.boxes r = av.dirtyBytes + dw σ r false
        rw [wold_dw, hcl]; unfold dw; simp
      · intro e; cases e
      · exact hg.le
    exact ih hmid (fun x hx => hnone x (List.mem_cons_of_mem _ hx)) hb hd hio

theorem startGroup_inv {P : Proto} {σ : State} {g : List Txn} {av av1 : Avail} {extra : List BoxRef} {newApp : Option AppId}
    (ha : AInv P σ av) (hbud : groupBudget P g + P.maxBoxSize < M64) (hnone : ∀ r, r ∈ extra → boxLenAt σ r = none)
    (h : startGroup P σ g av extra newApp = .ok av1) : GInv P σ av1 ∧ av1.started = true := by
  unfold startGroup at h
  split at h
  · rename_i hs
    cases h
    exact ⟨ginv_addRefs extra (ha.1 hs) hnone rfl rfl rfl, hs⟩
  · rename_i hs
    dsimp only at h
    split at h
    · cases h
    · cases h
      have hs' : av.started = false := bool_false_of_not hs
      obtain ⟨g1, g2⟩ := groupRefs_good g
      obtain ⟨n1, n2⟩ := addRefs_good extra g1 g2
      refine ⟨⟨n1, ?_, ?_, ?_, hbud⟩, rfl⟩
      · intro r hr
        have := n2 (r, true) (aget_mem hr)
        cases this
      · show av.dirtyBytes = dsum σ (addRefs (groupRefs g) extra)
        rw [ha.2 hs', dsum_allFalse σ n2]
      · show av.dirtyBytes ≤ groupBudget P g
        rw [ha.2 hs']; exact Nat.zero_le _

theorem ainv_of_ginv {P : Proto} {σ : State} {av : Avail} (h : GInv P σ av) (hs : av.started = true) : AInv P σ av :=
  ⟨fun _ => h, fun e => by rw [hs] at e; cases e⟩

/-- the availability invariant does not depend on anything but the box lengths -/
theorem ainv_frame {P : Proto} {σ σ' : State} {av : Avail} (ha : AInv P σ av) (hb : σ'.boxes = σ.boxes) : AInv P σ' av :=
  ⟨fun hs => ginv_frame (ha.1 hs) (boxLenAt_congr hb) rfl rfl rfl, ha.2⟩

theorem ainv_ginv_frame {P : Proto} {σ σ' : State} {av : Avail} (hg : GInv P σ av) (hs : av.started = true)
    (hb : σ'.boxes = σ.boxes) : AInv P σ' av :=
  ainv_of_ginv (ginv_frame hg (boxLenAt_congr hb) rfl rfl rfl) hs

/-- application creation: the new record is consistent, the id is fresh -/
theorem inv_create {P : Proto} {n : Nat} {σ : State} {snd : Addr} {gs ls : Schema} (hi : Inv P n σ) (hgs : gs.small) (hls : ls.small) :
    Inv P n { σ with apps := upd σ.apps σ.nextApp (some { creator := snd, lschema := ls, g := { max := gs } }),
                     nextApp := σ.nextApp + 1 } := by
  refine ⟨boxInv_congr hi.box rfl rfl rfl, ?_, hi.locals_ok, ?_⟩
  · intro x app hx
    have hx' : upd σ.apps σ.nextApp (some { creator := snd, lschema := ls, g := { max := gs } }) x = some app := hx
    by_cases hxa : x = σ.nextApp
    · rw [hxa, upd_same] at hx'; cases hx'; exact ⟨storeOK_empty hgs, hls⟩
    · rw [upd_other _ _ hxa] at hx'; exact hi.apps_ok x app hx'
  · intro x hx
    have hx' : σ.nextApp + 1 ≤ x := hx
    have hxa : x ≠ σ.nextApp := by omega
    have := hi.fresh x (by omega)
    refine ⟨?_, this.2⟩
    show upd σ.apps σ.nextApp _ x = none
    rw [upd_other _ _ hxa]; exact this.1

theorem txnCreate_inv {P : Proto} {n : Nat} {g : List Txn} {σ σ' : State} {av av' : Avail} {snd : Addr} {gs ls : Schema}
    {accts : List Addr} {refs : List BoxRef} {script : List Effect} {l : List Nat}
    (hi : Inv P n σ) (ha : AInv P σ av) (hgs : gs.small) (hls : ls.small) (hbud : groupBudget P g + P.maxBoxSize < M64)
    (hf : Fits P (n + script.length)) (h : txnCreate P g σ av snd gs ls accts refs script = .ok (σ', av', l)) :
    Inv P (n + script.length) σ' ∧ AInv P σ' av' := by
  unfold txnCreate at h
  dsimp only at h
  split at h
  · cases h
  · rename_i av1 hst
    have hi1 := inv_create (snd := snd) hi hgs hls
    have ha1 : AInv P { σ with apps := upd σ.apps σ.nextApp (some { creator := snd, lschema := ls, g := { max := gs } }),
                               nextApp := σ.nextApp + 1 } av := ainv_frame ha rfl
    have hnone : ∀ r, r ∈ (refs.filter (fun x => x.1 = 0 && !x.2.isEmpty)).map (fun x => (σ.nextApp, x.2)) →
        boxLenAt { σ with apps := upd σ.apps σ.nextApp (some { creator := snd, lschema := ls, g := { max := gs } }),
                          nextApp := σ.nextApp + 1 } r = none := by
      intro r hr
      obtain ⟨x, _, hx⟩ := List.mem_map.mp hr
      subst hx
      show (match aget (σ.boxes σ.nextApp) x.2 with | some c => some c.length | none => none) = none
      rw [(hi.fresh σ.nextApp (Nat.le_refl _)).2]; rfl
    obtain ⟨hg1, hs1⟩ := startGroup_inv ha1 hbud hnone hst
    obtain ⟨hi2, hg2, hs2⟩ := runEffects_inv script hi1 hg1 hf h
    exact ⟨hi2, ainv_of_ginv hg2 (by rw [hs2, hs1])⟩

theorem txnClear_inv {P : Proto} {n : Nat} {g : List Txn} {σ σ' : State} {av av' : Avail} {snd : Addr} {a : AppId} {l : List Nat}
    (hi : Inv P n σ) (ha : AInv P σ av) (hbud : groupBudget P g + P.maxBoxSize < M64)
    (h : txnClear P g σ av snd a = .ok (σ', av', l)) : Inv P n σ' ∧ AInv P σ' av' := by
  unfold txnClear at h
  split at h
  · cases h
  · split at h
    · cases h
    · rename_i av1 hst
      cases h
      refine ⟨inv_upd_local hi (fun s hs => by cases hs), ?_⟩
      split at hst
      · obtain ⟨hg1, hs1⟩ := startGroup_inv ha hbud (fun r hr => by cases hr) hst
        exact ainv_ginv_frame hg1 hs1 rfl
      · cases hst
        exact ainv_frame ha rfl

theorem optIn_inv {P : Proto} {n : Nat} {σ σ1 : State} {snd : Addr} {a : AppId} {app : App} {oc : OC}
    (hi : Inv P n σ) (happ : σ.apps a = some app) (h : optIn σ snd a app oc = .ok σ1) :
    Inv P n σ1 ∧ σ1.boxes = σ.boxes ∧ σ1.apps = σ.apps := by
  unfold optIn at h
  split at h
  · split at h
    · cases h
    · cases h
      refine ⟨inv_upd_local hi ?_, rfl, rfl⟩
      intro s hs; cases hs
      exact storeOK_empty (hi.apps_ok a app happ).2
  · cases h; exact ⟨hi, rfl, rfl⟩

theorem completion_inv {P : Proto} {n : Nat} {σ2 σ' : State} {av2 av' : Avail} {logs l : List Nat} {snd : Addr} {a : AppId} {oc : OC}
    (hi : Inv P n σ2) (hg : GInv P σ2 av2) (hs : av2.started = true)
    (h : completion σ2 av2 logs snd a oc = .ok (σ', av', l)) : Inv P n σ' ∧ AInv P σ' av' := by
  unfold completion at h
  split at h
  · split at h
    · cases h
    · cases h
      exact ⟨inv_upd_local hi (fun s hs => by cases hs), ainv_ginv_frame hg hs rfl⟩
  · cases h
    exact ⟨inv_del_app a hi, ainv_ginv_frame hg hs rfl⟩
  · cases h
    exact ⟨hi, ainv_of_ginv hg hs⟩

theorem txnCall_inv {P : Proto} {n : Nat} {g : List Txn} {σ σ' : State} {av av' : Avail} {snd : Addr} {a : AppId} {oc : OC}
    {accts : List Addr} {script : List Effect} {l : List Nat}
    (hi : Inv P n σ) (ha : AInv P σ av) (hbud : groupBudget P g + P.maxBoxSize < M64)
    (hf : Fits P (n + script.length)) (h : txnCall P g σ av snd a oc accts script = .ok (σ', av', l)) :
    Inv P (n + script.length) σ' ∧ AInv P σ' av' := by
  unfold txnCall at h
  split at h
  · cases h
  · rename_i app happ
    split at h
    · cases h
    · rename_i σ1 hopt
      obtain ⟨hi1, hb1, _⟩ := optIn_inv hi happ hopt
      split at h
      · cases h
      · rename_i av1 hst
        obtain ⟨hg1, hs1⟩ := startGroup_inv (ainv_frame ha hb1) hbud (fun r hr => by cases hr) hst
        split at h
        · cases h
        · rename_i σ2 av2 logs hrun
          obtain ⟨hi2, hg2, hs2⟩ := runEffects_inv script hi1 hg1 hf hrun
          exact completion_inv hi2 hg2 (by rw [hs2, hs1]) h

theorem txnUpdate_inv {P : Proto} {n : Nat} {g : List Txn} {σ σ' : State} {av av' : Avail} {a : AppId} {gs : Schema} {l : List Nat}
    (hi : Inv P n σ) (ha : AInv P σ av) (hgs : gs.small) (hbud : groupBudget P g + P.maxBoxSize < M64)
    (h : txnUpdate P g σ av a gs = .ok (σ', av', l)) : Inv P n σ' ∧ AInv P σ' av' := by
  unfold txnUpdate at h
  split at h
  · cases h
  · rename_i app happ
    split at h
    · cases h
    · rename_i av1 hst
      obtain ⟨hg1, hs1⟩ := startGroup_inv ha hbud (fun r hr => by cases hr) hst
      split at h
      · cases h
        exact ⟨hi, ainv_of_ginv hg1 hs1⟩
      · split at h
        · cases h
        · rename_i g' hset
          cases h
          exact ⟨inv_upd_app hi ⟨app, happ⟩ (setSchema_ok (hi.apps_ok a app happ).1 hgs hset) (hi.apps_ok a app happ).2,
                 ainv_ginv_frame hg1 hs1 rfl⟩

/-- every transaction preserves the invariants -/
theorem evalTxn_inv {P : Proto} {n : Nat} {g : List Txn} {σ σ' : State} {av av' : Avail} {t : Txn} {l : List Nat}
    (hi : Inv P n σ) (ha : AInv P σ av) (hwf : t.wf) (hbud : groupBudget P g + P.maxBoxSize < M64)
    (hf : Fits P (n + txnSize t)) (h : evalTxn P g σ av t = .ok (σ', av', l)) :
    Inv P (n + txnSize t) σ' ∧ AInv P σ' av' := by
  cases t with
  | fund =>
    unfold evalTxn at h; cases h
    exact ⟨hi, ha⟩
  | create snd gs ls accts refs script =>
    unfold evalTxn at h
    exact txnCreate_inv hi ha hwf.1 hwf.2 hbud hf h
  | update snd a gs =>
    unfold evalTxn at h
    exact txnUpdate_inv hi ha hwf hbud h
  | call snd a oc accts refs script =>
    cases oc with
    | clear =>
      unfold evalTxn at h
      obtain ⟨h1, h2⟩ := txnClear_inv hi ha hbud h
      exact ⟨h1.mono (by omega), h2⟩
    | noop => unfold evalTxn at h; exact txnCall_inv hi ha hbud hf h
    | optin => unfold evalTxn at h; exact txnCall_inv hi ha hbud hf h
    | closeout => unfold evalTxn at h; exact txnCall_inv hi ha hbud hf h
    | delete => unfold evalTxn at h; exact txnCall_inv hi ha hbud hf h

/-- the members of a group, in order -/
theorem evalTxns_inv {P : Proto} {g : List Txn} (hbud : groupBudget P g + P.maxBoxSize < M64) (ts : List Txn) :
    ∀ {n : Nat} {σ σ' : State} {av av' : Avail} {i : Nat} {ls : List (List Nat)},
    Inv P n σ → AInv P σ av → (∀ t, t ∈ ts → t.wf) → Fits P (n + groupSize ts) →
    evalTxns P g σ av ts i = .ok (σ', av', ls) → Inv P (n + groupSize ts) σ' ∧ AInv P σ' av' := by
  induction ts with
  | nil =>
    intro n σ σ' av av' i ls hi ha _ _ h
    unfold evalTxns at h
    cases h
    exact ⟨hi, ha⟩
  | cons t ts ih =>
    intro n σ σ' av av' i ls hi ha hwf hf h
    unfold evalTxns at h
    split at h
    · cases h
    · rename_i σ1 av1 l1 ht
      split at h
      · cases h
      · rename_i σ2 av2 ls2 hts
        cases h
        have hsz : n + groupSize (t :: ts) = (n + txnSize t) + groupSize ts := by show n + (txnSize t + groupSize ts) = _; omega
        obtain ⟨hi1, ha1⟩ := evalTxn_inv hi ha (hwf t (by simp)) hbud (hf.mono (by rw [hsz]; omega)) ht
        rw [hsz] at hf ⊢
        exact ih hi1 ha1 (fun x hx => hwf x (List.mem_cons_of_mem _ hx)) hf hts

/-- well-formedness of a group: schemas small, the i/o budget far from 2^64 (≤ 16 transactions × 8 references × 2048) -/
def groupOK (P : Proto) (g : List Txn) : Prop := (∀ t, t ∈ g → t.wf) ∧ groupBudget P g + P.maxBoxSize < M64

theorem ainv_init (P : Proto) (σ : State) : AInv P σ {} := ⟨(fun h => by cases h), fun _ => rfl⟩

theorem evalGroup_inv {P : Proto} {n : Nat} {σ σ' : State} {g : List Txn} {av' : Avail} {ls : List (List Nat)}
    (hi : Inv P n σ) (hok : groupOK P g) (hf : Fits P (n + groupSize g)) (h : evalGroup P σ g = .ok (σ', av', ls)) :
    Inv P (n + groupSize g) σ' ∧ AInv P σ' av' := by
  unfold evalGroup at h
  exact evalTxns_inv hok.2 g hi (ainv_init P σ) hok.1 hf h

theorem applyGroup_inv {P : Proto} {n : Nat} {σ : State} {g : List Txn}
    (hi : Inv P n σ) (hok : groupOK P g) (hf : Fits P (n + groupSize g)) : Inv P (n + groupSize g) (applyGroup P σ g) := by
  unfold applyGroup
  split
  · rename_i σ' av' ls h
    exact (evalGroup_inv hi hok hf h).1
  · exact hi.mono (by omega)

def historySize : List (List Txn) → Nat
  | [] => 0
  | g :: gs => groupSize g + historySize gs

/-- a history of groups (accepted or rejected) preserves the invariant -/
theorem applyGroups_inv {P : Proto} (gs : List (List Txn)) : ∀ {n : Nat} {σ : State},
    Inv P n σ → (∀ g, g ∈ gs → groupOK P g) → Fits P (n + historySize gs) → Inv P (n + historySize gs) (applyGroups P σ gs) := by
  induction gs with
  | nil => intro n σ hi _ _; exact hi
  | cons g gs ih =>
    intro n σ hi hok hf
    have hsz : n + historySize (g :: gs) = (n + groupSize g) + historySize gs := by show n + (groupSize g + historySize gs) = _; omega
    have h1 := applyGroup_inv hi (hok g (by simp)) (hf.mono (by rw [hsz]; omega))
    rw [hsz] at hf ⊢
    show Inv P _ (List.foldl (applyGroup P) (applyGroup P σ g) gs)
    exact ih h1 (fun x hx => hok x (List.mem_cons_of_mem _ hx)) hf

end AlgoVerif.Model.AppStorage
