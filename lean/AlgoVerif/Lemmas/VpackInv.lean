import AlgoVerif.Lemmas.VpackLoops
/-! Inversion of the stateless parser primitives: what a SUCCESSFUL read says about the input bytes. -/
set_option linter.unusedSimpArgs false
namespace AlgoVerif.Lemmas.Vpack
open AlgoVerif.Model.Vpack AlgoVerif.Spec.Vpack

theorem u8_eq_of_toNat {a b : UInt8} (h : a.toNat = b.toNat) : a = b := UInt8.toNat_inj.mp h

theorem ofNat_eq (n : Nat) (c : UInt8) (h : n % 256 = c.toNat) : UInt8.ofNat n = c := by
  apply u8_eq_of_toNat; rw [UInt8.toNat_ofNat']; exact h

theorem readFixMap_inv {p p' : PS} {c : Nat} (h : readFixMap p = .ok (c, p')) :
    ∃ r, c < 16 ∧ p.rem = UInt8.ofNat (0x80 + c) :: r ∧ p' = { p with rem := r } := by
  unfold readFixMap at h
  split at h
  · cases h
  · rename_i b r hrem
    split at h
    · cases h
    · rename_i hb
      simp only [Except.ok.injEq, Prod.mk.injEq] at h
      obtain ⟨hc, hp⟩ := h
      have h1 : ¬ (b.toNat < 128) := fun hh => hb (Or.inl (UInt8.lt_iff_toNat_lt.mpr hh))
      have h2 : ¬ (143 < b.toNat) := fun hh => hb (Or.inr (UInt8.lt_iff_toNat_lt.mpr hh))
      have hk : b.toNat - 128 < 16 := by omega
      have f := fixmap_facts ⟨b.toNat - 128, hk⟩
      simp only at f
      have hb' : UInt8.ofNat (0x80 + (b.toNat - 128)) = b := ofNat_eq _ _ (by have := UInt8.toNat_lt b; omega)
      rw [hb'] at f
      refine ⟨r, ?_, ?_, hp.symm⟩
      · rw [← hc, f.2]; exact hk
      · rw [hrem, ← hc, f.2, hb']

theorem readString_inv {p p' : PS} {s : Bytes} (h : readString p = .ok (s, p')) :
    ∃ r, s.length < 32 ∧ p.rem = fixstr s ++ r ∧ p' = { p with rem := r } := by
  unfold readString at h
  split at h
  · cases h
  · rename_i b r hrem
    split at h
    · cases h
    · rename_i hb
      have h1 : ¬ (b.toNat < 160) := fun hh => hb (Or.inl (UInt8.lt_iff_toNat_lt.mpr hh))
      have h2 : ¬ (191 < b.toNat) := fun hh => hb (Or.inr (UInt8.lt_iff_toNat_lt.mpr hh))
      have hk : b.toNat - 160 < 32 := by omega
      have f := fixstr_facts ⟨b.toNat - 160, hk⟩
      simp only at f
      have hb' : UInt8.ofNat (0xa0 + (b.toNat - 160)) = b := ofNat_eq _ _ (by have := UInt8.toNat_lt b; omega)
      rw [hb'] at f
      simp only [f.2] at h
      split at h
      · rename_i hle
        simp only [Except.ok.injEq, Prod.mk.injEq] at h
        obtain ⟨hs, hp⟩ := h
        have hlen : s.length = b.toNat - 160 := by rw [← hs, List.length_take]; omega
        refine ⟨r.drop (b.toNat - 160), by omega, ?_, hp.symm⟩
        rw [hrem, fixstr, hlen, hb', ← hs, List.cons_append, List.take_append_drop]
      · cases h

theorem readBin_inv {sz : Nat} {p p' : PS} {v : Bytes} (h : readBin sz p = .ok (v, p')) :
    ∃ r, v.length = sz ∧ sz < 256 ∧ p.rem = [0xc4, UInt8.ofNat v.length] ++ (v ++ r) ∧ p' = { p with rem := r } := by
  unfold readBin at h
  split at h
  · rename_i hlen
    split at h
    · rename_i m l r hrem
      split at h
      · cases h
      · rename_i hc
        simp only [Except.ok.injEq, Prod.mk.injEq] at h
        obtain ⟨hv, hp⟩ := h
        have hm : m = 0xc4 := Classical.byContradiction (fun hh => hc (Or.inl hh))
        have hl : l.toNat = sz := Classical.byContradiction (fun hh => hc (Or.inr hh))
        rw [hrem] at hlen
        simp only [List.length_cons] at hlen
        have hvl : v.length = sz := by rw [← hv, List.length_take]; omega
        have hsz : sz < 256 := by rw [← hl]; exact UInt8.toNat_lt l
        refine ⟨r.drop sz, hvl, hsz, ?_, hp.symm⟩
        have : UInt8.ofNat v.length = l := ofNat_eq _ _ (by rw [hvl, ← hl]; have := UInt8.toNat_lt l; omega)
        rw [hrem, hm, this, ← hv]
        simp only [List.cons_append, List.nil_append, List.take_append_drop]
    · cases h
  · cases h

end AlgoVerif.Lemmas.Vpack
