/-
Lemmas for Model.AsmFormat: raw instructions. `decRaw` and `encRaw` are inverse to each other (immediates keep their widths).
-/
import AlgoVerif.Lemmas.AsmFormatVarint
namespace Lemmas.AsmFormat
open Model.OpTables Model.AsmFormat

def int16 (o : Int) : Prop := -32768 ≤ o ∧ o ≤ 32767

/-- a raw immediate is a well-formed immediate of kind `kind` -/
def RImmOK : Nat → RImm → Prop
  | kind, .byte _ => kind = 0 ∨ kind = 1
  | kind, .off2 o => kind = 2 ∧ int16 o
  | kind, .voff o w => kind = 8 ∧ uvOK 10 w (zz o) = true
  | kind, .uint v w => kind = 3 ∧ uvOK 10 w v = true
  | kind, .bytes lw bs => kind = 4 ∧ uvOK 10 lw bs.length = true
  | kind, .ints cw vs => kind = 5 ∧ uvOK 10 cw vs.length = true ∧ ∀ p ∈ vs, uvOK 10 p.2 p.1 = true
  | kind, .bytess cw bss => kind = 6 ∧ uvOK 10 cw bss.length = true ∧ ∀ p ∈ bss, uvOK 10 p.1 p.2.length = true
  | kind, .offs os => kind = 7 ∧ ∀ o ∈ os, int16 o

/-- number of list items of an immediate (the "too many items" guard compares it with len(program)) -/
def immCount : RImm → Nat
  | .ints _ vs => vs.length
  | .bytess _ bss => bss.length
  | _ => 0

theorem decInts_enc : ∀ (vs : List (Nat × Nat)) (rest : Bytes), (∀ p ∈ vs, uvOK 10 p.2 p.1 = true) →
    decInts vs.length (vs.flatMap (fun p => uvarintW p.2 p.1) ++ rest) = some (vs, rest)
  | [], rest, _ => rfl
  | (v, w) :: vs, rest, h => by
    have h1 : uvOK 10 w v = true := h (v, w) (List.mem_cons_self)
    have ih := decInts_enc vs rest (fun p hp => h p (List.mem_cons_of_mem _ hp))
    simp only [List.length_cons, List.flatMap_cons, List.append_assoc, decInts]
    rw [readU_uvarintW w 10 v _ h1]
    simp only []
    rw [List.drop_left' (length_uvarintW w v), ih]

theorem decBytess_enc : ∀ (bss : List (Nat × Bytes)) (rest : Bytes), (∀ p ∈ bss, uvOK 10 p.1 p.2.length = true) →
    decBytess bss.length (bss.flatMap encItem ++ rest) = some (bss, rest)
  | [], rest, _ => rfl
  | (lw, bs) :: bss, rest, h => by
    have h1 : uvOK 10 lw bs.length = true := h (lw, bs) (List.mem_cons_self)
    have ih := decBytess_enc bss rest (fun p hp => h p (List.mem_cons_of_mem _ hp))
    simp only [List.length_cons, List.flatMap_cons, encItem, List.append_assoc, decBytess]
    rw [readU_uvarintW lw 10 bs.length _ h1]
    simp only []
    rw [List.drop_left' (length_uvarintW lw bs.length)]
    rw [if_neg (by simp)]
    rw [List.drop_left' rfl, List.take_left' rfl, ih]

theorem decOffs_enc : ∀ (os : List Int) (rest : Bytes), (∀ o ∈ os, int16 o) →
    decOffs os.length (os.flatMap be16 ++ rest) = some (os, rest)
  | [], rest, _ => rfl
  | o :: os, rest, h => by
    have h1 := h o (List.mem_cons_self)
    have ih := decOffs_enc os rest (fun p hp => h p (List.mem_cons_of_mem _ hp))
    simp only [List.length_cons, List.flatMap_cons, be16, List.cons_append, List.nil_append, decOffs]
    rw [ih, dec16_be16 o h1.1 h1.2]

/-- decoding what was encoded (one immediate) -/
theorem decImm_enc (plen kind : Nat) (im : RImm) (rest : Bytes) (h : RImmOK kind im) (hc : immCount im ≤ plen) :
    decImm plen kind (encImm im ++ rest) = some (im, rest) := by
  cases im with
  | byte b =>
    simp only [RImmOK] at h
    rcases h with rfl | rfl <;> rfl
  | off2 o =>
    obtain ⟨rfl, h1, h2⟩ := h
    simp only [decImm, encImm, be16, List.cons_append, List.nil_append, decOff2]
    rw [dec16_be16 o h1 h2]
  | voff o w =>
    obtain ⟨rfl, h1⟩ := h
    simp only [decImm, encImm, decVoff]
    rw [readU_uvarintW w 10 (zz o) rest h1]
    simp only [unzz_zz, List.drop_left' (length_uvarintW w (zz o))]
  | uint v w =>
    obtain ⟨rfl, h1⟩ := h
    simp only [decImm, encImm, decUint]
    rw [readU_uvarintW w 10 v rest h1]
    simp only [List.drop_left' (length_uvarintW w v)]
  | bytes lw bs =>
    obtain ⟨rfl, h1⟩ := h
    simp only [decImm, encImm, List.append_assoc, decBytes]
    rw [readU_uvarintW lw 10 bs.length _ h1]
    simp only [List.drop_left' (length_uvarintW lw bs.length)]
    rw [if_neg (by simp), List.drop_left' rfl, List.take_left' rfl]
  | ints cw vs =>
    obtain ⟨rfl, h1, h2⟩ := h
    simp only [immCount] at hc
    simp only [decImm, encImm, List.append_assoc, decIntsImm]
    rw [readU_uvarintW cw 10 vs.length _ h1]
    simp only [List.drop_left' (length_uvarintW cw vs.length)]
    rw [if_neg (by omega), decInts_enc vs rest h2]
  | bytess cw bss =>
    obtain ⟨rfl, h1, h2⟩ := h
    simp only [immCount] at hc
    simp only [decImm, encImm, List.append_assoc, decBytessImm]
    rw [readU_uvarintW cw 10 bss.length _ h1]
    simp only [List.drop_left' (length_uvarintW cw bss.length)]
    rw [if_neg (by omega), decBytess_enc bss rest h2]
  | offs os =>
    obtain ⟨rfl, h1⟩ := h
    simp only [decImm, encImm, List.cons_append, decOffsImm]
    simp only [decOffs_enc os rest h1]

/-- immediates match the kinds of the spec, one by one -/
def RImmsOK : List Nat → List RImm → Prop
  | [], [] => True
  | k :: ks, i :: is => RImmOK k i ∧ RImmsOK ks is
  | _, _ => False

theorem decImms_enc (plen : Nat) : ∀ (ks : List Nat) (ims : List RImm) (rest : Bytes), RImmsOK ks ims →
    (∀ i ∈ ims, immCount i ≤ plen) → decImms plen ks (ims.flatMap encImm ++ rest) = some (ims, rest)
  | [], [], rest, _, _ => rfl
  | [], _ :: _, _, h, _ => by simp [RImmsOK] at h
  | _ :: _, [], _, h, _ => by simp [RImmsOK] at h
  | k :: ks, i :: is, rest, h, hc => by
    obtain ⟨h1, h2⟩ := h
    simp only [List.flatMap_cons, List.append_assoc, decImms]
    rw [decImm_enc plen k i _ h1 (hc i List.mem_cons_self)]
    simp only []
    rw [decImms_enc plen ks is rest h2 (fun j hj => hc j (List.mem_cons_of_mem _ hj))]

/-- the table returns `s` for its own opcode (and sub-opcode) bytes -/
def Reg (look : Nat → Option Nat → Option Spec) (s : Spec) : Prop :=
  ∀ next, (s.sub ≠ 0 → next = some s.sub) → look s.opcode next = some s

/-- whatever the table returns sits under the opcode byte looked up, a multi-byte spec under its sub-opcode byte -/
def LookSound (look : Nat → Option Nat → Option Spec) : Prop :=
  ∀ op next s, look op next = some s → s.opcode = op ∧ (s.sub ≠ 0 → next = some s.sub)

def RInstrOK (look : Nat → Option Nat → Option Spec) (r : RInstr) : Prop :=
  Reg look r.spec ∧ RImmsOK (kindsOf r.spec) r.imms

theorem decInstr_enc (look : Nat → Option Nat → Option Spec) (plen : Nat) (r : RInstr) (rest : Bytes)
    (h : RInstrOK look r) (hc : ∀ i ∈ r.imms, immCount i ≤ plen) :
    decInstr look plen (encInstr r ++ rest) = some (r, rest) := by
  obtain ⟨hreg, hims⟩ := h
  unfold encInstr subBytes
  by_cases hs : r.spec.sub ≠ 0
  · rw [if_pos hs]
    simp only [List.cons_append, List.nil_append, decInstr, List.head?_cons]
    rw [hreg (some r.spec.sub) (fun _ => rfl)]
    simp only [if_pos hs]
    rw [decImms_enc plen _ _ rest hims hc]
  · rw [if_neg hs]
    simp only [List.cons_append, List.nil_append, decInstr]
    rw [hreg _ (fun h => absurd h hs)]
    simp only [if_neg hs]
    rw [decImms_enc plen _ _ rest hims hc]

theorem encInstr_ne_nil (r : RInstr) : encInstr r ≠ [] := by simp [encInstr]

theorem length_encInstr_pos (r : RInstr) : 1 ≤ (encInstr r).length := by simp [encInstr]

theorem encRaw_cons (r : RInstr) (rs : List RInstr) : encRaw (r :: rs) = encInstr r ++ encRaw rs := by
  simp [encRaw]

/-- decoding what was encoded (whole program body) -/
theorem decRaw_enc (look : Nat → Option Nat → Option Spec) (plen : Nat) : ∀ (rs : List RInstr) (fuel : Nat),
    (∀ r ∈ rs, RInstrOK look r) → (∀ r ∈ rs, ∀ i ∈ r.imms, immCount i ≤ plen) → (encRaw rs).length ≤ fuel →
    decRaw look plen fuel (encRaw rs) = some rs
  | [], fuel, _, _, _ => by cases fuel <;> rfl
  | r :: rs, fuel, h, hc, hf => by
    rw [encRaw_cons] at hf ⊢
    have hpos := length_encInstr_pos r
    rw [List.length_append] at hf
    obtain ⟨f, rfl⟩ : ∃ f, fuel = f + 1 := ⟨fuel - 1, by omega⟩
    obtain ⟨x, xs, hx⟩ : ∃ x xs, encInstr r ++ encRaw rs = x :: xs := by
      cases hh : encInstr r ++ encRaw rs with
      | nil => simp [encInstr] at hh
      | cons x xs => exact ⟨x, xs, rfl⟩
    rw [hx]
    simp only [decRaw]
    rw [← hx, decInstr_enc look plen r _ (h r List.mem_cons_self) (hc r List.mem_cons_self)]
    simp only []
    rw [decRaw_enc look plen rs f (fun q hq => h q (List.mem_cons_of_mem _ hq))
      (fun q hq => hc q (List.mem_cons_of_mem _ hq)) (by omega)]

/-! ### the other direction: what decodes re-encodes to the same bytes -/

theorem decInts_inv : ∀ (n : Nat) (bs : Bytes) (vs : List (Nat × Nat)) (rest : Bytes), IsBytes bs →
    decInts n bs = some (vs, rest) →
    bs = vs.flatMap (fun p => uvarintW p.2 p.1) ++ rest ∧ vs.length = n ∧ (∀ p ∈ vs, uvOK 10 p.2 p.1 = true)
  | 0, bs, vs, rest, _, h => by
    simp only [decInts, Option.some.injEq, Prod.mk.injEq] at h
    obtain ⟨rfl, rfl⟩ := h
    simp
  | n + 1, bs, vs, rest, hb, h => by
    simp only [decInts] at h
    cases hr : readU bs 10 with
    | none => simp [hr] at h
    | some p =>
      obtain ⟨v, k⟩ := p
      simp only [hr] at h
      cases hd : decInts n (bs.drop k) with
      | none => rw [hd] at h; cases h
      | some q =>
        obtain ⟨vs', rest'⟩ := q
        simp only [hd, Option.some.injEq, Prod.mk.injEq] at h
        obtain ⟨rfl, rfl⟩ := h
        obtain ⟨e1, ok1⟩ := readU_inv bs 10 v k hb hr
        obtain ⟨e2, l2, ok2⟩ := decInts_inv n (bs.drop k) vs' rest' (isBytes_drop k hb) hd
        refine ⟨?_, by simp [l2], ?_⟩
        · simp only [List.flatMap_cons, List.append_assoc]
          rw [← e2]; exact e1
        · intro p hp
          rcases List.mem_cons.mp hp with rfl | hp
          · exact ok1
          · exact ok2 p hp

theorem decBytess_inv : ∀ (n : Nat) (bs : Bytes) (bss : List (Nat × Bytes)) (rest : Bytes), IsBytes bs →
    decBytess n bs = some (bss, rest) →
    bs = bss.flatMap encItem ++ rest ∧ bss.length = n ∧ (∀ p ∈ bss, uvOK 10 p.1 p.2.length = true)
  | 0, bs, bss, rest, _, h => by
    simp only [decBytess, Option.some.injEq, Prod.mk.injEq] at h
    obtain ⟨rfl, rfl⟩ := h
    simp
  | n + 1, bs, bss, rest, hb, h => by
    simp only [decBytess] at h
    cases hr : readU bs 10 with
    | none => simp [hr] at h
    | some p =>
      obtain ⟨l, k⟩ := p
      simp only [hr] at h
      by_cases hl : (bs.drop k).length < l
      · rw [if_pos hl] at h; cases h
      · rw [if_neg hl] at h
        cases hd : decBytess n ((bs.drop k).drop l) with
        | none => rw [hd] at h; cases h
        | some q =>
          obtain ⟨bss', rest'⟩ := q
          simp only [hd, Option.some.injEq, Prod.mk.injEq] at h
          obtain ⟨rfl, rfl⟩ := h
          obtain ⟨e1, ok1⟩ := readU_inv bs 10 l k hb hr
          obtain ⟨e2, l2, ok2⟩ := decBytess_inv n _ bss' rest' (isBytes_drop l (isBytes_drop k hb)) hd
          have hlen : ((bs.drop k).take l).length = l := by rw [List.length_take]; omega
          refine ⟨?_, by simp [l2], ?_⟩
          · simp only [List.flatMap_cons, encItem, List.append_assoc, hlen]
            rw [← e2, List.take_append_drop]; exact e1
          · intro p hp
            rcases List.mem_cons.mp hp with rfl | hp
            · simpa [hlen] using ok1
            · exact ok2 p hp

theorem decOffs_inv : ∀ (n : Nat) (bs : Bytes) (os : List Int) (rest : Bytes), IsBytes bs →
    decOffs n bs = some (os, rest) →
    bs = os.flatMap be16 ++ rest ∧ os.length = n ∧ (∀ o ∈ os, int16 o)
  | 0, bs, os, rest, _, h => by
    simp only [decOffs, Option.some.injEq, Prod.mk.injEq] at h
    obtain ⟨rfl, rfl⟩ := h
    simp
  | n + 1, [], os, rest, _, h => by simp [decOffs] at h
  | n + 1, [_], os, rest, _, h => by simp [decOffs] at h
  | n + 1, hi :: lo :: bs, os, rest, hb, h => by
    simp only [decOffs] at h
    rw [isBytes_cons, isBytes_cons] at hb
    cases hd : decOffs n bs with
    | none => rw [hd] at h; cases h
    | some q =>
      obtain ⟨os', rest'⟩ := q
      simp only [hd, Option.some.injEq, Prod.mk.injEq] at h
      obtain ⟨rfl, rfl⟩ := h
      obtain ⟨e2, l2, ok2⟩ := decOffs_inv n bs os' rest' hb.2.2 hd
      refine ⟨?_, by simp [l2], ?_⟩
      · simp only [List.flatMap_cons, be16_dec16 hi lo hb.1 hb.2.1, List.cons_append, List.nil_append]
        rw [← e2]
      · intro o ho
        rcases List.mem_cons.mp ho with rfl | ho
        · exact dec16_range hi lo hb.1 hb.2.1
        · exact ok2 o ho

/-- one immediate: the bytes consumed are exactly its encoding -/
theorem decImm_inv (plen kind : Nat) (bs : Bytes) (im : RImm) (rest : Bytes) (hb : IsBytes bs)
    (h : decImm plen kind bs = some (im, rest)) : bs = encImm im ++ rest ∧ RImmOK kind im := by
  unfold decImm at h
  split at h
  · cases bs with
    | nil => simp [decByte] at h
    | cons b r =>
      simp only [decByte, Option.some.injEq, Prod.mk.injEq] at h
      obtain ⟨rfl, rfl⟩ := h
      exact ⟨rfl, Or.inl rfl⟩
  · cases bs with
    | nil => simp [decByte] at h
    | cons b r =>
      simp only [decByte, Option.some.injEq, Prod.mk.injEq] at h
      obtain ⟨rfl, rfl⟩ := h
      exact ⟨rfl, Or.inr rfl⟩
  · match bs, h, hb with
    | hi :: lo :: r, h, hb =>
      simp only [decOff2, Option.some.injEq, Prod.mk.injEq] at h
      obtain ⟨rfl, rfl⟩ := h
      rw [isBytes_cons, isBytes_cons] at hb
      exact ⟨by simp [encImm, be16_dec16 hi lo hb.1 hb.2.1], rfl, dec16_range hi lo hb.1 hb.2.1⟩
    | [], h, _ => simp [decOff2] at h
    | [_], h, _ => simp [decOff2] at h
  · simp only [decUint] at h
    cases hr : readU bs 10 with
    | none => simp [hr] at h
    | some p =>
      obtain ⟨v, k⟩ := p
      simp only [hr, Option.some.injEq, Prod.mk.injEq] at h
      obtain ⟨rfl, rfl⟩ := h
      obtain ⟨e1, ok1⟩ := readU_inv bs 10 v k hb hr
      exact ⟨e1, rfl, ok1⟩
  · simp only [decBytes] at h
    cases hr : readU bs 10 with
    | none => simp [hr] at h
    | some p =>
      obtain ⟨l, k⟩ := p
      simp only [hr] at h
      by_cases hl : (bs.drop k).length < l
      · rw [if_pos hl] at h; cases h
      · rw [if_neg hl] at h
        simp only [Option.some.injEq, Prod.mk.injEq] at h
        obtain ⟨rfl, rfl⟩ := h
        obtain ⟨e1, ok1⟩ := readU_inv bs 10 l k hb hr
        have hlen : ((bs.drop k).take l).length = l := by rw [List.length_take]; omega
        refine ⟨?_, rfl, by simpa [hlen] using ok1⟩
        simp only [encImm, hlen, List.append_assoc, List.take_append_drop]
        exact e1
  · simp only [decIntsImm] at h
    cases hr : readU bs 10 with
    | none => simp [hr] at h
    | some p =>
      obtain ⟨n, k⟩ := p
      simp only [hr] at h
      by_cases hl : plen < n
      · rw [if_pos hl] at h; cases h
      · rw [if_neg hl] at h
        cases hd : decInts n (bs.drop k) with
        | none => rw [hd] at h; cases h
        | some q =>
          obtain ⟨vs, r⟩ := q
          simp only [hd, Option.some.injEq, Prod.mk.injEq] at h
          obtain ⟨rfl, rfl⟩ := h
          obtain ⟨e1, ok1⟩ := readU_inv bs 10 n k hb hr
          obtain ⟨e2, l2, ok2⟩ := decInts_inv n _ vs r (isBytes_drop k hb) hd
          refine ⟨?_, rfl, by rw [l2]; exact ok1, ok2⟩
          simp only [encImm, l2, List.append_assoc]
          rw [← e2]; exact e1
  · simp only [decBytessImm] at h
    cases hr : readU bs 10 with
    | none => simp [hr] at h
    | some p =>
      obtain ⟨n, k⟩ := p
      simp only [hr] at h
      by_cases hl : plen < n
      · rw [if_pos hl] at h; cases h
      · rw [if_neg hl] at h
        cases hd : decBytess n (bs.drop k) with
        | none => rw [hd] at h; cases h
        | some q =>
          obtain ⟨bss, r⟩ := q
          simp only [hd, Option.some.injEq, Prod.mk.injEq] at h
          obtain ⟨rfl, rfl⟩ := h
          obtain ⟨e1, ok1⟩ := readU_inv bs 10 n k hb hr
          obtain ⟨e2, l2, ok2⟩ := decBytess_inv n _ bss r (isBytes_drop k hb) hd
          refine ⟨?_, rfl, by rw [l2]; exact ok1, ok2⟩
          simp only [encImm, l2, List.append_assoc]
          rw [← e2]; exact e1
  · cases bs with
    | nil => simp [decOffsImm] at h
    | cons n r =>
      simp only [decOffsImm] at h
      rw [isBytes_cons] at hb
      cases hd : decOffs n r with
      | none => rw [hd] at h; cases h
      | some q =>
        obtain ⟨os, r'⟩ := q
        simp only [hd, Option.some.injEq, Prod.mk.injEq] at h
        obtain ⟨rfl, rfl⟩ := h
        obtain ⟨e2, l2, ok2⟩ := decOffs_inv n r os r' hb.2 hd
        refine ⟨?_, rfl, ok2⟩
        simp only [encImm, l2, List.cons_append]
        rw [← e2]
  · simp only [decVoff] at h
    cases hr : readU bs 10 with
    | none => simp [hr] at h
    | some p =>
      obtain ⟨u, k⟩ := p
      simp only [hr, Option.some.injEq, Prod.mk.injEq] at h
      obtain ⟨rfl, rfl⟩ := h
      obtain ⟨e1, ok1⟩ := readU_inv bs 10 u k hb hr
      refine ⟨?_, rfl, by rw [zz_unzz]; exact ok1⟩
      simp only [encImm, zz_unzz]
      exact e1
  · simp at h

theorem isBytes_of_eq_append {bs a rest : Bytes} (e : bs = a ++ rest) (hb : IsBytes bs) : IsBytes rest := by
  rw [e, isBytes_append] at hb; exact hb.2

theorem decImms_inv (plen : Nat) : ∀ (ks : List Nat) (bs : Bytes) (ims : List RImm) (rest : Bytes), IsBytes bs →
    decImms plen ks bs = some (ims, rest) → bs = ims.flatMap encImm ++ rest ∧ RImmsOK ks ims
  | [], bs, ims, rest, _, h => by
    simp only [decImms, Option.some.injEq, Prod.mk.injEq] at h
    obtain ⟨rfl, rfl⟩ := h
    exact ⟨rfl, trivial⟩
  | k :: ks, bs, ims, rest, hb, h => by
    simp only [decImms] at h
    cases h1 : decImm plen k bs with
    | none => simp [h1] at h
    | some p =>
      obtain ⟨i, r⟩ := p
      simp only [h1] at h
      cases h2 : decImms plen ks r with
      | none => simp [h2] at h
      | some q =>
        obtain ⟨is, r'⟩ := q
        simp only [h2, Option.some.injEq, Prod.mk.injEq] at h
        obtain ⟨rfl, rfl⟩ := h
        obtain ⟨e1, ok1⟩ := decImm_inv plen k bs i r hb h1
        obtain ⟨e2, ok2⟩ := decImms_inv plen ks r is r' (isBytes_of_eq_append e1 hb) h2
        refine ⟨?_, ok1, ok2⟩
        simp only [List.flatMap_cons, List.append_assoc]
        rw [← e2]; exact e1

theorem decInstr_inv (look : Nat → Option Nat → Option Spec) (hl : LookSound look) (plen : Nat) (bs : Bytes) (r : RInstr)
    (rest : Bytes) (hb : IsBytes bs) (h : decInstr look plen bs = some (r, rest)) :
    bs = encInstr r ++ rest ∧ RImmsOK (kindsOf r.spec) r.imms ∧ look r.spec.opcode (bs.drop 1).head? = some r.spec := by
  cases bs with
  | nil => simp [decInstr] at h
  | cons op tl =>
    simp only [decInstr] at h
    rw [isBytes_cons] at hb
    cases hs : look op tl.head? with
    | none => simp [hs] at h
    | some s =>
      simp only [hs] at h
      obtain ⟨ho, hsub⟩ := hl op tl.head? s hs
      by_cases hne : s.sub ≠ 0
      · simp only [if_pos hne] at h
        cases tl with
        | nil => simp at h
        | cons b body =>
          simp only [] at h
          cases hd : decImms plen (kindsOf s) body with
          | none => rw [hd] at h; cases h
          | some q =>
            obtain ⟨ims, r'⟩ := q
            simp only [hd, Option.some.injEq, Prod.mk.injEq] at h
            obtain ⟨rfl, rfl⟩ := h
            rw [isBytes_cons] at hb
            obtain ⟨e2, ok2⟩ := decImms_inv plen _ body ims r' hb.2.2 hd
            have hb' : b = s.sub := by
              have := hsub hne
              simpa using this
            refine ⟨?_, ok2, ?_⟩
            · simp only [encInstr, subBytes, if_pos hne, ho, hb', List.cons_append, List.nil_append, List.append_assoc]
              rw [← e2]
            · simp only [List.drop_succ_cons, List.drop_zero, ho]; exact hs
      · simp only [if_neg hne] at h
        cases hd : decImms plen (kindsOf s) tl with
        | none => rw [hd] at h; cases h
        | some q =>
          obtain ⟨ims, r'⟩ := q
          simp only [hd, Option.some.injEq, Prod.mk.injEq] at h
          obtain ⟨rfl, rfl⟩ := h
          obtain ⟨e2, ok2⟩ := decImms_inv plen _ tl ims r' hb.2 hd
          refine ⟨?_, ok2, ?_⟩
          · simp only [encInstr, subBytes, if_neg hne, ho, List.cons_append, List.nil_append]
            rw [← e2]
          · simp only [List.drop_succ_cons, List.drop_zero, ho]; exact hs

/-- what `decRaw` accepts re-encodes to exactly the same bytes -/
theorem decRaw_inv (look : Nat → Option Nat → Option Spec) (hl : LookSound look) (plen : Nat) :
    ∀ (fuel : Nat) (bs : Bytes) (rs : List RInstr), IsBytes bs → decRaw look plen fuel bs = some rs →
    encRaw rs = bs ∧ ∀ r ∈ rs, RImmsOK (kindsOf r.spec) r.imms
  | fuel, [], rs, _, h => by
    cases fuel <;> simp only [decRaw, Option.some.injEq] at h <;> subst h <;> simp [encRaw]
  | 0, _ :: _, rs, _, h => by simp [decRaw] at h
  | fuel + 1, x :: xs, rs, hb, h => by
    simp only [decRaw] at h
    cases h1 : decInstr look plen (x :: xs) with
    | none => simp [h1] at h
    | some p =>
      obtain ⟨r, rest⟩ := p
      simp only [h1] at h
      cases h2 : decRaw look plen fuel rest with
      | none => simp [h2] at h
      | some rs' =>
        simp only [h2, Option.some.injEq] at h
        subst h
        obtain ⟨e1, ok1, _⟩ := decInstr_inv look hl plen (x :: xs) r rest hb h1
        obtain ⟨e2, ok2⟩ := decRaw_inv look hl plen fuel rest rs' (isBytes_of_eq_append e1 hb) h2
        refine ⟨by rw [encRaw_cons, e2, ← e1], ?_⟩
        intro q hq
        rcases List.mem_cons.mp hq with rfl | hq
        · exact ok1
        · exact ok2 q hq

/-- every decoded instruction carries a spec the table returned for its opcode byte, and immediates of its kinds -/
theorem decRaw_regs (look : Nat → Option Nat → Option Spec) (hl : LookSound look) (plen : Nat) :
    ∀ (fuel : Nat) (bs : Bytes) (rs : List RInstr), IsBytes bs → decRaw look plen fuel bs = some rs →
    encRaw rs = bs ∧ ∀ r ∈ rs, RImmsOK (kindsOf r.spec) r.imms ∧ ∃ next, look r.spec.opcode next = some r.spec
  | fuel, [], rs, _, h => by
    cases fuel <;> simp only [decRaw, Option.some.injEq] at h <;> subst h <;> simp [encRaw]
  | 0, _ :: _, rs, _, h => by simp [decRaw] at h
  | fuel + 1, x :: xs, rs, hb, h => by
    simp only [decRaw] at h
    cases h1 : decInstr look plen (x :: xs) with
    | none => simp [h1] at h
    | some p =>
      obtain ⟨r, rest⟩ := p
      simp only [h1] at h
      cases h2 : decRaw look plen fuel rest with
      | none => simp [h2] at h
      | some rs' =>
        simp only [h2, Option.some.injEq] at h
        subst h
        obtain ⟨e1, ok1, lk⟩ := decInstr_inv look hl plen (x :: xs) r rest hb h1
        obtain ⟨e2, ok2⟩ := decRaw_regs look hl plen fuel rest rs' (isBytes_of_eq_append e1 hb) h2
        refine ⟨by rw [encRaw_cons, e2, ← e1], ?_⟩
        intro q hq
        rcases List.mem_cons.mp hq with rfl | hq
        · exact ⟨ok1, _, lk⟩
        · exact ok2 q hq

end Lemmas.AsmFormat
