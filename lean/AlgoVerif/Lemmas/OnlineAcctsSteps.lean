import AlgoVerif.Lemmas.OnlineAcctsCommit
/-! C13: the invariant under the remaining steps (genesis, cache fills, new block, queries, voters loads, reload). -/
namespace AlgoVerif.Lemmas.OnlineAccts
open AlgoVerif.Spec.OnlineHistory AlgoVerif.Model.OnlineAccts

/-- the invariant only reads the history, the tables, the deltas, the in-memory parameters and the cache -/
theorem InvCore.of_eq {σ σ' : State} {M : Nat} (inv : InvCore σ M)
    (h1 : σ'.protos = σ.protos) (h2 : σ'.univ = σ.univ) (h3 : σ'.gen = σ.gen) (h4 : σ'.ledger = σ.ledger)
    (h5 : σ'.dbRound = σ.dbRound) (h6 : σ'.db = σ.db) (h7 : σ'.dbParamsStart = σ.dbParamsStart)
    (h8 : σ'.dbParams = σ.dbParams) (h9 : σ'.deltas = σ.deltas) (h10 : σ'.params = σ.params)
    (h11 : σ'.cache = σ.cache) : InvCore σ' M := by
  cases σ; cases σ'
  simp only at h1 h2 h3 h4 h5 h6 h7 h8 h9 h10 h11
  subst h1 h2 h3 h4 h5 h6 h7 h8 h9 h10 h11
  exact
    { pwf := inv.pwf, valid := inv.valid, huniv := inv.huniv, hdb := inv.hdb, hdeltas := inv.hdeltas,
      hparams := inv.hparams, hdbparams := inv.hdbparams, hH := inv.hH, hrows := inv.hrows,
      hlook := inv.hlook, hcache := inv.hcache }

/-- any cache whose lists are the DB rows of their address (or absent) is fine -/
theorem InvCore.with_cache {σ : State} {M : Nat} (inv : InvCore σ M) (c : Addr → List Ent)
    (hc : ∀ a, c a = [] ∨ c a = (σ.db a).map entOf ∨ c a = σ.cache a) : InvCore { σ with cache := c } M := by
  refine
    { pwf := inv.pwf, valid := inv.valid, huniv := inv.huniv, hdb := inv.hdb, hdeltas := inv.hdeltas,
      hparams := inv.hparams, hdbparams := inv.hdbparams, hH := inv.hH, hrows := inv.hrows,
      hlook := inv.hlook, hcache := ?_ }
  intro a
  show EntSorted (c a) ∧ EntBelow (c a) (σ.dbRound + 1) ∧
    ∀ rnd r, σ.dbParamsStart ≤ rnd → rnd ≤ σ.dbRound → cacheRead (c a) rnd = some r → r = recAt σ.hist rnd a
  rcases hc a with h | h | h
  · rw [h]; simp [EntSorted, EntBelow, cacheRead]
  · rw [h]
    obtain ⟨hs, hb, _⟩ := inv.hrows a
    refine ⟨entSorted_map hs, entBelow_map hb, ?_⟩
    intro rnd r h1 h2 hr
    rw [cacheRead_map] at hr
    have := inv.hlook a rnd h1 h2
    cases hrow : rowAt (σ.db a) rnd with
    | none => rw [hrow] at hr; simp at hr
    | some row =>
      rw [hrow] at hr this
      simp only [Option.map_some, Option.some.injEq] at hr
      rw [← hr]; exact this
  · rw [h]; exact inv.hcache a

theorem initCache_cases (univ : List Addr) (db : Addr → List Row) (max : Nat) (a : Addr) :
    initCache univ db max a = [] ∨ initCache univ db max a = (db a).map entOf := by
  unfold initCache
  by_cases h : (List.take max (List.filter (fun a => !(db a).isEmpty) univ)).contains a = true
  · right; simp only [h, if_true]; rfl
  · left; simp only [h]; rfl

theorem InvCore.shrink_inv {σ : State} {M : Nat} (inv : InvCore σ M) (k : Nat) : InvCore (shrink σ k) M := by
  have := inv.with_cache (initCache σ.univ σ.db k) (fun a => by
    rcases initCache_cases σ.univ σ.db k a with h | h
    · exact Or.inl h
    · exact Or.inr (Or.inl h))
  exact this.of_eq rfl rfl rfl rfl rfl rfl rfl rfl rfl rfl rfl

/-- a lookup changes at most the cache slot of its address, to the DB rows of that address or to nothing -/
theorem InvCore.lookup_inv {σ : State} {M : Nat} (inv : InvCore σ M) (rnd : Nat) (a : Addr) :
    InvCore (lookupOnline σ rnd a).2 M ∧ (lookupOnline σ rnd a).2.hist = σ.hist ∧
    (lookupOnline σ rnd a).2.expCache = σ.expCache ∧ (lookupOnline σ rnd a).2.voters = σ.voters := by
  unfold lookupOnline
  split
  · exact ⟨inv, rfl, rfl, rfl⟩
  · split
    · exact ⟨inv, rfl, rfl, rfl⟩
    · simp only
      split
      · exact ⟨inv, rfl, rfl, rfl⟩
      · split
        · exact ⟨inv, rfl, rfl, rfl⟩
        · unfold dbLookupFill
          split
          · exact ⟨inv, rfl, rfl, rfl⟩
          · simp only
            have hclear : InvCore { σ with cache := fun b => if b = a then [] else σ.cache b } M :=
              inv.with_cache _ (fun b => by by_cases hb : b = a <;> simp [hb])
            split
            · exact ⟨hclear, by first | rfl | trivial, by first | rfl | trivial, by first | rfl | trivial⟩
            · rw [writeHistory_rows (inv.hrows a).1]
              simp only
              refine ⟨inv.with_cache _ (fun b => ?_), by first | rfl | trivial, by first | rfl | trivial, by first | rfl | trivial⟩
              by_cases hb : b = a
              · subst hb; simp
              · simp [hb]


/-! ### a new block -/

/-- the part of `newBlockImpl` before the voters tracker: the block goes to the store, its delta and parameters in memory -/
def appendBlock (σ : State) (b : Block) : State :=
  { σ with ledger := σ.ledger ++ [b], deltas := σ.deltas ++ [b.deltas], params := σ.params ++ [Block.params b] }

theorem newBlock_eq (σ : State) (b : Block) : newBlock σ b = votersNewBlock (appendBlock σ b) (σ.latest + 1) b := rfl

theorem appendBlock_hist (σ : State) (b : Block) : (appendBlock σ b).hist = σ.hist.push b := rfl

theorem InvCore.appendBlock_inv {σ : State} {M : Nat} (inv : InvCore σ M) (b : Block) (hv : b.proto < σ.protos.length)
    (hu : ∀ e ∈ b.deltas, e.1 ∈ σ.univ) : InvCore (appendBlock σ b) M := by
  obtain ⟨s, hs1, hs2, hs3, hs4⟩ := inv.hparams
  have hdb := inv.hdb
  have hH := inv.horizon_le
  have hlatest : σ.hist.latest = σ.ledger.length := rfl
  have hcons : σ.gen :: (σ.ledger ++ [b]) = (σ.gen :: σ.ledger) ++ [b] := rfl
  refine
    { pwf := inv.pwf, valid := ?_, huniv := ?_, hdb := ?_, hdeltas := ?_, hparams := ?_, hdbparams := ?_, hH := inv.hH,
      hrows := inv.hrows, hlook := ?_, hcache := ?_ }
  · intro b' hb'
    show b'.proto < σ.protos.length
    have : b' ∈ (σ.gen :: σ.ledger) ++ [b] := hb'
    rcases List.mem_append.mp this with h | h
    · exact inv.valid b' h
    · simp at h; rw [h]; exact hv
  · intro b' hb' e he
    show e.1 ∈ σ.univ
    have : b' ∈ (σ.gen :: σ.ledger) ++ [b] := hb'
    rcases List.mem_append.mp this with h | h
    · exact inv.huniv b' h e he
    · simp at h; rw [h] at he; exact hu e he
  · show σ.dbRound ≤ (σ.ledger ++ [b]).length
    simp; omega
  · show σ.deltas ++ [b.deltas] = ((σ.ledger ++ [b]).drop σ.dbRound).map (·.deltas)
    rw [List.drop_append_of_le_length hdb, List.map_append, ← inv.hdeltas]; rfl
  · refine ⟨s, ?_, ?_, hs3, hs4⟩
    · show s + (σ.params ++ [Block.params b]).length = (σ.ledger ++ [b]).length + 1
      simp; omega
    · show σ.params ++ [Block.params b] = ((σ.gen :: (σ.ledger ++ [b])).drop s).map Block.params
      rw [hcons, List.drop_append_of_le_length (by simp; omega), List.map_append, ← hs2]; rfl
  · show σ.dbParams = (((σ.gen :: (σ.ledger ++ [b])).drop σ.dbParamsStart).take (σ.dbRound + 1 - σ.dbParamsStart)).map Block.params
    rw [hcons, List.drop_append_of_le_length (by simp; omega), List.take_append_of_le_length (by simp; omega)]
    exact inv.hdbparams
  · intro a rnd h1 h2
    have h2' : rnd ≤ σ.dbRound := h2
    show recOfRow (rowAt (σ.db a) rnd) = recAt (σ.hist.push b) rnd a
    rw [recAt_push σ.hist b rnd a (by omega)]
    exact inv.hlook a rnd h1 h2
  · intro a
    obtain ⟨h1, h2, h3⟩ := inv.hcache a
    refine ⟨h1, h2, ?_⟩
    intro rnd r hr1 hr2 hr
    have hr2' : rnd ≤ σ.dbRound := hr2
    show r = recAt (σ.hist.push b) rnd a
    rw [recAt_push σ.hist b rnd a (by omega)]
    exact h3 rnd r hr1 hr2 hr

theorem block?_le {h : Hist} {rnd : Nat} {b : Block} (hb : h.block? rnd = some b) : rnd ≤ h.latest := by
  unfold Hist.block? Hist.rounds at hb
  have := (List.getElem?_eq_some_iff.mp hb).1
  unfold Hist.latest
  simp at this
  omega

theorem expiredStake_push (h : Hist) (b : Block) (r v : Nat) (hr : r ≤ h.latest) :
    expiredStake (h.push b) r v = expiredStake h r v := by
  unfold expiredStake
  rw [block?_push h b r hr]
  cases h.block? r with
  | none => rfl
  | some blk =>
    simp only
    have : (h.push b).univ.map (fun a => expiredTerm (recAt (h.push b) r a) v (protoOf (h.push b).protos blk.proto).unit blk.level) =
        h.univ.map (fun a => expiredTerm (recAt h r a) v (protoOf h.protos blk.proto).unit blk.level) := by
      show h.univ.map _ = _
      apply List.map_congr_left
      intro a _
      rw [recAt_push h b r a hr]; rfl
    rw [this]

theorem expiredStake_ok_le {h : Hist} {r v x : Nat} (hx : expiredStake h r v = .ok x) : r ≤ h.latest := by
  unfold expiredStake at hx
  cases hb : h.block? r with
  | none => rw [hb] at hx; cases hx
  | some blk => exact block?_le hb

theorem InvExp.appendBlock_inv {σ : State} (iexp : InvExp σ) (b : Block) : InvExp (appendBlock σ b) := by
  intro rv x hl
  show expiredStake (σ.hist.push b) rv.1 rv.2 = .ok x
  have := iexp rv x hl
  rw [expiredStake_push σ.hist b rv.1 rv.2 (expiredStake_ok_le this)]
  exact this

end AlgoVerif.Lemmas.OnlineAccts
