/-
Lemmas about Model.Net.Slurper / Reader used by Props.C43: the reader contract, the well-formedness invariant of the
slurper, its preservation by every loop iteration of `Read`, and the loop rule (fuel suffices).
-/
import AlgoVerif.Model.Net
namespace Lemmas.NetSlurper
open Model.Net

variable {α : Type}

theorem allocationStep_eq : allocationStep = 65536 := by decide

/-! ### reader contract -/

/-- the script contains no non-EOF error -/
def NoFail (script : List RStep) : Prop := ∀ st ∈ script, ∀ n, st ≠ RStep.fail n

theorem NoFail.tail {a : RStep} {t : List RStep} (h : NoFail (a :: t)) : NoFail t :=
  fun st hst n => h st (List.mem_cons_of_mem _ hst) n

structure ReadSpec (r : Reader α) (space : Nat) (out : List α × RErr × Reader α) : Prop where
  split : out.1 ++ out.2.2.stream = r.stream
  len : out.1.length ≤ space
  eof : out.2.1 = RErr.eof → out.2.2.stream = []
  meas_le : out.2.2.measure ≤ r.measure
  meas_lt : out.2.1 = RErr.nil → 0 < space → out.2.2.measure < r.measure
  nofail : NoFail r.script → out.2.1 ≠ RErr.other ∧ NoFail out.2.2.script

theorem length_take_add_drop (l : List α) (m : Nat) : (l.take m).length + (l.drop m).length = l.length := by
  rw [← List.length_append, List.take_append_drop]

theorem read_spec (r : Reader α) (space : Nat) : ReadSpec r space (r.read space) := by
  obtain ⟨stream, script⟩ := r
  cases script with
  | nil =>
    by_cases he : stream.isEmpty
    · have : stream = [] := by simpa using he
      subst this
      refine ⟨by simp [Reader.read], by simp [Reader.read], by simp [Reader.read], by simp [Reader.read], ?_, ?_⟩
      · simp [Reader.read]
      · intro h; simp [Reader.read]; exact h
    · have hne : stream ≠ [] := by simpa using he
      have hlen : 0 < stream.length := List.length_pos_iff.mpr hne
      refine ⟨by simp [Reader.read, he], by simp [Reader.read, he]; omega, by simp [Reader.read, he], ?_, ?_, ?_⟩
      · simp [Reader.read, he, Reader.measure]
      · intro _ hsp
        simp [Reader.read, he, Reader.measure]
        omega
      · intro h; simp [Reader.read, he]; exact h
  | cons st t =>
    cases st with
    | chunk n =>
      refine ⟨by simp [Reader.read], by simp [Reader.read]; omega, by simp [Reader.read], ?_, ?_, ?_⟩
      · simp [Reader.read, Reader.measure]; omega
      · intro _ _; simp [Reader.read, Reader.measure]; omega
      · intro h; simp [Reader.read]; exact h.tail
    | chunkEof n =>
      refine ⟨by simp [Reader.read], by simp [Reader.read]; omega, ?_, ?_, ?_, ?_⟩
      · simp only [Reader.read]
        intro h
        split at h
        · rename_i he; simpa using he
        · cases h
      · simp [Reader.read, Reader.measure]; omega
      · intro _ _; simp [Reader.read, Reader.measure]; omega
      · intro h
        refine ⟨?_, by simp [Reader.read]; exact h.tail⟩
        simp only [Reader.read]
        split <;> simp
    | fail n =>
      refine ⟨by simp [Reader.read], by simp [Reader.read]; omega, by simp [Reader.read], ?_, ?_, ?_⟩
      · simp [Reader.read, Reader.measure]; omega
      · intro h; simp [Reader.read] at h
      · intro h; exact absurd rfl (h (RStep.fail n) List.mem_cons_self n)

/-! ### structural facts -/

theorem cur_setCur (s : Slurper α) (b : Buf α) : (s.setCur b).cur = b := by
  unfold Slurper.setCur Slurper.cur; cases s.extra <;> rfl

theorem size_setCur (s : Slurper α) (b : Buf α) :
    (s.setCur b).size + s.cur.data.length = s.size + b.data.length := by
  unfold Slurper.setCur Slurper.cur Slurper.size
  cases h : s.extra with
  | nil => simp; omega
  | cons c t => simp; omega

theorem capacity_setCur (s : Slurper α) (b : Buf α) :
    (s.setCur b).capacity + s.cur.cap = s.capacity + b.cap := by
  unfold Slurper.setCur Slurper.cur Slurper.capacity
  cases h : s.extra with
  | nil => simp; omega
  | cons c t => simp; omega

theorem bytes_setCur_append (s : Slurper α) (bs : List α) (c : Nat) :
    (s.setCur { data := s.cur.data ++ bs, cap := c }).bytes = s.bytes ++ bs := by
  unfold Slurper.setCur Slurper.cur Slurper.bytes
  cases h : s.extra with
  | nil => simp
  | cons b t => simp

theorem setCur_fields (s : Slurper α) (b : Buf α) :
    (s.setCur b).remained = s.remained ∧ (s.setCur b).bytesRead = s.bytesRead ∧ (s.setCur b).maxSize = s.maxSize ∧
    (s.setCur b).slots = s.slots ∧ (s.setCur b).extra.length = s.extra.length := by
  unfold Slurper.setCur; cases s.extra <;> simp

theorem setCur_base_cap (s : Slurper α) (b : Buf α) (hb : b.cap = s.cur.cap) :
    (s.setCur b).base.cap = s.base.cap := by
  unfold Slurper.setCur Slurper.cur at *; cases h : s.extra <;> simp_all

theorem setCur_extra_caps (s : Slurper α) (b : Buf α) (hb : b.cap = s.cur.cap) (P : Nat → Prop)
    (h : ∀ x ∈ s.extra, P x.cap) : ∀ x ∈ (s.setCur b).extra, P x.cap := by
  unfold Slurper.setCur Slurper.cur at *
  cases he : s.extra with
  | nil => simp
  | cons c t =>
    simp only [he] at hb h ⊢
    intro x hx
    rcases List.mem_cons.mp hx with rfl | hx
    · rw [hb]; exact h c List.mem_cons_self
    · exact h x (List.mem_cons_of_mem _ hx)

/-! ### the invariant -/

/-- reachable states of a slurper created with `maxAllocation = M` -/
structure WF (s : Slurper α) (M : Nat) : Prop where
  /-- everything allocated plus everything still allocatable is exactly maxAllocation -/
  total : s.capacity + s.remained = M
  cur_le : s.cur.data.length ≤ s.cur.cap
  /-- the only buffer with free room is the last one -/
  slack : s.size + s.cur.cap = s.capacity + s.cur.data.length
  size_le_read : s.size ≤ s.bytesRead
  /-- the property: never more than the per-message limit is held -/
  limit : 0 < s.maxSize → s.size ≤ s.maxSize
  extra_cap : ∀ b ∈ s.extra, b.cap ≤ allocationStep
  /-- `buffers` has a slot for every buffer that can still be allocated -/
  slots : s.extra.length + 1 + (s.remained + 65535) / 65536 ≤ s.slots

theorem WF.capacity_le {s : Slurper α} {M : Nat} (h : WF s M) : s.capacity ≤ M := by
  have := h.total; omega

theorem WF.size_le_capacity {s : Slurper α} {M : Nat} (h : WF s M) : s.size ≤ s.capacity := by
  have := h.slack; have := h.cur_le; omega

/-- allocation only ever runs one allocation step ahead of the bytes held (or is the base allocation) -/
theorem WF.capacity_slack {s : Slurper α} {M : Nat} (h : WF s M) :
    s.capacity ≤ s.base.cap ∨ s.capacity ≤ s.size + allocationStep := by
  have h3 := h.slack
  have h7 := h.extra_cap
  unfold Slurper.cur at h3
  cases he : s.extra with
  | nil =>
    left; unfold Slurper.capacity; simp [he]
  | cons b t =>
    right
    simp only [he] at h3
    have := h7 b (by simp [he])
    omega

theorem wf_make (b m : Nat) : WF (Slurper.make b m : Slurper α) m := by
  unfold Slurper.make
  refine ⟨?_, ?_, ?_, ?_, ?_, ?_, ?_⟩
  · simp only [Slurper.capacity]; split <;> (simp; try omega)
  · simp [Slurper.cur]
  · simp [Slurper.size, Slurper.capacity, Slurper.cur]
  · simp [Slurper.size]
  · simp
  · simp
  · simp only [allocationStep_eq]; simp <;> omega

theorem sum_caps_ceil (l : List (Buf α)) (h : ∀ b ∈ l, b.cap ≤ 65536) (a : Nat) :
    (a + (l.map (fun b => b.cap)).sum + 65535) / 65536 ≤ l.length + (a + 65535) / 65536 := by
  induction l generalizing a with
  | nil => simp
  | cons b t ih =>
    have hb := h b List.mem_cons_self
    have ih' := ih (fun x hx => h x (List.mem_cons_of_mem _ hx)) (a + b.cap)
    simp only [List.map_cons, List.sum_cons, List.length_cons]
    have e : a + (b.cap + (t.map (fun b => b.cap)).sum) = a + b.cap + (t.map (fun b => b.cap)).sum := by omega
    rw [e]
    omega

theorem wf_reset {s : Slurper α} {M : Nat} (h : WF s M) (n : Nat) : WF (s.reset n) M := by
  have ht := h.total
  have hs := h.slots
  have hc := h.extra_cap
  rw [allocationStep_eq] at hc
  have hsum := sum_caps_ceil s.extra hc s.remained
  unfold Slurper.reset
  refine ⟨?_, ?_, ?_, ?_, ?_, ?_, ?_⟩
  · simp only [Slurper.capacity] at ht ⊢; simp; omega
  · simp [Slurper.cur]
  · simp [Slurper.size, Slurper.capacity, Slurper.cur]
  · simp [Slurper.size]
  · simp [Slurper.size]
  · simp
  · simp only [List.length_nil]; omega

/-! ### one loop iteration -/

/-- the state handed on by one loop iteration (whether the loop continues or returns) -/
def StepOut.state : Slurper.StepOut α → Slurper α
  | Slurper.StepOut.cont s _ => s
  | Slurper.StepOut.done _ s _ => s

theorem wf_allocateNext {s s' : Slurper α} {M : Nat} (h : WF s M) (hfull : s.cur.cap ≤ s.cur.data.length)
    (hrem : s.remained ≠ 0) (ha : s.allocateNext = some s') :
    WF s' M ∧ s'.cur.data = [] ∧ 0 < s'.cur.cap ∧ s'.size = s.size ∧ s'.bytes = s.bytes ∧
      s'.bytesRead = s.bytesRead ∧ s'.maxSize = s.maxSize := by
  unfold Slurper.allocateNext at ha
  split at ha
  · rename_i hslot
    injection ha with ha
    subst ha
    have ht := h.total; have h2 := h.cur_le; have h3 := h.slack; have hsl := h.slots
    have hstep := allocationStep_eq
    refine ⟨⟨?_, ?_, ?_, ?_, ?_, ?_, ?_⟩, ?_, ?_, ?_, ?_, ?_, ?_⟩
    · simp only [Slurper.capacity] at ht ⊢; simp; omega
    · simp [Slurper.cur]
    · simp only [Slurper.size, Slurper.capacity, Slurper.cur] at h3 ⊢
      simp
      unfold Slurper.cur at hfull h2
      omega
    · have := h.size_le_read; simp only [Slurper.size] at this ⊢; simpa using this
    · have := h.limit; simp only [Slurper.size] at this ⊢; simpa using this
    · intro b hb
      rcases List.mem_cons.mp hb with rfl | hb
      · simp; omega
      · exact h.extra_cap b hb
    · simp only [List.length_cons]; rw [hstep]; omega
    · simp [Slurper.cur]
    · simp [Slurper.cur]; rw [hstep]; omega
    · simp [Slurper.size]
    · simp [Slurper.bytes]
    · rfl
    · rfl
  · cases ha

theorem allocateNext_isSome {s : Slurper α} {M : Nat} (h : WF s M) (hrem : s.remained ≠ 0) :
    s.allocateNext ≠ none := by
  unfold Slurper.allocateNext
  have := h.slots
  split
  · simp
  · rename_i hn; exfalso; omega


/-! ### `Size()` is the length of `Bytes()` -/

theorem flatten_rev_length (l : List (Buf α)) :
    ((l.reverse.map (fun b => b.data)).flatten).length = (l.map (fun b => b.data.length)).sum := by
  induction l with
  | nil => simp
  | cons b t ih =>
    rw [List.reverse_cons, List.map_append, List.flatten_append, List.length_append, ih]
    simp; omega

theorem size_eq_bytes_length (s : Slurper α) : s.size = s.bytes.length := by
  unfold Slurper.size Slurper.bytes
  rw [List.length_append, flatten_rev_length]

/-- committing the bytes of one reader call to the last buffer (`buffers[lastBuffer] = readBuffer[:len+n]`) -/
theorem wf_commit {M : Nat} {s : Slurper α} (hw : WF s M) (bs : List α)
    (hlen : bs.length ≤ s.cur.cap - s.cur.data.length)
    (hlim : ¬ (0 < s.maxSize ∧ s.maxSize < s.bytesRead + bs.length)) :
    WF (({ s with bytesRead := s.bytesRead + bs.length } : Slurper α).setCur { data := s.cur.data ++ bs, cap := s.cur.cap }) M ∧
    (({ s with bytesRead := s.bytesRead + bs.length } : Slurper α).setCur { data := s.cur.data ++ bs, cap := s.cur.cap }).size = s.size + bs.length ∧
    (({ s with bytesRead := s.bytesRead + bs.length } : Slurper α).setCur { data := s.cur.data ++ bs, cap := s.cur.cap }).bytes = s.bytes ++ bs ∧
    (({ s with bytesRead := s.bytesRead + bs.length } : Slurper α).setCur { data := s.cur.data ++ bs, cap := s.cur.cap }).maxSize = s.maxSize ∧
    (({ s with bytesRead := s.bytesRead + bs.length } : Slurper α).setCur { data := s.cur.data ++ bs, cap := s.cur.cap }).bytesRead = s.bytesRead + bs.length := by
  generalize hs1 : ({ s with bytesRead := s.bytesRead + bs.length } : Slurper α) = s1
  have e1 : s1.cur = s.cur := by rw [← hs1]; rfl
  have e2 : s1.size = s.size := by rw [← hs1]; rfl
  have e3 : s1.capacity = s.capacity := by rw [← hs1]; rfl
  have e4 : s1.remained = s.remained := by rw [← hs1]
  have e5 : s1.bytesRead = s.bytesRead + bs.length := by rw [← hs1]
  have e6 : s1.maxSize = s.maxSize := by rw [← hs1]
  have e7 : s1.slots = s.slots := by rw [← hs1]
  have e8 : s1.extra = s.extra := by rw [← hs1]
  have e9 : s1.bytes = s.bytes := by rw [← hs1]; rfl
  rw [← e1]
  generalize hb : ({ data := s1.cur.data ++ bs, cap := s1.cur.cap } : Buf α) = b
  have b1 : b.data.length = s1.cur.data.length + bs.length := by rw [← hb]; simp
  have b2 : b.cap = s1.cur.cap := by rw [← hb]
  have hsz := size_setCur s1 b
  have hcp := capacity_setCur s1 b
  have hf := setCur_fields s1 b
  have hbt := bytes_setCur_append s1 bs s1.cur.cap
  rw [hb] at hbt
  have hcs := cur_setCur s1 b
  have htot := hw.total; have h2 := hw.cur_le; have h3 := hw.slack; have h4 := hw.size_le_read
  rw [← e1] at h2 h3 hlen
  have hsize : (s1.setCur b).size = s.size + bs.length := by omega
  refine ⟨⟨?_, ?_, ?_, ?_, ?_, ?_, ?_⟩, hsize, by rw [hbt, e9], by rw [hf.2.2.1, e6], by rw [hf.2.1, e5]⟩
  · rw [hf.1]; omega
  · rw [hcs]; omega
  · rw [hcs, hsize]; omega
  · rw [hsize, hf.2.1]; omega
  · rw [hsize, hf.2.2.1, e6]; intro hpos; omega
  · exact setCur_extra_caps s1 b b2 (fun c => c ≤ allocationStep) (by rw [e8]; exact hw.extra_cap)
  · rw [hf.2.2.2.2, hf.1, hf.2.2.2.1, e8, e4, e7]; exact hw.slots

/-! ### the effective limit and the loop invariant -/

/-- what a message may hold at most: the per-message limit when there is one below maxAllocation, else maxAllocation -/
def effLimit (limit maxAlloc : Nat) : Nat := if limit = 0 ∨ maxAlloc < limit then maxAlloc else limit

/-- loop invariant of `Read` started on a freshly `Reset(n)` slurper over `stream0` -/
structure J (M n : Nat) (stream0 : List α) (P : Prop) (s : Slurper α) (r : Reader α) : Prop where
  wf : WF s M
  max : s.maxSize = n
  clean : s.size = s.bytesRead
  bytes : s.bytes ++ r.stream = stream0
  nofail : P → NoFail r.script

/-- what holds when `Read` returns -/
structure Q (M n : Nat) (stream0 : List α) (P : Prop) (res : ReadResult) (s : Slurper α) (r : Reader α) : Prop where
  wf : WF s M
  max : s.maxSize = n
  pfx : ∃ rest, s.bytes ++ rest = stream0
  ok : res = ReadResult.ok → s.bytes = stream0 ∧ r.stream = [] ∧ stream0.length ≤ effLimit n M
  tooLarge : res = ReadResult.tooLarge → effLimit n M < stream0.length
  noIo : P → res ≠ ReadResult.ioErr
  noPanic : res ≠ ReadResult.panic
  noFuel : res ≠ ReadResult.outOfFuel

theorem readInto_spec {M n : Nat} {stream0 : List α} {P : Prop} {s : Slurper α} {r : Reader α}
    (h : J M n stream0 P s r) (hroom : s.cur.data.length < s.cur.cap) :
    match s.readInto r with
    | Slurper.StepOut.cont s' r' => J M n stream0 P s' r' ∧ r'.measure < r.measure
    | Slurper.StepOut.done res s' r' => Q M n stream0 P res s' r' := by
  have hrs := read_spec r (s.cur.cap - s.cur.data.length)
  have hwf := h.wf
  have hmax := h.max
  have hclean := h.clean
  have hbytes := h.bytes
  unfold Slurper.readInto
  simp only []
  generalize r.read (s.cur.cap - s.cur.data.length) = out at hrs ⊢
  obtain ⟨bs, err, r'⟩ := out
  have hsplit : bs ++ r'.stream = r.stream := hrs.split
  have hlen : bs.length ≤ s.cur.cap - s.cur.data.length := hrs.len
  simp only []
  have hb0 : s.bytes ++ bs ++ r'.stream = stream0 := by rw [List.append_assoc, hsplit]; exact hbytes
  have hL : stream0.length = s.size + bs.length + r'.stream.length := by
    rw [← hb0, size_eq_bytes_length]; simp only [List.length_append]
  -- the committed state
  by_cases hover : 0 < s.maxSize ∧ s.maxSize < s.bytesRead + bs.length
  · -- ErrIncomingMsgTooLarge: counter advanced, buffer length not
    rw [if_pos (by exact hover)]
    refine ⟨⟨?_, ?_, ?_, ?_, ?_, ?_, ?_⟩, hmax, ⟨bs ++ r'.stream, by rw [← List.append_assoc]; exact hb0⟩, ?_, ?_, ?_, ?_, ?_⟩
    · exact hwf.total
    · exact hwf.cur_le
    · exact hwf.slack
    · have := hwf.size_le_read; show s.size ≤ s.bytesRead + bs.length; omega
    · exact hwf.limit
    · exact hwf.extra_cap
    · exact hwf.slots
    · intro hc; cases hc
    · intro _
      unfold effLimit
      have : n = s.maxSize := hmax.symm
      split <;> omega
    · intro _ hc; cases hc
    · intro hc; cases hc
    · intro hc; cases hc
  · rw [if_neg (by exact hover)]
    obtain ⟨hw', hsz', hbt', hmx', hbr'⟩ := wf_commit hwf bs hlen hover
    have hnf := hrs.nofail
    cases err with
    | eof =>
      have hr' : r'.stream = [] := hrs.eof rfl
      simp only []
      have hfin : s.bytes ++ bs = stream0 := by rw [← hb0, hr']; simp
      refine ⟨hw', by rw [hmx']; exact hmax, ⟨[], by rw [hbt']; simpa using hfin⟩, ?_, ?_, ?_, ?_, ?_⟩
      · intro _
        refine ⟨by rw [hbt']; exact hfin, hr', ?_⟩
        have hcapM := hw'.capacity_le
        have hszc := hw'.size_le_capacity
        unfold effLimit
        rw [hr'] at hL
        simp only [List.length_nil] at hL
        split
        · omega
        · omega
      · intro hc; cases hc
      · intro _ hc; cases hc
      · intro hc; cases hc
      · intro hc; cases hc
    | other =>
      simp only []
      refine ⟨⟨?_, ?_, ?_, ?_, ?_, ?_, ?_⟩, hmax, ⟨bs ++ r'.stream, by rw [← List.append_assoc]; exact hb0⟩, ?_, ?_, ?_, ?_, ?_⟩
      · exact hwf.total
      · exact hwf.cur_le
      · exact hwf.slack
      · have := hwf.size_le_read; show s.size ≤ s.bytesRead + bs.length; omega
      · exact hwf.limit
      · exact hwf.extra_cap
      · exact hwf.slots
      · intro hc; cases hc
      · intro hc; cases hc
      · intro hP _; exact (hnf (h.nofail hP)).1 rfl
      · intro hc; cases hc
      · intro hc; cases hc
    | nil =>
      simp only []
      refine ⟨⟨hw', by rw [hmx']; exact hmax, by rw [hsz', hbr', hclean], by rw [hbt']; exact hb0, fun hP => (hnf (h.nofail hP)).2⟩, ?_⟩
      exact hrs.meas_lt rfl (by omega)

theorem step_spec {M n : Nat} {stream0 : List α} {P : Prop} {s : Slurper α} {r : Reader α}
    (h : J M n stream0 P s r) :
    match s.step r with
    | Slurper.StepOut.cont s' r' => J M n stream0 P s' r' ∧ r'.measure < r.measure
    | Slurper.StepOut.done res s' r' => Q M n stream0 P res s' r' := by
  have hwf := h.wf
  unfold Slurper.step
  by_cases hfull : s.cur.cap ≤ s.cur.data.length
  · rw [if_pos hfull]
    by_cases hrem : s.remained = 0
    · rw [if_pos hrem]
      -- out of memory: probe for one more byte
      have hrs := read_spec r 1
      generalize r.read 1 = out at hrs ⊢
      obtain ⟨bs, err, r'⟩ := out
      have hsplit : bs ++ r'.stream = r.stream := hrs.split
      simp only []
      have hb0 : s.bytes ++ (bs ++ r'.stream) = stream0 := by rw [hsplit]; exact h.bytes
      have hcapM : s.size = M := by
        have := hwf.total; have := hwf.slack; have := hwf.cur_le; omega
      have hL : stream0.length = s.size + bs.length + r'.stream.length := by
        rw [← hb0, size_eq_bytes_length]; simp; omega
      have hlim := hwf.limit
      by_cases hgot : bs.length > 0
      · rw [if_pos hgot]
        refine ⟨hwf, h.max, ⟨bs ++ r'.stream, hb0⟩, ?_, ?_, ?_, ?_, ?_⟩
        · intro hc; cases hc
        · intro _
          unfold effLimit
          have := h.max
          split <;> omega
        · intro _ hc; cases hc
        · intro hc; cases hc
        · intro hc; cases hc
      · rw [if_neg hgot]
        have hbs : bs = [] := List.eq_nil_of_length_eq_zero (by omega)
        subst hbs
        cases err with
        | eof =>
          have hr' : r'.stream = [] := hrs.eof rfl
          simp only []
          refine ⟨hwf, h.max, ⟨[], by simpa [hr'] using hb0⟩, ?_, ?_, ?_, ?_, ?_⟩
          · intro _
            refine ⟨by simpa [hr'] using hb0, hr', ?_⟩
            rw [hr'] at hL
            simp only [List.length_nil] at hL
            unfold effLimit
            have := h.max
            split <;> omega
          · intro hc; cases hc
          · intro _ hc; cases hc
          · intro hc; cases hc
          · intro hc; cases hc
        | nil =>
          simp only []
          refine ⟨⟨hwf, h.max, h.clean, by simpa using hb0, fun hP => (hrs.nofail (h.nofail hP)).2⟩, ?_⟩
          exact hrs.meas_lt rfl (by omega)
        | other =>
          simp only []
          refine ⟨hwf, h.max, ⟨r'.stream, by simpa using hb0⟩, ?_, ?_, ?_, ?_, ?_⟩
          · intro hc; cases hc
          · intro hc; cases hc
          · intro hP _; exact (hrs.nofail (h.nofail hP)).1 rfl
          · intro hc; cases hc
          · intro hc; cases hc
    · rw [if_neg hrem]
      cases ha : s.allocateNext with
      | none => exact absurd ha (allocateNext_isSome hwf hrem)
      | some s' =>
        simp only []
        obtain ⟨hw', hd', hc', hsz', hbt', hbr', hmx'⟩ := wf_allocateNext hwf hfull hrem ha
        have hJ' : J M n stream0 P s' r :=
          ⟨hw', by rw [hmx']; exact h.max, by rw [hsz', hbr']; exact h.clean, by rw [hbt']; exact h.bytes, h.nofail⟩
        exact readInto_spec hJ' (by rw [hd']; simpa using hc')
  · rw [if_neg hfull]
    exact readInto_spec h (by omega)

/-- every loop iteration of `Read` preserves the invariant: Size ≤ limit, capacity ≤ maxAllocation, … hold after every
    step, from any reachable state (not only a freshly reset one) and for any reader behaviour -/
theorem step_preserves_wf {M : Nat} {s : Slurper α} (h : WF s M) (r : Reader α) : WF (StepOut.state (s.step r)) M := by
  have hal : ∀ s' : Slurper α, WF s' M → s'.cur.data.length < s'.cur.cap → WF (StepOut.state (s'.readInto r)) M := by
    intro s' hw hroom
    have hrs := read_spec r (s'.cur.cap - s'.cur.data.length)
    unfold Slurper.readInto
    simp only []
    generalize r.read (s'.cur.cap - s'.cur.data.length) = out at hrs ⊢
    obtain ⟨bs, err, r'⟩ := out
    have hlen : bs.length ≤ s'.cur.cap - s'.cur.data.length := hrs.len
    simp only []
    have hkeep : WF ({ s' with bytesRead := s'.bytesRead + bs.length } : Slurper α) M :=
      ⟨hw.total, hw.cur_le, hw.slack, by have := hw.size_le_read; show s'.size ≤ s'.bytesRead + bs.length; omega,
        hw.limit, hw.extra_cap, hw.slots⟩
    by_cases hover : 0 < s'.maxSize ∧ s'.maxSize < s'.bytesRead + bs.length
    · rw [if_pos (by exact hover)]; exact hkeep
    · rw [if_neg (by exact hover)]
      have hcommit := (wf_commit hw bs hlen hover).1
      cases err <;> first | exact hcommit | exact hkeep
  unfold Slurper.step
  by_cases hfull : s.cur.cap ≤ s.cur.data.length
  · rw [if_pos hfull]
    by_cases hrem : s.remained = 0
    · rw [if_pos hrem]
      generalize r.read 1 = out
      obtain ⟨bs, err, r'⟩ := out
      simp only []
      split
      · exact h
      · cases err <;> exact h
    · rw [if_neg hrem]
      cases ha : s.allocateNext with
      | none => exact h
      | some s' =>
        simp only []
        obtain ⟨hw', hd', hc', _⟩ := wf_allocateNext h hfull hrem ha
        exact hal s' hw' (by rw [hd']; simpa using hc')
  · rw [if_neg hfull]
    exact hal s h (by omega)

/-- the loop rule: with fuel above the reader's measure, `Read` returns in a state satisfying `Q` -/
theorem loop_spec {M n : Nat} {stream0 : List α} {P : Prop} :
    ∀ (f : Nat) (s : Slurper α) (r : Reader α), J M n stream0 P s r → r.measure < f →
      Q M n stream0 P (Slurper.loop f s r).1 (Slurper.loop f s r).2.1 (Slurper.loop f s r).2.2 := by
  intro f
  induction f with
  | zero => intro s r _ hf; omega
  | succ f ih =>
    intro s r hJ hf
    have hst := step_spec hJ
    unfold Slurper.loop
    cases hs : s.step r with
    | done res s' r' => rw [hs] at hst; exact hst
    | cont s' r' =>
      rw [hs] at hst
      exact ih s' r' hst.1 (by omega)

end Lemmas.NetSlurper
