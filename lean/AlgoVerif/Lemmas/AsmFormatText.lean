/-
Lemmas for Model.AsmFormat: the token level. Printing the immediates of an instruction and parsing the tokens back.
-/
import AlgoVerif.Lemmas.AsmFormatCanon
namespace Lemmas.AsmFormat
open Model.OpTables Model.AsmFormat

/-! ### single tokens -/

theorem unnibbles_nibbles : ∀ (bs : Bytes), unnibbles (nibbles bs) = some bs
  | [] => rfl
  | b :: r => by
    simp only [nibbles, unnibbles, unnibbles_nibbles r, Option.map_some]
    congr 2
    omega

theorem tokBytes_hex (bs : Bytes) : tokBytes (.hex (nibbles bs)) = .ok bs := by
  simp [tokBytes, unnibbles_nibbles]

theorem tokNat_num {n : Nat} (h : n < two64) : tokNat (.num n) = some n := by
  simp [tokNat, h]

theorem tokByte_num {b : Nat} (h : b ≤ 255) : tokByte (.num b) = .ok b := by
  have : b < two64 := by unfold two64; omega
  simp [tokByte, tokNat_num this, h]

theorem tokInt8_sint {b : Nat} (h : b ≤ 255) : tokInt8 (.sint (int8Of b)) = .ok b := by
  have e : tokInt8 (.sint (int8Of b)) =
      if -128 ≤ int8Of b ∧ int8Of b ≤ 127 then .ok ((int8Of b % 256).toNat) else .error .syntax := rfl
  rw [e]
  unfold int8Of
  by_cases hb : 128 ≤ b
  · simp only [if_pos hb]
    rw [if_pos (by omega)]
    congr 1
    omega
  · simp only [if_neg hb]
    rw [if_pos (by omega)]
    congr 1
    omega

theorem tokNats_nums : ∀ (vs : List Nat), (∀ n ∈ vs, n < two64) → tokNats (vs.map .num) = .ok vs
  | [], _ => rfl
  | n :: vs, h => by
    simp only [List.map_cons, tokNats, tokNat_num (h n List.mem_cons_self),
      tokNats_nums vs (fun m hm => h m (List.mem_cons_of_mem _ hm))]

theorem tokBytess_hexes (maxLen : Nat) : ∀ (bss : List Bytes), (∀ b ∈ bss, b.length ≤ maxLen) →
    tokBytess maxLen (bss.map (fun b => .hex (nibbles b))) = .ok bss
  | [], _ => rfl
  | b :: bss, h => by
    have hb := h b List.mem_cons_self
    simp only [List.map_cons, tokBytess, tokBytes_hex]
    rw [if_neg (by omega), tokBytess_hexes maxLen bss (fun m hm => h m (List.mem_cons_of_mem _ hm))]

/-- label numbers are injective -/
theorem labelNo_inj {order : List Nat} {t t' n : Nat} (h : labelNo order t = some n) (h' : labelNo order t' = some n) :
    t = t' := by
  unfold labelNo at h h'
  simp only [] at h h'
  split at h
  · rename_i h1
    split at h'
    · rename_i h2
      simp only [Option.some.injEq] at h h'
      have e : order.idxOf t = order.idxOf t' := by omega
      have a := List.getElem_idxOf h1
      have b := List.getElem_idxOf h2
      rw [← a, ← b]
      simp only [e]
    · cases h'
  · cases h

theorem labelNo_pos {order : List Nat} {t n : Nat} (h : labelNo order t = some n) : 1 ≤ n := by
  unfold labelNo at h
  simp only [] at h
  split at h
  · simp only [Option.some.injEq] at h; omega
  · cases h

/-! ### the parsed form of an immediate -/

def labelNames (order : List Nat) : List Nat → Option (List LName)
  | [] => some []
  | t :: ts =>
    match labelNo order t, labelNames order ts with
    | some k, some r => some (.gen k :: r)
    | _, _ => none

/-- what parsing the printed tokens of an immediate yields (labels are still names) -/
def pimmOf (order : List Nat) : Model.AsmFormat.Imm → Option PImm
  | .label t => (labelNo order t).map (fun k => .lab true (.gen k))
  | .vlabel t => (labelNo order t).map (fun k => .lab false (.gen k))
  | .labels ts => (labelNames order ts).map .labs
  | x => some (.val x)

def pimmsOf (order : List Nat) : List Model.AsmFormat.Imm → Option (List PImm)
  | [] => some []
  | x :: xs =>
    match pimmOf order x, pimmsOf order xs with
    | some a, some b => some (a :: b)
    | _, _ => none

theorem tokLabels_print (order : List Nat) : ∀ (ts : List Nat) (toks : List Tok), printLabels order ts = some toks →
    ∃ ns, labelNames order ts = some ns ∧ tokLabels toks = .ok ns ∧ toks.length = ts.length
  | [], toks, h => by
    simp only [printLabels, Option.some.injEq] at h; subst h
    exact ⟨[], rfl, rfl, rfl⟩
  | t :: ts, toks, h => by
    simp only [printLabels] at h
    cases h1 : labelNo order t with
    | none => simp [h1] at h
    | some k =>
      cases h2 : printLabels order ts with
      | none => simp [h1, h2] at h
      | some r =>
        simp only [h1, h2, Option.some.injEq] at h; subst h
        obtain ⟨ns, a, b, c⟩ := tokLabels_print order ts r h2
        refine ⟨.gen k :: ns, by simp [labelNames, h1, a], by simp [tokLabels, tokLabel, b], by simp [c]⟩

/-! ### invariants of parsed immediates -/

/-- the field byte `b` prints as a name that parses back to `b` at version `v` -/
def FieldRT (env : Env) (v : Nat) (im : Model.OpTables.Imm) (b : Nat) : Prop :=
  ∃ gd ge fr fe, groupOf env im.declGroup = some gd ∧ groupOf env im.group = some ge ∧ gd.fields[b]? = some fr ∧
    fieldByName gd fr.name = some fr ∧ fr.idx = b ∧ ge.fields[b]? = some fe ∧ fe.name ≠ "" ∧ fe.version ≤ v

/-- what `parseImms` guarantees about one immediate of an instruction it accepted -/
def ImmInv (env : Env) (v : Nat) (im : Model.OpTables.Imm) : Model.AsmFormat.Imm → Prop
  | .byte b => (im.kind = 0 ∧ im.declGroup ≠ "" ∧ FieldRT env v im b) ∨ (im.kind = 0 ∧ im.declGroup = "" ∧ b ≤ 255) ∨
      (im.kind = 1 ∧ im.declGroup = "" ∧ b ≤ 255)
  | .uint n => im.kind = 3 ∧ n < two64
  | .bytes b => im.kind = 4 ∧ b.length ≤ env.maxStringSize
  | .ints ns => im.kind = 5 ∧ ∀ n ∈ ns, n < two64
  | .bytess bs => im.kind = 6 ∧ ∀ b ∈ bs, b.length ≤ env.maxStringSize
  | .label _ => im.kind = 2
  | .vlabel _ => im.kind = 8
  | .labels ts => im.kind = 7 ∧ ts.length ≤ 255

def isListKind (k : Nat) : Prop := k = 5 ∨ k = 6 ∨ k = 7

def ImmsInv (env : Env) (v : Nat) : List Model.OpTables.Imm → List Model.AsmFormat.Imm → Prop
  | [], [] => True
  | im :: ims, x :: xs => ImmInv env v im x ∧ (isListKind im.kind → ims = []) ∧ ImmsInv env v ims xs
  | _, _ => False

theorem fieldByName_name {g : Group} {s : String} {fr : FieldRow} (h : fieldByName g s = some fr) : fr.name = s ∧ s ≠ "" := by
  unfold fieldByName at h
  split at h
  · cases h
  · rename_i hs
    have := List.find?_some h
    simp only [decide_eq_true_eq] at this
    exact ⟨this, hs⟩

/-- printing one immediate and parsing the tokens back -/
theorem parseImms_print (env : Env) (v : Nat) (order : List Nat) : ∀ (ims : List Model.OpTables.Imm) (xs : List Model.AsmFormat.Imm)
    (toks : List Tok), ImmsInv env v ims xs → printImms env order ims xs = some toks →
    ∃ ps, parseImms env v ims toks = .ok ps ∧ pimmsOf order xs = some ps
  | [], [], toks, _, h => by
    simp only [printImms, Option.some.injEq] at h; subst h
    exact ⟨[], rfl, rfl⟩
  | [], _ :: _, _, hi, _ => by simp [ImmsInv] at hi
  | _ :: _, [], _, hi, _ => by simp [ImmsInv] at hi
  | im :: ims, x :: xs, toks, hi, h => by
    obtain ⟨h1, hl, h2⟩ := hi
    simp only [printImms] at h
    cases hp : printImm env order im x with
    | none => simp [hp] at h
    | some a =>
      cases hq : printImms env order ims xs with
      | none => simp [hp, hq] at h
      | some b =>
        simp only [hp, hq, Option.some.injEq] at h; subst h
        obtain ⟨ps, ih1, ih2⟩ := parseImms_print env v order ims xs b h2 hq
        cases x with
        | ints vs =>
          obtain ⟨hk, hv⟩ := h1
          have hims := hl (Or.inl hk)
          subst hims
          cases xs with
          | cons _ _ => simp [ImmsInv] at h2
          | nil =>
            simp only [printImms, Option.some.injEq] at hq; subst hq
            simp only [printImm, Option.some.injEq] at hp; subst hp
            refine ⟨[.val (.ints vs)], ?_, by simp [pimmsOf, pimmOf]⟩
            unfold parseImms
            simp only [List.append_nil]
            rw [if_pos hk]
            simp [tokNats_nums vs hv]
        | bytess bss =>
          obtain ⟨hk, hv⟩ := h1
          have hims := hl (Or.inr (Or.inl hk))
          subst hims
          cases xs with
          | cons _ _ => simp [ImmsInv] at h2
          | nil =>
            simp only [printImms, Option.some.injEq] at hq; subst hq
            simp only [printImm, Option.some.injEq] at hp; subst hp
            refine ⟨[.val (.bytess bss)], ?_, by simp [pimmsOf, pimmOf]⟩
            unfold parseImms
            simp only [List.append_nil]
            rw [if_neg (by omega), if_pos hk]
            simp [tokBytess_hexes _ bss hv]
        | labels ts =>
          obtain ⟨hk, hv⟩ := h1
          have hims := hl (Or.inr (Or.inr hk))
          subst hims
          cases xs with
          | cons _ _ => simp [ImmsInv] at h2
          | nil =>
            simp only [printImms, Option.some.injEq] at hq; subst hq
            simp only [printImm] at hp
            obtain ⟨ns, e1, e2, e3⟩ := tokLabels_print order ts a hp
            refine ⟨[.labs ns], ?_, by simp [pimmsOf, pimmOf, e1]⟩
            unfold parseImms
            simp only [List.append_nil]
            rw [if_neg (by omega), if_neg (by omega), if_pos hk]
            simp only [ne_eq, not_true_eq_false, if_false]
            rw [if_neg (by omega), e2]
        | byte bv =>
          simp only [ImmInv] at h1
          rcases h1 with ⟨hk, hg, gd, ge, fr, fe, g1, g2, g3, g4, g5, g6, g7, g8⟩ | ⟨hk, hg, hb⟩ | ⟨hk, hg, hb⟩
          · simp only [printImm, if_pos hg, g1, g3] at hp
            have hn : fr.name ≠ "" := (fieldByName_name g4).2
            rw [if_neg hn] at hp
            simp only [Option.some.injEq] at hp; subst hp
            refine ⟨.val (.byte bv) :: ps, ?_, by simp [pimmsOf, pimmOf, ih2]⟩
            unfold parseImms
            rw [if_neg (by omega), if_neg (by omega), if_neg (by omega)]
            simp only [List.cons_append, List.nil_append, if_pos hk, if_pos hg]
            have : tokField env v im (.name fr.name) = .ok bv := by
              unfold tokField
              simp only [g1, g2, g4, g5, g6]
              rw [if_neg (by intro hc; rcases hc with hc | hc; exact g7 hc; omega)]
            rw [this]
            simp only [ih1]
          · simp only [printImm, hg, ne_eq, not_true_eq_false, if_false] at hp
            rw [if_neg (by omega)] at hp
            simp only [Option.some.injEq] at hp; subst hp
            refine ⟨.val (.byte bv) :: ps, ?_, by simp [pimmsOf, pimmOf, ih2]⟩
            unfold parseImms
            rw [if_neg (by omega), if_neg (by omega), if_neg (by omega)]
            simp only [List.cons_append, List.nil_append, if_pos hk, hg, ne_eq, not_true_eq_false, if_false,
              tokByte_num hb, ih1]
          · simp only [printImm, hg, ne_eq, not_true_eq_false, if_false] at hp
            rw [if_pos hk] at hp
            simp only [Option.some.injEq] at hp; subst hp
            refine ⟨.val (.byte bv) :: ps, ?_, by simp [pimmsOf, pimmOf, ih2]⟩
            unfold parseImms
            rw [if_neg (by omega), if_neg (by omega), if_neg (by omega)]
            simp only [List.cons_append, List.nil_append]
            rw [if_neg (by omega), if_pos hk]
            simp only [hg, ne_eq, not_true_eq_false, if_false, tokInt8_sint hb, ih1]
        | uint n =>
          obtain ⟨hk, hn⟩ := h1
          simp only [printImm, Option.some.injEq] at hp; subst hp
          refine ⟨.val (.uint n) :: ps, ?_, by simp [pimmsOf, pimmOf, ih2]⟩
          unfold parseImms
          rw [if_neg (by omega), if_neg (by omega), if_neg (by omega)]
          simp only [List.cons_append, List.nil_append]
          rw [if_neg (by omega), if_neg (by omega), if_neg (by omega), if_pos hk]
          simp only [tokNat_num hn, ih1]
        | bytes bs =>
          obtain ⟨hk, hn⟩ := h1
          simp only [printImm, Option.some.injEq] at hp; subst hp
          refine ⟨.val (.bytes bs) :: ps, ?_, by simp [pimmsOf, pimmOf, ih2]⟩
          unfold parseImms
          rw [if_neg (by omega), if_neg (by omega), if_neg (by omega)]
          simp only [List.cons_append, List.nil_append]
          rw [if_neg (by omega), if_neg (by omega), if_neg (by omega), if_neg (by omega), if_pos hk]
          simp only [tokBytes_hex]
          rw [if_neg (by omega)]
          simp only [ih1]
        | label t =>
          simp only [ImmInv] at h1
          simp only [printImm, Option.map_eq_some_iff] at hp
          obtain ⟨k, hk1, rfl⟩ := hp
          refine ⟨.lab true (.gen k) :: ps, ?_, by simp [pimmsOf, pimmOf, hk1, ih2]⟩
          unfold parseImms
          rw [if_neg (by omega), if_neg (by omega), if_neg (by omega)]
          simp only [List.cons_append, List.nil_append]
          rw [if_neg (by omega), if_neg (by omega), if_pos (Or.inl h1)]
          simp only [tokLabel, ih1, h1, decide_true]
        | vlabel t =>
          simp only [ImmInv] at h1
          simp only [printImm, Option.map_eq_some_iff] at hp
          obtain ⟨k, hk1, rfl⟩ := hp
          refine ⟨.lab false (.gen k) :: ps, ?_, by simp [pimmsOf, pimmOf, hk1, ih2]⟩
          unfold parseImms
          rw [if_neg (by omega), if_neg (by omega), if_neg (by omega)]
          simp only [List.cons_append, List.nil_append]
          rw [if_neg (by omega), if_neg (by omega), if_pos (Or.inr h1)]
          simp only [tokLabel, ih1, h1]
          rfl

/-! ### one instruction -/

/-- the pseudo-op table never shadows a real op: no row is named like a full pseudo-op, and a row whose name dispatches
    on the number of immediates has only one-token immediates and is the entry for its own number of immediates -/
def PseudoOK (env : Env) : Prop :=
  (∀ r ∈ env.rows, env.pseudoFull.contains r.name = false) ∧
  (∀ r ∈ env.rows, ∀ p, env.pseudoArgc.find? (fun q => q.1 = r.name) = some p →
    (∀ im ∈ r.imms, ¬ isListKind im.kind) ∧ p.2.find? (fun a => a.1 = r.imms.length) = some (r.imms.length, r.name))

theorem pickLatest_mem (v : Nat) : ∀ (rows : List Spec) (acc : Option Spec) (s : Spec),
    rows.foldl (fun acc r =>
      if r.version ≤ max v 1 then
        match acc with
        | none => some r
        | some a => if a.version ≤ r.version then some r else some a
      else acc) acc = some s → s ∈ rows ∨ acc = some s
  | [], acc, s, h => Or.inr h
  | r :: rows, acc, s, h => by
    simp only [List.foldl_cons] at h
    rcases pickLatest_mem v rows _ s h with h1 | h1
    · exact Or.inl (List.mem_cons_of_mem _ h1)
    · split at h1
      · cases acc with
        | none => simp only [Option.some.injEq] at h1; subst h1; exact Or.inl List.mem_cons_self
        | some a =>
          simp only [] at h1
          split at h1
          · simp only [Option.some.injEq] at h1; subst h1; exact Or.inl List.mem_cons_self
          · exact Or.inr h1
      · exact Or.inr h1

/-- a spec found by name is a row of that name (with the version field 0 in table 0) -/
theorem byName_mem {env : Env} {v : Nat} {n : String} {s : Spec} (h : byName env v n = some s) :
    ∃ r ∈ env.rows, r.name = n ∧ s = (if v = 0 then { r with version := 0 } else r) := by
  unfold byName at h
  cases hf : env.rows.find? (fun r => r.name = n) with
  | none => simp [hf] at h
  | some r0 =>
    simp only [hf] at h
    cases hp : pickLatest v (env.rows.filter (fun r => sameKey r0 r)) with
    | none => simp [hp] at h
    | some r =>
      simp only [hp] at h
      split at h
      · rename_i hn
        simp only [Option.some.injEq] at h
        unfold pickLatest at hp
        rcases pickLatest_mem v _ none r hp with h1 | h1
        · exact ⟨r, (List.mem_filter.mp h1).1, hn, h.symm⟩
        · cases h1
      · cases h

theorem byName_name {env : Env} {v : Nat} {n : String} {s : Spec} (h : byName env v n = some s) : s.name = n := by
  obtain ⟨r, _, hn, rfl⟩ := byName_mem h
  split <;> exact hn

theorem printImms_length (env : Env) (order : List Nat) : ∀ (ims : List Model.OpTables.Imm) (xs : List Model.AsmFormat.Imm)
    (toks : List Tok), ImmsInv env v ims xs → (∀ im ∈ ims, ¬ isListKind im.kind) → printImms env order ims xs = some toks →
    toks.length = ims.length
  | [], [], toks, _, _, h => by simp only [printImms, Option.some.injEq] at h; subst h; rfl
  | [], _ :: _, _, hi, _, _ => by simp [ImmsInv] at hi
  | _ :: _, [], _, hi, _, _ => by simp [ImmsInv] at hi
  | im :: ims, x :: xs, toks, hi, hl, h => by
    obtain ⟨h1, _, h2⟩ := hi
    simp only [printImms] at h
    cases hp : printImm env order im x with
    | none => simp [hp] at h
    | some a =>
      cases hq : printImms env order ims xs with
      | none => simp [hp, hq] at h
      | some b =>
        simp only [hp, hq, Option.some.injEq] at h; subst h
        have ih := printImms_length env order ims xs b h2 (fun q hq' => hl q (List.mem_cons_of_mem _ hq')) hq
        have hk := hl im List.mem_cons_self
        have ha : a.length = 1 := by
          cases x with
          | byte bv =>
            simp only [printImm] at hp
            split at hp
            · split at hp
              · cases hp
              · split at hp
                · cases hp
                · split at hp
                  · cases hp
                  · simp only [Option.some.injEq] at hp; subst hp; rfl
            · split at hp <;> (simp only [Option.some.injEq] at hp; subst hp; rfl)
          | uint n => simp only [printImm, Option.some.injEq] at hp; subst hp; rfl
          | bytes bs => simp only [printImm, Option.some.injEq] at hp; subst hp; rfl
          | ints vs => exact absurd (Or.inl h1.1) hk
          | bytess bss => exact absurd (Or.inr (Or.inl h1.1)) hk
          | labels ts => exact absurd (Or.inr (Or.inr h1.1)) hk
          | label t =>
            simp only [printImm, Option.map_eq_some_iff] at hp
            obtain ⟨k, _, rfl⟩ := hp; rfl
          | vlabel t =>
            simp only [printImm, Option.map_eq_some_iff] at hp
            obtain ⟨k, _, rfl⟩ := hp; rfl
        simp [ha, ih]; omega

/-- what `asmInstr` guarantees about an instruction it produced -/
def InstrInv (env : Env) (v : Nat) (i : Instr) : Prop :=
  byName env v i.spec.name = some i.spec ∧
  shapeOK (classOf env i.spec) i.spec = true ∧
  ImmsInv env v i.spec.imms i.imms ∧
  ((classOf env i.spec = .arg ∨ classOf env i.spec = .intc ∨ classOf env i.spec = .bytec) →
    ∀ b, i.imms = [.byte b] → 4 ≤ b) ∧
  (classOf env i.spec = .substring → ∀ a b, i.imms = [.byte a, .byte b] → a ≤ b)

theorem specFor_print {env : Env} {v : Nat} {i : Instr} {order : List Nat} {toks : List Tok} (hps : PseudoOK env)
    (hi : InstrInv env v i) (hp : printImms env order i.spec.imms i.imms = some toks) :
    specFor env v i.spec.name toks.length = .ok i.spec := by
  obtain ⟨hb, _, him, _, _⟩ := hi
  obtain ⟨r, hr, hn, hs⟩ := byName_mem hb
  have himms : i.spec.imms = r.imms := by rw [hs]; split <;> rfl
  unfold specFor
  rw [← hn, hps.1 r hr]
  simp only [Bool.false_eq_true, if_false]
  cases hf : env.pseudoArgc.find? (fun q => q.1 = r.name) with
  | none => simp only [hn, hb]
  | some p =>
    obtain ⟨nm, alts⟩ := p
    obtain ⟨hnl, hfind⟩ := hps.2 r hr (nm, alts) hf
    have hlen : toks.length = r.imms.length := by
      rw [← himms]
      exact printImms_length env order _ _ toks him (by rw [himms]; exact hnl) hp
    simp only [hlen, hfind, hn, hb]

theorem immsInv_single {env : Env} {v : Nat} {im : Model.OpTables.Imm} {xs : List Model.AsmFormat.Imm}
    (hk : im.kind = 0) (hg : im.declGroup = "") (h : ImmsInv env v [im] xs) : ∃ b, xs = [.byte b] ∧ b ≤ 255 := by
  cases xs with
  | nil => simp [ImmsInv] at h
  | cons x rest =>
    obtain ⟨h1, _, h2⟩ := h
    cases rest with
    | cons _ _ => simp [ImmsInv] at h2
    | nil =>
      cases x with
      | byte b =>
        simp only [ImmInv] at h1
        rcases h1 with ⟨_, hg', _⟩ | ⟨_, _, hb⟩ | ⟨hk', _, _⟩
        · exact absurd hg hg'
        · exact ⟨b, rfl, hb⟩
        · omega
      | uint n => simp only [ImmInv] at h1; omega
      | bytes bs => simp only [ImmInv] at h1; omega
      | ints vs => simp only [ImmInv] at h1; omega
      | bytess bss => simp only [ImmInv] at h1; omega
      | label t => simp only [ImmInv] at h1; omega
      | vlabel t => simp only [ImmInv] at h1; omega
      | labels ts => simp only [ImmInv] at h1; omega

theorem kinds_one {s : Spec} {k : Nat} (h : kindsOf s = [k]) : ∃ im, s.imms = [im] ∧ im.kind = k := by
  unfold kindsOf at h
  cases hs : s.imms with
  | nil => simp [hs] at h
  | cons im rest =>
    cases rest with
    | nil => simp only [hs, List.map_cons, List.map_nil, List.cons.injEq, and_true] at h; exact ⟨im, rfl, h⟩
    | cons _ _ => simp [hs] at h

theorem kinds_two {s : Spec} {k1 k2 : Nat} (h : kindsOf s = [k1, k2]) :
    ∃ im1 im2, s.imms = [im1, im2] ∧ im1.kind = k1 ∧ im2.kind = k2 := by
  unfold kindsOf at h
  cases hs : s.imms with
  | nil => simp [hs] at h
  | cons im rest =>
    cases rest with
    | nil => simp [hs] at h
    | cons im2 rest2 =>
      cases rest2 with
      | nil =>
        simp only [hs, List.map_cons, List.map_nil, List.cons.injEq, and_true] at h
        exact ⟨im, im2, rfl, h.1, h.2⟩
      | cons _ _ => simp [hs] at h

theorem plainBytes_one {s : Spec} (h : plainBytes s 1 = true) :
    ∃ im, s.imms = [im] ∧ im.kind = 0 ∧ im.declGroup = "" := by
  unfold plainBytes at h
  simp only [Bool.and_eq_true, beq_iff_eq, List.all_eq_true] at h
  obtain ⟨im, e, k⟩ := kinds_one (k := 0) (by simpa using h.1)
  exact ⟨im, e, k, by simpa using h.2 im (by rw [e]; exact List.mem_cons_self)⟩

theorem plainBytes_two {s : Spec} (h : plainBytes s 2 = true) :
    ∃ im1 im2, s.imms = [im1, im2] ∧ im1.kind = 0 ∧ im1.declGroup = "" ∧ im2.kind = 0 ∧ im2.declGroup = "" := by
  unfold plainBytes at h
  simp only [Bool.and_eq_true, beq_iff_eq, List.all_eq_true] at h
  obtain ⟨im1, im2, e, k1, k2⟩ := kinds_two (k1 := 0) (k2 := 0) (by simpa using h.1)
  refine ⟨im1, im2, e, k1, ?_, k2, ?_⟩
  · simpa using h.2 im1 (by rw [e]; exact List.mem_cons_self)
  · simpa using h.2 im2 (by rw [e]; simp)

theorem immsInv_two {env : Env} {v : Nat} {im1 im2 : Model.OpTables.Imm} {xs : List Model.AsmFormat.Imm}
    (hk1 : im1.kind = 0) (hg1 : im1.declGroup = "") (hk2 : im2.kind = 0) (hg2 : im2.declGroup = "")
    (h : ImmsInv env v [im1, im2] xs) : ∃ a b, xs = [.byte a, .byte b] ∧ a ≤ 255 ∧ b ≤ 255 := by
  cases xs with
  | nil => simp [ImmsInv] at h
  | cons x rest =>
    obtain ⟨h1, _, h2⟩ := h
    obtain ⟨b, hb, hb'⟩ := immsInv_single hk2 hg2 h2
    subst hb
    cases x with
    | byte a =>
      simp only [ImmInv] at h1
      rcases h1 with ⟨_, hg', _⟩ | ⟨_, _, ha⟩ | ⟨hk', _, _⟩
      · exact absurd hg1 hg'
      · exact ⟨a, b, rfl, ha, hb'⟩
      · omega
    | uint n => simp only [ImmInv] at h1; omega
    | bytes bs => simp only [ImmInv] at h1; omega
    | ints vs => simp only [ImmInv] at h1; omega
    | bytess bss => simp only [ImmInv] at h1; omega
    | label t => simp only [ImmInv] at h1; omega
    | vlabel t => simp only [ImmInv] at h1; omega
    | labels ts => simp only [ImmInv] at h1; omega

theorem print_plain_one {env : Env} {order : List Nat} {im : Model.OpTables.Imm} {b : Nat} (hk : im.kind = 0)
    (hg : im.declGroup = "") : printImms env order [im] [.byte b] = some [.num b] := by
  simp only [printImms, printImm, hg, ne_eq, not_true_eq_false, if_false]
  rw [if_neg (by omega)]
  rfl

theorem print_plain_two {env : Env} {order : List Nat} {im1 im2 : Model.OpTables.Imm} {a b : Nat} (hk1 : im1.kind = 0)
    (hg1 : im1.declGroup = "") (hk2 : im2.kind = 0) (hg2 : im2.declGroup = "") :
    printImms env order [im1, im2] [.byte a, .byte b] = some [.num a, .num b] := by
  simp only [printImms, printImm, hg1, hg2, ne_eq, not_true_eq_false, if_false]
  rw [if_neg (by omega), if_neg (by omega)]
  rfl

/-- the state after an instruction statement: only the constant-block counters may change -/
def StUpd (st st2 : PState) (c : FnClass) (n : Nat) : Prop :=
  st2.out = st.out ∧ st2.labels = st.labels ∧ st2.dead = st.dead ∧
  st2.anyIntc = (if c = .intcBlock then max st.anyIntc n else st.anyIntc) ∧
  st2.anyBytec = (if c = .bytecBlock then max st.anyBytec n else st.anyBytec)

/-- the definedness condition of an explicit constant load holds in state `st` -/
def ConstOKAt (env : Env) (st : PState) (i : Instr) : Prop :=
  (classOf env i.spec = .intc → ∀ b, i.imms = [.byte b] → constDefined env b st.intcN st.deadIntc st.anyIntc = true) ∧
  (classOf env i.spec = .bytec → ∀ b, i.imms = [.byte b] → constDefined env b st.bytecN st.deadBytec st.anyBytec = true)

theorem altSpec_print {env : Env} {v : Nat} {i : Instr} {order : List Nat} {toks : List Tok}
    (hi : InstrInv env v i) (hp : printImms env order i.spec.imms i.imms = some toks) :
    altSpec env v (classOf env i.spec) i.spec toks = .ok (i.spec, toks) := by
  obtain ⟨_, hsh, him, hnorm, _⟩ := hi
  cases hc : classOf env i.spec with
  | itxn =>
    rw [hc] at hsh
    simp only [shapeOK, Bool.and_eq_true, beq_iff_eq] at hsh
    have hl : toks.length = i.spec.imms.length := by
      refine printImms_length env order _ _ toks him ?_ hp
      obtain ⟨im, e, k⟩ := kinds_one hsh.1
      intro q hq; rw [e] at hq; simp only [List.mem_singleton] at hq; subst hq
      unfold isListKind; omega
    simp only [altSpec, arityAlt, if_pos hl]
  | gitxn =>
    rw [hc] at hsh
    simp only [shapeOK, beq_iff_eq] at hsh
    have hl : toks.length = i.spec.imms.length := by
      refine printImms_length env order _ _ toks him ?_ hp
      obtain ⟨im1, im2, e, k1, k2⟩ := kinds_two hsh
      intro q hq; rw [e] at hq
      simp only [List.mem_cons, List.mem_nil_iff, or_false] at hq
      unfold isListKind
      rcases hq with rfl | rfl <;> omega
    simp only [altSpec, arityAlt, if_pos hl]
  | arg =>
    rw [hc] at hsh
    obtain ⟨im, e, k, g⟩ := plainBytes_one hsh
    rw [e] at him hp
    obtain ⟨b, hb, hb'⟩ := immsInv_single k g him
    have h4 := hnorm (Or.inl hc) b hb
    rw [hb, print_plain_one k g] at hp
    simp only [Option.some.injEq] at hp; subst hp
    simp only [altSpec, shortAlt, tokByte_num hb']
    rw [if_neg (by omega)]
  | intc =>
    rw [hc] at hsh
    obtain ⟨im, e, k, g⟩ := plainBytes_one hsh
    rw [e] at him hp
    obtain ⟨b, hb, hb'⟩ := immsInv_single k g him
    have h4 := hnorm (Or.inr (Or.inl hc)) b hb
    rw [hb, print_plain_one k g] at hp
    simp only [Option.some.injEq] at hp; subst hp
    simp only [altSpec, shortAlt, tokByte_num hb']
    rw [if_neg (by omega)]
  | bytec =>
    rw [hc] at hsh
    obtain ⟨im, e, k, g⟩ := plainBytes_one hsh
    rw [e] at him hp
    obtain ⟨b, hb, hb'⟩ := immsInv_single k g him
    have h4 := hnorm (Or.inr (Or.inr hc)) b hb
    rw [hb, print_plain_one k g] at hp
    simp only [Option.some.injEq] at hp; subst hp
    simp only [altSpec, shortAlt, tokByte_num hb']
    rw [if_neg (by omega)]
  | dflt => rfl
  | substring => rfl
  | fieldSet => rfl
  | branch2 => rfl
  | branchV => rfl
  | switch => rfl
  | pushInt => rfl
  | pushBytes => rfl
  | pushInts => rfl
  | pushBytess => rfl
  | intcBlock => rfl
  | bytecBlock => rfl
  | unknown => rfl

theorem postAsm_print {env : Env} {v : Nat} {i : Instr} {order : List Nat} {toks : List Tok} {st : PState}
    (hi : InstrInv env v i) (hp : printImms env order i.spec.imms i.imms = some toks) (hc : ConstOKAt env st i) :
    ∃ st2, postAsm env (classOf env i.spec) st toks = .ok st2 ∧ StUpd st st2 (classOf env i.spec) toks.length := by
  obtain ⟨_, hsh, him, _, hsub⟩ := hi
  cases hcl : classOf env i.spec with
  | substring =>
    rw [hcl] at hsh
    obtain ⟨im1, im2, e, k1, g1, k2, g2⟩ := plainBytes_two hsh
    rw [e] at him hp
    obtain ⟨a, b, hab, ha, hb⟩ := immsInv_two k1 g1 k2 g2 him
    have hle := hsub hcl a b hab
    rw [hab, print_plain_two k1 g1 k2 g2] at hp
    simp only [Option.some.injEq] at hp; subst hp
    refine ⟨st, ?_, by simp [StUpd]⟩
    have h1 : a < two64 := by unfold two64; omega
    have h2 : b < two64 := by unfold two64; omega
    simp only [postAsm, tokNat_num h1, tokNat_num h2]
    rw [if_neg (by omega)]
  | intc =>
    rw [hcl] at hsh
    obtain ⟨im, e, k, g⟩ := plainBytes_one hsh
    rw [e] at him hp
    obtain ⟨b, hb, hb'⟩ := immsInv_single k g him
    rw [hb, print_plain_one k g] at hp
    simp only [Option.some.injEq] at hp; subst hp
    refine ⟨st, ?_, by simp [StUpd]⟩
    simp only [postAsm, constIdx, tokByte_num hb', hc.1 hcl b hb, if_true]
  | bytec =>
    rw [hcl] at hsh
    obtain ⟨im, e, k, g⟩ := plainBytes_one hsh
    rw [e] at him hp
    obtain ⟨b, hb, hb'⟩ := immsInv_single k g him
    rw [hb, print_plain_one k g] at hp
    simp only [Option.some.injEq] at hp; subst hp
    refine ⟨st, ?_, by simp [StUpd]⟩
    simp only [postAsm, constIdx, tokByte_num hb', hc.2 hcl b hb, if_true]
  | intcBlock =>
    refine ⟨_, rfl, ?_⟩
    simp only [StUpd]
    split <;> simp
  | bytecBlock =>
    refine ⟨_, rfl, ?_⟩
    simp only [StUpd]
    split <;> simp
  | dflt => exact ⟨st, rfl, by simp [StUpd]⟩
  | arg => exact ⟨st, rfl, by simp [StUpd]⟩
  | itxn => exact ⟨st, rfl, by simp [StUpd]⟩
  | gitxn => exact ⟨st, rfl, by simp [StUpd]⟩
  | fieldSet => exact ⟨st, rfl, by simp [StUpd]⟩
  | branch2 => exact ⟨st, rfl, by simp [StUpd]⟩
  | branchV => exact ⟨st, rfl, by simp [StUpd]⟩
  | switch => exact ⟨st, rfl, by simp [StUpd]⟩
  | pushInt => exact ⟨st, rfl, by simp [StUpd]⟩
  | pushBytes => exact ⟨st, rfl, by simp [StUpd]⟩
  | pushInts => exact ⟨st, rfl, by simp [StUpd]⟩
  | pushBytess => exact ⟨st, rfl, by simp [StUpd]⟩
  | unknown => exact ⟨st, rfl, by simp [StUpd]⟩

/-- re-assembling the printed form of an instruction gives the instruction back (labels still as names) -/
theorem asmInstr_print {env : Env} {v : Nat} {i : Instr} {order : List Nat} {toks : List Tok} {st : PState}
    (hps : PseudoOK env) (hi : InstrInv env v i) (hp : printImms env order i.spec.imms i.imms = some toks)
    (hc : ConstOKAt env st i) :
    ∃ ps st2, pimmsOf order i.imms = some ps ∧ asmInstr env v st i.spec.name toks = .ok (⟨i.spec, ps⟩, st2) ∧
      StUpd st st2 (classOf env i.spec) toks.length := by
  obtain ⟨ps, hp1, hp2⟩ := parseImms_print env v order _ _ toks hi.2.2.1 hp
  obtain ⟨st2, hq1, hq2⟩ := postAsm_print hi hp hc
  refine ⟨ps, st2, hp2, ?_, hq2⟩
  unfold asmInstr
  rw [specFor_print hps hi hp]
  simp only [hi.2.1, not_true_eq_false, if_false, altSpec_print hi hp, hp1, hq1]

end Lemmas.AsmFormat
