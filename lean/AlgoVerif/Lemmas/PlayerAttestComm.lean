import AlgoVerif.Lemmas.PlayerAttestTree
/-!
`commVal root r p` — what `stagedValue(r, p)` would answer as *committable*: the period's `Staging`, provided the round's
proposal store holds the assembled payload of that value.  Facts by plain unfolding (no tree invariant needed):
what a `stagedValue` read, a committable threshold (`pmThreshold … = some`), a committable `payloadVerified` leave in the
tree, and that `freshestBundleRequest` / `nextThresholdStatusRequest` issued from the player's own (round, period) do not
disturb it (`Period + 1 < 2^64`: the GC test of `roundRouter.update` keeps the current period).
-/
namespace AlgoVerif.Lemmas.PlayerAttest
open AlgoVerif.Model AlgoVerif.Model.Player AlgoVerif.Model.VoteTracker AlgoVerif.Lemmas.Player

/-- round router and period router the tree holds for (r, p) -/
def RAt (root : Root) (r p : Nat) (rr : RoundR) (pr : PeriodR) : Prop :=
  aget root.rounds r = some rr ∧ aget rr.periods p = some pr

/-- the committable value of (r, p) -/
def commVal (root : Root) (r p : Nat) : Option Nat :=
  (aget root.rounds r).bind (fun rr => (aget rr.periods p).bind (fun pr =>
    if (rr.store.asm pr.ptracker.staging).payload.isSome then some pr.ptracker.staging else none))

theorem commVal_of_RAt {root : Root} {r p : Nat} {rr : RoundR} {pr : PeriodR} (h : RAt root r p rr pr) :
    commVal root r p = if (rr.store.asm pr.ptracker.staging).payload.isSome then some pr.ptracker.staging else none := by
  simp [commVal, h.1, h.2]

theorem commVal_some {root : Root} {r p v : Nat} (h : commVal root r p = some v) : ∃ rr pr, RAt root r p rr pr := by
  unfold commVal at h
  cases hr : aget root.rounds r with
  | none => rw [hr] at h; cases h
  | some rr =>
    rw [hr] at h
    simp only [Option.bind_some] at h
    cases hp : aget rr.periods p with
    | none => rw [hp] at h; cases h
    | some pr => exact ⟨rr, pr, hr, hp⟩

theorem viewAt_of_RAt {root : Root} {r p : Nat} {rr : RoundR} {pr : PeriodR} (h : RAt root r p rr pr) :
    viewAt root r p = some (pview pr) := viewAt_of_PAt ⟨rr, h.1, h.2⟩

variable {P : Params}

/-! ### unfolding the zoom combinators -/

theorem atRound_out {α : Type} {pl : PlayerF} {r p : Nat} {root root' : Root} {a : α}
    {f : RoundR → Except Panic (RoundR × α)} (h : root.atRound P pl r p f = .ok (root', a)) :
    ∃ rr₀ rr', aget (root.upd P pl r).rounds r = some rr₀ ∧ f (rr₀.upd pl p) = .ok (rr', a) ∧
      aget root'.rounds r = some rr' := by
  unfold Root.atRound at h
  simp only [] at h
  split at h
  · cases h
  rename_i rr hrr
  split at h
  · cases h
  rename_i rr' a' hfa
  simp only [Except.ok.injEq, Prod.mk.injEq] at h
  obtain ⟨rfl, rfl⟩ := h
  exact ⟨rr, rr', hrr, hfa, aget_aset_self _ _ _⟩

theorem atPeriod_out {α : Type} {pl : PlayerF} {p s : Nat} {rr rr' : RoundR} {a : α}
    {f : PeriodR → Except Panic (PeriodR × α)} (h : rr.atPeriod pl p s f = .ok (rr', a)) :
    ∃ pr₀ pr', aget (rr.upd pl p).periods p = some pr₀ ∧ f (pr₀.upd s) = .ok (pr', a) ∧
      rr'.periods = aset (rr.upd pl p).periods p pr' ∧ rr'.store = rr.store := by
  unfold RoundR.atPeriod at h
  simp only [] at h
  split at h
  · cases h
  rename_i pr hpr
  split at h
  · cases h
  rename_i pr' a' hfa
  simp only [Except.ok.injEq, Prod.mk.injEq] at h
  obtain ⟨rfl, rfl⟩ := h
  exact ⟨pr, pr', hpr, hfa, rfl, (RoundR.upd_fields pl rr p).1⟩

/-! ### reads and writes -/

theorem readStaging_out {pl : PlayerF} {p : Nat} {rr rr' : RoundR} {st : Staged} (h : rr.readStaging pl p = .ok (rr', st)) :
    ∃ pr, aget rr'.periods p = some pr ∧ pr.ptracker.staging = st.proposal ∧
      st.payload = (rr'.store.asm st.proposal).payload ∧ rr'.store = rr.store := by
  unfold RoundR.readStaging at h
  split at h
  · cases h
  rename_i rr₁ v hat
  simp only [Except.ok.injEq, Prod.mk.injEq] at h
  obtain ⟨rfl, rfl⟩ := h
  obtain ⟨pr₀, pr', _, hf, hper, hst⟩ := atPeriod_out hat
  simp only [Except.ok.injEq, Prod.mk.injEq] at hf
  obtain ⟨rfl, rfl⟩ := hf
  exact ⟨pr₀.upd 0, by rw [hper]; exact aget_aset_self _ _ _, rfl, rfl, hst⟩

theorem staged_out {σ σ' : State} {r p : Nat} {st : Staged} (h : staged P σ r p = .ok (σ', st)) :
    ∃ rr pr, RAt σ'.root r p rr pr ∧ pr.ptracker.staging = st.proposal ∧
      st.payload = (rr.store.asm st.proposal).payload := by
  unfold staged at h
  split at h
  · cases h
  rename_i root a hx
  simp only [Except.ok.injEq, Prod.mk.injEq] at h
  obtain ⟨rfl, rfl⟩ := h
  obtain ⟨_, rr', _, hf, hrr'⟩ := atRound_out hx
  obtain ⟨pr, h1, h2, h3, _⟩ := readStaging_out hf
  exact ⟨rr', pr, ⟨hrr', h1⟩, h2, h3⟩

theorem commVal_staged {σ σ' : State} {r p : Nat} {st : Staged} (h : staged P σ r p = .ok (σ', st)) :
    commVal σ'.root r p = if st.payload.isSome then some st.proposal else none := by
  obtain ⟨rr, pr, hat, h1, h2⟩ := staged_out h
  rw [commVal_of_RAt hat, h1, h2]

theorem asm_relevant (st : Store) (rel : List (Nat × Nat)) (v : Nat) :
    ({ st with relevant := rel } : Store).asm v = st.asm v := rfl

theorem threshold_some {pl : PlayerF} {rr rr' : RoundR} {e : Thresh} {v : Nat} {a : Option PVote}
    (h : rr.threshold pl e = .ok (rr', some (v, a))) :
    v = e.proposal ∧ (rr'.store.asm v).payload.isSome = true ∧
      ∃ pr, aget rr'.periods e.period = some pr ∧ pr.ptracker.staging = v := by
  unfold RoundR.threshold at h
  split at h
  · cases h
  rename_i rr₁ hat
  obtain ⟨pr₀, pr', _, hf, hper, _⟩ := atPeriod_out hat
  have hstg := (stage_spec hf).2
  simp only [] at h
  split at h
  · rename_i hpay
    simp only [Except.ok.injEq, Prod.mk.injEq, Option.some.injEq] at h
    obtain ⟨rfl, rfl, _⟩ := h
    exact ⟨rfl, hpay, pr', by show aget rr₁.periods e.period = some pr'; rw [hper]; exact aget_aset_self _ _ _, hstg⟩
  · simp only [Except.ok.injEq, Prod.mk.injEq] at h
    obtain ⟨_, h2⟩ := h
    cases h2

theorem pmThreshold_comm {σ σ' : State} {rt : Nat} {e : Thresh} {v : Nat} {a : Option PVote}
    (h : pmThreshold P σ rt e = .ok (σ', some (v, a))) : commVal σ'.root e.round e.period = some v := by
  unfold pmThreshold at h
  simp only [] at h
  split at h
  · cases h
  split at h
  · cases h
  split at h
  · cases h
  split at h
  · split at h
    · cases h
    simp only [Except.ok.injEq, Prod.mk.injEq] at h
    obtain ⟨_, h2⟩ := h
    cases h2
  · split at h
    · cases h
    split at h
    · cases h
    rename_i root c' hx
    simp only [Except.ok.injEq, Prod.mk.injEq] at h
    obtain ⟨rfl, rfl⟩ := h
    obtain ⟨_, rr', _, hf, hrr'⟩ := atRound_out hx
    obtain ⟨_, hpay, pr, hpr, hstg⟩ := threshold_some hf
    have hat : RAt root e.round e.period rr' pr := ⟨hrr', hpr⟩
    show commVal root e.round e.period = some v
    rw [commVal_of_RAt hat, hstg, hpay]; rfl

theorem asm_aset_self (st : Store) (k : Nat) (ea : Assembler) :
    ({ st with assemblers := aset st.assemblers k ea } : Store).asm k = ea := by
  unfold Store.asm
  simp only [aget_aset_self, Option.getD_some]

theorem payloadVerified_comm {pl : PlayerF} {rr rr' : RoundR} {pp : Payload} {v : Nat} {a : Option PVote}
    (h : rr.payloadVerified pl pp = .ok (rr', .committable v a)) :
    ∃ pr, aget rr'.periods pl.period = some pr ∧ pr.ptracker.staging = v ∧ (rr'.store.asm v).payload.isSome = true := by
  unfold RoundR.payloadVerified at h
  split at h
  · simp only [Except.ok.injEq, Prod.mk.injEq] at h; obtain ⟨_, h2⟩ := h; cases h2
  rename_i ea hea
  split at h
  · simp only [Except.ok.injEq, Prod.mk.injEq] at h; obtain ⟨_, h2⟩ := h; cases h2
  simp only [] at h
  split at h
  · cases h
  rename_i rr₁ st hst
  unfold RoundR.stagedSelf at hst
  obtain ⟨pr, h1, h2, _, h4⟩ := readStaging_out hst
  split at h
  · rename_i heq
    simp only [Except.ok.injEq, Prod.mk.injEq, PayRes.committable.injEq] at h
    obtain ⟨rfl, rfl, _⟩ := h
    refine ⟨pr, h1, h2.trans heq, ?_⟩
    rw [h4, (RoundR.upd_fields pl _ pl.period).1]
    show (({ rr.store with assemblers := aset rr.store.assemblers pp.value { ea with payload := some pp } } : Store).asm pp.value).payload.isSome = true
    rw [asm_aset_self]; rfl
  · simp only [Except.ok.injEq, Prod.mk.injEq] at h; obtain ⟨_, h2⟩ := h; cases h2

theorem payloadPresent_not_comm (pl : PlayerF) (rr : RoundR) (p : Payload) (v : Nat) (a : Option PVote) :
    (rr.payloadPresent pl p).2 ≠ .committable v a := by
  unfold RoundR.payloadPresent
  repeat' split
  all_goals (intro hc; cases hc)

theorem pmPayload_comm {σ σ' : State} {verified : Bool} {bad : Bad} {p : Payload} {v : Nat} {a : Option PVote}
    (h : pmPayload P σ verified bad p = .ok (σ', .committable v a)) :
    commVal σ'.root σ.pl.round σ.pl.period = some v := by
  unfold pmPayload at h
  simp only [] at h
  split at h
  · exfalso
    split at h
    · split at h
      · cases h
      rename_i root res hx
      obtain ⟨rr₀, rr', _, hf, _⟩ := atRound_out hx
      simp only [Except.ok.injEq] at hf
      have hne := payloadPresent_not_comm σ.pl (rr₀.upd σ.pl σ.pl.period) p
      rw [hf] at hne
      split at h
      · simp only [Except.ok.injEq, Prod.mk.injEq] at h; obtain ⟨_, h2⟩ := h; cases h2
      · simp only [Except.ok.injEq, Prod.mk.injEq] at h; obtain ⟨_, h2⟩ := h
        exact hne v a h2
    · split at h
      · cases h
      rename_i root res hx
      obtain ⟨rr₀, rr', _, hf, _⟩ := atRound_out hx
      simp only [Except.ok.injEq] at hf
      have hne := payloadPresent_not_comm σ.pl (rr₀.upd σ.pl 0) p
      rw [hf] at hne
      split at h
      · simp only [Except.ok.injEq, Prod.mk.injEq] at h; obtain ⟨_, h2⟩ := h; cases h2
      · simp only [Except.ok.injEq, Prod.mk.injEq] at h; obtain ⟨_, h2⟩ := h
        exact hne v a h2
  · split at h
    · simp only [Except.ok.injEq, Prod.mk.injEq] at h; obtain ⟨_, h2⟩ := h; cases h2
    split at h
    · simp only [Except.ok.injEq, Prod.mk.injEq] at h; obtain ⟨_, h2⟩ := h; cases h2
    split at h
    · cases h
    rename_i root res hx
    simp only [Except.ok.injEq, Prod.mk.injEq] at h
    obtain ⟨rfl, rfl⟩ := h
    obtain ⟨_, rr', _, hf, hrr'⟩ := atRound_out hx
    obtain ⟨pr, h1, h2, h3⟩ := payloadVerified_comm hf
    have hat : RAt root σ.pl.round σ.pl.period rr' pr := ⟨hrr', h1⟩
    show commVal root σ.pl.round σ.pl.period = some v
    rw [commVal_of_RAt hat, h2, h3]; rfl

/-! ### frames: queries issued from the player's own (round, period) -/

theorem atPeriod_frame {α : Type} {pl : PlayerF} {p q s : Nat} {rr rr' : RoundR} {pr : PeriodR} {a : α}
    {f : PeriodR → Except Panic (PeriodR × α)} (hk : keepPeriod pl p = true) (hne : p ≠ q)
    (hp : aget rr.periods p = some pr) (h : rr.atPeriod pl q s f = .ok (rr', a)) :
    aget rr'.periods p = some pr ∧ rr'.store = rr.store := by
  obtain ⟨_, pr', _, _, hper, hst⟩ := atPeriod_out h
  refine ⟨?_, hst⟩
  rw [hper, aget_aset_ne _ _ _ _ hne]
  exact upd_aget_keep hp hk

theorem atRound_frame {α : Type} {pl : PlayerF} {q : Nat} {root root' : Root} {rr : RoundR} {pr : PeriodR} {a : α}
    {f : RoundR → Except Panic (RoundR × α)} (hfit : pl.period + 1 < 18446744073709551616)
    (hat : RAt root pl.round pl.period rr pr)
    (hf : ∀ rr₁ rr₂ a, aget rr₁.periods pl.period = some pr → f rr₁ = .ok (rr₂, a) →
      aget rr₂.periods pl.period = some pr ∧ rr₂.store = rr₁.store)
    (h : root.atRound P pl pl.round q f = .ok (root', a)) :
    ∃ rr', RAt root' pl.round pl.period rr' pr ∧ rr'.store = rr.store := by
  obtain ⟨rr₀, rr', h0, hfa, hrr'⟩ := atRound_out h
  rw [Root.upd_aget_of_some hat.1, keepRound_self] at h0
  simp only [if_true, Option.some.injEq] at h0
  subst h0
  obtain ⟨h1, h2⟩ := hf _ rr' a (upd_aget_keep hat.2 (keepPeriod_self hfit)) hfa
  exact ⟨rr', ⟨hrr', h1⟩, by rw [h2, (RoundR.upd_fields pl rr q).1]⟩

theorem commVal_frame {root root' : Root} {r p : Nat} {rr rr' : RoundR} {pr : PeriodR} (h : RAt root r p rr pr)
    (h' : RAt root' r p rr' pr) (hs : rr'.store = rr.store) : commVal root' r p = commVal root r p := by
  rw [commVal_of_RAt h, commVal_of_RAt h', hs]

theorem freshest_comm {σ σ' : State} {res : Bool × Thresh} {rr : RoundR} {pr : PeriodR}
    (hfit : σ.pl.period + 1 < 18446744073709551616) (hat : RAt σ.root σ.pl.round σ.pl.period rr pr)
    (h : freshest P σ σ.pl.round = .ok (σ', res)) :
    ∃ rr', RAt σ'.root σ.pl.round σ.pl.period rr' pr ∧ rr'.store = rr.store := by
  unfold freshest at h
  split at h
  · cases h
  rename_i root a hx
  simp only [Except.ok.injEq, Prod.mk.injEq] at h
  obtain ⟨rfl, _⟩ := h
  exact atRound_frame hfit hat (fun rr₁ rr₂ a hp hf => by
    simp only [Except.ok.injEq, Prod.mk.injEq] at hf
    obtain ⟨rfl, _⟩ := hf
    exact ⟨hp, rfl⟩) hx

theorem predPeriod_ne (p : Nat) (hfit : p + 1 < 18446744073709551616) : p ≠ predPeriod p := by
  unfold predPeriod
  split <;> omega

theorem nextStatus_comm {σ σ' : State} {ns : NextStatus} {rr : RoundR} {pr : PeriodR}
    (hfit : σ.pl.period + 1 < 18446744073709551616) (hat : RAt σ.root σ.pl.round σ.pl.period rr pr)
    (h : nextStatus P σ = .ok (σ', ns)) :
    ∃ rr', RAt σ'.root σ.pl.round σ.pl.period rr' pr ∧ rr'.store = rr.store := by
  unfold nextStatus at h
  simp only [] at h
  split at h
  · cases h
  rename_i root a hx
  simp only [Except.ok.injEq, Prod.mk.injEq] at h
  obtain ⟨rfl, _⟩ := h
  exact atRound_frame hfit hat (fun rr₁ rr₂ a hp hf =>
    atPeriod_frame (keepPeriod_self hfit) (predPeriod_ne _ hfit) hp hf) hx

end AlgoVerif.Lemmas.PlayerAttest
