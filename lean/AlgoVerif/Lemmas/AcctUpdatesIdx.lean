import AlgoVerif.Lemmas.AcctUpdatesMap
/-! Generic lemmas for the per-key index of Model.AcctUpdates (latest value + ndeltas): maintained by `newBlock`,
trimmed by `postCommit` (`idxDrop`). -/
namespace AlgoVerif.Lemmas.AcctUpdates
open AlgoVerif.Spec.LedgerHistory AlgoVerif.Model.AcctUpdates

section idx
variable {K E V : Type} [DecidableEq K]

/-- the index agrees with the rounds `rs` held in memory: a key is present iff some round touches it, with the number
    of touching rounds and a value related to the most recent entry -/
def IdxInv (rel : V → E → Prop) (idx : AMap K (V × Nat)) (rs : List (AMap K E)) : Prop :=
  ∀ k, match AMap.get idx k with
       | none => entriesOf rs k = []
       | some (v, n) => ∃ e, (entriesOf rs k).getLast? = some e ∧ rel v e ∧ n = (entriesOf rs k).length

theorem idxInv_nil (rel : V → E → Prop) : IdxInv rel ([] : AMap K (V × Nat)) ([] : List (AMap K E)) := by
  intro k; simp

/-- what one `newBlock` loop does to the index, key by key -/
theorem fold_step_get (rel : V → E → Prop) (step : AMap K (V × Nat) → K × E → AMap K (V × Nat))
    (hstep : ∀ m p, ∃ v, rel v p.2 ∧ ∀ k', AMap.get (step m p) k' =
        if p.1 = k' then some (v, ((AMap.get m p.1).map (·.2)).getD 0 + 1) else AMap.get m k')
    (round : AMap K E) (hr : (AMap.keys round).Nodup) (idx : AMap K (V × Nat)) (k : K) :
    (AMap.get round k = none ∧ AMap.get (round.foldl step idx) k = AMap.get idx k) ∨
    (∃ e v, AMap.get round k = some e ∧ rel v e ∧
      AMap.get (round.foldl step idx) k = some (v, ((AMap.get idx k).map (·.2)).getD 0 + 1)) := by
  induction round generalizing idx with
  | nil => left; simp
  | cons p t ih =>
    obtain ⟨k0, e0⟩ := p
    simp [AMap.keys] at hr
    have hr2 : (AMap.keys t).Nodup := by simpa [AMap.keys] using hr.2
    simp only [List.foldl_cons]
    obtain ⟨v0, hrel0, hget0⟩ := hstep idx (k0, e0)
    rcases ih hr2 (step idx (k0, e0)) with ⟨hn, hf⟩ | ⟨e, v, hs, hrel, hf⟩
    · by_cases hk : k0 = k
      · subst hk
        right
        refine ⟨e0, v0, by simp [get_cons], hrel0, ?_⟩
        rw [hf, hget0]; simp
      · left
        refine ⟨by simp [get_cons, hk, hn], ?_⟩
        rw [hf, hget0]; simp [hk]
    · have hk : k0 ≠ k := by
        intro e'; subst e'
        have := mem_keys_of_get_some hs
        simp only [AMap.keys, List.mem_map] at this
        obtain ⟨⟨a, b⟩, hm, rfl⟩ := this
        exact hr.1 b hm
      right
      refine ⟨e, v, by simp [get_cons, hk, hs], hrel, ?_⟩
      rw [hf, hget0]; simp [hk]

theorem idxInv_newBlock (rel : V → E → Prop) (step : AMap K (V × Nat) → K × E → AMap K (V × Nat))
    (hstep : ∀ m p, ∃ v, rel v p.2 ∧ ∀ k', AMap.get (step m p) k' =
        if p.1 = k' then some (v, ((AMap.get m p.1).map (·.2)).getD 0 + 1) else AMap.get m k')
    (round : AMap K E) (hr : (AMap.keys round).Nodup) (idx : AMap K (V × Nat)) (rs : List (AMap K E))
    (h : IdxInv rel idx rs) : IdxInv rel (round.foldl step idx) (rs ++ [round]) := by
  intro k
  have hk := h k
  have hent : entriesOf (rs ++ [round]) k = entriesOf rs k ++ (AMap.get round k).toList := by
    rw [entriesOf_append]
    congr 1
  rcases fold_step_get rel step hstep round hr idx k with ⟨hn, hf⟩ | ⟨e, v, hs, hrel, hf⟩
  · rw [hf, hent, hn]; simpa using hk
  · rw [hf, hent, hs]
    simp only [Option.toList_some]
    refine ⟨e, by simp, hrel, ?_⟩
    cases hg : AMap.get idx k with
    | none => rw [hg] at hk; simp at hk; simp [hk]
    | some vn =>
      obtain ⟨v', n'⟩ := vn
      rw [hg] at hk
      obtain ⟨_, _, _, hn'⟩ := hk
      simp [hn']

/-- `exceptFold` over a list with unique keys where every step only touches its own key -/
theorem exceptFold_idxDrop (what : String) (cnt : AMap K Nat) (hn : (AMap.keys cnt).Nodup) (idx : AMap K (V × Nat))
    (hok : ∀ k c, AMap.get cnt k = some c → ∃ v n, AMap.get idx k = some (v, n) ∧ c ≤ n) :
    ∃ idx', exceptFold (fun m (p : K × Nat) => idxDrop what m p.1 p.2) cnt idx = .ok idx' ∧
      ∀ k, AMap.get idx' k = match AMap.get cnt k with
        | none => AMap.get idx k
        | some c => match AMap.get idx k with
          | some (v, n) => if c = n then none else some (v, n - c)
          | none => none := by
  induction cnt generalizing idx with
  | nil => exact ⟨idx, rfl, fun k => by simp⟩
  | cons p t ih =>
    obtain ⟨k0, c0⟩ := p
    simp [AMap.keys] at hn
    have hn2 : (AMap.keys t).Nodup := by simpa [AMap.keys] using hn.2
    have hk0t : AMap.get t k0 = none := get_none_of_not_mem_keys (by
      simp only [AMap.keys, List.mem_map]; rintro ⟨⟨a, b⟩, hm, rfl⟩; exact hn.1 b hm)
    obtain ⟨v0, n0, hg0, hle0⟩ := hok k0 c0 (by simp [get_cons])
    -- the first step
    have hstep : ∃ idx1, idxDrop what idx k0 c0 = .ok idx1 ∧ ∀ k, AMap.get idx1 k =
        if k0 = k then (if c0 = n0 then none else some (v0, n0 - c0)) else AMap.get idx k := by
      unfold idxDrop
      rw [hg0]
      simp only []
      have : ¬ c0 > n0 := by omega
      simp only [this, if_false]
      by_cases hc : c0 = n0
      · simp only [hc, if_true]
        refine ⟨_, rfl, fun k => ?_⟩
        by_cases hk : k0 = k
        · subst hk; simp [get_del_self]
        · simp [hk, get_del_ne _ _ _ hk]
      · simp only [hc, if_false]
        refine ⟨_, rfl, fun k => ?_⟩
        rw [get_set]
    obtain ⟨idx1, h1, hget1⟩ := hstep
    have hok1 : ∀ k c, AMap.get t k = some c → ∃ v n, AMap.get idx1 k = some (v, n) ∧ c ≤ n := by
      intro k c hkc
      have hne : k0 ≠ k := by intro e; subst e; rw [hk0t] at hkc; simp at hkc
      obtain ⟨v, n, hg, hle⟩ := hok k c (by simp [get_cons, hne, hkc])
      exact ⟨v, n, by rw [hget1]; simp [hne, hg], hle⟩
    obtain ⟨idx', h2, hget2⟩ := ih hn2 idx1 hok1
    refine ⟨idx', ?_, fun k => ?_⟩
    · simp only [exceptFold, h1]; exact h2
    · rw [hget2, get_cons]
      by_cases hk : k0 = k
      · subst hk
        simp only [hk0t, if_true]
        rw [hget1, hg0]; simp
      · simp only [hk, if_false]
        rw [hget1]; simp [hk]

/-- `postCommit`: dropping the counts of the flushed rounds `rs.take j` leaves the index of `rs.drop j` -/
theorem idxInv_postCommit (rel : V → E → Prop) (what : String) (idx : AMap K (V × Nat)) (rs : List (AMap K E)) (j : Nat)
    (h : IdxInv rel idx rs) (cnt : AMap K Nat) (hn : (AMap.keys cnt).Nodup)
    (hcnt : ∀ k, AMap.get cnt k = if entriesOf (rs.take j) k = [] then none else some (entriesOf (rs.take j) k).length) :
    ∃ idx', exceptFold (fun m (p : K × Nat) => idxDrop what m p.1 p.2) cnt idx = .ok idx' ∧ IdxInv rel idx' (rs.drop j) := by
  have hsplit := fun k => entriesOf_take_drop rs j k
  have hok : ∀ k c, AMap.get cnt k = some c → ∃ v n, AMap.get idx k = some (v, n) ∧ c ≤ n := by
    intro k c hkc
    rw [hcnt k] at hkc
    split at hkc
    · simp at hkc
    · next hne =>
      simp at hkc
      have hk := h k
      cases hg : AMap.get idx k with
      | none =>
        rw [hg] at hk; simp at hk
        rw [hsplit k] at hk; simp at hk; exact absurd hk.1 hne
      | some vn =>
        obtain ⟨v, n⟩ := vn
        rw [hg] at hk
        obtain ⟨_, _, _, hn'⟩ := hk
        refine ⟨v, n, rfl, ?_⟩
        rw [hn', hsplit k, List.length_append]; omega
  obtain ⟨idx', hf, hget⟩ := exceptFold_idxDrop what cnt hn idx hok
  refine ⟨idx', hf, fun k => ?_⟩
  rw [hget k, hcnt k]
  have hk := h k
  by_cases hne : entriesOf (rs.take j) k = []
  · simp only [hne, if_true]
    rw [hsplit k, hne, List.nil_append] at hk
    exact hk
  · simp only [hne, if_false]
    cases hg : AMap.get idx k with
    | none =>
      rw [hg] at hk; simp at hk
      rw [hsplit k] at hk; simp at hk; exact absurd hk.1 hne
    | some vn =>
      obtain ⟨v, n⟩ := vn
      rw [hg] at hk
      obtain ⟨e, hlast, hrel, hn'⟩ := hk
      simp only []
      rw [hsplit k, List.length_append] at hn'
      by_cases hc : (entriesOf (rs.take j) k).length = n
      · simp only [hc, if_true]
        have : (entriesOf (rs.drop j) k).length = 0 := by omega
        exact List.eq_nil_of_length_eq_zero this
      · simp only [hc, if_false]
        have hpos : (entriesOf (rs.drop j) k).length > 0 := by omega
        have hne2 : entriesOf (rs.drop j) k ≠ [] := by
          intro e'; rw [e'] at hpos; simp at hpos
        refine ⟨e, ?_, hrel, by omega⟩
        rw [hsplit k, List.getLast?_append] at hlast
        cases hl : (entriesOf (rs.drop j) k).getLast? with
        | none =>
          cases hd : entriesOf (rs.drop j) k with
          | nil => exact absurd hd hne2
          | cons a l => rw [hd] at hl; simp [List.getLast?_cons] at hl
        | some w => rw [hl] at hlast; simpa using hlast

end idx

end AlgoVerif.Lemmas.AcctUpdates
