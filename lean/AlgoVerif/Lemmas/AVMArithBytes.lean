/-
C32 helper lemmas: big-endian byte strings (`beVal`, `beEnc`, `beFixed`), the Go-shaped conversions
(`setBytes` fold, `nonzero`, `btoiLoop`, `bitLenBytes`) and their relation to the positional value.
-/
import Mathlib.Tactic.Ring
import AlgoVerif.Model.AVMArith
namespace Lemmas.AVMArith
open Spec.AVMArith Model.AVMArith AlgoVerif.U64

theorem byte_lt (b : UInt8) : b.toNat < 256 := by
  have := UInt8.toNat_lt b; omega

theorem byte_ne_zero (b : UInt8) : b ≠ 0 ↔ b.toNat ≠ 0 := by
  constructor
  · intro h h2; apply h; apply UInt8.toNat_inj.mp; simpa using h2
  · intro h h2; apply h; rw [h2]; rfl

theorem pow256_pos (k : Nat) : 0 < 256 ^ k := Nat.pow_pos (by decide)

/-! ### positional value -/

theorem beVal_lt (bs : Bytes) : beVal bs < 256 ^ bs.length := by
  induction bs with
  | nil => simp [beVal]
  | cons b bs ih =>
    simp only [beVal, List.length_cons, Nat.pow_succ]
    have hb := byte_lt b
    generalize 256 ^ bs.length = P at *
    have : b.toNat * P ≤ 255 * P := Nat.mul_le_mul_right P (by omega)
    omega

theorem beVal_append (as bs : Bytes) :
    beVal (as ++ bs) = beVal as * 256 ^ bs.length + beVal bs := by
  induction as with
  | nil => simp [beVal]
  | cons a as ih =>
    simp only [List.cons_append, beVal, List.length_append, ih, Nat.pow_add]
    ring

theorem beVal_replicate_zero (k : Nat) : beVal (List.replicate k 0) = 0 := by
  induction k with
  | zero => rfl
  | succ k ih => simp [List.replicate_succ, beVal, ih]

/-- `big.Int.SetBytes` (left fold) computes the positional value -/
theorem setBytes_fold (bs : Bytes) (acc : Nat) :
    bs.foldl (fun acc x => acc * 256 + x.toNat) acc = acc * 256 ^ bs.length + beVal bs := by
  induction bs generalizing acc with
  | nil => simp [beVal]
  | cons b bs ih =>
    simp only [List.foldl_cons, ih, beVal, List.length_cons, Nat.pow_succ]
    ring

theorem setBytes_eq_beVal (bs : Bytes) : setBytes bs = beVal bs := by
  unfold setBytes; rw [setBytes_fold]; simp

/-! ### minimal encoding -/

theorem beEnc_zero : beEnc 0 = [] := by unfold beEnc; simp

theorem beEnc_pos (n : Nat) (h : n ≠ 0) : beEnc n = beEnc (n / 256) ++ [UInt8.ofNat (n % 256)] := by
  rw [beEnc]; simp [h]

theorem beVal_beEnc (n : Nat) : beVal (beEnc n) = n := by
  induction n using Nat.strongRecOn with
  | _ n ih =>
    by_cases h : n = 0
    · subst h; rw [beEnc_zero]; rfl
    · rw [beEnc_pos n h, beVal_append, ih (n / 256) (by omega)]
      simp only [beVal, List.length_cons, List.length_nil, UInt8.toNat_ofNat']
      omega

/-- the minimal encoding never starts with a zero byte -/
theorem beEnc_head_ne_zero (n : Nat) (b : UInt8) (rest : Bytes) (h : beEnc n = b :: rest) : b ≠ 0 := by
  induction n using Nat.strongRecOn generalizing b rest with
  | _ n ih =>
    by_cases hn : n = 0
    · subst hn; rw [beEnc_zero] at h; cases h
    · rw [beEnc_pos n hn] at h
      by_cases hq : n / 256 = 0
      · rw [hq, beEnc_zero] at h
        simp only [List.nil_append, List.cons.injEq] at h
        rw [← h.1, byte_ne_zero, UInt8.toNat_ofNat']
        omega
      · cases hq' : beEnc (n / 256) with
        | nil =>
          have := beVal_beEnc (n / 256)
          rw [hq'] at this; simp [beVal] at this; omega
        | cons c cs =>
          rw [hq'] at h
          simp only [List.cons_append, List.cons.injEq] at h
          rw [← h.1]
          exact ih (n / 256) (by omega) c cs hq'

theorem nonzero_canonical (b : UInt8) (rest : Bytes) (h : b ≠ 0) : nonzero (b :: rest) = b :: rest := by
  simp [nonzero, h]

theorem beVal_nonzero (bs : Bytes) : beVal (nonzero bs) = beVal bs := by
  induction bs with
  | nil => rfl
  | cons b bs ih =>
    by_cases h : b ≠ 0
    · rw [nonzero_canonical b bs h]
    · have hb : b = 0 := by simpa using h
      subst hb
      simp [nonzero, beVal, ih]

theorem nonzero_head (bs : Bytes) : nonzero bs = [] ∨ ∃ b rest, nonzero bs = b :: rest ∧ b ≠ 0 := by
  induction bs with
  | nil => left; rfl
  | cons b bs ih =>
    by_cases h : b ≠ 0
    · right; exact ⟨b, bs, nonzero_canonical b bs h, h⟩
    · have hb : b = 0 := by simpa using h
      subst hb
      simpa [nonzero] using ih

theorem nonzero_length_le (bs : Bytes) : (nonzero bs).length ≤ bs.length := by
  induction bs with
  | nil => simp [nonzero]
  | cons b bs ih =>
    by_cases h : b ≠ 0
    · rw [nonzero_canonical b bs h]
    · have hb : b = 0 := by simpa using h
      subst hb
      simp only [nonzero, ne_eq, not_true_eq_false, if_false, List.length_cons]
      omega

/-- a string without leading zero of length `k+1` has value at least `256^k` -/
theorem beVal_ge_of_head (b : UInt8) (rest : Bytes) (h : b ≠ 0) : 256 ^ rest.length ≤ beVal (b :: rest) := by
  have hb : 1 ≤ b.toNat := by
    have := (byte_ne_zero b).mp h; omega
  simp only [beVal]
  have : 1 * 256 ^ rest.length ≤ b.toNat * 256 ^ rest.length := Nat.mul_le_mul_right _ hb
  omega

/-- canonical strings (no leading zero) are determined by their value -/
theorem canonical_inj (as bs : Bytes)
    (ha : as = [] ∨ ∃ b rest, as = b :: rest ∧ b ≠ 0) (hb : bs = [] ∨ ∃ b rest, bs = b :: rest ∧ b ≠ 0)
    (hv : beVal as = beVal bs) : as = bs := by
  have key : ∀ (xs ys : Bytes), (ys = [] ∨ ∃ b rest, ys = b :: rest ∧ b ≠ 0) →
      beVal xs = beVal ys → ys.length ≤ xs.length := by
    intro xs ys hy hv
    rcases hy with hy | ⟨b, rest, hy, hb0⟩
    · subst hy; simp
    · subst hy
      have h1 := beVal_ge_of_head b rest hb0
      have h2 := beVal_lt xs
      rw [hv] at h2
      have : 256 ^ rest.length < 256 ^ xs.length := Nat.lt_of_le_of_lt h1 h2
      have := (Nat.pow_lt_pow_iff_right (by decide : 1 < 256)).mp this
      simp; omega
  have l1 := key as bs hb hv
  have l2 := key bs as ha hv.symm
  have hl : as.length = bs.length := by omega
  clear key l1 l2 ha hb
  induction as generalizing bs with
  | nil => cases bs with
    | nil => rfl
    | cons _ _ => simp at hl
  | cons a as ih =>
    cases bs with
    | nil => simp at hl
    | cons b bs =>
      simp only [List.length_cons, Nat.add_right_cancel_iff] at hl
      simp only [beVal, hl] at hv
      have h1 := beVal_lt as
      have h2 := beVal_lt bs
      rw [hl] at h1
      have hab : a.toNat = b.toNat := by
        generalize 256 ^ bs.length = P at *
        have hP : 0 < P := by omega
        by_cases hlt : a.toNat < b.toNat
        · have : (a.toNat + 1) * P ≤ b.toNat * P := Nat.mul_le_mul_right P hlt
          rw [Nat.add_mul] at this; omega
        · by_cases hgt : b.toNat < a.toNat
          · have : (b.toNat + 1) * P ≤ a.toNat * P := Nat.mul_le_mul_right P hgt
            rw [Nat.add_mul] at this; omega
          · omega
      have hab' : a = b := UInt8.toNat_inj.mp hab
      subst hab'
      have : beVal as = beVal bs := by omega
      rw [ih bs this hl]

theorem beEnc_canonical (n : Nat) : beEnc n = [] ∨ ∃ b rest, beEnc n = b :: rest ∧ b ≠ 0 := by
  cases h : beEnc n with
  | nil => left; rfl
  | cons b rest => right; exact ⟨b, rest, rfl, beEnc_head_ne_zero n b rest h⟩

/-- re-encoding a string strips exactly its leading zero bytes -/
theorem beEnc_beVal (bs : Bytes) : beEnc (beVal bs) = nonzero bs := by
  apply canonical_inj _ _ (beEnc_canonical _) (nonzero_head bs)
  rw [beVal_beEnc, beVal_nonzero]

/-- uniqueness: `beEnc n` is the only string of value `n` without a leading zero byte -/
theorem beEnc_unique (n : Nat) (bs : Bytes) (hv : beVal bs = n)
    (hc : bs = [] ∨ ∃ b rest, bs = b :: rest ∧ b ≠ 0) : bs = beEnc n := by
  apply canonical_inj _ _ hc (beEnc_canonical n)
  rw [beVal_beEnc, hv]

/-- minimal length: `beEnc n` fits in `k` bytes iff `n < 256^k` -/
theorem beEnc_length_le_iff (n k : Nat) : (beEnc n).length ≤ k ↔ n < 256 ^ k := by
  constructor
  · intro h
    have h1 := beVal_lt (beEnc n)
    rw [beVal_beEnc] at h1
    exact Nat.lt_of_lt_of_le h1 (Nat.pow_le_pow_right (by decide) h)
  · intro h
    rcases beEnc_canonical n with h0 | ⟨b, rest, hb, hb0⟩
    · rw [h0]; simp
    · have h1 := beVal_ge_of_head b rest hb0
      rw [← hb, beVal_beEnc] at h1
      have : 256 ^ rest.length < 256 ^ k := Nat.lt_of_le_of_lt h1 h
      have := (Nat.pow_lt_pow_iff_right (by decide : 1 < 256)).mp this
      rw [hb]; simp; omega

/-- any string of value `n` is at least as long as `beEnc n` -/
theorem beEnc_length_minimal (bs : Bytes) : (beEnc (beVal bs)).length ≤ bs.length :=
  (beEnc_length_le_iff _ _).mpr (beVal_lt bs)

/-! ### fixed-width encoding -/

theorem beFixed_length (k n : Nat) : (beFixed k n).length = k := by
  induction k with
  | zero => rfl
  | succ k ih => simp [beFixed, ih]

theorem beVal_beFixed (k n : Nat) : beVal (beFixed k n) = n % 256 ^ k := by
  induction k with
  | zero => simp [beFixed, beVal, Nat.mod_one]
  | succ k ih =>
    simp only [beFixed, beVal, beFixed_length, ih, UInt8.toNat_ofNat']
    have h8 : (2:Nat)^8 = 256 := by decide
    rw [h8, Nat.pow_succ, Nat.mod_mul, Nat.mod_mod]
    ring

theorem beFixed_beVal (bs : Bytes) : beFixed bs.length (beVal bs) = bs := by
  induction bs with
  | nil => rfl
  | cons b bs ih =>
    simp only [List.length_cons, beFixed, List.cons.injEq]
    have hlt := beVal_lt bs
    have hb := byte_lt b
    constructor
    · apply UInt8.toNat_inj.mp
      rw [UInt8.toNat_ofNat']
      simp only [beVal]
      have h8 : (2:Nat)^8 = 256 := by decide
      rw [h8, Nat.mul_comm, Nat.mul_add_div (pow256_pos _), Nat.div_eq_of_lt hlt]
      omega
    · -- lower digits ignore the leading byte
      have : ∀ (k : Nat) (x y : Nat), k ≤ bs.length → beFixed k (x * 256 ^ bs.length + y) = beFixed k y := by
        intro k x y hk
        induction k with
        | zero => rfl
        | succ k ihk =>
          simp only [beFixed]
          rw [ihk (by omega)]
          congr 1
          have hsplit : 256 ^ bs.length = 256 ^ (bs.length - k - 1) * 256 * 256 ^ k := by
            rw [Nat.mul_assoc, ← Nat.pow_succ', ← Nat.pow_add]; congr 1; omega
          rw [hsplit, ← Nat.mul_assoc, ← Nat.mul_assoc, Nat.add_comm, Nat.add_mul_div_right _ _ (pow256_pos k)]
          rw [Nat.add_mul_mod_self_right]
      simp only [beVal]
      rw [this bs.length b.toNat (beVal bs) (Nat.le_refl _), ih]

end Lemmas.AVMArith
