import AlgoVerif.Lemmas.AcctUpdatesPageKvWalk
/-! C10 (model pages): the delta walk of lookupAssetResources / lookupApplicationResources (`deltaResWalk`): the collected holdings
and params are "first seen wins" maps over the rounds walked backwards, and `numDeleted` counts exactly the collected deletions.
Core Lean only. -/
namespace AlgoVerif.Lemmas.PageRes
open AlgoVerif.Spec.LedgerHistory AlgoVerif.Model.AcctUpdates AlgoVerif.Lemmas.Pages AlgoVerif.Lemmas.AcctUpdates
open AlgoVerif.Lemmas.PageKv

/-- the body of the record loop of `deltaResWalk`, verbatim -/
def walkStep (a : Addr) (gt : Nat) (t : CType) (acc : DeltaRes) (rec : ResRec) : DeltaRes :=
  if rec.ctype ≠ t then acc
  else if rec.cidx ≤ gt then acc
  else
    let acc :=
      if rec.params ≠ .absent && (AMap.get acc.params rec.cidx).isNone then
        { acc with params := acc.params ++ [(rec.cidx, (rec.params, rec.addr))],
                   numDeleted := acc.numDeleted + (if rec.params = .deleted then 1 else 0) }
      else acc
    if rec.addr ≠ a then acc
    else if rec.hold ≠ .absent && (AMap.get acc.holds rec.cidx).isNone then
      { acc with holds := acc.holds ++ [(rec.cidx, rec.hold)],
                 numDeleted := acc.numDeleted + (if rec.hold = .deleted then 1 else 0) }
    else acc

theorem deltaResWalk_eq (deltas : List Delta) (a : Addr) (gt : Nat) (t : CType) :
    deltaResWalk deltas a gt t = deltas.reverse.foldl (fun acc d => d.res.foldl (walkStep a gt t) acc) {} := rfl

def pCond (gt : Nat) (t : CType) (r : ResRec) : Bool := decide (r.ctype = t) && decide (gt < r.cidx) && decide (r.params ≠ .absent)
def hCond (a : Addr) (gt : Nat) (t : CType) (r : ResRec) : Bool :=
  decide (r.ctype = t) && decide (gt < r.cidx) && decide (r.addr = a) && decide (r.hold ≠ .absent)

/-- the params candidates of one round: (index, (params part, address of the record)) -/
def candsP (gt : Nat) (t : CType) (d : Delta) : List (Cidx × (Part × Addr)) :=
  (d.res.filter (pCond gt t)).map (fun r => (r.cidx, (r.params, r.addr)))

/-- the holding candidates of one round, records of `a` only -/
def candsH (a : Addr) (gt : Nat) (t : CType) (d : Delta) : List (Cidx × Part) :=
  (d.res.filter (hCond a gt t)).map (fun r => (r.cidx, r.hold))

def delP (m : AMap Cidx (Part × Addr)) : Nat := (m.filter (fun p => decide (p.2.1 = .deleted))).length
def delH (m : AMap Cidx Part) : Nat := (m.filter (fun p => decide (p.2 = .deleted))).length

/-- `numDeleted` is the number of collected deletions -/
def CountInv (acc : DeltaRes) : Prop := acc.numDeleted = delP acc.params + delH acc.holds

/-- the params half of the loop body -/
def paramHalf (acc : DeltaRes) (rec : ResRec) : DeltaRes :=
  if rec.params ≠ .absent && (AMap.get acc.params rec.cidx).isNone then
    { acc with params := acc.params ++ [(rec.cidx, (rec.params, rec.addr))],
               numDeleted := acc.numDeleted + (if rec.params = .deleted then 1 else 0) }
  else acc

/-- the holding half of the loop body -/
def holdHalf (a : Addr) (acc : DeltaRes) (rec : ResRec) : DeltaRes :=
  if rec.addr ≠ a then acc
  else if rec.hold ≠ .absent && (AMap.get acc.holds rec.cidx).isNone then
    { acc with holds := acc.holds ++ [(rec.cidx, rec.hold)],
               numDeleted := acc.numDeleted + (if rec.hold = .deleted then 1 else 0) }
  else acc

theorem walkStep_split (a : Addr) (gt : Nat) (t : CType) (acc : DeltaRes) (rec : ResRec) :
    walkStep a gt t acc rec =
      if rec.ctype ≠ t then acc else if rec.cidx ≤ gt then acc else holdHalf a (paramHalf acc rec) rec := rfl

theorem paramHalf_holds (acc : DeltaRes) (rec : ResRec) : (paramHalf acc rec).holds = acc.holds := by
  unfold paramHalf; split <;> rfl

theorem holdHalf_params (a : Addr) (acc : DeltaRes) (rec : ResRec) : (holdHalf a acc rec).params = acc.params := by
  unfold holdHalf; split
  · rfl
  · split <;> rfl

theorem paramHalf_params (acc : DeltaRes) (rec : ResRec) :
    (paramHalf acc rec).params =
      if rec.params ≠ .absent then fwStep acc.params (rec.cidx, (rec.params, rec.addr)) else acc.params := by
  unfold paramHalf fwStep
  by_cases h3 : rec.params = .absent
  · simp [h3]
  · cases hg : AMap.get acc.params rec.cidx with
    | none => simp [h3]
    | some v => simp [h3]

theorem holdHalf_holds (a : Addr) (acc : DeltaRes) (rec : ResRec) :
    (holdHalf a acc rec).holds =
      if rec.addr = a ∧ rec.hold ≠ .absent then fwStep acc.holds (rec.cidx, rec.hold) else acc.holds := by
  unfold holdHalf fwStep
  by_cases h3 : rec.addr = a
  · by_cases h4 : rec.hold = .absent
    · simp [h3, h4]
    · cases hg : AMap.get acc.holds rec.cidx with
      | none => simp [h3, h4]
      | some v => simp [h3, h4]
  · simp [h3]

theorem walkStep_params (a : Addr) (gt : Nat) (t : CType) (acc : DeltaRes) (rec : ResRec) :
    (walkStep a gt t acc rec).params =
      if pCond gt t rec then fwStep acc.params (rec.cidx, (rec.params, rec.addr)) else acc.params := by
  rw [walkStep_split]
  unfold pCond
  by_cases h1 : rec.ctype = t
  · by_cases h2 : rec.cidx ≤ gt
    · have h2' : ¬ gt < rec.cidx := Nat.not_lt.mpr h2
      simp [h1, h2, h2']
    · have h2' : gt < rec.cidx := Nat.lt_of_not_le h2
      rw [if_neg (by simp [h1]), if_neg h2, holdHalf_params, paramHalf_params]
      by_cases h3 : rec.params = .absent <;> simp [h1, h2', h3]
  · simp [h1]

theorem walkStep_holds (a : Addr) (gt : Nat) (t : CType) (acc : DeltaRes) (rec : ResRec) :
    (walkStep a gt t acc rec).holds =
      if hCond a gt t rec then fwStep acc.holds (rec.cidx, rec.hold) else acc.holds := by
  rw [walkStep_split]
  unfold hCond
  by_cases h1 : rec.ctype = t
  · by_cases h2 : rec.cidx ≤ gt
    · have h2' : ¬ gt < rec.cidx := Nat.not_lt.mpr h2
      simp [h1, h2, h2']
    · have h2' : gt < rec.cidx := Nat.lt_of_not_le h2
      rw [if_neg (by simp [h1]), if_neg h2, holdHalf_holds, paramHalf_holds]
      by_cases h3 : rec.addr = a <;> by_cases h4 : rec.hold = .absent <;> simp [h1, h2', h3, h4]
  · simp [h1]

theorem delP_append (m : AMap Cidx (Part × Addr)) (p : Cidx × (Part × Addr)) :
    delP (m ++ [p]) = delP m + (if p.2.1 = .deleted then 1 else 0) := by
  unfold delP
  rw [List.filter_append, List.length_append]
  by_cases h : p.2.1 = .deleted <;> simp [h]

theorem delH_append (m : AMap Cidx Part) (p : Cidx × Part) :
    delH (m ++ [p]) = delH m + (if p.2 = .deleted then 1 else 0) := by
  unfold delH
  rw [List.filter_append, List.length_append]
  by_cases h : p.2 = .deleted <;> simp [h]

theorem paramHalf_count (acc : DeltaRes) (rec : ResRec) (h : CountInv acc) : CountInv (paramHalf acc rec) := by
  unfold paramHalf
  split
  · unfold CountInv at h ⊢
    simp only []
    rw [delP_append, h]
    simp only []
    omega
  · exact h

theorem holdHalf_count (a : Addr) (acc : DeltaRes) (rec : ResRec) (h : CountInv acc) : CountInv (holdHalf a acc rec) := by
  unfold holdHalf
  split
  · exact h
  · split
    · unfold CountInv at h ⊢
      simp only []
      rw [delH_append, h]
      simp only []
      omega
    · exact h

theorem walkStep_count (a : Addr) (gt : Nat) (t : CType) (acc : DeltaRes) (rec : ResRec) (h : CountInv acc) :
    CountInv (walkStep a gt t acc rec) := by
  rw [walkStep_split]
  split
  · exact h
  · split
    · exact h
    · exact holdHalf_count a _ rec (paramHalf_count acc rec h)

theorem walkInner_params (a : Addr) (gt : Nat) (t : CType) (recs : List ResRec) (acc : DeltaRes) :
    (recs.foldl (walkStep a gt t) acc).params =
      ((recs.filter (pCond gt t)).map (fun r => (r.cidx, (r.params, r.addr)))).foldl fwStep acc.params := by
  induction recs generalizing acc with
  | nil => rfl
  | cons r rs ih =>
    simp only [List.foldl_cons, List.filter_cons]
    rw [ih, walkStep_params]
    by_cases hc : pCond gt t r = true
    · simp [hc]
    · simp [hc]

theorem walkInner_holds (a : Addr) (gt : Nat) (t : CType) (recs : List ResRec) (acc : DeltaRes) :
    (recs.foldl (walkStep a gt t) acc).holds =
      ((recs.filter (hCond a gt t)).map (fun r => (r.cidx, r.hold))).foldl fwStep acc.holds := by
  induction recs generalizing acc with
  | nil => rfl
  | cons r rs ih =>
    simp only [List.foldl_cons, List.filter_cons]
    rw [ih, walkStep_holds]
    by_cases hc : hCond a gt t r = true
    · simp [hc]
    · simp [hc]

theorem walkInner_count (a : Addr) (gt : Nat) (t : CType) (recs : List ResRec) (acc : DeltaRes) (h : CountInv acc) :
    CountInv (recs.foldl (walkStep a gt t) acc) := by
  induction recs generalizing acc with
  | nil => exact h
  | cons r rs ih => simp only [List.foldl_cons]; exact ih _ (walkStep_count a gt t acc r h)

theorem walkOuter (a : Addr) (gt : Nat) (t : CType) (rounds : List Delta) (acc : DeltaRes) :
    (rounds.foldl (fun acc d => d.res.foldl (walkStep a gt t) acc) acc).params =
        rounds.foldl (fun m d => (candsP gt t d).foldl fwStep m) acc.params ∧
    (rounds.foldl (fun acc d => d.res.foldl (walkStep a gt t) acc) acc).holds =
        rounds.foldl (fun m d => (candsH a gt t d).foldl fwStep m) acc.holds ∧
    (CountInv acc → CountInv (rounds.foldl (fun acc d => d.res.foldl (walkStep a gt t) acc) acc)) := by
  induction rounds generalizing acc with
  | nil => exact ⟨rfl, rfl, id⟩
  | cons d ds ih =>
    simp only [List.foldl_cons]
    obtain ⟨h1, h2, h3⟩ := ih (d.res.foldl (walkStep a gt t) acc)
    refine ⟨?_, ?_, fun hc => h3 (walkInner_count a gt t d.res acc hc)⟩
    · rw [h1, walkInner_params]; rfl
    · rw [h2, walkInner_holds]; rfl

/-- what one round says about the params of index `c` -/
def gP (gt : Nat) (t : CType) (c : Cidx) (d : Delta) : Option (Part × Addr) :=
  ((candsP gt t d).find? (fun p => decide (p.1 = c))).map (·.2)

/-- what one round says about the holding of `a` in index `c` -/
def gH (a : Addr) (gt : Nat) (t : CType) (c : Cidx) (d : Delta) : Option Part :=
  ((candsH a gt t d).find? (fun p => decide (p.1 = c))).map (·.2)

theorem walk_params_get (a : Addr) (gt : Nat) (t : CType) (ds : List Delta) (c : Cidx) :
    AMap.get (deltaResWalk ds a gt t).params c = ds.reverse.findSome? (gP gt t c) := by
  rw [deltaResWalk_eq, (walkOuter a gt t ds.reverse {}).1, fw_rounds_get]
  simp only [get_nil, Option.none_or]
  rfl

theorem walk_holds_get (a : Addr) (gt : Nat) (t : CType) (ds : List Delta) (c : Cidx) :
    AMap.get (deltaResWalk ds a gt t).holds c = ds.reverse.findSome? (gH a gt t c) := by
  rw [deltaResWalk_eq, (walkOuter a gt t ds.reverse {}).2.1, fw_rounds_get]
  simp only [get_nil, Option.none_or]
  rfl

theorem walk_params_snoc (a : Addr) (gt : Nat) (t : CType) (ds : List Delta) (d : Delta) (c : Cidx) :
    AMap.get (deltaResWalk (ds ++ [d]) a gt t).params c = (gP gt t c d).or (AMap.get (deltaResWalk ds a gt t).params c) := by
  rw [walk_params_get, walk_params_get, List.reverse_append]
  simp only [List.reverse_cons, List.reverse_nil, List.nil_append, List.singleton_append, List.findSome?_cons]
  cases gP gt t c d <;> rfl

theorem walk_holds_snoc (a : Addr) (gt : Nat) (t : CType) (ds : List Delta) (d : Delta) (c : Cidx) :
    AMap.get (deltaResWalk (ds ++ [d]) a gt t).holds c = (gH a gt t c d).or (AMap.get (deltaResWalk ds a gt t).holds c) := by
  rw [walk_holds_get, walk_holds_get, List.reverse_append]
  simp only [List.reverse_cons, List.reverse_nil, List.nil_append, List.singleton_append, List.findSome?_cons]
  cases gH a gt t c d <;> rfl

theorem walk_params_nodup (a : Addr) (gt : Nat) (t : CType) (ds : List Delta) : (AMap.keys (deltaResWalk ds a gt t).params).Nodup := by
  rw [deltaResWalk_eq, (walkOuter a gt t ds.reverse {}).1]
  exact fw_rounds_nodup _ _ _ (by simp [AMap.keys])

theorem walk_holds_nodup (a : Addr) (gt : Nat) (t : CType) (ds : List Delta) : (AMap.keys (deltaResWalk ds a gt t).holds).Nodup := by
  rw [deltaResWalk_eq, (walkOuter a gt t ds.reverse {}).2.1]
  exact fw_rounds_nodup _ _ _ (by simp [AMap.keys])

theorem walk_count (a : Addr) (gt : Nat) (t : CType) (ds : List Delta) :
    (deltaResWalk ds a gt t).numDeleted = delP (deltaResWalk ds a gt t).params + delH (deltaResWalk ds a gt t).holds := by
  rw [deltaResWalk_eq]
  exact (walkOuter a gt t ds.reverse {}).2.2 (by simp [CountInv, delP, delH])

/-- where a collected params entry comes from -/
theorem gP_some (gt : Nat) (t : CType) (c : Cidx) (d : Delta) (p : Part × Addr) (h : gP gt t c d = some p) :
    ∃ r ∈ d.res, r.ctype = t ∧ gt < r.cidx ∧ r.cidx = c ∧ r.params ≠ .absent ∧ p = (r.params, r.addr) := by
  unfold gP candsP at h
  cases hf : List.find? (fun p => decide (p.1 = c)) ((d.res.filter (pCond gt t)).map (fun r => (r.cidx, (r.params, r.addr)))) with
  | none => rw [hf] at h; simp at h
  | some x =>
    rw [hf] at h
    simp only [Option.map_some, Option.some.injEq] at h
    have hm := List.mem_of_find?_eq_some hf
    have hk := List.find?_some hf
    simp only [decide_eq_true_eq] at hk
    rw [List.mem_map] at hm
    obtain ⟨r, hr, rfl⟩ := hm
    rw [List.mem_filter] at hr
    obtain ⟨hr1, hr2⟩ := hr
    simp only [pCond, Bool.and_eq_true, decide_eq_true_eq] at hr2
    exact ⟨r, hr1, hr2.1.1, hr2.1.2, hk, hr2.2, h.symm⟩

theorem gH_some (a : Addr) (gt : Nat) (t : CType) (c : Cidx) (d : Delta) (p : Part) (h : gH a gt t c d = some p) :
    ∃ r ∈ d.res, r.ctype = t ∧ gt < r.cidx ∧ r.addr = a ∧ r.cidx = c ∧ r.hold ≠ .absent ∧ p = r.hold := by
  unfold gH candsH at h
  cases hf : List.find? (fun p => decide (p.1 = c)) ((d.res.filter (hCond a gt t)).map (fun r => (r.cidx, r.hold))) with
  | none => rw [hf] at h; simp at h
  | some x =>
    rw [hf] at h
    simp only [Option.map_some, Option.some.injEq] at h
    have hm := List.mem_of_find?_eq_some hf
    have hk := List.find?_some hf
    simp only [decide_eq_true_eq] at hk
    rw [List.mem_map] at hm
    obtain ⟨r, hr, rfl⟩ := hm
    rw [List.mem_filter] at hr
    obtain ⟨hr1, hr2⟩ := hr
    simp only [hCond, Bool.and_eq_true, decide_eq_true_eq] at hr2
    exact ⟨r, hr1, hr2.1.1.1, hr2.1.1.2, hr2.1.2, hk, hr2.2, h.symm⟩

/-- no record of the round qualifies -/
theorem gP_none (gt : Nat) (t : CType) (c : Cidx) (d : Delta) (h : gP gt t c d = none) :
    ∀ r ∈ d.res, r.ctype = t → gt < r.cidx → r.cidx = c → r.params = .absent := by
  intro r hr h1 h2 h3
  unfold gP candsP at h
  simp only [Option.map_eq_none_iff, List.find?_eq_none, List.mem_map, List.mem_filter, decide_eq_true_eq] at h
  by_cases hp : r.params = .absent
  · exact hp
  · exact absurd h3 (h (r.cidx, (r.params, r.addr)) ⟨r, ⟨hr, by simp [pCond, h1, h2, hp]⟩, rfl⟩)

theorem gH_none (a : Addr) (gt : Nat) (t : CType) (c : Cidx) (d : Delta) (h : gH a gt t c d = none) :
    ∀ r ∈ d.res, r.ctype = t → gt < r.cidx → r.addr = a → r.cidx = c → r.hold = .absent := by
  intro r hr h1 h2 h3 h4
  unfold gH candsH at h
  simp only [Option.map_eq_none_iff, List.find?_eq_none, List.mem_map, List.mem_filter, decide_eq_true_eq] at h
  by_cases hp : r.hold = .absent
  · exact hp
  · exact absurd h4 (h (r.cidx, r.hold) ⟨r, ⟨hr, by simp [hCond, h1, h2, h3, hp]⟩, rfl⟩)

/-- a collected entry of the whole walk comes from a record of some round -/
theorem walk_params_some (a : Addr) (gt : Nat) (t : CType) (ds : List Delta) (c : Cidx) (p : Part × Addr)
    (h : AMap.get (deltaResWalk ds a gt t).params c = some p) :
    ∃ d ∈ ds, ∃ r ∈ d.res, r.ctype = t ∧ gt < r.cidx ∧ r.cidx = c ∧ r.params ≠ .absent ∧ p = (r.params, r.addr) := by
  rw [walk_params_get] at h
  obtain ⟨d, hd, hg⟩ := List.exists_of_findSome?_eq_some h
  exact ⟨d, by simpa using hd, gP_some gt t c d p hg⟩

theorem walk_holds_some (a : Addr) (gt : Nat) (t : CType) (ds : List Delta) (c : Cidx) (p : Part)
    (h : AMap.get (deltaResWalk ds a gt t).holds c = some p) :
    ∃ d ∈ ds, ∃ r ∈ d.res, r.ctype = t ∧ gt < r.cidx ∧ r.addr = a ∧ r.cidx = c ∧ r.hold ≠ .absent ∧ p = r.hold := by
  rw [walk_holds_get] at h
  obtain ⟨d, hd, hg⟩ := List.exists_of_findSome?_eq_some h
  exact ⟨d, by simpa using hd, gH_some a gt t c d p hg⟩

end AlgoVerif.Lemmas.PageRes
