import AlgoVerif.Lemmas.AcctUpdatesPageKvWalk
/-! C10 (model pages): the code-shaped box page of the model (`pageKv` = LookupKvPairsByPrefix: delta walk, DB cursor scan with the
exclusion set / byte cap / peek, cutoff at the last DB key when the DB has more, merge, sort, trim) returns a non-empty prefix of
the sorted live list of the history after the cursor, with `more` exactly when something is left — on every state satisfying the
invariant of C08. Core Lean only. -/
namespace AlgoVerif.Lemmas.PageKv
open AlgoVerif.Spec.LedgerHistory AlgoVerif.Model.AcctUpdates AlgoVerif.Lemmas.Pages AlgoVerif.Lemmas.AcctUpdates

/-- box keys are byte strings (the model's `Key` is a list of naturals; Go strings are bytes) -/
def KeysAreBytes (h : History) : Prop := ∀ k ∈ h.kvKeys, ∀ b ∈ k, b ≤ 255

/-- `kvstore.key` is a primary key -/
def DbKvNodup (σ : State) : Prop := (AMap.keys σ.db.kvs).Nodup

/-! ### the pieces of `pageKv`, named -/

def kvRows (db : DB) (pfx cursor hi : Key) : List (Key × Bytes) :=
  (db.kvs.filter (fun r => keyLe (if cursor ≠ [] && keyLe pfx cursor then cursor else pfx) r.1 && keyLt r.1 hi)).mergeSort
    (fun x y => keyLe x.1 y.1)

def kvCutoff (dbp : DbKvPage) : Option Key := if dbp.more then (dbp.items.getLast?.map (·.1)) else none

def kvFromDelta (walk : AMap Key (Option Bytes)) (cutoff : Option Key) (vals : Bool) : List (Key × Option Bytes) :=
  walk.filterMap (fun p =>
    match p.2 with
    | none => none
    | some v =>
      match cutoff with
      | some c => if c ≠ [] && keyLt c p.1 then none else some (p.1, if vals then some v else none)
      | none => some (p.1, if vals then some v else none))

def kvSz (it : Key × Option Bytes) : Nat := it.1.length + (it.2.map (·.length)).getD 0

theorem pageKv_eq (σ : State) (rnd : Nat) (pfx cursor : Key) (limit maxBytes : Nat) (vals : Bool) (off : Nat) (hi : Key)
    (ho : roundOffset σ rnd = .ok off) (hp : prefixIncr pfx = some hi) (hr : σ.db.round = σ.dbRound) :
    Model.AcctUpdates.pageKv σ rnd pfx cursor limit maxBytes vals =
      .ok ⟨(((processKvRows (kvRows σ.db pfx cursor hi) cursor limit maxBytes vals (AMap.keys (kvWalk pfx cursor (σ.deltas.take off)))).items ++
              kvFromDelta (kvWalk pfx cursor (σ.deltas.take off))
                (kvCutoff (processKvRows (kvRows σ.db pfx cursor hi) cursor limit maxBytes vals (AMap.keys (kvWalk pfx cursor (σ.deltas.take off))))) vals).mergeSort
              (fun x y => keyLe x.1 y.1)).take
            (kvTrim kvSz maxBytes limit
              (((processKvRows (kvRows σ.db pfx cursor hi) cursor limit maxBytes vals (AMap.keys (kvWalk pfx cursor (σ.deltas.take off)))).items ++
                kvFromDelta (kvWalk pfx cursor (σ.deltas.take off))
                  (kvCutoff (processKvRows (kvRows σ.db pfx cursor hi) cursor limit maxBytes vals (AMap.keys (kvWalk pfx cursor (σ.deltas.take off))))) vals).mergeSort
                (fun x y => keyLe x.1 y.1)) 0 0),
          σ.dbRound + off,
          (processKvRows (kvRows σ.db pfx cursor hi) cursor limit maxBytes vals (AMap.keys (kvWalk pfx cursor (σ.deltas.take off)))).more ||
            decide (kvTrim kvSz maxBytes limit
              (((processKvRows (kvRows σ.db pfx cursor hi) cursor limit maxBytes vals (AMap.keys (kvWalk pfx cursor (σ.deltas.take off)))).items ++
                kvFromDelta (kvWalk pfx cursor (σ.deltas.take off))
                  (kvCutoff (processKvRows (kvRows σ.db pfx cursor hi) cursor limit maxBytes vals (AMap.keys (kvWalk pfx cursor (σ.deltas.take off))))) vals).mergeSort
                (fun x y => keyLe x.1 y.1)) 0 0 <
              (((processKvRows (kvRows σ.db pfx cursor hi) cursor limit maxBytes vals (AMap.keys (kvWalk pfx cursor (σ.deltas.take off)))).items ++
                kvFromDelta (kvWalk pfx cursor (σ.deltas.take off))
                  (kvCutoff (processKvRows (kvRows σ.db pfx cursor hi) cursor limit maxBytes vals (AMap.keys (kvWalk pfx cursor (σ.deltas.take off))))) vals).mergeSort
                (fun x y => keyLe x.1 y.1)).length)⟩ := by
  unfold Model.AcctUpdates.pageKv dbKvScan
  simp only [ho, hp, hr, if_true]
  rfl

/-! ### the delta half of the merge -/

/-- the cutoff test of the merge loop: keep keys not beyond the last DB key when the DB has more -/
def kvOk (cutoff : Option Key) (k : Key) : Bool :=
  match cutoff with
  | some c => !(decide (c ≠ []) && keyLt c k)
  | none => true

theorem kvOk_mono (cutoff : Option Key) (a b : Key) (hab : keyLt a b = true) (hb : kvOk cutoff b = true) : kvOk cutoff a = true := by
  cases cutoff with
  | none => rfl
  | some c =>
    simp only [kvOk, Bool.not_eq_true', Bool.and_eq_false_imp, decide_eq_true_eq] at hb ⊢
    intro hc
    have := hb hc
    cases hca : keyLt c a with
    | false => rfl
    | true => rw [keyLt_trans hca hab] at this; exact absurd this (by simp)

theorem kvFromDelta_eq (walk : AMap Key (Option Bytes)) (cutoff : Option Key) (vals : Bool) :
    kvFromDelta walk cutoff vals = walk.filterMap (fun p =>
      match p.2 with
      | none => none
      | some v => if kvOk cutoff p.1 then some (p.1, if vals then some v else none) else none) := by
  unfold kvFromDelta
  congr 1
  funext p
  cases p.2 with
  | none => rfl
  | some v =>
    cases cutoff with
    | none => simp [kvOk]
    | some c =>
      cases hk : keyLt c p.1 <;> by_cases h1 : c = [] <;> simp [kvOk, hk, h1]

theorem mem_kvFromDelta (walk : AMap Key (Option Bytes)) (hn : (AMap.keys walk).Nodup) (cutoff : Option Key) (vals : Bool)
    (k : Key) (ov : Option Bytes) :
    (k, ov) ∈ kvFromDelta walk cutoff vals ↔
      ∃ v, AMap.get walk k = some (some v) ∧ kvOk cutoff k = true ∧ ov = (if vals then some v else none) := by
  rw [kvFromDelta_eq, List.mem_filterMap]
  constructor
  · rintro ⟨⟨k', ow⟩, hm, he⟩
    cases ow with
    | none => simp at he
    | some v =>
      simp only [] at he
      by_cases hok : kvOk cutoff k' = true
      · simp only [hok, if_true, Option.some.injEq, Prod.mk.injEq] at he
        obtain ⟨rfl, rfl⟩ := he
        exact ⟨v, get_of_mem_nodup hn hm, hok, rfl⟩
      · simp [hok] at he
  · rintro ⟨v, hg, hok, rfl⟩
    exact ⟨(k, some v), get_some_mem hg, by simp [hok]⟩

theorem kvFromDelta_keys_sublist (walk : AMap Key (Option Bytes)) (cutoff : Option Key) (vals : Bool) :
    ((kvFromDelta walk cutoff vals).map (·.1)).Sublist (AMap.keys walk) := by
  rw [kvFromDelta_eq]
  unfold AMap.keys
  induction walk with
  | nil => simp
  | cons p t ih =>
    obtain ⟨k, ow⟩ := p
    simp only [List.filterMap_cons, List.map_cons]
    cases ow with
    | none => exact ih.cons _
    | some v =>
      simp only []
      by_cases hok : kvOk cutoff k = true
      · simp only [hok, if_true, List.map_cons]; exact ih.cons_cons _
      · simp only [hok]; exact ih.cons _

/-! ### the merged, sorted list is a prefix of the live list -/

theorem merge_core (Lv X : List (Key × Option Bytes)) (hLv : Lv.Pairwise (fun x y => keyLt x.1 y.1 = true))
    (hXn : (X.map (·.1)).Nodup) (ok : Key → Bool) (hok : ∀ a b, keyLt a b = true → ok b = true → ok a = true)
    (hmem : ∀ x, x ∈ X ↔ x ∈ Lv ∧ ok x.1 = true) :
    X.mergeSort (fun x y => keyLe x.1 y.1) = Lv.take (Lv.filter (fun x => ok x.1)).length := by
  have hirr : ∀ a : Key, ¬ (keyLt a a = true) := fun a => by rw [keyLt_irrefl]; simp
  have htr : ∀ a b c : Key, keyLt a b = true → keyLt b c = true → keyLt a c = true := fun _ _ _ => keyLt_trans
  rw [← filter_le_is_take (fun (x : Key × Option Bytes) => x.1) (fun a b => keyLt a b = true) ok hok Lv hLv]
  apply sorted_ext (fun (p : Key × Option Bytes) => p.1) (fun a b => keyLt a b = true) hirr htr
  · apply strict_of_sorted_nodup (fun (p : Key × Option Bytes) => p.1)
    · exact List.pairwise_mergeSort (le := fun (x y : Key × Option Bytes) => keyLe x.1 y.1)
        (fun a b c h1 h2 => keyLe_trans _ _ _ h1 h2) (fun a b => keyLe_total _ _) X
    · exact ((List.mergeSort_perm X _).map _).nodup_iff.mpr hXn
  · exact hLv.sublist List.filter_sublist
  · intro x
    rw [(List.mergeSort_perm X _).mem_iff, hmem x, List.mem_filter]

/-! ### the DB half: the qualifying rows -/

theorem kvRows_facts (ct : Cidx → CType) (σ : State) (h : Inv ct σ) (hn : DbKvNodup σ) (hb : KeysAreBytes σ.hist)
    (pfx cursor hi : Key) (hhi : prefixIncr pfx = some hi) (excl : List Key) :
    ((kvRows σ.db pfx cursor hi).filter (fun r => kvQualifies cursor excl r.1)).Pairwise (fun x y => keyLt x.1 y.1 = true) ∧
    ∀ k v, (k, v) ∈ (kvRows σ.db pfx cursor hi).filter (fun r => kvQualifies cursor excl r.1) ↔
      AMap.get σ.db.kvs k = some v ∧ (hasPrefix pfx k && keyLt cursor k) = true ∧ k ∉ excl := by
  rw [prefixIncr_eq_incr] at hhi
  constructor
  · apply List.Pairwise.filter
    apply strict_of_sorted_nodup (fun (p : Key × Bytes) => p.1)
    · exact List.pairwise_mergeSort (le := fun (x y : Key × Bytes) => keyLe x.1 y.1)
        (fun a b c h1 h2 => keyLe_trans _ _ _ h1 h2) (fun a b => keyLe_total _ _) _
    · unfold kvRows
      refine ((List.mergeSort_perm _ _).map _).nodup_iff.mpr ?_
      exact hn.sublist (List.filter_sublist.map _)
  · intro k v
    unfold kvRows
    rw [List.mem_filter, (List.mergeSort_perm _ _).mem_iff, List.mem_filter, mem_iff_get_of_nodup hn]
    simp only []
    constructor
    · rintro ⟨⟨hg, hrange⟩, hq⟩
      have hbytes : ∀ b ∈ k, b ≤ 255 := hb k (kvAt_mem_keys σ.hist σ.dbRound k v (by rw [← h.dbK k]; exact hg))
      have hq' : keyLt cursor k = true ∧ k ∉ excl := by simpa [kvQualifies] using hq
      refine ⟨hg, ?_, hq'.2⟩
      rw [← scan_range_iff pfx cursor hi k hbytes hhi, hrange, hq'.1]; rfl
    · rintro ⟨hg, hr, hex⟩
      have hbytes : ∀ b ∈ k, b ≤ 255 := hb k (kvAt_mem_keys σ.hist σ.dbRound k v (by rw [← h.dbK k]; exact hg))
      have := scan_range_iff pfx cursor hi k hbytes hhi
      rw [hr] at this
      simp only [Bool.and_eq_true] at this hr
      refine ⟨⟨hg, by simpa using this.1⟩, ?_⟩
      simpa [kvQualifies] using ⟨hr.2, hex⟩

/-! ### the page theorem -/

theorem pageKv_spec (ct : Cidx → CType) (σ : State) (h : Inv ct σ) (hn : DbKvNodup σ) (hb : KeysAreBytes σ.hist)
    (rnd : Nat) (pfx cursor : Key) (limit maxb : Nat) (vals : Bool)
    (h1 : σ.dbRound ≤ rnd) (h2 : rnd ≤ σ.latest) (hp : (prefixIncr pfx).isSome = true) :
    ∃ n, Model.AcctUpdates.pageKv σ rnd pfx cursor limit maxb vals =
        .ok ⟨((liveKv σ.hist rnd pfx cursor).take n).map (kvView vals), rnd, decide (n < (liveKv σ.hist rnd pfx cursor).length)⟩ ∧
      (liveKv σ.hist rnd pfx cursor ≠ [] → 0 < n) ∧ (0 < limit → n ≤ limit) := by
  have hoff : rnd - σ.dbRound ≤ σ.deltas.length := by unfold State.latest at h2; omega
  obtain ⟨hi, hhi⟩ : ∃ hi, prefixIncr pfx = some hi := by
    cases hpi : prefixIncr pfx with
    | none => rw [hpi] at hp; simp at hp
    | some hi => exact ⟨hi, rfl⟩
  rw [pageKv_eq σ rnd pfx cursor limit maxb vals (rnd - σ.dbRound) hi (roundOffset_ok σ rnd h1 h2) hhi h.dbr]
  rw [Nat.add_sub_cancel' h1]
  generalize hwalk : kvWalk pfx cursor (σ.deltas.take (rnd - σ.dbRound)) = walk
  have hwn : (AMap.keys walk).Nodup := by rw [← hwalk]; exact kvWalk_nodup _ _ _
  have hkvAt : ∀ k, (hasPrefix pfx k && keyLt cursor k) = true →
      kvAt σ.hist rnd k = match AMap.get walk k with | some x => x | none => AMap.get σ.db.kvs k := by
    intro k hk
    have := kvAt_walk ct σ h pfx cursor (rnd - σ.dbRound) hoff k hk
    rwa [Nat.add_sub_cancel' h1, hwalk] at this
  have hwr : ∀ k x, AMap.get walk k = some x → (hasPrefix pfx k && keyLt cursor k) = true := by
    intro k x hg
    rw [← hwalk, kvWalk_get] at hg
    by_cases hr : (hasPrefix pfx k && keyLt cursor k) = true
    · exact hr
    · rw [if_neg hr] at hg; simp at hg
  obtain ⟨hQs, hQm⟩ := kvRows_facts ct σ h hn hb pfx cursor hi hhi (AMap.keys walk)
  obtain ⟨j, hitems, hmore, hpos⟩ := processKvRows_spec (kvRows σ.db pfx cursor hi) cursor limit maxb vals (AMap.keys walk)
  generalize hQ : (kvRows σ.db pfx cursor hi).filter (fun r => kvQualifies cursor (AMap.keys walk) r.1) = Q at hQs hQm hitems hmore hpos
  generalize hdbp : processKvRows (kvRows σ.db pfx cursor hi) cursor limit maxb vals (AMap.keys walk) = dbp at hitems hmore
  -- the live list, as the page shows it
  have hLv : ((liveKv σ.hist rnd pfx cursor).map (kvView vals)).Pairwise (fun x y => keyLt x.1 y.1 = true) := by
    rw [List.pairwise_map]; exact liveKv_sorted σ.hist rnd pfx cursor
  have hLm : ∀ k ov, (k, ov) ∈ (liveKv σ.hist rnd pfx cursor).map (kvView vals) ↔
      ∃ v, (hasPrefix pfx k && keyLt cursor k) = true ∧ kvAt σ.hist rnd k = some v ∧ ov = (if vals then some v else none) := by
    intro k ov
    rw [List.mem_map]
    constructor
    · rintro ⟨⟨k', v⟩, hm, he⟩
      simp only [kvView, Prod.mk.injEq] at he
      obtain ⟨rfl, rfl⟩ := he
      rw [mem_liveKv] at hm
      exact ⟨v, by simp [hm.2.1, hm.2.2.1], hm.2.2.2, rfl⟩
    · rintro ⟨v, hr, hv, rfl⟩
      simp only [Bool.and_eq_true] at hr
      exact ⟨(k, v), (mem_liveKv _ _ _ _ _ _).mpr ⟨kvAt_mem_keys _ _ _ _ hv, hr.1, hr.2, hv⟩, rfl⟩
  -- which qualifying rows were taken
  have htaken : ∀ k v, (k, v) ∈ Q.take j ↔ (k, v) ∈ Q ∧ kvOk (kvCutoff dbp) k = true := by
    intro k v
    by_cases hm : dbp.more = true
    · have hjlt : j < Q.length := by rw [hm] at hmore; simpa using hmore.symm
      have hj0 : 0 < j := hpos (by intro e; rw [e] at hjlt; simp at hjlt)
      obtain ⟨x, hx⟩ : ∃ x, Q[j - 1]? = some x := ⟨Q[j - 1]'(by omega), by simp [show j - 1 < Q.length by omega]⟩
      have hcut : kvCutoff dbp = some x.1 := by
        unfold kvCutoff
        rw [if_pos hm, hitems, List.getLast?_map, List.getLast?_eq_getElem?, List.length_take, Nat.min_eq_left (by omega),
          List.getElem?_take, if_pos (by omega), hx]
        rfl
      have hxq : x ∈ Q := List.mem_of_getElem? hx
      have hxne : x.1 ≠ [] := by
        obtain ⟨xk, xv⟩ := x
        have := (hQm xk xv).mp hxq
        simp only [Bool.and_eq_true] at this
        exact ne_nil_of_keyLt this.2.1.2
      have hirr : ∀ a : Key, ¬ (keyLt a a = true) := fun a => by rw [keyLt_irrefl]; simp
      have htr : ∀ a b c : Key, keyLt a b = true → keyLt b c = true → keyLt a c = true := fun _ _ _ => keyLt_trans
      have := mem_take_sorted (fun (p : Key × Bytes) => p.1) (fun a b => keyLt a b = true) hirr htr Q hQs (j - 1) x hx (k, v)
      rw [show j - 1 + 1 = j by omega] at this
      rw [this, hcut]
      simp only [kvOk, hxne, ne_eq, not_false_eq_true, decide_true, Bool.true_and, Bool.not_eq_true']
      constructor
      · rintro ⟨a, b⟩; exact ⟨a, by simpa using b⟩
      · rintro ⟨a, b⟩; exact ⟨a, by simp [b]⟩
    · have hm' : dbp.more = false := by simpa using hm
      have hjge : Q.length ≤ j := by rw [hm'] at hmore; simpa using hmore.symm
      rw [List.take_of_length_le hjge]
      unfold kvCutoff
      simp [hm', kvOk]
  -- membership in the merged list
  have hmem : ∀ x, x ∈ dbp.items ++ kvFromDelta walk (kvCutoff dbp) vals ↔
      x ∈ (liveKv σ.hist rnd pfx cursor).map (kvView vals) ∧ kvOk (kvCutoff dbp) x.1 = true := by
    rintro ⟨k, ov⟩
    rw [List.mem_append, hLm, mem_kvFromDelta walk hwn, hitems, List.mem_map]
    constructor
    · rintro (⟨⟨k', v⟩, hm, he⟩ | ⟨v, hg, hok, rfl⟩)
      · simp only [Prod.mk.injEq] at he
        obtain ⟨rfl, rfl⟩ := he
        obtain ⟨hq, hok⟩ := (htaken k' v).mp hm
        obtain ⟨hg, hr, hex⟩ := (hQm k' v).mp hq
        have hwnone : AMap.get walk k' = none := get_none_of_not_mem_keys hex
        exact ⟨⟨v, hr, by rw [hkvAt k' hr, hwnone]; exact hg, rfl⟩, hok⟩
      · have hr := hwr k _ hg
        exact ⟨⟨v, hr, by rw [hkvAt k hr, hg], rfl⟩, hok⟩
    · rintro ⟨⟨v, hr, hv, rfl⟩, hok⟩
      rw [hkvAt k hr] at hv
      cases hg : AMap.get walk k with
      | none =>
        rw [hg] at hv
        left
        refine ⟨(k, v), (htaken k v).mpr ⟨(hQm k v).mpr ⟨hv, hr, ?_⟩, hok⟩, rfl⟩
        intro hk
        have := get_isSome_of_mem_keys (m := walk) hk
        rw [hg] at this; simp at this
      | some x =>
        rw [hg] at hv
        simp only [] at hv
        right
        exact ⟨v, by rw [hv], hok, rfl⟩
  -- keys of the merged list are distinct
  have hXn : ((dbp.items ++ kvFromDelta walk (kvCutoff dbp) vals).map (·.1)).Nodup := by
    rw [List.map_append, List.nodup_append]
    refine ⟨?_, (kvFromDelta_keys_sublist walk _ vals).nodup hwn, ?_⟩
    · rw [hitems, List.map_map]
      have : ((fun (x : Key × Option Bytes) => x.1) ∘ fun (r : Key × Bytes) => (r.1, if vals = true then some r.2 else none)) = (fun r => r.1) := by
        funext r; rfl
      rw [this]
      have hQn : (Q.map (·.1)).Nodup := by
        have : Q.Pairwise (fun x y => x.1 ≠ y.1) := hQs.imp (fun {a b} hab e => by
          rw [e, keyLt_irrefl] at hab; exact absurd hab (by simp))
        exact (List.pairwise_map.mpr this)
      exact hQn.sublist ((List.take_sublist j Q).map _)
    · intro a ha b hb' e
      subst e
      rw [hitems, List.map_map, List.mem_map] at ha
      obtain ⟨⟨k', v⟩, hm, rfl⟩ := ha
      have hex := ((hQm k' v).mp ((htaken k' v).mp hm).1).2.2
      exact hex ((kvFromDelta_keys_sublist walk _ vals).subset hb')
  have hall := merge_core _ _ hLv hXn (kvOk (kvCutoff dbp)) (kvOk_mono _) hmem
  generalize hLvd : (liveKv σ.hist rnd pfx cursor).map (kvView vals) = Lv at hall hmem hLv hLm
  generalize hm : (Lv.filter (fun x => kvOk (kvCutoff dbp) x.1)).length = m at hall
  have hmle : m ≤ Lv.length := by rw [← hm]; exact List.length_filter_le _ _
  have hLen : Lv.length = (liveKv σ.hist rnd pfx cursor).length := by rw [← hLvd, List.length_map]
  rw [hall]
  generalize htrim : kvTrim kvSz maxb limit (Lv.take m) 0 0 = n
  have hnle : n ≤ m := by
    have := (kvTrim_bounds kvSz maxb limit (Lv.take m) 0 0).2
    rw [htrim, List.length_take] at this; omega
  have hnpos : Lv.take m ≠ [] → 0 < n := by
    intro hne
    cases hl : Lv.take m with
    | nil => exact absurd hl hne
    | cons a t => rw [← htrim, hl]; exact kvTrim_pos _ _ _ a t
  refine ⟨n, ?_, ?_, fun hl => by rw [← htrim]; exact kvTrim_le_limit kvSz maxb limit hl _ 0 0 hl⟩
  · rw [List.take_take, Nat.min_eq_left hnle, List.map_take, hLvd]
    congr 2
    rw [List.length_take, Nat.min_eq_left hmle, ← hLen]
    by_cases hmo : dbp.more = true
    · -- the DB has more: a qualifying row beyond the cutoff is live and was not merged
      have hjlt : j < Q.length := by rw [hmo] at hmore; simpa using hmore.symm
      obtain ⟨y, hy⟩ : ∃ y, Q[j]? = some y := ⟨Q[j]'hjlt, by simp [hjlt]⟩
      have hyq : y ∈ Q := List.mem_of_getElem? hy
      have hynt : y ∉ Q.take j := by
        intro hyt
        obtain ⟨i, hi1, hi2⟩ := List.getElem_of_mem hyt
        have hilt : i < j := by rw [List.length_take] at hi1; omega
        have hQi : Q[i]? = some y := by
          rw [List.getElem_take] at hi2
          rw [List.getElem?_eq_getElem (by omega), hi2]
        have hQnd : Q.Nodup := by
          have : Q.Pairwise (fun x y => x ≠ y) := hQs.imp (fun {a b} hab e => by
            rw [e, keyLt_irrefl] at hab; exact absurd hab (by simp))
          exact this
        have := (List.getElem?_inj (by omega) hQnd).mp (hQi.trans hy.symm)
        omega
      obtain ⟨yk, yv⟩ := y
      obtain ⟨hg, hr, hex⟩ := (hQm yk yv).mp hyq
      have hnok : kvOk (kvCutoff dbp) yk ≠ true := fun hok => hynt ((htaken yk yv).mpr ⟨hyq, hok⟩)
      have hwnone : AMap.get walk yk = none := get_none_of_not_mem_keys hex
      have hyl : (yk, if vals then some yv else none) ∈ Lv :=
        (hLm yk _).mpr ⟨yv, hr, by rw [hkvAt yk hr, hwnone]; exact hg, rfl⟩
      have hmlt : m < Lv.length := by
        rw [← hm]
        apply List.length_filter_lt_length_iff_exists.mpr
        exact ⟨_, hyl, by simpa using hnok⟩
      simp [hmo]; omega
    · have hm' : dbp.more = false := by simpa using hmo
      have : m = Lv.length := by
        rw [← hm]
        have : ∀ x ∈ Lv, kvOk (kvCutoff dbp) x.1 = true := by
          intro x _; unfold kvCutoff; simp [hm', kvOk]
        rw [List.filter_eq_self.mpr this]
      simp [hm', this]
  · intro hne
    apply hnpos
    -- the merged list is not empty when the live list is not
    by_cases hmo : dbp.more = true
    · have hjlt : j < Q.length := by rw [hmo] at hmore; simpa using hmore.symm
      have hj0 : 0 < j := hpos (by intro e; rw [e] at hjlt; simp at hjlt)
      intro hnil
      have hx : dbp.items ++ kvFromDelta walk (kvCutoff dbp) vals = [] := by
        have := congrArg List.length hall
        rw [hnil, List.length_mergeSort] at this
        exact List.eq_nil_of_length_eq_zero this
      have : dbp.items = [] := (List.append_eq_nil_iff.mp hx).1
      rw [hitems] at this
      have := congrArg List.length this
      simp only [List.length_map, List.length_take, List.length_nil] at this
      omega
    · have hm' : dbp.more = false := by simpa using hmo
      have : m = Lv.length := by
        rw [← hm]
        have : ∀ x ∈ Lv, kvOk (kvCutoff dbp) x.1 = true := by
          intro x _; unfold kvCutoff; simp [hm', kvOk]
        rw [List.filter_eq_self.mpr this]
      rw [this, List.take_length]
      intro e
      apply hne
      have := congrArg List.length e
      rw [hLen] at this
      exact List.eq_nil_of_length_eq_zero this

end AlgoVerif.Lemmas.PageKv
