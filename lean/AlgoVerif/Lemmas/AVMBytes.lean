/-
Lemmas for `bytes_bounded` (Props/C31): the byte-length bound as an invariant of stack and scratch space. `step` re-checks
the declared return values of a non-trusted op (`window`); everything outside that window must come from bounded values —
proved here for every op of the modelled family (`execK_bounded`), assumed of `sem` (`SemBounded`).
-/
import AlgoVerif.Model.AVM
import AlgoVerif.Lemmas.AVM
namespace Lemmas.AVMBytes
open Model.OpTables Model.AVM Lemmas.AVM

def ValOK (lim : Limits) : Val → Prop
  | .u _ => True
  | .b bs => bs.length ≤ lim.maxStringSize

def AllOK (lim : Limits) (l : List Val) : Prop := ∀ v ∈ l, ValOK lim v

/-- how many values on top of its result a modelled op may have freshly built (everything below is an old value, a
    scratch value or bounded by the op's own check) -/
def fresh : OpK → Nat
  | .concat => 1 | .pushbytes => 1 | .bytecLoad => 1 | .bytecN _ => 1 | .arg => 1 | .argN _ => 1 | .args => 1
  | .itob => 1 | .bzero => 1 | .substring => 1 | .substring3 => 1 | .extract => 1 | .extract3 => 1
  | .replace2 => 1 | .replace3 => 1 | .setbyte => 1 | .setbit => 1
  | _ => 0

theorem allOK_cons {lim : Limits} {v : Val} {l : List Val} : AllOK lim (v :: l) ↔ ValOK lim v ∧ AllOK lim l := by
  unfold AllOK; simp

theorem allOK_nil {lim : Limits} : AllOK lim [] := by intro v hv; cases hv

theorem allOK_append {lim : Limits} {a b : List Val} : AllOK lim (a ++ b) ↔ AllOK lim a ∧ AllOK lim b := by
  unfold AllOK; simp only [List.mem_append]
  constructor
  · intro h; exact ⟨fun v hv => h v (Or.inl hv), fun v hv => h v (Or.inr hv)⟩
  · intro ⟨h1, h2⟩ v hv; rcases hv with hv | hv; exact h1 v hv; exact h2 v hv

theorem allOK_sub {lim : Limits} {a b : List Val} (h : ∀ v ∈ a, v ∈ b) (hb : AllOK lim b) : AllOK lim a :=
  fun v hv => hb v (h v hv)

theorem allOK_take {lim : Limits} {l : List Val} (n : Nat) (h : AllOK lim l) : AllOK lim (l.take n) :=
  allOK_sub (fun _ hv => List.mem_of_mem_take hv) h
theorem allOK_drop {lim : Limits} {l : List Val} (n : Nat) (h : AllOK lim l) : AllOK lim (l.drop n) :=
  allOK_sub (fun _ hv => List.mem_of_mem_drop hv) h
theorem allOK_reverse {lim : Limits} {l : List Val} (h : AllOK lim l) : AllOK lim l.reverse :=
  allOK_sub (fun _ hv => List.mem_reverse.mp hv) h
theorem allOK_eraseIdx {lim : Limits} {l : List Val} (n : Nat) (h : AllOK lim l) : AllOK lim (l.eraseIdx n) :=
  allOK_sub (fun _ hv => List.mem_of_mem_eraseIdx hv) h
theorem allOK_replicate {lim : Limits} {v : Val} (n : Nat) (h : ValOK lim v) : AllOK lim (List.replicate n v) := by
  intro x hx; rw [List.mem_replicate] at hx; rw [hx.2]; exact h
theorem allOK_set {lim : Limits} {l : List Val} {v : Val} (n : Nat) (h : AllOK lim l) (hv : ValOK lim v) : AllOK lim (l.set n v) := by
  intro x hx
  rcases List.mem_or_eq_of_mem_set hx with h1 | h1
  · exact h x h1
  · rw [h1]; exact hv
theorem allOK_getElem? {lim : Limits} {l : List Val} {n : Nat} {v : Val} (h : AllOK lim l) (hv : l[n]? = some v) : ValOK lim v :=
  h v (List.mem_of_getElem? hv)
theorem valOK_u {lim : Limits} (n : Nat) : ValOK lim (.u n) := trivial
theorem valOK_bool {lim : Limits} (c : Bool) : ValOK lim (boolVal c) := trivial

theorem allOK_map_u {lim : Limits} (l : List Nat) : AllOK lim (l.map Val.u) := by
  intro v hv; rw [List.mem_map] at hv; obtain ⟨_, _, rfl⟩ := hv; trivial

theorem allOK_map_b {lim : Limits} (l : List (List Nat)) (h : ∀ b ∈ l, b.length ≤ lim.maxStringSize) : AllOK lim (l.map Val.b) := by
  intro v hv; rw [List.mem_map] at hv; obtain ⟨b, hb, rfl⟩ := hv; exact h b hb

theorem byteImmArgs_lens {cfg : Cfg} {prog : List Nat} {pc np : Nat} {bs : List (List Nat)}
    (h : byteImmArgs cfg prog pc = .ok (bs, np)) (hlsv : cfg.lsv ≥ 13) : ∀ b ∈ bs, b.length ≤ cfg.lim.maxStringSize := by
  unfold byteImmArgs at h
  split at h
  · cases h
  · rw [if_pos hlsv] at h
    split at h
    · rename_i hall
      injection h with h; injection h with h1 _; subst h1
      intro b hb
      have := List.all_eq_true.mp hall b hb
      simpa using this
    · cases h

set_option maxHeartbeats 4000000 in
theorem execK_bounded {k : OpK} {cx : Ctx} {m m' : Mach} (h : execK k cx m = .ok m') (hlsv : cx.cfg.lsv ≥ 13)
    (hs : AllOK cx.cfg.lim m.stack) (hsc : AllOK cx.cfg.lim m.scratch) :
    AllOK cx.cfg.lim (m'.stack.drop (fresh k)) ∧ AllOK cx.cfg.lim m'.scratch := by
  cases k
  all_goals (
    simp only [execK, pushIntc, pushBytec, pushArg] at h
    repeat' split at h
    all_goals first
      | (cases h; done)
      | (injection h with h; subst h
         simp only [fresh, List.drop_zero, List.drop_succ_cons]
         simp_all only [allOK_cons, allOK_append, allOK_nil, valOK_u, valOK_bool, true_and, and_true, and_self]
         done)
      | (injection h with h; subst h
         simp only [fresh, List.drop_zero]
         grind [allOK_cons, allOK_nil, allOK_append, allOK_take, allOK_drop, allOK_reverse, allOK_eraseIdx, allOK_replicate,
           allOK_set, allOK_getElem?, valOK_u, valOK_bool])
      | skip)
  · -- pushbytess: constants are size-checked by byteImmArgs from protocol version 13 on
    rename_i bss nx hp _ _ _
    injection h with h; subst h
    simp only [fresh, List.drop_zero]
    exact ⟨allOK_append.mpr ⟨allOK_reverse (allOK_map_b _ (byteImmArgs_lens hp hlsv)), hs⟩, hsc⟩
  · rename_i ints nx hp _ _ _
    injection h with h; subst h
    simp only [fresh, List.drop_zero]
    exact ⟨allOK_append.mpr ⟨allOK_reverse (allOK_map_u _), hs⟩, hsc⟩
  · rename_i v hv
    injection h with h; subst h
    simp only [fresh, List.drop_zero]
    exact ⟨allOK_cons.mpr ⟨allOK_getElem? hs hv, hs⟩, hsc⟩

/-- the values on top of the result stack that `step` itself re-checks after a non-trusted op -/
def window (s : Spec) : Nat := if s.trusted || alwaysExits s then 0 else s.rets.length

/-- row condition: everything a modelled op builds afresh lies inside the window step re-checks -/
def rowBytesOKk (s : Spec) : Option OpK → Bool
  | none => true
  | some k => decide (fresh k ≤ window s)

def rowBytesOK (s : Spec) : Bool := rowBytesOKk s (opKind s.fn)

/-- contract of `sem`: outside the re-checked window it only leaves bounded values (given a bounded stack) -/
def SemBounded (lim : Limits) (sem : Sem) : Prop :=
  ∀ s stk imm stk', opKind s.fn = none → sem s stk imm = .ok stk' → AllOK lim stk → AllOK lim (stk'.drop (window s))

theorem postLoop_ok {lim : Limits} : ∀ (rets : List Nat) (w : List Val), postLoop lim false rets w = .ok () →
    w.length ≤ rets.length → AllOK lim w
  | [], w, _, hl => by
    have : w = [] := List.eq_nil_of_length_eq_zero (by simpa using hl)
    subst this; exact allOK_nil
  | r :: rs, [], _, _ => allOK_nil
  | r :: rs, v :: vs, h, hl => by
    unfold postLoop at h
    split at h
    · simp at h
    · split at h
      · cases h
      · rename_i hbig
        refine allOK_cons.mpr ⟨?_, postLoop_ok rs vs h (by simpa using hl)⟩
        cases v with
        | u n => trivial
        | b bs =>
          simp only [Val.avm, Val.blen, true_and] at hbig
          exact Nat.le_of_not_gt hbig

theorem postCheck_window {lim : Limits} {s : Spec} {pre : Nat} {stk : List Val} (h : postCheck lim s pre stk = .ok ()) :
    AllOK lim (stk.take (window s)) := by
  unfold window
  by_cases hw : (s.trusted || alwaysExits s) = true
  · rw [if_pos hw]; simp only [List.take_zero]; exact allOK_nil
  · rw [if_neg hw]
    simp only [Bool.or_eq_true, not_or, Bool.not_eq_true] at hw
    unfold postCheck at h
    rw [hw.1] at h
    simp only [Bool.false_eq_true, if_false, hw.2] at h
    split at h
    · cases h
    · split at h
      · cases h
      · have := postLoop_ok _ _ h (by simp; omega)
        exact allOK_sub (fun v hv => List.mem_reverse.mpr hv) this

theorem allOK_of_take_drop {lim : Limits} {l : List Val} (n : Nat) (h1 : AllOK lim (l.take n)) (h2 : AllOK lim (l.drop n)) :
    AllOK lim l := by
  rw [← List.take_append_drop n l]; exact allOK_append.mpr ⟨h1, h2⟩

theorem allOK_drop_mono {lim : Limits} {l : List Val} {a b : Nat} (hab : a ≤ b) (h : AllOK lim (l.drop a)) : AllOK lim (l.drop b) := by
  have : l.drop b = (l.drop a).drop (b - a) := by rw [List.drop_drop]; congr 1; omega
  rw [this]; exact allOK_drop _ h

theorem concreteExec_bounded {sem : Sem} {s : Spec} {cx : Ctx} {m m' : Mach} (hrow : rowBytesOK s = true)
    (hsem : SemBounded cx.cfg.lim sem) (hlsv : cx.cfg.lsv ≥ 13) (h : concreteExec sem s cx m = .ok m')
    (hs : AllOK cx.cfg.lim m.stack) (hsc : AllOK cx.cfg.lim m.scratch) :
    AllOK cx.cfg.lim (m'.stack.drop (window s)) ∧ AllOK cx.cfg.lim m'.scratch := by
  unfold concreteExec at h
  unfold rowBytesOK at hrow
  cases hk : opKind s.fn with
  | none =>
    rw [hk] at h
    simp only [] at h
    split at h
    · rename_i stk hst
      injection h with h; subst h
      exact ⟨hsem s _ _ _ hk hst hs, hsc⟩
    · cases h
  | some k =>
    rw [hk] at h hrow
    simp only [rowBytesOKk, decide_eq_true_eq] at h hrow
    obtain ⟨h1, h2⟩ := execK_bounded h hlsv hs hsc
    exact ⟨allOK_drop_mono hrow h1, h2⟩

/-- the byte-length invariant along a run -/
theorem bounded_reach {sem : Sem} {cfg : Cfg} {prog : List Nat} {v : Nat} {st0 st : State}
    (hrows : ∀ op next s, getSpec cfg.tbl v op next = some s → rowBytesOK s = true)
    (hsem : SemBounded cfg.lim sem) (hlsv : cfg.lsv ≥ 13)
    (hr : Reach (concreteExec sem) cfg prog v st0 st)
    (h0 : AllOK cfg.lim st0.m.stack ∧ AllOK cfg.lim st0.m.scratch) :
    AllOK cfg.lim st.m.stack ∧ AllOK cfg.lim st.m.scratch := by
  induction hr with
  | refl => exact h0
  | step _ _ hs ih =>
    obtain ⟨opc, s, opcost, m', _, hsp, _, _, _, _, _, _, hex, hpost, _, rfl⟩ := step_ok_inv hs
    obtain ⟨h1, h2⟩ := concreteExec_bounded (cx := ⟨cfg, prog, _, v⟩) (hrows _ _ _ hsp) hsem hlsv hex ih.1 ih.2
    exact ⟨allOK_of_take_drop _ (postCheck_window hpost) h1, h2⟩

end Lemmas.AVMBytes
