import AlgoVerif.Lemmas.Vpack
/-! Stateless layer: `CompressVote` on the canonical msgpack layout, and `DecompressVote` back. -/
namespace AlgoVerif.Lemmas.Vpack
open AlgoVerif.Model.Vpack AlgoVerif.Spec.Vpack

/-! ### parser primitives on canonical input -/

theorem fixstr_facts : ∀ n : Fin 32,
    ¬ (UInt8.ofNat (0xa0 + n.val) < 0xa0 ∨ UInt8.ofNat (0xa0 + n.val) > 0xbf) ∧
    (UInt8.ofNat (0xa0 + n.val) &&& 0x1f).toNat = n.val := by decide

theorem fixmap_facts : ∀ n : Fin 16,
    ¬ (UInt8.ofNat (0x80 + n.val) < 0x80 ∨ UInt8.ofNat (0x80 + n.val) > 0x8f) ∧
    (UInt8.ofNat (0x80 + n.val) &&& 0x0f).toNat = n.val := by decide

theorem readString_key (k rest out : Bytes) (mask : UInt8) (req : Nat) (hk : k.length < 32) :
    readString { rem := fixstr k ++ rest, out := out, mask := mask, req := req } =
      .ok (k, { rem := rest, out := out, mask := mask, req := req }) := by
  have f := fixstr_facts ⟨k.length, hk⟩
  simp only at f
  unfold readString fixstr
  simp only [List.cons_append]
  rw [if_neg f.1, f.2]
  have : k.length ≤ (k ++ rest).length := by simp [List.length_append]
  rw [if_pos this, List.take_left' rfl, List.drop_left' rfl]

theorem expectKey_ok (k rest out : Bytes) (mask : UInt8) (req : Nat) (hk : k.length < 32) :
    expectKey k { rem := fixstr k ++ rest, out := out, mask := mask, req := req } =
      .ok { rem := rest, out := out, mask := mask, req := req } := by
  unfold expectKey
  rw [readString_key k rest out mask req hk]
  simp

theorem readFixMap_ok (n : Nat) (rest out : Bytes) (mask : UInt8) (req : Nat) (hn : n < 16) :
    readFixMap { rem := UInt8.ofNat (0x80 + n) :: rest, out := out, mask := mask, req := req } =
      .ok (n, { rem := rest, out := out, mask := mask, req := req }) := by
  have f := fixmap_facts ⟨n, hn⟩
  simp only at f
  unfold readFixMap
  simp only
  rw [if_neg f.1, f.2]

theorem expectMap_ok (n : Nat) (rest out : Bytes) (mask : UInt8) (req : Nat) (hn : n < 16) :
    expectMap n { rem := UInt8.ofNat (0x80 + n) :: rest, out := out, mask := mask, req := req } =
      .ok { rem := rest, out := out, mask := mask, req := req } := by
  unfold expectMap
  rw [readFixMap_ok n rest out mask req hn]
  simp

theorem readBin_ok (sz : Nat) (v rest out : Bytes) (mask : UInt8) (req : Nat) (hv : v.length = sz) (hsz : sz < 256) :
    readBin sz { rem := [0xc4, UInt8.ofNat v.length] ++ (v ++ rest), out := out, mask := mask, req := req } =
      .ok (v, { rem := rest, out := out, mask := mask, req := req }) := by
  unfold readBin
  have hl : sz + 2 ≤ ([0xc4, UInt8.ofNat v.length] ++ (v ++ rest)).length := by
    simp [List.length_append]; omega
  simp only
  rw [if_pos hl]
  simp only [List.cons_append, List.nil_append]
  have hlen : (UInt8.ofNat v.length).toNat = v.length := by rw [UInt8.toNat_ofNat']; omega
  have : ¬ ((0xc4 : UInt8) ≠ 0xc4 ∨ (UInt8.ofNat v.length).toNat ≠ sz) := by
    rw [hlen]; intro h; rcases h with h | h
    · exact h rfl
    · exact h hv
  rw [if_neg this, List.take_left' hv, List.drop_left' hv]

theorem ofNat_beq_zero (n : Nat) (h : n % 256 ≠ 0) : (UInt8.ofNat n == 0) = false := by
  apply Bool.eq_false_iff.mpr
  intro hc
  have : UInt8.ofNat n = 0 := by simpa using hc
  have h2 : (UInt8.ofNat n).toNat = 0 := by rw [this]; rfl
  rw [UInt8.toNat_ofNat'] at h2
  omega

theorem ofNat_not_lt_128 (n : Nat) (h : 128 ≤ n % 256) : ¬ (UInt8.ofNat n < 0x80) := by
  intro hc
  have : (UInt8.ofNat n).toNat < (0x80 : UInt8).toNat := UInt8.lt_iff_toNat_lt.mp hc
  rw [UInt8.toNat_ofNat'] at this
  have e : (0x80 : UInt8).toNat = 128 := rfl
  omega

/-- `readUintBytes` accepts exactly the minimal encoding `msgp.AppendUint64` produces -/
theorem readUintBytes_ok (u : Nat) (rest out : Bytes) (mask : UInt8) (req : Nat) (hu : u < M64) :
    readUintBytes { rem := appendUint64 u ++ rest, out := out, mask := mask, req := req } =
      .ok (appendUint64 u, { rem := rest, out := out, mask := mask, req := req }) := by
  rw [M64_eq] at hu
  unfold appendUint64
  split
  · have f := fixint_facts ⟨u, by omega⟩
    unfold readUintBytes
    simp only [List.cons_append, List.nil_append, f.1, if_true]
  split
  · unfold readUintBytes
    have h1 : varuintRemaining 0xcc = some 1 := rfl
    simp only [List.cons_append, List.nil_append, h1]
    have nm : nonMinimal [UInt8.ofNat u] = false := by
      simp only [nonMinimal, List.length_singleton]
      simpa using ofNat_not_lt_128 u (by omega)
    simp [nm]
  split
  · unfold readUintBytes
    have h1 : varuintRemaining 0xcd = some 2 := rfl
    simp only [List.cons_append, List.nil_append, h1]
    have nm : nonMinimal [UInt8.ofNat (u / 256), UInt8.ofNat u] = false := by
      simp [nonMinimal, ofNat_beq_zero (u / 256) (by omega)]
    simp [nm]
  split
  · unfold readUintBytes
    have h1 : varuintRemaining 0xce = some 4 := rfl
    simp only [List.cons_append, List.nil_append, h1]
    have nm : nonMinimal [UInt8.ofNat (u / 16777216), UInt8.ofNat (u / 65536), UInt8.ofNat (u / 256), UInt8.ofNat u] = false := by
      have hd : (u / 16777216) % 256 ≠ 0 ∨ (u / 65536) % 256 ≠ 0 := by omega
      rcases hd with hd | hd
      · simp [nonMinimal, ofNat_beq_zero _ hd]
      · simp [nonMinimal, ofNat_beq_zero _ hd]
    simp [nm]
  · unfold readUintBytes
    have h1 : varuintRemaining 0xcf = some 8 := rfl
    simp only [List.cons_append, List.nil_append, h1]
    have nm : nonMinimal [UInt8.ofNat (u / 72057594037927936), UInt8.ofNat (u / 281474976710656), UInt8.ofNat (u / 1099511627776),
        UInt8.ofNat (u / 4294967296), UInt8.ofNat (u / 16777216), UInt8.ofNat (u / 65536), UInt8.ofNat (u / 256), UInt8.ofNat u] = false := by
      have hd : (u / 72057594037927936) % 256 ≠ 0 ∨ (u / 281474976710656) % 256 ≠ 0 ∨ (u / 1099511627776) % 256 ≠ 0 ∨
          (u / 4294967296) % 256 ≠ 0 := by omega
      rcases hd with hd | hd | hd | hd
      · simp [nonMinimal, ofNat_beq_zero _ hd]
      · simp [nonMinimal, ofNat_beq_zero _ hd]
      · simp [nonMinimal, ofNat_beq_zero _ hd]
      · simp [nonMinimal, ofNat_beq_zero _ hd]
    simp [nm]

/-! ### one item of a map -/

theorem binReq_item (sz : Nat) (v rest out : Bytes) (mask : UInt8) (req : Nat) (hv : v.length = sz) (hsz : sz < 256) :
    binReq sz { rem := [0xc4, UInt8.ofNat v.length] ++ (v ++ rest), out := out, mask := mask, req := req } =
      .ok { rem := rest, out := out ++ v, mask := mask, req := req + 1 } := by
  unfold binReq
  rw [readBin_ok sz v rest out mask req hv hsz]
  rfl

theorem binOpt_item (bit : UInt8) (v rest out : Bytes) (mask : UInt8) (req : Nat) (hv : v.length = 32) :
    binOpt bit { rem := [0xc4, UInt8.ofNat v.length] ++ (v ++ rest), out := out, mask := mask, req := req } =
      .ok { rem := rest, out := out ++ v, mask := mask ||| bit, req := req } := by
  unfold binOpt
  rw [readBin_ok 32 v rest out mask req hv (by decide)]
  rfl

theorem uintOpt_item (bit : UInt8) (x : Nat) (rest out : Bytes) (mask : UInt8) (req : Nat) (hx : x < M64) :
    uintOpt bit { rem := appendUint64 x ++ rest, out := out, mask := mask, req := req } =
      .ok { rem := rest, out := out ++ appendUint64 x, mask := mask ||| bit, req := req } := by
  unfold uintOpt
  rw [readUintBytes_ok x rest out mask req hx]
  rfl

theorem uintReq_item (x : Nat) (rest out : Bytes) (mask : UInt8) (req : Nat) (hx : x < M64) :
    uintReq { rem := appendUint64 x ++ rest, out := out, mask := mask, req := req } =
      .ok { rem := rest, out := out ++ appendUint64 x, mask := mask, req := req + 1 } := by
  unfold uintReq
  rw [readUintBytes_ok x rest out mask req hx]
  rfl

end AlgoVerif.Lemmas.Vpack
