import AlgoVerif.Model.AcctUpdates
/-! Lemmas for the page functions (C10): the byte-string order, the sorted live list of the oracle, the page rule
(`kvTrim`), the DB cursor scan (`processKvRows`) and the abstract covering argument. Core Lean only. -/
namespace AlgoVerif.Lemmas.Pages
open AlgoVerif.Spec.LedgerHistory AlgoVerif.Model.AcctUpdates

/-! ### the bytewise order on keys is a strict total order -/

theorem keyLt_irrefl (a : Key) : keyLt a a = false := by
  induction a with
  | nil => rfl
  | cons x xs ih => simp [keyLt, ih]

theorem keyLt_trans {a b c : Key} (h1 : keyLt a b = true) (h2 : keyLt b c = true) : keyLt a c = true := by
  induction a generalizing b c with
  | nil =>
    cases c with
    | nil => cases b <;> simp [keyLt] at h1 h2
    | cons z zs => rfl
  | cons x xs ih =>
    cases b with
    | nil => simp [keyLt] at h1
    | cons y ys =>
      cases c with
      | nil => simp [keyLt] at h2
      | cons z zs =>
        simp only [keyLt, Bool.or_eq_true, decide_eq_true_eq, Bool.and_eq_true, beq_iff_eq] at h1 h2 ⊢
        rcases h1 with h1 | ⟨h1, h1'⟩
        · rcases h2 with h2 | ⟨h2, _⟩
          · left; omega
          · left; omega
        · rcases h2 with h2 | ⟨h2, h2'⟩
          · left; omega
          · right; exact ⟨by omega, ih h1' h2'⟩

theorem keyLt_asymm {a b : Key} (h : keyLt a b = true) : keyLt b a = false := by
  cases hb : keyLt b a with
  | false => rfl
  | true => have := keyLt_trans h hb; rw [keyLt_irrefl] at this; exact absurd this (by simp)

theorem keyLt_total (a b : Key) : keyLt a b = true ∨ a = b ∨ keyLt b a = true := by
  induction a generalizing b with
  | nil => cases b with
    | nil => right; left; rfl
    | cons y ys => left; rfl
  | cons x xs ih =>
    cases b with
    | nil => right; right; rfl
    | cons y ys =>
      simp only [keyLt, Bool.or_eq_true, decide_eq_true_eq, Bool.and_eq_true, beq_iff_eq, List.cons.injEq]
      rcases Nat.lt_trichotomy x y with h | h | h
      · left; left; exact h
      · rcases ih ys with h' | h' | h'
        · left; right; exact ⟨h, h'⟩
        · right; left; exact ⟨h, h'⟩
        · right; right; right; exact ⟨h.symm, h'⟩
      · right; right; left; exact h

theorem keyLe_trans (a b c : Key) (h1 : keyLe a b = true) (h2 : keyLe b c = true) : keyLe a c = true := by
  unfold keyLe at *
  simp only [Bool.not_eq_true'] at *
  rcases keyLt_total c a with h | h | h
  · -- c < a ≤ b ≤ c : impossible
    rcases keyLt_total a b with h' | h' | h'
    · have := keyLt_trans h h'; rw [h2] at this; exact absurd this (by simp)
    · subst h'; rw [h] at h2; exact absurd h2 (by simp)
    · rw [h'] at h1; exact absurd h1 (by simp)
  · subst h; exact keyLt_irrefl c
  · exact keyLt_asymm h

theorem keyLe_total (a b : Key) : (keyLe a b || keyLe b a) = true := by
  unfold keyLe
  rcases keyLt_total a b with h | h | h
  · simp [keyLt_asymm h]
  · subst h; simp [keyLt_irrefl]
  · simp [keyLt_asymm h]

theorem keyLe_antisymm {a b : Key} (h1 : keyLe a b = true) (h2 : keyLe b a = true) : a = b := by
  unfold keyLe at *
  simp only [Bool.not_eq_true'] at *
  rcases keyLt_total a b with h | h | h
  · rw [h] at h2; exact absurd h2 (by simp)
  · exact h
  · rw [h] at h1; exact absurd h1 (by simp)

/-! ### dedup -/

theorem mem_dedup {α : Type} [DecidableEq α] (l : List α) (x : α) : x ∈ dedup l ↔ x ∈ l := by
  induction l with
  | nil => simp [dedup]
  | cons y ys ih =>
    simp only [dedup]
    split
    · next hm => rw [ih]; constructor
                 · intro h; exact List.mem_cons_of_mem _ h
                 · intro h; rcases List.mem_cons.mp h with h | h
                   · subst h; exact (ih).mp hm |> fun h' => h'
                   · exact h
    · simp only [List.mem_cons, ih]

theorem nodup_dedup {α : Type} [DecidableEq α] (l : List α) : (dedup l).Nodup := by
  induction l with
  | nil => simp [dedup]
  | cons y ys ih =>
    simp only [dedup]
    split
    · exact ih
    · next hm => exact List.nodup_cons.mpr ⟨hm, ih⟩

/-! ### the page rule -/

theorem kvTrim_bounds {α : Type} (sz : α → Nat) (maxb limit : Nat) (l : List α) (i acc : Nat) :
    i ≤ kvTrim sz maxb limit l i acc ∧ kvTrim sz maxb limit l i acc ≤ i + l.length := by
  induction l generalizing i acc with
  | nil => simp [kvTrim]
  | cons x xs ih =>
    unfold kvTrim
    split
    · simp
    · split
      · simp
      · have := ih (i + 1) (acc + sz x)
        simp only [List.length_cons]
        omega

/-- at least one item of a non-empty list is returned -/
theorem kvTrim_pos {α : Type} (sz : α → Nat) (maxb limit : Nat) (x : α) (xs : List α) :
    0 < kvTrim sz maxb limit (x :: xs) 0 0 := by
  unfold kvTrim
  simp only [Nat.lt_irrefl, decide_false, Bool.and_false, Bool.false_eq_true, if_false]
  split
  · omega
  · exact Nat.lt_of_lt_of_le Nat.zero_lt_one (kvTrim_bounds sz maxb limit xs _ _).1

/-- never more than `limit` items (when a limit is given) -/
theorem kvTrim_le_limit {α : Type} (sz : α → Nat) (maxb limit : Nat) (hl : 0 < limit) (l : List α) (i acc : Nat) (hi : i < limit) :
    kvTrim sz maxb limit l i acc ≤ limit := by
  induction l generalizing i acc with
  | nil => simp only [kvTrim]; omega
  | cons x xs ih =>
    unfold kvTrim
    split
    · omega
    · split
      · next h => simp only [Bool.and_eq_true, decide_eq_true_eq] at h; omega
      · next h =>
        simp only [Bool.and_eq_true, decide_eq_true_eq, not_and, Nat.not_le] at h
        exact ih (i + 1) _ (by have := h hl; omega)

/-! ### the DB cursor scan returns a prefix of the qualifying rows and says whether more qualify -/

theorem kvScanLoop_spec (cursor : Key) (limit maxBytes : Nat) (vals : Bool) (exclude : List Key)
    (rows : List (Key × Bytes)) (acc : List (Key × Option Bytes)) (collected bytesAccum : Nat) :
    ∃ j, (kvScanLoop cursor limit maxBytes vals exclude rows acc collected bytesAccum).items =
        acc ++ ((rows.filter (fun r => kvQualifies cursor exclude r.1)).take j).map (fun r => (r.1, if vals then some r.2 else none)) ∧
      (kvScanLoop cursor limit maxBytes vals exclude rows acc collected bytesAccum).more =
        decide (j < (rows.filter (fun r => kvQualifies cursor exclude r.1)).length) ∧
      (collected = 0 → rows.filter (fun r => kvQualifies cursor exclude r.1) ≠ [] → 0 < j) := by
  induction rows generalizing acc collected bytesAccum with
  | nil => exact ⟨0, by simp [kvScanLoop], by simp [kvScanLoop], by simp⟩
  | cons r t ih =>
    obtain ⟨k, v⟩ := r
    unfold kvScanLoop
    by_cases hq : kvQualifies cursor exclude k = true
    · have hnq : (!kvQualifies cursor exclude k) = false := by simp [hq]
      rw [if_neg (by simp [hnq])]
      dsimp only
      simp only [List.filter_cons, hq, if_true]
      by_cases hb : (decide (maxBytes > 0) && decide (bytesAccum + (k.length + if vals then v.length else 0) > maxBytes) && decide (collected > 0)) = true
      · rw [if_pos hb]
        simp only [Bool.and_eq_true, decide_eq_true_eq] at hb
        exact ⟨0, by simp, by simp, fun h0 => by omega⟩
      · rw [if_neg hb]
        by_cases hl : (decide (limit > 0) && decide (collected + 1 ≥ limit)) = true
        · rw [if_pos hl]
          refine ⟨1, by simp, ?_, fun _ _ => by omega⟩
          simp only [List.length_cons]
          cases hany : t.any (fun r => kvQualifies cursor exclude r.1) with
          | true =>
            rw [List.any_eq_true] at hany
            obtain ⟨x, hx, hx'⟩ := hany
            have hpos : 0 < (t.filter (fun r => kvQualifies cursor exclude r.1)).length :=
              List.length_pos_of_mem (List.mem_filter.mpr ⟨hx, hx'⟩)
            symm; rw [decide_eq_true_eq]; omega
          | false =>
            have hnil : t.filter (fun r => kvQualifies cursor exclude r.1) = [] := by
              rw [List.filter_eq_nil_iff]
              intro x hx
              have := List.any_eq_false.mp hany x hx
              simpa using this
            rw [hnil]; simp
        · rw [if_neg hl]
          obtain ⟨j, h1, h2, _⟩ := ih (acc ++ [(k, if vals then some v else none)]) (collected + 1) (bytesAccum + (k.length + if vals then v.length else 0))
          refine ⟨j + 1, ?_, ?_, fun _ _ => by omega⟩
          · rw [h1]; simp
          · rw [h2]; simp
    · have hq' : kvQualifies cursor exclude k = false := by simpa using hq
      rw [if_pos (by simp [hq'])]
      simp only [List.filter_cons, hq', Bool.false_eq_true, if_false]
      exact ih acc collected bytesAccum

/-- processKvRows: a non-empty prefix of the qualifying rows (when any qualifies), and `more` exactly when rows are left -/
theorem processKvRows_spec (rows : List (Key × Bytes)) (cursor : Key) (limit maxBytes : Nat) (vals : Bool) (exclude : List Key) :
    ∃ j, (processKvRows rows cursor limit maxBytes vals exclude).items =
        ((rows.filter (fun r => kvQualifies cursor exclude r.1)).take j).map (fun r => (r.1, if vals then some r.2 else none)) ∧
      (processKvRows rows cursor limit maxBytes vals exclude).more =
        decide (j < (rows.filter (fun r => kvQualifies cursor exclude r.1)).length) ∧
      (rows.filter (fun r => kvQualifies cursor exclude r.1) ≠ [] → 0 < j) := by
  obtain ⟨j, h1, h2, h3⟩ := kvScanLoop_spec cursor limit maxBytes vals exclude rows [] 0 0
  exact ⟨j, by unfold processKvRows; simpa using h1, h2, h3 rfl⟩

/-! ### strictly sorted lists are determined by their elements -/

/-- two lists, strictly increasing for a strict order `lt` on their keys, with the same elements, are equal -/
theorem sorted_ext {α K : Type} (key : α → K) (lt : K → K → Prop) (hirr : ∀ a, ¬ lt a a) (htr : ∀ a b c, lt a b → lt b c → lt a c)
    (l1 l2 : List α) (h1 : l1.Pairwise (fun x y => lt (key x) (key y))) (h2 : l2.Pairwise (fun x y => lt (key x) (key y)))
    (hm : ∀ x, x ∈ l1 ↔ x ∈ l2) : l1 = l2 := by
  induction l1 generalizing l2 with
  | nil =>
    cases l2 with
    | nil => rfl
    | cons y ys => exact absurd ((hm y).mpr (by simp)) (by simp)
  | cons x xs ih =>
    cases l2 with
    | nil => exact absurd ((hm x).mp (by simp)) (by simp)
    | cons y ys =>
      rw [List.pairwise_cons] at h1 h2
      have hxy : x = y := by
        have hx : x ∈ y :: ys := (hm x).mp (by simp)
        have hy : y ∈ x :: xs := (hm y).mpr (by simp)
        rcases List.mem_cons.mp hx with hx | hx
        · exact hx
        · rcases List.mem_cons.mp hy with hy | hy
          · exact hy.symm
          · exact absurd (htr _ _ _ (h1.1 y hy) (h2.1 x hx)) (hirr _)
      subst hxy
      congr 1
      apply ih ys h1.2 h2.2
      intro z
      constructor
      · intro hz
        rcases List.mem_cons.mp ((hm z).mp (List.mem_cons_of_mem _ hz)) with h | h
        · subst h; exact absurd (h1.1 z hz) (hirr _)
        · exact h
      · intro hz
        rcases List.mem_cons.mp ((hm z).mpr (List.mem_cons_of_mem _ hz)) with h | h
        · subst h; exact absurd (h2.1 z hz) (hirr _)
        · exact h

/-- in a strictly increasing list, the elements after position n are exactly those greater than the n-th -/
theorem mem_drop_sorted {α K : Type} (key : α → K) (lt : K → K → Prop) (hirr : ∀ a, ¬ lt a a) (htr : ∀ a b c, lt a b → lt b c → lt a c)
    (l : List α) (h : l.Pairwise (fun x y => lt (key x) (key y))) (n : Nat) (x : α) (hx : l[n]? = some x) (z : α) :
    z ∈ l.drop (n + 1) ↔ z ∈ l ∧ lt (key x) (key z) := by
  induction l generalizing n with
  | nil => simp at hx
  | cons y ys ih =>
    rw [List.pairwise_cons] at h
    cases n with
    | zero =>
      simp at hx; subst hx
      simp only [List.drop_succ_cons, List.drop_zero, List.mem_cons]
      constructor
      · intro hz; exact ⟨Or.inr hz, h.1 z hz⟩
      · rintro ⟨hz | hz, hlt⟩
        · subst hz; exact absurd hlt (hirr _)
        · exact hz
    | succ n =>
      simp only [List.getElem?_cons_succ] at hx
      simp only [List.drop_succ_cons, List.mem_cons]
      rw [ih h.2 n hx]
      constructor
      · rintro ⟨hz, hlt⟩; exact ⟨Or.inr hz, hlt⟩
      · rintro ⟨hz | hz, hlt⟩
        · subst hz
          have hxm : x ∈ ys := List.mem_of_getElem? hx
          exact absurd (htr _ _ _ (h.1 x hxm) hlt) (hirr _)
        · exact ⟨hz, hlt⟩

/-! ### the live box list of the oracle -/

theorem liveKv_eq (h : History) (rnd : Nat) (pfx cursor : Key) :
    liveKv h rnd pfx cursor =
      (((dedup h.kvKeys).filter (fun k => hasPrefix pfx k && keyLt cursor k && (kvAt h rnd k).isSome)).mergeSort keyLe).filterMap
        (fun k => (kvAt h rnd k).map (fun v => (k, v))) := rfl

theorem mem_liveKv (h : History) (rnd : Nat) (pfx cursor : Key) (k : Key) (v : Bytes) :
    (k, v) ∈ liveKv h rnd pfx cursor ↔ k ∈ h.kvKeys ∧ hasPrefix pfx k = true ∧ keyLt cursor k = true ∧ kvAt h rnd k = some v := by
  rw [liveKv_eq, List.mem_filterMap]
  constructor
  · rintro ⟨k', hk', he⟩
    have hp := (List.mergeSort_perm _ keyLe).mem_iff.mp hk'
    rw [List.mem_filter, mem_dedup] at hp
    cases hv : kvAt h rnd k' with
    | none => rw [hv] at he; simp at he
    | some v' =>
      rw [hv] at he; simp at he
      obtain ⟨rfl, rfl⟩ := he
      simp only [Bool.and_eq_true] at hp
      exact ⟨hp.1, hp.2.1.1, hp.2.1.2, hv⟩
  · rintro ⟨h1, h2, h3, h4⟩
    refine ⟨k, ?_, by rw [h4]; rfl⟩
    apply (List.mergeSort_perm _ keyLe).mem_iff.mpr
    rw [List.mem_filter, mem_dedup]
    exact ⟨h1, by simp [h2, h3, h4]⟩

/-- the listing is strictly increasing in the key: no box twice -/
theorem liveKv_sorted (h : History) (rnd : Nat) (pfx cursor : Key) :
    (liveKv h rnd pfx cursor).Pairwise (fun x y => keyLt x.1 y.1 = true) := by
  rw [liveKv_eq]
  generalize hks : (dedup h.kvKeys).filter (fun k => hasPrefix pfx k && keyLt cursor k && (kvAt h rnd k).isSome) = ks
  have hnd : ks.Nodup := by rw [← hks]; exact (nodup_dedup _).sublist List.filter_sublist
  have hs := List.pairwise_mergeSort keyLe_trans keyLe_total ks
  have hnd' : (ks.mergeSort keyLe).Nodup := ((List.mergeSort_perm ks keyLe).nodup_iff).mpr hnd
  generalize ks.mergeSort keyLe = sk at hs hnd'
  induction sk with
  | nil => simp
  | cons a t ih =>
    rw [List.pairwise_cons] at hs
    rw [List.nodup_cons] at hnd'
    simp only [List.filterMap_cons]
    have htail := ih hs.2 hnd'.2
    cases hv : kvAt h rnd a with
    | none => simpa [hv] using htail
    | some v =>
      simp only [hv, Option.map_some]
      rw [List.pairwise_cons]
      refine ⟨?_, htail⟩
      intro y hy
      rw [List.mem_filterMap] at hy
      obtain ⟨b, hb, he⟩ := hy
      cases hvb : kvAt h rnd b with
      | none => rw [hvb] at he; simp at he
      | some w =>
        rw [hvb] at he; simp at he; subst he
        simp only []
        have hle := hs.1 b hb
        rcases keyLt_total a b with h' | h' | h'
        · exact h'
        · subst h'; exact absurd hb hnd'.1
        · unfold keyLe at hle; rw [h'] at hle; simp at hle

/-- continuing after the n-th element: the listing from the cursor `key of element n` is the rest of the listing -/
theorem liveKv_after (h : History) (rnd : Nat) (pfx cursor : Key) (n : Nat) (x : Key × Bytes)
    (hx : (liveKv h rnd pfx cursor)[n]? = some x) :
    liveKv h rnd pfx x.1 = (liveKv h rnd pfx cursor).drop (n + 1) := by
  have hirr : ∀ a : Key, ¬ (keyLt a a = true) := fun a => by rw [keyLt_irrefl]; simp
  have htr : ∀ a b c : Key, keyLt a b = true → keyLt b c = true → keyLt a c = true := fun _ _ _ => keyLt_trans
  apply sorted_ext (fun (p : Key × Bytes) => p.1) (fun a b => keyLt a b = true) hirr htr
  · exact liveKv_sorted h rnd pfx x.1
  · exact (liveKv_sorted h rnd pfx cursor).sublist (List.drop_sublist _ _)
  · intro z
    obtain ⟨k, v⟩ := z
    rw [mem_drop_sorted (fun (p : Key × Bytes) => p.1) (fun a b => keyLt a b = true) hirr htr _ (liveKv_sorted h rnd pfx cursor) n x hx,
      mem_liveKv, mem_liveKv]
    have hxm : x ∈ liveKv h rnd pfx cursor := List.mem_of_getElem? hx
    obtain ⟨xk, xv⟩ := x
    rw [mem_liveKv] at hxm
    constructor
    · rintro ⟨h1, h2, h3, h4⟩; exact ⟨⟨h1, h2, keyLt_trans hxm.2.2.1 h3, h4⟩, h3⟩
    · rintro ⟨⟨h1, h2, _, h4⟩, h3⟩; exact ⟨h1, h2, h3, h4⟩

/-! ### the covering argument: a pager whose pages are non-empty prefixes of what is left, with `more` exactly when
something is left, enumerates the list exactly once -/

/-- iterate a pager: the next page starts at the last element returned; stop when `more` is false or the page is empty -/
def iterPages {α C : Type} (pager : C → List α × Bool) (next : α → C) : Nat → C → List (List α)
  | 0, _ => []
  | fuel + 1, c =>
    match pager c with
    | (p, more) =>
      match p.getLast? with
      | some x => if more then p :: iterPages pager next fuel (next x) else [p]
      | none => [p]

theorem iterPages_cover {α C : Type} (pager : C → List α × Bool) (next : α → C) (rest : C → List α)
    (hpage : ∀ c, ∃ n, (pager c).1 = (rest c).take n ∧ (rest c ≠ [] → 0 < n) ∧ ((pager c).2 = true ↔ n < (rest c).length))
    (hnext : ∀ c n x, (rest c)[n]? = some x → rest (next x) = (rest c).drop (n + 1))
    (fuel : Nat) (c : C) (hf : (rest c).length < fuel) :
    (iterPages pager next fuel c).flatten = rest c ∧ ∀ p ∈ iterPages pager next fuel c, p ≠ [] ∨ rest c = [] := by
  induction fuel generalizing c with
  | zero => omega
  | succ fuel ih =>
    obtain ⟨n, hp, hpos, hmore⟩ := hpage c
    unfold iterPages
    cases hpc : pager c with
    | mk p more =>
      rw [hpc] at hp hmore
      simp only [] at hp hmore ⊢
      cases hl : p.getLast? with
      | none =>
        have hpnil : p = [] := by
          cases p with
          | nil => rfl
          | cons a t => simp [List.getLast?_cons] at hl
        simp only []
        have hrest : rest c = [] := by
          cases hr : rest c with
          | nil => rfl
          | cons a t =>
            have := hpos (by rw [hr]; simp)
            rw [hpnil, hr] at hp
            cases n with
            | zero => omega
            | succ n => simp at hp
        exact ⟨by simp [hpnil, hrest], fun q hq => by right; exact hrest⟩
      | some x =>
        simp only []
        have hpne : p ≠ [] := by intro e; rw [e] at hl; simp at hl
        by_cases hm : more = true
        · simp only [hm, if_true]
          have hn : n < (rest c).length := hmore.mp hm
          have hn0 : 0 < n := by
            apply hpos; intro e; rw [e] at hn; simp at hn
          -- x is element n-1 of rest c
          have hx : (rest c)[n - 1]? = some x := by
            rw [hp, List.getLast?_eq_getElem?, List.length_take, Nat.min_eq_left (by omega), List.getElem?_take] at hl
            simpa [show n - 1 < n by omega] using hl
          have hnx := hnext c (n - 1) x hx
          rw [show n - 1 + 1 = n by omega] at hnx
          obtain ⟨g1, g2⟩ := ih (next x) (by rw [hnx, List.length_drop]; omega)
          refine ⟨?_, ?_⟩
          · simp only [List.flatten_cons, g1, hnx, hp, List.take_append_drop]
          · intro q hq
            rcases List.mem_cons.mp hq with hq | hq
            · left; rw [hq]; exact hpne
            · left
              rcases g2 q hq with h' | h'
              · exact h'
              · rw [hnx] at h'
                have : (rest c).length ≤ n := by
                  have := congrArg List.length h'; simp at this; omega
                omega
        · have hm' : more = false := by simpa using hm
          simp only [hm', Bool.false_eq_true, if_false]
          have hn : ¬ n < (rest c).length := fun h' => by have := hmore.mpr h'; rw [hm'] at this; simp at this
          refine ⟨by simp [hp, List.take_of_length_le (Nat.le_of_not_lt hn)], fun q hq => ?_⟩
          simp at hq; left; rw [hq]; exact hpne

end AlgoVerif.Lemmas.Pages
