/-
`dec_fit`: a run of Model.BoundedDecoder that starts from the zero value and never decodes a struct field twice
(`noDup` of its log) yields an object every collection of which — strings, byte strings, slices AND maps, at every path —
is within its declared bound (`fits`).  Without `noDup` the statement is false for maps: Props.C41.dup_field_exceeds_bound.
-/
import AlgoVerif.Lemmas.BoundedDecoder
namespace AlgoVerif.BoundedDecoder
open AlgoVerif.Msgpack

theorem noDup_append (l1 l2 : Log) : noDup (l1 ++ l2) = (noDup l1 && noDup l2) := by
  induction l1 with
  | nil => simp [noDup]
  | cons e l ih => cases e <;> simp [noDup, ih]

theorem noDup_append_left {l1 l2 : Log} (h : noDup (l1 ++ l2) = true) : noDup l1 = true := by
  rw [noDup_append] at h; simp only [Bool.and_eq_true] at h; exact h.1
theorem noDup_append_right {l1 l2 : Log} (h : noDup (l1 ++ l2) = true) : noDup l2 = true := by
  rw [noDup_append] at h; simp only [Bool.and_eq_true] at h; exact h.2

/-- a successful `bind` is a successful first part followed by a successful continuation -/
theorem bind_ok {α β : Type} {p : P α} {f : α → P β} {bs : Bytes} {l : Log} {b : β} {r2 : Bytes}
    (h : P.bind p f bs = (l, .ok (b, r2))) :
    ∃ l1 a r l2, p bs = (l1, .ok (a, r)) ∧ f a r = (l2, .ok (b, r2)) ∧ l = l1 ++ l2 := by
  unfold P.bind at h
  rcases hp : p bs with ⟨l1, x⟩
  rw [hp] at h
  cases x with
  | error e => simp at h
  | ok ar =>
    rcases ar with ⟨a, r⟩
    simp only [Prod.mk.injEq] at h
    obtain ⟨h1, h2⟩ := h
    refine ⟨l1, a, r, (f a r).1, rfl, ?_, h1.symm⟩
    exact Prod.ext rfl h2

theorem pure_ok {α : Type} {a b : α} {bs r : Bytes} {l : Log} (h : P.pure a bs = (l, .ok (b, r))) : l = [] ∧ a = b ∧ bs = r := by
  simp only [P.pure, Prod.mk.injEq, Except.ok.injEq] at h
  exact ⟨h.1.symm, h.2.1, h.2.2⟩

theorem fail_not_ok {α : Type} {e : Err} {bs r : Bytes} {l : Log} {b : α} (h : (P.fail e : P α) bs = (l, .ok (b, r))) : False := by
  simp [P.fail] at h

/-! ## `fits` equations -/

theorem leB_zero (ob : Option Nat) : leB 0 ob = true := by cases ob <;> simp [leB]

theorem fits_named (b : BTy) (v : Val) : fits (.named b) v = fits b v := by cases v <;> simp [fits]
theorem fits_post (m : Nat) (b : BTy) (v : Val) : fits (.post m b) v = fits b v := by cases v <;> simp [fits]
theorem fits_bool (v : Val) : fits .bool v = true := by cases v <;> simp [fits]
theorem fits_uint (n : Nat) (v : Val) : fits (.uint n) v = true := by cases v <;> simp [fits]
theorem fits_int (n : Nat) (v : Val) : fits (.int n) v = true := by cases v <;> simp [fits]
theorem fits_fixed (n : Nat) (v : Val) : fits (.fixedBytes n) v = true := by cases v <;> simp [fits]
theorem fits_cut (v : Val) : fits .cut v = true := by cases v <;> simp [fits]

theorem fitsL_replicate {e : BTy} {z : Val} (h : fits e z = true) : ∀ n, fitsL e (List.replicate n z) = true
  | 0 => by simp [fitsL]
  | n+1 => by simp [List.replicate, fitsL, h, fitsL_replicate h n]

theorem fitsL_append {e : BTy} : ∀ {xs ys : List Val}, fitsL e xs = true → fitsL e ys = true → fitsL e (xs ++ ys) = true
  | [], ys, _, h2 => by simpa using h2
  | x :: xs, ys, h1, h2 => by
    simp only [fitsL, Bool.and_eq_true] at h1
    simp only [List.cons_append, fitsL, Bool.and_eq_true]
    exact ⟨h1.1, fitsL_append h1.2 h2⟩

theorem fitsL_of_all {e : BTy} : ∀ {xs : List Val}, (∀ x ∈ xs, fits e x = true) → fitsL e xs = true
  | [], _ => by simp [fitsL]
  | x :: xs, h => by
    simp only [fitsL, Bool.and_eq_true]
    exact ⟨h x (by simp), fitsL_of_all (fun y hy => h y (List.mem_cons_of_mem _ hy))⟩

mutual
theorem fits_zero : ∀ ty : BTy, fits ty (zero ty) = true
  | .bool => by simp [zero, fits]
  | .uint _ => by simp [zero, fits]
  | .int _ => by simp [zero, fits]
  | .str ob => by simp [zero, fits, leB_zero]
  | .bytes _ => by simp [zero, fits]
  | .fixedBytes _ => by simp [zero, fits]
  | .slice _ _ => by simp [zero, fits]
  | .array n e => by simp only [zero, fits]; exact fitsL_replicate (fits_zero e) n
  | .map _ _ _ => by simp [zero, fits]
  | .ptr _ => by simp [zero, fits]
  | .named b => by rw [fits_named]; simp only [zero]; exact fits_zero b
  | .post m b => by rw [fits_post]; simp only [zero]; exact fits_zero b
  | .struct fs => by simp only [zero, fits]; exact fitsF_zero fs
  | .cut => by simp [zero, fits]
theorem fitsF_zero : ∀ fs : List BField, fitsF fs (zeroFs fs) = true
  | [] => by simp [zeroFs, fitsF]
  | (_, _, t) :: fs => by simp only [zeroFs, fitsF, Bool.and_eq_true]; exact ⟨fits_zero t, fitsF_zero fs⟩
end

/-! ## lengths delivered by the byte-string primitives -/

theorem rdByteArr_len : ∀ (n : Nat) (bs : Bytes) (l : Log) (x t : Bytes), rdByteArr n bs = (l, .ok (x, t)) → x.length = n
  | 0, bs, l, x, t, h => by
    unfold rdByteArr at h
    obtain ⟨_, rfl, _⟩ := pure_ok h
    rfl
  | n+1, bs, l, x, t, h => by
    unfold rdByteArr at h
    obtain ⟨l1, b, r, l2, _, h2, _⟩ := bind_ok h
    obtain ⟨l3, tl, r3, l4, h3, h4, _⟩ := bind_ok h2
    obtain ⟨_, rfl, _⟩ := pure_ok h4
    have := rdByteArr_len n r l3 tl r3 h3
    simp [this]

theorem asType_ok {α : Type} {p : P α} {bs : Bytes} {l : Log} {a : α} {r : Bytes} (h : asType p bs = (l, .ok (a, r))) :
    p bs = (l, .ok (a, r)) := by
  unfold asType at h
  split at h
  · simp at h
  · exact h

theorem slowBytes_len {ob : Option Nat} {c : Nat} {r : Bytes} {l : Log} {x t : Bytes}
    (h : slowBytes ob c r = (l, .ok (x, t))) : x.length = c := by
  unfold slowBytes at h
  split at h
  · simp at h
  · obtain ⟨l1, u, r1, l2, h1, h2, _⟩ := bind_ok h
    exact rdByteArr_len c r1 l2 x t (asType_ok h2)

theorem rdStrCore_len {ob : Option Nat} {cp bsh : Bool} {bs : Bytes} {l : Log} {x t : Bytes}
    (h : rdStrCore ob cp bsh bs = (l, .ok (x, t))) : peekBytesLen bs = .ok x.length := by
  unfold rdStrCore at h
  unfold peekBytesLen
  split at h
  · next n r hd =>
    split at h
    · simp at h
    · next y u ht =>
      simp only [Prod.mk.injEq, Except.ok.injEq] at h
      obtain ⟨_, rfl, _⟩ := h
      rw [hd]; simp [(takeN_len ht).2]
  · next r hd =>
    simp only [Prod.mk.injEq, Except.ok.injEq] at h
    obtain ⟨_, rfl, _⟩ := h
    rw [hd]; rfl
  · next n r hd =>
    split at h
    · simp at h
    · next y u ht =>
      simp only [Prod.mk.injEq, Except.ok.injEq] at h
      obtain ⟨_, rfl, _⟩ := h
      rw [hd]; simp [(takeN_len ht).2]
  · next n r hd =>
    split at h
    · next l' y u hs =>
      simp only [Prod.mk.injEq, Except.ok.injEq] at h
      obtain ⟨_, rfl, _⟩ := h
      rw [hd]; simp [slowBytes_len hs]
    · simp at h
  · simp at h
  · split at h
    · simp at h
    · simp only at h
      split at h
      · simp at h
      · split at h <;> simp at h

theorem decStr_fit (ob : Option Nat) {bs : Bytes} {l : Log} {v : Val} {r : Bytes} (h : decStr ob bs = (l, .ok (v, r))) :
    fits (.str ob) v = true := by
  unfold decStr at h
  split at h
  · unfold rdStr at h
    split at h
    · next l' x t hx =>
      simp only [Prod.mk.injEq, Except.ok.injEq] at h
      obtain ⟨_, rfl, _⟩ := h
      simp [fits, leB]
    · simp at h
  · next b =>
    split at h
    · simp at h
    · next n hp =>
      split at h
      · simp at h
      · next hle =>
        unfold rdStr at h
        split at h
        · next l' x t hx =>
          simp only [Prod.mk.injEq, Except.ok.injEq] at h
          obtain ⟨_, rfl, _⟩ := h
          have := rdStrCore_len hx
          rw [hp] at this
          simp only [Except.ok.injEq] at this
          simp only [fits, leB, decide_eq_true_eq]
          omega
        · simp at h

theorem rdBytes_len {ob : Option Nat} {bs : Bytes} {l : Log} {v : Val} {t : Bytes} (h : rdBytes ob bs = (l, .ok (v, t))) :
    v = .bytesNil ∨ ∃ x, v = .bytes x ∧ peekBytesLen bs = .ok x.length := by
  unfold rdBytes at h
  unfold peekBytesLen
  split at h
  · next n r hd =>
    split at h
    · simp at h
    · next y u ht =>
      simp only [Prod.mk.injEq, Except.ok.injEq] at h
      obtain ⟨_, rfl, _⟩ := h
      exact .inr ⟨y, rfl, by simp [(takeN_len ht).2]⟩
  · next n r hd =>
    split at h
    · simp at h
    · next y u ht =>
      simp only [Prod.mk.injEq, Except.ok.injEq] at h
      obtain ⟨_, rfl, _⟩ := h
      exact .inr ⟨y, rfl, by simp [(takeN_len ht).2]⟩
  · simp only [Prod.mk.injEq, Except.ok.injEq] at h
    exact .inl h.2.1.symm
  · next n r hd =>
    split at h
    · next l' y u hs =>
      simp only [Prod.mk.injEq, Except.ok.injEq] at h
      obtain ⟨_, rfl, _⟩ := h
      exact .inr ⟨y, rfl, by simp [slowBytes_len hs]⟩
    · simp at h
  · next n r hd =>
    split at h
    · next l' y u hs =>
      simp only [Prod.mk.injEq, Except.ok.injEq] at h
      obtain ⟨_, rfl, _⟩ := h
      exact .inr ⟨y, rfl, by simp [slowBytes_len hs]⟩
    · simp at h
  · simp at h
  · simp at h

theorem decBytes_fit (ob : Option Nat) {bs : Bytes} {l : Log} {v : Val} {r : Bytes} (h : decBytes ob bs = (l, .ok (v, r))) :
    fits (.bytes ob) v = true := by
  unfold decBytes at h
  split at h
  · rcases rdBytes_len h with rfl | ⟨x, rfl, _⟩ <;> simp [fits, leB]
  · next b =>
    split at h
    · simp at h
    · next n hp =>
      split at h
      · simp at h
      · next hle =>
        rcases rdBytes_len h with rfl | ⟨x, rfl, hx⟩
        · simp [fits]
        · rw [hp] at hx
          simp only [Except.ok.injEq] at hx
          simp only [fits, leB, decide_eq_true_eq]
          omega


/-! ## combinators -/

/-- decoding into the zero value, on a run without a repeated struct key, yields a value within the declared bounds -/
def DFit (ty : BTy) (f : D) : Prop :=
  ∀ bs l v r, f (zero ty) bs = (l, .ok (v, r)) → noDup l = true → fits ty v = true

theorem over_false_leB {ob : Option Nat} {n : Nat} (h : ¬ (over ob n = true)) : leB n ob = true := by
  cases ob with
  | none => rfl
  | some b => simp only [over, decide_eq_true_eq] at h; simp only [leB, decide_eq_true_eq]; omega

theorem loopElems_fit {e : BTy} {f : D} (hf : DFit e f) :
    ∀ (n : Nat) (olds : List Val) (bs : Bytes) (l : Log) (vs : List Val) (r : Bytes),
      (∀ o ∈ olds, o = zero e) → loopElems f (zero e) n olds bs = (l, .ok (vs, r)) → noDup l = true →
      fitsL e vs = true ∧ vs.length = n
  | 0, olds, bs, l, vs, r, _, h, _ => by
    unfold loopElems at h
    obtain ⟨_, rfl, _⟩ := pure_ok h
    simp [fitsL]
  | n+1, olds, bs, l, vs, r, ho, h, hd => by
    unfold loopElems at h
    obtain ⟨l1, v, r1, l2, h1, h2, rfl⟩ := bind_ok h
    obtain ⟨l3, tl, r3, l4, h3, h4, rfl⟩ := bind_ok h2
    obtain ⟨_, rfl, _⟩ := pure_ok h4
    have hz : headOr (zero e) olds = zero e := by
      cases olds with
      | nil => rfl
      | cons o os => exact ho o (by simp)
    rw [hz] at h1
    have hv := hf _ _ _ _ h1 (noDup_append_left hd)
    have hrest := loopElems_fit hf n (olds.drop 1) r1 l3 tl r3 (fun o hm => ho o (List.mem_of_mem_drop hm)) h3
      (noDup_append_left (noDup_append_right hd))
    simp only [fitsL, Bool.and_eq_true, List.length_cons]
    exact ⟨⟨hv, hrest.1⟩, by omega⟩

theorem fits_slice (ob : Option Nat) (e : BTy) (vs : List Val) :
    fits (.slice ob e) (.slice vs) = (leB vs.length ob && fitsL e vs) := by simp [fits]
theorem fits_sliceNil (ob : Option Nat) (e : BTy) : fits (.slice ob e) .sliceNil = true := by simp [fits]

theorem decSlice_fit (ob : Option Nat) {e : BTy} {f : D} (hf : DFit e f) : DFit (.slice ob e) (decSlice ob f (zero e)) := by
  intro bs l v r h hd
  simp only [zero] at h
  unfold decSlice at h
  obtain ⟨l1, a, r1, l2, h1, h2, rfl⟩ := bind_ok h
  rcases a with ⟨n, isnil⟩
  simp only at h2
  split at h2
  · exact (fail_not_ok h2).elim
  · next hov =>
    split at h2
    · obtain ⟨_, rfl, _⟩ := pure_ok h2
      exact fits_sliceNil ob e
    · obtain ⟨l3, u, r3, l4, h3, h4, rfl⟩ := bind_ok h2
      obtain ⟨l5, vs, r5, l6, h5, h6, rfl⟩ := bind_ok h4
      obtain ⟨_, rfl, _⟩ := pure_ok h6
      have := loopElems_fit hf n [] r3 l5 vs r5 (by intro o ho; cases ho) h5
        (noDup_append_left (noDup_append_right (noDup_append_right hd)))
      rw [fits_slice]
      simp only [Bool.and_eq_true]
      exact ⟨by rw [this.2]; exact over_false_leB hov, this.1⟩

theorem fits_array (n : Nat) (e : BTy) (vs : List Val) : fits (.array n e) (.array vs) = fitsL e vs := by simp [fits]

theorem decArray_fit (n : Nat) {e : BTy} {f : D} (hf : DFit e f) : DFit (.array n e) (decArray n f (zero e)) := by
  intro bs l v r h hd
  simp only [zero] at h
  unfold decArray at h
  obtain ⟨l1, a, r1, l2, h1, h2, rfl⟩ := bind_ok h
  rcases a with ⟨k, isnil⟩
  simp only at h2
  split at h2
  · exact (fail_not_ok h2).elim
  · simp only [List.length_replicate, if_true] at h2
    obtain ⟨l3, vs, r3, l4, h3, h4, rfl⟩ := bind_ok h2
    obtain ⟨_, rfl, _⟩ := pure_ok h4
    have hz : ∀ o ∈ List.replicate n (zero e), o = zero e := fun o ho => (List.mem_replicate.mp ho).2
    have := loopElems_fit hf k _ r1 l3 vs r3 hz h3 (noDup_append_left (noDup_append_right hd))
    rw [fits_array]
    refine fitsL_append this.1 (fitsL_of_all ?_)
    intro x hx
    rw [hz x (List.mem_of_mem_drop hx)]
    exact fits_zero e

theorem loopPairs_fit {k v : BTy} {fk fv : D} (hk : DFit k fk) (hv : DFit v fv) :
    ∀ (n : Nat) (bs : Bytes) (l : Log) (kvs : List (Val × Val)) (r : Bytes),
      loopPairs fk fv (zero k) (zero v) n bs = (l, .ok (kvs, r)) → noDup l = true →
      fitsM k v kvs = true ∧ kvs.length = n
  | 0, bs, l, kvs, r, h, _ => by
    unfold loopPairs at h
    obtain ⟨_, rfl, _⟩ := pure_ok h
    simp [fitsM]
  | n+1, bs, l, kvs, r, h, hd => by
    unfold loopPairs at h
    obtain ⟨l1, a, r1, l2, h1, h2, rfl⟩ := bind_ok h
    obtain ⟨l3, b, r3, l4, h3, h4, rfl⟩ := bind_ok h2
    obtain ⟨l5, tl, r5, l6, h5, h6, rfl⟩ := bind_ok h4
    obtain ⟨_, rfl, _⟩ := pure_ok h6
    have ha := hk _ _ _ _ h1 (noDup_append_left hd)
    have hb := hv _ _ _ _ h3 (noDup_append_left (noDup_append_right hd))
    have hrest := loopPairs_fit hk hv n r3 l5 tl r5 h5 (noDup_append_left (noDup_append_right (noDup_append_right hd)))
    simp only [fitsM, Bool.and_eq_true, List.length_cons]
    exact ⟨⟨ha, hb, hrest.1⟩, by omega⟩

theorem fits_map (ob : Option Nat) (k v : BTy) (kvs : List (Val × Val)) :
    fits (.map ob k v) (.map kvs) = (leB kvs.length ob && fitsM k v kvs) := by simp [fits]
theorem fits_mapNil (ob : Option Nat) (k v : BTy) : fits (.map ob k v) .mapNil = true := by simp [fits]

theorem decMap_fit (ob : Option Nat) {k v : BTy} {fk fv : D} (hk : DFit k fk) (hv : DFit v fv) :
    DFit (.map ob k v) (decMap ob fk fv (zero k) (zero v)) := by
  intro bs l x r h hd
  simp only [zero] at h
  unfold decMap at h
  obtain ⟨l1, a, r1, l2, h1, h2, rfl⟩ := bind_ok h
  rcases a with ⟨n, isnil⟩
  simp only at h2
  split at h2
  · exact (fail_not_ok h2).elim
  · next hov =>
    split at h2
    · obtain ⟨_, rfl, _⟩ := pure_ok h2
      exact fits_mapNil ob k v
    · obtain ⟨l3, u, r3, l4, h3, h4, rfl⟩ := bind_ok h2
      obtain ⟨l5, kvs, r5, l6, h5, h6, rfl⟩ := bind_ok h4
      obtain ⟨_, rfl, _⟩ := pure_ok h6
      have := loopPairs_fit hk hv n r3 l5 kvs r5 h5 (noDup_append_left (noDup_append_right (noDup_append_right hd)))
      rw [fits_map]
      simp only [Bool.and_eq_true]
      exact ⟨by rw [this.2]; exact over_false_leB hov, this.1⟩

theorem fits_ptr (e : BTy) (v : Val) : fits (.ptr e) (.ptr v) = fits e v := by simp [fits]
theorem fits_ptrNil (e : BTy) : fits (.ptr e) .ptrNil = true := by simp [fits]

theorem decPtr_fit {e : BTy} {f : D} (hf : DFit e f) : DFit (.ptr e) (decPtr f (zero e)) := by
  intro bs l v r h hd
  simp only [zero] at h
  unfold decPtr at h
  simp only [ptrOld] at h
  split at h
  · next b t =>
    split at h
    · simp only [Prod.mk.injEq, Except.ok.injEq] at h
      obtain ⟨_, rfl, _⟩ := h
      exact fits_ptrNil e
    · split at h
      · next l' v' t' hx =>
        simp only [Prod.mk.injEq, Except.ok.injEq] at h
        obtain ⟨rfl, rfl, _⟩ := h
        rw [fits_ptr]
        exact hf _ _ _ _ hx hd
      · simp at h
  · split at h
    · next l' v' t' hx =>
      simp only [Prod.mk.injEq, Except.ok.injEq] at h
      obtain ⟨rfl, rfl, _⟩ := h
      rw [fits_ptr]
      exact hf _ _ _ _ hx hd
    · simp at h

theorem postCheck_ok {m : Nat} {p : P Val} {bs : Bytes} {l : Log} {v : Val} {r : Bytes}
    (h : postCheck m p bs = (l, .ok (v, r))) : p bs = (l, .ok (v, r)) := by
  unfold postCheck at h
  obtain ⟨l1, a, r1, l2, h1, h2, rfl⟩ := bind_ok h
  have : l2 = [] ∧ a = v ∧ r1 = r := by
    split at h2
    · split at h2
      · exact pure_ok h2
      · exact (fail_not_ok h2).elim
    · exact pure_ok h2
  obtain ⟨rfl, rfl, rfl⟩ := this
  simpa using h1


/-! ## structs -/

def tyAt : List BField → Nat → Option BTy
  | [], _ => none
  | (_, _, t) :: _, 0 => some t
  | _ :: fs, j+1 => tyAt fs j

theorem tyAt_lt : ∀ {fs : List BField} {j : Nat} {t : BTy}, tyAt fs j = some t → j < fs.length
  | [], _, _, h => by simp [tyAt] at h
  | _ :: _, 0, _, _ => by simp
  | _ :: fs, j+1, t, h => by
    have := tyAt_lt (fs := fs) (j := j) (t := t) (by simpa [tyAt] using h)
    simp; omega

theorem length_zeroFs : ∀ fs : List BField, (zeroFs fs).length = fs.length
  | [] => rfl
  | (_, _, _) :: fs => by simp [zeroFs, length_zeroFs fs]

theorem nthOr_zeroFs (x : Val) : ∀ {fs : List BField} {j : Nat} {t : BTy}, tyAt fs j = some t → nthOr x (zeroFs fs) j = zero t
  | [], _, _, h => by simp [tyAt] at h
  | (_, _, t') :: _, 0, t, h => by
    simp only [tyAt, Option.some.injEq] at h; subst h; simp [zeroFs, nthOr]
  | (_, _, _) :: fs, j+1, t, h => by
    simp only [tyAt] at h
    simp only [zeroFs, nthOr]
    exact nthOr_zeroFs x h

theorem length_setNth (v : Val) : ∀ (cur : List Val) (i : Nat), (setNth v cur i).length = cur.length
  | [], _ => rfl
  | _ :: _, 0 => by simp [setNth]
  | _ :: vs, i+1 => by simp [setNth, length_setNth v vs i]

theorem nthOr_setNth_same (x v : Val) : ∀ (cur : List Val) (i : Nat), i < cur.length → nthOr x (setNth v cur i) i = v
  | [], _, h => by simp at h
  | _ :: _, 0, _ => by simp [setNth, nthOr]
  | _ :: vs, i+1, h => by
    simp only [setNth, nthOr]
    exact nthOr_setNth_same x v vs i (by simpa using h)

theorem nthOr_setNth_ne (x v : Val) : ∀ (cur : List Val) (i j : Nat), i ≠ j → nthOr x (setNth v cur i) j = nthOr x cur j
  | [], _, _, _ => rfl
  | _ :: _, 0, 0, h => absurd rfl h
  | _ :: _, 0, j+1, _ => by simp [setNth, nthOr]
  | _ :: _, i+1, 0, _ => by simp [setNth, nthOr]
  | _ :: vs, i+1, j+1, h => by
    simp only [setNth, nthOr]
    exact nthOr_setNth_ne x v vs i j (by omega)

theorem fitsF_pointwise (x : Val) : ∀ (fs : List BField) (cur : List Val), cur.length = fs.length →
    (∀ j t, tyAt fs j = some t → fits t (nthOr x cur j) = true) → fitsF fs cur = true
  | [], cur, _, _ => by cases cur <;> simp [fitsF]
  | (_, _, t) :: fs, [], h, _ => by simp at h
  | (nm, rq, t) :: fs, v :: vs, hl, h => by
    simp only [fitsF, Bool.and_eq_true]
    refine ⟨by simpa [tyAt, nthOr] using h 0 t (by simp [tyAt]), ?_⟩
    refine fitsF_pointwise x fs vs (by simpa using hl) ?_
    intro j t' hj
    have := h (j + 1) t' (by simpa [tyAt] using hj)
    simpa [nthOr] using this

/-- the decoder `findField` returns is the decoder of the field's type, and the index is the field's position -/
theorem findField_decFs {key : Bytes} {d : Nat} : ∀ {fs : List BField} {k i : Nat} {f : D},
    findField key (decFs fs d) k = some (i, f) → ∃ j t, i = k + j ∧ tyAt fs j = some t ∧ f = dec t d
  | [], _, _, _, h => by simp [decFs, findField] at h
  | (nm, rq, t) :: fs, k, i, f, h => by
    simp only [decFs, findField] at h
    split at h
    · simp only [Option.some.injEq, Prod.mk.injEq] at h
      obtain ⟨rfl, rfl⟩ := h
      exact ⟨0, t, rfl, by simp [tyAt], rfl⟩
    · obtain ⟨j, t', hi, ht, hf⟩ := findField_decFs h
      exact ⟨j + 1, t', by omega, by simpa [tyAt] using ht, hf⟩

/-- state of the map-form loop on a run without a repeated key: decoded fields fit, the others are still zero -/
def Good (fs : List BField) (seen : List Nat) (cur : List Val) : Prop :=
  cur.length = fs.length ∧
  ∀ j t, tyAt fs j = some t →
    (seen.contains j = true → fits t (nthOr .bytesNil cur j) = true) ∧
    (seen.contains j = false → nthOr .bytesNil cur j = zero t)

theorem good_start (fs : List BField) : Good fs [] (zeroFs fs) :=
  ⟨length_zeroFs fs, fun j t h => ⟨by intro hc; simp at hc, fun _ => nthOr_zeroFs _ h⟩⟩

theorem good_fitsF {fs : List BField} {seen : List Nat} {cur : List Val} (h : Good fs seen cur) : fitsF fs cur = true := by
  refine fitsF_pointwise .bytesNil fs cur h.1 ?_
  intro j t hj
  cases hc : seen.contains j with
  | true => exact (h.2 j t hj).1 hc
  | false => rw [(h.2 j t hj).2 hc]; exact fits_zero t

theorem loopKeys_fit {fs : List BField} {d : Nat} (ih : ∀ j t, tyAt fs j = some t → DFit t (dec t d)) :
    ∀ (n : Nat) (seen : List Nat) (cur : List Val) (bs : Bytes) (l : Log) (out : List Val) (r : Bytes),
      Good fs seen cur → loopKeys (decFs fs d) .bytesNil n seen cur bs = (l, .ok (out, r)) → noDup l = true →
      ∃ seen', Good fs seen' out
  | 0, seen, cur, bs, l, out, r, hg, h, _ => by
    unfold loopKeys at h
    obtain ⟨_, rfl, _⟩ := pure_ok h
    exact ⟨seen, hg⟩
  | n+1, seen, cur, bs, l, out, r, hg, h, hd => by
    unfold loopKeys at h
    obtain ⟨l1, key, r1, l2, h1, h2, rfl⟩ := bind_ok h
    cases hfind : findField key (decFs fs d) 0 with
    | none => rw [hfind] at h2; exact (fail_not_ok h2).elim
    | some p =>
      rcases p with ⟨i, f⟩
      rw [hfind] at h2
      simp only at h2
      obtain ⟨j, t, hi, ht, rfl⟩ := findField_decFs hfind
      simp only [Nat.zero_add] at hi
      subst hi
      obtain ⟨l3, u, r3, l4, h3, h4, rfl⟩ := bind_ok h2
      obtain ⟨l5, v, r5, l6, h5, h6, rfl⟩ := bind_ok h4
      have hd2 := noDup_append_right hd
      have hd3 := noDup_append_left hd2
      have hd4 := noDup_append_right hd2
      -- the key was not seen before: otherwise the ghost `.dup` is in the log
      have hns : seen.contains i = false := by
        cases hc : seen.contains i with
        | false => rfl
        | true =>
          rw [hc] at h3
          simp only [if_true, P.note, Prod.mk.injEq] at h3
          rw [← h3.1] at hd3
          simp [noDup] at hd3
      have hr3 : r3 = r1 := by
        rw [hns] at h3
        simp only [Bool.false_eq_true, if_false] at h3
        exact (pure_ok h3).2.2.symm
      subst hr3
      have hz := (hg.2 i t ht).2 hns
      rw [hz] at h5
      have hv := ih i t ht _ _ _ _ h5 (noDup_append_left hd4)
      have hlt : i < cur.length := by rw [hg.1]; exact tyAt_lt ht
      refine loopKeys_fit ih n (i :: seen) (setNth v cur i) r5 l6 out r ?_ h6 (noDup_append_right hd4)
      refine ⟨by rw [length_setNth]; exact hg.1, ?_⟩
      intro j' t' hj'
      by_cases hij : i = j'
      · subst hij
        have : t' = t := by rw [ht] at hj'; exact (Option.some.inj hj').symm
        subst this
        refine ⟨fun _ => by rw [nthOr_setNth_same _ _ _ _ hlt]; exact hv, ?_⟩
        intro hc; simp at hc
      · have hc : (i :: seen).contains j' = seen.contains j' := by
          simp only [List.contains_cons]
          have : (j' == i) = false := by simp; omega
          rw [this]; simp
        rw [hc, nthOr_setNth_ne _ _ _ _ _ hij]
        exact hg.2 j' t' hj'

/-- state of the array-form chain: the fields before `i` are decoded and fit, the others are still zero -/
def GoodSeq (fs : List BField) (i : Nat) (cur : List Val) : Prop :=
  cur.length = fs.length ∧
  ∀ j t, tyAt fs j = some t →
    (j < i → fits t (nthOr .bytesNil cur j) = true) ∧ (i ≤ j → nthOr .bytesNil cur j = zero t)

theorem goodSeq_fitsF {fs : List BField} {i : Nat} {cur : List Val} (h : GoodSeq fs i cur) : fitsF fs cur = true := by
  refine fitsF_pointwise .bytesNil fs cur h.1 ?_
  intro j t hj
  by_cases hlt : j < i
  · exact (h.2 j t hj).1 hlt
  · rw [(h.2 j t hj).2 (by omega)]; exact fits_zero t

theorem tyAt_drop : ∀ {fs : List BField} {i : Nat} {nm : Bytes} {rq : Bool} {t : BTy} {rest : List BField},
    fs.drop i = (nm, rq, t) :: rest → tyAt fs i = some t ∧ fs.drop (i + 1) = rest
  | [], i, _, _, _, _, h => by simp at h
  | f :: fs, 0, nm, rq, t, rest, h => by
    simp only [List.drop_zero, List.cons.injEq] at h
    obtain ⟨rfl, rfl⟩ := h
    simp [tyAt]
  | f :: fs, i+1, nm, rq, t, rest, h => by
    simp only [List.drop_succ_cons] at h
    have := tyAt_drop h
    rcases f with ⟨a, b, c⟩
    simpa [tyAt] using this

theorem seqFields_fit {fs : List BField} {d : Nat} (ih : ∀ j t, tyAt fs j = some t → DFit t (dec t d)) :
    ∀ (sfx : List BField) (i k : Nat) (cur : List Val) (bs : Bytes) (l : Log) (left : Nat) (out : List Val) (r : Bytes),
      fs.drop i = sfx → GoodSeq fs i cur → seqFields (decFs sfx d) i k cur bs = (l, .ok ((left, out), r)) → noDup l = true →
      ∃ i', GoodSeq fs i' out
  | [], i, k, cur, bs, l, left, out, r, _, hg, h, _ => by
    simp only [decFs] at h
    unfold seqFields at h
    obtain ⟨_, hh, _⟩ := pure_ok h
    simp only [Prod.mk.injEq] at hh
    obtain ⟨_, rfl⟩ := hh
    exact ⟨i, hg⟩
  | (nm, rq, t) :: rest, i, k, cur, bs, l, left, out, r, hs, hg, h, hd => by
    simp only [decFs] at h
    unfold seqFields at h
    split at h
    · obtain ⟨_, hh, _⟩ := pure_ok h
      simp only [Prod.mk.injEq] at hh
      obtain ⟨_, rfl⟩ := hh
      exact ⟨i, hg⟩
    · next k' =>
      obtain ⟨l1, v, r1, l2, h1, h2, rfl⟩ := bind_ok h
      obtain ⟨ht, hrest⟩ := tyAt_drop hs
      have hz := (hg.2 i t ht).2 (Nat.le_refl _)
      rw [hz] at h1
      have hv := ih i t ht _ _ _ _ h1 (noDup_append_left hd)
      have hlt : i < cur.length := by rw [hg.1]; exact tyAt_lt ht
      refine seqFields_fit ih rest (i + 1) k' (setNth v cur i) r1 l2 left out r hrest ?_ h2 (noDup_append_right hd)
      refine ⟨by rw [length_setNth]; exact hg.1, ?_⟩
      intro j' t' hj'
      by_cases hij : i = j'
      · subst hij
        have : t' = t := by rw [ht] at hj'; exact (Option.some.inj hj').symm
        subst this
        exact ⟨fun _ => by rw [nthOr_setNth_same _ _ _ _ hlt]; exact hv, fun hle => by omega⟩
      · rw [nthOr_setNth_ne _ _ _ _ _ hij]
        have := hg.2 j' t' hj'
        exact ⟨fun hlt' => this.1 (by omega), fun hle => this.2 (by omega)⟩

theorem fits_struct (fs : List BField) (vs : List Val) : fits (.struct fs) (.struct vs) = fitsF fs vs := by simp [fits]

theorem decStruct_fit {fs : List BField} {d : Nat} (ih : ∀ j t, tyAt fs j = some t → DFit t (dec t d)) :
    DFit (.struct fs) (decStruct (decFs fs d) (zeroFs fs)) := by
  intro bs l v r h hd
  simp only [zero] at h
  unfold decStruct at h
  simp only [if_true] at h
  obtain ⟨l1, hdr, r1, l2, h1, h2, rfl⟩ := bind_ok h
  obtain ⟨l3, cur, r3, l4, h3, h4, rfl⟩ := bind_ok h2
  have hcur : fitsF fs cur = true := by
    cases hdr with
    | mapForm n isnil =>
      simp only [ite_self] at h3
      obtain ⟨seen', hg⟩ := loopKeys_fit ih n [] (zeroFs fs) r1 l3 cur r3 (good_start fs) h3
        (noDup_append_left (noDup_append_right hd))
      exact good_fitsF hg
    | arrForm n =>
      simp only at h3
      obtain ⟨l5, a, r5, l6, h5, h6, rfl⟩ := bind_ok h3
      rcases a with ⟨left, cur'⟩
      have hstart : GoodSeq fs 0 (zeroFs fs) :=
        ⟨length_zeroFs fs, fun j t hj => ⟨fun hlt => by omega, fun _ => nthOr_zeroFs _ hj⟩⟩
      obtain ⟨i', hg⟩ := seqFields_fit ih fs 0 n (zeroFs fs) r1 l5 left cur' r5 (by simp) hstart h5
        (noDup_append_left (noDup_append_left (noDup_append_right hd)))
      simp only at h6
      split at h6
      · exact (fail_not_ok h6).elim
      · obtain ⟨_, rfl, _⟩ := pure_ok h6
        exact goodSeq_fitsF hg
  split at h4
  · obtain ⟨_, rfl, _⟩ := pure_ok h4
    rw [fits_struct]; exact hcur
  · exact (fail_not_ok h4).elim

/-! ## the decoder -/

mutual
theorem dec_fit : ∀ (ty : BTy) (d : Nat), DFit ty (dec ty d)
  | .bool, d => by intro bs l v r _ _; exact fits_bool v
  | .uint n, d => by intro bs l v r _ _; exact fits_uint n v
  | .int n, d => by intro bs l v r _ _; exact fits_int n v
  | .str ob, d => by intro bs l v r h _; unfold dec at h; exact decStr_fit ob h
  | .bytes ob, d => by intro bs l v r h _; unfold dec at h; exact decBytes_fit ob h
  | .fixedBytes n, d => by intro bs l v r _ _; exact fits_fixed n v
  | .slice ob e, d => by unfold dec; exact decSlice_fit ob (dec_fit e d)
  | .array n e, d => by unfold dec; exact decArray_fit n (dec_fit e d)
  | .map ob k v, d => by unfold dec; exact decMap_fit ob (dec_fit k d) (dec_fit v d)
  | .ptr e, d => by unfold dec; exact decPtr_fit (dec_fit e d)
  | .named b, 0 => by intro bs l v r h _; unfold dec at h; exact (fail_not_ok h).elim
  | .named b, d+1 => by
    intro bs l v r h hd
    unfold dec at h
    rw [fits_named]
    simp only [zero] at h
    exact dec_fit b d bs l v r h hd
  | .post m b, d => by
    intro bs l v r h hd
    unfold dec at h
    rw [fits_post]
    simp only [zero] at h
    exact dec_fit b d bs l v r (postCheck_ok h) hd
  | .struct fs, d => by unfold dec; exact decStruct_fit (decFs_fit fs d)
  | .cut, d => by intro bs l v r _ _; exact fits_cut v
theorem decFs_fit : ∀ (fs : List BField) (d : Nat), ∀ j t, tyAt fs j = some t → DFit t (dec t d)
  | [], d, j, t, h => by simp [tyAt] at h
  | (nm, rq, t') :: fs, d, 0, t, h => by
    simp only [tyAt, Option.some.injEq] at h
    subst h
    exact dec_fit t' d
  | (nm, rq, t') :: fs, d, j+1, t, h => by
    simp only [tyAt] at h
    exact decFs_fit fs d j t h
end

end AlgoVerif.BoundedDecoder
