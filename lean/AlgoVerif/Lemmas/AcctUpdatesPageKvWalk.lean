import AlgoVerif.Lemmas.AcctUpdatesPageKvOrd
import AlgoVerif.Lemmas.AcctUpdatesLookup
/-! C10 (model pages): "walk the deltas backwards, the first value seen for a key wins" — the generic collection loop of
`LookupKvPairsByPrefix` / `lookupAssetResources` / `lookupApplicationResources`, and the box instance: the collected map holds,
for every key in range, exactly the most recent in-memory modification. Core Lean only. -/
namespace AlgoVerif.Lemmas.PageKv
open AlgoVerif.Spec.LedgerHistory AlgoVerif.Model.AcctUpdates AlgoVerif.Lemmas.Pages AlgoVerif.Lemmas.AcctUpdates

section firstWins
variable {K V : Type} [DecidableEq K]

/-- `if _, ok := m[k]; !ok { m[k] = v }` -/
def fwStep (acc : AMap K V) (p : K × V) : AMap K V := if (AMap.get acc p.1).isSome then acc else acc ++ [p]

theorem get_append_one (acc : AMap K V) (k : K) (v : V) (k' : K) :
    AMap.get (acc ++ [(k, v)]) k' = (AMap.get acc k').or (if k = k' then some v else none) := by
  induction acc with
  | nil => simp [get_cons]
  | cons p t ih =>
    obtain ⟨k0, v0⟩ := p
    simp only [List.cons_append, get_cons]
    split
    · rfl
    · exact ih

omit [DecidableEq K] in
theorem keys_append_one (acc : AMap K V) (p : K × V) : AMap.keys (acc ++ [p]) = AMap.keys acc ++ [p.1] := by
  simp [AMap.keys]

theorem fw_get (cands : List (K × V)) (acc : AMap K V) (k : K) :
    AMap.get (cands.foldl fwStep acc) k = (AMap.get acc k).or ((cands.find? (fun p => decide (p.1 = k))).map (·.2)) := by
  induction cands generalizing acc with
  | nil => simp
  | cons p t ih =>
    simp only [List.foldl_cons, List.find?_cons]
    rw [ih]
    unfold fwStep
    by_cases hs : (AMap.get acc p.1).isSome = true
    · simp only [hs, if_true]
      by_cases hk : p.1 = k
      · subst hk
        cases hg : AMap.get acc p.1 with
        | none => rw [hg] at hs; simp at hs
        | some v => simp
      · have : decide (p.1 = k) = false := by simp [hk]
        simp only [this]
    · simp only [hs, Bool.false_eq_true, if_false]
      obtain ⟨pk, pv⟩ := p
      rw [get_append_one]
      by_cases hk : pk = k
      · subst hk
        have hn : AMap.get acc pk = none := by simpa using hs
        simp [hn]
      · simp only [hk, if_false]
        cases AMap.get acc k <;> simp

theorem fw_nodup (cands : List (K × V)) (acc : AMap K V) (h : (AMap.keys acc).Nodup) :
    (AMap.keys (cands.foldl fwStep acc)).Nodup := by
  induction cands generalizing acc with
  | nil => exact h
  | cons p t ih =>
    simp only [List.foldl_cons]
    apply ih
    unfold fwStep
    by_cases hs : (AMap.get acc p.1).isSome = true
    · simp only [hs, if_true]; exact h
    · simp only [hs, Bool.false_eq_true, if_false]
      rw [keys_append_one, List.nodup_append]
      refine ⟨h, by simp, ?_⟩
      intro a ha b hb
      simp at hb; subst hb
      intro e; subst e
      exact hs (get_isSome_of_mem_keys ha)

/-- the whole walk: every round contributes its candidates, most recent round first -/
theorem fw_rounds_get {D : Type} (cands : D → List (K × V)) (rounds : List D) (acc : AMap K V) (k : K) :
    AMap.get (rounds.foldl (fun acc d => (cands d).foldl fwStep acc) acc) k =
      (AMap.get acc k).or (rounds.findSome? (fun d => ((cands d).find? (fun p => decide (p.1 = k))).map (·.2))) := by
  induction rounds generalizing acc with
  | nil => simp
  | cons d t ih =>
    simp only [List.foldl_cons, List.findSome?_cons]
    rw [ih, fw_get]
    cases AMap.get acc k with
    | some v => simp
    | none =>
      simp only [Option.none_or]
      cases ((cands d).find? (fun p => decide (p.1 = k))).map (·.2) <;> simp

theorem fw_rounds_nodup {D : Type} (cands : D → List (K × V)) (rounds : List D) (acc : AMap K V) (h : (AMap.keys acc).Nodup) :
    (AMap.keys (rounds.foldl (fun acc d => (cands d).foldl fwStep acc) acc)).Nodup := by
  induction rounds generalizing acc with
  | nil => exact h
  | cons d t ih => simp only [List.foldl_cons]; exact ih _ (fw_nodup _ _ h)

theorem get_isSome_iff_mem_keys (m : AMap K V) (k : K) : (AMap.get m k).isSome = true ↔ k ∈ AMap.keys m := by
  constructor
  · intro h
    cases hg : AMap.get m k with
    | none => rw [hg] at h; simp at h
    | some v => exact mem_keys_of_get_some hg
  · exact get_isSome_of_mem_keys

theorem mem_iff_get_of_nodup {m : AMap K V} (hn : (AMap.keys m).Nodup) (k : K) (v : V) : (k, v) ∈ m ↔ AMap.get m k = some v :=
  ⟨get_of_mem_nodup hn, get_some_mem⟩

end firstWins

/-! ### the box walk -/

/-- the in-range modifications of one round, as (key, data) candidates -/
def kvCands (pfx cursor : Key) (d : Delta) : List (Key × Option Bytes) :=
  (d.kvs.filter (fun m => hasPrefix pfx m.key && keyLt cursor m.key)).map (fun m => (m.key, m.data))

/-- the delta walk of `LookupKvPairsByPrefix`, verbatim from the model -/
def kvWalk (pfx cursor : Key) (ds : List Delta) : AMap Key (Option Bytes) :=
  ds.reverse.foldl (fun acc d =>
    d.kvs.foldl (fun acc m =>
      if !hasPrefix pfx m.key then acc
      else if !keyLt cursor m.key then acc
      else if (AMap.get acc m.key).isSome then acc
      else acc ++ [(m.key, m.data)]) acc) []

theorem kvInner_eq (pfx cursor : Key) (kvs : List KvMod) (acc : AMap Key (Option Bytes)) :
    kvs.foldl (fun acc m =>
      if !hasPrefix pfx m.key then acc
      else if !keyLt cursor m.key then acc
      else if (AMap.get acc m.key).isSome then acc
      else acc ++ [(m.key, m.data)]) acc =
    ((kvs.filter (fun m => hasPrefix pfx m.key && keyLt cursor m.key)).map (fun m => (m.key, m.data))).foldl fwStep acc := by
  induction kvs generalizing acc with
  | nil => rfl
  | cons m t ih =>
    simp only [List.foldl_cons, List.filter_cons]
    by_cases h1 : hasPrefix pfx m.key = true
    · by_cases h2 : keyLt cursor m.key = true
      · simp only [h1, h2, Bool.not_true, Bool.false_eq_true, if_false, Bool.and_self, if_true, List.map_cons, List.foldl_cons]
        rw [ih]; rfl
      · have h2' : keyLt cursor m.key = false := by simpa using h2
        simp only [h1, h2', Bool.not_true, Bool.false_eq_true, if_false, Bool.not_false, if_true, Bool.and_false]
        exact ih acc
    · have h1' : hasPrefix pfx m.key = false := by simpa using h1
      simp only [h1', Bool.not_false, if_true, Bool.false_and, Bool.false_eq_true, if_false]
      exact ih acc

theorem kvWalk_eq (pfx cursor : Key) (ds : List Delta) :
    kvWalk pfx cursor ds = ds.reverse.foldl (fun acc d => (kvCands pfx cursor d).foldl fwStep acc) [] := by
  unfold kvWalk kvCands
  congr 1
  funext acc d
  exact kvInner_eq pfx cursor d.kvs acc

theorem kvCands_find (pfx cursor : Key) (d : Delta) (k : Key) :
    ((kvCands pfx cursor d).find? (fun p => decide (p.1 = k))).map (·.2) =
      if hasPrefix pfx k && keyLt cursor k then d.kv? k else none := by
  unfold kvCands Delta.kv? Delta.kvMod?
  induction d.kvs with
  | nil => simp
  | cons m t ih =>
    simp only [List.filter_cons, List.find?_cons]
    by_cases hk : m.key = k
    · subst hk
      by_cases hr : (hasPrefix pfx m.key && keyLt cursor m.key) = true
      · simp [hr]
      · have hr' : (hasPrefix pfx m.key && keyLt cursor m.key) = false := by simpa using hr
        simp only [hr', Bool.false_eq_true, if_false] at ih ⊢
        exact ih
    · have hne : (m.key == k) = false := by simp [hk]
      have hne' : decide (m.key = k) = false := by simp [hk]
      simp only [hne]
      by_cases hr : (hasPrefix pfx m.key && keyLt cursor m.key) = true
      · simp only [hr, if_true, List.map_cons, List.find?_cons, hne']
        exact ih
      · simp only [hr]
        exact ih

theorem findSome?_if {α β : Type} (l : List α) (b : Bool) (f : α → Option β) :
    l.findSome? (fun d => if b then f d else none) = if b then l.findSome? f else none := by
  cases b with
  | true => simp
  | false =>
    simp only [Bool.false_eq_true, if_false]
    induction l with
    | nil => rfl
    | cons a t ih => simp [ih]

/-- the collected map: for a key with the prefix and after the cursor, the most recent in-memory modification below the
    queried round; nothing for any other key -/
theorem kvWalk_get (pfx cursor : Key) (ds : List Delta) (off : Nat) (k : Key) :
    AMap.get (kvWalk pfx cursor (ds.take off)) k =
      if hasPrefix pfx k && keyLt cursor k then walkBack (·.kv? k) ds off else none := by
  rw [kvWalk_eq, fw_rounds_get]
  simp only [get_nil, Option.none_or]
  simp only [kvCands_find]
  rw [findSome?_if]
  rfl

theorem kvWalk_nodup (pfx cursor : Key) (ds : List Delta) : (AMap.keys (kvWalk pfx cursor ds)).Nodup := by
  rw [kvWalk_eq]
  exact fw_rounds_nodup _ _ _ (by simp [AMap.keys])

/-- the value of the history at a served round: the walk's answer when it has one, else the DB row -/
theorem kvAt_walk (ct : Cidx → CType) (σ : State) (h : Inv ct σ) (pfx cursor : Key) (off : Nat) (hoff : off ≤ σ.deltas.length)
    (k : Key) (hr : (hasPrefix pfx k && keyLt cursor k) = true) :
    kvAt σ.hist (σ.dbRound + off) k =
      match AMap.get (kvWalk pfx cursor (σ.deltas.take off)) k with
      | some x => x
      | none => AMap.get σ.db.kvs k := by
  rw [kvWalk_get, if_pos hr, h.dbK k]
  unfold kvAt History.upTo
  rw [lastIn_split _ σ.hist.blocks σ.deltas σ.dbRound off h.pre hoff]
  cases walkBack (fun d => d.kv? k) σ.deltas off <;> rfl

theorem kvAt_mem_keys (h : History) (rnd : Nat) (k : Key) (v : Bytes) (hv : kvAt h rnd k = some v) : k ∈ h.kvKeys := by
  unfold kvAt at hv
  cases hl : lastIn (fun d => d.kv? k) (h.upTo rnd) with
  | none => rw [hl] at hv; simp at hv
  | some x =>
    obtain ⟨d, hd, hf⟩ := lastIn_mem _ _ _ hl
    unfold Delta.kv? Delta.kvMod? at hf
    cases hfind : d.kvs.find? (fun m => m.key == k) with
    | none => rw [hfind] at hf; simp at hf
    | some m =>
      have hm := List.mem_of_find?_eq_some hfind
      have hk := List.find?_some hfind
      simp only [beq_iff_eq] at hk
      unfold History.kvKeys
      rw [List.mem_flatMap]
      exact ⟨d, List.mem_of_mem_take hd, by rw [List.mem_map]; exact ⟨m, hm, hk⟩⟩

end AlgoVerif.Lemmas.PageKv
