/-
Helper lemmas for C39 about `Model.StateProof`: cumulative signature slots, the `coinIndex` binary search,
`commitSigs`, `slotLeaves`, the prover's reveal loop and the verifier's coin loop.
-/
import AlgoVerif.Model.StateProof
namespace AlgoVerif.Lemmas.StateProof
open AlgoVerif.Model.StateProof AlgoVerif.Model.StateProofWeights

variable {S : Type}

/-! ### prefix sums of slot weights -/

/-- total weight of the slots -/
def totalW (sigs : List (SigSlot S)) : Nat := (sigs.map (·.weight)).sum

/-- weight of the slots before position i -/
def pre (sigs : List (SigSlot S)) (i : Nat) : Nat := totalW (sigs.take i)

theorem pre_zero (sigs : List (SigSlot S)) : pre sigs 0 = 0 := by simp [pre, totalW]

theorem pre_cons_succ (x : SigSlot S) (xs : List (SigSlot S)) (i : Nat) :
    pre (x :: xs) (i + 1) = x.weight + pre xs i := by
  simp [pre, totalW]

theorem pre_succ (sigs : List (SigSlot S)) (i : Nat) (sl : SigSlot S) (h : sigs[i]? = some sl) :
    pre sigs (i + 1) = pre sigs i + sl.weight := by
  induction sigs generalizing i with
  | nil => simp at h
  | cons x xs ih =>
    cases i with
    | zero => simp at h; subst h; simp [pre, totalW]
    | succ k =>
      simp at h
      rw [pre_cons_succ, pre_cons_succ, ih k h]; omega

theorem pre_mono (sigs : List (SigSlot S)) {i j : Nat} (h : i ≤ j) : pre sigs i ≤ pre sigs j := by
  induction sigs generalizing i j with
  | nil => simp [pre, totalW]
  | cons x xs ih =>
    cases i with
    | zero => simp [pre_zero]
    | succ a =>
      cases j with
      | zero => omega
      | succ c => rw [pre_cons_succ, pre_cons_succ]; have := ih (i := a) (j := c) (by omega); omega

theorem pre_length (sigs : List (SigSlot S)) : pre sigs sigs.length = totalW sigs := by
  simp [pre]

theorem pre_ge_length (sigs : List (SigSlot S)) {i : Nat} (h : sigs.length ≤ i) : pre sigs i = totalW sigs := by
  simp [pre, List.take_of_length_le h]

theorem pre_le_total (sigs : List (SigSlot S)) (i : Nat) : pre sigs i ≤ totalW sigs := by
  by_cases h : i ≤ sigs.length
  · rw [← pre_length]; exact pre_mono sigs h
  · rw [pre_ge_length sigs (by omega)]; exact Nat.le_refl _

/-! ### cumulative slots -/

/-- `L` of every slot is `l` plus the weight of the slots before it -/
def Cum : Nat → List (SigSlot S) → Prop
  | _, [] => True
  | l, x :: xs => x.commit.L = l ∧ Cum (l + x.weight) xs

theorem cum_get {l : Nat} {sigs : List (SigSlot S)} (hc : Cum l sigs) {i : Nat} {sl : SigSlot S}
    (h : sigs[i]? = some sl) : sl.commit.L = l + pre sigs i := by
  induction sigs generalizing l i with
  | nil => simp at h
  | cons x xs ih =>
    cases i with
    | zero => simp at h; subst h; simp [pre_zero]; exact hc.1
    | succ k =>
      simp at h
      rw [pre_cons_succ, ih hc.2 h]; omega

/-- **A coin determines its slot**: the intervals `[pre p, pre (p+1))` are pairwise disjoint. -/
theorem slot_unique (sigs : List (SigSlot S)) {p q c : Nat}
    (hp : pre sigs p ≤ c ∧ c < pre sigs (p + 1)) (hq : pre sigs q ≤ c ∧ c < pre sigs (q + 1)) : p = q := by
  rcases Nat.lt_trichotomy p q with h | h | h
  · have := pre_mono sigs (i := p + 1) (j := q) (by omega); omega
  · exact h
  · have := pre_mono sigs (i := q + 1) (j := p) (by omega); omega

/-! ### coinIndex -/

theorem coinIndexLoop_spec (sigs : List (SigSlot S)) (hc : Cum 0 sigs) (hb : totalW sigs < two64) (coin : Nat) :
    ∀ (fuel lo hi : Nat), hi ≤ sigs.length → pre sigs lo ≤ coin → coin < pre sigs hi → hi - lo < fuel →
      ∃ p, coinIndexLoop sigs coin fuel lo hi = .ok p ∧ lo ≤ p ∧ p < hi ∧ pre sigs p ≤ coin ∧ coin < pre sigs (p + 1) := by
  intro fuel
  induction fuel with
  | zero => intro lo hi _ _ _ h; omega
  | succ f ih =>
    intro lo hi hhi hlo hco hf
    have hlt : lo < hi := by
      apply Nat.lt_of_not_le
      intro hge
      have := pre_mono sigs (i := hi) (j := lo) hge; omega
    unfold coinIndexLoop
    rw [if_neg (by omega)]
    have hmid : (lo + hi) / 2 < sigs.length := by omega
    obtain ⟨sl, hsl⟩ : ∃ sl, sigs[(lo + hi) / 2]? = some sl := ⟨sigs[(lo + hi) / 2], by simp [hmid]⟩
    simp only [hsl]
    have hL : sl.commit.L = pre sigs ((lo + hi) / 2) := by simpa using cum_get hc hsl
    have hnext := pre_succ sigs _ sl hsl
    have htot := pre_le_total sigs ((lo + hi) / 2 + 1)
    by_cases h1 : coin < sl.commit.L
    · rw [if_pos h1]
      obtain ⟨p, hp, h2, h3, h4⟩ := ih lo ((lo + hi) / 2) (by omega) hlo (by omega) (by omega)
      exact ⟨p, hp, h2, by omega, h4⟩
    · rw [if_neg h1]
      have hmod : (sl.commit.L + sl.weight) % two64 = pre sigs ((lo + hi) / 2 + 1) := by
        rw [Nat.mod_eq_of_lt (by omega)]; omega
      rw [hmod]
      by_cases h2 : coin < pre sigs ((lo + hi) / 2 + 1)
      · rw [if_pos h2]
        exact ⟨(lo + hi) / 2, rfl, by omega, by omega, by omega, h2⟩
      · rw [if_neg h2]
        obtain ⟨p, hp, h3, h4, h5⟩ := ih ((lo + hi) / 2 + 1) hi hhi (by omega) hco (by omega)
        exact ⟨p, hp, by omega, h4, h5⟩

/-- **coinIndex search lemma**: on cumulative slots (total weight below 2^64) every coin below the total weight is
mapped to the slot whose interval contains it. -/
theorem coinIndex_spec (sigs : List (SigSlot S)) (hc : Cum 0 sigs) (hb : totalW sigs < two64) (coin : Nat)
    (hcoin : coin < totalW sigs) :
    ∃ p, coinIndex sigs coin = .ok p ∧ p < sigs.length ∧ pre sigs p ≤ coin ∧ coin < pre sigs (p + 1) := by
  obtain ⟨p, hp, _, h2, h3⟩ := coinIndexLoop_spec sigs hc hb coin (sigs.length + 1) 0 sigs.length (Nat.le_refl _)
    (by simp [pre_zero]) (by rw [pre_length]; exact hcoin) (by omega)
  exact ⟨p, hp, h2, h3⟩

/-! ### commitSigs -/

theorem commitTail_length (l w : Nat) (xs : List (SigSlot S)) : (commitTail l w xs).length = xs.length := by
  induction xs generalizing l w with
  | nil => rfl
  | cons x xs ih => simp [commitTail, ih]

theorem commitSigs_length (xs : List (SigSlot S)) : (commitSigs xs).length = xs.length := by
  cases xs with
  | nil => rfl
  | cons x xs => simp [commitSigs, commitTail_length]

theorem commitTail_get (l w : Nat) (xs : List (SigSlot S)) (i : Nat) (sl : SigSlot S)
    (h : (commitTail l w xs)[i]? = some sl) :
    ∃ sl0, xs[i]? = some sl0 ∧ sl.weight = sl0.weight ∧ sl.commit.sig = sl0.commit.sig := by
  induction xs generalizing l w i with
  | nil => simp [commitTail] at h
  | cons x xs ih =>
    cases i with
    | zero => simp [commitTail] at h; subst h; exact ⟨x, by simp, rfl, rfl⟩
    | succ k => simp [commitTail] at h; simpa using ih _ _ k h

/-- committing `L` changes neither the weights nor the signatures -/
theorem commitSigs_get (xs : List (SigSlot S)) (i : Nat) (sl : SigSlot S) (h : (commitSigs xs)[i]? = some sl) :
    ∃ sl0, xs[i]? = some sl0 ∧ sl.weight = sl0.weight ∧ sl.commit.sig = sl0.commit.sig := by
  cases xs with
  | nil => simp [commitSigs] at h
  | cons x xs =>
    cases i with
    | zero => simp [commitSigs] at h; subst h; exact ⟨_, by simp, rfl, rfl⟩
    | succ k => simp [commitSigs] at h; simpa using commitTail_get _ _ xs k sl h

theorem commitTail_totalW (l w : Nat) (xs : List (SigSlot S)) : totalW (commitTail l w xs) = totalW xs := by
  induction xs generalizing l w with
  | nil => rfl
  | cons x xs ih => simp [commitTail, totalW] at ih ⊢; rw [ih]

theorem commitSigs_totalW (xs : List (SigSlot S)) : totalW (commitSigs xs) = totalW xs := by
  cases xs with
  | nil => rfl
  | cons x xs =>
    have := commitTail_totalW x.commit.L x.weight xs
    simp [commitSigs, totalW] at this ⊢; rw [this]

theorem commitTail_cum (l w : Nat) (xs : List (SigSlot S)) (hb : l + w + totalW xs < two64) :
    Cum (l + w) (commitTail l w xs) := by
  induction xs generalizing l w with
  | nil => trivial
  | cons x xs ih =>
    have hx : totalW (x :: xs) = x.weight + totalW xs := by simp [totalW]
    have hm : (l + w) % two64 = l + w := Nat.mod_eq_of_lt (by omega)
    simp only [commitTail, Cum, hm]
    exact ⟨trivial, ih (l + w) x.weight (by omega)⟩

/-- after the commit loop the slots are cumulative from 0 (first `L` is 0, no uint64 wrap) -/
theorem commitSigs_cum (xs : List (SigSlot S)) (h0 : ∀ sl ∈ xs, sl.commit.L = 0) (hb : totalW xs < two64) :
    Cum 0 (commitSigs xs) := by
  cases xs with
  | nil => trivial
  | cons x xs =>
    have hx : totalW (x :: xs) = x.weight + totalW xs := by simp [totalW]
    have hL : x.commit.L = 0 := h0 x (by simp)
    simp only [commitSigs, Cum]
    refine ⟨hL, ?_⟩
    have := commitTail_cum x.commit.L x.weight xs (by omega)
    rw [hL] at this ⊢; simpa using this


/-! ### slotLeaves -/

theorem slotLeaves_ok (ss : SigScheme S) (xs : List (SigSlot S))
    (h : ∀ sl ∈ xs, ∀ s, sl.commit.sig = some s → ss.wellFormed s = true) : ∃ ls, slotLeaves ss xs = some ls := by
  induction xs with
  | nil => exact ⟨[], rfl⟩
  | cons x xs ih =>
    obtain ⟨ls, hls⟩ := ih (fun sl hsl => h sl (by simp [hsl]))
    have hx : ∃ l, sigLeaf ss x.commit = some l := by
      unfold sigLeaf
      cases hs : x.commit.sig with
      | none => exact ⟨none, rfl⟩
      | some s => simp [h x (by simp) s hs]
    obtain ⟨l, hl⟩ := hx
    exact ⟨l :: ls, by simp [slotLeaves, hl, hls]⟩

theorem slotLeaves_get (ss : SigScheme S) (xs : List (SigSlot S)) (ls : List (SigLeaf S))
    (h : slotLeaves ss xs = some ls) (i : Nat) (sl : SigSlot S) (hi : xs[i]? = some sl) :
    ∃ leaf, ls[i]? = some leaf ∧ sigLeaf ss sl.commit = some leaf := by
  induction xs generalizing ls i with
  | nil => simp at hi
  | cons x xs ih =>
    simp only [slotLeaves] at h
    cases hx : sigLeaf ss x.commit with
    | none => simp [hx] at h
    | some l =>
      cases hr : slotLeaves ss xs with
      | none => simp [hx, hr] at h
      | some ls' =>
        simp [hx, hr] at h
        subst h
        cases i with
        | zero => simp at hi; subst hi; exact ⟨l, by simp, hx⟩
        | succ k => simp at hi; simpa using ih ls' hr k hi

theorem slotLeaves_length (ss : SigScheme S) (xs : List (SigSlot S)) (ls : List (SigLeaf S))
    (h : slotLeaves ss xs = some ls) : ls.length = xs.length := by
  induction xs generalizing ls with
  | nil => simp [slotLeaves] at h; subst h; rfl
  | cons x xs ih =>
    simp only [slotLeaves] at h
    cases hx : sigLeaf ss x.commit with
    | none => simp [hx] at h
    | some l =>
      cases hr : slotLeaves ss xs with
      | none => simp [hx, hr] at h
      | some ls' => simp [hx, hr] at h; subst h; simp [ih ls' hr]

/-- pointwise relation between two lists of the same length (core Lean has no `List.Forall₂`) -/
inductive All2 {α β : Type} (R : α → β → Prop) : List α → List β → Prop
  | nil : All2 R [] []
  | cons {a b as bs} : R a b → All2 R as bs → All2 R (a :: as) (b :: bs)

theorem All2.length_eq {α β : Type} {R : α → β → Prop} {as : List α} {bs : List β} (h : All2 R as bs) :
    as.length = bs.length := by
  induction h with
  | nil => rfl
  | cons _ _ ih => simp [ih]

theorem All2.imp {α β : Type} {R Q : α → β → Prop} {as : List α} {bs : List β} (h : All2 R as bs)
    (hi : ∀ a b, a ∈ as → R a b → Q a b) : All2 Q as bs := by
  induction h with
  | nil => exact .nil
  | cons hr _ ih =>
    exact .cons (hi _ _ (by simp) hr) (ih (fun a b ha => hi a b (by simp [ha])))

/-! ### association lists -/

theorem lookup_none_not_mem {β : Type} (p : Nat) (l : List (Nat × β)) (h : l.lookup p = none) :
    p ∉ l.map (·.1) := by
  induction l with
  | nil => simp
  | cons x xs ih =>
    obtain ⟨k, v⟩ := x
    simp only [List.lookup] at h
    by_cases hk : p = k
    · subst hk; simp at h
    · have : (p == k) = false := by simp [hk]
      rw [this] at h
      simp only [List.map_cons, List.mem_cons, not_or]
      exact ⟨hk, ih h⟩

theorem lookup_some_mem {β : Type} (p : Nat) (l : List (Nat × β)) (r : β) (h : l.lookup p = some r) :
    (p, r) ∈ l := by
  induction l with
  | nil => simp at h
  | cons x xs ih =>
    obtain ⟨k, v⟩ := x
    simp only [List.lookup] at h
    by_cases hk : p = k
    · subst hk; simp at h; subst h; simp
    · have : (p == k) = false := by simp [hk]
      rw [this] at h
      exact List.mem_cons_of_mem _ (ih h)

theorem lookup_of_mem_nodup {β : Type} (l : List (Nat × β)) (hn : (l.map (·.1)).Nodup) (p : Nat) (r : β)
    (h : (p, r) ∈ l) : l.lookup p = some r := by
  induction l with
  | nil => simp at h
  | cons x xs ih =>
    obtain ⟨k, v⟩ := x
    simp only [List.map_cons, List.nodup_cons] at hn
    simp only [List.lookup]
    rcases List.mem_cons.1 h with heq | hmem
    · cases heq; simp
    · have hk : p ≠ k := by
        intro e; subst e
        exact hn.1 (List.mem_map.2 ⟨(p, r), hmem, rfl⟩)
      have : (p == k) = false := by simp [hk]
      rw [this]; exact ih hn.2 hmem

/-! ### the prover's reveal loop -/

/-- invariant of the reveal loop -/
structure RevInv (sigs : List (SigSlot S)) (parts : List Participant) (st : RevState S) : Prop where
  nodup : (st.reveals.map (·.1)).Nodup
  entry : ∀ pr ∈ st.reveals, ∃ sl pt, sigs[pr.1]? = some sl ∧ parts[pr.1]? = some pt ∧ pr.2 = ⟨sl.commit, pt⟩ ∧
    sl.weight ≠ 0
  seq_key : ∀ p ∈ st.seq, p ∈ st.reveals.map (·.1)

theorem revInv_init (sigs : List (SigSlot S)) (parts : List Participant) : RevInv sigs parts ⟨[], []⟩ :=
  ⟨by simp, by simp, by simp⟩

/-- a coin lies in the interval of slot p -/
def InSlot (sigs : List (SigSlot S)) (p c : Nat) : Prop := pre sigs p ≤ c ∧ c < pre sigs (p + 1)

theorem coins_succ {sw n : Nat} {draws cs : List Nat} (h : coins sw (n + 1) draws = some cs) :
    ∃ c u rest cs', getNextCoin sw draws = some (c, u, rest) ∧ coins sw n rest = some cs' ∧ cs = c :: cs' := by
  unfold coins at h
  cases hg : getNextCoin sw draws with
  | none => simp [hg] at h
  | some r =>
    obtain ⟨c, u, rest⟩ := r
    simp only [hg] at h
    cases hc : coins sw n rest with
    | none => simp [hc] at h
    | some cs' =>
      simp only [hc, Option.some.injEq] at h
      exact ⟨c, u, rest, cs', rfl, hc, h.symm⟩

/-- **The reveal loop**: on cumulative slots every coin below the signed weight is mapped by `coinIndex` to the slot
containing it, the reveal for that slot is (created once and) present, and the map keys stay distinct. -/
theorem revealLoop_spec (sigs : List (SigSlot S)) (parts : List Participant) (sw : Nat)
    (hlen : sigs.length = parts.length) (hc : Cum 0 sigs) (hb : totalW sigs < two64) (hsw : sw = totalW sigs) :
    ∀ (n : Nat) (draws cs : List Nat) (st : RevState S), coins sw n draws = some cs → (∀ c ∈ cs, c < sw) →
      RevInv sigs parts st →
      ∃ st' ps, revealLoop sigs parts sw n draws st = .ok st' ∧ RevInv sigs parts st' ∧ st'.seq = st.seq ++ ps ∧
        All2 (InSlot sigs) ps cs := by
  intro n
  induction n with
  | zero =>
    intro draws cs st h _ hinv
    simp [coins] at h; subst h
    exact ⟨st, [], rfl, hinv, by simp, All2.nil⟩
  | succ k ih =>
    intro draws cs st h hlt hinv
    obtain ⟨c, u, rest, cs', hg, hcs', rfl⟩ := coins_succ h
    have hc_lt : c < totalW sigs := by rw [← hsw]; exact hlt c (by simp)
    obtain ⟨p, hp, hplen, hp1, hp2⟩ := coinIndex_spec sigs hc hb c hc_lt
    unfold revealLoop
    simp only [hg, hp]
    rw [if_neg (by omega)]
    cases hl : st.reveals.lookup p with
    | some r =>
      simp only []
      have hinv1 : RevInv sigs parts ⟨st.reveals, st.seq ++ [p]⟩ := by
        refine ⟨hinv.nodup, hinv.entry, ?_⟩
        intro q hq
        rcases List.mem_append.1 hq with hq | hq
        · exact hinv.seq_key q hq
        · simp at hq; subst hq
          exact List.mem_map.2 ⟨(q, r), lookup_some_mem q _ r hl, rfl⟩
      obtain ⟨st', ps, hrun, hinv', hseq, hfa⟩ := ih rest cs' _ hcs' (fun c' hc' => hlt c' (by simp [hc'])) hinv1
      exact ⟨st', p :: ps, hrun, hinv', by simp [hseq], All2.cons ⟨hp1, hp2⟩ hfa⟩
    | none =>
      simp only []
      obtain ⟨sl, hsl⟩ : ∃ sl, sigs[p]? = some sl := ⟨sigs[p], by simp [hplen]⟩
      obtain ⟨pt, hpt⟩ : ∃ pt, parts[p]? = some pt := ⟨parts[p]'(by omega), by simp [show p < parts.length by omega]⟩
      simp only [hsl, hpt]
      have hnot := lookup_none_not_mem p st.reveals hl
      have hinv1 : RevInv sigs parts ⟨st.reveals ++ [(p, ⟨sl.commit, pt⟩)], st.seq ++ [p]⟩ := by
        refine ⟨?_, ?_, ?_⟩
        · simp only [List.map_append, List.map_cons, List.map_nil]
          rw [List.nodup_append]
          refine ⟨hinv.nodup, by simp, ?_⟩
          intro a ha b hb'
          simp at hb'; subst hb'
          intro e; subst e; exact hnot ha
        · intro pr hpr
          rcases List.mem_append.1 hpr with hpr | hpr
          · exact hinv.entry pr hpr
          · simp at hpr; subst hpr
            have := pre_succ sigs p sl hsl
            exact ⟨sl, pt, hsl, hpt, rfl, by omega⟩
        · intro q hq
          simp only [List.map_append, List.map_cons, List.map_nil, List.mem_append, List.mem_singleton]
          rcases List.mem_append.1 hq with hq | hq
          · exact Or.inl (hinv.seq_key q hq)
          · simp at hq; exact Or.inr hq
      obtain ⟨st', ps, hrun, hinv', hseq, hfa⟩ := ih rest cs' _ hcs' (fun c' hc' => hlt c' (by simp [hc'])) hinv1
      exact ⟨st', p :: ps, hrun, hinv', by simp [hseq], All2.cons ⟨hp1, hp2⟩ hfa⟩

/-! ### the verifier's loops -/

theorem saltsOk_of (ss : SigScheme S) (version : Nat) (reveals : List (Nat × Reveal S))
    (h : ∀ pr ∈ reveals, saltOfSlot ss pr.2.slot = version) : saltsOk ss version reveals = true := by
  unfold saltsOk
  rw [List.all_eq_true]
  intro pr hpr
  simp [h pr hpr]

theorem checkReveals_ok (ss : SigScheme S) (round data : Nat) (leafOf : Nat → SigLeaf S)
    (reveals : List (Nat × Reveal S))
    (h : ∀ pr ∈ reveals, sigLeaf ss pr.2.slot = some (leafOf pr.1) ∧
          verifyBytes ss pr.2.part round data pr.2.slot.sig = true) :
    checkReveals ss round data reveals = .ok (reveals.map fun pr => (pr.1, leafOf pr.1)) := by
  induction reveals with
  | nil => rfl
  | cons pr rest ih =>
    obtain ⟨h1, h2⟩ := h pr (by simp)
    simp only [checkReveals, h1, h2, if_true, ih (fun q hq => h q (by simp [hq])), List.map_cons]

theorem checkCoins_ok (sw : Nat) (reveals : List (Nat × Reveal S)) :
    ∀ (ps cs draws : List Nat), coins sw ps.length draws = some cs →
      All2 (fun p c => ∃ r, reveals.lookup p = some r ∧ coinInSlot r c = true) ps cs →
      checkCoins sw reveals ps draws = .ok () := by
  intro ps
  induction ps with
  | nil => intro cs draws _ _; rfl
  | cons p ps ih =>
    intro cs draws h hfa
    obtain ⟨c, u, rest, cs', hg, hcs', rfl⟩ := coins_succ h
    cases hfa with
    | cons hhead htail =>
      obtain ⟨r, hr, hin⟩ := hhead
      simp only [checkCoins, hr, hg, hin, if_true]
      exact ih cs' rest hcs' htail


/-! ### inversion of the verifier -/

theorem saltsOk_inv (ss : SigScheme S) (version : Nat) (reveals : List (Nat × Reveal S))
    (h : saltsOk ss version reveals = true) : ∀ pr ∈ reveals, saltOfSlot ss pr.2.slot = version := by
  unfold saltsOk at h
  rw [List.all_eq_true] at h
  intro pr hpr
  simpa using h pr hpr

theorem checkReveals_inv (ss : SigScheme S) (round data : Nat) :
    ∀ (reveals : List (Nat × Reveal S)) (leaves : List (Nat × SigLeaf S)),
      checkReveals ss round data reveals = .ok leaves →
      leaves.map (·.1) = reveals.map (·.1) ∧
      ∀ pr ∈ reveals, ∃ leaf, sigLeaf ss pr.2.slot = some leaf ∧ (pr.1, leaf) ∈ leaves ∧
        verifyBytes ss pr.2.part round data pr.2.slot.sig = true := by
  intro reveals
  induction reveals with
  | nil => intro leaves h; simp [checkReveals] at h; subst h; simp
  | cons pr rest ih =>
    intro leaves h
    simp only [checkReveals] at h
    cases hl : sigLeaf ss pr.2.slot with
    | none => simp [hl] at h
    | some leaf =>
      simp only [hl] at h
      by_cases hv : verifyBytes ss pr.2.part round data pr.2.slot.sig = true
      · rw [if_pos hv] at h
        cases hr : checkReveals ss round data rest with
        | error e => simp [hr] at h
        | ok ls =>
          simp only [hr, Except.ok.injEq] at h
          subst h
          obtain ⟨h1, h2⟩ := ih ls hr
          refine ⟨by simp [h1], ?_⟩
          intro q hq
          rcases List.mem_cons.1 hq with rfl | hq
          · exact ⟨leaf, hl, by simp, hv⟩
          · obtain ⟨lf, a, b', c⟩ := h2 q hq
            exact ⟨lf, a, List.mem_cons_of_mem _ b', c⟩
      · rw [if_neg hv] at h; simp at h

theorem checkCoins_inv (sw : Nat) (reveals : List (Nat × Reveal S)) :
    ∀ (ps draws : List Nat), checkCoins sw reveals ps draws = .ok () →
      ∃ cs, coins sw ps.length draws = some cs ∧
        All2 (fun p c => ∃ r, reveals.lookup p = some r ∧ coinInSlot r c = true) ps cs := by
  intro ps
  induction ps with
  | nil => intro draws _; exact ⟨[], rfl, .nil⟩
  | cons p ps ih =>
    intro draws h
    simp only [checkCoins] at h
    cases hl : reveals.lookup p with
    | none => simp [hl] at h
    | some r =>
      simp only [hl] at h
      cases hg : getNextCoin sw draws with
      | none => simp [hg] at h
      | some t =>
        obtain ⟨c, u, rest⟩ := t
        simp only [hg] at h
        by_cases hin : coinInSlot r c = true
        · rw [if_pos hin] at h
          obtain ⟨cs, hcs, hall⟩ := ih rest h
          refine ⟨c :: cs, ?_, .cons ⟨r, hl, hin⟩ hall⟩
          simp [coins, hg, hcs]
        · rw [if_neg hin] at h; simp at h

variable {RS PS RP PP : Type}

/-- `Verify` returns nil exactly when all its checks pass -/
theorem verify_ok_iff (E : Env S RS PS RP PP) (v : Verifier RP) (round data : Nat) (s : StateProof S RS PS PP) :
    verify E v round data s = .ok () ↔
      (E.vcS.depth s.sigProofs ≤ MaxTreeDepth ∧ E.vcP.depth s.partProofs ≤ MaxTreeDepth) ∧
      verifyWeights s.signedWeight v.lnProvenWeight s.positions.length v.strengthTarget = .ok () ∧
      saltsOk E.ss s.saltVersion s.reveals = true ∧
      ∃ leaves, checkReveals E.ss round data s.reveals = .ok leaves ∧
        E.vcS.verify s.sigCommit leaves s.sigProofs = true ∧
        E.vcP.verify v.partCommit (partElems s.reveals) s.partProofs = true ∧
        checkCoins s.signedWeight s.reveals s.positions
          (E.H ⟨v.partCommit, v.lnProvenWeight, s.sigCommit, s.signedWeight, data⟩) = .ok () := by
  unfold verify
  by_cases hd : E.vcS.depth s.sigProofs > MaxTreeDepth ∨ E.vcP.depth s.partProofs > MaxTreeDepth
  · rw [if_pos hd]
    constructor
    · intro h; cases h
    · rintro ⟨⟨h1, h2⟩, _⟩; omega
  rw [if_neg hd]
  have hd' : E.vcS.depth s.sigProofs ≤ MaxTreeDepth ∧ E.vcP.depth s.partProofs ≤ MaxTreeDepth := by omega
  cases hw : verifyWeights s.signedWeight v.lnProvenWeight s.positions.length v.strengthTarget with
  | error e => simp
  | ok u =>
    cases u
    simp only [true_and, hd']
    cases hs : saltsOk E.ss s.saltVersion s.reveals with
    | false => simp
    | true =>
      simp only [Bool.true_eq_false, if_false, true_and]
      cases hr : checkReveals E.ss round data s.reveals with
      | error e => simp
      | ok leaves =>
        simp only [Except.ok.injEq, exists_eq_left']
        cases h1 : E.vcS.verify s.sigCommit leaves s.sigProofs with
        | false => simp
        | true =>
          cases h2 : E.vcP.verify v.partCommit (partElems s.reveals) s.partProofs with
          | false => simp
          | true => simp

end AlgoVerif.Lemmas.StateProof
