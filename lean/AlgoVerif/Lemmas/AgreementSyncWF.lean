import AlgoVerif.Lemmas.AgreementSync
/-!
The synchronous step function of `Spec.AgreementSync` preserves well-formedness (`WF`): every phase appends only events the
local rules of `Spec.AgreementAbs` allow.  `okEv` is judged against the RUNNING history (phase-start history plus the events
already appended, including other nodes'), the reactions are computed from the phase-start history; `View` records what of the
running history a node's rules can see (its own state and votes are those of the phase start, everything else only grows).
-/
namespace AlgoVerif.Lemmas.AgreementSync
open AlgoVerif.Spec.AgreementAbs AlgoVerif.Spec.AgreementSync AlgoVerif.Lemmas.AgreementAbs

/-! ### generic: well-formedness of a phase -/

/-- the running history `X` as node `n` sees it when it reacts to the phase-start history `h` -/
structure View (h X : List Ev) (n : Node) : Prop where
  suf : h <:+ X
  st : nstate X n = nstate h n
  own : ∀ v ∈ votes X, v.n = n → v ∈ votes h

theorem View.loc {h X : List Ev} {n : Node} (vw : View h X n) : localOf X n = localOf h n := by
  unfold localOf; rw [vw.st]

theorem View.refl (h : List Ev) (n : Node) : View h h n := ⟨List.suffix_refl _, rfl, fun _ hv _ => hv⟩

theorem wf_phaseL {l : Bool} {P : Params} {h : List Ev} {g : Node → List Ev}
    (hg : ∀ m, ∀ e ∈ g m, Owned m e) :
    ∀ (L : List Node) (X : List Ev), L.Nodup → WF l P X → (∀ n ∈ L, View h X n) →
      (∀ n ∈ L, ∀ X, View h X n → WF l P X → WF l P ((g n).reverse ++ X)) →
      WF l P (phaseL g L X) := by
  intro L
  induction L with
  | nil => intro X _ wf _ _; simpa [phaseL] using wf
  | cons a L ih =>
      intro X hnd wf hview hok
      rw [List.nodup_cons] at hnd
      rw [phaseL_cons]
      apply ih _ hnd.2
      · exact hok a List.mem_cons_self X (hview a List.mem_cons_self) wf
      · intro n hn
        have hna : a ≠ n := fun hh => hnd.1 (hh ▸ hn)
        have vw := hview n (List.mem_cons_of_mem _ hn)
        refine ⟨vw.suf.trans (List.suffix_append _ _), ?_, ?_⟩
        · rw [nstate_append_foreign (fun e he s => owned_foreign hna (hg a e (List.mem_reverse.1 he)) s)]
          exact vw.st
        · intro v hv hvn
          rw [mem_votes_iff, List.mem_append, List.mem_reverse] at hv
          rcases hv with hv | hv
          · have : v.n = a := hg a _ hv
            exact absurd (this.symm.trans hvn) hna
          · exact vw.own v (mem_votes_iff.2 hv) hvn
      · intro n hn
        exact hok n (List.mem_cons_of_mem _ hn)

/-- **a phase is well-formed if every reaction is, whatever the other nodes appended before it** -/
theorem wf_phase {l : Bool} {P : Params} (hN : (hon P).Nodup) {h : List Ev} {f : Node → List Ev}
    (hf : ∀ m, ∀ e ∈ f m, Owned m e) (wf : WF l P h)
    (hok : ∀ n ∈ hon P, committedB h n = false → ∀ X, View h X n → WF l P X →
      WF l P ((f n).reverse ++ X)) :
    WF l P (phase P h f) := by
  have e : phase P h f = phaseL (fun n => if committedB h n then [] else f n) (hon P) h := rfl
  rw [e]
  apply wf_phaseL _ _ _ hN wf (fun n _ => View.refl h n)
  · intro n hn X vw wfX
    cases hc : committedB h n with
    | true => simpa using wfX
    | false => simpa using hok n hn hc X vw wfX
  · intro m e he
    split at he
    · simp at he
    · exact hf m e he

/-- reactions of at most one event -/
theorem wf_phase1 {l : Bool} {P : Params} (hN : (hon P).Nodup) {h : List Ev} {f : Node → List Ev}
    (hf : ∀ m, ∀ e ∈ f m, Owned m e) (wf : WF l P h)
    (hlen : ∀ n, f n = [] ∨ ∃ e, f n = [e])
    (hok : ∀ n ∈ hon P, committedB h n = false → ∀ X, View h X n → ∀ e, f n = [e] → okEv l P X e) :
    WF l P (phase P h f) := by
  apply wf_phase hN hf wf
  intro n hn hc X vw wfX
  rcases hlen n with e0 | ⟨e, e1⟩
  · rw [e0]; exact wfX
  · rw [e1]; exact ⟨wfX, hok n hn hc X vw e e1⟩

theorem votes_phase_forall {P : Params} {h : List Ev} {f : Node → List Ev} {C : Vote → Prop}
    (hh : ∀ v ∈ votes h, C v) (hf : ∀ m ∈ hon P, ∀ v, Ev.vote v ∈ f m → C v) :
    ∀ v ∈ votes (phase P h f), C v := by
  intro v hv
  rcases mem_votes_phase.1 hv with hv | ⟨m, hm, _, hv⟩
  · exact hh v hv
  · exact hf m hm v hv

theorem voteP_owned {p m : Nat} {e : Ev} (he : VoteP p m e) : Owned m e := by
  obtain ⟨s, x, rfl⟩ := he; rfl

/-! ### the vote phases of `syncFresh` -/

theorem softOf_voteP (E : Env) (h : List Ev) (p : Nat) (m : Node) : ∀ e ∈ softOf E h p m, VoteP p m e := by
  intro e he
  obtain ⟨x, hx⟩ := softOf_votes E h p m e he
  exact ⟨_, _, hx⟩

theorem filterTimeout_wf {l : Bool} {P : Params} (hN : (hon P).Nodup) (E : Env) (p : Nat) {h : List Ev}
    (wf : WF l P h) : WF l P (filterTimeout P E p h) := by
  unfold filterTimeout
  apply wf_phase1 hN (fun m e he => voteP_owned (softOf_voteP E h p m e he)) wf
  · intro n
    unfold softOf
    split
    · split
      · exact Or.inr ⟨_, rfl⟩
      · exact Or.inl rfl
    · exact Or.inl rfl
  · intro n _ _ X vw e he
    unfold softOf at he
    split at he
    · rename_i hcond
      obtain ⟨hper, hown⟩ := hcond
      have hnone : ∀ v' ∈ votes X, v'.n = n → v'.p = p → False := by
        intro v' hv' h1 h2
        have : v' ∈ ownVotes h n p := by
          unfold ownVotes; rw [List.mem_filter]
          exact ⟨vw.own v' hv' h1, by simp [h1, h2]⟩
        rw [hown] at this; simp at this
      split at he
      · rename_i w hw
        simp only [List.cons.injEq, and_true] at he
        subst he
        intro _
        refine ⟨Or.inl (fun v' hv' h1 h2 _ => (hnone v' hv' h1 h2).elim), ?_,
          fun v' hv' h1 h2 => (hnone v' hv' h1 h2).elim, by simp, ?_⟩
        · show (localOf X n).period = p
          rw [vw.loc]; exact hper
        · intro hb hp
          show some w = ((localOf X n).prev p).prop
          rw [vw.loc] at hb hp ⊢
          unfold softValue at hw
          simp only at hb hp
          rw [hb] at hw
          simp only [Bool.false_eq_true, if_false] at hw
          cases hpp : ((localOf h n).prev p).prop with
          | none => exact absurd hpp hp
          | some y => rw [hpp] at hw; exact hw.symm
      · simp at he
    · simp at he

theorem certOnDelivery_wf {l : Bool} {P : Params} (hN : (hon P).Nodup) (E : Env) (p : Nat) {h : List Ev}
    (wf : WF l P h) : WF l P (certOnDelivery P E p h) := by
  unfold certOnDelivery
  apply wf_phase1 hN (fun m e he => voteP_owned (certOf_voteP P E h p m e he)) wf
  · intro n
    unfold certOf
    split
    · split
      · exact Or.inr ⟨_, rfl⟩
      · exact Or.inl rfl
    · exact Or.inl rfl
  · intro n _ _ X vw e he
    unfold certOf at he
    split at he
    · rename_i hcond
      obtain ⟨hper, hown⟩ := hcond
      rw [List.all_eq_true] at hown
      have hsoft : ∀ v' ∈ votes X, v'.n = n → v'.p = p → v'.s = .soft := by
        intro v' hv' h1 h2
        have : v' ∈ ownVotes h n p := by
          unfold ownVotes; rw [List.mem_filter]
          exact ⟨vw.own v' hv' h1, by simp [h1, h2]⟩
        simpa using hown v' this
      split at he
      · rename_i w hw
        simp only [List.cons.injEq, and_true] at he
        subst he
        intro _
        refine ⟨Or.inl (fun v' hv' h1 h2 h3 => ?_), ?_, fun v' hv' h1 h2 h3 => ?_, ?_⟩
        · rw [hsoft v' hv' h1 h2] at h3; cases h3
        · show (localOf X n).period = p
          rw [vw.loc]; exact hper
        · rw [hsoft v' hv' h1 h2] at h3; simp [Step.isNext] at h3
        · show stagedQ P X p w
          have := List.find?_some hw
          simp only [Bool.and_eq_true, decide_eq_true_eq] at this
          exact stagedQ_mono vw.suf this.1
      · simp at he
    · simp at he

theorem commitOf_owned (P : Params) (E : Env) (h : List Ev) (p : Nat) (m : Node) :
    ∀ e ∈ commitOf P E h p m, Owned m e := by
  intro e he
  unfold commitOf at he
  split at he
  · rw [List.mem_singleton] at he; subst he; trivial
  · simp at he

theorem commitOnDelivery_wf {l : Bool} {P : Params} (hN : (hon P).Nodup) (E : Env) (p : Nat) {h : List Ev}
    (wf : WF l P h) : WF l P (commitOnDelivery P E p h) := by
  unfold commitOnDelivery
  apply wf_phase1 hN (commitOf_owned P E h p) wf
  · intro n
    unfold commitOf
    split
    · exact Or.inr ⟨_, rfl⟩
    · exact Or.inl rfl
  · intro n _ _ X vw e he
    unfold commitOf at he
    split at he
    · rename_i w hw
      simp only [List.cons.injEq, and_true] at he
      subst he
      intro _
      show certQ P X p w
      have := List.find?_some hw
      simp only [Bool.and_eq_true, decide_eq_true_eq] at this
      exact certQ_mono vw.suf this.1
    · simp at he

/-- **(1)** one synchronous period from its start is a well-formed extension, for any environment -/
theorem syncFresh_wf {l : Bool} {P : Params} (hnd : P.nodes.Nodup) (E : Env) (p : Nat) {h : List Ev}
    (wf : WF l P h) : WF l P (syncFresh P E p h) := by
  have hN : (hon P).Nodup := hnd.filter _
  unfold syncFresh
  exact commitOnDelivery_wf hN E p (certOnDelivery_wf hN E p (filterTimeout_wf hN E p wf))

/-! ### `deliver` -/

theorem wf_sees {l : Bool} {P : Params} (n q : Nat) :
    ∀ (ys : List (Option Val)) (X : List Ev), (∀ y ∈ ys, nextQ P X q y) → WF l P X →
      WF l P ((ys.map (Ev.see n q)).reverse ++ X) := by
  intro ys
  induction ys with
  | nil => intro X _ wf; exact wf
  | cons y ys ih =>
      intro X hy wf
      rw [List.map_cons, List.reverse_cons, List.append_assoc, List.singleton_append]
      apply ih
      · intro y' hy'
        exact nextQ_mono (List.suffix_cons _ _) (hy y' (List.mem_cons_of_mem _ hy'))
      · exact ⟨wf, fun _ => hy y List.mem_cons_self⟩

/-- `REnterCause` in terms of the local state the reaction used -/
def CauseOK (P : Params) (h : List Ev) (L : Local) (q : Nat) : Cause → Prop
  | .viaNext none => (L.prev q).bottom = true
  | .viaNext (some v) => (L.prev q).prop = some v
  | .viaSoft x => softQ P h q x
  | .viaCert x => certQ P h q x

theorem enterOf_cause {P : Params} {h : List Ev} {n q : Nat} {L : Local} {c : Cause}
    (he : enterOf P h n q L = [Ev.enter n q c]) : L.period < q ∧ CauseOK P h L q c := by
  unfold enterOf at he
  split at he
  · rename_i hlt
    refine ⟨hlt, ?_⟩
    split at he
    · rename_i v hv
      simp only [List.cons.injEq, Ev.enter.injEq, and_true, true_and] at he
      subst he; exact hv
    · split at he
      · rename_i hb
        simp only [List.cons.injEq, Ev.enter.injEq, and_true, true_and] at he
        subst he; exact hb
      · split at he
        · rename_i x hx
          simp only [List.cons.injEq, Ev.enter.injEq, and_true, true_and] at he
          subst he
          have := List.find?_some hx
          simpa [CauseOK] using this
        · split at he
          · rename_i x hx
            simp only [List.cons.injEq, Ev.enter.injEq, and_true, true_and] at he
            subst he
            have := List.find?_some hx
            simpa [CauseOK] using this
          · simp at he
  · simp at he

theorem mem_deliverYs {P : Params} {h : List Ev} {q : Nat} {y : Option Val} (hy : y ∈ deliverYs P h q) :
    nextQ P h (q - 1) y := by
  unfold deliverYs at hy
  split at hy
  · simp at hy
  · exact mem_thresholds hy

theorem deliver_wf {l : Bool} {P : Params} (hN : (hon P).Nodup) (q : Nat) {h : List Ev}
    (wf : WF l P h) : WF l P (deliver P q h) := by
  unfold deliver
  apply wf_phase hN (deliverOf_owned P h q) wf
  intro n _ _ X vw wfX
  rw [deliverOf_eq, List.reverse_append, List.append_assoc]
  have wfs : WF l P (((deliverYs P h q).map (Ev.see n (q - 1))).reverse ++ X) :=
    wf_sees n (q - 1) _ X (fun y hy => nextQ_mono vw.suf (mem_deliverYs hy)) wfX
  have hL : localOf (((deliverYs P h q).map (Ev.see n (q - 1))).reverse ++ X) n = deliverL P h q n := by
    rw [localOf_sees, vw.loc, deliverL_eq]
  have hsuf : h <:+ ((deliverYs P h q).map (Ev.see n (q - 1))).reverse ++ X :=
    vw.suf.trans (List.suffix_append _ _)
  rcases enterOf_cases P h n q (deliverL P h q n) with e0 | ⟨c, e1⟩
  · rw [e0]; exact wfs
  · rw [e1, List.reverse_singleton, List.singleton_append]
    obtain ⟨hlt, hcause⟩ := enterOf_cause e1
    refine ⟨wfs, fun _ => ⟨?_, ?_⟩⟩
    · show (localOf _ n).period < q
      rw [hL]; exact hlt
    · cases c with
      | viaNext y =>
          cases y with
          | none =>
              show ((localOf _ n).prev q).bottom = true
              rw [hL]; exact hcause
          | some v =>
              show ((localOf _ n).prev q).prop = some v
              rw [hL]; exact hcause
      | viaSoft x => exact softQ_mono hsuf hcause
      | viaCert x => exact certQ_mono hsuf hcause

/-! ### uniqueness on well-formed histories (as `Props.C01.staged_unique`) -/

theorem staged_unique' {P : Params} (hq : HQ P) {h : List Ev} (wf : WF true P h) {p : Nat} {a b : Val}
    (ha : stagedQ P h p a) (hb : stagedQ P h p b) : a = b := by
  have wfs := wf_strict hq wf
  exact soft_unique hq wfs (staged_soft hq wfs ha) (staged_soft hq wfs hb)

theorem committable_eq_of_staged {P : Params} (hq : HQ P) {E : Env} {h : List Ev} (wf : WF true P h) {p : Nat}
    {y : Val} (hs : stagedQ P h p y) (ha : E.avail y = true) (hy : y ∈ vals h) :
    committable P E h p = some y := by
  obtain ⟨b, hb, pb, _⟩ := find?_of_mem (f := fun v => decide (stagedQ P h p v) && E.avail v) hy
    (by simp only [Bool.and_eq_true, decide_eq_true_eq]; exact ⟨hs, ha⟩)
  simp only [Bool.and_eq_true, decide_eq_true_eq] at pb
  have : b = y := staged_unique' hq wf pb.1 hs
  subst this; exact hb

theorem committable_spec {P : Params} {E : Env} {h : List Ev} {p : Nat} {y : Val}
    (hc : committable P E h p = some y) : stagedQ P h p y ∧ E.avail y = true := by
  have := List.find?_some hc
  simpa using this

/-! ### **(2)** the value committed by `syncFresh` is the one everybody soft-voted -/

theorem filterTimeout_softQ {P : Params} {E : Env} {h : List Ev} {p : Nat} {c : Cache} {w : Val}
    (hT : HonestQuorum P) (hf : FreshAt P h p) (hc : CommonStart P h p c) (hw : softValue E c = some w) :
    softQ P (filterTimeout P E p h) p w := by
  apply honest_votes_quorum hT
  intro n hn
  obtain ⟨h1, h2, h3⟩ := hf n hn
  unfold VotedFor filterTimeout
  rw [mem_votes_phase]
  refine Or.inr ⟨n, hn, h3, ?_⟩
  unfold softOf
  rw [if_pos ⟨h1, h2⟩, hc n hn, hw]
  exact List.mem_singleton_self _

theorem syncFresh_value {P : Params} {E : Env} {h : List Ev} {p : Nat} {c : Cache} {w : Val}
    (hq : HQ P) (hnd : P.nodes.Nodup) (wf : WF true P h)
    (hT : HonestQuorum P) (hf : FreshAt P h p) (hc : CommonStart P h p c)
    (hw : softValue E c = some w) (ha : E.avail w = true) :
    ∀ n ∈ hon P, Ev.commit n p w ∈ syncFresh P E p h := by
  obtain ⟨v, hcq, hall⟩ := syncFresh_commits hT hf hc hw ha
  have wf' := syncFresh_wf hnd E p wf
  have hs : softQ P (syncFresh P E p h) p w :=
    softQ_mono ((phase_suffix _ _ _).trans (phase_suffix _ _ _)) (filterTimeout_softQ hT hf hc hw)
  have : v = w := staged_unique' hq wf' (Or.inr hcq) (Or.inl hs)
  subst this; exact hall

/-! ### side conditions carried through `syncAdvance` -/

/-- an honest cert-voter of the period holds the payload -/
def CertAvail (P : Params) (E : Env) (h : List Ev) (p : Nat) : Prop :=
  ∀ v ∈ votes h, v.n ∈ hon P → v.p = p → v.s = .cert → ∀ y, v.x = some y → E.avail y = true

/-- the honest next votes of the period are at steps below `b` -/
def StepLt (P : Params) (h : List Ev) (p b : Nat) : Prop :=
  ∀ v ∈ votes h, v.n ∈ hon P → v.p = p → ∀ k, v.s = .next k → k < b

instance (P E h p) : Decidable (CertAvail P E h p) := by unfold CertAvail; infer_instance
def stepBelow (b : Nat) : Step → Bool
  | .next k => decide (k < b)
  | _ => true

instance (P h p b) : Decidable (StepLt P h p b) :=
  decidable_of_iff (∀ v ∈ votes h, v.n ∈ hon P → v.p = p → stepBelow b v.s = true) (by
    unfold StepLt
    constructor
    · intro H v hv hh hp k hk
      have := H v hv hh hp
      rw [hk] at this; simpa [stepBelow] using this
    · intro H v hv hh hp
      cases hs : v.s with
      | next k => simpa [stepBelow] using H v hv hh hp k hs
      | soft => rfl
      | cert => rfl)

theorem CertAvail.deliver {P : Params} {E : Env} {h : List Ev} {p : Nat} (hav : CertAvail P E h p) (q : Nat) :
    CertAvail P E (deliver P q h) p := fun v hv => hav v (votes_deliver.1 hv)

theorem StepLt.deliver {P : Params} {h : List Ev} {p b : Nat} (hst : StepLt P h p b) (q : Nat) :
    StepLt P (deliver P q h) p b := fun v hv => hst v (votes_deliver.1 hv)

theorem StepLt.mono {P : Params} {h : List Ev} {p b b' : Nat} (hst : StepLt P h p b) (hb : b ≤ b') :
    StepLt P h p b' := fun v hv hh hp k hk => Nat.lt_of_lt_of_le (hst v hv hh hp k hk) hb

theorem CertAvail.certOnDelivery {P : Params} {E : Env} {h : List Ev} {p : Nat} (hav : CertAvail P E h p) :
    CertAvail P E (certOnDelivery P E p h) p := by
  unfold CertAvail AlgoVerif.Spec.AgreementSync.certOnDelivery
  apply votes_phase_forall hav
  intro m _ v hv _ _ _ y hy
  unfold certOf at hv
  split at hv
  · split at hv
    · rename_i w hw
      simp only [List.mem_singleton, Ev.vote.injEq] at hv
      subst hv
      simp only [Option.some.injEq] at hy
      subst hy
      exact (committable_spec hw).2
    · simp at hv
  · simp at hv

theorem StepLt.certOnDelivery {P : Params} {E : Env} {h : List Ev} {p b : Nat} (hst : StepLt P h p b) :
    StepLt P (certOnDelivery P E p h) p b := by
  unfold StepLt AlgoVerif.Spec.AgreementSync.certOnDelivery
  apply votes_phase_forall hst
  intro m _ v hv _ _ k hk
  obtain ⟨x, hx⟩ := certOf_votes P E h p m _ hv
  cases hx; cases hk

theorem votes_commitOnDelivery {P : Params} {E : Env} {h : List Ev} {p : Nat} {v : Vote} :
    v ∈ votes (commitOnDelivery P E p h) ↔ v ∈ votes h := by
  unfold commitOnDelivery
  rw [mem_votes_phase]
  constructor
  · rintro (hv | ⟨m, _, _, hv⟩)
    · exact hv
    · unfold commitOf at hv
      split at hv <;> simp at hv
  · exact Or.inl

theorem CertAvail.commitOnDelivery {P : Params} {E : Env} {h : List Ev} {p : Nat} (hav : CertAvail P E h p) :
    CertAvail P E (commitOnDelivery P E p h) p := fun v hv => hav v (votes_commitOnDelivery.1 hv)

theorem StepLt.commitOnDelivery {P : Params} {E : Env} {h : List Ev} {p b : Nat} (hst : StepLt P h p b) :
    StepLt P (commitOnDelivery P E p h) p b := fun v hv => hst v (votes_commitOnDelivery.1 hv)

/-- a phase of next-type votes adds no cert vote -/
theorem CertAvail.nextPhase {P : Params} {E : Env} {h : List Ev} {p : Nat} (hav : CertAvail P E h p)
    {f : Node → List Ev} (hf : ∀ m, ∀ e ∈ f m, ∃ k x, e = Ev.vote ⟨m, p, .next k, x⟩) :
    CertAvail P E (phase P h f) p := by
  unfold CertAvail
  apply votes_phase_forall hav
  intro m _ v hv _ _ hs
  obtain ⟨k, x, hx⟩ := hf m _ hv
  cases hx; cases hs

/-! ### `nextK` -/

def nkStep (k : Nat) (v : Vote) : Nat :=
  match v.s with
  | .next j => if j < 250 ∧ k ≤ j then j + 1 else k
  | _ => k

theorem nextK_eq (h : List Ev) (n p : Nat) : nextK h n p = (ownVotes h n p).foldl nkStep 0 := rfl

theorem nkStep_ge (k : Nat) (v : Vote) : k ≤ nkStep k v := by
  unfold nkStep
  split
  · split <;> omega
  · exact Nat.le_refl _

theorem nkStep_gt (k : Nat) {v : Vote} {j : Nat} (hs : v.s = .next j) (hj : j < 250) : j < nkStep k v := by
  unfold nkStep
  rw [hs]
  simp only
  split <;> omega

theorem nkStep_le {k b : Nat} {v : Vote} (hk : k ≤ b) (hv : ∀ j, v.s = .next j → j < b) : nkStep k v ≤ b := by
  unfold nkStep
  split
  · rename_i j hs
    have := hv j hs
    split <;> omega
  · exact hk

theorem foldl_nkStep (l : List Vote) :
    ∀ k0, k0 ≤ l.foldl nkStep k0 ∧
      (∀ v ∈ l, ∀ j, v.s = .next j → j < 250 → j < l.foldl nkStep k0) ∧
      (∀ b, k0 ≤ b → (∀ v ∈ l, ∀ j, v.s = .next j → j < b) → l.foldl nkStep k0 ≤ b) := by
  induction l with
  | nil => intro k0; exact ⟨Nat.le_refl _, fun _ hv => by simp at hv, fun b hb _ => hb⟩
  | cons v l ih =>
      intro k0
      rw [List.foldl_cons]
      obtain ⟨h1, h2, h3⟩ := ih (nkStep k0 v)
      refine ⟨Nat.le_trans (nkStep_ge k0 v) h1, ?_, ?_⟩
      · intro v' hv' j hs hj
        rcases List.mem_cons.1 hv' with rfl | hv'
        · exact Nat.lt_of_lt_of_le (nkStep_gt k0 hs hj) h1
        · exact h2 v' hv' j hs hj
      · intro b hb hall
        exact h3 b (nkStep_le hb (hall v List.mem_cons_self))
          (fun v' hv' => hall v' (List.mem_cons_of_mem _ hv'))

theorem mem_ownVotes {h : List Ev} {n p : Nat} {v : Vote} :
    v ∈ ownVotes h n p ↔ v ∈ votes h ∧ v.n = n ∧ v.p = p := by
  unfold ownVotes
  simp only [List.mem_filter, Bool.and_eq_true, beq_iff_eq]

theorem nextK_fresh {h : List Ev} {n p j : Nat} {v : Vote} (hv : v ∈ votes h) (hn : v.n = n) (hp : v.p = p)
    (hs : v.s = .next j) (hj : j < 250) : j < nextK h n p := by
  rw [nextK_eq]
  exact (foldl_nkStep _ 0).2.1 v (mem_ownVotes.2 ⟨hv, hn, hp⟩) j hs hj

theorem nextK_le {P : Params} {h : List Ev} {n p b : Nat} (hh : n ∈ hon P) (hst : StepLt P h p b) :
    nextK h n p ≤ b := by
  rw [nextK_eq]
  apply (foldl_nkStep _ 0).2.2 b (Nat.zero_le _)
  intro v hv j hs
  obtain ⟨hv, hn, hp⟩ := mem_ownVotes.1 hv
  exact hst v hv (by rw [hn]; exact hh) hp j hs

/-! ### next-type votes -/

theorem own_cert_committable {P : Params} (hq : HQ P) {E : Env} {h : List Ev} (wf : WF true P h) {p : Nat}
    (hav : CertAvail P E h p) {v' : Vote} (hv' : v' ∈ votes h) (hn : v'.n ∈ hon P) (hp : v'.p = p)
    (hs : v'.s = .cert) : ∃ y, v'.x = some y ∧ committable P E h p = some y := by
  have hh : P.honest v'.n = true := (mem_hon.1 hn).2
  obtain ⟨pre', hsuf, ok⟩ := vote_ok wf hv' hh
  have havl := hav v' hv' hn hp hs
  obtain ⟨n', p', s', x'⟩ := v'
  simp only at hp hs hh havl
  subst hp hs
  have hst : RCertStaged P pre' ⟨n', p', .cert, x'⟩ := ok.2.2.2
  cases x' with
  | none => exact False.elim hst
  | some y =>
      have hst' : stagedQ P pre' p' y := hst
      exact ⟨y, rfl, committable_eq_of_staged hq wf (stagedQ_mono (suffix_of_cons_suffix' hsuf) hst')
        (havl y rfl) (mem_vals.2 ⟨_, hv', rfl⟩)⟩

/-- the rules of a next-type vote, reduced to the phase-start history -/
theorem okVote_next {P : Params} {h X : List Ev} {n p k : Nat} {x : Option Val} (vw : View h X n)
    (hper : (localOf h n).period = p)
    (huniq : ∀ v' ∈ votes h, v'.n = n → v'.p = p → v'.s = .next k → False)
    (hcert : ∀ v' ∈ votes h, v'.n = n → v'.p = p → v'.s = .cert → v'.x = x)
    (hsome : ∀ y, x = some y → stagedQ P h p y ∨ (localOf h n).prev p = ⟨false, some y⟩)
    (hnone : x = none → ((localOf h n).prev p).bottom = true ∨ ((localOf h n).prev p).prop = none) :
    okVote true P X ⟨n, p, .next k, x⟩ := by
  refine ⟨Or.inl (fun v' hv' h1 h2 h3 => (huniq v' (vw.own v' hv' h1) h1 h2 h3).elim), ?_,
    Or.inl (fun v' hv' h1 h2 h3 => hcert v' (vw.own v' hv' h1) h1 h2 h3), ?_⟩
  · show (localOf X n).period = p
    rw [vw.loc]; exact hper
  · cases x with
    | some y =>
        show stagedQ P X p y ∨ (localOf X n).prev p = ⟨false, some y⟩
        rw [vw.loc]
        exact (hsome y rfl).imp (stagedQ_mono vw.suf) id
    | none =>
        show ((localOf X n).prev p).bottom = true ∨ ((localOf X n).prev p).prop = none
        rw [vw.loc]
        exact hnone rfl

theorem nextValue_of_comm {P : Params} {E : Env} {h : List Ev} {p : Nat} {y : Val} (c : Cache)
    (hc : committable P E h p = some y) : nextValue P E h p c = some y := by
  unfold nextValue; rw [hc]

theorem nextValue_some {P : Params} {E : Env} {h : List Ev} {p : Nat} {c : Cache} {y : Val}
    (hx : nextValue P E h p c = some y) : stagedQ P h p y ∨ c = ⟨false, some y⟩ := by
  unfold nextValue at hx
  cases hc : committable P E h p with
  | some z =>
      rw [hc] at hx
      simp only [Option.some.injEq] at hx
      subst hx
      exact Or.inl (committable_spec hc).1
  | none =>
      rw [hc] at hx
      obtain ⟨b, pr⟩ := c
      cases b
      · simp only [Bool.false_eq_true, if_false] at hx
        subst hx; exact Or.inr rfl
      · simp at hx

theorem nextValue_none {P : Params} {E : Env} {h : List Ev} {p : Nat} {c : Cache}
    (hx : nextValue P E h p c = none) : c.bottom = true ∨ c.prop = none := by
  unfold nextValue at hx
  cases hc : committable P E h p with
  | some z => rw [hc] at hx; simp at hx
  | none =>
      rw [hc] at hx
      obtain ⟨b, pr⟩ := c
      cases b
      · simp only [Bool.false_eq_true, if_false] at hx
        exact Or.inr hx
      · exact Or.inl rfl

theorem fastVote_of_comm {P : Params} {E : Env} {h : List Ev} {p : Nat} {y : Val} (c : Cache)
    (hc : committable P E h p = some y) : (fastVote P E h p c).2 = some y := by
  unfold fastVote; rw [hc]

theorem fastVote_step (P : Params) (E : Env) (h : List Ev) (p : Nat) (c : Cache) :
    ∃ k, 250 ≤ k ∧ (fastVote P E h p c).1 = .next k := by
  unfold fastVote
  split
  · exact ⟨250, Nat.le_refl _, rfl⟩
  · split
    · exact ⟨252, by omega, rfl⟩
    · split
      · exact ⟨251, by omega, rfl⟩
      · exact ⟨252, by omega, rfl⟩

theorem fastVote_some {P : Params} {E : Env} {h : List Ev} {p : Nat} {c : Cache} {y : Val}
    (hx : (fastVote P E h p c).2 = some y) : stagedQ P h p y ∨ c = ⟨false, some y⟩ := by
  unfold fastVote at hx
  cases hc : committable P E h p with
  | some z =>
      rw [hc] at hx
      simp only [Option.some.injEq] at hx
      subst hx
      exact Or.inl (committable_spec hc).1
  | none =>
      rw [hc] at hx
      obtain ⟨b, pr⟩ := c
      cases b <;> cases pr <;> simp at hx
      subst hx; exact Or.inr rfl

theorem fastVote_none {P : Params} {E : Env} {h : List Ev} {p : Nat} {c : Cache}
    (hx : (fastVote P E h p c).2 = none) : c.bottom = true ∨ c.prop = none := by
  unfold fastVote at hx
  cases hc : committable P E h p with
  | some z => rw [hc] at hx; simp at hx
  | none =>
      obtain ⟨b, pr⟩ := c
      cases b
      · cases pr
        · exact Or.inr rfl
        · rw [hc] at hx; simp at hx
      · exact Or.inl rfl

theorem nextOf_shape (P : Params) (E : Env) (h : List Ev) (p : Nat) (m : Node) :
    ∀ e ∈ nextOf P E h p m, ∃ k x, e = Ev.vote ⟨m, p, .next k, x⟩ := by
  intro e he
  unfold nextOf at he
  split at he
  · rw [List.mem_singleton] at he; exact ⟨_, _, he⟩
  · simp at he

theorem fastOf_shape (P : Params) (E : Env) (h : List Ev) (p : Nat) (m : Node) :
    ∀ e ∈ fastOf P E h p m, ∃ k x, e = Ev.vote ⟨m, p, .next k, x⟩ := by
  intro e he
  unfold fastOf at he
  split at he
  · rw [List.mem_singleton] at he
    obtain ⟨k, hk⟩ := fastVote_isNext P E h p ((localOf h m).prev p)
    rw [hk] at he
    exact ⟨_, _, he⟩
  · simp at he

theorem deadlineTimeout_wf {P : Params} (hq : HQ P) (hN : (hon P).Nodup) (E : Env) (p : Nat) {h : List Ev}
    (wf : WF true P h) (hav : CertAvail P E h p) (hst : StepLt P h p 249) :
    WF true P (deadlineTimeout P E p h) := by
  unfold deadlineTimeout
  apply wf_phase1 hN (fun m e he => voteP_owned (nextOf_voteP P E h p m e he)) wf
  · intro n
    unfold nextOf
    split
    · exact Or.inr ⟨_, rfl⟩
    · exact Or.inl rfl
  · intro n hn _ X vw e he
    have hh := (mem_hon.1 hn).2
    unfold nextOf at he
    split at he
    · rename_i hper
      simp only [List.cons.injEq, and_true] at he
      subst he
      intro _
      apply okVote_next vw hper
      · intro v' hv' h1 h2 h3
        have hk := nextK_le hn hst
        have := nextK_fresh hv' h1 h2 h3 (by omega)
        omega
      · intro v' hv' h1 h2 h3
        obtain ⟨y, hy, hc⟩ := own_cert_committable hq wf hav hv' (by rw [h1]; exact hn) h2 h3
        rw [hy, nextValue_of_comm _ hc]
      · intro y hy; exact nextValue_some hy
      · intro hy; exact nextValue_none hy
    · simp at he

theorem fastTimeout_wf {P : Params} (hq : HQ P) (hN : (hon P).Nodup) (E : Env) (p : Nat) {h : List Ev}
    (wf : WF true P h) (hav : CertAvail P E h p) (hst : StepLt P h p 250) :
    WF true P (fastTimeout P E p h) := by
  unfold fastTimeout
  apply wf_phase1 hN (fun m e he => voteP_owned (fastOf_voteP P E h p m e he)) wf
  · intro n
    unfold fastOf
    split
    · exact Or.inr ⟨_, rfl⟩
    · exact Or.inl rfl
  · intro n hn _ X vw e he
    have hh := (mem_hon.1 hn).2
    unfold fastOf at he
    split at he
    · rename_i hper
      simp only [List.cons.injEq, and_true] at he
      subst he
      intro _
      obtain ⟨k, hk250, hk⟩ := fastVote_step P E h p ((localOf h n).prev p)
      rw [hk]
      apply okVote_next vw hper
      · intro v' hv' h1 h2 h3
        have := hst v' hv' (by rw [h1]; exact hn) h2 k h3
        omega
      · intro v' hv' h1 h2 h3
        obtain ⟨y, hy, hc⟩ := own_cert_committable hq wf hav hv' (by rw [h1]; exact hn) h2 h3
        rw [hy, fastVote_of_comm _ hc]
      · intro y hy; exact fastVote_some hy
      · intro hy; exact fastVote_none hy
    · simp at he

theorem StepLt.deadlineTimeout {P : Params} {E : Env} {h : List Ev} {p : Nat} (hst : StepLt P h p 249) :
    StepLt P (deadlineTimeout P E p h) p 250 := by
  unfold StepLt AlgoVerif.Spec.AgreementSync.deadlineTimeout
  apply votes_phase_forall (hst.mono (by omega))
  intro m hm v hv _ _ k hk
  unfold nextOf at hv
  split at hv
  · simp only [List.mem_singleton, Ev.vote.injEq] at hv
    subst hv
    simp only [Step.next.injEq] at hk
    have := nextK_le hm hst
    omega
  · simp at hv

/-- **(3)** one deadline and the recovery step are a well-formed extension -/
theorem syncAdvance_wf {P : Params} {E : Env} {h : List Ev} {p : Nat}
    (hq : HQ P) (hnd : P.nodes.Nodup) (wf : WF true P h) (hav : CertAvail P E h p) (hst : StepLt P h p 249) :
    WF true P (syncAdvance P E p h) := by
  have hN : (hon P).Nodup := hnd.filter _
  unfold syncAdvance
  have wf1 := deliver_wf hN p wf
  have av1 := hav.deliver p
  have st1 := hst.deliver p
  have wf2 := certOnDelivery_wf hN E p wf1
  have av2 := av1.certOnDelivery
  have st2 := st1.certOnDelivery (E := E)
  have wf3 := commitOnDelivery_wf hN E p wf2
  have av3 := av2.commitOnDelivery
  have st3 := st2.commitOnDelivery (E := E)
  have wf4 := deadlineTimeout_wf hq hN E p wf3 av3 st3
  have av4 : CertAvail P E (deadlineTimeout P E p _) p := av3.nextPhase (nextOf_shape P E _ p)
  have st4 := st3.deadlineTimeout (E := E)
  have wf5 := deliver_wf hN (p + 1) wf4
  have av5 := av4.deliver (p + 1)
  have st5 := st4.deliver (p + 1)
  have wf6 := fastTimeout_wf hq hN E p wf5 av5 st5
  exact deliver_wf hN (p + 1) wf6

/-! ### composing periods -/

/-- every honest node has left the round -/
def AllCommitted (P : Params) (h : List Ev) : Prop := ∀ n ∈ hon P, committedB h n = true
instance (P h) : Decidable (AllCommitted P h) := by unfold AllCommitted; infer_instance

/-- a well-formed history at the common start of period `q` -/
def PeriodStart (P : Params) (h : List Ev) (q : Nat) : Prop :=
  WF true P h ∧ FreshAt P h q ∧ ∃ c, CommonStart P h q c

theorem filterTimeout_suffix (P : Params) (E : Env) (p : Nat) (h : List Ev) :
    h <:+ filterTimeout P E p h := phase_suffix _ _ _
theorem certOnDelivery_suffix (P : Params) (E : Env) (p : Nat) (h : List Ev) :
    h <:+ certOnDelivery P E p h := phase_suffix _ _ _
theorem commitOnDelivery_suffix (P : Params) (E : Env) (p : Nat) (h : List Ev) :
    h <:+ commitOnDelivery P E p h := phase_suffix _ _ _

theorem syncFresh_suffix (P : Params) (E : Env) (p : Nat) (h : List Ev) : h <:+ syncFresh P E p h :=
  ((filterTimeout_suffix P E p h).trans (certOnDelivery_suffix P E p _)).trans (commitOnDelivery_suffix P E p _)

theorem syncAdvance_suffix (P : Params) (E : Env) (p : Nat) (h : List Ev) : h <:+ syncAdvance P E p h :=
  ((((((deliver_suffix P p h).trans (certOnDelivery_suffix P E p _)).trans (commitOnDelivery_suffix P E p _)).trans
    (deadlineTimeout_suffix P E p _)).trans (deliver_suffix P (p + 1) _)).trans
    (fastTimeout_suffix P E p _)).trans (deliver_suffix P (p + 1) _)

theorem AllCommitted.mono {P : Params} {t h : List Ev} (hs : t <:+ h) (hc : AllCommitted P t) :
    AllCommitted P h := fun n hn => committedB_mono hs (hc n hn)

theorem commitOf_quiet (P : Params) (E : Env) (h : List Ev) (p : Nat) (m : Node) :
    ∀ e ∈ commitOf P E h p m, Quiet e := by
  intro e he
  unfold commitOf at he
  split at he
  · rw [List.mem_singleton] at he; subst he; trivial
  · simp at he

theorem syncFresh_localOf (P : Params) (E : Env) (p : Nat) (h : List Ev) (n : Node) :
    localOf (syncFresh P E p h) n = localOf h n := by
  unfold syncFresh commitOnDelivery certOnDelivery filterTimeout
  rw [localOf_phase_quiet (commitOf_quiet P E _ p), localOf_phase_quiet (certOf_quiet P E _ p),
    localOf_phase_quiet (softOf_quiet E _ p)]

theorem committedB_filterTimeout (P : Params) (E : Env) (p : Nat) (h : List Ev) (n : Node) :
    committedB (filterTimeout P E p h) n = committedB h n := by
  unfold filterTimeout
  exact committedB_phase (quiet_not_commit (fun m e he => by
    obtain ⟨x, hx⟩ := softOf_votes E h p m e he; exact ⟨_, hx⟩)) n

theorem committedB_certOnDelivery (P : Params) (E : Env) (p : Nat) (h : List Ev) (n : Node) :
    committedB (certOnDelivery P E p h) n = committedB h n := by
  unfold certOnDelivery
  exact committedB_phase (quiet_not_commit (fun m e he => by
    obtain ⟨x, hx⟩ := certOf_votes P E h p m e he; exact ⟨_, hx⟩)) n

/-- the commit phase is all-or-none: every honest node evaluates the same `find?` -/
theorem commitOnDelivery_allOrNone {P : Params} (E : Env) (p : Nat) {h : List Ev}
    (hopen : ∀ n ∈ hon P, committedB h n = false) :
    AllCommitted P (commitOnDelivery P E p h) ∨ commitOnDelivery P E p h = h := by
  cases hfind : (vals h).find? (fun v => decide (certQ P h p v) && E.avail v) with
  | some v =>
      left
      intro n hn
      rw [committedB_iff]
      refine ⟨p, v, ?_⟩
      unfold commitOnDelivery
      rw [mem_phase]
      refine Or.inr ⟨n, hn, hopen n hn, ?_⟩
      unfold commitOf
      rw [hfind]; exact List.mem_singleton_self _
  | none =>
      right
      unfold commitOnDelivery phase commitOf
      rw [hfind]; simp

theorem syncFresh_allOrNone {P : Params} (E : Env) (p : Nat) {h : List Ev}
    (hopen : ∀ n ∈ hon P, committedB h n = false) :
    AllCommitted P (syncFresh P E p h) ∨ ∀ n ∈ hon P, committedB (syncFresh P E p h) n = false := by
  have hopen2 : ∀ n ∈ hon P, committedB (certOnDelivery P E p (filterTimeout P E p h)) n = false := by
    intro n hn
    rw [committedB_certOnDelivery, committedB_filterTimeout]; exact hopen n hn
  unfold syncFresh
  rcases commitOnDelivery_allOrNone E p hopen2 with hall | heq
  · exact Or.inl hall
  · rw [heq]; exact Or.inr hopen2

/-- a phase that casts no cert vote -/
theorem CertAvail.phase_noCert {P : Params} {E : Env} {h : List Ev} {p : Nat} (hav : CertAvail P E h p)
    {f : Node → List Ev} (hf : ∀ m, ∀ v, Ev.vote v ∈ f m → v.s ≠ .cert) :
    CertAvail P E (phase P h f) p := by
  unfold CertAvail
  apply votes_phase_forall hav
  intro m _ v hv _ _ hs
  exact absurd hs (hf m v hv)

/-- a phase that casts no next-type vote -/
theorem StepLt.phase_noNext {P : Params} {h : List Ev} {p b : Nat} (hst : StepLt P h p b)
    {f : Node → List Ev} (hf : ∀ m, ∀ v, Ev.vote v ∈ f m → ∀ k, v.s ≠ .next k) :
    StepLt P (phase P h f) p b := by
  unfold StepLt
  apply votes_phase_forall hst
  intro m _ v hv _ _ k hk
  exact absurd hk (hf m v hv k)

theorem fresh_no_votes {P : Params} {h : List Ev} {p : Nat} (hf : FreshAt P h p) {v : Vote}
    (hv : v ∈ votes h) (hn : v.n ∈ hon P) (hp : v.p = p) : False := by
  have : v ∈ ownVotes h v.n p := mem_ownVotes.2 ⟨hv, rfl, hp⟩
  rw [(hf v.n hn).2.1] at this
  simp at this

theorem syncFresh_certAvail {P : Params} (E : Env) {h : List Ev} {p : Nat} (hf : FreshAt P h p) :
    CertAvail P E (syncFresh P E p h) p := by
  have h0 : CertAvail P E h p := fun v hv hn hp _ _ _ => (fresh_no_votes hf hv hn hp).elim
  have h1 : CertAvail P E (filterTimeout P E p h) p := h0.phase_noCert (fun m v hv => by
    obtain ⟨x, hx⟩ := softOf_votes E h p m _ hv
    cases hx; simp)
  exact h1.certOnDelivery.commitOnDelivery

theorem syncFresh_stepLt {P : Params} (E : Env) {h : List Ev} {p : Nat} (hf : FreshAt P h p) (b : Nat) :
    StepLt P (syncFresh P E p h) p b := by
  have h0 : StepLt P h p b := fun v hv hn hp _ _ => (fresh_no_votes hf hv hn hp).elim
  have h1 : StepLt P (filterTimeout P E p h) p b := h0.phase_noNext (fun m v hv k => by
    obtain ⟨x, hx⟩ := softOf_votes E h p m _ hv
    cases hx; simp)
  exact (h1.certOnDelivery (E := E)).commitOnDelivery

/-- `syncAdvance_spec` + `syncAdvance_wf`: after the advance everybody has committed or period `p + 1` starts -/
theorem advance_start {P : Params} {E : Env} {h : List Ev} {p : Nat}
    (hq : HQ P) (hT : HonestQuorum P) (hnd : P.nodes.Nodup) (wf : WF true P h)
    (hle : ∀ n ∈ hon P, (localOf h n).period ≤ p) (htop : ∃ n ∈ hon P, (localOf h n).period = p)
    (hopen : ∀ n ∈ hon P, committedB h n = false)
    (hav : CertAvail P E h p) (hst : StepLt P h p 249) :
    AllCommitted P (syncAdvance P E p h) ∨ PeriodStart P (syncAdvance P E p h) (p + 1) := by
  rcases syncAdvance_spec (E := E) hq hT hnd wf hle htop hopen with hc | ⟨c, hf, hcs⟩
  · exact Or.inl hc
  · exact Or.inr ⟨syncAdvance_wf hq hnd wf hav hst, hf, c, hcs⟩

/-- one period from its common start (filter timeout … deadline, recovery): everybody commits or the next period starts -/
theorem period_step {P : Params} (hq : HQ P) (hT : HonestQuorum P) (hnd : P.nodes.Nodup) {h : List Ev} {q : Nat}
    (hs : PeriodStart P h q) (E : Env) :
    AllCommitted P (syncAdvance P E q (syncFresh P E q h)) ∨
    PeriodStart P (syncAdvance P E q (syncFresh P E q h)) (q + 1) := by
  obtain ⟨wf, hf, c, hc⟩ := hs
  cases hne : hon P with
  | nil => left; intro n hn; rw [hne] at hn; simp at hn
  | cons n0 rest =>
  have hn0 : n0 ∈ hon P := by rw [hne]; exact List.mem_cons_self
  rcases syncFresh_allOrNone E q (fun n hn => (hf n hn).2.2) with hall | hnone
  · exact Or.inl (hall.mono (syncAdvance_suffix _ _ _ _))
  · apply advance_start hq hT hnd (syncFresh_wf hnd E q wf) _ _ hnone (syncFresh_certAvail E hf)
      (syncFresh_stepLt E hf 249)
    · intro n hn
      rw [syncFresh_localOf]; exact Nat.le_of_eq (hf n hn).1
    · exact ⟨n0, hn0, by rw [syncFresh_localOf]; exact (hf n0 hn0).1⟩

/-- … and with a good leader everybody commits -/
theorem period_step_good {P : Params} (hT : HonestQuorum P) {h : List Ev} {q : Nat}
    (hs : PeriodStart P h q) {E : Env} (hg : ∀ c : Cache, ∃ w, softValue E c = some w ∧ E.avail w = true) :
    AllCommitted P (syncAdvance P E q (syncFresh P E q h)) := by
  obtain ⟨_, hf, c, hc⟩ := hs
  obtain ⟨w, hw, ha⟩ := hg c
  obtain ⟨v, _, hall⟩ := syncFresh_commits hT hf hc hw ha
  apply AllCommitted.mono (syncAdvance_suffix _ _ _ _)
  intro n hn
  rw [committedB_iff]
  exact ⟨q, v, hall n hn⟩

end AlgoVerif.Lemmas.AgreementSync
