import AlgoVerif.Lemmas.VpackPhases
/-! No input makes `Compress` or `Decompress` panic (index out of range), and whatever they return — a result
or an error — the table state they leave behind still satisfies the invariant. -/
namespace AlgoVerif.Lemmas.Vpack
open AlgoVerif.Model.Vpack AlgoVerif.Spec.Vpack

/-- outcome of a phase: invariant kept, and an error is never the panic token -/
def Safe (r : EM Ctx) : Prop :=
  match r with
  | .ok c' => WF c'.st
  | .error (e, s) => e ≠ .panic ∧ WF s

theorem safe_andThen (x : EM Ctx) (f : Ctx → EM Ctx) (hx : Safe x) (hf : ∀ c, WF c.st → Safe (f c)) :
    Safe (andThen x f) := by
  unfold andThen
  cases x with
  | ok c => exact hf c hx
  | error e => exact hx

theorem beNat_lt_aux (bs : Bytes) : ∀ a : Nat, bs.foldl (fun a b => a * 256 + b.toNat) a < (a + 1) * 256 ^ bs.length := by
  induction bs with
  | nil => intro a; simp
  | cons b bs ih =>
    intro a
    simp only [List.foldl_cons, List.length_cons]
    have h1 := ih (a * 256 + b.toNat)
    have hb : b.toNat < 256 := by have := UInt8.toNat_lt b; omega
    have h2 : (a * 256 + b.toNat + 1) * 256 ^ bs.length ≤ ((a + 1) * 256) * 256 ^ bs.length :=
      Nat.mul_le_mul_right _ (by omega)
    calc _ < (a * 256 + b.toNat + 1) * 256 ^ bs.length := h1
      _ ≤ ((a + 1) * 256) * 256 ^ bs.length := h2
      _ = (a + 1) * 256 ^ (bs.length + 1) := by rw [Nat.pow_succ, Nat.mul_assoc, Nat.mul_comm 256]

theorem beNat_lt (bs : Bytes) : beNat bs < 256 ^ bs.length := by
  have := beNat_lt_aux bs 0
  simpa [beNat] using this

theorem varuintRemaining_le {b : UInt8} {m : Nat} (h : varuintRemaining b = some m) : m ≤ 8 := by
  unfold varuintRemaining at h
  repeat' split at h
  all_goals first | (cases h; omega) | cases h

theorem readVaruint_safe (r : Bytes) :
    match readVaruint r with
    | .ok (_, v, _) => v < M64
    | .error e => e ≠ .panic := by
  unfold readVaruint
  cases r with
  | nil => simp
  | cons b rest =>
    simp only
    cases hm : varuintRemaining b with
    | none => simp
    | some more =>
      simp only
      by_cases hl : more ≤ rest.length
      · rw [if_pos hl]
        simp only
        by_cases h0 : more = 0
        · rw [if_pos h0]; have := UInt8.toNat_lt b; simp only [M64]; omega
        · rw [if_neg h0]
          have h1 := beNat_lt (rest.take more)
          have h2 : (rest.take more).length = more := by simp [List.length_take]; omega
          rw [h2] at h1
          have h3 : 256 ^ more ≤ 256 ^ 8 := Nat.pow_le_pow_right (by decide) (varuintRemaining_le hm)
          have h4 : (256 : Nat) ^ 8 = M64 := by decide
          omega
      · rw [if_neg hl]; simp

theorem readVaruintBytes_safe (r : Bytes) : ∀ e, readVaruintBytes r = .error e → e ≠ .panic := by
  intro e h
  unfold readVaruintBytes at h
  have := readVaruint_safe r
  split at h
  · rename_i e' he; rw [he] at this; cases h; exact this
  · cases h

theorem safe_passFixed (n : Nat) (c : Ctx) (h : WF c.st) : Safe (passFixed n c) := by
  unfold passFixed
  split
  · exact ⟨by decide, h⟩
  · exact h

theorem safe_whenBit_varuint (hdr0 bit : UInt8) (c : Ctx) (h : WF c.st) : Safe (whenBit hdr0 bit passVaruint c) := by
  unfold whenBit
  split
  · unfold passVaruint
    split
    · rename_i e he; exact ⟨readVaruintBytes_safe _ e he, h⟩
    · exact h
  · exact h

theorem safe_checkEnd (c : Ctx) (h : WF c.st) : Safe (checkEnd c) := by
  unfold checkEnd
  split
  · exact h
  · exact ⟨by decide, h⟩

theorem optFixed_safe (hdr0 bit : UInt8) (n : Nat) (r : Bytes) : ∀ e, optFixed hdr0 bit n r = .error e → e ≠ .panic := by
  intro e h
  unfold optFixed at h
  split at h
  · split at h
    · cases h; decide
    · cases h
  · cases h

theorem readPropLiteral_safe (hdr0 : UInt8) (r : Bytes) : ∀ e, readPropLiteral hdr0 r = .error e → e ≠ .panic := by
  intro e h
  unfold readPropLiteral at h
  split at h
  · rename_i e1 h1; cases h; exact optFixed_safe _ _ _ _ _ h1
  · split at h
    · rename_i e1 h1; cases h; exact optFixed_safe _ _ _ _ _ h1
    · split at h
      · rename_i e1 h1
        cases h
        split at h1
        · exact readVaruintBytes_safe _ _ h1
        · cases h1
      · split at h
        · rename_i e1 h1; cases h; exact optFixed_safe _ _ _ _ _ h1
        · cases h

theorem wf_win (s : TableState) (w : PropWindow) (h : WF s) (h1 : w.size ≤ 7) (h2 : w.head < 7) : WF { s with win := w } :=
  ⟨h.1, h.2.1, h.2.2.1, h1, h2, h.2.2.2.2.2⟩

theorem wf_rnd (s : TableState) (u : Nat) (h : WF s) (hu : u < M64) : WF { s with lastRnd := u } :=
  ⟨h.1, h.2.1, h.2.2.1, h.2.2.2.1, h.2.2.2.2.1, hu⟩

theorem safe_decProp (hdr0 : UInt8) (c : Ctx) (h : WF c.st) : Safe (decProp hdr0 c) := by
  unfold decProp
  simp only
  split
  · split
    · rename_i e he; exact ⟨readPropLiteral_safe _ _ e he, h⟩
    · rename_i prop r _
      have hi := insertNew_wf c.st.win prop h.2.2.2.1 h.2.2.2.2.1
      exact wf_win _ _ h hi.1 hi.2
  · split
    · exact ⟨by decide, h⟩
    · exact h

theorem safe_encProp (hdr0 : UInt8) (c : Ctx) (h : WF c.st) : Safe (encProp hdr0 c) := by
  unfold encProp
  split
  · rename_i e he; exact ⟨readPropLiteral_safe _ _ e he, h⟩
  · rename_i prop r _
    simp only
    split
    · exact h
    · have hi := insertNew_wf c.st.win prop h.2.2.2.1 h.2.2.2.2.1
      exact wf_win _ _ h hi.1 hi.2

theorem safe_decRnd (c : Ctx) (h : WF c.st) : Safe (decRnd c) := by
  have hl : c.st.lastRnd < M64 := h.2.2.2.2.2
  unfold decRnd
  simp only
  split
  · exact h
  · split
    · split
      · exact ⟨by decide, h⟩
      · rename_i hne
        exact wf_rnd _ _ h (by simp only [M64] at *; omega)
    · split
      · split
        · exact ⟨by decide, h⟩
        · exact wf_rnd _ _ h (by omega)
      · have hs := readVaruint_safe c.rem
        split
        · rename_i e he; rw [he] at hs; exact ⟨hs, h⟩
        · rename_i d v r' he; rw [he] at hs; exact wf_rnd _ _ h hs

theorem safe_encRnd (c : Ctx) (h : WF c.st) : Safe (encRnd c) := by
  unfold encRnd
  have hs := readVaruint_safe c.rem
  split
  · rename_i e he; rw [he] at hs; exact ⟨hs, h⟩
  · rename_i d v r' he
    rw [he] at hs
    simp only
    have := wf_rnd _ _ h hs
    repeat' split
    all_goals exact this

theorem fetch_safe (t : LruTable) (id : Nat) (hwf : LruWF t) :
    t.fetch id = .ok none ∨ ∃ k t', t.fetch id = .ok (some (k, t')) ∧ LruWF t' := by
  unfold LruTable.fetch
  simp only
  by_cases hb : id >>> 1 ≥ t.numBuckets
  · rw [if_pos hb]; exact Or.inl rfl
  · rw [if_neg hb]
    obtain ⟨t', h1, h2, h3, h4⟩ := setMRUSlot_ok t (id >>> 1) (id &&& 1) hwf (by omega)
    rw [h1]
    simp only
    have : id >>> 1 < t'.buckets.size := by rw [h3, hwf.2.2.1]; omega
    rw [Array.getElem?_eq_getElem this]
    exact Or.inr ⟨_, _, rfl, h2⟩

theorem safe_decLru (T : Tbl) (c : Ctx) (h : WF c.st) : Safe (decLru T c) := by
  have hg := tbl_get_wf T c.st h
  unfold decLru
  split
  · split
    · exact ⟨by decide, h⟩
    · rename_i idb r _
      rcases fetch_safe (T.get c.st) (beNat idb) hg with hf | ⟨k, t', hf, hw⟩
      · rw [hf]; exact ⟨by cases T <;> decide, h⟩
      · rw [hf]; exact tbl_set_wf T c.st t' h hw
  · split
    · exact ⟨by decide, h⟩
    · rename_i k r _
      obtain ⟨t', hi, hw⟩ := insert_ok (T.get c.st) k (T.hash k) hg
      rw [hi]; exact tbl_set_wf T c.st t' h hw

theorem safe_encLru (T : Tbl) (c : Ctx) (h : WF c.st) : Safe (encLru T c) := by
  have hg := tbl_get_wf T c.st h
  unfold encLru
  split
  · exact ⟨by decide, h⟩
  · rename_i k r _
    rcases lookup_ok (T.get c.st) k (T.hash k) hg with ⟨id, t', hl, hw⟩ | hl
    · rw [hl]; exact tbl_set_wf T c.st t' h hw
    · rw [hl]
      obtain ⟨t', hi, hw⟩ := insert_ok (T.get c.st) k (T.hash k) hg
      simp only [hi]; exact tbl_set_wf T c.st t' h hw

theorem safe_decPhases (hdr0 : UInt8) (c : Ctx) (h : WF c.st) : Safe (decPhases hdr0 c) := by
  unfold decPhases
  refine safe_andThen _ _ (safe_andThen _ _ (safe_andThen _ _ (safe_andThen _ _ (safe_andThen _ _ (safe_andThen _ _
    (safe_andThen _ _ (safe_andThen _ _ (safe_andThen _ _ (safe_passFixed 80 c h) ?_) ?_) ?_) ?_) ?_) ?_) ?_) ?_) ?_
  · exact safe_whenBit_varuint _ _
  · exact safe_decProp _
  · exact safe_decRnd
  · exact safe_decLru _
  · exact safe_whenBit_varuint _ _
  · exact safe_decLru _
  · exact safe_decLru _
  · exact safe_passFixed 64
  · exact safe_checkEnd

theorem safe_encPhases (hdr0 : UInt8) (c : Ctx) (h : WF c.st) : Safe (encPhases hdr0 c) := by
  unfold encPhases
  refine safe_andThen _ _ (safe_andThen _ _ (safe_andThen _ _ (safe_andThen _ _ (safe_andThen _ _ (safe_andThen _ _
    (safe_andThen _ _ (safe_andThen _ _ (safe_andThen _ _ (safe_passFixed 80 c h) ?_) ?_) ?_) ?_) ?_) ?_) ?_) ?_) ?_
  · exact safe_whenBit_varuint _ _
  · exact safe_encProp _
  · exact safe_encRnd
  · exact safe_encLru _
  · exact safe_whenBit_varuint _ _
  · exact safe_encLru _
  · exact safe_encLru _
  · exact safe_passFixed 64
  · exact safe_checkEnd

theorem decompress_safe (st : TableState) (src : Bytes) (h : WF st) :
    (decompress st src).2 ≠ .error .panic ∧ WF (decompress st src).1 := by
  unfold decompress
  split
  · rename_i hdr0 hdr1 r
    have hs := safe_decPhases hdr0 { st := st, rem := r, out := [], hdr1 := hdr1 } h
    unfold Safe at hs
    split
    · rename_i e st' he
      rw [he] at hs
      exact ⟨fun hc => hs.1 (by cases hc; rfl), hs.2⟩
    · rename_i c' he
      rw [he] at hs
      exact ⟨fun hc => (by cases hc), hs⟩
  · exact ⟨fun hc => (by cases hc), h⟩

theorem compress_safe (st : TableState) (src : Bytes) (h : WF st) :
    (compress st src).2 ≠ .error .panic ∧ WF (compress st src).1 := by
  unfold compress
  split
  · rename_i hdr0 hdr1 r
    have hs := safe_encPhases hdr0 { st := st, rem := r, out := [], hdr1 := 0 } h
    unfold Safe at hs
    split
    · rename_i e st' he
      rw [he] at hs
      exact ⟨fun hc => hs.1 (by cases hc; rfl), hs.2⟩
    · rename_i c' he
      rw [he] at hs
      exact ⟨fun hc => (by cases hc), hs⟩
  · exact ⟨fun hc => (by cases hc), h⟩

end AlgoVerif.Lemmas.Vpack
