/-
Lemmas.LedgerCoreAsset — get-after-put laws of the asset views of the cow (params, holdings, creators), and the effect of
every asset operation on them (C22).
-/
import AlgoVerif.Lemmas.LedgerCoreCow
namespace AlgoVerif.Lemmas.LedgerCore
open AlgoVerif.Model.LedgerCore

/-! ## get-after-put: holdings and params -/

theorem lookupHoldingD_putHoldingD (x : Ctx) (l : Layer) (k k' : ResKey) (d : Delta Holding) (hd : d ≠ .absent) :
    lookupHoldingD (putHoldingD x l k d :: x.parents) x.base k' =
      if k' = k then d else lookupHoldingD (l :: x.parents) x.base k' := by
  simp only [lookupHoldingD, putHoldingD, alookup_upsert]
  by_cases h : k' = k
  · simp [h, hd]
  · simp [h]

theorem lookupParamsD_putHoldingD (x : Ctx) (l : Layer) (k k' : ResKey) (d : Delta Holding) :
    lookupParamsD (putHoldingD x l k d :: x.parents) x.base k' = lookupParamsD (l :: x.parents) x.base k' := by
  by_cases h : k' = k
  · subst h
    have e : lookupParamsD (putHoldingD x l k' d :: x.parents) x.base k' =
        (if lookupParamsD (l :: x.parents) x.base k' = .absent then lookupParamsD x.parents x.base k'
         else lookupParamsD (l :: x.parents) x.base k') := by
      simp only [lookupParamsD, putHoldingD, alookup_upsert, if_true]
      rfl
    rw [e]
    split
    · rename_i ha; rw [ha]; exact lookupParamsD_absent_tail ha
    · rfl
  · simp only [lookupParamsD, putHoldingD, alookup_upsert, if_neg h]

theorem lookupParamsD_putParamsD (x : Ctx) (l : Layer) (k k' : ResKey) (d : Delta AssetParams) (hd : d ≠ .absent) :
    lookupParamsD (putParamsD x l k d :: x.parents) x.base k' =
      if k' = k then d else lookupParamsD (l :: x.parents) x.base k' := by
  simp only [lookupParamsD, putParamsD, alookup_upsert]
  by_cases h : k' = k
  · simp [h, hd]
  · simp [h]

theorem lookupHoldingD_putParamsD (x : Ctx) (l : Layer) (k k' : ResKey) (d : Delta AssetParams) :
    lookupHoldingD (putParamsD x l k d :: x.parents) x.base k' = lookupHoldingD (l :: x.parents) x.base k' := by
  by_cases h : k' = k
  · subst h
    have e : lookupHoldingD (putParamsD x l k' d :: x.parents) x.base k' =
        (if lookupHoldingD (l :: x.parents) x.base k' = .absent then lookupHoldingD x.parents x.base k'
         else lookupHoldingD (l :: x.parents) x.base k') := by
      simp only [lookupHoldingD, putParamsD, alookup_upsert, if_true]
      rfl
    rw [e]
    split
    · rename_i ha; rw [ha]; exact lookupHoldingD_absent_tail ha
    · rfl
  · simp only [lookupHoldingD, putParamsD, alookup_upsert, if_neg h]

theorem holdingOf_putHoldingD (x : Ctx) (l : Layer) (k k' : ResKey) (d : Delta Holding) (hd : d ≠ .absent) :
    holdingOf x (putHoldingD x l k d) k' = if k' = k then d.toOption else holdingOf x l k' := by
  unfold holdingOf
  rw [lookupHoldingD_putHoldingD x l k k' d hd]
  split <;> rfl

theorem paramsOf_putHoldingD (x : Ctx) (l : Layer) (k k' : ResKey) (d : Delta Holding) :
    paramsOf x (putHoldingD x l k d) k' = paramsOf x l k' := by
  unfold paramsOf; rw [lookupParamsD_putHoldingD]

theorem paramsOf_putParamsD (x : Ctx) (l : Layer) (k k' : ResKey) (d : Delta AssetParams) (hd : d ≠ .absent) :
    paramsOf x (putParamsD x l k d) k' = if k' = k then d.toOption else paramsOf x l k' := by
  unfold paramsOf
  rw [lookupParamsD_putParamsD x l k k' d hd]
  split <;> rfl

theorem holdingOf_putParamsD (x : Ctx) (l : Layer) (k k' : ResKey) (d : Delta AssetParams) :
    holdingOf x (putParamsD x l k d) k' = holdingOf x l k' := by
  unfold holdingOf; rw [lookupHoldingD_putParamsD]

theorem holdingOf_putAcct (x : Ctx) (l : Layer) (a : Addr) (v : Account) (k : ResKey) :
    holdingOf x (putAcct l a v) k = holdingOf x l k := rfl
theorem paramsOf_putAcct (x : Ctx) (l : Layer) (a : Addr) (v : Account) (k : ResKey) :
    paramsOf x (putAcct l a v) k = paramsOf x l k := rfl
theorem creatorOf_putAcct (x : Ctx) (l : Layer) (a : Addr) (v : Account) (i : AssetId) :
    creatorOf x (putAcct l a v) i = creatorOf x l i := rfl
theorem holdingOf_putCreatable (x : Ctx) (l : Layer) (i : AssetId) (cr : Addr) (b : Bool) (k : ResKey) :
    holdingOf x (putCreatable l i cr b) k = holdingOf x l k := rfl
theorem paramsOf_putCreatable (x : Ctx) (l : Layer) (i : AssetId) (cr : Addr) (b : Bool) (k : ResKey) :
    paramsOf x (putCreatable l i cr b) k = paramsOf x l k := rfl
theorem creatorOf_putHoldingD (x : Ctx) (l : Layer) (k : ResKey) (d : Delta Holding) (i : AssetId) :
    creatorOf x (putHoldingD x l k d) i = creatorOf x l i := rfl
theorem creatorOf_putParamsD (x : Ctx) (l : Layer) (k : ResKey) (d : Delta AssetParams) (i : AssetId) :
    creatorOf x (putParamsD x l k d) i = creatorOf x l i := rfl

theorem creatorOf_putCreatable (x : Ctx) (l : Layer) (i i' : AssetId) (cr : Addr) (b : Bool) :
    creatorOf x (putCreatable l i cr b) i' = if i' = i then (if b then some cr else none) else creatorOf x l i' := by
  simp only [creatorOf, lookupCreator, putCreatable, alookup_upsert]
  by_cases h : i' = i
  · simp [h]
  · simp [h]

/-- the amount a holding delta shows -/
def dAmount : Delta Holding → Nat
  | .val h => h.amount
  | _ => 0

theorem amountOf_putHoldingD (x : Ctx) (l : Layer) (k k' : ResKey) (d : Delta Holding) (hd : d ≠ .absent) :
    amountOf x (putHoldingD x l k d) k' = if k' = k then dAmount d else amountOf x l k' := by
  unfold amountOf
  rw [holdingOf_putHoldingD x l k k' d hd]
  by_cases h : k' = k
  · simp only [h, if_true]
    cases d <;> rfl
  · simp [h]

theorem amountOf_putAcct (x : Ctx) (l : Layer) (a : Addr) (v : Account) (k : ResKey) :
    amountOf x (putAcct l a v) k = amountOf x l k := rfl
theorem amountOf_putParamsD (x : Ctx) (l : Layer) (k : ResKey) (d : Delta AssetParams) (k' : ResKey) :
    amountOf x (putParamsD x l k d) k' = amountOf x l k' := by
  unfold amountOf; rw [holdingOf_putParamsD]
theorem amountOf_putCreatable (x : Ctx) (l : Layer) (i : AssetId) (cr : Addr) (b : Bool) (k : ResKey) :
    amountOf x (putCreatable l i cr b) k = amountOf x l k := rfl

/-! ## operations that touch accounts only leave every asset view unchanged -/

/-- same asset views -/
structure SameAssets (x : Ctx) (l l' : Layer) : Prop where
  holding : ∀ k, holdingOf x l' k = holdingOf x l k
  params : ∀ k, paramsOf x l' k = paramsOf x l k
  creator : ∀ i, creatorOf x l' i = creatorOf x l i

theorem SameAssets.refl (x : Ctx) (l : Layer) : SameAssets x l l := ⟨fun _ => rfl, fun _ => rfl, fun _ => rfl⟩
theorem SameAssets.trans {x : Ctx} {a b c : Layer} (h1 : SameAssets x a b) (h2 : SameAssets x b c) : SameAssets x a c :=
  ⟨fun k => (h2.holding k).trans (h1.holding k), fun k => (h2.params k).trans (h1.params k),
   fun i => (h2.creator i).trans (h1.creator i)⟩

theorem sameAssets_putAcct (x : Ctx) (l : Layer) (a : Addr) (v : Account) : SameAssets x l (putAcct l a v) :=
  ⟨fun _ => rfl, fun _ => rfl, fun _ => rfl⟩

theorem move_sameAssets {P : Params} {x : Ctx} {l l' : Layer} {s d : Addr} {amt : Nat}
    (h : move P x l s d amt = .ok l') : SameAssets x l l' := by
  unfold move at h
  simp only at h
  split at h
  · cases h
  · split at h
    · cases h
    · rename_i l1 h1
      have s1 : SameAssets x l l1 := by
        split at h1
        · split at h1
          · cases h1
          · cases h1; exact sameAssets_putAcct _ _ _ _
        · cases h1; exact SameAssets.refl _ _
      split at h
      · cases h
      · split at h
        · split at h
          · cases h
          · cases h; exact s1.trans (sameAssets_putAcct _ _ _ _)
        · cases h; exact s1

theorem takeFee_sameAssets {P : Params} {x : Ctx} {l l' : Layer} {t : Txn} (h : takeFee P x l t = .ok l') : SameAssets x l l' := by
  unfold takeFee at h
  split at h
  · cases h
  · rename_i l1 hm
    have := move_sameAssets hm
    split at h <;> cases h
    · exact this
    · exact ⟨this.holding, this.params, this.creator⟩

theorem payment_sameAssets {P : Params} {x : Ctx} {l l' : Layer} {t : Txn} (h : payment P x l t = .ok l') : SameAssets x l l' := by
  unfold payment at h
  simp only at h
  split at h
  · cases h
  · rename_i l1 h1
    have s1 : SameAssets x l l1 := by
      split at h1
      · exact move_sameAssets h1
      · cases h1; exact SameAssets.refl _ _
    split at h
    · cases h; exact s1
    · split at h
      · cases h
      · split at h
        · cases h
        · rename_i l2 h2
          have s2 := s1.trans (move_sameAssets h2)
          repeat' split at h
          all_goals first | cases h | skip
          exact s2.trans (sameAssets_putAcct _ _ _ _)

theorem keyreg_sameAssets {P : Params} {x : Ctx} {l l' : Layer} {t : Txn} (h : keyreg P x l t = .ok l') : SameAssets x l l' := by
  unfold keyreg at h
  simp only at h
  repeat' split at h
  all_goals first | cases h | skip
  all_goals exact sameAssets_putAcct _ _ _ _

end AlgoVerif.Lemmas.LedgerCore
