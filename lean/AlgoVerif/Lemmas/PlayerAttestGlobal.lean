import AlgoVerif.Lemmas.AgreementAbsQuorum
/-!
From per-node histories to one global history (pure list reasoning over `Spec.AgreementAbs`).

Every honest node `n` has a *local* history (its own `see / enter / vote / commit` events interleaved with the votes that
were delivered to it).  A *global* history `h` contains the own events of all nodes.  `Agrees n prel pre` says that, seen
from node `n`, a local prefix `prel` and a global prefix `pre` are the same: the same `see / enter` events of `n` in the same
order, the same own votes, no crash of `n`, and every vote `n` has been delivered is a vote cast in `pre`.  The local rules
`okEv` only read these (`okEv_agrees`), so a global history all of whose honest events are locally allowed is well formed
(`wf_of_local`, `global_wf`).  Crash events are out of scope here (a crash makes the local state depend on the snapshot taken
at the node's last vote).
-/
namespace AlgoVerif.Lemmas.PlayerAttestGlobal
open AlgoVerif.Spec.AgreementAbs AlgoVerif.Lemmas.AgreementAbs

/-! ### quorums are monotone in the *set* of votes -/

def VSub (t h : List Ev) : Prop := ∀ v ∈ votes t, v ∈ votes h

section Sub
variable {P : Params} {t h : List Ev}

theorem inSupp_sub (hs : VSub t h) {p s x n} (hv : inSupp t p s x n = true) : inSupp h p s x n = true := by
  rw [inSupp_iff] at *
  rcases hv with hv | ⟨a, ha, b, hb, r⟩
  · exact Or.inl (hs _ hv)
  · exact Or.inr ⟨a, hs _ ha, b, hs _ hb, r⟩

theorem Q_sub (hs : VSub t h) {p s x} (hq : Q P t p s x) : Q P h p s x :=
  Nat.le_trans hq (wtl_mono (fun _ _ hv => inSupp_sub hs hv))

theorem stagedQ_sub (hs : VSub t h) {p v} (hq : stagedQ P t p v) : stagedQ P h p v :=
  hq.imp (Q_sub hs) (Q_sub hs)

theorem nextQ_sub (hs : VSub t h) {p y} (hq : nextQ P t p y) : nextQ P h p y := by
  obtain ⟨k, hk, hQ⟩ := hq
  obtain ⟨v, hv, h1, h2⟩ := mem_nextKs.1 hk
  exact ⟨k, mem_nextKs.2 ⟨v, hs _ hv, h1, h2⟩, Q_sub hs hQ⟩

theorem vals_sub (hs : VSub t h) {a : Val} (ha : a ∈ vals t) : a ∈ vals h := by
  obtain ⟨v, hv, h1⟩ := mem_vals.1 ha
  exact mem_vals.2 ⟨v, hs _ hv, h1⟩

theorem conflict1_sub (hs : VSub t h) {p} (hc : Conflict1 P t p) : Conflict1 P h p := by
  obtain ⟨a, ha, b, hb, hne, h1, h2⟩ := hc
  exact ⟨a, vals_sub hs ha, b, vals_sub hs hb, hne, stagedQ_sub hs h1, stagedQ_sub hs h2⟩

theorem conflict2_sub (hs : VSub t h) {p} (hc : Conflict2 P t p) : Conflict2 P h p := by
  obtain ⟨hp, a, ha, b, hb, hne, h1, h2⟩ := hc
  exact ⟨hp, a, vals_sub hs ha, b, vals_sub hs hb, hne, nextQ_sub hs h1, nextQ_sub hs h2⟩

end Sub

/-! ### the local state reads the node's own `see / enter` events only (no crash) -/

/-- the node an event belongs to -/
def ownerOf : Ev → Node
  | .vote v => v.n
  | .see n _ _ => n
  | .enter n _ _ => n
  | .commit n _ _ => n
  | .crash n => n

/-- the events that drive `localOf · n` -/
def ctl (n : Node) : Ev → Bool
  | .see m _ _ => m == n
  | .enter m _ _ => m == n
  | .crash m => m == n
  | _ => false

def curOf : List Ev → Node → Local
  | [], _ => Local.init
  | .see m p y :: pre, n => if m = n then (curOf pre n).see p y else curOf pre n
  | .enter m p _ :: pre, n => if m = n then { curOf pre n with period := p } else curOf pre n
  | _ :: pre, n => curOf pre n

theorem localOf_eq_curOf {n : Node} : ∀ {h : List Ev}, (∀ e ∈ h, e ≠ .crash n) → localOf h n = curOf h n := by
  intro h
  induction h with
  | nil => intro _; rfl
  | cons e pre ih =>
    intro hc
    have ih' := ih (fun e' he' => hc e' (List.mem_cons_of_mem _ he'))
    unfold localOf at ih' ⊢
    cases e with
    | vote v =>
      show (stepN n (nstate pre n) (.vote v)).cur = curOf pre n
      by_cases hm : v.n = n
      · simp only [stepN, if_pos hm, ih']
      · simp only [stepN, if_neg hm, ih']
    | see m p y =>
      show (stepN n (nstate pre n) (.see m p y)).cur = curOf (.see m p y :: pre) n
      by_cases hm : m = n
      · simp only [stepN, curOf, if_pos hm, ih']
      · simp only [stepN, curOf, if_neg hm, ih']
    | enter m p c =>
      show (stepN n (nstate pre n) (.enter m p c)).cur = curOf (.enter m p c :: pre) n
      by_cases hm : m = n
      · simp only [stepN, curOf, if_pos hm, ih']
      · simp only [stepN, curOf, if_neg hm, ih']
    | commit m p v => exact ih'
    | crash m =>
      show (stepN n (nstate pre n) (.crash m)).cur = curOf pre n
      have hm : m ≠ n := fun hm => hc (.crash m) List.mem_cons_self (by rw [hm])
      simp only [stepN, if_neg hm, ih']

theorem curOf_filter (n : Node) : ∀ h : List Ev, curOf (h.filter (ctl n)) n = curOf h n := by
  intro h
  induction h with
  | nil => rfl
  | cons e pre ih =>
    cases e with
    | vote v =>
      have hc : ¬ ctl n (.vote v) = true := by simp [ctl]
      rw [List.filter_cons_of_neg hc]; simpa only [curOf] using ih
    | commit m p v =>
      have hc : ¬ ctl n (.commit m p v) = true := by simp [ctl]
      rw [List.filter_cons_of_neg hc]; simpa only [curOf] using ih
    | see m p y =>
      by_cases hm : m = n
      · have hc : ctl n (.see m p y) = true := by simp [ctl, hm]
        rw [List.filter_cons_of_pos hc]; simp only [curOf, if_pos hm, ih]
      · have hc : ¬ ctl n (.see m p y) = true := by simp [ctl, hm]
        rw [List.filter_cons_of_neg hc]; simp only [curOf, if_neg hm, ih]
    | enter m p c =>
      by_cases hm : m = n
      · have hc : ctl n (.enter m p c) = true := by simp [ctl, hm]
        rw [List.filter_cons_of_pos hc]; simp only [curOf, if_pos hm, ih]
      · have hc : ¬ ctl n (.enter m p c) = true := by simp [ctl, hm]
        rw [List.filter_cons_of_neg hc]; simp only [curOf, if_neg hm, ih]
    | crash m =>
      by_cases hm : m = n
      · have hc : ctl n (.crash m) = true := by simp [ctl, hm]
        rw [List.filter_cons_of_pos hc]; simpa only [curOf] using ih
      · have hc : ¬ ctl n (.crash m) = true := by simp [ctl, hm]
        rw [List.filter_cons_of_neg hc]; simpa only [curOf] using ih

/-! ### agreement of a local and a global prefix, seen from node `n` -/

/-- `prel` (local to `n`) and `pre` (global) look the same to node `n` -/
def Agrees (n : Node) (prel pre : List Ev) : Prop :=
  prel.filter (ctl n) = pre.filter (ctl n) ∧ (∀ v ∈ votes prel, v ∈ votes pre) ∧
  (∀ v ∈ votes pre, v.n = n → v ∈ votes prel) ∧ (∀ e ∈ pre, e ≠ .crash n)

instance (n prel pre) : Decidable (Agrees n prel pre) := by unfold Agrees; infer_instance

theorem Agrees.nocrash_l {n : Node} {prel pre : List Ev} (h : Agrees n prel pre) : ∀ e ∈ prel, e ≠ .crash n := by
  intro e he hc
  subst hc
  have : Ev.crash n ∈ prel.filter (ctl n) := List.mem_filter.mpr ⟨he, by simp [ctl]⟩
  rw [h.1] at this
  exact h.2.2.2 _ (List.mem_filter.mp this).1 rfl

theorem Agrees.local_eq {n : Node} {prel pre : List Ev} (h : Agrees n prel pre) : localOf prel n = localOf pre n := by
  rw [localOf_eq_curOf h.nocrash_l, localOf_eq_curOf h.2.2.2, ← curOf_filter n prel, ← curOf_filter n pre, h.1]

/-- **okEv_agrees.**  The local rules read only what `Agrees` preserves. -/
theorem okEv_agrees {P : Params} {prel pre : List Ev} {e : Ev} (ha : Agrees (ownerOf e) prel pre)
    (h : okEv true P prel e) : okEv true P pre e := by
  have hL := ha.local_eq
  obtain ⟨_, hsub, hown, _⟩ := ha
  have hs : VSub prel pre := hsub
  cases e with
  | vote v =>
    obtain ⟨n, p, s, x⟩ := v
    simp only [ownerOf] at hL hown
    intro hh
    obtain ⟨hu, hp, hrest⟩ := h hh
    refine ⟨?_, ?_, ?_⟩
    · rcases hu with hu | ⟨hl, hu⟩
      · exact Or.inl (fun v' hv' hn => hu v' (hown v' hv' hn) hn)
      · refine Or.inr ⟨hl, ?_⟩
        cases s with
        | soft => exact hu
        | cert => exact conflict1_sub hs hu
        | next k => exact hu.imp (conflict1_sub hs) (conflict2_sub hs)
    · unfold RPeriod at hp ⊢; rw [← hL]; exact hp
    · cases s with
      | soft =>
        obtain ⟨h1, h2⟩ := hrest
        refine ⟨fun v' hv' hn => h1 v' (hown v' hv' hn) hn, ?_⟩
        unfold RSoftStart at h2 ⊢; rw [← hL]; exact h2
      | cert =>
        obtain ⟨h1, h2⟩ := hrest
        refine ⟨fun v' hv' hn => h1 v' (hown v' hv' hn) hn, ?_⟩
        unfold RCertStaged at h2 ⊢
        cases x with
        | none => exact h2
        | some y => exact stagedQ_sub hs h2
      | next k =>
        obtain ⟨h1, h2⟩ := hrest
        refine ⟨?_, ?_⟩
        · rcases h1 with h1 | ⟨hl, h1⟩
          · exact Or.inl (fun v' hv' hn => h1 v' (hown v' hv' hn) hn)
          · exact Or.inr ⟨hl, conflict1_sub hs h1⟩
        · unfold RNextVal at h2 ⊢
          cases x with
          | none => simp only [] at h2 ⊢; rw [← hL]; exact h2
          | some y =>
            simp only [] at h2 ⊢
            rw [← hL]; exact h2.imp_left (stagedQ_sub hs)
  | see n p y => exact fun hh => nextQ_sub hs (h hh)
  | enter n p c =>
    simp only [ownerOf] at hL
    intro hh
    obtain ⟨h1, h2⟩ := h hh
    refine ⟨?_, ?_⟩
    · unfold REnterGrow at h1 ⊢; rw [← hL]; exact h1
    · cases c with
      | viaNext y =>
        cases y with
        | none => unfold REnterCause at h2 ⊢; rw [← hL]; exact h2
        | some v => unfold REnterCause at h2 ⊢; rw [← hL]; exact h2
      | viaSoft x => exact Q_sub hs h2
      | viaCert x => exact Q_sub hs h2
  | commit n p v => exact fun hh => Q_sub hs (h hh)
  | crash n => trivial

/-! ### well-formedness from the splits -/

theorem wf_iff_splits {l : Bool} {P : Params} {h : List Ev} :
    WF l P h ↔ ∀ post e pre, h = post ++ e :: pre → okEv l P pre e := by
  induction h with
  | nil =>
    refine ⟨fun _ post e pre hs => ?_, fun _ => trivial⟩
    cases post <;> cases hs
  | cons e0 h ih =>
    constructor
    · rintro ⟨w, o⟩ post e pre hs
      cases post with
      | nil => cases hs; exact o
      | cons a post => cases hs; exact ih.1 w post e pre rfl
    · intro H
      exact ⟨ih.2 (fun post e pre hs => H (e0 :: post) e pre (by rw [hs]; rfl)), H [] e0 h rfl⟩

theorem okEv_byz {l : Bool} {P : Params} {pre : List Ev} {e : Ev} (hb : P.honest (ownerOf e) = false) : okEv l P pre e := by
  cases e <;> simp only [ownerOf] at hb <;> first | trivial | (intro hh; rw [hb] at hh; cases hh)

/-- **wf_of_local.**  A global history is well formed if every event of an honest node is allowed after some history that
agrees, from that node's point of view, with the global history before the event. -/
theorem wf_of_local {P : Params} {h : List Ev}
    (H : ∀ post e pre, h = post ++ e :: pre → P.honest (ownerOf e) = true →
      ∃ prel, Agrees (ownerOf e) prel pre ∧ okEv true P prel e) : WF true P h := by
  refine wf_iff_splits.2 (fun post e pre hs => ?_)
  cases hh : P.honest (ownerOf e) with
  | false => exact okEv_byz hh
  | true =>
    obtain ⟨prel, ha, ho⟩ := H post e pre hs hh
    exact okEv_agrees ha ho

/-! ### local histories -/

/-- all `(e, pre)` with `h = post ++ e :: pre` -/
def splits : List Ev → List (Ev × List Ev)
  | [] => []
  | e :: pre => (e, pre) :: splits pre

theorem mem_splits {e : Ev} {pre : List Ev} : ∀ {h : List Ev}, (e, pre) ∈ splits h ↔ ∃ post, h = post ++ e :: pre := by
  intro h
  induction h with
  | nil =>
    refine ⟨fun hm => (List.not_mem_nil hm).elim, ?_⟩
    rintro ⟨post, hs⟩; cases post <;> cases hs
  | cons e0 h ih =>
    simp only [splits, List.mem_cons, Prod.mk.injEq]
    constructor
    · rintro (⟨rfl, rfl⟩ | hm)
      · exact ⟨[], rfl⟩
      · obtain ⟨post, rfl⟩ := ih.1 hm
        exact ⟨e0 :: post, rfl⟩
    · rintro ⟨post, hs⟩
      cases post with
      | nil => cases hs; exact Or.inl ⟨rfl, rfl⟩
      | cons a post => cases hs; exact Or.inr (ih.2 ⟨post, rfl⟩)

/-- node `n`'s local history `hl` is consistent with the global history `h`: every event of `n` in `h` occurs in `hl`, and
the history before it in `hl` agrees (from `n`'s point of view) with the history before it in `h` — in particular every
vote delivered to `n` before the event was cast in `h` before the event -/
def Consistent (n : Node) (hl h : List Ev) : Prop :=
  ∀ post e pre, h = post ++ e :: pre → ownerOf e = n → ∃ postl prel, hl = postl ++ e :: prel ∧ Agrees n prel pre

/-- executable `Consistent` -/
def consistentB (n : Node) (hl h : List Ev) : Bool :=
  (splits h).all (fun x => ownerOf x.1 != n ||
    (splits hl).any (fun y => decide (y.1 = x.1) && decide (Agrees n y.2 x.2)))

theorem consistentB_sound {n : Node} {hl h : List Ev} (hc : consistentB n hl h = true) : Consistent n hl h := by
  intro post e pre hs hn
  have h1 := List.all_eq_true.mp hc (e, pre) (mem_splits.2 ⟨post, hs⟩)
  simp only [Bool.or_eq_true, bne_iff_ne, ne_eq, List.any_eq_true, Bool.and_eq_true, decide_eq_true_eq] at h1
  rcases h1 with h1 | ⟨⟨e', prel⟩, hm, he, ha⟩
  · exact absurd hn h1
  · obtain ⟨postl, hl'⟩ := mem_splits.1 hm
    simp only at he ha
    subst he
    exact ⟨postl, prel, hl', ha⟩

/-- node `n`'s events in its local history obey the local rules -/
def LocalOK (P : Params) (n : Node) (hl : List Ev) : Prop :=
  ∀ post e pre, hl = post ++ e :: pre → ownerOf e = n → okEv true P pre e

/-- **global_wf.**  Local histories `loc n` of the honest nodes that obey the local rules and are consistent with one global
history `h` make `h` well formed. -/
theorem global_wf {P : Params} {h : List Ev} (loc : Node → List Ev)
    (hc : ∀ n, P.honest n = true → Consistent n (loc n) h) (hl : ∀ n, P.honest n = true → LocalOK P n (loc n)) :
    WF true P h := by
  refine wf_of_local (fun post e pre hs hh => ?_)
  obtain ⟨postl, prel, hsl, ha⟩ := hc _ hh post e pre hs rfl
  exact ⟨prel, ha, hl _ hh postl e prel hsl rfl⟩

end AlgoVerif.Lemmas.PlayerAttestGlobal
