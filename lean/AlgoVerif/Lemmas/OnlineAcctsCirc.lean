import AlgoVerif.Lemmas.OnlineAcctsLookup
/-! C13: expired stake and circulation computed by the tracker are the history's. -/
namespace AlgoVerif.Lemmas.OnlineAccts
open AlgoVerif.Spec.OnlineHistory AlgoVerif.Model.OnlineAccts

/-- a round whose parameters are still in the DB table: it lies in [horizon, dbRound] and the parameters are the block's -/
theorem InvCore.dbParamsAt_ok {σ : State} {M : Nat} (inv : InvCore σ M) {rnd : Nat} {p : Params} (h : dbParamsAt σ rnd = .ok p) :
    σ.dbParamsStart ≤ rnd ∧ rnd ≤ σ.latest ∧ ∃ b, σ.hist.block? rnd = some b ∧ p = Block.params b := by
  unfold dbParamsAt at h
  by_cases h1 : rnd < σ.dbParamsStart
  · simp [h1] at h
  · simp only [h1, if_false] at h
    cases hp : σ.dbParams[rnd - σ.dbParamsStart]? with
    | none => simp [hp] at h
    | some q =>
      simp only [hp] at h
      cases h
      rw [inv.hdbparams, List.getElem?_map, List.getElem?_take] at hp
      by_cases h2 : rnd - σ.dbParamsStart < σ.dbRound + 1 - σ.dbParamsStart
      · simp only [h2, if_true, List.getElem?_drop] at hp
        have hidx : σ.dbParamsStart + (rnd - σ.dbParamsStart) = rnd := by omega
        rw [hidx] at hp
        have hlat : σ.dbRound ≤ σ.latest := by unfold State.latest; omega
        refine ⟨by omega, by omega, ?_⟩
        cases hb : (σ.gen :: σ.ledger)[rnd]? with
        | none => simp [hb] at hp
        | some b =>
          simp [hb] at hp
          exact ⟨b, by simp [Hist.block?, Hist.rounds, State.hist, hb], hp.symm⟩
      · simp [h2] at hp

theorem InvCore.paramsEx_ok {σ : State} {M : Nat} (inv : InvCore σ M) {rnd : Nat} {p : Params} (h : paramsEx σ rnd = .ok p) :
    σ.dbParamsStart ≤ rnd ∧ rnd ≤ σ.latest ∧ ∃ b, σ.hist.block? rnd = some b ∧ p = Block.params b := by
  unfold paramsEx at h
  cases hm : paramsAt σ rnd with
  | ok q => rw [hm] at h; cases h; exact inv.paramsAt_ok hm
  | error e =>
    rw [hm] at h
    cases e <;> simp at h
    exact inv.dbParamsAt_ok h

theorem InvCore.totalsEx_ok {σ : State} {M : Nat} (inv : InvCore σ M) {rnd : Nat} {p : Params} (h : totalsEx σ rnd = .ok p) :
    σ.dbParamsStart ≤ rnd ∧ rnd ≤ σ.latest ∧ ∃ b, σ.hist.block? rnd = some b ∧ p = Block.params b := by
  unfold totalsEx at h
  cases hm : paramsAt σ rnd with
  | ok q => rw [hm] at h; cases h; exact inv.paramsAt_ok hm
  | error e => rw [hm] at h; exact inv.dbParamsAt_ok h

theorem roundOffset_le {σ : State} {rnd : Nat} (h : rnd ≤ σ.latest) :
    roundOffset σ rnd = if rnd < σ.dbRound then .error .beforeDb else .ok (rnd - σ.dbRound) := by
  unfold roundOffset State.latest at *
  by_cases hh : rnd < σ.dbRound
  · simp [hh]
  · have h3 : ¬ rnd - σ.dbRound > σ.deltas.length := by omega
    simp [hh, h3]

/-- one address of `onlineAcctsExpiredByRound` against the history -/
theorem InvCore.expiredEntry_term {σ : State} {M : Nat} (inv : InvCore σ M) (rnd voteRnd : Nat) (a : Addr) (unit level : Nat)
    (h1 : σ.dbParamsStart ≤ rnd) (h2 : rnd ≤ σ.latest) :
    (match expiredEntry σ (if rnd < σ.dbRound then 0 else rnd - σ.dbRound) rnd voteRnd a with
      | none => (.ok 0 : Except Err Nat)
      | some r => (r.view unit level).map (·.stake)) =
    expiredTerm (recAt σ.hist rnd a) voteRnd unit level := by
  have hrec := inv.recAt_db rnd a h1 h2
  have hoff : lastIn (σ.deltas.take (if rnd < σ.dbRound then 0 else rnd - σ.dbRound)) a =
      (if rnd < σ.dbRound then none else lastIn (σ.deltas.take (rnd - σ.dbRound)) a) := by
    by_cases hh : rnd < σ.dbRound <;> simp [hh, lastIn]
  unfold expiredEntry
  rw [hoff, hrec]
  cases hd : (if rnd < σ.dbRound then none else lastIn (σ.deltas.take (rnd - σ.dbRound)) a) with
  | some x =>
    simp only
    by_cases hon : x.online = true
    · rw [orec_online hon]
      unfold expiredTerm ORec.expiredBy
      by_cases hc : (x.vl != 0 && decide (voteRnd > x.vl)) = true
      · have hc' : (x.core.vl != 0 && decide (x.core.vl < voteRnd)) = true := hc
        simp [hon, hc, hc']
      · have hc' : ¬ (x.core.vl != 0 && decide (x.core.vl < voteRnd)) = true := hc
        simp [hon, hc, hc']
    · have hoff' : x.online = false := by cases hx : x.online <;> simp_all
      rw [orec_offline hoff']
      simp [hoff', expiredTerm, ORec.expiredBy, ORec.zero]
  | none =>
    simp only
    unfold expiredTerm ORec.expiredBy
    by_cases hc : (decide ((recOfRow (rowAt (σ.db a) rnd)).vl < voteRnd) && decide ((recOfRow (rowAt (σ.db a) rnd)).vl > 0)) = true
    · have hc' : ((recOfRow (rowAt (σ.db a) rnd)).vl != 0 && decide ((recOfRow (rowAt (σ.db a) rnd)).vl < voteRnd)) = true := by
        simp at hc ⊢; omega
      simp [hc, hc']
    · have hc' : ¬ ((recOfRow (rowAt (σ.db a) rnd)).vl != 0 && decide ((recOfRow (rowAt (σ.db a) rnd)).vl < voteRnd)) = true := by
        simp at hc ⊢; omega
      simp [hc, hc']

/-- `expiredOnlineCirculation` (uncached) is the history's expired stake whenever the round's parameters can be found -/
theorem InvCore.expiredCompute_eq {σ : State} {M : Nat} (inv : InvCore σ M) (rnd voteRnd : Nat) (p : Params)
    (hp : paramsEx σ rnd = .ok p) : expiredCompute σ rnd voteRnd = expiredStake σ.hist rnd voteRnd := by
  obtain ⟨h1, h2, b, hb, hpb⟩ := inv.paramsEx_ok hp
  unfold expiredCompute expiredStake
  rw [roundOffset_le h2, hb, hp]
  have hpr : σ.hist.protos = σ.protos := rfl
  have hun : σ.hist.univ = σ.univ := rfl
  have hproto : p.proto = b.proto := by rw [hpb]; rfl
  have hlevel : p.level = b.level := by rw [hpb]; rfl
  by_cases hh : rnd < σ.dbRound
  · simp only [hh, if_true, hpr, hun, hproto, hlevel]
    congr 1
    apply List.map_congr_left
    intro a _
    have := inv.expiredEntry_term rnd voteRnd a (protoOf σ.protos b.proto).unit b.level h1 h2
    simp only [hh, if_true] at this
    exact this
  · simp only [hh, if_false, hpr, hun, hproto, hlevel]
    congr 1
    apply List.map_congr_left
    intro a _
    have := inv.expiredEntry_term rnd voteRnd a (protoOf σ.protos b.proto).unit b.level h1 h2
    simp only [hh, if_false] at this
    exact this

/-- the expired-stake cache only holds values of the history -/
def InvExp (σ : State) : Prop := ∀ rv x, σ.expCache.lookup rv = some x → expiredStake σ.hist rv.1 rv.2 = .ok x

theorem expiredCompute_ok_params {σ : State} {rnd voteRnd x : Nat} (h : expiredCompute σ rnd voteRnd = .ok x) :
    ∃ p, paramsEx σ rnd = .ok p := by
  unfold expiredCompute at h
  split at h
  · cases h
  · cases hp : paramsEx σ rnd with
    | ok p => exact ⟨p, rfl⟩
    | error e => simp [hp] at h

theorem InvCore.expiredCirc_eq {σ : State} {M : Nat} (inv : InvCore σ M) (iexp : InvExp σ) (rnd voteRnd : Nat) (p : Params)
    (hp : paramsEx σ rnd = .ok p) : (expiredCirc σ rnd voteRnd).1 = expiredStake σ.hist rnd voteRnd := by
  unfold expiredCirc
  cases hc : σ.expCache.lookup (rnd, voteRnd) with
  | some x => simp only; exact (iexp (rnd, voteRnd) x hc).symm
  | none =>
    simp only
    rw [inv.expiredCompute_eq rnd voteRnd p hp]
    cases expiredStake σ.hist rnd voteRnd <;> rfl

theorem InvCore.expiredCirc_inv {σ : State} {M : Nat} (inv : InvCore σ M) (iexp : InvExp σ) (rnd voteRnd : Nat) :
    InvExp (expiredCirc σ rnd voteRnd).2 ∧ (expiredCirc σ rnd voteRnd).2.hist = σ.hist := by
  unfold expiredCirc
  cases hc : σ.expCache.lookup (rnd, voteRnd) with
  | some x => exact ⟨iexp, rfl⟩
  | none =>
    simp only
    cases hx : expiredCompute σ rnd voteRnd with
    | error e => exact ⟨iexp, rfl⟩
    | ok x =>
      refine ⟨?_, rfl⟩
      obtain ⟨p, hp⟩ := expiredCompute_ok_params hx
      have hs := inv.expiredCompute_eq rnd voteRnd p hp
      intro rv y hl
      simp only [List.lookup_cons] at hl
      by_cases he : rv = (rnd, voteRnd)
      · subst he
        simp at hl
        subst hl
        show expiredStake σ.hist rnd voteRnd = .ok x
        rw [← hs, hx]
      · have : (rv == (rnd, voteRnd)) = false := by simpa using he
        rw [this] at hl
        exact iexp rv y hl

/-- **circulation**: whenever the round's parameters are in memory, `onlineCirculation` is the history's circulation -/
theorem InvCore.circulation_eq {σ : State} {M : Nat} (inv : InvCore σ M) (iexp : InvExp σ) (rnd voteRnd : Nat) (p : Params)
    (hp : paramsAt σ rnd = .ok p) : (onlineCirculation σ rnd voteRnd).1 = circulation σ.hist rnd voteRnd := by
  obtain ⟨h1, h2, b, hb, hpb⟩ := inv.paramsAt_ok hp
  have hpx : paramsEx σ rnd = .ok p := by unfold paramsEx; rw [hp]
  unfold onlineCirculation circulation
  rw [hp, hb]
  have hpr : σ.hist.protos = σ.protos := rfl
  have hproto : p.proto = b.proto := by rw [hpb]; rfl
  have hsup : p.supply = b.supply := by rw [hpb]; rfl
  simp only [hpr, hproto, hsup]
  by_cases hex : (protoOf σ.protos b.proto).excl = true
  · simp only [hex, if_true, Bool.true_and]
    by_cases h0 : rnd = 0
    · simp [h0]
    · have hne : (rnd != 0) = true := by simpa using h0
      simp only [h0, if_false, hne, if_true]
      have := inv.expiredCirc_eq iexp rnd voteRnd p hpx
      cases hc : expiredCirc σ rnd voteRnd with
      | mk r σ' =>
        rw [hc] at this
        simp only at this
        rw [← this]
        cases r <;> rfl
  · simp [hex]

end AlgoVerif.Lemmas.OnlineAccts
