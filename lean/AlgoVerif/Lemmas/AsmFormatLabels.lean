/-
Lemmas for Model.AsmFormat: layout (`startsFrom`), label resolution (`resolve`) and its inverse (`unresolve`).
-/
import AlgoVerif.Lemmas.AsmFormatRaw
namespace Lemmas.AsmFormat
open Model.OpTables Model.AsmFormat

/-! ### layout -/

theorem length_startsFrom : ∀ (p : Nat) (sz : List Nat), (startsFrom p sz).length = sz.length + 1
  | _, [] => rfl
  | p, s :: rest => by simp [startsFrom, length_startsFrom (p + s) rest]

theorem startsFrom_ge : ∀ (p : Nat) (sz : List Nat), ∀ x ∈ startsFrom p sz, p ≤ x
  | p, [], x, hx => by simp [startsFrom] at hx; omega
  | p, s :: rest, x, hx => by
    simp only [startsFrom, List.mem_cons] at hx
    rcases hx with rfl | hx
    · omega
    · have := startsFrom_ge (p + s) rest x hx; omega

/-- instruction starts are strictly increasing when every instruction has at least one byte -/
theorem startsFrom_pairwise : ∀ (p : Nat) (sz : List Nat), (∀ s ∈ sz, 1 ≤ s) → (startsFrom p sz).Pairwise (· < ·)
  | _, [], _ => by simp [startsFrom]
  | p, s :: rest, h => by
    simp only [startsFrom, List.pairwise_cons]
    refine ⟨?_, startsFrom_pairwise (p + s) rest (fun x hx => h x (List.mem_cons_of_mem _ hx))⟩
    intro x hx
    have := startsFrom_ge (p + s) rest x hx
    have := h s List.mem_cons_self
    omega

theorem pairwise_lt_nodup {l : List Nat} (h : l.Pairwise (· < ·)) : l.Nodup :=
  h.imp (fun hab => Nat.ne_of_lt hab)

theorem pairwise_lt_get {l : List Nat} (h : l.Pairwise (· < ·)) {a b : Nat} (ha : a < l.length) (hb : b < l.length)
    (hab : a < b) : l[a] < l[b] :=
  (List.pairwise_iff_getElem.mp h) a b ha hb hab

theorem pairwise_lt_get_le {l : List Nat} (h : l.Pairwise (· < ·)) {a b : Nat} (ha : a < l.length) (hb : b < l.length)
    (hab : a ≤ b) : l[a] ≤ l[b] := by
  rcases Nat.lt_or_ge a b with h1 | h1
  · exact Nat.le_of_lt (pairwise_lt_get h ha hb h1)
  · have : a = b := by omega
    subst this; exact Nat.le_refl _

/-- in a strictly increasing list a smaller element sits at a smaller index -/
theorem pairwise_lt_idx {l : List Nat} (h : l.Pairwise (· < ·)) {a b : Nat} (ha : a < l.length) (hb : b < l.length)
    (hlt : l[a] < l[b]) : a < b := by
  rcases Nat.lt_or_ge a b with h1 | h1
  · exact h1
  · have := pairwise_lt_get_le h hb ha h1; omega

theorem getElem?_some_iff {l : List Nat} {i d : Nat} : l[i]? = some d ↔ ∃ h : i < l.length, l[i] = d := by
  constructor
  · intro h
    obtain ⟨hl, e⟩ := List.getElem?_eq_some_iff.mp h
    exact ⟨hl, e⟩
  · rintro ⟨hl, e⟩
    exact List.getElem?_eq_some_iff.mpr ⟨hl, e⟩

/-- position → index is the inverse of index → position -/
theorem idxOfPos_get {S : List Nat} (hS : S.Pairwise (· < ·)) {t d : Nat} (h : S[t]? = some d) :
    idxOfPos S (d : Int) = some t := by
  obtain ⟨hl, e⟩ := getElem?_some_iff.mp h
  unfold idxOfPos
  rw [if_neg (by omega)]
  have : (d : Int).toNat = d := by omega
  simp only [this]
  have hi : S.idxOf d = t := by
    rw [← e]; exact (pairwise_lt_nodup hS).idxOf_getElem t hl
  rw [hi, if_pos hl]

/-- index → position is the inverse of position → index -/
theorem idxOfPos_inv {S : List Nat} {p : Int} {t : Nat} (h : idxOfPos S p = some t) :
    0 ≤ p ∧ S[t]? = some p.toNat := by
  unfold idxOfPos at h
  by_cases hp : p < 0
  · simp [hp] at h
  · rw [if_neg hp] at h
    simp only [] at h
    by_cases hl : S.idxOf p.toNat < S.length
    · rw [if_pos hl] at h
      simp only [Option.some.injEq] at h
      subst h
      refine ⟨by omega, ?_⟩
      rw [getElem?_some_iff]
      exact ⟨hl, List.getElem_idxOf hl⟩
    · simp [hl] at h

/-! ### lengths -/

theorem length_flatMap_uvar : ∀ (vs : List Nat),
    ((vs.map (fun x => (x, uvarLen x))).flatMap (fun p => uvarintW p.2 p.1)).length = listSum (vs.map uvarLen)
  | [] => rfl
  | v :: vs => by
    simp only [List.map_cons, List.flatMap_cons, List.length_append, length_uvarintW, listSum]
    rw [length_flatMap_uvar vs]

theorem length_flatMap_items : ∀ (bss : List Bytes),
    ((bss.map (fun b => (uvarLen b.length, b))).flatMap encItem).length
      = listSum (bss.map (fun b => uvarLen b.length + b.length))
  | [] => rfl
  | b :: bss => by
    simp only [List.map_cons, List.flatMap_cons, List.length_append, encItem, length_uvarintW, listSum]
    rw [length_flatMap_items bss]

theorem length_flatMap_be16 : ∀ (os : List Int), (os.flatMap be16).length = 2 * os.length
  | [] => rfl
  | o :: os => by
    simp only [List.flatMap_cons, List.length_append, length_be16, List.length_cons]
    rw [length_flatMap_be16 os]; omega

theorem length_flatMap_listSum {α : Type} (f : α → Bytes) : ∀ (l : List α),
    (l.flatMap f).length = listSum (l.map (fun x => (f x).length))
  | [] => rfl
  | a :: l => by
    simp only [List.flatMap_cons, List.length_append, List.map_cons, listSum]
    rw [length_flatMap_listSum f l]

/-- the minimal encoding of a value whose length did not exhaust the fuel is accepted -/
theorem uvOK_of_lenF : ∀ (f n r : Nat), uvarLenF f n ≤ f → f + 1 ≤ r → uvOK r (uvarLenF f n) n = true
  | 0, n, r, h, _ => by simp [uvarLenF] at h
  | f + 1, n, r, h, hr => by
    simp only [uvarLenF] at h ⊢
    by_cases hn : n < 128
    · rw [if_pos hn]
      simp only [uvOK, Bool.and_eq_true, Bool.or_eq_true, decide_eq_true_eq]
      omega
    · rw [if_neg hn] at h ⊢
      have ih := uvOK_of_lenF f (n / 128) (r - 1) (by omega) (by omega)
      obtain ⟨w, hw⟩ : ∃ w, uvarLenF f (n / 128) = w + 1 := ⟨uvarLenF f (n / 128) - 1, by have := uvarLenF_pos f (n / 128); omega⟩
      rw [hw] at ih ⊢
      simp only [uvOK, Bool.and_eq_true, decide_eq_true_eq]
      exact ⟨by omega, ih⟩

theorem uvOK_of_len (n : Nat) (h : uvarLen n ≤ 9) : uvOK 10 (uvarLen n) n = true := uvOK_of_lenF 9 n 10 h (by omega)

/-! ### well-formed instructions -/

/-- `n` is a value PutUvarint writes and Uvarint reads back: every uint64 is (`fits_of_lt`) -/
def Fits (n : Nat) : Prop := uvOK 10 (uvarLen n) n = true

theorem fits_of_lt {n : Nat} (h : n < two64) : Fits n := uvOK_min n h

/-- an immediate is a value of kind `kind` in the range of its Go type -/
def ImmOK : Nat → Model.AsmFormat.Imm → Prop
  | k, .byte _ => k = 0 ∨ k = 1
  | k, .uint v => k = 3 ∧ Fits v
  | k, .bytes bs => k = 4 ∧ Fits bs.length
  | k, .ints vs => k = 5 ∧ Fits vs.length ∧ ∀ v ∈ vs, Fits v
  | k, .bytess bss => k = 6 ∧ Fits bss.length ∧ ∀ b ∈ bss, Fits b.length
  | k, .label _ => k = 2
  | k, .vlabel _ => k = 8
  | k, .labels _ => k = 7

def ImmsOK : List Nat → List Model.AsmFormat.Imm → Prop
  | [], [] => True
  | k :: ks, i :: is => ImmOK k i ∧ ImmsOK ks is
  | _, _ => False

/-- the spec is the one the table of this version returns for its bytes, and the immediates have its kinds -/
def InstrOK (look : Nat → Option Nat → Option Spec) (i : Instr) : Prop :=
  Reg look i.spec ∧ ImmsOK (kindsOf i.spec) i.imms

theorem off2Of_ok {v bb : Nat} {S : List Nat} {total e t : Nat} {o : Int} (h : off2Of v bb S total e t = .ok o) :
    ∃ d, S[t]? = some d ∧ o = (d : Int) - (e : Int) ∧ int16 o := by
  unfold off2Of at h
  cases hd : S[t]? with
  | none => simp [hd] at h
  | some d =>
    simp only [hd] at h
    split at h
    · cases h
    · split at h
      · cases h
      · split at h
        · cases h
        · simp only [Except.ok.injEq] at h
          subst h
          exact ⟨d, rfl, rfl, by unfold int16; omega⟩

theorem off2sOf_ok {v bb : Nat} {S : List Nat} {total e : Nat} : ∀ {ts : List Nat} {os : List Int},
    off2sOf v bb S total e ts = .ok os →
    os.length = ts.length ∧ (∀ o ∈ os, int16 o) ∧ (S.Pairwise (· < ·) → unresolveOffs S e os = some ts)
  | [], os, h => by
    simp only [off2sOf, Except.ok.injEq] at h
    subst h
    simp [unresolveOffs]
  | t :: ts, os, h => by
    simp only [off2sOf] at h
    cases h1 : off2Of v bb S total e t with
    | error x => simp [h1] at h
    | ok o =>
      simp only [h1] at h
      cases h2 : off2sOf v bb S total e ts with
      | error x => simp [h2] at h
      | ok os' =>
        simp only [h2, Except.ok.injEq] at h
        subst h
        obtain ⟨d, hd, ho, hr⟩ := off2Of_ok h1
        obtain ⟨l2, r2, u2⟩ := off2sOf_ok h2
        refine ⟨by simp [l2], ?_, ?_⟩
        · intro x hx
          rcases List.mem_cons.mp hx with rfl | hx
          · exact hr
          · exact r2 x hx
        · intro hS
          simp only [unresolveOffs]
          have : (e : Int) + o = (d : Int) := by omega
          rw [this, idxOfPos_get hS hd, u2 hS]

/-- resolving one immediate: the raw immediate is well formed, has the size the layout assumed, and un-resolves back -/
theorem resolveImm_ok {v bb : Nat} {S : List Nat} {total k w e p : Nat} {kind : Nat} {im : Model.AsmFormat.Imm} {r : RImm}
    (hS : S.Pairwise (· < ·)) (hp : S[k]? = some p) (he : S[k + 1]? = some e) (hw : w ≤ 9)
    (hk : ImmOK kind im) (h : resolveImm v bb S total k w e im = .ok r) :
    RImmOK kind r ∧ (encImm r).length = immSize w im ∧ immCount r ≤ (encImm r).length ∧
      unresolveImm S p e r = some im := by
  cases im with
  | byte b =>
    simp only [resolveImm, Except.ok.injEq] at h; subst h
    exact ⟨hk, rfl, by simp [immCount], rfl⟩
  | uint x =>
    simp only [resolveImm, Except.ok.injEq] at h; subst h
    obtain ⟨rfl, hx⟩ := hk
    exact ⟨⟨rfl, hx⟩, by simp [encImm, immSize, length_uvarintW], by simp [immCount], rfl⟩
  | bytes bs =>
    simp only [resolveImm, Except.ok.injEq] at h; subst h
    obtain ⟨rfl, hx⟩ := hk
    exact ⟨⟨rfl, hx⟩, by simp [encImm, immSize, length_uvarintW], by simp [immCount], rfl⟩
  | ints vs =>
    simp only [resolveImm, Except.ok.injEq] at h; subst h
    obtain ⟨rfl, hx, hv⟩ := hk
    refine ⟨⟨rfl, by simpa [Fits] using hx, ?_⟩, ?_, ?_, ?_⟩
    · intro q hq
      obtain ⟨x, hx1, rfl⟩ := List.mem_map.mp hq
      exact hv x hx1
    · simp only [encImm, immSize, List.length_append, length_uvarintW, List.length_map, length_flatMap_uvar]
    · simp only [immCount, encImm, List.length_append, length_uvarintW, List.length_map, length_flatMap_uvar]
      have : ∀ l : List Nat, l.length ≤ listSum (l.map uvarLen) := by
        intro l
        induction l with
        | nil => simp [listSum]
        | cons a l ih => simp only [List.length_cons, List.map_cons, listSum]; have := uvarLen_pos a; omega
      have := this vs
      omega
    · simp only [unresolveImm, List.map_map]
      congr 2
      exact List.map_id' vs
  | bytess bss =>
    simp only [resolveImm, Except.ok.injEq] at h; subst h
    obtain ⟨rfl, hx, hv⟩ := hk
    refine ⟨⟨rfl, by simpa [Fits] using hx, ?_⟩, ?_, ?_, ?_⟩
    · intro q hq
      obtain ⟨x, hx1, rfl⟩ := List.mem_map.mp hq
      exact hv x hx1
    · simp only [encImm, immSize, List.length_append, length_uvarintW, List.length_map, length_flatMap_items]
    · simp only [immCount, encImm, List.length_append, length_uvarintW, List.length_map, length_flatMap_items]
      have : ∀ l : List Bytes, l.length ≤ listSum (l.map (fun b => uvarLen b.length + b.length)) := by
        intro l
        induction l with
        | nil => simp [listSum]
        | cons a l ih => simp only [List.length_cons, List.map_cons, listSum]; have := uvarLen_pos a.length; omega
      have := this bss
      omega
    · simp only [unresolveImm, List.map_map]
      congr 2
      exact List.map_id' bss
  | label t =>
    simp only [resolveImm] at h
    cases h1 : off2Of v bb S total e t with
    | error x => simp [h1] at h
    | ok o =>
      simp only [h1, Except.ok.injEq] at h; subst h
      obtain ⟨d, hd, ho, hr⟩ := off2Of_ok h1
      refine ⟨⟨hk, hr⟩, rfl, by simp [immCount], ?_⟩
      simp only [unresolveImm]
      have : (e : Int) + o = (d : Int) := by omega
      rw [this, idxOfPos_get hS hd]; rfl
  | labels ts =>
    simp only [resolveImm] at h
    cases h1 : off2sOf v bb S total e ts with
    | error x => simp [h1] at h
    | ok os =>
      simp only [h1, Except.ok.injEq] at h; subst h
      obtain ⟨l2, r2, u2⟩ := off2sOf_ok h1
      refine ⟨⟨hk, r2⟩, ?_, by simp [immCount], ?_⟩
      · simp only [encImm, immSize, List.length_cons, length_flatMap_be16, l2]; omega
      · simp only [unresolveImm, u2 hS]; rfl
  | vlabel t =>
    simp only [resolveImm] at h
    cases hd : S[t]? with
    | none => simp [hd] at h
    | some d =>
      simp only [hd] at h
      split at h
      · cases h
      · split at h
        · cases h
        · cases hj : vjump S k t with
          | none => simp [hj] at h
          | some j =>
            simp only [hj] at h
            split at h
            · cases h
            · split at h
              · cases h
              · simp only [Except.ok.injEq] at h; subst h
                rename_i h1 h2
                have hn : needed j = w := by omega
                have hok : uvOK 10 w (zz j) = true := by
                  rw [← hn]; exact uvOK_of_len (zz j) (by unfold needed at hn; omega)
                refine ⟨⟨hk, hok⟩, by simp [encImm, immSize, length_uvarintW], by simp [immCount], ?_⟩
                -- the jump points back to position d
                unfold vjump at hj
                simp only [hd, hp, he] at hj
                obtain ⟨hkl, hkp⟩ := getElem?_some_iff.mp hp
                obtain ⟨hel, hee⟩ := getElem?_some_iff.mp he
                obtain ⟨htl, htd⟩ := getElem?_some_iff.mp hd
                simp only [unresolveImm]
                by_cases hdp : d = p
                · simp [hdp] at hj
                · rw [if_neg hdp] at hj
                  by_cases hlt : d < p
                  · rw [if_pos hlt] at hj
                    simp only [Option.some.injEq] at hj; subst hj
                    rw [if_pos (by omega)]
                    have : (p : Int) + ((d : Int) - (p : Int)) = (d : Int) := by omega
                    rw [this, idxOfPos_get hS hd]; rfl
                  · rw [if_neg hlt] at hj
                    simp only [Option.some.injEq] at hj; subst hj
                    -- d > p, hence t > k, hence d ≥ e
                    have hkt : k < t := pairwise_lt_idx hS hkl htl (by rw [hkp, htd]; omega)
                    have hed : e ≤ d := by
                      rw [← hee, ← htd]; exact pairwise_lt_get_le hS hel htl (by omega)
                    rw [if_neg (by omega)]
                    have : (e : Int) + ((d : Int) - (e : Int)) = (d : Int) := by omega
                    rw [this, idxOfPos_get hS hd]; rfl

theorem resolveImms_ok {v bb : Nat} {S : List Nat} {total k w e p : Nat}
    (hS : S.Pairwise (· < ·)) (hp : S[k]? = some p) (he : S[k + 1]? = some e) (hw : w ≤ 9) :
    ∀ {ks : List Nat} {ims : List Model.AsmFormat.Imm} {rs : List RImm}, ImmsOK ks ims →
    resolveImms v bb S total k w e ims = .ok rs →
    RImmsOK ks rs ∧ (rs.flatMap encImm).length = listSum (ims.map (immSize w)) ∧
      (∀ r ∈ rs, immCount r ≤ (rs.flatMap encImm).length) ∧ unresolveImms S p e rs = some ims
  | [], [], rs, _, h => by
    simp only [resolveImms, Except.ok.injEq] at h; subst h
    simp [RImmsOK, listSum, unresolveImms]
  | [], _ :: _, _, hk, _ => by simp [ImmsOK] at hk
  | _ :: _, [], _, hk, _ => by simp [ImmsOK] at hk
  | kd :: ks, im :: ims, rs, hk, h => by
    obtain ⟨hk1, hk2⟩ := hk
    simp only [resolveImms] at h
    cases h1 : resolveImm v bb S total k w e im with
    | error x => simp [h1] at h
    | ok r =>
      simp only [h1] at h
      cases h2 : resolveImms v bb S total k w e ims with
      | error x => simp [h2] at h
      | ok rs' =>
        simp only [h2, Except.ok.injEq] at h; subst h
        obtain ⟨a1, a2, a3, a4⟩ := resolveImm_ok hS hp he hw hk1 h1
        obtain ⟨b1, b2, b3, b4⟩ := resolveImms_ok hS hp he hw hk2 h2
        refine ⟨⟨a1, b1⟩, ?_, ?_, ?_⟩
        · simp only [List.flatMap_cons, List.length_append, List.map_cons, listSum, a2, b2]
        · intro q hq
          simp only [List.flatMap_cons, List.length_append]
          rcases List.mem_cons.mp hq with rfl | hq
          · omega
          · have := b3 q hq; omega
        · simp only [unresolveImms, a4, b4]

theorem instrSize_pos (i : Instr) (w : Nat) : 1 ≤ instrSize i w := by unfold instrSize; omega

theorem length_encInstr (r : RInstr) : (encInstr r).length = 1 + (subBytes r.spec).length + (r.imms.flatMap encImm).length := by
  simp [encInstr]; omega

/-- resolving the instructions from index `k` on -/
theorem resolveGo_ok {look : Nat → Option Nat → Option Spec} {v bb : Nat} {S : List Nat} {total : Nat}
    (hS : S.Pairwise (· < ·)) :
    ∀ {xs : List (Instr × Nat)} {k : Nat} {rs : List RInstr}, (∀ x ∈ xs, InstrOK look x.1 ∧ x.2 ≤ 9) →
    resolveGo v bb S total k xs = .ok rs →
    (∀ r ∈ rs, RInstrOK look r) ∧ rawSizes rs = sizesOf xs ∧
      (∀ r ∈ rs, ∀ i ∈ r.imms, immCount i ≤ (encInstr r).length) ∧ unresolveGo S k rs = some (xs.map (·.1))
  | [], k, rs, _, h => by
    simp only [resolveGo, Except.ok.injEq] at h; subst h
    simp [rawSizes, sizesOf, unresolveGo]
  | (i, w) :: xs, k, rs, hx, h => by
    simp only [resolveGo] at h
    cases he : S[k + 1]? with
    | none => simp [he] at h
    | some e =>
      simp only [he] at h
      cases h1 : resolveImms v bb S total k w e i.imms with
      | error x => simp [h1] at h
      | ok ims =>
        simp only [h1] at h
        cases h2 : resolveGo v bb S total (k + 1) xs with
        | error x => simp [h2] at h
        | ok rs' =>
          simp only [h2, Except.ok.injEq] at h; subst h
          obtain ⟨hi, hw⟩ := hx (i, w) List.mem_cons_self
          obtain ⟨hel, _⟩ := getElem?_some_iff.mp he
          have hp : S[k]? = some S[k] := getElem?_some_iff.mpr ⟨by omega, rfl⟩
          obtain ⟨a1, a2, a3, a4⟩ := resolveImms_ok hS hp he hw hi.2 h1
          obtain ⟨b1, b2, b3, b4⟩ := resolveGo_ok hS (fun x hx' => hx x (List.mem_cons_of_mem _ hx')) h2
          refine ⟨?_, ?_, ?_, ?_⟩
          · intro r hr
            rcases List.mem_cons.mp hr with rfl | hr
            · exact ⟨hi.1, a1⟩
            · exact b1 r hr
          · simp only [rawSizes, sizesOf, List.map_cons] at b2 ⊢
            rw [b2, length_encInstr]
            simp only [a2, instrSize]
          · intro r hr im him
            rcases List.mem_cons.mp hr with rfl | hr
            · have := a3 im him
              rw [length_encInstr]; simp only [] at this ⊢; omega
            · exact b3 r hr im him
          · simp only [unresolveGo, hp, he, a4, b4, List.map_cons]

theorem sizesOf_pos (xs : List (Instr × Nat)) : ∀ s ∈ sizesOf xs, 1 ≤ s := by
  intro s hs
  obtain ⟨x, _, rfl⟩ := List.mem_map.mp hs
  exact instrSize_pos _ _

/-- label resolution can be undone: the raw program is well formed and `unresolve` gives the instructions back -/
theorem resolve_ok {look : Nat → Option Nat → Option Spec} {v bb : Nat} {xs : List (Instr × Nat)} {rs : List RInstr}
    (hx : ∀ x ∈ xs, InstrOK look x.1 ∧ x.2 ≤ 9) (h : resolve v bb xs = .ok rs) :
    (∀ r ∈ rs, RInstrOK look r) ∧ (∀ r ∈ rs, ∀ i ∈ r.imms, immCount i ≤ (encInstr r).length) ∧
      unresolve rs = some (xs.map (·.1)) ∧ rawSizes rs = sizesOf xs := by
  unfold resolve at h
  have hS := startsFrom_pairwise 0 (sizesOf xs) (sizesOf_pos xs)
  obtain ⟨a, b, c, d⟩ := resolveGo_ok (look := look) hS hx h
  refine ⟨a, c, ?_, b⟩
  unfold unresolve
  rw [b]; exact d

/-! ### relaxation keeps the instructions and never widens a placeholder -/

theorem relaxGo_fst (S : List Nat) : ∀ (k : Nat) (xs : List (Instr × Nat)), (relaxGo S k xs).map (·.1) = xs.map (·.1)
  | _, [] => rfl
  | k, (i, w) :: rest => by
    simp only [relaxGo, List.map_cons]
    rw [relaxGo_fst S (k + 1) rest]
    congr 1
    split
    · rfl
    · split
      · rfl
      · split <;> rfl

theorem relaxGo_le (S : List Nat) (W : Nat) : ∀ (k : Nat) (xs : List (Instr × Nat)), (∀ x ∈ xs, x.2 ≤ W) →
    ∀ y ∈ relaxGo S k xs, y.2 ≤ W
  | _, [], _, y, hy => by simp [relaxGo] at hy
  | k, (i, w) :: rest, h, y, hy => by
    simp only [relaxGo, List.mem_cons] at hy
    have hw : w ≤ W := h (i, w) List.mem_cons_self
    rcases hy with rfl | hy
    · split
      · exact hw
      · split
        · exact hw
        · split
          · simp only []; omega
          · exact hw
    · exact relaxGo_le S W (k + 1) rest (fun x hx => h x (List.mem_cons_of_mem _ hx)) y hy

theorem relax_ok : ∀ (fuel : Nat) (xs ys : List (Instr × Nat)), relax fuel xs = .ok ys →
    ys.map (·.1) = xs.map (·.1) ∧ ∀ W, (∀ x ∈ xs, x.2 ≤ W) → ∀ y ∈ ys, y.2 ≤ W
  | 0, _, _, h => by simp [relax] at h
  | fuel + 1, xs, ys, h => by
    simp only [relax] at h
    split at h
    · simp only [Except.ok.injEq] at h; subst h
      exact ⟨rfl, fun _ hW => hW⟩
    · obtain ⟨a, b⟩ := relax_ok fuel _ ys h
      refine ⟨by rw [a]; exact relaxGo_fst _ _ _, ?_⟩
      intro W hW
      exact b W (relaxGo_le _ W 0 xs hW)

end Lemmas.AsmFormat
