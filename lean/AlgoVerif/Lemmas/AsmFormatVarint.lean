/-
Lemmas for Model.AsmFormat: varuints (both directions, any width), zig-zag, big-endian int16.
-/
import AlgoVerif.Model.AsmFormat
namespace Lemmas.AsmFormat
open Model.AsmFormat

/-- every element is a byte -/
def IsBytes (bs : Bytes) : Prop := ∀ b ∈ bs, b < 256

theorem isBytes_cons {b : Nat} {bs : Bytes} : IsBytes (b :: bs) ↔ b < 256 ∧ IsBytes bs := by
  unfold IsBytes; simp

theorem isBytes_append {a b : Bytes} : IsBytes (a ++ b) ↔ IsBytes a ∧ IsBytes b := by
  unfold IsBytes; simp only [List.mem_append]
  constructor
  · intro h; exact ⟨fun x hx => h x (Or.inl hx), fun x hx => h x (Or.inr hx)⟩
  · intro h x hx; rcases hx with hx | hx
    · exact h.1 x hx
    · exact h.2 x hx

theorem isBytes_drop {a : Bytes} (k : Nat) (h : IsBytes a) : IsBytes (a.drop k) :=
  fun b hb => h b (List.mem_of_mem_drop hb)

theorem isBytes_take {a : Bytes} (k : Nat) (h : IsBytes a) : IsBytes (a.take k) :=
  fun b hb => h b (List.mem_of_mem_take hb)

theorem uvOK_pos : ∀ (r w n : Nat), uvOK r w n = true → 1 ≤ r ∧ 1 ≤ w
  | _, 0, _, h => by simp [uvOK] at h
  | r, 1, n, h => by
    simp only [uvOK, Bool.and_eq_true, decide_eq_true_eq] at h
    omega
  | r, w + 2, n, h => by
    simp only [uvOK, Bool.and_eq_true, decide_eq_true_eq] at h
    omega

theorem length_uvarintW : ∀ (w n : Nat), (uvarintW w n).length = w
  | 0, _ => rfl
  | 1, _ => rfl
  | w + 2, n => by simp [uvarintW, length_uvarintW (w + 1)]

/-- reading back a varuint written in exactly `w` bytes -/
theorem readU_uvarintW : ∀ (w r n : Nat) (rest : Bytes), uvOK r w n = true →
    readU (uvarintW w n ++ rest) r = some (n, w)
  | 0, r, n, rest, h => by simp [uvOK] at h
  | 1, r, n, rest, h => by
    simp only [uvOK, Bool.and_eq_true, Bool.or_eq_true, decide_eq_true_eq] at h
    obtain ⟨⟨h1, h2⟩, h3⟩ := h
    have hm : n % 128 = n := Nat.mod_eq_of_lt h2
    simp only [uvarintW, List.cons_append, List.nil_append, readU, hm]
    rw [if_neg (by omega), if_pos h2]
    rw [if_neg (by omega)]
  | w + 2, r, n, rest, h => by
    simp only [uvOK, Bool.and_eq_true, decide_eq_true_eq] at h
    obtain ⟨h1, h2⟩ := h
    have ih := readU_uvarintW (w + 1) (r - 1) (n / 128) rest h2
    simp only [uvarintW, List.cons_append, readU]
    rw [if_neg (by omega), if_neg (by omega), ih]
    simp only []
    congr 2
    omega

/-- whatever binary.Uvarint accepts is `uvarintW` of the value in the number of bytes read -/
theorem readU_inv : ∀ (bs : Bytes) (r v k : Nat), IsBytes bs → readU bs r = some (v, k) →
    bs = uvarintW k v ++ bs.drop k ∧ uvOK r k v = true
  | [], _, _, _, _, h => by simp [readU] at h
  | b :: tl, r, v, k, hb, h => by
    rw [isBytes_cons] at hb
    simp only [readU] at h
    by_cases hr : r = 0
    · simp [hr] at h
    · rw [if_neg hr] at h
      by_cases hlt : b < 128
      · rw [if_pos hlt] at h
        by_cases h1 : r = 1 ∧ 1 < b
        · simp [h1] at h
        · rw [if_neg h1] at h
          simp only [Option.some.injEq, Prod.mk.injEq] at h
          obtain ⟨rfl, rfl⟩ := h
          refine ⟨by simp [uvarintW, Nat.mod_eq_of_lt hlt], ?_⟩
          simp only [uvOK, Bool.and_eq_true, Bool.or_eq_true, decide_eq_true_eq]
          omega
      · rw [if_neg hlt] at h
        cases hrec : readU tl (r - 1) with
        | none => simp [hrec] at h
        | some p =>
          obtain ⟨v', k'⟩ := p
          simp only [hrec, Option.some.injEq, Prod.mk.injEq] at h
          obtain ⟨rfl, rfl⟩ := h
          obtain ⟨e, ok⟩ := readU_inv tl (r - 1) v' k' hb.2 hrec
          obtain ⟨hr1, hk1⟩ := uvOK_pos _ _ _ ok
          obtain ⟨w, rfl⟩ : ∃ w, k' = w + 1 := ⟨k' - 1, by omega⟩
          have hv1 : (b - 128 + 128 * v') % 128 = b - 128 := by omega
          have hv2 : (b - 128 + 128 * v') / 128 = v' := by omega
          refine ⟨?_, ?_⟩
          · simp only [uvarintW, hv1, hv2, List.cons_append, List.drop_succ_cons]
            rw [← e]
            congr 1
            omega
          · simp only [uvOK, hv2, Bool.and_eq_true, decide_eq_true_eq]
            exact ⟨by omega, ok⟩

theorem readU_le_length (bs : Bytes) (r v k : Nat) (hb : IsBytes bs) (h : readU bs r = some (v, k)) : k ≤ bs.length := by
  obtain ⟨e, _⟩ := readU_inv bs r v k hb h
  have := congrArg List.length e
  rw [List.length_append, length_uvarintW] at this
  omega

theorem uvarLenF_pos : ∀ (f n : Nat), 1 ≤ uvarLenF f n
  | 0, _ => by simp [uvarLenF]
  | f + 1, n => by
    simp only [uvarLenF]
    split <;> omega

/-- the minimal encoding of a value below 2·128^f is accepted whenever f+1 bytes may still be read -/
theorem uvOK_minF : ∀ (f n r : Nat), n < 2 * 128 ^ f → f + 1 ≤ r → uvOK r (uvarLenF f n) n = true
  | 0, n, r, hn, hr => by
    simp only [uvarLenF, uvOK, Bool.and_eq_true, Bool.or_eq_true, decide_eq_true_eq]
    simp at hn
    omega
  | f + 1, n, r, hn, hr => by
    simp only [uvarLenF]
    by_cases h : n < 128
    · rw [if_pos h]
      simp only [uvOK, Bool.and_eq_true, Bool.or_eq_true, decide_eq_true_eq]
      omega
    · rw [if_neg h]
      have hd : n / 128 < 2 * 128 ^ f := by
        apply Nat.div_lt_of_lt_mul
        rw [Nat.pow_succ] at hn
        omega
      have ih := uvOK_minF f (n / 128) (r - 1) hd (by omega)
      obtain ⟨w, hw⟩ : ∃ w, uvarLenF f (n / 128) = w + 1 := ⟨uvarLenF f (n / 128) - 1, by have := uvarLenF_pos f (n / 128); omega⟩
      rw [hw] at ih ⊢
      simp only [uvOK, Bool.and_eq_true, decide_eq_true_eq]
      exact ⟨by omega, ih⟩

theorem two64_eq : two64 = 2 * 128 ^ 9 := by decide

/-- PutUvarint's output for a uint64 is accepted by Uvarint -/
theorem uvOK_min (n : Nat) (h : n < two64) : uvOK 10 (uvarLen n) n = true :=
  uvOK_minF 9 n 10 (by rw [← two64_eq]; exact h) (by omega)

theorem uvarLen_pos (n : Nat) : 1 ≤ uvarLen n := uvarLenF_pos 9 n

theorem length_uvarint (n : Nat) : (uvarint n).length = uvarLen n := length_uvarintW _ _

theorem isBytes_uvarintW : ∀ (w n : Nat), IsBytes (uvarintW w n)
  | 0, _ => by simp [uvarintW, IsBytes]
  | 1, n => by simp only [uvarintW, IsBytes, List.mem_singleton]; intro b hb; omega
  | w + 2, n => by
    simp only [uvarintW]
    rw [isBytes_cons]
    exact ⟨by omega, isBytes_uvarintW (w + 1) (n / 128)⟩

/-! ### zig-zag and int16 -/

theorem unzz_zz (o : Int) : unzz (zz o) = o := by
  unfold unzz zz
  split <;> split <;> omega

theorem zz_unzz (u : Nat) : zz (unzz u) = u := by
  unfold unzz zz
  split <;> split <;> omega

theorem dec16_be16 (o : Int) (h1 : -32768 ≤ o) (h2 : o ≤ 32767) :
    dec16 ((o % 65536).toNat / 256) ((o % 65536).toNat % 256) = o := by
  unfold dec16
  split <;> omega

theorem be16_dec16 (hi lo : Nat) (h1 : hi < 256) (h2 : lo < 256) : be16 (dec16 hi lo) = [hi, lo] := by
  unfold be16 dec16
  split
  · have : ((((hi * 256 + lo : Nat) : Int) - 65536) % 65536).toNat = hi * 256 + lo := by omega
    rw [this]
    congr 1
    · omega
    · congr 1; omega
  · have : ((((hi * 256 + lo : Nat) : Int)) % 65536).toNat = hi * 256 + lo := by omega
    rw [this]
    congr 1
    · omega
    · congr 1; omega

theorem dec16_range (hi lo : Nat) (h1 : hi < 256) (h2 : lo < 256) : -32768 ≤ dec16 hi lo ∧ dec16 hi lo ≤ 32767 := by
  unfold dec16
  split <;> omega

theorem isBytes_be16 (o : Int) : IsBytes (be16 o) := by
  unfold be16 IsBytes
  intro b hb
  simp only [List.mem_cons, List.mem_nil_iff, or_false] at hb
  rcases hb with rfl | rfl <;> omega

theorem length_be16 (o : Int) : (be16 o).length = 2 := rfl

end Lemmas.AsmFormat
