import AlgoVerif.Lemmas.AcctUpdatesLookup
/-! `Inv` is preserved by newBlock, flushCaches and evict (the cache / index side of Model.AcctUpdates). -/
namespace AlgoVerif.Lemmas.AcctUpdates
open AlgoVerif.Spec.LedgerHistory AlgoVerif.Model.AcctUpdates

/-! ### the oracle only looks at the blocks up to the queried round -/

theorem take_append_le {α : Type} (l : List α) (x : α) (n : Nat) (h : n ≤ l.length) : (l ++ [x]).take n = l.take n := by
  rw [List.take_append_of_le_length h]

theorem acctAt_append (h : History) (d : Delta) (rnd : Nat) (a : Addr) (hle : rnd ≤ h.blocks.length) :
    acctAt { h with blocks := h.blocks ++ [d] } rnd a = acctAt h rnd a := by
  unfold acctAt History.upTo History.genAcct
  simp only [take_append_le _ _ _ hle]

theorem resAt_append (h : History) (d : Delta) (rnd : Nat) (a : Addr) (c : Cidx) (t : CType) (hle : rnd ≤ h.blocks.length) :
    resAt { h with blocks := h.blocks ++ [d] } rnd a c t = resAt h rnd a c t := by
  unfold resAt History.upTo
  simp only [take_append_le _ _ _ hle]

theorem kvAt_append (h : History) (d : Delta) (rnd : Nat) (k : Key) (hle : rnd ≤ h.blocks.length) :
    kvAt { h with blocks := h.blocks ++ [d] } rnd k = kvAt h rnd k := by
  unfold kvAt History.upTo
  simp only [take_append_le _ _ _ hle]

theorem creatorRaw_append (h : History) (d : Delta) (rnd : Nat) (c : Cidx) (hle : rnd ≤ h.blocks.length) :
    creatorRaw { h with blocks := h.blocks ++ [d] } rnd c = creatorRaw h rnd c := by
  unfold creatorRaw History.upTo
  simp only [take_append_le _ _ _ hle]

/-! ### the index steps of newBlockImpl -/

theorem foldl_map_congr {α β γ : Type} (l : List α) (g : α → β) (f : γ → α → γ) (f' : γ → β → γ)
    (h : ∀ m x, f m x = f' m (g x)) (m0 : γ) : l.foldl f m0 = (l.map g).foldl f' m0 := by
  induction l generalizing m0 with
  | nil => rfl
  | cons x t ih => simp only [List.foldl_cons, List.map_cons]; rw [h, ih]

theorem setRec_proj (r : Res4) (rec : ResRec) : (r.setRec rec).proj rec.ctype = rec.val := by
  unfold Res4.setRec Res4.proj ResRec.val
  cases rec.ctype <;> rfl

theorem idxBump_get {K V : Type} [DecidableEq K] (m : AMap K (V × Nat)) (k : K) (v : V) (k' : K) :
    AMap.get (idxBump m k v) k' = if k = k' then some (v, ((AMap.get m k).map (·.2)).getD 0 + 1) else AMap.get m k' := by
  unfold idxBump
  rw [get_set]
  cases AMap.get m k <;> rfl

theorem newBlockTracker_inv (ct : Cidx → CType) (σ : State) (h : Inv ct σ) (d : Delta)
    (hnext : σ.deltas ++ [d] <+: σ.hist.blocks.drop σ.dbRound) (hd : DeltaWF ct d) :
    Inv ct (newBlockTracker σ d) := by
  obtain ⟨fA, pA, nA⟩ := lruInv_flush h.lruA
  obtain ⟨fR, pR, nR⟩ := lruInv_flush h.lruR
  obtain ⟨fK, pK, nK⟩ := lruInv_flush h.lruK
  unfold newBlockTracker
  refine { wf := h.wf, dbr := h.dbr, le := h.le, pre := hnext, dbA := h.dbA, dbR := h.dbR, dbK := h.dbK, dbC := h.dbC,
           idxA := ?_, idxR := ?_, idxK := ?_, idxC := ?_,
           lruA := lruInv_prune fA pA nA _, lruR := lruInv_prune fR pR nR _, lruK := lruInv_prune fK pK nK _ }
  · simp only [List.map_append, List.map_cons, List.map_nil]
    exact idxInv_newBlock (fun (v : AcctData) e => v = e) (fun m (p : Addr × AcctData) => idxBump m p.1 p.2)
      (fun m p => ⟨p.2, rfl, idxBump_get m p.1 p.2⟩) (acctMods d) hd.nodupA _ _ h.idxA
  · simp only [List.map_append, List.map_cons, List.map_nil]
    have hf := foldl_map_congr d.res (fun r => ((r.addr, r.cidx), r))
      (fun m rec => idxBump m (rec.addr, rec.cidx) (((AMap.get m (rec.addr, rec.cidx)).getD ({}, 0)).1.setRec rec))
      (fun m (p : (Addr × Cidx) × ResRec) => idxBump m p.1 (((AMap.get m p.1).getD ({}, 0)).1.setRec p.2))
      (fun m x => rfl) σ.resources
    rw [hf]
    exact idxInv_newBlock (fun (v : Res4) (e : ResRec) => v.proj e.ctype = e.val) _
      (fun m p => ⟨_, setRec_proj _ _, idxBump_get m p.1 _⟩) (resMods d) hd.nodupR _ _ h.idxR
  · simp only [List.map_append, List.map_cons, List.map_nil]
    have hf := foldl_map_congr d.kvs (fun m => (m.key, m)) (fun m kv => idxBump m kv.key kv.data)
      (fun m (p : Key × KvMod) => idxBump m p.1 p.2.data) (fun m x => rfl) σ.kvStore
    rw [hf]
    exact idxInv_newBlock (fun (v : Option Bytes) (e : KvMod) => v = e.data) _
      (fun m p => ⟨_, rfl, idxBump_get m p.1 _⟩) (kvMods d) hd.nodupK _ _ h.idxK
  · simp only [List.map_append, List.map_cons, List.map_nil]
    have hf := foldl_map_congr d.creat (fun m => (m.cidx, m)) (fun m c => idxBump m c.cidx c)
      (fun m (p : Cidx × CreatMod) => idxBump m p.1 p.2) (fun m x => rfl) σ.creatables
    rw [hf]
    exact idxInv_newBlock (fun (v : CreatMod) e => v = e) _
      (fun m p => ⟨_, rfl, idxBump_get m p.1 _⟩) (creatMods d) hd.nodupC _ _ h.idxC

/-- appending a block to the store does not disturb the invariant of the trackers (they have not seen it yet) -/
theorem store_append_inv (ct : Cidx → CType) (σ : State) (h : Inv ct σ) (d : Delta)
    (hwf : HistWF ct { σ.hist with blocks := σ.hist.blocks ++ [d] }) :
    Inv ct { σ with hist := { σ.hist with blocks := σ.hist.blocks ++ [d] } } := by
  have hle := h.le
  refine { wf := hwf, dbr := h.dbr, le := by simp only [List.length_append]; omega, pre := ?_,
           dbA := fun a => by rw [acctAt_append _ _ _ _ hle]; exact h.dbA a,
           dbR := fun a c => by rw [resAt_append _ _ _ _ _ _ hle]; exact h.dbR a c,
           dbK := fun k => by rw [kvAt_append _ _ _ _ hle]; exact h.dbK k,
           dbC := fun c => by rw [creatorRaw_append _ _ _ _ hle]; exact h.dbC c,
           idxA := h.idxA, idxR := h.idxR, idxK := h.idxK, idxC := h.idxC, lruA := h.lruA, lruR := h.lruR, lruK := h.lruK }
  simp only []
  rw [List.drop_append_of_le_length hle]
  exact h.pre.trans (List.prefix_append _ _)

theorem synced_deltas (ct : Cidx → CType) (σ : State) (h : Inv ct σ) (hs : Synced σ) : σ.deltas = σ.hist.blocks.drop σ.dbRound := by
  apply h.pre.eq_of_length
  unfold Synced State.latest at hs
  simp only [List.length_drop]
  have := h.le
  omega

theorem newBlock_inv (ct : Cidx → CType) (σ : State) (h : Inv ct σ) (hs : Synced σ) (d : Delta)
    (hwf : HistWF ct { σ.hist with blocks := σ.hist.blocks ++ [d] }) :
    Inv ct (newBlock σ d) ∧ Synced (newBlock σ d) := by
  have h1 := store_append_inv ct σ h d hwf
  have hdw : DeltaWF ct d := hwf.deltas d (by simp)
  have hnext : σ.deltas ++ [d] <+: (σ.hist.blocks ++ [d]).drop σ.dbRound := by
    rw [List.drop_append_of_le_length h.le, synced_deltas ct σ h hs]
    exact List.prefix_refl _
  unfold newBlock
  refine ⟨newBlockTracker_inv ct _ h1 d hnext hdw, ?_⟩
  unfold Synced State.latest newBlockTracker at *
  simp only [List.length_append, List.length_cons, List.length_nil]
  omega

/-! ### cache maintenance -/

theorem flushCaches_inv (ct : Cidx → CType) (σ : State) (h : Inv ct σ) : Inv ct (flushCaches σ) := by
  unfold flushCaches
  exact { h with lruA := (lruInv_flush h.lruA).1, lruR := (lruInv_flush h.lruR).1, lruK := (lruInv_flush h.lruK).1 }

theorem evict_inv (ct : Cidx → CType) (σ : State) (h : Inv ct σ) (na nr nk : Nat) : Inv ct (evict σ na nr nk) := by
  obtain ⟨fA, pA, nA⟩ := lruInv_flush h.lruA
  obtain ⟨fR, pR, nR⟩ := lruInv_flush h.lruR
  obtain ⟨fK, pK, nK⟩ := lruInv_flush h.lruK
  unfold evict flushCaches
  exact { h with lruA := lruInv_prune fA pA nA _, lruR := lruInv_prune fR pR nR _, lruK := lruInv_prune fK pK nK _ }

end AlgoVerif.Lemmas.AcctUpdates
