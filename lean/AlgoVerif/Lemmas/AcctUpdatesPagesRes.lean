import AlgoVerif.Lemmas.AcctUpdatesPages
/-! The asset / application listings of the oracle: strictly increasing ids, exclusive `id >` cursor, and the covering
argument for limit-only paging (the next page starts after the last id; a page shorter than its limit ends the listing). -/
namespace AlgoVerif.Lemmas.Pages
open AlgoVerif.Spec.LedgerHistory

/-- the ids > gt satisfying P among `ids`, ascending, each once -/
def sortedIds (ids : List Nat) (P : Nat → Bool) (gt : Nat) : List Nat :=
  ((dedup ids).filter (fun c => decide (gt < c) && P c)).mergeSort (fun x y => decide (x ≤ y))

theorem mem_sortedIds (ids : List Nat) (P : Nat → Bool) (gt c : Nat) :
    c ∈ sortedIds ids P gt ↔ c ∈ ids ∧ gt < c ∧ P c = true := by
  unfold sortedIds
  rw [(List.mergeSort_perm _ _).mem_iff, List.mem_filter, mem_dedup]
  simp

theorem sortedIds_sorted (ids : List Nat) (P : Nat → Bool) (gt : Nat) : (sortedIds ids P gt).Pairwise (fun x y => x < y) := by
  unfold sortedIds
  generalize hks : (dedup ids).filter (fun c => decide (gt < c) && P c) = ks
  have hnd : ks.Nodup := by rw [← hks]; exact (nodup_dedup _).sublist List.filter_sublist
  have hs := List.pairwise_mergeSort (le := fun (x y : Nat) => decide (x ≤ y))
    (by intro a b c h1 h2; simp only [decide_eq_true_eq] at *; omega) (by intro a b; simp only [Bool.or_eq_true, decide_eq_true_eq]; omega) ks
  have hnd' : (ks.mergeSort (fun x y => decide (x ≤ y))).Nodup := ((List.mergeSort_perm ks _).nodup_iff).mpr hnd
  generalize ks.mergeSort (fun x y => decide (x ≤ y)) = sk at hs hnd'
  induction sk with
  | nil => simp
  | cons a t ih =>
    rw [List.pairwise_cons] at hs ⊢
    rw [List.nodup_cons] at hnd'
    refine ⟨fun b hb => ?_, ih hs.2 hnd'.2⟩
    have := hs.1 b hb
    simp only [decide_eq_true_eq] at this
    have hne : a ≠ b := fun e => hnd'.1 (e ▸ hb)
    omega

theorem sortedIds_after (ids : List Nat) (P : Nat → Bool) (gt n x : Nat) (hx : (sortedIds ids P gt)[n]? = some x) :
    sortedIds ids P x = (sortedIds ids P gt).drop (n + 1) := by
  apply sorted_ext (fun (c : Nat) => c) (fun a b => a < b) (fun a => Nat.lt_irrefl a) (fun a b c => Nat.lt_trans)
  · exact sortedIds_sorted ids P x
  · exact (sortedIds_sorted ids P gt).sublist (List.drop_sublist _ _)
  · intro z
    rw [mem_drop_sorted (fun (c : Nat) => c) (fun a b => a < b) (fun a => Nat.lt_irrefl a) (fun a b c => Nat.lt_trans) _
      (sortedIds_sorted ids P gt) n x hx, mem_sortedIds, mem_sortedIds]
    have hxm := (mem_sortedIds ids P gt x).mp (List.mem_of_getElem? hx)
    constructor
    · rintro ⟨h1, h2, h3⟩; exact ⟨⟨h1, by omega, h3⟩, h2⟩
    · rintro ⟨⟨h1, _, h3⟩, h2⟩; exact ⟨h1, h2, h3⟩

theorem liveAssets_eq (h : History) (rnd : Nat) (a : Addr) (gt : Nat) :
    liveAssets h rnd a gt = (sortedIds h.cidxs (fun c => (resAt h rnd a c .asset).hold.isSome) gt).map (resItem h rnd a .asset true) := rfl

theorem liveApps_eq (h : History) (rnd : Nat) (a : Addr) (gt : Nat) (wp : Bool) :
    liveApps h rnd a gt wp = (sortedIds h.cidxs (fun c => (resAt h rnd a c .app).hold.isSome || creatorAt h rnd c .app == some a) gt).map
      (resItem h rnd a .app wp) := rfl

/-- iterate a limit-only pager: the next page starts after the last id returned; a page shorter than the limit ends it -/
def iterLimit {α : Type} (page : Nat → List α) (idOf : α → Nat) (limit : Nat) : Nat → Nat → List (List α)
  | 0, _ => []
  | fuel + 1, gt =>
    let p := page gt
    match p.getLast? with
    | some x => if p.length < limit then [p] else p :: iterLimit page idOf limit fuel (idOf x)
    | none => [p]

theorem iterLimit_cover {α : Type} (ids : Nat → List Nat) (item : Nat → α) (idOf : α → Nat) (hid : ∀ c, idOf (item c) = c)
    (hafter : ∀ gt n x, (ids gt)[n]? = some x → ids x = (ids gt).drop (n + 1))
    (limit : Nat) (hl : 0 < limit) (fuel gt : Nat) (hf : (ids gt).length < fuel) :
    (iterLimit (fun g => ((ids g).take limit).map item) idOf limit fuel gt).flatten = (ids gt).map item := by
  induction fuel generalizing gt with
  | zero => omega
  | succ fuel ih =>
    unfold iterLimit
    simp only []
    cases hlast : (((ids gt).take limit).map item).getLast? with
    | none =>
      have : (ids gt).take limit = [] := by
        cases ht : (ids gt).take limit with
        | nil => rfl
        | cons a t => rw [ht] at hlast; simp [List.getLast?_cons] at hlast
      have hnil : ids gt = [] := by
        cases hi : ids gt with
        | nil => rfl
        | cons a t => rw [hi] at this; cases limit with | zero => omega | succ l => simp at this
      simp [hnil]
    | some x =>
      simp only []
      by_cases hshort : (((ids gt).take limit).map item).length < limit
      · simp only [hshort, if_true, List.flatten_cons, List.flatten_nil, List.append_nil]
        simp only [List.length_map, List.length_take] at hshort
        rw [List.take_of_length_le (by omega)]
      · simp only [hshort, if_false, List.flatten_cons]
        simp only [List.length_map, List.length_take, Nat.not_lt] at hshort
        have hlen : limit ≤ (ids gt).length := by omega
        -- x = item of element limit-1
        have hx : ∃ c, (ids gt)[limit - 1]? = some c ∧ x = item c := by
          rw [List.getLast?_eq_getElem?, List.length_map, List.length_take, Nat.min_eq_left hlen, List.getElem?_map,
            List.getElem?_take] at hlast
          simp only [show limit - 1 < limit by omega, if_true] at hlast
          cases hc : (ids gt)[limit - 1]? with
          | none => rw [hc] at hlast; simp at hlast
          | some c => rw [hc] at hlast; simp at hlast; exact ⟨c, rfl, hlast.symm⟩
        obtain ⟨c, hc, rfl⟩ := hx
        rw [hid c]
        have hnx := hafter gt (limit - 1) c hc
        rw [show limit - 1 + 1 = limit by omega] at hnx
        rw [ih c (by rw [hnx, List.length_drop]; omega), hnx, ← List.map_append, List.take_append_drop]

end AlgoVerif.Lemmas.Pages
