import AlgoVerif.Lemmas.AcctUpdatesInv
/-! The four point lookups of Model.AcctUpdates return the value of the history (`Spec.LedgerHistory`) on every state
satisfying `Inv`, and leave a state satisfying `Inv` (they only add valid pending cache writes). -/
namespace AlgoVerif.Lemmas.AcctUpdates
open AlgoVerif.Spec.LedgerHistory AlgoVerif.Model.AcctUpdates

theorem roundOffset_ok (σ : State) (rnd : Nat) (h1 : σ.dbRound ≤ rnd) (h2 : rnd ≤ σ.latest) :
    roundOffset σ rnd = .ok (rnd - σ.dbRound) := by
  unfold roundOffset State.latest at *
  have h3 : ¬ rnd < σ.dbRound := by omega
  have h4 : ¬ rnd - σ.dbRound > σ.deltas.length := by omega
  simp [h3, h4]

/-- the oracle's "last modification up to round r+off" through the in-memory deltas, for a key space `mods` -/
theorem lastIn_mods {K E : Type} [DecidableEq K] (ct : Cidx → CType) (σ : State) (h : Inv ct σ) (mods : Delta → AMap K E) (k : K)
    (off : Nat) (hoff : off ≤ σ.deltas.length) :
    lastIn (fun d => AMap.get (mods d) k) (σ.hist.blocks.take (σ.dbRound + off)) =
      ((entriesOf ((σ.deltas.take off).map mods) k).getLast?).or
        (lastIn (fun d => AMap.get (mods d) k) (σ.hist.blocks.take σ.dbRound)) := by
  rw [lastIn_split _ σ.hist.blocks σ.deltas σ.dbRound off h.pre hoff, walkBack_eq_getLast]

/-- nothing in memory touches the key: every served round sees the DB value -/
theorem lastIn_mods_untouched {K E : Type} [DecidableEq K] (ct : Cidx → CType) (σ : State) (h : Inv ct σ) (mods : Delta → AMap K E) (k : K)
    (hnone : entriesOf (σ.deltas.map mods) k = []) (off : Nat) (hoff : off ≤ σ.deltas.length) :
    lastIn (fun d => AMap.get (mods d) k) (σ.hist.blocks.take (σ.dbRound + off)) =
      lastIn (fun d => AMap.get (mods d) k) (σ.hist.blocks.take σ.dbRound) := by
  rw [lastIn_mods ct σ h mods k off hoff, List.map_take, entriesOf_take_nil _ _ _ hnone]
  rfl

/-! ### accounts -/

theorem acctAt_eq (h : History) (rnd : Nat) (a : Addr) :
    acctAt h rnd a = ((lastIn (fun d => AMap.get (acctMods d) a) (h.blocks.take rnd)).getD (h.genAcct a)) := by
  unfold acctAt History.upTo
  congr 2
  funext d; exact acct?_eq_get d a

theorem acctAt_split (ct : Cidx → CType) (σ : State) (h : Inv ct σ) (a : Addr) (off : Nat) (hoff : off ≤ σ.deltas.length) :
    acctAt σ.hist (σ.dbRound + off) a =
      match (entriesOf ((σ.deltas.take off).map acctMods) a).getLast? with
      | some v => v
      | none => acctAt σ.hist σ.dbRound a := by
  rw [acctAt_eq, acctAt_eq, lastIn_mods ct σ h acctMods a _ hoff]
  cases (entriesOf ((σ.deltas.take off).map acctMods) a).getLast? <;> rfl

theorem acctFromDb_spec (ct : Cidx → CType) (σ : State) (h : Inv ct σ) (a : Addr) (rnd : Nat) :
    (acctFromDb σ a rnd).1 = .ok (acctAt σ.hist σ.dbRound a, rnd) ∧ Inv ct (acctFromDb σ a rnd).2 := by
  have hdb : ∀ v, AMap.get σ.db.accts a = v → v.getD AcctData.empty = acctAt σ.hist σ.dbRound a := by
    intro v hv
    rw [← hv, h.dbA a]; unfold acctRow
    split
    · next he => simp [he]
    · simp
  unfold acctFromDb
  cases hr : σ.baseAccounts.read a with
  | some e =>
    obtain ⟨hv, hle⟩ := lru_read_valid h.lruA hr
    simp only []
    refine ⟨by rw [hdb _ hv.symm], ?_⟩
    exact { h with lruA := lruInv_writePending h.lruA a e ⟨hv, hle⟩ }
  | none =>
    simp only []
    by_cases hnf : σ.baseAccounts.readNotFound a = true
    · simp only [hnf, if_true]
      have := lru_notFound_valid h.lruA hr hnf
      exact ⟨by rw [← hdb _ this]; rfl, h⟩
    · simp only [hnf, Bool.false_eq_true, if_false, h.dbr, if_true]
      cases hrow : AMap.get σ.db.accts a with
      | some d =>
        simp only []
        refine ⟨by rw [← hdb _ hrow]; rfl, ?_⟩
        exact { h with lruA := lruInv_writePending h.lruA a ⟨some d, σ.dbRound⟩ ⟨hrow.symm, Nat.le_refl _⟩ }
      | none =>
        simp only []
        refine ⟨by rw [← hdb _ hrow]; rfl, ?_⟩
        exact { h with lruA := lruInv_writeNotFoundPending h.lruA a hrow }

/-- lookupWithoutRewards answers from the history; `validThrough` is a round up to which the value does not change -/
theorem lookupAcct_spec (ct : Cidx → CType) (σ : State) (h : Inv ct σ) (rnd : Nat) (a : Addr)
    (h1 : σ.dbRound ≤ rnd) (h2 : rnd ≤ σ.latest) :
    ∃ vt, (lookupAcct σ rnd a).1 = .ok (acctAt σ.hist rnd a, vt) ∧ rnd ≤ vt ∧ vt ≤ σ.latest ∧
      (∀ r, rnd ≤ r → r ≤ vt → acctAt σ.hist r a = acctAt σ.hist rnd a) ∧ Inv ct (lookupAcct σ rnd a).2 := by
  have hoffle : rnd - σ.dbRound ≤ σ.deltas.length := by unfold State.latest at h2; omega
  have hrnd : rnd = σ.dbRound + (rnd - σ.dbRound) := by omega
  unfold lookupAcct
  rw [roundOffset_ok σ rnd h1 h2]
  simp only []
  have hidx := h.idxA a
  have hwalk : walkBack (fun d => d.acct? a) σ.deltas (rnd - σ.dbRound) =
      (entriesOf ((σ.deltas.take (rnd - σ.dbRound)).map acctMods) a).getLast? := by
    rw [← walkBack_eq_getLast]; congr 1; funext d; exact acct?_eq_get d a
  have hat : acctAt σ.hist rnd a =
      match (entriesOf ((σ.deltas.take (rnd - σ.dbRound)).map acctMods) a).getLast? with
      | some v => v
      | none => acctAt σ.hist σ.dbRound a := by
    have := acctAt_split ct σ h a (rnd - σ.dbRound) hoffle
    rwa [Nat.add_sub_cancel' h1] at this
  cases hg : AMap.get σ.accounts a with
  | some dn =>
    obtain ⟨data, n⟩ := dn
    rw [hg] at hidx
    obtain ⟨e, hlast, hrel, _⟩ := hidx
    simp only []
    by_cases hoff : rnd - σ.dbRound = σ.deltas.length
    · simp only [hoff, if_true]
      refine ⟨rnd, ?_, Nat.le_refl _, h2, fun r hr1 hr2 => by rw [show r = rnd by omega], h⟩
      rw [hat, hoff, List.take_length, hlast, hrel]
    · simp only [hoff, if_false]
      rw [hwalk]
      cases hw : (entriesOf ((σ.deltas.take (rnd - σ.dbRound)).map acctMods) a).getLast? with
      | some d =>
        simp only []
        refine ⟨rnd, ?_, Nat.le_refl _, h2, fun r hr1 hr2 => by rw [show r = rnd by omega], h⟩
        rw [hat, hw]
      | none =>
        simp only []
        obtain ⟨hres, hinv⟩ := acctFromDb_spec ct σ h a rnd
        refine ⟨rnd, ?_, Nat.le_refl _, h2, fun r hr1 hr2 => by rw [show r = rnd by omega], hinv⟩
        rw [hres, hat, hw]
  | none =>
    rw [hg] at hidx
    simp only [] at hidx ⊢
    obtain ⟨hres, hinv⟩ := acctFromDb_spec ct σ h a (σ.dbRound + σ.deltas.length)
    have hall : ∀ r, σ.dbRound ≤ r → r ≤ σ.latest → acctAt σ.hist r a = acctAt σ.hist σ.dbRound a := by
      intro r hr1 hr2
      obtain ⟨off, rfl⟩ : ∃ off, r = σ.dbRound + off := ⟨r - σ.dbRound, by omega⟩
      rw [acctAt_eq, acctAt_eq, lastIn_mods_untouched ct σ h acctMods a hidx _ (by unfold State.latest at hr2; omega)]
    refine ⟨σ.dbRound + σ.deltas.length, ?_, by unfold State.latest at h2; omega, Nat.le_refl _, ?_, hinv⟩
    · rw [hres, hall rnd h1 h2]
    · intro r hr1 hr2
      rw [hall r (by omega) hr2, hall rnd h1 h2]

/-! ### helpers on `lastIn` -/

theorem lastIn_congr {α : Type} (f g : Delta → Option α) (l : List Delta) (h : ∀ d ∈ l, f d = g d) : lastIn f l = lastIn g l := by
  unfold lastIn
  have h' : ∀ d ∈ l.reverse, f d = g d := fun d hd => h d (by simpa using hd)
  generalize l.reverse = r at h'
  induction r with
  | nil => rfl
  | cons d t ih =>
    simp only [List.findSome?_cons]
    rw [h' d (by simp), ih (fun d' hd' => h' d' (by simp [hd']))]

theorem lastIn_map {α β : Type} (f : Delta → Option α) (g : α → β) (l : List Delta) :
    lastIn (fun d => (f d).map g) l = (lastIn f l).map g := by
  unfold lastIn
  generalize l.reverse = r
  induction r with
  | nil => rfl
  | cons d t ih =>
    simp only [List.findSome?_cons]
    cases f d with
    | none => simpa using ih
    | some v => rfl

theorem lastIn_mem {α : Type} (f : Delta → Option α) (l : List Delta) (v : α) (h : lastIn f l = some v) : ∃ d ∈ l, f d = some v := by
  unfold lastIn at h
  obtain ⟨d, hd, hf⟩ := List.exists_of_findSome?_eq_some h
  exact ⟨d, by simpa using hd, hf⟩

theorem getLast?_entries_mem {K E : Type} [DecidableEq K] (rs : List (AMap K E)) (k : K) (e : E)
    (h : (entriesOf rs k).getLast? = some e) : ∃ r ∈ rs, AMap.get r k = some e := by
  have hm : e ∈ entriesOf rs k := List.mem_of_getLast? h
  unfold entriesOf at hm
  rw [List.mem_filterMap] at hm
  exact hm

theorem Inv.deltas_sub {ct : Cidx → CType} {σ : State} (h : Inv ct σ) : ∀ d ∈ σ.deltas, d ∈ σ.hist.blocks := by
  intro d hd
  have := h.pre.subset hd
  exact List.mem_of_mem_drop this

/-! ### boxes -/

theorem kvAt_eq (h : History) (rnd : Nat) (k : Key) :
    kvAt h rnd k = ((lastIn (fun d => AMap.get (kvMods d) k) (h.blocks.take rnd)).map (·.data)).getD none := by
  unfold kvAt History.upTo Delta.kv?
  rw [lastIn_map]
  congr 3
  funext d; exact kvMod?_eq_get d k

theorem kvAt_split (ct : Cidx → CType) (σ : State) (h : Inv ct σ) (k : Key) (off : Nat) (hoff : off ≤ σ.deltas.length) :
    kvAt σ.hist (σ.dbRound + off) k =
      match (entriesOf ((σ.deltas.take off).map kvMods) k).getLast? with
      | some m => m.data
      | none => kvAt σ.hist σ.dbRound k := by
  rw [kvAt_eq, kvAt_eq, lastIn_mods ct σ h kvMods k _ hoff]
  cases (entriesOf ((σ.deltas.take off).map kvMods) k).getLast? <;> rfl

theorem kvFromDb_spec (ct : Cidx → CType) (σ : State) (h : Inv ct σ) (k : Key) :
    (kvFromDb σ k).1 = .ok (kvAt σ.hist σ.dbRound k) ∧ Inv ct (kvFromDb σ k).2 := by
  unfold kvFromDb
  cases hr : σ.baseKVs.read k with
  | some e =>
    obtain ⟨hv, hle⟩ := lru_read_valid h.lruK hr
    simp only []
    refine ⟨by rw [hv, h.dbK k], ?_⟩
    exact { h with lruK := lruInv_writePending h.lruK k e ⟨hv, hle⟩ }
  | none =>
    simp only [h.dbr, if_true]
    refine ⟨by rw [h.dbK k], ?_⟩
    exact { h with lruK := lruInv_writePending h.lruK k ⟨AMap.get σ.db.kvs k, σ.dbRound⟩ ⟨rfl, Nat.le_refl _⟩ }

theorem lookupKv_spec (ct : Cidx → CType) (σ : State) (h : Inv ct σ) (rnd : Nat) (k : Key)
    (h1 : σ.dbRound ≤ rnd) (h2 : rnd ≤ σ.latest) :
    (lookupKv σ rnd k).1 = .ok (kvAt σ.hist rnd k) ∧ Inv ct (lookupKv σ rnd k).2 := by
  have hoffle : rnd - σ.dbRound ≤ σ.deltas.length := by unfold State.latest at h2; omega
  unfold lookupKv
  rw [roundOffset_ok σ rnd h1 h2]
  simp only []
  have hidx := h.idxK k
  have hwalk : walkBack (fun d => d.kv? k) σ.deltas (rnd - σ.dbRound) =
      ((entriesOf ((σ.deltas.take (rnd - σ.dbRound)).map kvMods) k).getLast?).map (·.data) := by
    rw [← walkBack_eq_getLast]
    unfold walkBack Delta.kv?
    have := lastIn_map (fun d => d.kvMod? k) (·.data) (σ.deltas.take (rnd - σ.dbRound))
    unfold lastIn at this
    rw [this]
    congr 2
    funext d; exact kvMod?_eq_get d k
  have hat : kvAt σ.hist rnd k =
      match (entriesOf ((σ.deltas.take (rnd - σ.dbRound)).map kvMods) k).getLast? with
      | some m => m.data
      | none => kvAt σ.hist σ.dbRound k := by
    have := kvAt_split ct σ h k (rnd - σ.dbRound) hoffle
    rwa [Nat.add_sub_cancel' h1] at this
  obtain ⟨hres, hinv⟩ := kvFromDb_spec ct σ h k
  cases hg : AMap.get σ.kvStore k with
  | some dn =>
    obtain ⟨data, n⟩ := dn
    rw [hg] at hidx
    obtain ⟨e, hlast, hrel, _⟩ := hidx
    simp only []
    by_cases hoff : rnd - σ.dbRound = σ.deltas.length
    · simp only [hoff, if_true]
      refine ⟨?_, h⟩
      rw [hat, hoff, List.take_length, hlast, hrel]
    · simp only [hoff, if_false]
      rw [hwalk]
      cases hw : (entriesOf ((σ.deltas.take (rnd - σ.dbRound)).map kvMods) k).getLast? with
      | some m =>
        simp only [Option.map_some]
        exact ⟨by rw [hat, hw], h⟩
      | none =>
        simp only [Option.map_none]
        exact ⟨by rw [hres, hat, hw], hinv⟩
  | none =>
    rw [hg] at hidx
    simp only [] at hidx ⊢
    refine ⟨?_, hinv⟩
    rw [hres, hat, List.map_take, entriesOf_take_nil _ _ _ hidx]
    rfl

/-! ### creators -/

theorem creatorAt_eq (h : History) (rnd : Nat) (c : Cidx) (t : CType) :
    creatorAt h rnd c t = match lastIn (fun d => AMap.get (creatMods d) c) (h.blocks.take rnd) with
      | some m => creatorOfMod m t
      | none => none := by
  unfold creatorAt History.upTo
  have : (fun d : Delta => d.creat? c) = (fun d => AMap.get (creatMods d) c) := by funext d; exact creat?_eq_get d c
  rw [this]
  rfl

theorem creatorRaw_eq (h : History) (rnd : Nat) (c : Cidx) :
    creatorRaw h rnd c = (lastIn (fun d => AMap.get (creatMods d) c) (h.blocks.take rnd)).bind
      (fun m => if m.created then some m.creator else none) := by
  unfold creatorRaw History.upTo
  have : (fun d : Delta => d.creat? c) = (fun d => AMap.get (creatMods d) c) := by funext d; exact creat?_eq_get d c
  rw [this]

theorem creatMods_mem (d : Delta) (c : Cidx) (m : CreatMod) (h : AMap.get (creatMods d) c = some m) : m ∈ d.creat ∧ m.cidx = c := by
  have := get_some_mem h
  unfold creatMods at this
  simp only [List.mem_map] at this
  obtain ⟨m', hm', he⟩ := this
  simp only [Prod.mk.injEq] at he
  obtain ⟨he1, he2⟩ := he
  subst he2
  exact ⟨hm', he1⟩

/-- the creator row of the DB answers the typed creator query of the oracle at the DB round -/
theorem dbCreator_spec (ct : Cidx → CType) (σ : State) (h : Inv ct σ) (c : Cidx) (t : CType) :
    dbCreator σ.db c t = creatorAt σ.hist σ.dbRound c t := by
  unfold dbCreator
  rw [h.dbC c, creatorAt_eq, creatorRaw_eq]
  cases hl : lastIn (fun d => AMap.get (creatMods d) c) (σ.hist.blocks.take σ.dbRound) with
  | none => rfl
  | some m =>
    obtain ⟨d, hd, hf⟩ := lastIn_mem _ _ _ hl
    obtain ⟨hm, hc⟩ := creatMods_mem d c m hf
    have hct : m.ctype = ct c := by rw [← hc]; exact (h.wf.deltas d (List.mem_of_mem_take hd)).ctC m hm
    simp only [Option.bind_some, creatorOfMod, hct]
    by_cases hcr : m.created = true
    · simp only [hcr, if_true, Option.map_some, Bool.true_and]
      by_cases htt : ct c = t
      · simp [htt]
      · simp [htt]
    · simp [hcr]

theorem lookupCreator_spec (ct : Cidx → CType) (σ : State) (h : Inv ct σ) (rnd : Nat) (c : Cidx) (t : CType)
    (h1 : σ.dbRound ≤ rnd) (h2 : rnd ≤ σ.latest) :
    lookupCreator σ rnd c t = .ok (creatorAt σ.hist rnd c t) := by
  have hoffle : rnd - σ.dbRound ≤ σ.deltas.length := by unfold State.latest at h2; omega
  unfold lookupCreator
  rw [roundOffset_ok σ rnd h1 h2]
  simp only []
  have hidx := h.idxC c
  have hwalk : walkBack (fun d => d.creat? c) σ.deltas (rnd - σ.dbRound) =
      (entriesOf ((σ.deltas.take (rnd - σ.dbRound)).map creatMods) c).getLast? := by
    rw [← walkBack_eq_getLast]; congr 1; funext d; exact creat?_eq_get d c
  have hat : creatorAt σ.hist rnd c t =
      match (entriesOf ((σ.deltas.take (rnd - σ.dbRound)).map creatMods) c).getLast? with
      | some m => creatorOfMod m t
      | none => creatorAt σ.hist σ.dbRound c t := by
    rw [creatorAt_eq, creatorAt_eq]
    have := lastIn_mods ct σ h creatMods c (rnd - σ.dbRound) hoffle
    rw [Nat.add_sub_cancel' h1] at this
    rw [this]
    cases (entriesOf ((σ.deltas.take (rnd - σ.dbRound)).map creatMods) c).getLast? <;> rfl
  have hfrom : (if rnd - σ.dbRound = σ.deltas.length then (AMap.get σ.creatables c).map (·.1)
      else walkBack (fun d => d.creat? c) σ.deltas (rnd - σ.dbRound)) =
      (entriesOf ((σ.deltas.take (rnd - σ.dbRound)).map creatMods) c).getLast? := by
    by_cases hoff : rnd - σ.dbRound = σ.deltas.length
    · simp only [hoff, if_true, List.take_length]
      cases hg : AMap.get σ.creatables c with
      | none => rw [hg] at hidx; simp only [] at hidx; rw [hidx]; rfl
      | some vn =>
        obtain ⟨v, n⟩ := vn
        rw [hg] at hidx
        obtain ⟨e, hlast, hrel, _⟩ := hidx
        rw [hlast, hrel]; rfl
    · simp only [hoff, if_false]; exact hwalk
  rw [hfrom, hat]
  cases (entriesOf ((σ.deltas.take (rnd - σ.dbRound)).map creatMods) c).getLast? with
  | some m => rfl
  | none => simp only [h.dbr, if_true]; rw [dbCreator_spec ct σ h]

/-! ### resources (queries with the creatable's own type) -/

theorem resMods_mem (d : Delta) (a : Addr) (c : Cidx) (r : ResRec) (h : AMap.get (resMods d) (a, c) = some r) :
    r ∈ d.res ∧ r.addr = a ∧ r.cidx = c := by
  have := get_some_mem h
  unfold resMods at this
  simp only [List.mem_map] at this
  obtain ⟨r', hr', he⟩ := this
  simp only [Prod.mk.injEq] at he
  obtain ⟨⟨he1, he2⟩, he3⟩ := he
  subst he3
  exact ⟨hr', he1, he2⟩

theorem resAt_eq (ct : Cidx → CType) (h : History) (hwf : HistWF ct h) (rnd : Nat) (a : Addr) (c : Cidx) :
    resAt h rnd a c (ct c) = ((lastIn (fun d => AMap.get (resMods d) (a, c)) (h.blocks.take rnd)).map (·.val)).getD {} := by
  unfold resAt History.upTo Delta.res?
  rw [lastIn_map]
  congr 2
  apply lastIn_congr
  intro d hd
  exact resRec?_eq_get ct d (hwf.deltas d (List.mem_of_mem_take hd)).ctR a c

theorem resAt_split (ct : Cidx → CType) (σ : State) (h : Inv ct σ) (a : Addr) (c : Cidx) (off : Nat) (hoff : off ≤ σ.deltas.length) :
    resAt σ.hist (σ.dbRound + off) a c (ct c) =
      match (entriesOf ((σ.deltas.take off).map resMods) (a, c)).getLast? with
      | some r => r.val
      | none => resAt σ.hist σ.dbRound a c (ct c) := by
  rw [resAt_eq ct _ h.wf, resAt_eq ct _ h.wf, lastIn_mods ct σ h resMods (a, c) _ hoff]
  cases (entriesOf ((σ.deltas.take off).map resMods) (a, c)).getLast? <;> rfl

theorem resVal_isEmpty (v : ResVal) : v.isEmpty = true ↔ v = {} := by
  obtain ⟨p, hh⟩ := v
  cases p <;> cases hh <;> simp [ResVal.isEmpty]

theorem resFromDb_spec (ct : Cidx → CType) (σ : State) (h : Inv ct σ) (a : Addr) (c : Cidx) (rnd : Nat) :
    (resFromDb σ a c (ct c) rnd).1 = .ok (resAt σ.hist σ.dbRound a c (ct c), rnd) ∧ Inv ct (resFromDb σ a c (ct c) rnd).2 := by
  have hdb : ∀ v, AMap.get σ.db.res (a, c) = v → (v.map (·.proj (ct c))).getD {} = resAt σ.hist σ.dbRound a c (ct c) := by
    intro v hv
    rw [← hv, h.dbR a c]; unfold rowOf
    split
    · next he => rw [(resVal_isEmpty _).mp he]; rfl
    · simp [ResRow.proj]
  unfold resFromDb
  cases hr : σ.baseResources.read (a, c) with
  | some e =>
    obtain ⟨hv, hle⟩ := lru_read_valid h.lruR hr
    simp only []
    refine ⟨by rw [hdb _ hv.symm], ?_⟩
    exact { h with lruR := lruInv_writePending h.lruR (a, c) e ⟨hv, hle⟩ }
  | none =>
    simp only []
    by_cases hnf : σ.baseResources.readNotFound (a, c) = true
    · simp only [hnf, if_true]
      have := lru_notFound_valid h.lruR hr hnf
      exact ⟨by rw [← hdb _ this]; rfl, h⟩
    · simp only [hnf, Bool.false_eq_true, if_false]
      cases hrow : AMap.get σ.db.res (a, c) with
      | some row =>
        have hct : row.ctype = ct c := by
          have := h.dbR a c
          rw [hrow] at this; unfold rowOf at this
          split at this
          · simp at this
          · simp at this; rw [this]
        simp only [hct, ne_eq, not_true_eq_false, if_false, h.dbr, if_true]
        refine ⟨?_, ?_⟩
        · have := hdb _ hrow
          simp only [Option.map_some, Option.getD_some, ResRow.proj, hct, if_true] at this
          rw [this]
        · exact { h with lruR := lruInv_writePending h.lruR (a, c) ⟨some row, σ.dbRound⟩ ⟨hrow.symm, Nat.le_refl _⟩ }
      | none =>
        simp only [h.dbr, if_true]
        refine ⟨by rw [← hdb _ hrow]; rfl, ?_⟩
        exact { h with lruR := lruInv_writeNotFoundPending h.lruR (a, c) hrow }

theorem lookupRes_spec (ct : Cidx → CType) (σ : State) (h : Inv ct σ) (rnd : Nat) (a : Addr) (c : Cidx)
    (h1 : σ.dbRound ≤ rnd) (h2 : rnd ≤ σ.latest) :
    ∃ vt, (lookupRes σ rnd a c (ct c)).1 = .ok (resAt σ.hist rnd a c (ct c), vt) ∧ rnd ≤ vt ∧ vt ≤ σ.latest ∧
      (∀ r, rnd ≤ r → r ≤ vt → resAt σ.hist r a c (ct c) = resAt σ.hist rnd a c (ct c)) ∧
      Inv ct (lookupRes σ rnd a c (ct c)).2 := by
  have hoffle : rnd - σ.dbRound ≤ σ.deltas.length := by unfold State.latest at h2; omega
  unfold lookupRes
  rw [roundOffset_ok σ rnd h1 h2]
  simp only []
  have hidx := h.idxR (a, c)
  have hwalk : walkBack (fun d => d.res? a c (ct c)) σ.deltas (rnd - σ.dbRound) =
      ((entriesOf ((σ.deltas.take (rnd - σ.dbRound)).map resMods) (a, c)).getLast?).map (·.val) := by
    rw [← walkBack_eq_getLast]
    unfold walkBack Delta.res?
    have h1' := lastIn_map (fun d => d.resRec? a c (ct c)) (·.val) (σ.deltas.take (rnd - σ.dbRound))
    have h2' := lastIn_congr (fun d => d.resRec? a c (ct c)) (fun d => AMap.get (resMods d) (a, c)) (σ.deltas.take (rnd - σ.dbRound))
      (fun d hd => resRec?_eq_get ct d (h.wf.deltas d (h.deltas_sub d (List.mem_of_mem_take hd))).ctR a c)
    unfold lastIn at h1' h2'
    rw [h1', h2']
  have hat : resAt σ.hist rnd a c (ct c) =
      match (entriesOf ((σ.deltas.take (rnd - σ.dbRound)).map resMods) (a, c)).getLast? with
      | some r => r.val
      | none => resAt σ.hist σ.dbRound a c (ct c) := by
    have := resAt_split ct σ h a c (rnd - σ.dbRound) hoffle
    rwa [Nat.add_sub_cancel' h1] at this
  cases hg : AMap.get σ.resources (a, c) with
  | some dn =>
    obtain ⟨r4, n⟩ := dn
    rw [hg] at hidx
    obtain ⟨e, hlast, hrel, _⟩ := hidx
    simp only []
    by_cases hoff : rnd - σ.dbRound = σ.deltas.length
    · simp only [hoff, if_true]
      refine ⟨rnd, ?_, Nat.le_refl _, h2, fun r hr1 hr2 => by rw [show r = rnd by omega], h⟩
      obtain ⟨d, hd, hge⟩ := getLast?_entries_mem _ _ _ hlast
      simp only [List.mem_map] at hd
      obtain ⟨d', hd', rfl⟩ := hd
      obtain ⟨hmem, _, hc⟩ := resMods_mem d' a c e hge
      have hct : e.ctype = ct c := by rw [← hc]; exact (h.wf.deltas d' (h.deltas_sub d' hd')).ctR e hmem
      rw [hat, hoff, List.take_length, hlast, ← hct, hrel]
    · simp only [hoff, if_false]
      rw [hwalk]
      cases hw : (entriesOf ((σ.deltas.take (rnd - σ.dbRound)).map resMods) (a, c)).getLast? with
      | some r =>
        simp only [Option.map_some]
        refine ⟨rnd, ?_, Nat.le_refl _, h2, fun r hr1 hr2 => by rw [show r = rnd by omega], h⟩
        rw [hat, hw]
      | none =>
        simp only [Option.map_none]
        obtain ⟨hres, hinv⟩ := resFromDb_spec ct σ h a c rnd
        refine ⟨rnd, ?_, Nat.le_refl _, h2, fun r hr1 hr2 => by rw [show r = rnd by omega], hinv⟩
        rw [hres, hat, hw]
  | none =>
    rw [hg] at hidx
    simp only [] at hidx ⊢
    obtain ⟨hres, hinv⟩ := resFromDb_spec ct σ h a c (σ.dbRound + σ.deltas.length)
    have hall : ∀ r, σ.dbRound ≤ r → r ≤ σ.latest → resAt σ.hist r a c (ct c) = resAt σ.hist σ.dbRound a c (ct c) := by
      intro r hr1 hr2
      obtain ⟨off, rfl⟩ : ∃ off, r = σ.dbRound + off := ⟨r - σ.dbRound, by omega⟩
      rw [resAt_eq ct _ h.wf, resAt_eq ct _ h.wf,
        lastIn_mods_untouched ct σ h resMods (a, c) hidx _ (by unfold State.latest at hr2; omega)]
    refine ⟨σ.dbRound + σ.deltas.length, ?_, by unfold State.latest at h2; omega, Nat.le_refl _, ?_, hinv⟩
    · rw [hres, hall rnd h1 h2]
    · intro r hr1 hr2
      rw [hall r (by omega) hr2, hall rnd h1 h2]

end AlgoVerif.Lemmas.AcctUpdates
