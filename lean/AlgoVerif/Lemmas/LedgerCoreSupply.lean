/-
Lemmas.LedgerCoreSupply — the asset invariant (C22): per existing asset Σ holdings = total, params live exactly at the
creator, holdings of destroyed assets are 0, asset ids never exceed the txn counter; kept by every modelled operation.
-/
import AlgoVerif.Lemmas.LedgerCoreAsset
import AlgoVerif.Lemmas.LedgerCoreGroup
namespace AlgoVerif.Lemmas.LedgerCore
open AlgoVerif.Model.LedgerCore

/-- Σ over the addresses of `U` of the holdings of asset `i` -/
def supply (x : Ctx) (l : Layer) (U : List Addr) (i : AssetId) : Nat := (U.map (fun a => amountOf x l (a, i))).sum

theorem supply_congr {x : Ctx} {l l' : Layer} {U : List Addr} {i : AssetId}
    (h : ∀ a ∈ U, amountOf x l' (a, i) = amountOf x l (a, i)) : supply x l' U i = supply x l U i :=
  sum_map_congr _ _ h

theorem supply_update {x : Ctx} {l l' : Layer} {U : List Addr} {i : AssetId} (hU : U.Nodup) {a : Addr} (ha : a ∈ U)
    (h : ∀ b, b ≠ a → amountOf x l' (b, i) = amountOf x l (b, i)) :
    supply x l' U i + amountOf x l (a, i) = supply x l U i + amountOf x l' (a, i) :=
  sum_map_update hU ha (fun b => amountOf x l (b, i)) (fun b => amountOf x l' (b, i)) h

theorem sum_zero_of_all_zero {U : List Addr} (f : Addr → Nat) (h : ∀ a ∈ U, f a = 0) : (U.map f).sum = 0 := by
  induction U with
  | nil => rfl
  | cons u r ih =>
    simp only [List.map_cons, List.sum_cons]
    rw [h u List.mem_cons_self, ih (fun a ha => h a (List.mem_cons_of_mem _ ha))]

theorem all_zero_of_sum_zero {U : List Addr} (f : Addr → Nat) (h : (U.map f).sum = 0) : ∀ a ∈ U, f a = 0 := by
  induction U with
  | nil => intro a ha; cases ha
  | cons u r ih =>
    simp only [List.map_cons, List.sum_cons] at h
    intro a ha
    rcases List.mem_cons.mp ha with e | e
    · subst e; omega
    · exact ih (by omega) a e

/-- if the sum equals one of its terms, all other terms are zero -/
theorem others_zero_of_sum_eq {U : List Addr} (hU : U.Nodup) (f : Addr → Nat) {c : Addr} (hc : c ∈ U)
    (h : (U.map f).sum = f c) : ∀ a ∈ U, a ≠ c → f a = 0 := by
  have := sum_map_update hU hc f (fun b => if b = c then 0 else f b) (fun b hb => by simp [hb])
  simp only [if_true] at this
  have hz : (U.map (fun b => if b = c then 0 else f b)).sum = 0 := by omega
  intro a ha hne
  have := all_zero_of_sum_zero _ hz a ha
  simpa [hne] using this

theorem amountOf_none {x : Ctx} {l : Layer} {k : ResKey} (h : holdingOf x l k = none) : amountOf x l k = 0 := by
  simp [amountOf, h]
theorem amountOf_some {x : Ctx} {l : Layer} {k : ResKey} {hd : Holding} (h : holdingOf x l k = some hd) :
    amountOf x l k = hd.amount := by
  simp [amountOf, h]

/-- The asset invariant of the state seen through `l`; `bound` is the txn counter (asset ids are allotted from it). -/
structure AssetInv (x : Ctx) (l : Layer) (U : List Addr) (bound : Nat) : Prop where
  closed : ∀ a i hd, holdingOf x l (a, i) = some hd → a ∈ U
  live : ∀ i cr, creatorOf x l i = some cr → ∃ p, paramsOf x l (cr, i) = some p ∧ supply x l U i = p.total
  owner : ∀ a i p, paramsOf x l (a, i) = some p → creatorOf x l i = some a
  gone : ∀ i, creatorOf x l i = none → ∀ a, amountOf x l (a, i) = 0
  fresh : ∀ i, bound < i → creatorOf x l i = none ∧ ∀ a, holdingOf x l (a, i) = none

theorem AssetInv.mono {x : Ctx} {l : Layer} {U : List Addr} {n m : Nat} (h : AssetInv x l U n) (hnm : n ≤ m) : AssetInv x l U m :=
  ⟨h.closed, h.live, h.owner, h.gone, fun i hi => h.fresh i (by omega)⟩

/-- layers showing the same asset views and bounds satisfy the invariant together -/
theorem AssetInv.of_views {x x' : Ctx} {l l' : Layer} {U : List Addr} {n : Nat} (h : AssetInv x l U n)
    (hh : ∀ k, holdingOf x' l' k = holdingOf x l k) (hp : ∀ k, paramsOf x' l' k = paramsOf x l k)
    (hc : ∀ i, creatorOf x' l' i = creatorOf x l i) : AssetInv x' l' U n := by
  have ha : ∀ k, amountOf x' l' k = amountOf x l k := fun k => by unfold amountOf; rw [hh]
  have hs : ∀ i, supply x' l' U i = supply x l U i := fun i => sum_map_congr _ _ (fun a _ => ha (a, i))
  refine ⟨?_, ?_, ?_, ?_, ?_⟩
  · intro a i hd e; rw [hh] at e; exact h.closed a i hd e
  · intro i cr e; rw [hc] at e; obtain ⟨p, e1, e2⟩ := h.live i cr e; exact ⟨p, by rw [hp]; exact e1, by rw [hs]; exact e2⟩
  · intro a i p e; rw [hp] at e; rw [hc]; exact h.owner a i p e
  · intro i e a; rw [hc] at e; rw [ha]; exact h.gone i e a
  · intro i hi; obtain ⟨e1, e2⟩ := h.fresh i hi; exact ⟨by rw [hc]; exact e1, fun a => by rw [hh]; exact e2 a⟩

theorem AssetInv.sameAssets {x : Ctx} {l l' : Layer} {U : List Addr} {n : Nat} (h : AssetInv x l U n) (hs : SameAssets x l l') :
    AssetInv x l' U n := h.of_views hs.holding hs.params hs.creator

/-! ## same shape: only amounts / frozen flags of one asset change -/

structure SameShape (x : Ctx) (l l' : Layer) (i : AssetId) : Prop where
  params : ∀ k, paramsOf x l' k = paramsOf x l k
  creator : ∀ j, creatorOf x l' j = creatorOf x l j
  other : ∀ a j, j ≠ i → holdingOf x l' (a, j) = holdingOf x l (a, j)
  exist : ∀ a, holdingOf x l' (a, i) = none ↔ holdingOf x l (a, i) = none

theorem SameShape.refl (x : Ctx) (l : Layer) (i : AssetId) : SameShape x l l i :=
  ⟨fun _ => rfl, fun _ => rfl, fun _ _ _ => rfl, fun _ => Iff.rfl⟩
theorem SameShape.trans {x : Ctx} {a b c : Layer} {i : AssetId} (h1 : SameShape x a b i) (h2 : SameShape x b c i) : SameShape x a c i :=
  ⟨fun k => (h2.params k).trans (h1.params k), fun j => (h2.creator j).trans (h1.creator j),
   fun a' j hj => (h2.other a' j hj).trans (h1.other a' j hj), fun a' => (h2.exist a').trans (h1.exist a')⟩

/-- rewriting one existing holding keeps the shape -/
theorem sameShape_putHolding (x : Ctx) (l : Layer) (a : Addr) (i : AssetId) (hd hd' : Holding)
    (he : holdingOf x l (a, i) = some hd) : SameShape x l (putHoldingD x l (a, i) (.val hd')) i := by
  refine ⟨fun k => paramsOf_putHoldingD _ _ _ _ _, fun j => rfl, ?_, ?_⟩
  · intro a' j hj
    rw [holdingOf_putHoldingD _ _ _ _ _ (by simp), if_neg (by intro e; cases e; exact hj rfl)]
  · intro a'
    rw [holdingOf_putHoldingD _ _ _ _ _ (by simp)]
    by_cases e : (a', i) = (a, i)
    · rw [if_pos e]
      have : a' = a := by cases e; rfl
      subst this
      simp [Delta.toOption, he]
    · rw [if_neg e]

theorem inv_sameShape {x : Ctx} {l l' : Layer} {U : List Addr} {n : Nat} {i : AssetId} (hI : AssetInv x l U n)
    (hs : SameShape x l l' i) (hsup : supply x l' U i = supply x l U i)
    (hg : creatorOf x l i = none → ∀ a, amountOf x l' (a, i) = 0) : AssetInv x l' U n := by
  have hamt : ∀ a j, j ≠ i → amountOf x l' (a, j) = amountOf x l (a, j) := fun a j hj => by
    unfold amountOf; rw [hs.other a j hj]
  refine ⟨?_, ?_, ?_, ?_, ?_⟩
  · intro a j hd e
    by_cases hj : j = i
    · subst hj
      cases h0 : holdingOf x l (a, j) with
      | none => rw [(hs.exist a).mpr h0] at e; cases e
      | some h1 => exact hI.closed a j h1 h0
    · rw [hs.other a j hj] at e; exact hI.closed a j hd e
  · intro j cr e
    rw [hs.creator] at e
    obtain ⟨p, e1, e2⟩ := hI.live j cr e
    refine ⟨p, by rw [hs.params]; exact e1, ?_⟩
    by_cases hj : j = i
    · subst hj; rw [hsup]; exact e2
    · rw [supply_congr (fun a _ => hamt a j hj)]; exact e2
  · intro a j p e; rw [hs.params] at e; rw [hs.creator]; exact hI.owner a j p e
  · intro j e a
    rw [hs.creator] at e
    by_cases hj : j = i
    · subst hj; exact hg e a
    · rw [hamt a j hj]; exact hI.gone j e a
  · intro j hj
    obtain ⟨e1, e2⟩ := hI.fresh j hj
    refine ⟨by rw [hs.creator]; exact e1, fun a => ?_⟩
    by_cases hji : j = i
    · subst hji; exact (hs.exist a).mpr (e2 a)
    · rw [hs.other a j hji]; exact e2 a

/-! ## takeOut / putIn -/

theorem takeOut_ok {x : Ctx} {l l' : Layer} {a : Addr} {i : AssetId} {amt : Nat} {b : Bool}
    (h : takeOut x l a i amt b = .ok l') :
    (amt = 0 ∧ l' = l) ∨ (0 < amt ∧ ∃ hd, holdingOf x l (a, i) = some hd ∧ (hd.frozen = true → b = true) ∧ amt ≤ hd.amount ∧
      l' = putHoldingD x l (a, i) (.val { hd with amount := hd.amount - amt })) := by
  unfold takeOut at h
  split at h
  · rename_i h0; cases h; exact Or.inl ⟨h0, rfl⟩
  · rename_i h0
    split at h
    · cases h
    · rename_i hd he
      split at h
      · cases h
      · rename_i hf
        split at h
        · cases h
        · rename_i hlt
          cases h
          refine Or.inr ⟨Nat.pos_of_ne_zero h0, hd, he, ?_, by omega, rfl⟩
          intro hfr
          by_cases hb : b = true
          · exact hb
          · exact absurd ⟨hfr, hb⟩ hf

theorem putIn_ok {x : Ctx} {l l' : Layer} {a : Addr} {i : AssetId} {amt : Nat} {b : Bool}
    (h : putIn x l a i amt b = .ok l') :
    (amt = 0 ∧ l' = l) ∨ (0 < amt ∧ ∃ hd, holdingOf x l (a, i) = some hd ∧ (hd.frozen = true → b = true) ∧
      l' = putHoldingD x l (a, i) (.val { hd with amount := hd.amount + amt })) := by
  unfold putIn at h
  split at h
  · rename_i h0; cases h; exact Or.inl ⟨h0, rfl⟩
  · rename_i h0
    split at h
    · cases h
    · rename_i hd he
      split at h
      · cases h
      · rename_i hf
        split at h
        · cases h
        · cases h
          refine Or.inr ⟨Nat.pos_of_ne_zero h0, hd, he, ?_, rfl⟩
          intro hfr
          by_cases hb : b = true
          · exact hb
          · exact absurd ⟨hfr, hb⟩ hf

theorem takeOut_shape {x : Ctx} {l l' : Layer} {a : Addr} {i : AssetId} {amt : Nat} {b : Bool}
    (h : takeOut x l a i amt b = .ok l') : SameShape x l l' i := by
  rcases takeOut_ok h with ⟨_, rfl⟩ | ⟨_, hd, he, _, _, rfl⟩
  · exact SameShape.refl _ _ _
  · exact sameShape_putHolding x l a i hd _ he

theorem putIn_shape {x : Ctx} {l l' : Layer} {a : Addr} {i : AssetId} {amt : Nat} {b : Bool}
    (h : putIn x l a i amt b = .ok l') : SameShape x l l' i := by
  rcases putIn_ok h with ⟨_, rfl⟩ | ⟨_, hd, he, _, rfl⟩
  · exact SameShape.refl _ _ _
  · exact sameShape_putHolding x l a i hd _ he

theorem amountOf_putHolding_val (x : Ctx) (l : Layer) (a b : Addr) (i : AssetId) (hd : Holding) :
    amountOf x (putHoldingD x l (a, i) (.val hd)) (b, i) = if b = a then hd.amount else amountOf x l (b, i) := by
  rw [amountOf_putHoldingD _ _ _ _ _ (by simp)]
  by_cases e : b = a
  · subst e; simp [dAmount]
  · have : (b, i) ≠ (a, i) := by intro h; cases h; exact e rfl
    simp [this, e]

theorem takeOut_supply {x : Ctx} {l l' : Layer} {a : Addr} {i : AssetId} {amt : Nat} {b : Bool} {U : List Addr}
    (hU : U.Nodup) (hcl : ∀ a hd, holdingOf x l (a, i) = some hd → a ∈ U)
    (h : takeOut x l a i amt b = .ok l') : supply x l' U i + amt = supply x l U i := by
  rcases takeOut_ok h with ⟨h0, rfl⟩ | ⟨_, hd, he, _, hle, rfl⟩
  · omega
  · have ha : a ∈ U := hcl a hd he
    have := supply_update (x := x) (l := l) (l' := putHoldingD x l (a, i) (.val { hd with amount := hd.amount - amt }))
      (i := i) hU ha (fun b hb => by rw [amountOf_putHolding_val, if_neg hb])
    rw [amountOf_putHolding_val, if_pos rfl, amountOf_some he] at this
    simp only at this
    omega

theorem putIn_supply {x : Ctx} {l l' : Layer} {a : Addr} {i : AssetId} {amt : Nat} {b : Bool} {U : List Addr}
    (hU : U.Nodup) (hcl : ∀ a hd, holdingOf x l (a, i) = some hd → a ∈ U)
    (h : putIn x l a i amt b = .ok l') : supply x l' U i = supply x l U i + amt := by
  rcases putIn_ok h with ⟨h0, rfl⟩ | ⟨_, hd, he, _, rfl⟩
  · omega
  · have ha : a ∈ U := hcl a hd he
    have := supply_update (x := x) (l := l) (l' := putHoldingD x l (a, i) (.val { hd with amount := hd.amount + amt }))
      (i := i) hU ha (fun b hb => by rw [amountOf_putHolding_val, if_neg hb])
    rw [amountOf_putHolding_val, if_pos rfl, amountOf_some he] at this
    simp only at this
    omega

/-- moving `amt` out of one holding and into another keeps the invariant -/
theorem pair_inv {x : Ctx} {l l1 l2 : Layer} {src dst : Addr} {i : AssetId} {amt : Nat} {b1 b2 : Bool} {U : List Addr} {n : Nat}
    (hU : U.Nodup) (hI : AssetInv x l U n) (h1 : takeOut x l src i amt b1 = .ok l1) (h2 : putIn x l1 dst i amt b2 = .ok l2) :
    AssetInv x l2 U n := by
  have s1 := takeOut_shape h1
  have s2 := putIn_shape h2
  have hcl : ∀ a hd, holdingOf x l (a, i) = some hd → a ∈ U := fun a hd e => hI.closed a i hd e
  have hcl1 : ∀ a hd, holdingOf x l1 (a, i) = some hd → a ∈ U := by
    intro a hd e
    cases h0 : holdingOf x l (a, i) with
    | none => rw [(s1.exist a).mpr h0] at e; cases e
    | some h' => exact hcl a h' h0
  have e1 := takeOut_supply hU hcl h1
  have e2 := putIn_supply hU hcl1 h2
  refine inv_sameShape hI (s1.trans s2) (by omega) ?_
  intro hnone a
  have hz := hI.gone i hnone
  -- on a destroyed asset nothing can be taken out
  rcases takeOut_ok h1 with ⟨h0, rfl⟩ | ⟨hpos, hd, he, _, hle, _⟩
  · rcases putIn_ok h2 with ⟨_, rfl⟩ | ⟨hpos, _⟩
    · exact hz a
    · omega
  · have := hz src
    rw [amountOf_some he] at this
    omega

/-! ## the asset operations keep the invariant -/

theorem getParams_ok {x : Ctx} {l : Layer} {i : AssetId} {p : AssetParams} {cr : Addr} (h : getParams x l i = .ok (p, cr)) :
    creatorOf x l i = some cr ∧ paramsOf x l (cr, i) = some p := by
  unfold getParams at h
  split at h
  · cases h
  · rename_i cr' hc
    split at h
    · cases h
    · rename_i p' hp
      cases h
      exact ⟨hc, hp⟩

/-- a new holding with amount 0 for an existing asset, at an address of `U` -/
theorem inv_newHolding {x : Ctx} {l : Layer} {U : List Addr} {n : Nat} {a : Addr} {i : AssetId} {cr : Addr} (fr : Bool)
    (ha : a ∈ U) (hI : AssetInv x l U n) (hnone : holdingOf x l (a, i) = none) (hcr : creatorOf x l i = some cr) :
    AssetInv x (putHoldingD x l (a, i) (.val ⟨0, fr⟩)) U n := by
  have hh : ∀ k, holdingOf x (putHoldingD x l (a, i) (.val ⟨0, fr⟩)) k = if k = (a, i) then some ⟨0, fr⟩ else holdingOf x l k :=
    fun k => holdingOf_putHoldingD _ _ _ _ _ (by simp)
  have hamt : ∀ k, amountOf x (putHoldingD x l (a, i) (.val ⟨0, fr⟩)) k = amountOf x l k := by
    intro k
    rw [amountOf_putHoldingD _ _ _ _ _ (by simp)]
    split
    · rename_i e; subst e; rw [amountOf_none hnone]; rfl
    · rfl
  refine ⟨?_, ?_, ?_, ?_, ?_⟩
  · intro a' j hd e
    rw [hh] at e
    split at e
    · rename_i ek; cases ek; exact ha
    · exact hI.closed a' j hd e
  · intro j c e
    obtain ⟨p, e1, e2⟩ := hI.live j c e
    exact ⟨p, by rw [paramsOf_putHoldingD]; exact e1, by rw [supply_congr (fun b _ => hamt (b, j))]; exact e2⟩
  · intro a' j p e; rw [paramsOf_putHoldingD] at e; exact hI.owner a' j p e
  · intro j e a'; rw [hamt]; exact hI.gone j e a'
  · intro j hj
    obtain ⟨e1, e2⟩ := hI.fresh j hj
    refine ⟨e1, fun a' => ?_⟩
    rw [hh]
    split
    · rename_i ek; cases ek
      -- the asset exists, so its id is not beyond the bound
      rw [hcr] at e1; cases e1
    · exact e2 a'

/-- deleting a holding whose amount is 0 -/
theorem inv_delHolding {x : Ctx} {l : Layer} {U : List Addr} {n : Nat} {a : Addr} {i : AssetId}
    (hI : AssetInv x l U n) (hz : amountOf x l (a, i) = 0) : AssetInv x (putHoldingD x l (a, i) .deleted) U n := by
  have hh : ∀ k, holdingOf x (putHoldingD x l (a, i) .deleted) k = if k = (a, i) then none else holdingOf x l k :=
    fun k => holdingOf_putHoldingD _ _ _ _ _ (by simp)
  have hamt : ∀ k, amountOf x (putHoldingD x l (a, i) .deleted) k = amountOf x l k := by
    intro k
    rw [amountOf_putHoldingD _ _ _ _ _ (by simp)]
    split
    · rename_i e; subst e; rw [hz]; rfl
    · rfl
  refine ⟨?_, ?_, ?_, ?_, ?_⟩
  · intro a' j hd e
    rw [hh] at e
    split at e
    · cases e
    · exact hI.closed a' j hd e
  · intro j c e
    obtain ⟨p, e1, e2⟩ := hI.live j c e
    exact ⟨p, by rw [paramsOf_putHoldingD]; exact e1, by rw [supply_congr (fun b _ => hamt (b, j))]; exact e2⟩
  · intro a' j p e; rw [paramsOf_putHoldingD] at e; exact hI.owner a' j p e
  · intro j e a'; rw [hamt]; exact hI.gone j e a'
  · intro j hj
    obtain ⟨e1, e2⟩ := hI.fresh j hj
    refine ⟨e1, fun a' => ?_⟩
    rw [hh]
    split
    · rfl
    · exact e2 a'

theorem optIn_inv {P : Params} {x : Ctx} {l l' : Layer} {t : Txn} {src : Addr} {c : Bool} {U : List Addr} {n : Nat}
    (hs : src ∈ U) (hI : AssetInv x l U n) (h : optIn P x l t src c = .ok l') : AssetInv x l' U n := by
  unfold optIn at h
  split at h
  · split at h
    · cases h; exact hI
    · rename_i hnone
      split at h
      · cases h
      · rename_i params cr hgp
        obtain ⟨hcr, _⟩ := getParams_ok hgp
        simp only at h
        split at h
        · cases h
        · cases h
          exact inv_newHolding _ hs (hI.sameAssets (sameAssets_putAcct _ _ _ _)) hnone hcr
  · cases h; exact hI

theorem assetClose_inv {x : Ctx} {l l' : Layer} {t : Txn} {src : Addr} {c : Bool} {U : List Addr} {n : Nat}
    (hU : U.Nodup) (hI : AssetInv x l U n) (h : assetClose x l t src c = .ok l') : AssetInv x l' U n := by
  unfold assetClose at h
  split at h
  · cases h; exact hI
  · split at h
    · cases h
    · simp only at h
      split at h
      · cases h
      · split at h
        · cases h
        · split at h
          · cases h
          · split at h
            · cases h
            · rename_i l1 h1
              split at h
              · cases h
              · rename_i l2 h2
                have hI2 := pair_inv hU hI h1 h2
                split at h
                · cases h
                · rename_i hz
                  split at h
                  · cases h
                  · cases h
                    have hz' : amountOf x l2 (src, t.asset) = 0 := by simpa using hz
                    exact inv_delHolding (hI2.sameAssets (sameAssets_putAcct _ _ _ _)) hz'

theorem assetTransfer_inv {P : Params} {x : Ctx} {l l' : Layer} {t : Txn} {U : List Addr} {n : Nat}
    (hU : U.Nodup) (hs : t.sender ∈ U) (hI : AssetInv x l U n) (h : assetTransfer P x l t = .ok l') : AssetInv x l' U n := by
  unfold assetTransfer at h
  split at h
  · cases h
  · rename_i src cb hsrc
    split at h
    · cases h
    · rename_i l1 h1
      split at h
      · cases h
      · rename_i l2 h2
        split at h
        · cases h
        · rename_i l3 h3
          -- the opt-in branch is only taken without clawback, where the source is the sender
          have hI1 : AssetInv x l1 U n := by
            by_cases hcb : cb = false
            · have : src = t.sender := by
                unfold xferSource at hsrc
                split at hsrc
                · cases hsrc; rfl
                · split at hsrc
                  · cases hsrc
                  · split at hsrc
                    · cases hsrc
                    · cases hsrc; cases hcb
              exact optIn_inv (this ▸ hs) hI h1
            · have : l1 = l := by
                unfold optIn at h1
                have hc : cb = true := by cases cb <;> simp_all
                subst hc
                simp at h1
                exact h1.symm
              rw [this]; exact hI
          exact assetClose_inv hU (pair_inv hU hI1 h2 h3) h

theorem assetFreeze_inv {x : Ctx} {l l' : Layer} {t : Txn} {U : List Addr} {n : Nat}
    (hI : AssetInv x l U n) (h : assetFreeze x l t = .ok l') : AssetInv x l' U n := by
  unfold assetFreeze at h
  split at h
  · cases h
  · split at h
    · cases h
    · split at h
      · cases h
      · rename_i hd he
        cases h
        have hs := sameShape_putHolding x l t.freezeAccount t.asset hd { hd with frozen := t.frozen } he
        have hamt : ∀ a, amountOf x (putHoldingD x l (t.freezeAccount, t.asset) (.val { hd with frozen := t.frozen })) (a, t.asset)
            = amountOf x l (a, t.asset) := by
          intro a
          rw [amountOf_putHolding_val]
          split
          · rename_i e; subst e; rw [amountOf_some he]
          · rfl
        exact inv_sameShape hI hs (supply_congr (fun a _ => hamt a)) (fun hn a => by rw [hamt]; exact hI.gone _ hn a)

/-! ### AssetConfig -/

theorem supply_zero_of_no_holdings {x : Ctx} {l : Layer} {U : List Addr} {i : AssetId} (h : ∀ a, holdingOf x l (a, i) = none) :
    supply x l U i = 0 :=
  sum_zero_of_all_zero _ (fun a _ => amountOf_none (h a))

/-- creation of asset `i` (beyond the bound, hence fresh) by `s` -/
theorem inv_create {x : Ctx} {l : Layer} {U : List Addr} {n : Nat} {s : Addr} (p : AssetParams)
    (hU : U.Nodup) (hs : s ∈ U) (hI : AssetInv x l U n) :
    AssetInv x (putCreatable (putHoldingD x (putParamsD x l (s, n + 1) (.val p)) (s, n + 1) (.val ⟨p.total, false⟩)) (n + 1) s true)
      U (n + 1) := by
  obtain ⟨hfc, hfh⟩ := hI.fresh (n + 1) (by omega)
  generalize hl' : putCreatable (putHoldingD x (putParamsD x l (s, n + 1) (.val p)) (s, n + 1) (.val ⟨p.total, false⟩)) (n + 1) s true = l'
  have hh : ∀ k, holdingOf x l' k = if k = (s, n + 1) then some ⟨p.total, false⟩ else holdingOf x l k := by
    intro k
    subst hl'
    rw [holdingOf_putCreatable, holdingOf_putHoldingD _ _ _ _ _ (by simp), holdingOf_putParamsD]
    split <;> rfl
  have hp : ∀ k, paramsOf x l' k = if k = (s, n + 1) then some p else paramsOf x l k := by
    intro k
    subst hl'
    rw [paramsOf_putCreatable, paramsOf_putHoldingD, paramsOf_putParamsD _ _ _ _ _ (by simp)]
    split <;> rfl
  have hc : ∀ j, creatorOf x l' j = if j = n + 1 then some s else creatorOf x l j := by
    intro j
    subst hl'
    rw [creatorOf_putCreatable]
    split
    · rfl
    · rfl
  have hamt : ∀ a j, j ≠ n + 1 → amountOf x l' (a, j) = amountOf x l (a, j) := by
    intro a j hj
    unfold amountOf
    rw [hh, if_neg (by intro e; cases e; exact hj rfl)]
  refine ⟨?_, ?_, ?_, ?_, ?_⟩
  · intro a j hd e
    rw [hh] at e
    split at e
    · rename_i ek; cases ek; exact hs
    · exact hI.closed a j hd e
  · intro j cr e
    rw [hc] at e
    by_cases hj : j = n + 1
    · subst hj
      rw [if_pos rfl] at e; cases e
      refine ⟨p, by rw [hp, if_pos rfl], ?_⟩
      have hupd := supply_update (x := x) (l := l) (l' := l') (i := n + 1) hU hs (fun b hb => by
        unfold amountOf
        rw [hh, if_neg (by intro e; cases e; exact hb rfl)])
      rw [supply_zero_of_no_holdings hfh, amountOf_none (hfh s)] at hupd
      have : amountOf x l' (s, n + 1) = p.total := by
        unfold amountOf; rw [hh, if_pos rfl]
      omega
    · rw [if_neg hj] at e
      obtain ⟨q, e1, e2⟩ := hI.live j cr e
      refine ⟨q, ?_, ?_⟩
      · rw [hp, if_neg (by intro e; cases e; exact hj rfl)]; exact e1
      · rw [supply_congr (fun a _ => hamt a j hj)]; exact e2
  · intro a j q e
    rw [hp] at e
    rw [hc]
    split at e
    · rename_i ek; cases ek; simp
    · have := hI.owner a j q e
      by_cases hj : j = n + 1
      · subst hj; rw [hfc] at this; cases this
      · rw [if_neg hj]; exact this
  · intro j e a
    rw [hc] at e
    by_cases hj : j = n + 1
    · subst hj; simp at e
    · rw [if_neg hj] at e
      rw [hamt a j hj]; exact hI.gone j e a
  · intro j hj
    have hne : j ≠ n + 1 := by omega
    obtain ⟨e1, e2⟩ := hI.fresh j (by omega)
    refine ⟨by rw [hc, if_neg hne]; exact e1, fun a => ?_⟩
    rw [hh, if_neg (by intro e; cases e; exact hne rfl)]; exact e2 a

/-- destruction of asset `i` whose creator `cr` holds the whole supply -/
theorem inv_destroy {x : Ctx} {l : Layer} {U : List Addr} {n : Nat} {i : AssetId} {cr : Addr} {p : AssetParams}
    (hU : U.Nodup) (hI : AssetInv x l U n) (hcr : creatorOf x l i = some cr) (hp : paramsOf x l (cr, i) = some p)
    (hall : amountOf x l (cr, i) = p.total) :
    AssetInv x (putParamsD x (putHoldingD x (putCreatable l i cr false) (cr, i) .deleted) (cr, i) .deleted) U n := by
  generalize hl' : putParamsD x (putHoldingD x (putCreatable l i cr false) (cr, i) .deleted) (cr, i) .deleted = l'
  have hh : ∀ k, holdingOf x l' k = if k = (cr, i) then none else holdingOf x l k := by
    intro k
    subst hl'
    rw [holdingOf_putParamsD, holdingOf_putHoldingD _ _ _ _ _ (by simp), holdingOf_putCreatable]
    split <;> rfl
  have hpp : ∀ k, paramsOf x l' k = if k = (cr, i) then none else paramsOf x l k := by
    intro k
    subst hl'
    rw [paramsOf_putParamsD _ _ _ _ _ (by simp), paramsOf_putHoldingD, paramsOf_putCreatable]
    split <;> rfl
  have hc : ∀ j, creatorOf x l' j = if j = i then none else creatorOf x l j := by
    intro j
    subst hl'
    rw [creatorOf_putParamsD, creatorOf_putHoldingD, creatorOf_putCreatable]
    split <;> simp
  have hamt : ∀ a j, j ≠ i → amountOf x l' (a, j) = amountOf x l (a, j) := by
    intro a j hj
    unfold amountOf
    rw [hh, if_neg (by intro e; cases e; exact hj rfl)]
  -- before: Σ = total = the creator's amount, so every other holding is 0
  obtain ⟨p', hp', hsup⟩ := hI.live i cr hcr
  rw [hp] at hp'; cases hp'
  have hothers : ∀ a, a ≠ cr → amountOf x l (a, i) = 0 := by
    intro a hne
    by_cases ha : a ∈ U
    · by_cases hc' : cr ∈ U
      · exact others_zero_of_sum_eq hU (fun b => amountOf x l (b, i)) hc' (by rw [hall]; exact hsup) a ha hne
      · -- the creator has no holding: total = 0, everything is 0
        have h0 : holdingOf x l (cr, i) = none := by
          cases e : holdingOf x l (cr, i) with
          | none => rfl
          | some hd => exact absurd (hI.closed cr i hd e) hc'
        rw [amountOf_none h0] at hall
        exact all_zero_of_sum_zero (fun b => amountOf x l (b, i)) (by have := hsup; unfold supply at this; omega) a ha
    · cases e : holdingOf x l (a, i) with
      | none => exact amountOf_none e
      | some hd => exact absurd (hI.closed a i hd e) ha
  refine ⟨?_, ?_, ?_, ?_, ?_⟩
  · intro a j hd e
    rw [hh] at e
    split at e
    · cases e
    · exact hI.closed a j hd e
  · intro j c e
    rw [hc] at e
    by_cases hj : j = i
    · subst hj; simp at e
    · rw [if_neg hj] at e
      obtain ⟨q, e1, e2⟩ := hI.live j c e
      refine ⟨q, ?_, ?_⟩
      · rw [hpp, if_neg (by intro e; cases e; exact hj rfl)]; exact e1
      · rw [supply_congr (fun a _ => hamt a j hj)]; exact e2
  · intro a j q e
    rw [hpp] at e
    split at e
    · cases e
    · rename_i hne
      have := hI.owner a j q e
      rw [hc]
      by_cases hj : j = i
      · subst hj
        rw [hcr] at this; cases this
        exact absurd rfl hne
      · rw [if_neg hj]; exact this
  · intro j e a
    rw [hc] at e
    by_cases hj : j = i
    · subst hj
      by_cases hac : a = cr
      · subst hac; exact amountOf_none (by rw [hh, if_pos rfl])
      · have hne : (a, j) ≠ (cr, j) := by intro e; cases e; exact hac rfl
        have : amountOf x l' (a, j) = amountOf x l (a, j) := by unfold amountOf; rw [hh, if_neg hne]
        rw [this]; exact hothers a hac
    · rw [if_neg hj] at e
      rw [hamt a j hj]; exact hI.gone j e a
  · intro j hj
    obtain ⟨e1, e2⟩ := hI.fresh j hj
    refine ⟨by rw [hc]; split <;> simp [e1], fun a => ?_⟩
    rw [hh]
    split
    · rfl
    · exact e2 a

/-- reconfiguration keeps the total -/
theorem inv_reconfig {x : Ctx} {l : Layer} {U : List Addr} {n : Nat} {i : AssetId} {cr : Addr} {p q : AssetParams}
    (hI : AssetInv x l U n) (hcr : creatorOf x l i = some cr) (hp : paramsOf x l (cr, i) = some p) (hq : q.total = p.total) :
    AssetInv x (putParamsD x l (cr, i) (.val q)) U n := by
  have hpp : ∀ k, paramsOf x (putParamsD x l (cr, i) (.val q)) k = if k = (cr, i) then some q else paramsOf x l k :=
    fun k => paramsOf_putParamsD _ _ _ _ _ (by simp)
  have hamt : ∀ k, amountOf x (putParamsD x l (cr, i) (.val q)) k = amountOf x l k := fun k => amountOf_putParamsD _ _ _ _ _
  refine ⟨?_, ?_, ?_, ?_, ?_⟩
  · intro a j hd e; rw [holdingOf_putParamsD] at e; exact hI.closed a j hd e
  · intro j c e
    rw [creatorOf_putParamsD] at e
    obtain ⟨p', e1, e2⟩ := hI.live j c e
    by_cases hk : (c, j) = (cr, i)
    · cases hk
      rw [hp] at e1; cases e1
      exact ⟨q, by rw [hpp, if_pos rfl], by rw [supply_congr (fun a _ => hamt (a, _)), hq]; exact e2⟩
    · exact ⟨p', by rw [hpp, if_neg hk]; exact e1, by rw [supply_congr (fun a _ => hamt (a, j))]; exact e2⟩
  · intro a j p' e
    rw [hpp] at e
    rw [creatorOf_putParamsD]
    split at e
    · rename_i hk; cases hk; exact hcr
    · exact hI.owner a j p' e
  · intro j e a; rw [creatorOf_putParamsD] at e; rw [hamt]; exact hI.gone j e a
  · intro j hj
    obtain ⟨e1, e2⟩ := hI.fresh j hj
    exact ⟨by rw [creatorOf_putParamsD]; exact e1, fun a => by rw [holdingOf_putParamsD]; exact e2 a⟩

theorem assetConfig_inv {P : Params} {x : Ctx} {l l' : Layer} {t : Txn} {n : Nat} {U : List Addr}
    (hU : U.Nodup) (hs : t.sender ∈ U) (hI : AssetInv x l U n) (h : assetConfig P x l t n = .ok l') : AssetInv x l' U (n + 1) := by
  unfold assetConfig at h
  simp only at h
  split at h
  · split at h
    · cases h
    · split at h
      · cases h
      · cases h
        exact inv_create t.params hU hs (hI.sameAssets (sameAssets_putAcct _ _ _ _))
  · split at h
    · cases h
    · rename_i params creator hgp
      obtain ⟨hcr, hpar⟩ := getParams_ok hgp
      split at h
      · cases h
      · split at h
        · split at h
          · cases h
          · split at h
            · cases h
            · split at h
              · cases h
              · rename_i hall
                split at h
                · cases h
                · cases h
                  have hall' : amountOf x l (creator, t.asset) = params.total := by simpa using hall
                  refine AssetInv.mono ?_ (Nat.le_succ n)
                  have hI1 : AssetInv x (putAcct l creator { acctOf x l creator with
                      totalAssetParams := (acctOf x l creator).totalAssetParams - 1,
                      totalAssets := (acctOf x l creator).totalAssets - 1 }) U n :=
                    hI.sameAssets (sameAssets_putAcct _ _ _ _)
                  exact inv_destroy hU hI1 hcr hpar hall'
        · cases h
          refine AssetInv.mono ?_ (Nat.le_succ n)
          apply inv_reconfig hI hcr hpar
          -- only the four addresses change
          repeat' split
          all_goals rfl

/-! ### transactions, groups, blocks -/

theorem applyTxn_inv {P : Params} {x : Ctx} {l l' : Layer} {t : Txn} {n : Nat} {U : List Addr}
    (hU : U.Nodup) (hs : t.sender ∈ U) (hI : AssetInv x l U n) (h : applyTxn P x l t n = .ok l') : AssetInv x l' U (n + 1) := by
  unfold applyTxn at h
  split at h
  · cases h
  · rename_i l1 h1
    have hI1 := hI.sameAssets (takeFee_sameAssets h1)
    unfold applyKind at h
    split at h
    · exact (hI1.sameAssets (payment_sameAssets h)).mono (Nat.le_succ n)
    · exact (hI1.sameAssets (keyreg_sameAssets h)).mono (Nat.le_succ n)
    · exact assetConfig_inv hU hs hI1 h
    · exact (assetTransfer_inv hU hs hI1 h).mono (Nat.le_succ n)
    · exact (assetFreeze_inv hI1 h).mono (Nat.le_succ n)

theorem txnCount_steps {x : Ctx} {l l' : Layer} (h : Steps x l l') : l.txnCount ≤ l'.txnCount := by
  induction h with
  | refl => exact Nat.le_refl _
  | acct a v _ ih => exact ih
  | holding k d _ _ ih => exact ih
  | params k d _ _ ih => exact ih
  | creat i cr b _ ih => exact ih
  | fees f _ ih => exact ih
  | tx id _ ih => exact Nat.le_succ_of_le ih

theorem counterOf_addTx (x : Ctx) (l : Layer) (id : TxId) : counterOf x (addTx l id) = counterOf x l + 1 := by
  simp only [counterOf, addTx, List.map_cons, List.sum_cons]; omega

theorem counterOf_mono {x : Ctx} {l l' : Layer} (h : l.txnCount ≤ l'.txnCount) : counterOf x l ≤ counterOf x l' := by
  simp only [counterOf, List.map_cons, List.sum_cons]; omega

/-- the invariant at transaction boundaries, with the txn counter as bound -/
theorem evalTxn_inv {P : Params} {x : Ctx} {l l' : Layer} {g : List Txn} {t : Txn} {U : List Addr}
    (hU : U.Nodup) (hs : t.sender ∈ U) (hI : AssetInv x l U (counterOf x l)) (h : evalTxn P x l g t = .ok l') :
    AssetInv x l' U (counterOf x l') := by
  unfold evalTxn at h
  split at h
  · cases h
  · split at h
    · cases h
    · split at h
      · cases h
      · rename_i l1 h1
        split at h
        · cases h
        · cases h
          have hI1 := applyTxn_inv hU hs hI h1
          have hle : counterOf x l + 1 ≤ counterOf x (addTx l1 (txid g t)) := by
            rw [counterOf_addTx]
            have := counterOf_mono (x := x) (txnCount_steps (applyTxn_steps h1))
            omega
          exact (hI1.of_views (x' := x) (l' := addTx l1 (txid g t)) (fun _ => rfl) (fun _ => rfl) (fun _ => rfl)).mono hle

theorem groupLoop_inv {P : Params} {x : Ctx} {g : List Txn} {g0 : Nat} {U : List Addr} (hU : U.Nodup) :
    ∀ (ts : List Txn) (used i : Nat) (l l' : Layer), (∀ t ∈ ts, t.sender ∈ U) → AssetInv x l U (counterOf x l) →
      groupLoop P x g g0 used i l ts = .ok l' → AssetInv x l' U (counterOf x l') := by
  intro ts
  induction ts with
  | nil => intro used i l l' _ hI h; cases h; exact hI
  | cons t r ih =>
    intro used i l l' hs hI h
    unfold groupLoop at h
    split at h
    · cases h
    · rename_i l1 h1
      split at h
      · cases h
      · split at h
        · cases h
        · split at h
          · cases h
          · exact ih _ _ _ _ (fun t' ht' => hs t' (List.mem_cons_of_mem _ ht')) (evalTxn_inv hU (hs t List.mem_cons_self) hI h1) h

theorem evalGroupChild_inv {P : Params} {x : Ctx} {top child : Layer} {used : Nat} {g : List Txn} {U : List Addr}
    (hU : U.Nodup) (hs : ∀ t ∈ g, t.sender ∈ U) (hI : AssetInv x top U (counterOf x top))
    (h : evalGroupChild P x top used g = .ok child) : AssetInv (childCtx x top) child U (counterOf (childCtx x top) child) := by
  unfold evalGroupChild at h
  split at h
  · cases h
  · split at h
    · cases h
    · split at h
      · cases h
      · rename_i c hc
        split at h
        · cases h
        · split at h
          · cases h
          · cases h
            have h0 : AssetInv (childCtx x top) {} U (counterOf (childCtx x top) {}) := by
              have : counterOf (childCtx x top) {} = counterOf x top := by
                simp [counterOf, childCtx]
              rw [this]
              exact hI.of_views (fun _ => rfl) (fun _ => rfl) (fun _ => rfl)
            exact groupLoop_inv hU g used 0 {} child hs h0 hc

/-- the invariant holds after every accepted group (read from the committed top layer) -/
theorem evalGroup_inv {P : Params} {x : Ctx} {s s' : EvalState} {g : List Txn} {U : List Addr}
    (hU : U.Nodup) (hs : ∀ t ∈ g, t.sender ∈ U) (hI : AssetInv x s.top U (counterOf x s.top))
    (h : evalGroup P x s g = .ok s') : AssetInv x s'.top U (counterOf x s'.top) := by
  cases g with
  | nil => cases h; exact hI
  | cons t r =>
    obtain ⟨child, hc, rfl⟩ := evalGroup_ok (by simp) h
    have hw := evalGroupChild_wf hc
    have hco := evalGroupChild_coherent hc
    have hIc := evalGroupChild_inv hU hs hI hc
    show AssetInv x (commitToParent child s.top) U (counterOf x (commitToParent child s.top))
    have hctr : counterOf x (commitToParent child s.top) = counterOf (childCtx x s.top) child :=
      counter_commit child s.top x.parents x.base
    rw [hctr]
    exact hIc.of_views (holdingOf_commit x child s.top hw hco) (paramsOf_commit x child s.top hw hco)
      (creatorOf_commit x child s.top hw)

theorem evalBlock_inv {P : Params} {x : Ctx} {U : List Addr} (hU : U.Nodup) :
    ∀ (gs : List (List Txn)) (s : EvalState), (∀ g ∈ gs, ∀ t ∈ g, t.sender ∈ U) → AssetInv x s.top U (counterOf x s.top) →
      AssetInv x (evalBlock P x s gs).top U (counterOf x (evalBlock P x s gs).top) := by
  intro gs
  induction gs with
  | nil => intro s _ hI; exact hI
  | cons g r ih =>
    intro s hs hI
    have hr : ∀ g' ∈ r, ∀ t ∈ g', t.sender ∈ U := fun g' hg' => hs g' (List.mem_cons_of_mem _ hg')
    show AssetInv x (match evalGroup P x s g with | .ok s' => evalBlock P x s' r | .error _ => evalBlock P x s r).top U
      (counterOf x (match evalGroup P x s g with | .ok s' => evalBlock P x s' r | .error _ => evalBlock P x s r).top)
    cases hg : evalGroup P x s g with
    | error e => exact ih s hr hI
    | ok s' => exact ih s' hr (evalGroup_inv hU (hs g List.mem_cons_self) hI hg)

/-- a ledger without any asset satisfies the invariant -/
theorem inv_init (b : Base) (U : List Addr) (n : Nat) (hr : b.res = []) (hc : b.creators = []) : AssetInv ⟨[], b⟩ {} U n := by
  have hh : ∀ k, holdingOf ⟨[], b⟩ {} k = none := fun k => by
    simp [holdingOf, lookupHoldingD, alookup, hr, Delta.toOption]
  have hp : ∀ k, paramsOf ⟨[], b⟩ {} k = none := fun k => by
    simp [paramsOf, lookupParamsD, alookup, hr, Delta.toOption]
  have hcr : ∀ i, creatorOf ⟨[], b⟩ {} i = none := fun i => by
    simp [creatorOf, lookupCreator, alookup, hc]
  refine ⟨?_, ?_, ?_, ?_, ?_⟩
  · intro a i hd e; rw [hh] at e; cases e
  · intro i cr e; rw [hcr] at e; cases e
  · intro a i p e; rw [hp] at e; cases e
  · intro i _ a; exact amountOf_none (hh _)
  · intro i _; exact ⟨hcr i, fun a => hh _⟩

end AlgoVerif.Lemmas.LedgerCore
