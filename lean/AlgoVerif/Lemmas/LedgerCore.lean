/-
Lemmas.LedgerCore — base lemmas about Model.LedgerCore: association lists (Upsert / MergeAccounts), the views of a child
layer under its context (get-after-put laws of the cow), rewards.
-/
import AlgoVerif.Model.LedgerCore
namespace AlgoVerif.Lemmas.LedgerCore
open AlgoVerif.Model.LedgerCore

/-! ## association lists -/

section AList
variable {κ ν : Type} [DecidableEq κ]

def keys (l : List (κ × ν)) : List κ := l.map (·.1)

@[simp] theorem alookup_nil (k : κ) : alookup k ([] : List (κ × ν)) = none := rfl

theorem alookup_cons (k k' : κ) (v : ν) (r : List (κ × ν)) :
    alookup k ((k', v) :: r) = if k' = k then some v else alookup k r := rfl

theorem alookup_upsert (k k' : κ) (v : ν) (l : List (κ × ν)) :
    alookup k' (upsert k v l) = if k' = k then some v else alookup k' l := by
  induction l with
  | nil =>
    simp only [upsert, alookup_cons, alookup_nil]
    by_cases h : k' = k
    · simp [h]
    · have : ¬ k = k' := fun e => h e.symm
      simp [h, this]
  | cons hd tl ih =>
    obtain ⟨k0, v0⟩ := hd
    simp only [upsert]
    by_cases h0 : k0 = k
    · subst h0
      simp only [if_true, alookup_cons]
      by_cases h : k' = k0
      · subst h; simp
      · have : ¬ k0 = k' := fun e => h e.symm
        simp [h, this]
    · simp only [if_neg h0, alookup_cons, ih]
      by_cases h : k' = k
      · subst h; simp [h0]
      · simp [h]

theorem alookup_upsert_self (k : κ) (v : ν) (l : List (κ × ν)) : alookup k (upsert k v l) = some v := by
  rw [alookup_upsert]; simp

theorem alookup_upsert_ne {k k' : κ} (h : k' ≠ k) (v : ν) (l : List (κ × ν)) :
    alookup k' (upsert k v l) = alookup k' l := by
  rw [alookup_upsert]; simp [h]

theorem alookup_none_of_not_mem {k : κ} {l : List (κ × ν)} (h : k ∉ keys l) : alookup k l = none := by
  induction l with
  | nil => rfl
  | cons hd tl ih =>
    obtain ⟨k0, v0⟩ := hd
    simp only [keys, List.map_cons, List.mem_cons, not_or] at h
    rw [alookup_cons, if_neg (fun e => h.1 e.symm)]
    exact ih h.2

theorem mem_keys_of_alookup {k : κ} {v : ν} {l : List (κ × ν)} (h : alookup k l = some v) : k ∈ keys l := by
  induction l with
  | nil => simp at h
  | cons hd tl ih =>
    obtain ⟨k0, v0⟩ := hd
    rw [alookup_cons] at h
    by_cases e : k0 = k
    · subst e; simp [keys]
    · rw [if_neg e] at h
      simp only [keys, List.map_cons, List.mem_cons]
      exact Or.inr (ih h)

theorem alookup_some_of_mem_keys {k : κ} {l : List (κ × ν)} (h : k ∈ keys l) : ∃ v, alookup k l = some v := by
  induction l with
  | nil => simp [keys] at h
  | cons hd tl ih =>
    obtain ⟨k0, v0⟩ := hd
    rw [alookup_cons]
    by_cases e : k0 = k
    · exact ⟨v0, by simp [e]⟩
    · simp only [keys, List.map_cons, List.mem_cons] at h
      rcases h with h | h
      · exact absurd h.symm e
      · obtain ⟨v, hv⟩ := ih h
        exact ⟨v, by simp [e, hv]⟩

theorem keys_upsert (k : κ) (v : ν) (l : List (κ × ν)) :
    keys (upsert k v l) = if k ∈ keys l then keys l else keys l ++ [k] := by
  induction l with
  | nil => simp [upsert, keys]
  | cons hd tl ih =>
    obtain ⟨k0, v0⟩ := hd
    simp only [upsert]
    by_cases h0 : k0 = k
    · subst h0; simp [keys]
    · have hne : ¬ k = k0 := fun e => h0 e.symm
      have e1 : keys ((k0, v0) :: upsert k v tl) = k0 :: keys (upsert k v tl) := rfl
      have e2 : keys ((k0, v0) :: tl) = k0 :: keys tl := rfl
      rw [if_neg h0, e1, e2, ih]
      by_cases hm : k ∈ keys tl
      · simp [hm]
      · simp [hm, hne]

theorem mem_keys_upsert (k k' : κ) (v : ν) (l : List (κ × ν)) : k' ∈ keys (upsert k v l) ↔ k' = k ∨ k' ∈ keys l := by
  rw [keys_upsert]
  split
  · constructor
    · intro h; exact Or.inr h
    · rintro (rfl | h)
      · assumption
      · exact h
  · simp [or_comm]

theorem nodup_keys_upsert (k : κ) (v : ν) {l : List (κ × ν)} (h : (keys l).Nodup) : (keys (upsert k v l)).Nodup := by
  rw [keys_upsert]
  split
  · exact h
  · rename_i hk
    rw [List.nodup_append]
    refine ⟨h, by simp, ?_⟩
    intro a ha b hb
    simp only [List.mem_singleton] at hb
    subst hb
    intro e; subst e; exact hk ha

/-- `MergeAccounts`: after the merge a key maps to the child's value when the child has one, else to the parent's -/
theorem alookup_mergeInto (c p : List (κ × ν)) (h : (keys c).Nodup) (k : κ) :
    alookup k (mergeInto c p) = (alookup k c).or (alookup k p) := by
  induction c generalizing p with
  | nil => rfl
  | cons hd tl ih =>
    obtain ⟨k0, v0⟩ := hd
    have hn : (keys tl).Nodup := by
      simp only [keys, List.map_cons, List.nodup_cons] at h; exact h.2
    have hk0 : k0 ∉ keys tl := by
      simp only [keys, List.map_cons, List.nodup_cons] at h; exact h.1
    have : mergeInto ((k0, v0) :: tl) p = mergeInto tl (upsert k0 v0 p) := rfl
    rw [this, ih _ hn, alookup_cons]
    by_cases e : k0 = k
    · subst e
      rw [alookup_none_of_not_mem hk0, alookup_upsert_self]; simp
    · rw [if_neg e, alookup_upsert_ne (fun e' => e e'.symm)]

theorem keys_mergeInto_nodup (c p : List (κ × ν)) (hp : (keys p).Nodup) : (keys (mergeInto c p)).Nodup := by
  induction c generalizing p with
  | nil => exact hp
  | cons hd tl ih => exact ih _ (nodup_keys_upsert _ _ hp)

end AList

/-! ## layer well-formedness: the key lists of a layer built by upserts have no duplicates -/

structure Layer.WF (l : Layer) : Prop where
  accts : (keys l.accts).Nodup
  res : (keys l.res).Nodup
  creat : (keys l.creat).Nodup

theorem wf_empty : Layer.WF {} := ⟨by simp [keys], by simp [keys], by simp [keys]⟩

theorem wf_putAcct {l : Layer} (h : Layer.WF l) (a : Addr) (v : Account) : Layer.WF (putAcct l a v) :=
  ⟨nodup_keys_upsert _ _ h.accts, h.res, h.creat⟩
theorem wf_putHoldingD {l : Layer} (h : Layer.WF l) (x : Ctx) (k : ResKey) (d : Delta Holding) : Layer.WF (putHoldingD x l k d) :=
  ⟨h.accts, nodup_keys_upsert _ _ h.res, h.creat⟩
theorem wf_putParamsD {l : Layer} (h : Layer.WF l) (x : Ctx) (k : ResKey) (d : Delta AssetParams) : Layer.WF (putParamsD x l k d) :=
  ⟨h.accts, nodup_keys_upsert _ _ h.res, h.creat⟩
theorem wf_putCreatable {l : Layer} (h : Layer.WF l) (i : AssetId) (cr : Addr) (b : Bool) : Layer.WF (putCreatable l i cr b) :=
  ⟨h.accts, h.res, nodup_keys_upsert _ _ h.creat⟩
theorem wf_commit {c p : Layer} (hp : Layer.WF p) : Layer.WF (commitToParent c p) :=
  ⟨keys_mergeInto_nodup _ _ hp.accts, keys_mergeInto_nodup _ _ hp.res, keys_mergeInto_nodup _ _ hp.creat⟩

/-! ## get-after-put laws for accounts -/

theorem acctOf_putAcct (x : Ctx) (l : Layer) (a b : Addr) (v : Account) :
    acctOf x (putAcct l a v) b = if b = a then v else acctOf x l b := by
  simp only [acctOf, putAcct, lookupAcct, alookup_upsert]
  by_cases h : b = a
  · simp [h]
  · simp [h]

theorem acctOf_putHoldingD (x : Ctx) (l : Layer) (k : ResKey) (d : Delta Holding) (b : Addr) :
    acctOf x (putHoldingD x l k d) b = acctOf x l b := rfl
theorem acctOf_putParamsD (x : Ctx) (l : Layer) (k : ResKey) (d : Delta AssetParams) (b : Addr) :
    acctOf x (putParamsD x l k d) b = acctOf x l b := rfl
theorem acctOf_putCreatable (x : Ctx) (l : Layer) (i : AssetId) (cr : Addr) (c : Bool) (b : Addr) :
    acctOf x (putCreatable l i cr c) b = acctOf x l b := rfl
theorem acctOf_fees (x : Ctx) (l : Layer) (f : Nat) (b : Addr) : acctOf x { l with fees := f } b = acctOf x l b := rfl
theorem acctOf_addTx (x : Ctx) (l : Layer) (id : TxId) (b : Addr) : acctOf x (addTx l id) b = acctOf x l b := rfl

/-! ## modified accounts -/

theorem modified_putAcct (l : Layer) (a : Addr) (v : Account) (b : Addr) :
    b ∈ modified (putAcct l a v) ↔ b = a ∨ b ∈ modified l := by
  have := mem_keys_upsert a b v l.accts
  simpa [modified, putAcct, keys] using this

theorem modified_putHoldingD (x : Ctx) (l : Layer) (k : ResKey) (d : Delta Holding) : modified (putHoldingD x l k d) = modified l := rfl
theorem modified_putParamsD (x : Ctx) (l : Layer) (k : ResKey) (d : Delta AssetParams) : modified (putParamsD x l k d) = modified l := rfl
theorem modified_putCreatable (l : Layer) (i : AssetId) (cr : Addr) (c : Bool) : modified (putCreatable l i cr c) = modified l := rfl

/-- an account that is in the child's deltas is read from the child -/
theorem acctOf_of_modified (x : Ctx) (l : Layer) (a : Addr) (h : a ∈ modified l) :
    ∃ v, alookup a l.accts = some v ∧ acctOf x l a = v := by
  have hk : a ∈ keys l.accts := by simpa [modified, keys] using h
  obtain ⟨v, hv⟩ := alookup_some_of_mem_keys hk
  exact ⟨v, hv, by simp [acctOf, lookupAcct, hv]⟩

/-! ## rewards -/

/-- an account whose pending rewards are zero by construction -/
def Settled (P : Params) (a : Account) : Prop := a.status = .notPart ∨ a.rewardsBase = P.level

theorem pending_settled {P : Params} {a : Account} (h : Settled P a) : pending P a = 0 := by
  unfold pending
  rcases h with h | h
  · simp [h]
  · split
    · rfl
    · rw [h]; simp

theorem balWP_settled {P : Params} {a : Account} (h : Settled P a) : balWP P a = a.bal := by
  simp [balWP, pending_settled h]

theorem withRewards_ok {P : Params} {a a' : Account} (h : withRewards P a = .ok a') :
    a'.bal = balWP P a ∧ Settled P a' ∧ a'.status = a.status ∧ a'.totalAssets = a.totalAssets
      ∧ a'.totalAssetParams = a.totalAssetParams ∧ a'.incentive = a.incentive := by
  unfold withRewards at h
  split at h
  · rename_i hs
    cases h
    refine ⟨?_, Or.inl hs, rfl, rfl, rfl, rfl⟩
    simp [balWP, pending, hs]
  · rename_i hs
    split at h
    · cases h
    · simp only at h
      split at h
      · cases h
      · split at h
        · cases h
        · cases h
          refine ⟨?_, Or.inr rfl, rfl, rfl, rfl, rfl⟩
          simp [balWP, pending, hs]

theorem balWP_withRewards {P : Params} {a a' : Account} (h : withRewards P a = .ok a') : balWP P a' = balWP P a := by
  obtain ⟨h1, h2, _⟩ := withRewards_ok h
  rw [balWP_settled h2, h1]

/-- changing the balance of a settled account keeps it settled -/
theorem settled_bal {P : Params} {a : Account} (h : Settled P a) (b : Nat) : Settled P { a with bal := b } := h

theorem autoHeartbeat_eq (P : Params) (b a : Account) :
    autoHeartbeat P b a = a ∨ autoHeartbeat P b a = { a with lastHeartbeat := P.round + P.lookback } := by
  unfold autoHeartbeat
  split
  · exact Or.inl rfl
  · split
    · exact Or.inr rfl
    · exact Or.inl rfl

theorem balWP_autoHeartbeat (P : Params) (b a : Account) : balWP P (autoHeartbeat P b a) = balWP P a := by
  rcases autoHeartbeat_eq P b a with h | h <;> rw [h] <;> rfl

theorem autoHeartbeat_fields (P : Params) (b a : Account) :
    (autoHeartbeat P b a).bal = a.bal ∧ (autoHeartbeat P b a).status = a.status
      ∧ (autoHeartbeat P b a).rewardsBase = a.rewardsBase ∧ (autoHeartbeat P b a).totalAssets = a.totalAssets
      ∧ (autoHeartbeat P b a).totalAssetParams = a.totalAssetParams := by
  rcases autoHeartbeat_eq P b a with h | h <;> rw [h] <;> exact ⟨rfl, rfl, rfl, rfl, rfl⟩

theorem settled_autoHeartbeat {P : Params} (b : Account) {a : Account} (h : Settled P a) : Settled P (autoHeartbeat P b a) := by
  obtain ⟨_, hs, hb, _⟩ := autoHeartbeat_fields P b a
  unfold Settled; rw [hs, hb]; exact h

theorem meaningful_false {P : Params} {amt : Nat} {a : Account} (h : meaningful P amt a = false) : amt = 0 := by
  unfold meaningful at h
  simp only [Bool.or_eq_false_iff, decide_eq_false_iff_not, ne_eq, Decidable.not_not] at h
  exact h.1.1

end AlgoVerif.Lemmas.LedgerCore
