/-
Lemmas about the static check of Model.AVM (`checkStep` / `checkLoop` / `check`): bounds of the immediate parsers and branch
target functions, inversion of `checkStep`, what the loop records about every instruction start (`StepFact`), the
invariant about recorded branch targets (`TInv`), and that the loop's fuel is never exhausted.
-/
import AlgoVerif.Model.AVM
import AlgoVerif.Lemmas.AVM
namespace Lemmas.AVMCheck
open Model.OpTables Model.AVM Lemmas.AVM


theorem uvarintGo_bound : ∀ (buf : List Nat) (i s x v n : Nat), uvarintGo buf i s x = .ok v n → i < n ∧ n ≤ i + buf.length
  | [], _, _, _, _, _, h => by simp [uvarintGo] at h
  | b :: rest, i, s, x, v, n, h => by
    unfold uvarintGo at h
    split at h
    · cases h
    · split at h
      · split at h
        · cases h
        · injection h with _ h; subst h; simp
      · have := uvarintGo_bound rest _ _ _ _ _ h
        simp only [List.length_cons]; omega

theorem uvarint_bound {buf : List Nat} {v n : Nat} (h : uvarint buf = .ok v n) : 1 ≤ n ∧ n ≤ buf.length := by
  have := uvarintGo_bound buf 0 0 0 v n h
  omega

theorem varint_bound {buf : List Nat} {o : Int} {n : Nat} (h : varint buf = .ok (o, n)) : 1 ≤ n ∧ n ≤ buf.length := by
  unfold varint at h
  split at h
  · rename_i ux k hu
    injection h with h; injection h with _ h; subst h
    exact uvarint_bound hu
  · cases h

theorem branchTargetVarint_bound {prog : List Nat} {pc t sz : Nat} (hpc : pc < prog.length)
    (h : branchTargetVarint prog pc = .ok (t, sz)) : t ≤ prog.length ∧ 2 ≤ sz ∧ pc + sz ≤ prog.length := by
  unfold branchTargetVarint at h
  split at h
  · cases h
  · rename_i o n hv
    have hb := varint_bound hv
    simp only [List.length_drop] at hb
    simp only [] at h
    generalize htg : (if o < 0 then (pc : Int) + o else (pc : Int) + ((1 + n : Nat) : Int) + o) = tg at h
    by_cases hc : tg > (prog.length : Int) ∨ tg ≤ 0
    · rw [if_pos hc] at h; cases h
    · rw [if_neg hc] at h
      injection h with h; injection h with h1 h2
      subst h1; subst h2
      refine ⟨?_, by omega, by omega⟩
      omega

theorem branchTarget_bound {lim : Limits} {prog : List Nat} {pc v t : Nat}
    (h : branchTarget lim prog pc v = .ok t) : t ≤ prog.length := by
  unfold branchTarget at h
  split at h
  · cases h
  · rename_i off _
    split at h
    · cases h
    · simp only [] at h
      generalize htf : (if v ≥ 2 then decide ((pc : Int) + 3 + off > (prog.length : Int) ∨ (pc : Int) + 3 + off ≤ 0)
        else decide ((pc : Int) + 3 + off ≥ (prog.length : Int) ∨ (pc : Int) + 3 + off ≤ 0)) = tf at h
      cases tf with
      | true => simp at h
      | false =>
        simp only [Bool.false_eq_true, if_false] at h
        injection h with h; subst h
        split at htf <;> simp at htf <;> omega

theorem switchTarget_bound {prog : List Nat} {pc idx t : Nat} (h : switchTarget prog pc idx = .ok t) :
    t ≤ prog.length ∧ ∃ n, prog[pc + 1]? = some n ∧ pc + 2 + 2 * n ≤ prog.length ∧ (¬ idx < n → t = pc + 2 + 2 * n) := by
  unfold switchTarget at h
  split at h
  · cases h
  · split at h
    · cases h
    · rename_i n hn
      simp only [] at h
      split at h
      · cases h
      · rename_i heoi
        split at h
        · cases h
        · rename_i off hoff
          split at h
          · cases h
          · rename_i hc
            injection h with h; subst h
            refine ⟨by omega, n, hn, by omega, ?_⟩
            intro hidx
            rw [if_neg hidx] at hoff
            injection hoff with hoff
            subst hoff
            omega



theorem parseIntsLoop_bound {prog : List Nat} : ∀ (n pos : Nat) (acc r : List Nat) (np : Nat),
    parseIntsLoop prog n pos acc = .ok (r, np) → pos ≤ prog.length → np ≤ prog.length
  | 0, pos, acc, r, np, h, hp => by
    unfold parseIntsLoop at h; injection h with h; injection h with _ h; omega
  | n + 1, pos, acc, r, np, h, hp => by
    unfold parseIntsLoop at h
    split at h
    · cases h
    · split at h
      · rename_i v k hu
        have := uvarint_bound hu
        simp only [List.length_drop] at this
        exact parseIntsLoop_bound n _ _ _ _ h (by omega)
      · cases h

theorem parseIntImmArgs_bound {prog : List Nat} {pos : Nat} {r : List Nat} {np : Nat}
    (h : parseIntImmArgs prog pos = .ok (r, np)) : np ≤ prog.length := by
  unfold parseIntImmArgs at h
  split at h
  · rename_i v k hu
    have := uvarint_bound hu
    simp only [List.length_drop] at this
    split at h
    · cases h
    · exact parseIntsLoop_bound _ _ _ _ _ h (by omega)
  · cases h

theorem parseBytesLoop_bound {prog : List Nat} : ∀ (n pos : Nat) (acc r : List (List Nat)) (np : Nat),
    parseBytesLoop prog n pos acc = .ok (r, np) → pos ≤ prog.length → np ≤ prog.length
  | 0, pos, acc, r, np, h, hp => by
    unfold parseBytesLoop at h; injection h with h; injection h with _ h; omega
  | n + 1, pos, acc, r, np, h, hp => by
    unfold parseBytesLoop at h
    split at h
    · cases h
    · split at h
      · rename_i v k hu
        simp only [] at h
        split at h
        · cases h
        · exact parseBytesLoop_bound n _ _ _ _ h (by omega)
      · cases h

theorem parseByteImmArgs_bound {prog : List Nat} {pos : Nat} {r : List (List Nat)} {np : Nat}
    (h : parseByteImmArgs prog pos = .ok (r, np)) : np ≤ prog.length := by
  unfold parseByteImmArgs at h
  split at h
  · rename_i v k hu
    have := uvarint_bound hu
    simp only [List.length_drop] at this
    split at h
    · cases h
    · exact parseBytesLoop_bound _ _ _ _ _ h (by omega)
  · cases h

theorem byteImmArgs_bound {cfg : Cfg} {prog : List Nat} {pc : Nat} {r : List (List Nat)} {np : Nat}
    (h : byteImmArgs cfg prog pc = .ok (r, np)) : np ≤ prog.length := by
  unfold byteImmArgs at h
  split at h
  · cases h
  · rename_i bc nx hp
    have := parseByteImmArgs_bound hp
    split at h
    · split at h
      · injection h with h; injection h with _ h; omega
      · cases h
    · split at h
      · cases h
      · injection h with h; injection h with _ h; omega

theorem pushIntImm_bound {prog : List Nat} {pc v np : Nat} (h : pushIntImm prog pc = .ok (v, np)) : np ≤ prog.length := by
  unfold pushIntImm at h
  split at h
  · rename_i _ k hu
    have := uvarint_bound hu
    simp only [List.length_drop] at this
    injection h with h; injection h with _ h; omega
  · cases h

theorem pushBytesImm_bound {prog : List Nat} {pc np : Nat} {bs : List Nat} (h : pushBytesImm prog pc = .ok (bs, np)) :
    np ≤ prog.length := by
  unfold pushBytesImm at h
  split at h
  · simp only [] at h
    split at h
    · cases h
    · injection h with h; injection h with _ h; omega
  · cases h



/-- what the label-table loop of checkSwitch establishes -/
theorem checkSwitchLoop_ok {prog : List Nat} {pc eoi : Nat} {starts : List Nat} :
    ∀ (n idx : Nat) (acc ts : List Nat), checkSwitchLoop prog pc eoi starts n idx acc = .ok ts →
      (∀ t ∈ acc, t ∈ ts) ∧
      (∀ t ∈ ts, t ∈ acc ∨ (t ≤ prog.length ∧ (t < eoi → t ∈ starts))) ∧
      (∀ j, idx ≤ j → j < idx + n → ∀ t, switchTarget prog pc j = .ok t → t ∈ ts)
  | 0, idx, acc, ts, h => by
    unfold checkSwitchLoop at h; injection h with h; subst h
    exact ⟨fun t ht => ht, fun t ht => Or.inl ht, fun j h1 h2 => by omega⟩
  | n + 1, idx, acc, ts, h => by
    unfold checkSwitchLoop at h
    split at h
    · cases h
    · rename_i target htg
      split at h
      · cases h
      · rename_i hal
        obtain ⟨h1, h2, h3⟩ := checkSwitchLoop_ok n (idx + 1) (target :: acc) ts h
        refine ⟨fun t ht => h1 t (List.mem_cons_of_mem _ ht), ?_, ?_⟩
        · intro t ht
          rcases h2 t ht with h | h
          · rcases List.mem_cons.mp h with h | h
            · subst h
              right
              refine ⟨(switchTarget_bound htg).1, ?_⟩
              intro hlt
              by_cases hm : t ∈ starts
              · exact hm
              · exact absurd ⟨hlt, hm⟩ hal
            · exact Or.inl h
          · exact Or.inr h
        · intro j hj1 hj2 t ht
          by_cases hji : j = idx
          · subst hji
            rw [htg] at ht; injection ht with ht; subst ht
            exact h1 _ (List.mem_cons_self)
          · exact h3 j (by omega) (by omega) t ht

/-- the per-kind content of a successful check function -/
inductive CheckFnRes (cfg : Cfg) (prog : List Nat) (v pc : Nat) (starts : List Nat) (ts : List Nat) (np : Nat) : Nat → Prop
  | br2 (t : Nat) : branchTarget cfg.lim prog pc v = .ok t → ts = [t] → np = 0 → (t < pc + 3 → t ∈ starts) →
      CheckFnRes cfg prog v pc starts ts np 2
  | brV (t sz : Nat) : branchTargetVarint prog pc = .ok (t, sz) → ts = [t] → np = pc + sz → (t < pc → t ∈ starts) →
      CheckFnRes cfg prog v pc starts ts np 8
  | sw (n : Nat) : prog[pc + 1]? = some n → np = pc + 2 + 2 * n → np ≤ prog.length →
      (∀ t ∈ ts, t ≤ prog.length ∧ (t < np → t ∈ starts)) →
      (∀ j, j < n → ∀ t, switchTarget prog pc j = .ok t → t ∈ ts) → CheckFnRes cfg prog v pc starts ts np 7
  | ints (r : List Nat) : parseIntImmArgs prog (pc + 1) = .ok (r, np) → ts = [] → CheckFnRes cfg prog v pc starts ts np 5
  | bytess (r : List (List Nat)) : byteImmArgs cfg prog pc = .ok (r, np) → ts = [] → CheckFnRes cfg prog v pc starts ts np 6
  | bytes (r : List Nat) : pushBytesImm prog pc = .ok (r, np) → ts = [] → CheckFnRes cfg prog v pc starts ts np 4
  | int (r : Nat) : pushIntImm prog pc = .ok (r, np) → ts = [] → CheckFnRes cfg prog v pc starts ts np 3

theorem checkFn_ok {cfg : Cfg} {prog : List Nat} {v : Nat} {s : Spec} {cs : CState} {ts : List Nat} {np : Nat}
    (h : checkFn cfg prog v s cs = .ok (ts, np)) :
    ∃ k, checkKind s = some k ∧ CheckFnRes cfg prog v cs.pc cs.starts ts np k := by
  unfold checkFn at h
  simp only [] at h
  split at h
  · -- 2
    rename_i hk
    split at h
    · cases h
    · rename_i t ht
      split at h
      · cases h
      · rename_i hal
        injection h with h; injection h with h1 h2
        refine ⟨2, hk, .br2 t ht h1.symm h2.symm ?_⟩
        intro hlt
        by_cases hm : t ∈ cs.starts
        · exact hm
        · exact absurd ⟨hlt, hm⟩ hal
  · rename_i hk
    split at h
    · cases h
    · rename_i t sz ht
      split at h
      · cases h
      · rename_i hal
        injection h with h; injection h with h1 h2
        refine ⟨8, hk, .brV t sz ht h1.symm h2.symm ?_⟩
        intro hlt
        by_cases hm : t ∈ cs.starts
        · exact hm
        · exact absurd ⟨hlt, hm⟩ hal
  · rename_i hk
    split at h
    · cases h
    · rename_i hlen
      split at h
      · cases h
      · rename_i n hn
        split at h
        · cases h
        · rename_i ts' hl
          injection h with h; injection h with h1 h2
          subst h1; subst h2
          obtain ⟨_, h2, h3⟩ := checkSwitchLoop_ok _ _ _ _ hl
          have heoi : cs.pc + 2 + 2 * n ≤ prog.length := by
            cases n with
            | zero => omega
            | succ m =>
              -- the loop ran at least once: switchTarget 0 succeeded
              unfold checkSwitchLoop at hl
              split at hl
              · cases hl
              · rename_i tg htg
                obtain ⟨_, n', hn', hb, _⟩ := switchTarget_bound htg
                rw [hn] at hn'; injection hn' with hn'; subst hn'; exact hb
          refine ⟨7, hk, .sw n hn rfl heoi ?_ ?_⟩
          · intro t ht
            rcases h2 t ht with h | h
            · cases h
            · exact h
          · intro j hj t ht
            exact h3 j (by omega) (by omega) t ht
  · rename_i hk
    split at h
    · cases h
    · rename_i r nx hp
      injection h with h; injection h with h1 h2
      subst h2
      exact ⟨5, hk, .ints r hp h1.symm⟩
  · rename_i hk
    split at h
    · cases h
    · rename_i r nx hp
      injection h with h; injection h with h1 h2
      subst h2
      exact ⟨6, hk, .bytess r hp h1.symm⟩
  · rename_i hk
    split at h
    · cases h
    · rename_i r nx hp
      injection h with h; injection h with h1 h2
      subst h2
      exact ⟨4, hk, .bytes r hp h1.symm⟩
  · rename_i hk
    split at h
    · cases h
    · rename_i r nx hp
      injection h with h; injection h with h1 h2
      subst h2
      exact ⟨3, hk, .int r hp h1.symm⟩
  · cases h


/-- bounds every check function guarantees: nextpc inside the program, targets inside the program, and a target at or
    before the instruction is an already recorded start (the instruction's own start included) -/
theorem checkFnRes_bounds {cfg : Cfg} {prog : List Nat} {v pc : Nat} {starts ts : List Nat} {np k : Nat}
    (h : CheckFnRes cfg prog v pc starts ts np k) (hpc : pc < prog.length) (hself : pc ∈ starts) :
    np ≤ prog.length ∧ ∀ t ∈ ts, t ≤ prog.length ∧ (t ≤ pc → t ∈ starts) := by
  cases h with
  | br2 t ht hts hnp hal =>
    subst hts; subst hnp
    refine ⟨by omega, ?_⟩
    intro t' ht'
    simp only [List.mem_singleton] at ht'; subst ht'
    exact ⟨branchTarget_bound ht, fun hle => hal (by omega)⟩
  | brV t sz ht hts hnp hal =>
    subst hts; subst hnp
    obtain ⟨h1, _, h3⟩ := branchTargetVarint_bound hpc ht
    refine ⟨h3, ?_⟩
    intro t' ht'
    simp only [List.mem_singleton] at ht'; subst ht'
    refine ⟨h1, fun hle => ?_⟩
    by_cases he : t' = pc
    · subst he; exact hself
    · exact hal (by omega)
  | sw n hn hnp hle hall _ =>
    refine ⟨hle, ?_⟩
    intro t ht
    obtain ⟨h1, h2⟩ := hall t ht
    exact ⟨h1, fun hle' => h2 (by omega)⟩
  | ints r hp hts => subst hts; exact ⟨parseIntImmArgs_bound hp, by simp⟩
  | bytess r hp hts => subst hts; exact ⟨byteImmArgs_bound hp, by simp⟩
  | bytes r hp hts => subst hts; exact ⟨pushBytesImm_bound hp, by simp⟩
  | int r hp hts => subst hts; exact ⟨pushIntImm_bound hp, by simp⟩

/-- the result of the (optional) check function of an instruction -/
def FnRes (cfg : Cfg) (prog : List Nat) (v pc : Nat) (starts : List Nat) (s : Spec) (ts : List Nat) (np : Nat) : Prop :=
  (s.hasCheck = false ∧ ts = [] ∧ np = 0) ∨
  (s.hasCheck = true ∧ ∃ k, checkKind s = some k ∧ CheckFnRes cfg prog v pc starts ts np k)

theorem checkStep_ok_inv {cfg : Cfg} {prog : List Nat} {v : Nat} {cs cs' : CState} {cost : Nat}
    (h : checkStep cfg prog v cs = .ok (cs', cost)) :
    ∃ opc s ts np, prog[cs.pc]? = some opc ∧ getSpec cfg.tbl v opc prog[cs.pc + 1]? = some s ∧
      allows s.modes cfg.mode = true ∧ (s.size = 0 ∨ cs.pc + s.size ≤ prog.length) ∧ 1 ≤ cost ∧
      FnRes cfg prog v cs.pc (cs.pc :: cs.starts) s ts np ∧
      cs' = ⟨(if np ≠ 0 then np else cs.pc + s.size), cs.pc :: cs.starts, ts ++ cs.targets, 0⟩ ∧
      (∀ t ∈ ts ++ cs.targets, ¬ (cs.pc < t ∧ t < (if np ≠ 0 then np else cs.pc + s.size))) := by
  unfold checkStep at h
  simp only [] at h
  split at h
  · cases h
  · rename_i opc hop
    split at h
    · cases h
    · rename_i s hs
      split at h
      · cases h
      · rename_i hmode
        split at h
        · cases h
        · rename_i hsize
          split at h
          · cases h
          · rename_i c hc
            split at h
            · cases h
            · rename_i hc0
              split at h
              · cases h
              · rename_i ts np hr
                generalize hpc' : (if np ≠ 0 then np else cs.pc + s.size) = pc' at h
                split at h
                · cases h
                · rename_i hany
                  injection h with h; injection h with h1 h2
                  subst h2
                  refine ⟨opc, s, ts, np, hop, hs, by simpa using hmode, by omega, by omega, ?_, by rw [hpc']; exact h1.symm, ?_⟩
                  · by_cases hck : s.hasCheck = true
                    · rw [if_pos hck] at hr
                      obtain ⟨k, hk, hres⟩ := checkFn_ok hr
                      exact Or.inr ⟨hck, k, hk, hres⟩
                    · rw [if_neg hck] at hr
                      injection hr with hr; injection hr with h1 h2
                      exact Or.inl ⟨by simpa using hck, h1.symm, h2.symm⟩
                  · intro t ht hcon
                    apply hany
                    rw [List.any_eq_true]
                    rw [hpc'] at hcon
                    exact ⟨t, ht, by simpa using hcon⟩

theorem checkStep_pc_le {cfg : Cfg} {prog : List Nat} {v : Nat} {cs cs' : CState} {cost : Nat}
    (h : checkStep cfg prog v cs = .ok (cs', cost)) (hpc : cs.pc < prog.length) : cs'.pc ≤ prog.length := by
  obtain ⟨opc, s, ts, np, _, _, _, hsize, _, hfn, rfl, _⟩ := checkStep_ok_inv h
  simp only
  split
  · rcases hfn with ⟨_, _, h0⟩ | ⟨_, k, _, hres⟩
    · omega
    · exact (checkFnRes_bounds hres hpc (List.mem_cons_self)).1
  · omega

def Good (starts : List Nat) (L p : Nat) : Prop := p ∈ starts ∨ p = L

/-- what `check` established about the instruction that starts at `p`, relative to the FINAL starts / targets -/
def StepFact (cfg : Cfg) (prog : List Nat) (v : Nat) (starts targets : List Nat) (p : Nat) : Prop :=
  ∃ opc s ts np st0, prog[p]? = some opc ∧ getSpec cfg.tbl v opc prog[p + 1]? = some s ∧
    (s.size = 0 ∨ p + s.size ≤ prog.length) ∧ FnRes cfg prog v p st0 s ts np ∧
    (∀ t ∈ ts, t ∈ targets) ∧ Good starts prog.length (if np ≠ 0 then np else p + s.size)

theorem checkLoop_facts {cfg : Cfg} {prog : List Nat} {v : Nat} {maxCost : Int} :
    ∀ (fuel : Nat) (cs : CState) (sc : Nat) (csf : CState), checkLoop cfg prog v maxCost fuel cs sc = .ok csf →
      cs.pc ≤ prog.length →
      (∀ p ∈ cs.starts, p ∈ csf.starts) ∧ (∀ t ∈ cs.targets, t ∈ csf.targets) ∧
      (cs.pc < prog.length → cs.pc ∈ csf.starts) ∧ csf.pc = prog.length ∧
      (∀ p ∈ csf.starts, p ∈ cs.starts ∨ (cs.pc ≤ p ∧ p < prog.length ∧ StepFact cfg prog v csf.starts csf.targets p))
  | 0, cs, sc, csf, h, _ => by simp [checkLoop] at h
  | fuel + 1, cs, sc, csf, h, hle => by
    unfold checkLoop at h
    split at h
    · rename_i hpc
      split at h
      · cases h
      · rename_i cs' stepCost hstep
        simp only [] at h
        split at h
        · cases h
        · split at h
          · cases h
          · rename_i hadv
            have hle' := checkStep_pc_le hstep hpc
            obtain ⟨i1, i2, i3, i4, i5⟩ := checkLoop_facts fuel cs' _ csf h hle'
            obtain ⟨opc, s, ts, np, hop, hs, _, hsize, _, hfn, hcs', hany⟩ := checkStep_ok_inv hstep
            have hst' : cs'.starts = cs.pc :: cs.starts := by rw [hcs']
            have htg' : cs'.targets = ts ++ cs.targets := by rw [hcs']
            have hpc' : cs'.pc = (if np ≠ 0 then np else cs.pc + s.size) := by rw [hcs']
            have hself : cs.pc ∈ csf.starts := i1 _ (by rw [hst']; exact List.mem_cons_self)
            refine ⟨fun p hp => i1 p (by rw [hst']; exact List.mem_cons_of_mem _ hp),
              fun t ht => i2 t (by rw [htg']; exact List.mem_append_right _ ht), fun _ => hself, i4, ?_⟩
            intro p hp
            rcases i5 p hp with h5 | ⟨h5, h6, h7⟩
            · rw [hst'] at h5
              rcases List.mem_cons.mp h5 with h5 | h5
              · subst h5
                right
                refine ⟨Nat.le_refl _, hpc, opc, s, ts, np, _, hop, hs, hsize, hfn, ?_, ?_⟩
                · intro t ht; exact i2 t (by rw [htg']; exact List.mem_append_left _ ht)
                · rw [← hpc']
                  by_cases hlt : cs'.pc < prog.length
                  · exact Or.inl (i3 hlt)
                  · exact Or.inr (by omega)
              · exact Or.inl h5
            · exact Or.inr ⟨by omega, h6, h7⟩
    · rename_i hpc
      injection h with h; subst h
      exact ⟨fun p hp => hp, fun t ht => ht, fun h => absurd h hpc, by omega, fun p hp => Or.inl hp⟩

/-- forward invariant of the check loop about recorded branch targets -/
def TInv (L : Nat) (cs : CState) : Prop :=
  (∀ p ∈ cs.starts, 1 ≤ p ∧ p < cs.pc) ∧ ∀ t ∈ cs.targets, t ≤ L ∧ (t ∈ cs.starts ∨ cs.pc ≤ t)

theorem checkStep_TInv {cfg : Cfg} {prog : List Nat} {v : Nat} {cs cs' : CState} {cost : Nat}
    (h : checkStep cfg prog v cs = .ok (cs', cost)) (hpc : cs.pc < prog.length) (h1 : 1 ≤ cs.pc) (hadv : cs.pc < cs'.pc)
    (hi : TInv prog.length cs) : TInv prog.length cs' := by
  obtain ⟨opc, s, ts, np, _, _, _, hsize, _, hfn, hcs', hany⟩ := checkStep_ok_inv h
  obtain ⟨hi1, hi2⟩ := hi
  have hst' : cs'.starts = cs.pc :: cs.starts := by rw [hcs']
  have htg' : cs'.targets = ts ++ cs.targets := by rw [hcs']
  have hpc' : cs'.pc = (if np ≠ 0 then np else cs.pc + s.size) := by rw [hcs']
  rw [← hpc'] at hany
  constructor
  · intro p hp
    rw [hst'] at hp
    rcases List.mem_cons.mp hp with hp | hp
    · subst hp; exact ⟨h1, hadv⟩
    · have := hi1 p hp; omega
  · intro t ht
    have hno := hany t (by rw [← htg']; exact ht)
    rw [htg'] at ht
    rcases List.mem_append.mp ht with ht | ht
    · -- a target recorded by this instruction
      have hb : t ≤ prog.length ∧ (t ≤ cs.pc → t ∈ cs.pc :: cs.starts) := by
        rcases hfn with ⟨_, h0, _⟩ | ⟨_, k, _, hres⟩
        · subst h0; cases ht
        · exact (checkFnRes_bounds hres hpc (List.mem_cons_self)).2 t ht
      refine ⟨hb.1, ?_⟩
      by_cases hle : t ≤ cs.pc
      · left; rw [hst']; exact hb.2 hle
      · right; omega
    · obtain ⟨hb1, hb2⟩ := hi2 t ht
      refine ⟨hb1, ?_⟩
      rcases hb2 with hb2 | hb2
      · left; rw [hst']; exact List.mem_cons_of_mem _ hb2
      · by_cases he : t = cs.pc
        · left; rw [hst', he]; exact List.mem_cons_self
        · right; omega

theorem checkLoop_TInv {cfg : Cfg} {prog : List Nat} {v : Nat} {maxCost : Int} :
    ∀ (fuel : Nat) (cs : CState) (sc : Nat) (csf : CState), checkLoop cfg prog v maxCost fuel cs sc = .ok csf →
      1 ≤ cs.pc → TInv prog.length cs → TInv prog.length csf
  | 0, cs, sc, csf, h, _, _ => by simp [checkLoop] at h
  | fuel + 1, cs, sc, csf, h, h1, hi => by
    unfold checkLoop at h
    split at h
    · rename_i hpc
      split at h
      · cases h
      · rename_i cs' stepCost hstep
        simp only [] at h
        split at h
        · cases h
        · split at h
          · cases h
          · rename_i hadv
            exact checkLoop_TInv fuel cs' _ csf h (by omega) (checkStep_TInv hstep hpc h1 (by omega) hi)
    · injection h with h; subst h; exact hi

/-! ### the fuel of the check loop is never exhausted -/

def NoFuel {α : Type} (r : Except Err α) : Prop := ∀ e, r = .error e → e ≠ .fuel

theorem noFuel_ok {α : Type} (a : α) : NoFuel (Except.ok a : Except Err α) := by intro e h; cases h

theorem linCost_noFuel (c : LinCost) (st : Stack) : NoFuel (linCost c st) := by
  intro e h; unfold linCost at h
  repeat' split at h
  all_goals first | (injection h with h; subst h; simp) | cases h

theorem detsCost_noFuel (cfg : Cfg) (s : Spec) (prog : List Nat) (pc : Nat) (st : Stack) : NoFuel (detsCost cfg s prog pc st) := by
  intro e h; unfold detsCost at h
  split at h
  · rename_i e' he; injection h with h; subst h; exact linCost_noFuel _ _ _ he
  · split at h
    · cases h
    · split at h
      · split at h
        · exact linCost_noFuel _ _ _ h
        · injection h with h; subst h; simp
      · cases h

theorem decodeBranchOffset_noFuel (prog : List Nat) (pos : Nat) : NoFuel (decodeBranchOffset prog pos) := by
  intro e h; unfold decodeBranchOffset at h
  split at h
  · cases h
  · injection h with h; subst h; simp

theorem branchTarget_noFuel (lim : Limits) (prog : List Nat) (pc v : Nat) : NoFuel (branchTarget lim prog pc v) := by
  intro e h; unfold branchTarget at h
  split at h
  · rename_i e' he; injection h with h; subst h; exact decodeBranchOffset_noFuel _ _ _ he
  · split at h
    · injection h with h; subst h; simp
    · simp only [] at h
      generalize (if v ≥ 2 then _ else _ : Bool) = tf at h
      split at h
      · injection h with h; subst h; simp
      · cases h

theorem branchTargetVarint_noFuel (prog : List Nat) (pc : Nat) : NoFuel (branchTargetVarint prog pc) := by
  intro e h; unfold branchTargetVarint at h
  split at h
  · injection h with h; subst h; simp
  · simp only [] at h
    generalize (if _ < (0 : Int) then _ else _ : Int) = tg at h
    split at h
    · injection h with h; subst h; simp
    · cases h

theorem switchTarget_noFuel (prog : List Nat) (pc idx : Nat) : NoFuel (switchTarget prog pc idx) := by
  intro e h; unfold switchTarget at h
  split at h
  · injection h with h; subst h; simp
  · split at h
    · injection h with h; subst h; simp
    · simp only [] at h
      split at h
      · injection h with h; subst h; simp
      · split at h
        · rename_i e' he
          injection h with h; subst h
          split at he
          · exact decodeBranchOffset_noFuel _ _ _ he
          · cases he
        · split at h
          · injection h with h; subst h; simp
          · cases h

theorem checkSwitchLoop_noFuel (prog : List Nat) (pc eoi : Nat) (starts : List Nat) :
    ∀ (n idx : Nat) (acc : List Nat), NoFuel (checkSwitchLoop prog pc eoi starts n idx acc)
  | 0, idx, acc => by intro e h; unfold checkSwitchLoop at h; cases h
  | n + 1, idx, acc => by
    intro e h; unfold checkSwitchLoop at h
    split at h
    · rename_i e' he; injection h with h; subst h; exact switchTarget_noFuel _ _ _ _ he
    · split at h
      · injection h with h; subst h; simp
      · exact checkSwitchLoop_noFuel prog pc eoi starts n _ _ _ h

theorem parseIntsLoop_noFuel (prog : List Nat) : ∀ (n pos : Nat) (acc : List Nat), NoFuel (parseIntsLoop prog n pos acc)
  | 0, pos, acc => by intro e h; unfold parseIntsLoop at h; cases h
  | n + 1, pos, acc => by
    intro e h; unfold parseIntsLoop at h
    split at h
    · injection h with h; subst h; simp
    · split at h
      · exact parseIntsLoop_noFuel prog n _ _ _ h
      · injection h with h; subst h; simp

theorem parseIntImmArgs_noFuel (prog : List Nat) (pos : Nat) : NoFuel (parseIntImmArgs prog pos) := by
  intro e h; unfold parseIntImmArgs at h
  split at h
  · split at h
    · injection h with h; subst h; simp
    · exact parseIntsLoop_noFuel _ _ _ _ _ h
  · injection h with h; subst h; simp

theorem parseBytesLoop_noFuel (prog : List Nat) : ∀ (n pos : Nat) (acc : List (List Nat)), NoFuel (parseBytesLoop prog n pos acc)
  | 0, pos, acc => by intro e h; unfold parseBytesLoop at h; cases h
  | n + 1, pos, acc => by
    intro e h; unfold parseBytesLoop at h
    split at h
    · injection h with h; subst h; simp
    · split at h
      · simp only [] at h
        split at h
        · injection h with h; subst h; simp
        · exact parseBytesLoop_noFuel prog n _ _ _ h
      · injection h with h; subst h; simp

theorem parseByteImmArgs_noFuel (prog : List Nat) (pos : Nat) : NoFuel (parseByteImmArgs prog pos) := by
  intro e h; unfold parseByteImmArgs at h
  split at h
  · split at h
    · injection h with h; subst h; simp
    · exact parseBytesLoop_noFuel _ _ _ _ _ h
  · injection h with h; subst h; simp

theorem byteImmArgs_noFuel (cfg : Cfg) (prog : List Nat) (pc : Nat) : NoFuel (byteImmArgs cfg prog pc) := by
  intro e h; unfold byteImmArgs at h
  split at h
  · rename_i e' he; injection h with h; subst h; exact parseByteImmArgs_noFuel _ _ _ he
  · split at h
    · split at h
      · cases h
      · injection h with h; subst h; simp
    · split at h
      · injection h with h; subst h; simp
      · cases h

theorem pushIntImm_noFuel (prog : List Nat) (pc : Nat) : NoFuel (pushIntImm prog pc) := by
  intro e h; unfold pushIntImm at h
  split at h
  · cases h
  · injection h with h; subst h; simp

theorem pushBytesImm_noFuel (prog : List Nat) (pc : Nat) : NoFuel (pushBytesImm prog pc) := by
  intro e h; unfold pushBytesImm at h
  split at h
  · simp only [] at h
    split at h
    · injection h with h; subst h; simp
    · cases h
  · injection h with h; subst h; simp

theorem checkFn_noFuel (cfg : Cfg) (prog : List Nat) (v : Nat) (s : Spec) (cs : CState) : NoFuel (checkFn cfg prog v s cs) := by
  intro e h; unfold checkFn at h
  simp only [] at h
  split at h
  · split at h
    · rename_i e' he; injection h with h; subst h; exact branchTarget_noFuel _ _ _ _ _ he
    · split at h
      · injection h with h; subst h; simp
      · cases h
  · split at h
    · rename_i e' he; injection h with h; subst h; exact branchTargetVarint_noFuel _ _ _ he
    · split at h
      · injection h with h; subst h; simp
      · cases h
  · split at h
    · injection h with h; subst h; simp
    · split at h
      · injection h with h; subst h; simp
      · split at h
        · rename_i e' he; injection h with h; subst h; exact checkSwitchLoop_noFuel _ _ _ _ _ _ _ _ he
        · cases h
  · split at h
    · rename_i e' he; injection h with h; subst h; exact parseIntImmArgs_noFuel _ _ _ he
    · cases h
  · split at h
    · rename_i e' he; injection h with h; subst h; exact byteImmArgs_noFuel _ _ _ _ he
    · cases h
  · split at h
    · rename_i e' he; injection h with h; subst h; exact pushBytesImm_noFuel _ _ _ he
    · cases h
  · split at h
    · rename_i e' he; injection h with h; subst h; exact pushIntImm_noFuel _ _ _ he
    · cases h
  · injection h with h; subst h; simp

theorem checkStep_noFuel {cfg : Cfg} {prog : List Nat} {v : Nat} {cs : CState} {e : Err} {pc : Nat}
    (h : checkStep cfg prog v cs = .error (e, pc)) : e ≠ .fuel := by
  unfold checkStep at h
  simp only [] at h
  split at h
  · injection h with h; injection h with h _; subst h; simp
  · split at h
    · injection h with h; injection h with h _; subst h; simp
    · split at h
      · injection h with h; injection h with h _; subst h; simp
      · split at h
        · injection h with h; injection h with h _; subst h; simp
        · split at h
          · rename_i e' he; injection h with h; injection h with h _; subst h; exact detsCost_noFuel _ _ _ _ _ _ he
          · split at h
            · injection h with h; injection h with h _; subst h; simp
            · split at h
              · rename_i e' he
                injection h with h; injection h with h _; subst h
                split at he
                · exact checkFn_noFuel _ _ _ _ _ _ he
                · cases he
              · generalize (if _ ≠ 0 then _ else _ : Nat) = pc' at h
                split at h
                · injection h with h; injection h with h _; subst h; simp
                · cases h

/-- the loop never runs out of fuel: every round advances the pc -/
theorem checkLoop_fuel {cfg : Cfg} {prog : List Nat} {v : Nat} {maxCost : Int} :
    ∀ (fuel : Nat) (cs : CState) (sc : Nat) (pc : Nat), prog.length + 1 ≤ cs.pc + fuel → 1 ≤ fuel →
      checkLoop cfg prog v maxCost fuel cs sc ≠ .error (.fuel, pc)
  | 0, cs, sc, pc, _, h => by omega
  | fuel + 1, cs, sc, pc, h, _ => by
    unfold checkLoop
    split
    · rename_i hpc
      split
      · rename_i e hstep
        intro hc
        injection hc with hc
        subst hc
        exact checkStep_noFuel hstep rfl
      · rename_i cs' stepCost hstep
        simp only []
        split
        · intro hc; injection hc with hc; injection hc with hc _; cases hc
        · split
          · intro hc; injection hc with hc; injection hc with hc _; cases hc
          · rename_i hadv
            exact checkLoop_fuel fuel cs' _ pc (by omega) (by omega)
    · intro hc; cases hc

end Lemmas.AVMCheck
