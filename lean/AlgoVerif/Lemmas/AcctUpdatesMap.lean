import AlgoVerif.Model.AcctUpdates
/-! Generic lemmas for Model.AcctUpdates: association maps, `compact`, the per-key index (latest value + ndeltas). -/
namespace AlgoVerif.Lemmas.AcctUpdates
open AlgoVerif.Spec.LedgerHistory AlgoVerif.Model.AcctUpdates

section amap
variable {K V : Type} [DecidableEq K]

@[simp] theorem get_nil (k : K) : AMap.get ([] : AMap K V) k = none := rfl

theorem get_cons (k' : K) (v : V) (t : AMap K V) (k : K) :
    AMap.get ((k', v) :: t) k = if k' = k then some v else AMap.get t k := rfl

theorem del_cons (k0 : K) (v : V) (t : AMap K V) (k : K) :
    AMap.del ((k0, v) :: t) k = if k0 = k then AMap.del t k else (k0, v) :: AMap.del t k := by
  simp only [AMap.del, List.filter_cons]
  by_cases h : k0 = k <;> simp [h]

theorem get_del_self (m : AMap K V) (k : K) : AMap.get (AMap.del m k) k = none := by
  induction m with
  | nil => rfl
  | cons p t ih =>
    obtain ⟨k', v⟩ := p
    rw [del_cons]
    by_cases h : k' = k
    · simp [h]; exact ih
    · simp [h, get_cons]; exact ih

theorem get_del_ne (m : AMap K V) (k k' : K) (h : k ≠ k') : AMap.get (AMap.del m k) k' = AMap.get m k' := by
  induction m with
  | nil => rfl
  | cons p t ih =>
    obtain ⟨k0, v⟩ := p
    rw [del_cons]
    by_cases h0 : k0 = k
    · subst h0
      simp [get_cons, h]; exact ih
    · simp only [h0, if_false, get_cons]
      split
      · rfl
      · exact ih

theorem get_set (m : AMap K V) (k : K) (v : V) (k' : K) :
    AMap.get (AMap.set m k v) k' = if k = k' then some v else AMap.get m k' := by
  unfold AMap.set
  rw [get_cons]
  split
  · rfl
  · next h => exact get_del_ne m k k' h

theorem get_some_mem {m : AMap K V} {k : K} {v : V} (h : AMap.get m k = some v) : (k, v) ∈ m := by
  induction m with
  | nil => simp at h
  | cons p t ih =>
    obtain ⟨k0, v0⟩ := p
    rw [get_cons] at h
    split at h
    · next h0 => subst h0; simp at h; subst h; simp
    · exact List.mem_cons_of_mem _ (ih h)

theorem get_none_of_not_mem_keys {m : AMap K V} {k : K} (h : k ∉ AMap.keys m) : AMap.get m k = none := by
  induction m with
  | nil => rfl
  | cons p t ih =>
    obtain ⟨k0, v0⟩ := p
    simp [AMap.keys] at h
    rw [get_cons]
    have h1 : ¬ k0 = k := fun e => h.1 e.symm
    simp [h1]
    exact ih (by simpa [AMap.keys] using h.2)

theorem get_isSome_of_mem_keys {m : AMap K V} {k : K} (h : k ∈ AMap.keys m) : (AMap.get m k).isSome := by
  induction m with
  | nil => simp [AMap.keys] at h
  | cons p t ih =>
    obtain ⟨k0, v0⟩ := p
    rw [get_cons]
    by_cases h0 : k0 = k
    · simp [h0]
    · simp [h0]
      apply ih
      simp [AMap.keys] at h ⊢
      rcases h with h | h
      · exact absurd h.symm h0
      · exact h

theorem mem_keys_of_get_some {m : AMap K V} {k : K} {v : V} (h : AMap.get m k = some v) : k ∈ AMap.keys m := by
  have := get_some_mem h
  simp only [AMap.keys, List.mem_map]
  exact ⟨(k, v), this, rfl⟩

/-- with unique keys, membership determines `get` -/
theorem get_of_mem_nodup {m : AMap K V} (hn : (AMap.keys m).Nodup) {k : K} {v : V} (h : (k, v) ∈ m) :
    AMap.get m k = some v := by
  induction m with
  | nil => simp at h
  | cons p t ih =>
    obtain ⟨k0, v0⟩ := p
    simp [AMap.keys] at hn
    rw [get_cons]
    simp at h
    rcases h with ⟨h1, h2⟩ | h
    · simp [h1, h2]
    · have : k0 ≠ k := fun e => hn.1 v (e ▸ h)
      simp [this]
      exact ih (by simpa [AMap.keys] using hn.2) h

end amap

/-! ### entries of a key in a run of rounds -/

section entries
variable {K E : Type} [DecidableEq K]

/-- the modifications of key `k` in the rounds `rs` (each round: an association list), oldest first -/
def entriesOf (rs : List (AMap K E)) (k : K) : List E := rs.filterMap (fun r => AMap.get r k)

@[simp] theorem entriesOf_nil (k : K) : entriesOf ([] : List (AMap K E)) k = [] := rfl

theorem entriesOf_append (a b : List (AMap K E)) (k : K) : entriesOf (a ++ b) k = entriesOf a k ++ entriesOf b k := by
  simp [entriesOf, List.filterMap_append]

theorem entriesOf_take_drop (rs : List (AMap K E)) (n : Nat) (k : K) :
    entriesOf rs k = entriesOf (rs.take n) k ++ entriesOf (rs.drop n) k := by
  rw [← entriesOf_append, List.take_append_drop]

/-- walking the rounds backwards finds the last entry -/
theorem findSome_reverse_eq_getLast (rs : List (AMap K E)) (k : K) :
    rs.reverse.findSome? (fun r => AMap.get r k) = (entriesOf rs k).getLast? := by
  induction rs with
  | nil => rfl
  | cons r rs ih =>
    rw [List.reverse_cons, List.findSome?_append, ih]
    simp only [entriesOf, List.filterMap_cons, List.findSome?_cons, List.findSome?_nil]
    cases h : AMap.get r k with
    | none => simp
    | some v =>
      simp only []
      cases h2 : (List.filterMap (fun r => AMap.get r k) rs).getLast? with
      | none =>
        have : List.filterMap (fun r => AMap.get r k) rs = [] := by
          cases hl : List.filterMap (fun r => AMap.get r k) rs with
          | nil => rfl
          | cons a l => rw [hl] at h2; simp [List.getLast?_cons] at h2
        simp [this]
      | some w =>
        rw [List.getLast?_cons]
        simp [h2]

end entries

/-! ### compact -/

section compact
variable {K E : Type} [DecidableEq K]

/-- one step of `compact`: add the entry `p` of a round -/
def compactAdd (acc : AMap K (List E)) (p : K × E) : AMap K (List E) :=
  match AMap.get acc p.1 with
  | some es => acc.map (fun q => if q.1 = p.1 then (q.1, es ++ [p.2]) else q)
  | none => acc ++ [(p.1, [p.2])]

theorem compact_eq (mods : List (List (K × E))) :
    compact mods = mods.foldl (fun acc round => round.foldl compactAdd acc) [] := rfl

omit [DecidableEq K] in
theorem keys_map_same (acc : AMap K (List E)) (f : K × List E → K × List E) (hf : ∀ q, (f q).1 = q.1) :
    AMap.keys (acc.map f) = AMap.keys acc := by
  simp [AMap.keys, List.map_map, Function.comp_def, hf]

theorem get_map_upd (acc : AMap K (List E)) (k : K) (es' : List E) (k' : K) :
    AMap.get (acc.map (fun q => if q.1 = k then (q.1, es') else q)) k' =
      if k = k' then (AMap.get acc k').map (fun _ => es') else AMap.get acc k' := by
  induction acc with
  | nil => simp
  | cons p t ih =>
    obtain ⟨k0, v0⟩ := p
    simp only [List.map_cons, get_cons]
    by_cases h0 : k0 = k
    · subst h0
      simp only [if_true]
      rw [get_cons]
      by_cases h1 : k0 = k'
      · simp [h1]
      · simp [h1]; rw [ih]; simp [h1]
    · simp only [h0, if_false]
      rw [get_cons]
      by_cases h1 : k0 = k'
      · subst h1; simp [Ne.symm h0]
      · simp [h1]; exact ih

theorem get_append_single (acc : AMap K (List E)) (k : K) (v : List E) (k' : K) :
    AMap.get (acc ++ [(k, v)]) k' = match AMap.get acc k' with
      | some x => some x
      | none => if k = k' then some v else none := by
  induction acc with
  | nil => simp [get_cons]
  | cons p t ih =>
    obtain ⟨k0, v0⟩ := p
    simp only [List.cons_append, get_cons]
    split
    · rfl
    · exact ih

/-- invariant of the compaction: the map holds exactly the non-empty entry lists, keys unique -/
def CompactInv (acc : AMap K (List E)) (ent : K → List E) : Prop :=
  (AMap.keys acc).Nodup ∧ ∀ k, AMap.get acc k = if ent k = [] then none else some (ent k)

theorem compactAdd_inv (acc : AMap K (List E)) (ent : K → List E) (p : K × E) (h : CompactInv acc ent) :
    CompactInv (compactAdd acc p) (fun k => if k = p.1 then ent k ++ [p.2] else ent k) := by
  obtain ⟨hn, hg⟩ := h
  unfold compactAdd
  cases hget : AMap.get acc p.1 with
  | some es =>
    have hes : ent p.1 = es := by
      have := hg p.1; rw [hget] at this
      split at this
      · simp at this
      · simpa using this.symm
    refine ⟨?_, fun k => ?_⟩
    · rw [keys_map_same]; exact hn
      intro q; split <;> rfl
    · simp only []
      rw [get_map_upd]
      by_cases hk : p.1 = k
      · subst hk; simp [hget, hes]
      · have hk' : ¬ k = p.1 := fun e => hk e.symm
        simp [hk, hk', hg k]
  | none =>
    have hes : ent p.1 = [] := by
      have := hg p.1; rw [hget] at this
      split at this
      · assumption
      · simp at this
    refine ⟨?_, fun k => ?_⟩
    · simp only [AMap.keys, List.map_append, List.map_cons, List.map_nil]
      rw [List.nodup_append]
      refine ⟨hn, by simp, ?_⟩
      intro a ha b hb
      simp at hb; subst hb
      intro e; subst e
      have := get_isSome_of_mem_keys (m := acc) ha
      rw [hget] at this; simp at this
    · rw [get_append_single]
      by_cases hk : p.1 = k
      · subst hk; simp [hget, hes]
      · have hk' : ¬ k = p.1 := fun e => hk e.symm
        simp only [hk, hk', if_false]
        rw [hg k]
        by_cases he : ent k = [] <;> simp [he]

/-- a round whose keys are unique contributes at most one entry per key -/
theorem fold_compactAdd_inv (round : AMap K E) (hr : (AMap.keys round).Nodup) (acc : AMap K (List E)) (ent : K → List E)
    (h : CompactInv acc ent) :
    CompactInv (round.foldl compactAdd acc) (fun k => ent k ++ (AMap.get round k).toList) := by
  induction round generalizing acc ent with
  | nil => simpa using h
  | cons p t ih =>
    obtain ⟨k0, v0⟩ := p
    simp only [List.foldl_cons]
    simp [AMap.keys] at hr
    have h1 := compactAdd_inv acc ent (k0, v0) h
    have h2 := ih (by simpa [AMap.keys] using hr.2) _ _ h1
    have : (fun k => (if k = (k0, v0).1 then ent k ++ [(k0, v0).2] else ent k) ++ (AMap.get t k).toList) =
        (fun k => ent k ++ (AMap.get ((k0, v0) :: t) k).toList) := by
      funext k
      rw [get_cons]
      by_cases hk : k0 = k
      · subst hk
        have : AMap.get t k0 = none := get_none_of_not_mem_keys (by
          simp only [AMap.keys, List.mem_map]; rintro ⟨⟨a, b⟩, hm, rfl⟩; exact hr.1 b hm)
        simp [this]
      · have hk' : ¬ k = k0 := fun e => hk e.symm
        simp [hk, hk']
    rw [this] at h2
    exact h2

theorem compact_inv (mods : List (AMap K E)) (hr : ∀ r ∈ mods, (AMap.keys r).Nodup) :
    CompactInv (compact mods) (entriesOf mods) := by
  rw [compact_eq]
  suffices ∀ (acc : AMap K (List E)) (ent : K → List E), CompactInv acc ent →
      CompactInv (mods.foldl (fun acc round => round.foldl compactAdd acc) acc) (fun k => ent k ++ entriesOf mods k) by
    have := this [] (fun _ => []) ⟨by simp [AMap.keys], fun k => by simp⟩
    simpa using this
  induction mods with
  | nil => intro acc ent h; simpa using h
  | cons r rs ih =>
    intro acc ent h
    simp only [List.foldl_cons]
    have h1 := fold_compactAdd_inv r (hr r (by simp)) acc ent h
    have h2 := ih (fun r' hr' => hr r' (by simp [hr'])) _ _ h1
    have : (fun k => (ent k ++ (AMap.get r k).toList) ++ entriesOf rs k) = (fun k => ent k ++ entriesOf (r :: rs) k) := by
      funext k
      simp only [entriesOf, List.filterMap_cons]
      cases AMap.get r k <;> simp
    rw [this] at h2
    exact h2

end compact

end AlgoVerif.Lemmas.AcctUpdates
