import AlgoVerif.Lemmas.OnlineAcctsSteps
/-! C13: the full invariant (tables + expired-stake cache + voters) and its preservation by queries, voters loads, new blocks. -/
namespace AlgoVerif.Lemmas.OnlineAccts
open AlgoVerif.Spec.OnlineHistory AlgoVerif.Model.OnlineAccts

/-- everything but the expired-stake cache is the same -/
structure SameButExp (σ σ' : State) : Prop where
  protos : σ'.protos = σ.protos
  univ : σ'.univ = σ.univ
  lookback : σ'.lookback = σ.lookback
  cacheMax : σ'.cacheMax = σ.cacheMax
  gen : σ'.gen = σ.gen
  ledger : σ'.ledger = σ.ledger
  dbRound : σ'.dbRound = σ.dbRound
  db : σ'.db = σ.db
  dbParamsStart : σ'.dbParamsStart = σ.dbParamsStart
  dbParams : σ'.dbParams = σ.dbParams
  deltas : σ'.deltas = σ.deltas
  params : σ'.params = σ.params
  cache : σ'.cache = σ.cache
  voters : σ'.voters = σ.voters

theorem SameButExp.refl (σ : State) : SameButExp σ σ := ⟨rfl, rfl, rfl, rfl, rfl, rfl, rfl, rfl, rfl, rfl, rfl, rfl, rfl, rfl⟩

theorem SameButExp.hist {σ σ' : State} (h : SameButExp σ σ') : σ'.hist = σ.hist := by
  unfold State.hist; rw [h.protos, h.univ, h.gen, h.ledger]

theorem SameButExp.inv {σ σ' : State} {M : Nat} (h : SameButExp σ σ') (inv : InvCore σ M) : InvCore σ' M :=
  inv.of_eq h.protos h.univ h.gen h.ledger h.dbRound h.db h.dbParamsStart h.dbParams h.deltas h.params h.cache

theorem expiredCirc_same (σ : State) (rnd v : Nat) : SameButExp σ (expiredCirc σ rnd v).2 := by
  unfold expiredCirc
  split
  · exact SameButExp.refl σ
  · split
    · exact SameButExp.refl σ
    · exact ⟨rfl, rfl, rfl, rfl, rfl, rfl, rfl, rfl, rfl, rfl, rfl, rfl, rfl, rfl⟩

theorem onlineCirculation_same (σ : State) (rnd v : Nat) : SameButExp σ (onlineCirculation σ rnd v).2 := by
  unfold onlineCirculation
  split
  · exact SameButExp.refl σ
  · split
    · split
      · exact SameButExp.refl σ
      · have := expiredCirc_same σ rnd v
        split <;> (rename_i heq; rw [heq] at this; exact this)
    · exact SameButExp.refl σ

theorem onlineCirculation_exp {σ : State} {M : Nat} (inv : InvCore σ M) (iexp : InvExp σ) (rnd v : Nat) :
    InvExp (onlineCirculation σ rnd v).2 := by
  unfold onlineCirculation
  split
  · exact iexp
  · split
    · split
      · exact iexp
      · have := (inv.expiredCirc_inv iexp rnd v).1
        split <;> (rename_i heq; rw [heq] at this; exact this)
    · exact iexp

theorem topOnline_same (σ : State) (rnd v n : Nat) : SameButExp σ (topOnline σ rnd v n).2 := by
  unfold topOnline
  split
  · exact SameButExp.refl σ
  · simp only
    split
    · exact SameButExp.refl σ
    · split
      · exact SameButExp.refl σ
      · have := expiredCirc_same σ rnd v
        split
        · rename_i heq; rw [heq] at this; exact this
        · rename_i heq; rw [heq] at this
          split <;> exact this

theorem topOnline_exp {σ : State} {M : Nat} (inv : InvCore σ M) (iexp : InvExp σ) (rnd v n : Nat) :
    InvExp (topOnline σ rnd v n).2 := by
  unfold topOnline
  split
  · exact iexp
  · simp only
    split
    · exact iexp
    · split
      · exact iexp
      · have := (inv.expiredCirc_inv iexp rnd v).1
        split
        · rename_i heq; rw [heq] at this; exact this
        · rename_i heq; rw [heq] at this
          split <;> exact this

/-- if `TopOnlineAccounts` succeeds, the round's totals were found -/
theorem topOnline_ok_totals {σ : State} {rnd v n : Nat} {res : List TopEntry × Nat} (h : (topOnline σ rnd v n).1 = .ok res) :
    ∃ p, totalsEx σ rnd = .ok p := by
  unfold topOnline at h
  split at h
  · cases h
  · simp only at h
    split at h
    · cases h
    · cases ht : totalsEx σ rnd with
      | ok p => exact ⟨p, rfl⟩
      | error e => rw [ht] at h; cases h


/-! ### voters -/

/-- the voters tracker only serves what the history implies -/
def InvVot (σ : State) : Prop := ∀ r v, (r, (.ok v : VotersVal)) ∈ σ.voters → votersAt σ.hist r = .ok v

theorem topN_push (h : Hist) (b : Block) (r v n : Nat) (hr : r ≤ h.latest) : topN (h.push b) r v n = topN h r v n := by
  unfold topN topList topTotal
  have hl : (h.push b).latest = h.latest + 1 := by simp [Hist.push, Hist.latest]
  have hn1 : ¬ r > (h.push b).latest := by omega
  have hn2 : ¬ r > h.latest := by omega
  have hmap : (h.push b).univ.map (fun a => topCandidate (protoOf (h.push b).protos (h.push b).gen.proto).unit a (acctAt (h.push b) r a) v) =
      h.univ.map (fun a => topCandidate (protoOf h.protos h.gen.proto).unit a (acctAt h r a) v) := by
    show h.univ.map _ = _
    apply List.map_congr_left
    intro a _
    rw [acctAt_push h b r a hr]; rfl
  simp only [hn1, hn2, if_false, hmap, block?_push h b r hr, expiredStake_push h b r v hr]

theorem votersAt_push (h : Hist) (b : Block) (r : Nat) (hr : r ≤ h.latest) : votersAt (h.push b) r = votersAt h r := by
  unfold votersAt
  rw [block?_push h b r hr]
  cases h.block? r with
  | none => rfl
  | some blk =>
    simp only
    rw [topN_push h b r _ _ hr]
    rfl

theorem votersAt_ok_le {h : Hist} {r : Nat} {v : Voters} (hx : votersAt h r = .ok v) : r ≤ h.latest := by
  unfold votersAt at hx
  cases hb : h.block? r with
  | none => rw [hb] at hx; cases hx
  | some blk => exact block?_le hb

theorem InvVot.appendBlock_inv {σ : State} (ivot : InvVot σ) (b : Block) : InvVot (appendBlock σ b) := by
  intro r v hm
  show votersAt (σ.hist.push b) r = .ok v
  have := ivot r v hm
  rw [votersAt_push σ.hist b r (votersAt_ok_le this)]
  exact this

/-- `LoadTree` of snapshot round `r` with the header of round `r`: a result, if any, is the history's voters -/
theorem InvCore.loadTree_ok {σ : State} {M : Nat} (inv : InvCore σ M) (iexp : InvExp σ) (wf : HistWF σ.hist)
    (r : Nat) (hdr : Block) (hh : σ.hist.block? r = some hdr) (v : Voters) (hv : (loadTree σ r hdr).1 = .ok v) :
    votersAt σ.hist r = .ok v := by
  unfold loadTree at hv
  simp only at hv
  unfold votersAt
  rw [hh]
  simp only
  have hpr : σ.hist.protos = σ.protos := rfl
  rw [hpr]
  cases ht : topOnline σ r (r + ((protoOf σ.protos hdr.proto).spLb + (protoOf σ.protos hdr.proto).spInt)) (protoOf σ.protos hdr.proto).spTop with
  | mk res σ' =>
    rw [ht] at hv
    cases res with
    | error e => simp at hv
    | ok lt =>
      obtain ⟨l, t⟩ := lt
      have h1 : (topOnline σ r (r + ((protoOf σ.protos hdr.proto).spLb + (protoOf σ.protos hdr.proto).spInt)) (protoOf σ.protos hdr.proto).spTop).1 = .ok (l, t) := by
        rw [ht]
      obtain ⟨p, hp⟩ := topOnline_ok_totals h1
      rw [← inv.topOnline_eq iexp wf r _ _ p hp, h1]
      simp only at hv ⊢
      cases hm : mapM' (fun e => (weightOf (protoOf σ.protos hdr.proto).unit hdr.level e).map fun w => (e.addr, w, e.key)) l with
      | error e => rw [hm] at hv; simp at hv
      | ok ps => rw [hm] at hv; simp only at hv ⊢; exact hv

theorem loadTree_same (σ : State) (r : Nat) (hdr : Block) : SameButExp σ (loadTree σ r hdr).2 := by
  unfold loadTree
  simp only
  have := topOnline_same σ r (r + ((protoOf σ.protos hdr.proto).spLb + (protoOf σ.protos hdr.proto).spInt)) (protoOf σ.protos hdr.proto).spTop
  split
  · rename_i heq; rw [heq] at this; exact this
  · rename_i heq; rw [heq] at this
    split <;> exact this

theorem loadTree_exp {σ : State} {M : Nat} (inv : InvCore σ M) (iexp : InvExp σ) (r : Nat) (hdr : Block) :
    InvExp (loadTree σ r hdr).2 := by
  unfold loadTree
  simp only
  have := topOnline_exp inv iexp r (r + ((protoOf σ.protos hdr.proto).spLb + (protoOf σ.protos hdr.proto).spInt)) (protoOf σ.protos hdr.proto).spTop
  split
  · rename_i heq; rw [heq] at this; exact this
  · rename_i heq; rw [heq] at this
    split <;> exact this

/-- the whole invariant of a reachable tracker state -/
structure Inv (σ : State) (M : Nat) : Prop where
  core : InvCore σ M
  exp : InvExp σ
  wf : HistWF σ.hist
  vot : InvVot σ

theorem InvExp.of_same {σ σ' : State} (h : σ'.hist = σ.hist) (he : σ'.expCache = σ.expCache) (iexp : InvExp σ) : InvExp σ' := by
  intro rv x hl
  rw [h]; rw [he] at hl; exact iexp rv x hl

theorem InvVot.of_same {σ σ' : State} (h : σ'.hist = σ.hist) (hv : σ'.voters = σ.voters) (ivot : InvVot σ) : InvVot σ' := by
  intro r v hm
  rw [h]; rw [hv] at hm; exact ivot r v hm

/-- `votersTracker.loadTree(hdr)` for the header of round `r` keeps the invariant -/
theorem Inv.votersLoad_inv {σ : State} {M : Nat} (inv : Inv σ M) (r : Nat) (hdr : Block) (hh : σ.hist.block? r = some hdr) :
    Inv (votersLoad σ r hdr) M ∧ (votersLoad σ r hdr).hist = σ.hist := by
  unfold votersLoad
  split
  · exact ⟨inv, rfl⟩
  · split
    · exact ⟨inv, rfl⟩
    · have hsame := loadTree_same σ r hdr
      have hexp := loadTree_exp inv.core inv.exp r hdr
      have hok := inv.core.loadTree_ok inv.exp inv.wf r hdr hh
      cases hl : loadTree σ r hdr with
      | mk v σ' =>
        rw [hl] at hsame hexp hok
        simp only at hsame hexp hok ⊢
        have hhist : σ'.hist = σ.hist := hsame.hist
        refine ⟨⟨?_, ?_, ?_, ?_⟩, hhist⟩
        · exact (hsame.inv inv.core).of_eq rfl rfl rfl rfl rfl rfl rfl rfl rfl rfl rfl
        · exact InvExp.of_same rfl rfl hexp
        · show HistWF σ'.hist; rw [hhist]; exact inv.wf
        · intro r' v' hm
          show votersAt σ'.hist r' = .ok v'
          rw [hhist]
          have hm' : (r', (.ok v' : VotersVal)) ∈ σ'.voters ++ [(r, v)] := hm
          rcases List.mem_append.mp hm' with h | h
          · rw [hsame.voters] at h; exact inv.vot r' v' h
          · simp at h
            obtain ⟨h1, h2⟩ := h
            subst h1
            exact hok v' h2.symm


/-! ### new block -/

/-- what the evaluator guarantees about a block fed to the tracker -/
structure BlockOK (σ : State) (b : Block) : Prop where
  proto : b.proto < σ.protos.length
  univ : ∀ e ∈ b.deltas, e.1 ∈ σ.univ
  online : ∀ e ∈ b.deltas, e.2.online = true →
    e.2.core.votingEmpty = false ∧ normBal σ.genesisUnit e.2.bal e.2.rb ≠ some 0

theorem HistWF.push {h : Hist} (wf : HistWF h) (b : Block)
    (hb : ∀ e ∈ b.deltas, e.2.online = true →
      e.2.core.votingEmpty = false ∧ normBal (protoOf h.protos h.gen.proto).unit e.2.bal e.2.rb ≠ some 0) :
    HistWF (h.push b) := by
  intro b' hb' e he hon
  have : b' ∈ h.rounds ++ [b] := by
    have : (h.push b).rounds = h.rounds ++ [b] := by simp [Hist.push, Hist.rounds]
    rw [← this]; exact hb'
  rcases List.mem_append.mp this with h' | h'
  · exact wf b' h' e he hon
  · simp at h'; rw [h'] at he; exact hb e he hon

theorem block?_last (σ : State) (b : Block) : (appendBlock σ b).hist.block? (σ.ledger.length + 1) = some b := by
  show (σ.gen :: (σ.ledger ++ [b]))[σ.ledger.length + 1]? = some b
  simp

theorem Inv.newBlock_inv {σ : State} {M : Nat} (inv : Inv σ M) (b : Block) (ok : BlockOK σ b) :
    Inv (newBlock σ b) M ∧ (newBlock σ b).hist = σ.hist.push b := by
  have hcore := inv.core.appendBlock_inv b ok.proto ok.univ
  have hinv1 : Inv (appendBlock σ b) M :=
    ⟨hcore, inv.exp.appendBlock_inv b, inv.wf.push b ok.online, inv.vot.appendBlock_inv b⟩
  rw [newBlock_eq]
  unfold votersNewBlock
  simp only
  split
  · exact ⟨hinv1, rfl⟩
  · split
    · exact ⟨hinv1, rfl⟩
    · have hlat : σ.latest = σ.ledger.length := inv.core.latest_eq
      have := hinv1.votersLoad_inv (σ.latest + 1) b (by rw [hlat]; exact block?_last σ b)
      exact ⟨this.1, this.2.trans rfl⟩

end AlgoVerif.Lemmas.OnlineAccts
