import AlgoVerif.Lemmas.OnlineAcctsInv
/-! C13: under the invariant, `lookupOnlineAccountData` answers what the history implies. -/
namespace AlgoVerif.Lemmas.OnlineAccts
open AlgoVerif.Spec.OnlineHistory AlgoVerif.Model.OnlineAccts

theorem lastIn_take_none : ∀ (ds : List Delta) (k : Nat) (a : Addr), lastIn ds a = none → lastIn (ds.take k) a = none := by
  intro ds
  induction ds with
  | nil => intro k a _; simp [lastIn]
  | cons d ds ih =>
    intro k a h
    cases k with
    | zero => simp [lastIn]
    | succ k =>
      simp only [lastIn] at h
      cases h1 : lastIn ds a with
      | some x => simp [h1] at h
      | none =>
        simp only [h1] at h
        simp [List.take, lastIn, ih k a h1, h]

/-- `deltaHit` is "the newest delta of rounds dbRound+1 .. rnd that mentions the address" -/
theorem deltaHit_eq (σ : State) (rnd : Nat) (a : Addr) (h1 : σ.dbRound ≤ rnd) (h2 : rnd ≤ σ.latest) :
    deltaHit σ rnd a = lastIn (σ.deltas.take (rnd - σ.dbRound)) a := by
  have hro : roundOffset σ rnd = .ok (rnd - σ.dbRound) := by
    unfold roundOffset State.latest at *
    have : ¬ rnd < σ.dbRound := by omega
    have h3 : ¬ rnd - σ.dbRound > σ.deltas.length := by omega
    simp [this, h3]
  unfold deltaHit
  rw [hro]
  simp only
  cases hl : lastIn σ.deltas a with
  | none => simp [lastIn_take_none σ.deltas _ a hl]
  | some newest =>
    simp only
    by_cases he : rnd - σ.dbRound = σ.deltas.length
    · simp [he, hl]
    · simp [he]

theorem deltaHit_history (σ : State) (rnd : Nat) (a : Addr) (h1 : rnd < σ.dbRound) : deltaHit σ rnd a = none := by
  unfold deltaHit roundOffset
  simp [h1]

/-- what the history says at `rnd`, read off the tracker's deltas and DB -/
theorem InvCore.recAt_db {σ : State} {M : Nat} (inv : InvCore σ M) (rnd : Nat) (a : Addr)
    (h1 : σ.dbParamsStart ≤ rnd) (h2 : rnd ≤ σ.latest) :
    recAt σ.hist rnd a =
      match (if rnd < σ.dbRound then none else lastIn (σ.deltas.take (rnd - σ.dbRound)) a) with
      | some x => x.orec
      | none => recOfRow (rowAt (σ.db a) rnd) := by
  by_cases hh : rnd < σ.dbRound
  · simp only [hh, if_true]
    exact (inv.hlook a rnd h1 (by omega)).symm
  · simp only [hh, if_false]
    have hD : σ.dbRound ≤ rnd := by omega
    unfold recAt
    rw [acctAt_split σ.hist σ.dbRound rnd a hD]
    have hd : (σ.hist.blocks.drop σ.dbRound).map (·.deltas) = σ.deltas := by
      rw [inv.hdeltas]; rfl
    rw [hd]
    cases hl : lastIn (σ.deltas.take (rnd - σ.dbRound)) a with
    | some x => rfl
    | none =>
      simp only
      have := inv.hlook a σ.dbRound inv.horizon_le (Nat.le_refl _)
      unfold recAt at this
      rw [← this, rowAt_above (inv.hrows a).2.1 hD]

/-- the cache never contradicts the history -/
theorem InvCore.cache_right {σ : State} {M : Nat} (inv : InvCore σ M) (rnd : Nat) (a : Addr) (r : ORec)
    (h1 : σ.dbParamsStart ≤ rnd) (h2 : rnd ≤ σ.latest)
    (hd : (if rnd < σ.dbRound then none else lastIn (σ.deltas.take (rnd - σ.dbRound)) a) = none)
    (hc : cacheRead (σ.cache a) rnd = some r) : r = recAt σ.hist rnd a := by
  by_cases hh : rnd < σ.dbRound
  · exact (inv.hcache a).2.2 rnd r h1 (by omega) hc
  · have hD : σ.dbRound ≤ rnd := by omega
    rw [cacheRead_above (inv.hcache a).2.1 hD] at hc
    have h3 := (inv.hcache a).2.2 σ.dbRound r inv.horizon_le (Nat.le_refl _) hc
    rw [inv.recAt_db rnd a h1 h2, hd]
    simp only
    rw [rowAt_above (inv.hrows a).2.1 hD, inv.hlook a σ.dbRound inv.horizon_le (Nat.le_refl _)]
    exact h3

theorem InvCore.unit_pos {σ : State} {M : Nat} (inv : InvCore σ M) {rnd : Nat} {b : Block} (hb : σ.hist.block? rnd = some b) :
    1 ≤ (protoOf σ.protos b.proto).unit := by
  have hmem : b ∈ σ.gen :: σ.ledger := by
    unfold Hist.block? Hist.rounds State.hist at hb
    exact List.mem_of_getElem? hb
  have hv := inv.valid b hmem
  unfold protoOf
  rw [List.getD_eq_getElem?_getD, List.getElem?_eq_getElem hv]
  exact inv.pwf.unit _ (List.getElem_mem hv)

/-- **lookups**: whenever the round's parameters are in memory (in particular for the whole lookback window),
    `lookupOnlineAccountData` returns exactly what the history implies -/
theorem InvCore.lookupOnline_eq {σ : State} {M : Nat} (inv : InvCore σ M) (rnd : Nat) (a : Addr) (p : Params)
    (hp : paramsAt σ rnd = .ok p) : (lookupOnline σ rnd a).1 = onlineAt σ.hist rnd a := by
  obtain ⟨h1, h2, b, hb, hpb⟩ := inv.paramsAt_ok hp
  have hunit := inv.unit_pos hb
  have hnot : isTooHigh (roundOffset σ rnd) = false := by
    unfold roundOffset State.latest at *
    by_cases hh : rnd < σ.dbRound
    · simp [hh, isTooHigh]
    · have h3 : ¬ rnd - σ.dbRound > σ.deltas.length := by omega
      simp [hh, h3, isTooHigh]
  unfold lookupOnline onlineAt
  have hpr : σ.hist.protos = σ.protos := rfl
  rw [hnot, hp, hb, hpr]
  simp only [Bool.false_eq_true, if_false]
  have hproto : p.proto = b.proto := by rw [hpb]; rfl
  have hlevel : p.level = b.level := by rw [hpb]; rfl
  rw [hproto, hlevel]
  have hrec := inv.recAt_db rnd a h1 h2
  have hdh : deltaHit σ rnd a = (if rnd < σ.dbRound then none else lastIn (σ.deltas.take (rnd - σ.dbRound)) a) := by
    by_cases hh : rnd < σ.dbRound
    · simp [hh, deltaHit_history σ rnd a hh]
    · simp only [hh, if_false]; exact deltaHit_eq σ rnd a (by omega) h2
  rw [hdh]
  cases hd : (if rnd < σ.dbRound then none else lastIn (σ.deltas.take (rnd - σ.dbRound)) a) with
  | some x =>
    simp only
    rw [hrec, hd]
    exact (orec_view x b.level hunit).symm
  | none =>
    simp only
    cases hc : cacheRead (σ.cache a) rnd with
    | some r =>
      simp only
      rw [inv.cache_right rnd a r h1 h2 hd hc]
    | none =>
      simp only
      rw [hrec, hd]
      simp only
      unfold dbLookupFill
      cases hrow : rowAt (σ.db a) rnd with
      | none => simp only [recOfRow]; exact (zero_view b.level hunit).symm
      | some row =>
        simp only [recOfRow]
        rw [writeHistory_rows (inv.hrows a).1]
        split <;> rfl

end AlgoVerif.Lemmas.OnlineAccts
