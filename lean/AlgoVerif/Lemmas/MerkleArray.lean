/-
Helper lemmas for C37 about Model.MerkleArray (core Lean only): `pos ^ 1`, the two encodings of
`pair.ToBeHashed`, the honest tree as a chain of layers, one-level and multi-level completeness of
`partialLayer.up` against `createProof`, sorting/dedup of the requested positions.
-/
import AlgoVerif.Model.MerkleArray
namespace Lemmas.MerkleArray
open Model.MerkleArray

theorem xor_one_div (p : Nat) : (p ^^^ 1) / 2 = p / 2 := by
  rw [Nat.xor_div_two]; simp

theorem xor_one_mod (p : Nat) : (p ^^^ 1) % 2 = 1 ↔ p % 2 = 0 := by
  rw [Nat.xor_mod_two_eq_one]; omega

theorem xor_one_even (p : Nat) (h : p % 2 = 0) : p ^^^ 1 = p + 1 := by
  have h1 := xor_one_div p; have h2 := xor_one_mod p; omega

theorem xor_one_odd (p : Nat) (h : p % 2 = 1) : p ^^^ 1 = p - 1 := by
  have h1 := xor_one_div p; have h2 := xor_one_mod p; omega
theorem zeros_length (n : Nat) : (zeros n).length = n := by simp [zeros]
theorem zeros_drop (n k : Nat) : (zeros n).drop k = zeros (n - k) := by simp [zeros, List.drop_replicate]
theorem zeros_add (a b : Nat) : zeros (a + b) = zeros a ++ zeros b := by simp [zeros, List.replicate_append_replicate]

theorem copyAt_append (A B src : Bytes) :
    copyAt (A ++ B) A.length src
      = some (A ++ src.take (min B.length src.length) ++ B.drop (min B.length src.length)) := by
  unfold copyAt
  have h : ¬ ((A ++ B).length < A.length) := by simp
  rw [if_neg h]
  have h2 : (A ++ B).length - A.length = B.length := by simp
  rw [h2, List.take_left', List.drop_append]
  · simp
  · rfl

def fit (d : Nat) (r : Bytes) : Bytes := r.take d ++ zeros (d - r.length)

theorem take_min (d : Nat) (r : Bytes) : r.take (min d r.length) = r.take d := by
  rw [List.take_eq_take_iff]; omega

theorem pairBytes_left (c : Cfg) (l r : Bytes) (hl : l.length = c.d) :
    pairBytes c l r = some (l ++ fit c.d r) := by
  have hoff : (if c.fixedOff then c.d else l.length) = l.length := by split <;> simp [hl]
  have h1 : copyAt (zeros (2 * c.d)) 0 l = some (l ++ zeros c.d) := by
    have := copyAt_append [] (zeros (2 * c.d)) l
    simp only [List.length_nil, List.nil_append, zeros_length] at this
    rw [this, zeros_drop]
    have hm : min (2 * c.d) l.length = l.length := by omega
    rw [hm, List.take_length]
    have : 2 * c.d - l.length = c.d := by omega
    rw [this]
  unfold pairBytes
  rw [h1, hoff]
  simp only
  rw [copyAt_append, zeros_length, zeros_drop, take_min, fit, List.append_assoc]
  have : c.d - min c.d r.length = c.d - r.length := by omega
  rw [this]

theorem fit_length (d : Nat) (r : Bytes) : (fit d r).length = d := by
  simp [fit, zeros_length]; omega

theorem fit_self (d : Nat) (r : Bytes) (h : r.length = d) : fit d r = r := by
  simp [fit, zeros, ← h]

theorem fit_nil (d : Nat) : fit d [] = zeros d := by simp [fit]

theorem copyAt_zero_length (n : Nat) (l : Bytes) :
    ∃ b, copyAt (zeros n) 0 l = some b ∧ b.length = n := by
  have := copyAt_append [] (zeros n) l
  simp only [List.length_nil, List.nil_append, zeros_length] at this
  refine ⟨_, this, ?_⟩
  simp [zeros_length]
  omega

/-- fixed-offset encoding: a right child of digest size occupies exactly the second half -/
theorem pairBytes_fixed_right (c : Cfg) (l r : Bytes) (hf : c.fixedOff = true) (hr : r.length = c.d) :
    ∃ X, X.length = c.d ∧ pairBytes c l r = some (X ++ r) := by
  obtain ⟨b, hb, hbl⟩ := copyAt_zero_length (2 * c.d) l
  unfold pairBytes
  rw [hb]
  simp only [hf, if_true]
  refine ⟨b.take c.d, by simp [hbl]; omega, ?_⟩
  have hsplit : b = b.take c.d ++ b.drop c.d := (List.take_append_drop _ _).symm
  have hlenA : (b.take c.d).length = c.d := by simp [hbl]; omega
  have hlenB : (b.drop c.d).length = c.d := by simp [hbl]; omega
  have := copyAt_append (b.take c.d) (b.drop c.d) r
  rw [← hsplit, hlenA, hlenB, hr] at this
  rw [this]
  have e1 : List.take (min c.d c.d) r = r := by rw [Nat.min_self, ← hr, List.take_length]
  have e2 : List.drop (min c.d c.d) (List.drop c.d b) = [] := by
    rw [Nat.min_self]; apply List.drop_eq_nil_of_le; omega
  rw [e1, e2, List.append_nil]

/-- the pinned encoding with an EMPTY left child: the right child lands at offset 0 -/
theorem pairBytes_lenl_nil_left (c : Cfg) (h : Bytes) (hf : c.fixedOff = false) (hh : h.length = c.d) :
    pairBytes c [] h = some (h ++ zeros c.d) := by
  have h1 : copyAt (zeros (2 * c.d)) 0 [] = some (zeros (2 * c.d)) := by
    have := copyAt_append [] (zeros (2 * c.d)) []
    simpa using this
  unfold pairBytes
  rw [h1]
  simp only [hf, List.length_nil]
  have := copyAt_append [] (zeros (2 * c.d)) h
  simp only [List.length_nil, List.nil_append, zeros_length] at this
  simp only [Bool.false_eq_true, if_false]
  rw [this, zeros_drop]
  have hm : min (2 * c.d) h.length = h.length := by omega
  rw [hm, List.take_length]
  have : 2 * c.d - h.length = c.d := by omega
  rw [this]

/-! ### the honest tree -/

/-- the honest node over a left child of digest size -/
def node (c : Cfg) (l r : Bytes) : Bytes := c.H (nodeTag ++ (l ++ fit c.d r))

theorem nodeHash_left (c : Cfg) (l r : Bytes) (hl : l.length = c.d) :
    nodeHash c l r = some (node c l r) := by
  simp [nodeHash, pairBytes_left c l r hl, node]

def upPure (c : Cfg) : List Bytes → List Bytes
  | [] => []
  | [a] => [node c a []]
  | a :: b :: rest => node c a b :: upPure c rest

def Sized (c : Cfg) (L : List Bytes) : Prop := ∀ h ∈ L, h.length = c.d

theorem upLayer_eq (c : Cfg) : ∀ (L : List Bytes), Sized c L → upLayer c L = some (upPure c L)
  | [], _ => rfl
  | [a], hs => by
    have ha : a.length = c.d := hs a (by simp)
    simp [upLayer, upPure, nodeHash_left c a [] ha]
  | a :: b :: rest, hs => by
    have ha : a.length = c.d := hs a (by simp)
    have hr : Sized c rest := fun h hh => hs h (by simp [hh])
    simp [upLayer, upPure, nodeHash_left c a b ha, upLayer_eq c rest hr]

theorem upPure_sized (c : Cfg) (hlen : ∀ x, (c.H x).length = c.d) :
    ∀ (L : List Bytes), Sized c (upPure c L)
  | [] => by simp [upPure, Sized]
  | [a] => by simp [upPure, Sized, node, hlen]
  | a :: b :: rest => by
    intro h hh
    simp only [upPure, List.mem_cons] at hh
    rcases hh with rfl | hh
    · simp [node, hlen]
    · exact upPure_sized c hlen rest h hh

theorem upPure_length (c : Cfg) : ∀ (L : List Bytes), (upPure c L).length = (L.length + 1) / 2
  | [] => by simp [upPure]
  | [a] => by simp [upPure]
  | a :: b :: rest => by
    simp only [upPure, List.length_cons, upPure_length c rest]; omega

theorem sibOf_cons_succ (a : Bytes) (L : List Bytes) (i : Nat) : sibOf (a :: L) (i + 1) = sibOf L i := by
  simp [sibOf]

theorem upPure_get (c : Cfg) : ∀ (L : List Bytes) (q : Nat),
    (upPure c L)[q]? = (L[2 * q]?).map (fun a => node c a (sibOf L (2 * q + 1)))
  | [], q => by simp [upPure]
  | [a], 0 => by simp [upPure, sibOf]
  | [a], q + 1 => by simp [upPure]
  | a :: b :: rest, 0 => by simp [upPure, sibOf]
  | a :: b :: rest, q + 1 => by
    have e1 : 2 * (q + 1) = (2 * q + 1) + 1 := by omega
    have e2 : 2 * (q + 1) + 1 = ((2 * q + 1) + 1) + 1 := by omega
    rw [e2, e1]; simp only [upPure, List.getElem?_cons_succ, sibOf_cons_succ]
    exact upPure_get c rest q

/-- the list of levels of an honest tree: each level is `upPure` of the one below, the top has one node -/
def Chain (c : Cfg) : List (List Bytes) → Prop
  | [] => False
  | [top] => top.length = 1
  | L :: L' :: rest => 1 < L.length ∧ L' = upPure c L ∧ Chain c (L' :: rest)

def AllSized (c : Cfg) (lv : List (List Bytes)) : Prop := ∀ L ∈ lv, Sized c L

theorem buildFrom_chain (c : Cfg) (hlen : ∀ x, (c.H x).length = c.d) :
    ∀ (fuel : Nat) (L : List Bytes), L ≠ [] → L.length ≤ fuel → Sized c L →
      ∃ rest, buildFrom c fuel L = .ok (L :: rest) ∧ Chain c (L :: rest) ∧ AllSized c (L :: rest)
  | 0, L, hne, hle, _ => by
    cases L with
    | nil => exact absurd rfl hne
    | cons a t => simp at hle
  | fuel + 1, L, hne, hle, hs => by
    by_cases h1 : L.length ≤ 1
    · refine ⟨[], by simp [buildFrom, h1], ?_, ?_⟩
      · have : L.length = 1 := by
          cases L with
          | nil => exact absurd rfl hne
          | cons a t => simp at h1 ⊢; exact h1
        simpa [Chain] using this
      · intro L' hL'; simp at hL'; subst hL'; exact hs
    · have hup := upLayer_eq c L hs
      have hlen' := upPure_length c L
      have hne' : upPure c L ≠ [] := by
        intro h; rw [h] at hlen'; simp at hlen'; omega
      obtain ⟨rest, hb, hc, hsz⟩ := buildFrom_chain c hlen fuel (upPure c L) hne' (by omega) (upPure_sized c hlen L)
      refine ⟨upPure c L :: rest, ?_, ?_, ?_⟩
      · simp [buildFrom, h1, hup, hb]
      · exact ⟨by omega, rfl, hc⟩
      · intro L' hL'
        simp only [List.mem_cons] at hL'
        rcases hL' with rfl | hL'
        · exact hs
        · exact hsz L' (by simpa using hL')

theorem chain_step (c : Cfg) : ∀ (lv : List (List Bytes)) (j : Nat) (L L' : List Bytes),
    Chain c lv → lv[j]? = some L → lv[j + 1]? = some L' → L' = upPure c L ∧ 1 < L.length
  | [], _, _, _, h, _, _ => absurd h (by simp [Chain])
  | [_], j, _, _, _, _, h2 => by simp at h2
  | A :: B :: rest, 0, L, L', h, h1, h2 => by
    simp at h1 h2; subst h1; subst h2
    exact ⟨h.2.1, h.1⟩
  | A :: B :: rest, j + 1, L, L', h, h1, h2 => by
    simp only [List.getElem?_cons_succ] at h1 h2
    exact chain_step c (B :: rest) j L L' h.2.2 h1 h2

theorem chain_last (c : Cfg) : ∀ (lv : List (List Bytes)), Chain c lv →
    ∃ r, lv[lv.length - 1]? = some [r]
  | [], h => absurd h (by simp [Chain])
  | [top], h => by
    simp only [Chain] at h
    match top, h with
    | [r], _ => exact ⟨r, by simp⟩
  | A :: B :: rest, h => by
    obtain ⟨r, hr⟩ := chain_last c (B :: rest) h.2.2
    refine ⟨r, ?_⟩
    simpa using hr

theorem chain_ne_nil (c : Cfg) (lv : List (List Bytes)) (h : Chain c lv) : lv ≠ [] := by
  intro e; subst e; simp [Chain] at h

/-! ### completeness -/

theorem sibOf_lt (L : List Bytes) (i : Nat) (h : i < L.length) : L[i]? = some (sibOf L i) := by
  simp [sibOf, List.getElem?_eq_getElem h]

theorem sibOf_sized (c : Cfg) (L : List Bytes) (hs : Sized c L) (i : Nat) (h : i < L.length) :
    (sibOf L i).length = c.d := by
  have := sibOf_lt L i h
  exact hs _ (List.mem_of_getElem? this)

theorem sibOf_of_get (L : List Bytes) (i : Nat) (x : Bytes) (h : L[i]? = some x) : sibOf L i = x := by
  simp [sibOf, h]

def itemsOf (L : List Bytes) (ps : List Nat) : List Item := ps.map (fun p => ⟨p, sibOf L p⟩)

theorem nodeFor_honest (c : Cfg) (L : List Bytes) (hs : Sized c L) (p : Nat) (hp : p < L.length) :
    nodeFor c p (sibOf L p) (sibOf L (p ^^^ 1)) = some (sibOf (upPure c L) (p / 2)) := by
  have hget := upPure_get c L (p / 2)
  by_cases he : p % 2 = 0
  · have e2 : 2 * (p / 2) = p := by omega
    rw [e2, sibOf_lt L p hp] at hget
    simp only [Option.map_some] at hget
    rw [sibOf_of_get _ _ _ hget]
    simp only [nodeFor, he, if_true]
    rw [nodeHash_left c _ _ (sibOf_sized c L hs p hp), xor_one_even p he]
  · have ho : p % 2 = 1 := by omega
    have e2 : 2 * (p / 2) = p - 1 := by omega
    have e3 : 2 * (p / 2) + 1 = p := by omega
    have hp1 : p - 1 < L.length := by omega
    rw [e3, e2, sibOf_lt L (p - 1) hp1] at hget
    simp only [Option.map_some] at hget
    rw [sibOf_of_get _ _ _ hget]
    simp only [nodeFor, he, if_false]
    rw [xor_one_odd p ho, nodeHash_left c _ _ (sibOf_sized c L hs (p - 1) hp1)]

theorem upV_honest (c : Cfg) (L : List Bytes) (hs : Sized c L) :
    ∀ (ps : List Nat) (tl : List Bytes), (∀ p ∈ ps, p < L.length) →
      upV c (itemsOf L ps) ((upP L ps).2 ++ tl) = .ok (itemsOf (upPure c L) (upP L ps).1, tl)
  | [], tl, _ => by simp [itemsOf, upV, upP]
  | [p], tl, h => by
    have hp : p < L.length := h p (by simp)
    simp [itemsOf, upV, upP, nodeFor_honest c L hs p hp]
  | p :: q :: rest, tl, h => by
    have hp : p < L.length := h p (by simp)
    have hrest : ∀ x ∈ rest, x < L.length := fun x hx => h x (by simp [hx])
    have hqrest : ∀ x ∈ q :: rest, x < L.length := fun x hx => h x (by simp at hx ⊢; right; exact hx)
    by_cases hpair : q = p ^^^ 1
    · have ih := upV_honest c L hs rest tl hrest
      have hn := nodeFor_honest c L hs p hp
      rw [← hpair] at hn
      simp only [itemsOf, List.map_cons] at ih ⊢
      simp only [upV, upP, hpair, if_true]
      rw [← hpair, hn]
      simp only
      rw [ih]
      simp
    · have ih := upV_honest c L hs (q :: rest) tl hqrest
      have hn := nodeFor_honest c L hs p hp
      simp only [itemsOf, List.map_cons] at ih ⊢
      simp only [upV, upP, hpair, if_false, List.cons_append]
      rw [hn]
      simp only
      rw [ih]
      simp

def Inc (ps : List Nat) : Prop := List.Pairwise (· < ·) ps

theorem upP_mem (L : List Bytes) : ∀ (ps : List Nat) (x : Nat), x ∈ (upP L ps).1 → ∃ y ∈ ps, x = y / 2
  | [], x, h => by simp [upP] at h
  | [p], x, h => by simp [upP] at h; exact ⟨p, by simp, h⟩
  | p :: q :: rest, x, h => by
    by_cases hpair : q = p ^^^ 1
    · simp only [upP, hpair, if_true, List.mem_cons] at h
      rcases h with rfl | h
      · exact ⟨p, by simp, rfl⟩
      · obtain ⟨y, hy, e⟩ := upP_mem L rest x h
        exact ⟨y, by simp [hy], e⟩
    · simp only [upP, hpair, if_false, List.mem_cons] at h
      rcases h with rfl | h
      · exact ⟨p, by simp, rfl⟩
      · obtain ⟨y, hy, e⟩ := upP_mem L (q :: rest) x h
        exact ⟨y, by simp at hy ⊢; right; exact hy, e⟩

theorem upP_inc (L : List Bytes) : ∀ (ps : List Nat), Inc ps → Inc (upP L ps).1
  | [], _ => by simp [upP, Inc]
  | [p], _ => by simp [upP, Inc]
  | p :: q :: rest, h => by
    have h' := h
    simp only [Inc, List.pairwise_cons] at h'
    obtain ⟨hp, hq, hrest⟩ := h'
    have hpq : p < q := hp q (by simp)
    by_cases hpair : q = p ^^^ 1
    · simp only [upP, hpair, if_true, Inc, List.pairwise_cons]
      refine ⟨?_, upP_inc L rest hrest⟩
      intro x hx
      obtain ⟨y, hy, e⟩ := upP_mem L rest x hx
      have hqy : q < y := hq y hy
      have hpe : p % 2 = 0 := by
        by_cases he : p % 2 = 0
        · exact he
        · have := xor_one_odd p (by omega); omega
      have := xor_one_even p hpe
      omega
    · simp only [upP, hpair, if_false, Inc, List.pairwise_cons]
      refine ⟨?_, upP_inc L (q :: rest) (by simp only [Inc, List.pairwise_cons]; exact ⟨hq, hrest⟩)⟩
      intro x hx
      obtain ⟨y, hy, e⟩ := upP_mem L (q :: rest) x hx
      have hqy : q ≤ y := by
        simp only [List.mem_cons] at hy
        rcases hy with rfl | hy
        · exact Nat.le_refl _
        · exact Nat.le_of_lt (hq y hy)
      by_cases he : p % 2 = 0
      · have := xor_one_even p he; omega
      · omega

theorem upP_count (L : List Bytes) : ∀ (ps : List Nat),
    (upP L ps).2.length + ps.length = 2 * (upP L ps).1.length
  | [] => by simp [upP]
  | [p] => by simp [upP]
  | p :: q :: rest => by
    by_cases hpair : q = p ^^^ 1
    · have := upP_count L rest
      simp only [upP, hpair, if_true, List.length_cons]; omega
    · have := upP_count L (q :: rest)
      simp only [upP, hpair, if_false, List.length_cons] at this ⊢; omega

theorem upP_ne (L : List Bytes) (ps : List Nat) (h : ps ≠ []) : (upP L ps).1 ≠ [] := by
  have := upP_count L ps
  intro e; rw [e] at this
  cases ps with
  | nil => exact h rfl
  | cons a t => simp at this

theorem upP_bound (L : List Bytes) (ps : List Nat) (n : Nat) (h : ∀ p ∈ ps, p < n) :
    ∀ x ∈ (upP L ps).1, x < (n + 1) / 2 := by
  intro x hx
  obtain ⟨y, hy, e⟩ := upP_mem L ps x hx
  have := h y hy
  omega

theorem inc_below_one (ps : List Nat) (hne : ps ≠ []) (hinc : Inc ps) (hb : ∀ p ∈ ps, p < 1) : ps = [0] := by
  cases ps with
  | nil => exact absurd rfl hne
  | cons p t =>
    have hp : p = 0 := by have := hb p (by simp); omega
    subst hp
    cases t with
    | nil => rfl
    | cons q t' =>
      simp only [Inc, List.pairwise_cons] at hinc
      have h1 := hinc.1 q (by simp)
      have h2 := hb q (by simp)
      omega

theorem verifyLoop_stop (c : Cfg) (fuel l : Nat) (pl : List Item) (h : pl.length ≤ 1) :
    verifyLoop c fuel l pl [] = .ok (l, pl) := by
  cases fuel <;> simp [verifyLoop, h]

theorem verifyLoop_honest (c : Cfg) (hlen : ∀ x, (c.H x).length = c.d) :
    ∀ (lv : List (List Bytes)) (L : List Bytes) (rest : List (List Bytes)) (ps : List Nat) (fuel l : Nat),
      lv = L :: rest → Chain c lv → AllSized c lv → ps ≠ [] → Inc ps → (∀ p ∈ ps, p < L.length) →
      lv.length - 1 ≤ fuel →
      ∃ r, lv[lv.length - 1]? = some [r] ∧ (proveLevels lv ps).1 = [0] ∧
        verifyLoop c fuel l (itemsOf L ps) (proveLevels lv ps).2 = .ok (l + (lv.length - 1), [⟨0, r⟩])
  | [], _, _, _, _, _, e, _, _, _, _, _, _ => by simp at e
  | [top], L, rest, ps, fuel, l, e, hc, _, hne, hinc, hb, _ => by
    simp only [List.cons.injEq] at e
    obtain ⟨rfl, rfl⟩ := e
    simp only [Chain] at hc
    match top, hc with
    | [r], _ =>
      have hps : ps = [0] := inc_below_one ps hne hinc (by simpa using hb)
      subst hps
      refine ⟨r, by simp, by simp [proveLevels], ?_⟩
      simp only [proveLevels, itemsOf, List.map_cons, List.map_nil, List.length_cons, List.length_nil]
      rw [verifyLoop_stop c fuel l _ (by simp)]
      simp [sibOf]
  | A :: B :: rest', L, rest, ps, fuel, l, e, hc, hsz, hne, hinc, hb, hfuel => by
    simp only [List.cons.injEq] at e
    obtain ⟨rfl, rfl⟩ := e
    obtain ⟨h1, hB, hc'⟩ := hc
    subst hB
    have hsA : Sized c A := hsz A (by simp)
    have hsz' : AllSized c (upPure c A :: rest') := fun X hX => hsz X (by simp at hX ⊢; right; exact hX)
    have hne' := upP_ne A ps hne
    have hinc' := upP_inc A ps hinc
    have hb' : ∀ x ∈ (upP A ps).1, x < (upPure c A).length := by
      rw [upPure_length]; exact upP_bound A ps A.length hb
    cases fuel with
    | zero => simp at hfuel
    | succ f =>
      obtain ⟨r, hr, hfin, hloop⟩ := verifyLoop_honest c hlen (upPure c A :: rest') (upPure c A) rest'
        (upP A ps).1 f (l + 1) rfl hc' hsz' hne' hinc' hb' (by simp at hfuel ⊢; omega)
      refine ⟨r, by simpa using hr, by simpa [proveLevels] using hfin, ?_⟩
      have hcond : ¬ ((upP A ps).2 ++ (proveLevels (upPure c A :: rest') (upP A ps).1).2 = [] ∧ (itemsOf A ps).length ≤ 1) := by
        intro ⟨hh, hl⟩
        have hcnt := upP_count A ps
        simp only [itemsOf, List.length_map] at hl
        have : (upP A ps).2 = [] := by
          cases hx : (upP A ps).2 with
          | nil => rfl
          | cons a t => rw [hx] at hh; simp at hh
        rw [this] at hcnt
        have : (upP A ps).1.length ≠ 0 := by
          intro h0; exact hne' (List.length_eq_zero_iff.mp h0)
        have : ps.length ≠ 0 := by
          intro h0; exact hne (List.length_eq_zero_iff.mp h0)
        simp at hcnt
        omega
      simp only [proveLevels, verifyLoop, hcond, if_false]
      rw [upV_honest c A hsA ps _ hb]
      simp only
      rw [hloop]
      simp only [List.length_cons]
      congr 2
      omega

theorem proveLevels_fuel : ∀ (lv : List (List Bytes)) (ps : List Nat), lv ≠ [] → ps ≠ [] →
    lv.length ≤ (proveLevels lv ps).2.length + ps.length
  | [], _, h, _ => absurd rfl h
  | [top], ps, _, hne => by
    cases ps with
    | nil => exact absurd rfl hne
    | cons a t => simp [proveLevels]
  | A :: B :: rest, ps, _, hne => by
    have ih := proveLevels_fuel (B :: rest) (upP A ps).1 (by simp) (upP_ne A ps hne)
    have hcnt := upP_count A ps
    have : (upP A ps).1.length ≠ 0 := by
      intro h0; exact upP_ne A ps hne (List.length_eq_zero_iff.mp h0)
    simp only [proveLevels, List.length_append, List.length_cons] at ih ⊢
    omega

/-! ### sorting -/

theorem sortItems_sorted : ∀ (l : List Item), List.Pairwise (fun a b => a.pos < b.pos) l → sortItems l = l
  | [], _ => rfl
  | [x], _ => rfl
  | x :: y :: t, h => by
    have h' := h
    rw [List.pairwise_cons] at h'
    have ih := sortItems_sorted (y :: t) h'.2
    have hxy : x.pos ≤ y.pos := Nat.le_of_lt (h'.1 y (by simp))
    show insertItem x (sortItems (y :: t)) = x :: y :: t
    rw [ih]
    simp [insertItem, hxy]

theorem insertNat_mem (x : Nat) : ∀ (l : List Nat) (y : Nat), y ∈ insertNat x l ↔ y = x ∨ y ∈ l
  | [], y => by simp [insertNat]
  | a :: t, y => by
    by_cases h : x ≤ a
    · simp [insertNat, h]
    · simp only [insertNat, h, if_false, List.mem_cons, insertNat_mem x t y]
      constructor
      · rintro (h1 | h1 | h1) <;> simp [h1]
      · rintro (h1 | h1 | h1) <;> simp [h1]

theorem sortNat_mem : ∀ (l : List Nat) (y : Nat), y ∈ sortNat l ↔ y ∈ l
  | [], y => by simp [sortNat]
  | a :: t, y => by simp [sortNat, insertNat_mem, sortNat_mem t y]

theorem insertNat_sorted (x : Nat) : ∀ (l : List Nat), List.Pairwise (· ≤ ·) l → List.Pairwise (· ≤ ·) (insertNat x l)
  | [], _ => by simp [insertNat]
  | a :: t, h => by
    rw [List.pairwise_cons] at h
    by_cases hx : x ≤ a
    · simp only [insertNat, hx, if_true, List.pairwise_cons]
      refine ⟨?_, h.1, h.2⟩
      intro y hy
      simp only [List.mem_cons] at hy
      rcases hy with rfl | hy
      · exact hx
      · exact Nat.le_trans hx (h.1 y hy)
    · simp only [insertNat, hx, if_false, List.pairwise_cons]
      refine ⟨?_, insertNat_sorted x t h.2⟩
      intro y hy
      rw [insertNat_mem] at hy
      rcases hy with rfl | hy
      · omega
      · exact h.1 y hy

theorem sortNat_sorted : ∀ (l : List Nat), List.Pairwise (· ≤ ·) (sortNat l)
  | [] => by simp [sortNat]
  | a :: t => insertNat_sorted a _ (sortNat_sorted t)

theorem dedupAdj_mem : ∀ (l : List Nat) (y : Nat), y ∈ dedupAdj l ↔ y ∈ l
  | [], y => by simp [dedupAdj]
  | [a], y => by simp [dedupAdj]
  | a :: b :: t, y => by
    by_cases h : a = b
    · subst h
      simp only [dedupAdj, if_true, dedupAdj_mem (a :: t) y, List.mem_cons]
      constructor
      · rintro (h1 | h1) <;> simp [h1]
      · rintro (h1 | h1 | h1) <;> simp [h1]
    · simp only [dedupAdj, h, if_false, List.mem_cons, dedupAdj_mem (b :: t) y]

theorem dedupAdj_inc : ∀ (l : List Nat), List.Pairwise (· ≤ ·) l → Inc (dedupAdj l)
  | [], _ => by simp [dedupAdj, Inc]
  | [a], _ => by simp [dedupAdj, Inc]
  | a :: b :: t, h => by
    have h' := h
    rw [List.pairwise_cons] at h'
    by_cases hab : a = b
    · simp only [dedupAdj, hab, if_true]
      exact dedupAdj_inc (b :: t) h'.2
    · simp only [dedupAdj, hab, if_false, Inc, List.pairwise_cons]
      refine ⟨?_, dedupAdj_inc (b :: t) h'.2⟩
      intro y hy
      rw [dedupAdj_mem] at hy
      have hle : a ≤ b := h'.1 b (by simp)
      have h2 := h'.2
      rw [List.pairwise_cons] at h2
      simp only [List.mem_cons] at hy
      rcases hy with rfl | hy
      · omega
      · have := h2.1 y hy; omega

theorem canon_inc (idxs : List Nat) : Inc (dedupAdj (sortNat idxs)) :=
  dedupAdj_inc _ (sortNat_sorted idxs)

theorem canon_mem (idxs : List Nat) (y : Nat) : y ∈ dedupAdj (sortNat idxs) ↔ y ∈ idxs := by
  rw [dedupAdj_mem, sortNat_mem]

/-! ### size of an honest tree -/

theorem chain_size_le (c : Cfg) : ∀ (lv : List (List Bytes)) (L : List Bytes) (rest : List (List Bytes)),
    lv = L :: rest → Chain c lv → L.length ≤ 2 ^ rest.length
  | [], _, _, e, _ => by simp at e
  | [top], L, rest, e, h => by
    simp only [List.cons.injEq] at e; obtain ⟨rfl, rfl⟩ := e
    simp only [Chain] at h; simp [h]
  | A :: B :: rest', L, rest, e, h => by
    simp only [List.cons.injEq] at e; obtain ⟨rfl, rfl⟩ := e
    have ih := chain_size_le c (B :: rest') B rest' rfl h.2.2
    have hB := h.2.1
    rw [hB, upPure_length] at ih
    simp only [List.length_cons, Nat.pow_succ]
    omega

theorem chain_size_gt (c : Cfg) : ∀ (lv : List (List Bytes)) (L : List Bytes) (rest : List (List Bytes)),
    lv = L :: rest → Chain c lv → rest ≠ [] → 2 ^ (rest.length - 1) < L.length
  | [], _, _, e, _, _ => by simp at e
  | [top], L, rest, e, _, hne => by
    simp only [List.cons.injEq] at e; obtain ⟨rfl, rfl⟩ := e
    exact absurd rfl hne
  | A :: B :: rest', L, rest, e, h, _ => by
    simp only [List.cons.injEq] at e; obtain ⟨rfl, rfl⟩ := e
    cases rest' with
    | nil => simpa using h.1
    | cons C rest'' =>
      have ih := chain_size_gt c (B :: C :: rest'') B (C :: rest'') rfl h.2.2 (by simp)
      have hB := h.2.1
      rw [hB, upPure_length] at ih
      simp only [List.length_cons, Nat.add_sub_cancel] at ih ⊢
      rw [Nat.pow_succ]
      omega


end Lemmas.MerkleArray
