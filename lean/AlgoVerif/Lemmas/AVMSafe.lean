/-
Lemmas for `sem_no_crash` (Props/C31): the guards of the model (`Err.crash` = the Go code would index out of range) are
unreachable from `step` for the modelled op family. `reqArgs` / `reqImm` say what each body relies on, `rowSafe` is the
table condition making step's own checks sufficient, `StOK` is the run invariant behind the frame arithmetic of
proto / retsub (the callsub–proto handshake), `step_no_crash` the result.
-/
import AlgoVerif.Model.AVM
import AlgoVerif.Lemmas.AVM
import AlgoVerif.Lemmas.AVMCheck
namespace Lemmas.AVMSafe
open Model.OpTables Model.AVM Lemmas.AVM Lemmas.AVMCheck

/-- argument types (bottom → top; 1 any, 2 uint64, 3 bytes) the body of a modelled op relies on -/
def reqArgs : OpK → List Nat
  | .ret => [1] | .assert => [2] | .pop => [1] | .dup => [1] | .dup2 => [1, 1] | .swap => [1, 1] | .select => [1, 1, 2]
  | .dupn => [1] | .args => [2] | .bnz => [2] | .bz => [2] | .bnz2 => [2] | .bz2 => [2] | .switch => [2]
  | .store => [1] | .loads => [2] | .stores => [2, 1]
  | .concat => [3, 3] | .substring => [3] | .substring3 => [3, 2, 2] | .getbyte => [3, 2] | .setbyte => [3, 2, 2]
  | .extract => [3] | .extract3 => [3, 2, 2] | .extractN _ => [3, 2] | .replace2 => [3, 3] | .replace3 => [3, 2, 3]
  | .getbit => [1, 2] | .setbit => [1, 2, 2] | .bzero => [2] | .len => [3] | .itob => [2] | .btoi => [3]
  | .plus => [2, 2] | .minus => [2, 2] | .div => [2, 2] | .mul => [2, 2] | .lt => [2, 2] | .gt => [2, 2] | .le => [2, 2]
  | .ge => [2, 2] | .and => [2, 2] | .or => [2, 2] | .eq => [1, 1] | .neq => [1, 1] | .not => [2] | .mod => [2, 2]
  | .bitor => [2, 2] | .bitand => [2, 2] | .bitxor => [2, 2] | .bitnot => [2]
  | _ => []

/-- immediate bytes after the opcode that the body reads without a guard of its own -/
def reqImm : OpK → Nat
  | .dig => 1 | .cover => 1 | .uncover => 1 | .bury => 1 | .popn => 1 | .dupn => 1 | .intcLoad => 1 | .bytecLoad => 1
  | .arg => 1 | .bnz2 => 2 | .bz2 => 2 | .b2 => 2 | .callsub2 => 2 | .proto => 2 | .frameDig => 1 | .frameBury => 1
  | .load => 1 | .store => 1 | .substring => 2 | .extract => 2 | .replace2 => 1
  | _ => 0

theorem byteAt_err {prog : List Nat} {i : Nat} {e : Err} (h : byteAt prog i = .error e) : prog.length ≤ i := by
  unfold byteAt at h
  split at h
  · cases h
  · rename_i hn; exact List.getElem?_eq_none_iff.mp hn

theorem byteAt_ok_lt {prog : List Nat} {i b : Nat} (h : byteAt prog i = .ok b) (hb : ∀ x ∈ prog, x < 256) : b < 256 := by
  unfold byteAt at h
  split at h
  · rename_i b' hb'; injection h with h; subst h; exact hb _ (List.mem_of_getElem? hb')
  · cases h

theorem decodeBranchOffset_err {prog : List Nat} {pos : Nat} {e : Err} (h : decodeBranchOffset prog pos = .error e) :
    prog.length ≤ pos + 1 := by
  unfold decodeBranchOffset at h
  split at h
  · cases h
  · rename_i h1
    by_cases hlt : pos + 1 < prog.length
    · exfalso
      have a : pos < prog.length := by omega
      exact h1 _ _ (List.getElem?_eq_getElem a) (List.getElem?_eq_getElem hlt)
    · omega

def NoCrash {α : Type} (r : Except Err α) : Prop := ∀ e, r = .error e → e ≠ .crash

theorem branchTarget_noCrash {lim : Limits} {prog : List Nat} {pc v : Nat} (h : pc + 2 < prog.length) :
    NoCrash (branchTarget lim prog pc v) := by
  intro e he; unfold branchTarget at he
  split at he
  · rename_i e' hd; have := decodeBranchOffset_err hd; omega
  · split at he
    · injection he with he; subst he; simp
    · simp only [] at he
      generalize (if v ≥ 2 then _ else _ : Bool) = tf at he
      split at he
      · injection he with he; subst he; simp
      · cases he

theorem branchTargetVarint_noCrash (prog : List Nat) (pc : Nat) : NoCrash (branchTargetVarint prog pc) := by
  intro e he; unfold branchTargetVarint at he
  split at he
  · injection he with he; subst he; simp
  · simp only [] at he
    generalize (if _ < (0 : Int) then _ else _ : Int) = tg at he
    split at he
    · injection he with he; subst he; simp
    · cases he

theorem switchTarget_noCrash (prog : List Nat) (pc idx : Nat) : NoCrash (switchTarget prog pc idx) := by
  intro e he; unfold switchTarget at he
  split at he
  · injection he with he; subst he; simp
  · rename_i hlen
    split at he
    · rename_i hn
      have := List.getElem?_eq_none_iff.mp hn
      omega
    · simp only [] at he
      split at he
      · injection he with he; subst he; simp
      · rename_i heoi
        split at he
        · rename_i e' hoff
          split at hoff
          · rename_i hidx
            have := decodeBranchOffset_err hoff
            omega
          · cases hoff
        · split at he
          · injection he with he; subst he; simp
          · cases he

theorem parseIntsLoop_onlyOp (prog : List Nat) : ∀ (n pos : Nat) (acc : List Nat) (e : Err),
    parseIntsLoop prog n pos acc = .error e → e = .op
  | 0, pos, acc, e, h => by unfold parseIntsLoop at h; cases h
  | n + 1, pos, acc, e, h => by
    unfold parseIntsLoop at h
    split at h
    · injection h with h; exact h.symm
    · split at h
      · exact parseIntsLoop_onlyOp prog n _ _ e h
      · injection h with h; exact h.symm

theorem parseIntImmArgs_onlyOp {prog : List Nat} {pos : Nat} {e : Err} (h : parseIntImmArgs prog pos = .error e) : e = .op := by
  unfold parseIntImmArgs at h
  split at h
  · split at h
    · injection h with h; exact h.symm
    · exact parseIntsLoop_onlyOp _ _ _ _ _ h
  · injection h with h; exact h.symm

theorem parseBytesLoop_onlyOp (prog : List Nat) : ∀ (n pos : Nat) (acc : List (List Nat)) (e : Err),
    parseBytesLoop prog n pos acc = .error e → e = .op
  | 0, pos, acc, e, h => by unfold parseBytesLoop at h; cases h
  | n + 1, pos, acc, e, h => by
    unfold parseBytesLoop at h
    split at h
    · injection h with h; exact h.symm
    · split at h
      · simp only [] at h
        split at h
        · injection h with h; exact h.symm
        · exact parseBytesLoop_onlyOp prog n _ _ e h
      · injection h with h; exact h.symm

theorem byteImmArgs_onlyOp {cfg : Cfg} {prog : List Nat} {pc : Nat} {e : Err} (h : byteImmArgs cfg prog pc = .error e) : e = .op := by
  unfold byteImmArgs at h
  split at h
  · rename_i e' he
    injection h with h; subst h
    unfold parseByteImmArgs at he
    split at he
    · split at he
      · injection he with he; exact he.symm
      · exact parseBytesLoop_onlyOp _ _ _ _ _ he
    · injection he with he; exact he.symm
  · split at h
    · split at h
      · cases h
      · injection h with h; exact h.symm
    · split at h
      · injection h with h; exact h.symm
      · cases h

theorem pushIntImm_onlyOp {prog : List Nat} {pc : Nat} {e : Err} (h : pushIntImm prog pc = .error e) : e = .op := by
  unfold pushIntImm at h
  split at h
  · cases h
  · injection h with h; exact h.symm

theorem pushBytesImm_onlyOp {prog : List Nat} {pc : Nat} {e : Err} (h : pushBytesImm prog pc = .error e) : e = .op := by
  unfold pushBytesImm at h
  split at h
  · simp only [] at h
    split at h
    · injection h with h; exact h.symm
    · cases h
  · injection h with h; exact h.symm

theorem substringGo_onlyOp {x : List Nat} {s e' : Nat} {e : Err} (h : substringGo x s e' = .error e) : e = .op := by
  unfold substringGo at h
  repeat' split at h
  all_goals first | (injection h with h; exact h.symm) | cases h

theorem extractCarefully_onlyOp {x : List Nat} {s l : Nat} {e : Err} (h : extractCarefully x s l = .error e) : e = .op := by
  unfold extractCarefully at h
  repeat' split at h
  all_goals first | (injection h with h; exact h.symm) | cases h

theorem replaceCarefully_onlyOp {x y : List Nat} {s : Nat} {e : Err} (h : replaceCarefully x y s = .error e) : e = .op := by
  unfold replaceCarefully at h
  repeat' split at h
  all_goals first | (injection h with h; exact h.symm) | cases h

theorem ensureStackCap_err {lim : Limits} {n : Nat} {e : Err} (h : ensureStackCap lim n = .error e) : e = .overflow := by
  unfold ensureStackCap at h
  split at h
  · injection h with h; exact h.symm
  · cases h

theorem pushArg_onlyOp {cx : Ctx} {n : Nat} {m : Mach} {e : Err} (h : pushArg cx n m = .error e) : e = .op := by
  unfold pushArg at h
  repeat' split at h
  all_goals first | (injection h with h; exact h.symm) | cases h

theorem pushIntc_onlyOp {n : Nat} {m : Mach} {e : Err} (h : pushIntc n m = .error e) : e = .op := by
  unfold pushIntc at h
  repeat' split at h
  all_goals first | (injection h with h; exact h.symm) | cases h

theorem pushBytec_onlyOp {n : Nat} {m : Mach} {e : Err} (h : pushBytec n m = .error e) : e = .op := by
  unfold pushBytec at h
  repeat' split at h
  all_goals first | (injection h with h; exact h.symm) | cases h

theorem byteAt_ok_of_lt {prog : List Nat} {i : Nat} (h : i < prog.length) : ∃ b, byteAt prog i = .ok b := by
  unfold byteAt; rw [List.getElem?_eq_getElem h]; exact ⟨_, rfl⟩

structure MachOK (m : Mach) : Prop where
  scratch : 256 ≤ m.scratch.length
  callsub : m.fromCallsub = true → m.callstack ≠ []
  frames : ∀ f ∈ m.callstack, f.clear = true → f.args ≤ f.height

set_option maxHeartbeats 8000000 in
theorem execK_no_crash {k : OpK} {cx : Ctx} {m : Mach} (hargs : typesMatch (reqArgs k).reverse m.stack = true)
    (himm : cx.pc + reqImm k < cx.prog.length) (hbytes : ∀ b ∈ cx.prog, b < 256) (hok : MachOK m) :
    execK k cx m ≠ .error .crash := by
  intro hc
  cases k
  all_goals (
    simp only [reqArgs, reqImm, List.reverse_cons, List.reverse_nil, List.nil_append, List.cons_append, Nat.add_zero] at hargs himm
    simp only [execK] at hc
    repeat' split at hc
    all_goals first
      | (cases hc; done)
      | (injection hc with hc; subst hc; have := byteAt_err ‹byteAt _ _ = _›; omega)
      | (injection hc with hc; subst hc
         first
          | (have := parseIntImmArgs_onlyOp ‹_›; cases this)
          | (have := byteImmArgs_onlyOp ‹_›; cases this)
          | (have := pushIntImm_onlyOp ‹_›; cases this)
          | (have := pushBytesImm_onlyOp ‹_›; cases this)
          | (have := substringGo_onlyOp ‹_›; cases this)
          | (have := extractCarefully_onlyOp ‹_›; cases this)
          | (have := replaceCarefully_onlyOp ‹_›; cases this)
          | (have := ensureStackCap_err ‹_›; cases this)
          | (exact branchTargetVarint_noCrash _ _ _ ‹_› rfl)
          | (exact switchTarget_noCrash _ _ _ _ ‹_› rfl)
          | (exact branchTarget_noCrash (by omega) _ ‹_› rfl))
      | (have := pushArg_onlyOp hc; cases this)
      | (have := pushIntc_onlyOp hc; cases this)
      | (have := pushBytec_onlyOp hc; cases this)
      | (exfalso
         rename_i hx
         rcases hst : m.stack with _ | ⟨a, _ | ⟨b, _ | ⟨c, r⟩⟩⟩ <;>
         (try cases a) <;> (try cases b) <;> (try cases c) <;>
         first
          | (simp [hst, typesMatch, opCompat, Val.avm] at hargs; done)
          | exact hx _ hst
          | exact hx _ _ hst
          | exact hx _ _ _ hst
          | exact hx _ _ _ _ hst
          | exact hx _ _ _ _ _ hst)
      | (have h0 := ‹m.stack = []›; simp [h0, typesMatch] at hargs; done)
      | (have h0 := ‹m.stack = []›; simp only [h0, List.length_nil] at *; omega)
      | (have := hok.scratch; have := byteAt_ok_lt ‹byteAt _ _ = Except.ok _› hbytes
         have := List.getElem?_eq_none_iff.mp ‹_›; omega)
      | (have := hok.scratch; have := byteAt_ok_lt ‹byteAt _ _ = Except.ok _› hbytes; omega)
      | (have := List.getElem?_eq_none_iff.mp ‹_›; omega)
      | (have := hok.frames _ (by rw [‹m.callstack = _›]; exact List.mem_cons_self) ‹_›; omega)
      | (exact hok.callsub (by simpa using ‹¬(!m.fromCallsub) = true›) ‹m.callstack = []›)
      | (have := List.getElem?_eq_none_iff.mp ‹_›; unfold fromBottom at this; omega)
      | (exfalso
         rename_i hx
         obtain ⟨b1, h1⟩ := byteAt_ok_of_lt (prog := cx.prog) (i := cx.pc + 1) (by omega)
         obtain ⟨b2, h2⟩ := byteAt_ok_of_lt (prog := cx.prog) (i := cx.pc + 2) (by omega)
         exact hx _ _ h1 h2)
      | (exfalso
         rename_i hx1 hx2
         rcases hst : m.stack with _ | ⟨a, _ | ⟨b, _ | ⟨c, r⟩⟩⟩ <;>
         (try cases a) <;> (try cases b) <;> (try cases c) <;>
         first
          | (simp [hst, typesMatch, opCompat, Val.avm] at hargs; done)
          | exact hx1 _ _ _ hst
          | exact hx2 _ _ _ hst
          | exact hx1 _ _ _ _ hst
          | exact hx2 _ _ _ _ hst)
      | skip)

theorem branchTarget_pos {lim : Limits} {prog : List Nat} {pc v t : Nat} (h : branchTarget lim prog pc v = .ok t) : 1 ≤ t := by
  unfold branchTarget at h
  split at h
  · cases h
  · rename_i off _
    split at h
    · cases h
    · simp only [] at h
      generalize htf : (if v ≥ 2 then decide ((pc : Int) + 3 + off > (prog.length : Int) ∨ (pc : Int) + 3 + off ≤ 0)
        else decide ((pc : Int) + 3 + off ≥ (prog.length : Int) ∨ (pc : Int) + 3 + off ≤ 0)) = tf at h
      cases tf with
      | true => simp at h
      | false =>
        simp only [Bool.false_eq_true, if_false] at h
        injection h with h; subst h
        split at htf <;> simp at htf <;> omega

theorem branchTargetVarint_pos {prog : List Nat} {pc t sz : Nat} (h : branchTargetVarint prog pc = .ok (t, sz)) : 1 ≤ t := by
  unfold branchTargetVarint at h
  split at h
  · cases h
  · rename_i o n hv
    simp only [] at h
    generalize htg : (if o < 0 then (pc : Int) + o else (pc : Int) + ((1 + n : Nat) : Int) + o) = tg at h
    by_cases hc : tg > (prog.length : Int) ∨ tg ≤ 0
    · rw [if_pos hc] at h; cases h
    · rw [if_neg hc] at h
      injection h with h; injection h with h1 h2
      subst h1
      omega

/-- ops other than proto / callsub leave the callsub handshake flag and the size of scratch space alone, and can at
    most pop the top frame -/
theorem execK_frames {k : OpK} {cx : Ctx} {m m' : Mach} (hk : k ≠ .proto ∧ k ≠ .callsub ∧ k ≠ .callsub2)
    (h : execK k cx m = .ok m') :
    m'.fromCallsub = m.fromCallsub ∧ m'.scratch.length = m.scratch.length ∧
    (m'.callstack = m.callstack ∨ ∃ top, m.callstack = top :: m'.callstack) := by
  cases k
  all_goals (
    simp only [execK, pushIntc, pushBytec, pushArg] at h
    repeat' split at h
    all_goals first
      | (injection h with h; subst h; exact ⟨rfl, rfl, Or.inl rfl⟩)
      | (injection h with h; subst h; exact ⟨rfl, by simp, Or.inl rfl⟩)
      | (injection h with h; subst h; exact ⟨rfl, rfl, Or.inr ⟨_, by assumption⟩⟩)
      | (cases h; done)
      | (exfalso; simp at hk; done)
      | skip)

theorem execK_proto {cx : Ctx} {m m' : Mach} (h : execK .proto cx m = .ok m') :
    m.fromCallsub = true ∧ ∃ top rest nargs nrets, m.callstack = top :: rest ∧ nargs ≤ m.stack.length ∧
      m'.callstack = { top with clear := true, args := nargs, returns := nrets } :: rest ∧ m'.fromCallsub = false ∧
      m'.stack = m.stack ∧ m'.scratch = m.scratch := by
  simp only [execK] at h
  repeat' split at h
  all_goals first
    | (cases h; done)
    | (injection h with h; subst h
       rename_i hfc _ _ nargs nrets _ _ hle _ top rest hcs
       exact ⟨by simpa using hfc, top, rest, nargs, nrets, hcs, by omega, rfl, rfl, rfl, rfl⟩)

theorem execK_callsub {k : OpK} {cx : Ctx} {m m' : Mach} (hk : k = .callsub ∨ k = .callsub2) (h : execK k cx m = .ok m') :
    m'.stack = m.stack ∧ m'.scratch = m.scratch ∧ ∃ target retpc, 1 ≤ target ∧ m'.nextpc = target ∧
      m'.callstack = ⟨retpc, m.stack.length, false, 0, 0⟩ :: m.callstack ∧
      m'.fromCallsub = (m.fromCallsub || callsubFlag cx target) := by
  rcases hk with hk | hk <;> subst hk
  · simp only [execK] at h
    split at h
    · cases h
    · rename_i t sz ht
      injection h with h; subst h
      exact ⟨rfl, rfl, t, _, branchTargetVarint_pos ht, rfl, rfl, rfl⟩
  · simp only [execK] at h
    split at h
    · cases h
    · rename_i t ht
      injection h with h; subst h
      exact ⟨rfl, rfl, t, _, branchTarget_pos ht, rfl, rfl, rfl⟩


/-! ### table conditions -/

/-- `req` (top first) is implied by the declared argument types `decl` (top first) -/
def cover : List Nat → List Nat → Bool
  | [], _ => true
  | r :: rs, d :: ds => (r == 1 || r == d) && cover rs ds
  | _ :: _, [] => false

theorem typesMatch_cover : ∀ (req decl : List Nat) (st : List Val), cover req decl = true → typesMatch decl st = true →
    typesMatch req st = true
  | [], _, _, _, _ => by simp [typesMatch]
  | r :: rs, [], _, h, _ => by simp [cover] at h
  | r :: rs, d :: ds, [], _, h => by simp [typesMatch] at h
  | r :: rs, d :: ds, v :: vs, h, hm => by
    simp only [cover, Bool.and_eq_true, Bool.or_eq_true, beq_iff_eq] at h
    simp only [typesMatch, Bool.and_eq_true] at hm ⊢
    refine ⟨?_, typesMatch_cover rs ds vs h.2 hm.2⟩
    rcases h.1 with h1 | h1
    · subst h1; simp [opCompat]
    · subst h1; exact hm.1

def chunky (c : LinCost) : Bool := c.2.1 != 0 && c.2.2.1 != 0

/-- conditions on a table row under which neither the skeleton nor the body of a modelled op can hit a guard of the
    model (`Err.crash`): cost look-ups stay inside the argument window, cost-carrying field immediates exist, only
    `err` / `return` claim to always exit, and a modelled body gets the argument types and immediate bytes it reads -/
def rowSafeK (cfg : Cfg) (s : Spec) (ko : Option OpK) : Bool :=
  (!chunky (fullCost s) || decide (s.depth < s.args.length)) &&
  (!s.fieldCost || (decide (s.size ≥ (if s.sub ≠ 0 then 3 else 2)) &&
     (List.range 256).all (fun f => !chunky (cfg.fcost s.id f) || decide ((cfg.fcost s.id f).2.2.2 < s.args.length)))) &&
  (!alwaysExits s || ko == some .err || ko == some .ret) &&
  (match ko with
   | none => true
   | some k => cover (reqArgs k).reverse s.args.reverse && (reqImm k == 0 || decide (reqImm k + 1 ≤ s.size)))

def rowSafe (cfg : Cfg) (s : Spec) : Bool := rowSafeK cfg s (opKind s.fn)

theorem linCost_noCrash {c : LinCost} {st : Stack} (h : chunky c = true → c.2.2.2 < st.length) : NoCrash (linCost c st) := by
  intro e he
  unfold linCost at he
  split at he
  · rename_i hc
    split at he
    · cases he
    · rename_i hn
      have := List.getElem?_eq_none_iff.mp hn
      have := h (by simp [chunky, hc.1, hc.2])
      omega
  · cases he

/-- the state invariant behind the frame arithmetic of proto / retsub -/
structure StOK (cfg : Cfg) (prog : List Nat) (st : State) : Prop where
  scratch : 256 ≤ st.m.scratch.length
  frames : ∀ f ∈ st.m.callstack, f.clear = true → f.args ≤ f.height
  pending : st.m.fromCallsub = true → prog[st.pc]? = some cfg.lim.protoByte ∧
    ∃ top rest, st.m.callstack = top :: rest ∧ top.clear = false ∧ top.height = st.m.stack.length

theorem StOK.machOK {cfg : Cfg} {prog : List Nat} {st : State} (h : StOK cfg prog st) : MachOK st.m :=
  ⟨h.scratch, fun hf => by obtain ⟨_, top, rest, hc, _⟩ := h.pending hf; rw [hc]; simp, h.frames⟩

/-- the opcode byte of `proto` resolves to `proto` in the table of this version (when it resolves at all) -/
def ProtoWF (cfg : Cfg) (v : Nat) : Prop :=
  ∀ next s, getSpec cfg.tbl v cfg.lim.protoByte next = some s → opKind s.fn = some .proto

theorem stOK_step {sem : Sem} {cfg : Cfg} {prog : List Nat} {v : Nat} {st st' : State} (hp : ProtoWF cfg v)
    (hok : StOK cfg prog st) (hs : step (concreteExec sem) cfg prog v st = .ok st') : StOK cfg prog st' := by
  obtain ⟨opc, s, opcost, m', hop, hsp, _, _, _, _, _, _, hex, _, _, rfl⟩ := step_ok_inv hs
  -- while the handshake is pending, the instruction executed is the proto
  have pend : st.m.fromCallsub = true → opKind s.fn = some .proto := by
    intro hf
    obtain ⟨hb, _⟩ := hok.pending hf
    rw [hop] at hb; injection hb with hb; subst hb
    exact hp _ _ hsp
  unfold concreteExec at hex
  cases hk : opKind s.fn with
  | none =>
    rw [hk] at hex
    simp only [] at hex
    split at hex
    · injection hex with hex; subst hex
      have hf : st.m.fromCallsub = false := by
        cases h : st.m.fromCallsub with
        | false => rfl
        | true => have := pend h; rw [hk] at this; cases this
      exact ⟨hok.scratch, hok.frames, fun h => by simp only [hf] at h; cases h⟩
    · cases hex
  | some k =>
    rw [hk] at hex
    simp only [] at hex
    by_cases hkp : k = .proto
    · subst hkp
      obtain ⟨hf, top, rest, nargs, nrets, hcs, hle, hcs', hf', hst, hsc⟩ := execK_proto hex
      obtain ⟨_, top', rest', hcs2, _, hh⟩ := hok.pending hf
      rw [hcs] at hcs2; injection hcs2 with e1 e2; subst e1; subst e2
      refine ⟨by simp only [hsc]; exact hok.scratch, ?_, fun h => by simp only [hf'] at h; cases h⟩
      intro f hfm hcl
      simp only [hcs', List.mem_cons] at hfm
      rcases hfm with hfm | hfm
      · subst hfm; simp only; omega
      · exact hok.frames f (by rw [hcs]; exact List.mem_cons_of_mem _ hfm) hcl
    · have hnf : st.m.fromCallsub = false := by
        cases h : st.m.fromCallsub with
        | false => rfl
        | true => have := pend h; rw [hk] at this; injection this with this; exact absurd this hkp
      by_cases hkc : k = .callsub ∨ k = .callsub2
      · obtain ⟨hst, hsc, target, retpc, htp, hnx, hcs', hf'⟩ := execK_callsub hkc hex
        refine ⟨by simp only [hsc]; exact hok.scratch, ?_, ?_⟩
        · intro f hfm hcl
          simp only [hcs', List.mem_cons] at hfm
          rcases hfm with hfm | hfm
          · subst hfm; cases hcl
          · exact hok.frames f hfm hcl
        · intro hfl
          simp only [hf', hnf, Bool.false_or] at hfl
          unfold callsubFlag at hfl
          simp only [Bool.and_eq_true, decide_eq_true_eq, beq_iff_eq] at hfl
          refine ⟨?_, _, _, hcs', rfl, by simp only [hst]⟩
          simp only [hnx]
          rw [if_pos (by omega)]
          exact hfl.2
      · have hk3 : k ≠ .proto ∧ k ≠ .callsub ∧ k ≠ .callsub2 := ⟨hkp, fun h => hkc (Or.inl h), fun h => hkc (Or.inr h)⟩
        obtain ⟨hf', hsc, hcs'⟩ := execK_frames hk3 hex
        refine ⟨by simp only [hsc]; exact hok.scratch, ?_, fun h => by simp only [hf', hnf] at h; cases h⟩
        intro f hfm hcl
        rcases hcs' with hcs' | ⟨top, hcs'⟩
        · simp only [hcs'] at hfm; exact hok.frames f hfm hcl
        · exact hok.frames f (by rw [hcs']; exact List.mem_cons_of_mem _ hfm) hcl

theorem stOK_init (cfg : Cfg) (prog : List Nat) (pc : Nat) (pool : Int) (h : 256 ≤ cfg.lim.scratchLen) :
    StOK cfg prog (initState cfg pc pool) :=
  ⟨by simpa [initState, emptyMach] using h, by intro f hf; simp [initState, emptyMach] at hf,
   by intro hf; simp [initState, emptyMach] at hf⟩

theorem stOK_reach {sem : Sem} {cfg : Cfg} {prog : List Nat} {v : Nat} {st0 st : State} (hp : ProtoWF cfg v)
    (h0 : StOK cfg prog st0) (hr : Reach (concreteExec sem) cfg prog v st0 st) : StOK cfg prog st := by
  induction hr with
  | refl => exact h0
  | step _ _ hs ih => exact stOK_step hp ih hs

theorem opCost_noCrash {cfg : Cfg} {s : Spec} {prog : List Nat} {pc : Nat} {st : Stack} (hrow : rowSafe cfg s = true)
    (hlen : s.args.length ≤ st.length) (hsize : s.size = 0 ∨ pc + s.size ≤ prog.length) (hbytes : ∀ b ∈ prog, b < 256) :
    NoCrash (opCost cfg s prog pc st) := by
  unfold rowSafe rowSafeK at hrow
  simp only [Bool.and_eq_true, Bool.or_eq_true, Bool.not_eq_true', decide_eq_true_eq] at hrow
  obtain ⟨⟨⟨h1, h2⟩, _⟩, _⟩ := hrow
  have hfull : NoCrash (linCost (fullCost s) st) := by
    apply linCost_noCrash
    intro hc
    rcases h1 with h1 | h1
    · rw [hc] at h1; cases h1
    · simp only [fullCost]; omega
  intro e he
  unfold opCost at he
  split at he
  · rename_i e' he'; injection he with he; subst he; exact hfull _ he'
  · split at he
    · cases he
    · split at he
      · rename_i e' hd
        injection he with he; subst he
        unfold detsCost at hd
        split at hd
        · rename_i e'' he''; injection hd with hd; subst hd; exact hfull _ he''
        · split at hd
          · cases hd
          · split at hd
            · rename_i hfc
              rcases h2 with h2 | ⟨h2, h3⟩
              · rw [hfc] at h2; cases h2
              · split at hd
                · rename_i f hf
                  have hf256 : f < 256 := hbytes f (List.mem_of_getElem? hf)
                  have := List.all_eq_true.mp h3 f (List.mem_range.mpr hf256)
                  simp only [Bool.or_eq_true, Bool.not_eq_true', decide_eq_true_eq] at this
                  refine linCost_noCrash ?_ _ hd
                  intro hc
                  rcases this with this | this
                  · rw [hc] at this; cases this
                  · omega
                · rename_i hn
                  have := List.getElem?_eq_none_iff.mp hn
                  unfold immBase at this
                  split at h2 <;> split at this <;> omega
            · cases hd
      · split at he
        · cases he
        · injection he with he; subst he; simp

theorem postLoop_noCrash {lim : Limits} {ae : Bool} : ∀ (rets : List Nat) (w : List Val), rets.length ≤ w.length →
    NoCrash (postLoop lim ae rets w)
  | [], w, _ => by intro e he; unfold postLoop at he; cases he
  | r :: rs, [], h => by simp at h
  | r :: rs, v :: vs, h => by
    intro e he
    unfold postLoop at he
    split at he
    · split at he
      · cases he
      · injection he with he; subst he; simp
    · split at he
      · injection he with he; subst he; simp
      · exact postLoop_noCrash rs vs (by simpa using h) e he

theorem postCheck_noCrash {lim : Limits} {s : Spec} {pre : Nat} {stk : List Val} (hpre : s.args.length ≤ pre)
    (hae : alwaysExits s = true → 1 ≤ stk.length) : NoCrash (postCheck lim s pre stk) := by
  intro e he
  unfold postCheck at he
  split at he
  · cases he
  · split at he
    · injection he with he; subst he; simp
    · rename_i hh
      split at he
      · rename_i hlt
        exfalso
        by_cases ha : alwaysExits s = true
        · have h1 := hae ha
          unfold alwaysExits at ha
          have h2 : s.rets = [0] := by simpa using ha
          rw [h2] at hlt; simp only [List.length_cons, List.length_nil] at hlt; omega
        · simp only [ha, Bool.not_false, and_true] at hh
          omega
      · exact postLoop_noCrash _ _ (by simp; omega) e he

theorem execK_ret_stack {cx : Ctx} {m m' : Mach} (h : execK .ret cx m = .ok m') : m'.stack.length = 1 := by
  simp only [execK] at h
  split at h
  · injection h with h; subst h; rfl
  · cases h

/-- the skeleton and the modelled op bodies never hit a guard of the model: no `Err.crash` out of `step` -/
theorem step_no_crash {sem : Sem} {cfg : Cfg} {prog : List Nat} {v : Nat} {st : State}
    (hrows : ∀ op next s, getSpec cfg.tbl v op next = some s → rowSafe cfg s = true)
    (hsem : ∀ s stk imm, opKind s.fn = none → sem s stk imm ≠ .error .crash)
    (hbytes : ∀ b ∈ prog, b < 256) (hok : StOK cfg prog st) (hpc : st.pc < prog.length) :
    ∀ st', step (concreteExec sem) cfg prog v st ≠ .error (.crash, st') := by
  intro st' h
  unfold step at h
  split at h
  · rename_i hn; have := List.getElem?_eq_none_iff.mp hn; omega
  · split at h
    · injection h with h; injection h with h _; cases h
    · rename_i s hsp
      have hrow := hrows _ _ _ hsp
      split at h
      · injection h with h; injection h with h _; cases h
      · split at h
        · injection h with h; injection h with h _; cases h
        · rename_i hlen
          split at h
          · injection h with h; injection h with h _; cases h
          · rename_i htm
            split at h
            · injection h with h; injection h with h _; cases h
            · rename_i hsize
              split at h
              · rename_i e he
                injection h with h; injection h with h _; subst h
                exact opCost_noCrash hrow (by omega) (by omega) hbytes _ he rfl
              · split at h
                · injection h with h; injection h with h _; cases h
                · simp only [] at h
                  have hrow' := hrow
                  unfold rowSafe rowSafeK at hrow'
                  simp only [Bool.and_eq_true, Bool.or_eq_true, Bool.not_eq_true', decide_eq_true_eq, beq_iff_eq] at hrow'
                  obtain ⟨⟨_, hae⟩, hk⟩ := hrow'
                  split at h
                  · rename_i e hex
                    injection h with h; injection h with h _; subst h
                    unfold concreteExec at hex
                    cases hkind : opKind s.fn with
                    | none =>
                      rw [hkind] at hex
                      simp only [] at hex
                      split at hex
                      · cases hex
                      · rename_i e' hs'
                        injection hex with hex; subst hex
                        exact hsem s _ _ hkind hs'
                    | some k =>
                      rw [hkind] at hex hk
                      simp only [Bool.and_eq_true, Bool.or_eq_true, beq_iff_eq, decide_eq_true_eq] at hex hk
                      refine execK_no_crash (k := k) (cx := ⟨cfg, prog, st.pc, v⟩) ?_ ?_ hbytes ?_ hex
                      · exact typesMatch_cover _ _ _ hk.1 (by simpa [charge] using htm)
                      · rcases hk.2 with h0 | h0
                        · rw [h0]; simpa using hpc
                        · simp only; omega
                      · simpa [charge] using hok.machOK
                  · rename_i m' hex
                    split at h
                    · rename_i e hpost
                      injection h with h; injection h with h _; subst h
                      refine postCheck_noCrash (by omega) ?_ _ hpost rfl
                      intro hae'
                      rcases hae with hae | hae
                      · rcases hae with hae | hae
                        · rw [hae'] at hae; cases hae
                        · -- err never returns
                          unfold concreteExec at hex
                          rw [hae] at hex
                          simp [execK] at hex
                      · unfold concreteExec at hex
                        rw [hae] at hex
                        have := execK_ret_stack hex
                        omega
                    · split at h
                      · injection h with h; injection h with h _; cases h
                      · cases h

end Lemmas.AVMSafe
