import AlgoVerif.Lemmas.PlayerAttestCache
import AlgoVerif.Lemmas.PlayerAttestKeepStep
/-!
The cache frame (`PlayerAttestCache`) through one `Model.Player.handle`.

`CS P r q c₀ σ`: the player has not left round `r` behind (`r ≤ Round`), and while it is in round `r` at a period the router
keeps `q` for (`Period ≤ q + 1`), the cache of (r, q) is reachable from `c₀` by `cache` operations (`CMono`).
`CStep P σ σ'`: `CS` is carried from `σ` to `σ'` (for all r, q with `q + 1 < 2^64`, c₀).  Every `handle` is a `CStep`
(`handle_c`): ordinary operations by the frame, `stage`/`newPeriod` by `pmThreshold_c`, and the player's own changes of
(Round, Period) only go up.
-/
namespace AlgoVerif.Lemmas.PlayerAttest
open AlgoVerif.Model AlgoVerif.Model.Player AlgoVerif.Model.VoteTracker AlgoVerif.Spec.VoteTracker AlgoVerif.Lemmas.Player

variable {P : Params} {good : Nat → Nat → Nat → Vote → Bool} {G : Nat → Nat → PView → Prop}

def CS (P : Params) (r q : Nat) (c₀ : NextStatus) (σ : State) : Prop :=
  r ≤ σ.pl.round ∧ (σ.pl.round = r → σ.pl.period ≤ q + 1 → CMono c₀ (cacheRoot σ.root r q))

def CStep (P : Params) (σ σ' : State) : Prop :=
  ∀ r q c₀, q + 1 < 18446744073709551616 → CS P r q c₀ σ → CS P r q c₀ σ'

theorem CStep.refl (σ : State) : CStep P σ σ := fun _ _ _ _ h => h

theorem CStep.trans {σ σ₁ σ' : State} (h1 : CStep P σ σ₁) (h2 : CStep P σ₁ σ') : CStep P σ σ' :=
  fun r q c₀ hq h => h2 r q c₀ hq (h1 r q c₀ hq h)

theorem cok_of_guard {r q : Nat} {pl : PlayerF} (hq : q + 1 < 18446744073709551616) (h1 : pl.round = r)
    (h2 : pl.period ≤ q + 1) : COk P r q pl := by
  unfold COk keepRound keepPeriod
  rw [Nat.mod_eq_of_lt hq]
  simp only [decide_eq_true_eq, Bool.or_eq_true]
  exact ⟨by omega, Or.inl h2⟩

theorem cstep_of {σ σ' : State} (hpl : σ'.pl = σ.pl)
    (h : ∀ r q c₀, COk P r q σ.pl → CMono c₀ (cacheRoot σ.root r q) → CMono c₀ (cacheRoot σ'.root r q)) : CStep P σ σ' := by
  intro r q c₀ hq ⟨h1, h2⟩
  refine ⟨by rw [hpl]; exact h1, fun e1 e2 => ?_⟩
  rw [hpl] at e1 e2
  exact h r q c₀ (cok_of_guard hq e1 e2) (h2 e1 e2)

theorem cstep_ordinary {σ σ' : State} (ho : Ordinary P σ σ') (hpl : σ'.pl = σ.pl) : CStep P σ σ' :=
  cstep_of hpl (fun r q c₀ hok h0 => ho _ _ _ (cframe r q c₀) hok h0)

/-- `Ordinary` needs only (Round, Period) of the player -/
theorem cstep_ordinary' {σ σ' : State} (ho : Ordinary P σ σ') (hr : σ'.pl.round = σ.pl.round)
    (hp : σ'.pl.period = σ.pl.period) : CStep P σ σ' := by
  intro r q c₀ hq ⟨h1, h2⟩
  refine ⟨by rw [hr]; exact h1, fun e1 e2 => ?_⟩
  rw [hr] at e1; rw [hp] at e2
  exact ho _ _ _ (cframe r q c₀) (cok_of_guard hq e1 e2) (h2 e1 e2)

theorem cstep_pl {σ σ' : State} (hroot : σ'.root = σ.root) (hl : LexLe σ.pl σ'.pl) : CStep P σ σ' := by
  intro r q c₀ _ ⟨h1, h2⟩
  rcases hl with hl | ⟨ha, hb⟩
  · exact ⟨by omega, fun e1 _ => by omega⟩
  · exact ⟨by omega, fun e1 e2 => by rw [hroot]; exact h2 (by omega) (by omega)⟩

theorem pmThreshold_pl {σ σ' : State} {rt : Nat} {e : Thresh} {c : Option (Nat × Option PVote)}
    (h : pmThreshold P σ rt e = .ok (σ', c)) : σ'.pl = σ.pl := by
  have hok : COk P σ.pl.round 0 σ.pl := by
    refine ⟨keepRound_self P σ.pl, ?_⟩
    unfold keepPeriod; simp
  exact (pmThreshold_c (c₀ := cacheRoot σ.root σ.pl.round 0) hok (CMono.refl _) h).2

theorem cstep_thresh {σ σ' : State} {rt : Nat} {e : Thresh} {c : Option (Nat × Option PVote)}
    (h : pmThreshold P σ rt e = .ok (σ', c)) : CStep P σ σ' :=
  cstep_of (pmThreshold_pl h) (fun _ _ _ hok h0 => (pmThreshold_c hok h0 h).1)

/-! ### period and round changes -/

theorem enterPeriod_c {σ σ' : State} {src : Thresh} {target : Nat} {acts : List Action} (hlt : σ.pl.period < target)
    (h : enterPeriod P σ src target = .ok (σ', acts)) : CStep P σ σ' := by
  unfold enterPeriod at h
  split at h
  · cases h
  rename_i σ₁ acts₁ hpp
  have p1 := (f_partitionPolicy trivFrame trivial trivial hpp).2
  have c1 : CStep P σ σ₁ := cstep_ordinary (fun _ _ _ F hok h0 => (f_partitionPolicy F hok h0 hpp).1) p1
  split at h
  · cases h
  rename_i σ₂ c ht
  have p2 := pmThreshold_pl ht
  have c2 : CStep P σ σ₂ := c1.trans (cstep_thresh ht)
  have c3 : ∀ τ : State, τ.root = σ₂.root → τ.pl.round = σ₂.pl.round → τ.pl.period = target → CStep P σ τ := by
    intro τ h0 h1 h2
    exact c2.trans (cstep_pl h0 (Or.inr ⟨h1.symm, by rw [h2, p2, p1]; exact Nat.le_of_lt hlt⟩))
  simp only [] at h
  repeat' split at h
  all_goals (simp only [Except.ok.injEq, Prod.mk.injEq] at h; obtain ⟨rfl, _⟩ := h; exact c3 _ rfl rfl rfl)

/-- what the continuation of `enterRoundK` must satisfy -/
def KC (P : Params) (k : State → Thresh → Except Panic (State × List Action)) : Prop :=
  ∀ σ e σ' acts, k σ e = .ok (σ', acts) → CStep P σ σ'

theorem enterRoundK_c {k : State → Thresh → Except Panic (State × List Action)} (hk : KC P k)
    {σ σ' : State} {target : Nat} {acts : List Action} (hlt : σ.pl.round < target)
    (h : enterRoundK P k σ target = .ok (σ', acts)) : CStep P σ σ' := by
  unfold enterRoundK at h
  split at h
  · cases h
  rename_i σ₁ e hn
  have p1 := (f_pmNewRound trivFrame trivial trivial hn).2
  have c1 : CStep P σ σ₁ := cstep_ordinary (fun _ _ _ F hok h0 => (f_pmNewRound F hok h0 hn).1) p1
  simp only [] at h
  split at h
  · cases h
  rename_i σ₂ ok fr hf
  have c2 : CStep P σ σ₂ := by
    have cpl : ∀ pl' : PlayerF, σ₁.pl.round < pl'.round → CStep P σ₁ (⟨pl', σ₁.root⟩ : State) :=
      fun pl' hlt' => cstep_pl rfl (Or.inl hlt')
    have cf : ∀ τ : State, freshest P τ target = .ok (σ₂, ok, fr) → CStep P τ σ₂ := fun τ hf' =>
      cstep_ordinary (fun _ _ _ F hok h0 => (f_freshest F hok h0 hf').1) (f_freshest trivFrame trivial trivial hf').2
    refine CStep.trans (CStep.trans c1 (cpl _ ?_)) (cf _ hf)
    show σ₁.pl.round < target
    rw [p1]; exact hlt
  split at h
  · split at h
    · cases h
    rename_i σ₃ a4 hk4
    simp only [Except.ok.injEq, Prod.mk.injEq] at h; obtain ⟨rfl, _⟩ := h
    exact c2.trans (hk σ₂ fr _ _ hk4)
  · simp only [Except.ok.injEq, Prod.mk.injEq] at h; obtain ⟨rfl, _⟩ := h
    exact c2

theorem handleThresh_c : ∀ fuel, KC P (handleThresh P fuel) := by
  intro fuel
  induction fuel with
  | zero => intro σ e σ' acts h; simp [handleThresh] at h
  | succ fuel ih =>
    intro σ e σ' acts h
    simp only [handleThresh] at h
    split at h
    · simp only [Except.ok.injEq, Prod.mk.injEq] at h; obtain ⟨rfl, _⟩ := h
      exact CStep.refl _
    split at h
    · -- certThreshold
      split at h
      · cases h
      rename_i σ₁ c ht
      have p1 := pmThreshold_pl ht
      split at h
      · cases h
      rename_i σ₂ res hst
      have p2 := (f_staged trivFrame trivial trivial hst).2
      have c2 : CStep P σ σ₂ :=
        (cstep_thresh ht).trans (cstep_ordinary (fun _ _ _ F hok h0 => (f_staged F hok h0 hst).1) p2)
      split at h
      · split at h
        · cases h
        rename_i σ₃ hc
        have p3 := (f_credHistoryTouch trivFrame trivial trivial hc).2
        have c3 : CStep P σ σ₃ :=
          c2.trans (cstep_ordinary (fun _ _ _ F hok h0 => (f_credHistoryTouch F hok h0 hc).1) p3)
        split at h
        · cases h
        rename_i σ₄ as her
        simp only [Except.ok.injEq, Prod.mk.injEq] at h; obtain ⟨rfl, _⟩ := h
        exact c3.trans (enterRoundK_c ih (Nat.lt_succ_self _) her)
      · split at h
        · rename_i hlt
          split at h
          · cases h
          rename_i σ₃ as hep
          simp only [Except.ok.injEq, Prod.mk.injEq] at h; obtain ⟨rfl, _⟩ := h
          exact c2.trans (enterPeriod_c hlt hep)
        · simp only [Except.ok.injEq, Prod.mk.injEq] at h; obtain ⟨rfl, _⟩ := h
          exact c2
    split at h
    · -- softThreshold
      split at h
      · simp only [Except.ok.injEq, Prod.mk.injEq] at h; obtain ⟨rfl, _⟩ := h
        exact CStep.refl _
      split at h
      · rename_i hlt
        exact enterPeriod_c hlt h
      split at h
      · cases h
      rename_i σ₁ c ht
      have c1 := cstep_thresh (P := P) ht
      repeat' split at h
      all_goals (simp only [Except.ok.injEq, Prod.mk.injEq] at h; obtain ⟨rfl, _⟩ := h; exact c1)
    · -- nextThreshold
      split at h
      · simp only [Except.ok.injEq, Prod.mk.injEq] at h; obtain ⟨rfl, _⟩ := h
        exact CStep.refl _
      · rename_i hngt
        exact enterPeriod_c (by omega) h

/-! ### message events -/

theorem handlePayload_c {fuel : Nat} {σ σ' : State} {verified : Bool} {bad : Bad} {p : Payload} {own : Bool}
    {acts : List Action} (hQ : QRoot P good σ.root) (hp : PayloadOK σ verified bad p)
    (h : handlePayload P fuel σ verified bad p own = .ok (σ', acts)) : CStep P σ σ' := by
  unfold handlePayload at h
  split at h
  · cases h
  rename_i σ₁ ef hpm
  obtain ⟨q1, p1⟩ := pmPayload_spec P good hQ (fun a b c => (hp a b c).1) hpm
  have c1 : CStep P σ σ₁ := cstep_ordinary (fun _ _ _ F hok h0 => (f_pmPayload F hok h0 hpm).1) p1
  split at h
  · simp only [Except.ok.injEq, Prod.mk.injEq] at h; obtain ⟨rfl, _⟩ := h; exact c1
  split at h
  · simp only [Except.ok.injEq, Prod.mk.injEq] at h; obtain ⟨rfl, _⟩ := h; exact c1
  simp only [] at h
  split at h
  · split at h
    · cases h
    rename_i σ₂ ok fr hf
    obtain ⟨q2, hfr, p2⟩ := freshest_spec P good (res := (ok, fr)) q1 hf
    have c2 : CStep P σ σ₂ := c1.trans (cstep_ordinary (fun _ _ _ F hok h0 => (f_freshest F hok h0 hf).1) p2)
    split at h
    · rename_i hcond
      simp only [Bool.and_eq_true, decide_eq_true_eq] at hcond
      obtain ⟨⟨_, hk2⟩, _⟩ := hcond
      split at h
      · cases h
      rename_i σ₃ hc
      obtain ⟨q3, p3⟩ := credHistoryTouch_spec P good q2 hc
      have c3 : CStep P σ σ₃ := c2.trans (cstep_ordinary (fun _ _ _ F hok h0 => (f_credHistoryTouch F hok h0 hc).1) p3)
      split at h
      · cases h
      rename_i σ₄ as her
      have hfround : fr.cert.round = σ₃.pl.round := by
        obtain ⟨hr, _⟩ := hfr.1 (by rw [hk2]; decide)
        show fr.round = σ₃.pl.round
        rw [hr, p3, p2]
      have hlt : σ₃.pl.round < fr.cert.round + 1 := by rw [hfround]; exact Nat.lt_succ_self _
      simp only [Except.ok.injEq, Prod.mk.injEq] at h; obtain ⟨rfl, _⟩ := h
      exact c3.trans (enterRoundK_c (handleThresh_c fuel) hlt her)
    · simp only [Except.ok.injEq] at h
      have e1 := (payloadCont_a σ₂ ef (payloadActs σ₁.pl.round p own ef) (payloadActs_atts _ _ _ _)).1
      rw [h] at e1
      simp only [] at e1
      subst e1
      exact c2
  · simp only [Except.ok.injEq] at h
    have e1 := (payloadCont_a σ₁ ef (payloadActs σ₁.pl.round p own ef) (payloadActs_atts _ _ _ _)).1
    rw [h] at e1
    simp only [] at e1
    subst e1
    exact c1

theorem cstep_congr_left {σ τ σ' : State} (hr : τ.root = σ.root) (h1 : τ.pl.round = σ.pl.round)
    (h2 : τ.pl.period = σ.pl.period) (h : CStep P τ σ') : CStep P σ σ' :=
  (cstep_pl (σ' := τ) hr (Or.inr ⟨h1.symm, Nat.le_of_eq h2.symm⟩)).trans h

theorem pvoteFinish_c {fuel : Nat} {verified : Bool} {taskIndex : Nat} {tail : Option Payload} {σ σ' : State}
    {acts acts' : List Action} {done : Bool} (hQ : QRoot P good σ.root)
    (h : pvoteFinish P fuel verified taskIndex tail σ acts done = .ok (σ', acts')) : CStep P σ σ' := by
  unfold pvoteFinish at h
  simp only [] at h
  have hr : (if verified = true then pendingPop σ.pl taskIndex else (σ.pl, tail)).1.round = σ.pl.round := by
    split <;> rfl
  have hp : (if verified = true then pendingPop σ.pl taskIndex else (σ.pl, tail)).1.period = σ.pl.period := by
    split <;> rfl
  have hsame : ∀ τ : State, τ.root = σ.root → τ.pl.round = σ.pl.round → τ.pl.period = σ.pl.period → CStep P σ τ :=
    fun τ h0 h1 h2 => cstep_congr_left h0 h1 h2 (CStep.refl _)
  split at h
  · simp only [Except.ok.injEq, Prod.mk.injEq] at h; obtain ⟨rfl, _⟩ := h
    exact hsame _ rfl hr hp
  split at h
  · simp only [Except.ok.injEq, Prod.mk.injEq] at h; obtain ⟨rfl, _⟩ := h
    exact hsame _ rfl hr hp
  split at h
  · cases h
  rename_i σ₁ suffix hpp
  have hq : ∀ pl', QRoot P good (⟨pl', σ.root⟩ : State).root := fun _ => hQ
  have := handlePayload_c (hq _) (by intro hv; cases hv) hpp
  simp only [Except.ok.injEq, Prod.mk.injEq] at h; obtain ⟨rfl, _⟩ := h
  exact cstep_congr_left (τ := { σ with pl := (if verified = true then pendingPop σ.pl taskIndex else (σ.pl, tail)).1 })
    rfl hr hp this

theorem pvoteGo_c {fuel : Nat} {verified : Bool} {v : PVote} {taskIndex : Nat} {tail : Option Payload} {ef : PMVote}
    {σ σ' : State} {acts : List Action} (hQ : QRoot P good σ.root)
    (h : pvoteGo P fuel verified v taskIndex tail ef σ = .ok (σ', acts)) : CStep P σ σ' := by
  unfold pvoteGo at h
  split at h
  · have hq : ∀ pl', QRoot P good (⟨pl', σ.root⟩ : State).root := fun _ => hQ
    simp only [] at h
    exact cstep_congr_left (τ := { σ with pl := (pendingPush σ.pl tail).1 }) rfl rfl rfl (pvoteFinish_c (hq _) h)
  split at h
  · exact pvoteFinish_c hQ h
  · exact pvoteFinish_c hQ h
  · cases h

theorem handlePVote_c {fuel : Nat} {σ σ' : State} {verified : Bool} {bad : Bad} {v : PVote} {taskIndex : Nat}
    {tail : Option Payload} {acts : List Action} (hQ : QRoot P good σ.root)
    (h : handlePVote P fuel σ verified bad v taskIndex tail = .ok (σ', acts)) : CStep P σ σ' := by
  unfold handlePVote at h
  split at h
  · cases h
  rename_i σ₁ ef hpm
  have h1 : QRoot P good σ₁.root ∧ σ₁.pl = σ.pl ∧ Ordinary P σ σ₁ := by
    split at hpm
    · exact ⟨(pmVoteVerified_spec P good hQ hpm).1, (pmVoteVerified_spec P good hQ hpm).2,
        fun _ _ _ F hok h0 => (f_pmVoteVerified F hok h0 hpm).1⟩
    · exact ⟨(pmVotePresent_spec P good hQ hpm).1, (pmVotePresent_spec P good hQ hpm).2,
        fun _ _ _ F hok h0 => (f_pmVotePresent F hok h0 hpm).1⟩
  obtain ⟨q1, p1, o1⟩ := h1
  have c1 : CStep P σ σ₁ := cstep_ordinary o1 p1
  split at h
  · exact c1.trans (pvoteFinish_c q1 h)
  · repeat' split at h
    all_goals first
      | exact c1.trans (pvoteFinish_c q1 h)
      | exact c1.trans (pvoteGo_c q1 h)
  · exact c1.trans (pvoteGo_c q1 h)

/-! ### the top level -/

/-- **handle_c.**  One `handle` changes the next-threshold cache of every (round, period) the routers keep by `cache`
operations only. -/
theorem handle_c (hs : GSpec P good G) (hset : ∀ r p vw, G r p vw → vw.staging ≠ 0 → vw.set = true)
    {σ σ' : State} {ev : Player.Event} {acts : List Action}
    (hQ : QRoot P good σ.root) (hG : GRoot G σ.root) (heva : EventOKA σ ev)
    (h : Player.handle P σ ev = .ok (σ', acts)) : CStep P σ σ' := by
  have hQ₀ := QRoot_updσ P good 0 hQ
  have hG₀ := GRoot_updσ hs 0 hG
  have c0 : CStep P σ ({ σ with root := σ.root.upd P σ.pl 0 } : State) :=
    cstep_ordinary (fun _ _ _ F hok h0 => F.upd σ.pl σ.root 0 hok h0) rfl
  unfold Player.handle at h
  simp only [] at h
  cases ev with
  | vote verified bad r p s x =>
    simp only [] at h
    split at h
    · cases h
    rename_i σ₁ ef hv
    have p1 := (f_vaVote trivFrame (σ := ⟨_, _⟩) trivial trivial hv).2
    have c1 : CStep P σ σ₁ := c0.trans (cstep_ordinary (fun _ _ _ F hok h0 => (f_vaVote F hok h0 hv).1) p1)
    split at h
    · simp only [Except.ok.injEq, Prod.mk.injEq] at h; obtain ⟨rfl, _⟩ := h; exact c1
    · simp only [Except.ok.injEq, Prod.mk.injEq] at h; obtain ⟨rfl, _⟩ := h; exact c1
    · split at h <;> (simp only [Except.ok.injEq, Prod.mk.injEq] at h; obtain ⟨rfl, _⟩ := h; exact c1)
    · split at h
      · simp only [Except.ok.injEq, Prod.mk.injEq] at h; obtain ⟨rfl, _⟩ := h; exact c1
      split at h
      · cases h
      rename_i σ₂ a1 ht
      simp only [Except.ok.injEq, Prod.mk.injEq] at h; obtain ⟨rfl, _⟩ := h
      exact c1.trans (handleThresh_c _ _ _ _ _ ht)
  | pvote verified bad v taskIndex tail =>
    exact c0.trans (handlePVote_c (σ := ⟨_, _⟩) hQ₀ h)
  | payload verified bad p own =>
    exact c0.trans (handlePayload_c (σ := ⟨_, _⟩) hQ₀ heva h)
  | bundle verified bad r p s value votes eqs =>
    simp only [] at h
    split at h
    · cases h
    rename_i σ₁ ef hv
    have p1 := (f_vaBundle trivFrame (σ := ⟨_, _⟩) trivial trivial hv).2
    have c1 : CStep P σ σ₁ := c0.trans (cstep_ordinary (fun _ _ _ F hok h0 => (f_vaBundle F hok h0 hv).1) p1)
    split at h
    · simp only [Except.ok.injEq, Prod.mk.injEq] at h; obtain ⟨rfl, _⟩ := h; exact c1
    · simp only [Except.ok.injEq, Prod.mk.injEq] at h; obtain ⟨rfl, _⟩ := h; exact c1
    · simp only [Except.ok.injEq, Prod.mk.injEq] at h; obtain ⟨rfl, _⟩ := h; exact c1
    · split at h
      · cases h
      rename_i σ₂ a1 ht
      simp only [Except.ok.injEq, Prod.mk.injEq] at h; obtain ⟨rfl, _⟩ := h
      exact c1.trans (handleThresh_c _ _ _ _ _ ht)
  | timeout entropy =>
    simp only [] at h
    split at h
    · split at h
      · cases h
      rename_i σ₁ acts₁ hsv
      obtain ⟨_, _, ⟨e1, e2, _, _⟩, _⟩ := issueSoftVote_a hs (σ := ⟨_, _⟩) hQ₀ hG₀ hsv
      simp only [Except.ok.injEq, Prod.mk.injEq] at h; obtain ⟨rfl, _⟩ := h
      have o1 : Ordinary P ({ σ with root := σ.root.upd P σ.pl 0 } : State)
          ({ σ₁ with pl := { σ₁.pl with step := 2 } } : State) := fun _ _ _ F hok h0 => by
        have := f_issueSoftVote F hok h0 hsv
        exact this
      exact c0.trans (cstep_ordinary' o1 e1.symm e2.symm)
    have hq : ∀ pl', QRoot P good (⟨pl', σ.root.upd P σ.pl 0⟩ : State).root := fun _ => hQ₀
    have hgg : ∀ pl', GRoot G (⟨pl', σ.root.upd P σ.pl 0⟩ : State).root := fun _ => hG₀
    split at h
    · obtain ⟨_, _, e1, e2, _⟩ := issueNextVote_a hs (hq _) (hgg _) h
      have o1 : Ordinary P ({ σ with root := σ.root.upd P σ.pl 0 } : State) σ' := ordinary_next h rfl rfl rfl
      exact c0.trans (cstep_ordinary' o1 e1 e2)
    split at h
    · obtain ⟨_, _, e1, e2, _⟩ := issueNextVote_a hs (hq _) (hgg _) h
      have o1 : Ordinary P ({ σ with root := σ.root.upd P σ.pl 0 } : State) σ' := ordinary_next h rfl rfl rfl
      exact c0.trans (cstep_ordinary' o1 e1 e2)
    · simp only [Except.ok.injEq, Prod.mk.injEq] at h; obtain ⟨rfl, _⟩ := h
      exact c0.trans (cstep_ordinary' (fun _ _ _ _ _ h0 => h0) rfl rfl)
  | fastTimeout entropy =>
    simp only [] at h
    split at h
    · simp only [Except.ok.injEq, Prod.mk.injEq] at h; obtain ⟨rfl, _⟩ := h
      exact c0.trans (cstep_ordinary' (fun _ _ _ _ _ h0 => h0) rfl rfl)
    · have hq : ∀ pl', QRoot P good (⟨pl', σ.root.upd P σ.pl 0⟩ : State).root := fun _ => hQ₀
      have hgg : ∀ pl', GRoot G (⟨pl', σ.root.upd P σ.pl 0⟩ : State).root := fun _ => hG₀
      obtain ⟨_, _, _, _, _, e1, e2, _⟩ := issueFastVote_a hs hset (hq _) (hgg _) h
      have o1 : Ordinary P ({ σ with root := σ.root.upd P σ.pl 0 } : State) σ' := ordinary_fast h rfl rfl rfl
      exact c0.trans (cstep_ordinary' o1 e1 e2)
  | roundInterruption r =>
    exact c0.trans (enterRoundK_c (handleThresh_c _) (σ := ⟨_, _⟩) heva h)
  | checkpoint r p s err =>
    simp only [Except.ok.injEq, Prod.mk.injEq] at h; obtain ⟨rfl, _⟩ := h
    exact c0.trans (cstep_ordinary' (fun _ _ _ _ _ h0 => h0) rfl rfl)

end AlgoVerif.Lemmas.PlayerAttest
