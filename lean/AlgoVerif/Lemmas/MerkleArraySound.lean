/-
Soundness lemmas for C37 (core Lean only): one `partialLayer.up` step run backwards against the honest
layer (fixed-offset encoding), the `verifyPath` loop, and error-channel facts.
-/
import AlgoVerif.Lemmas.MerkleArray
namespace Lemmas.MerkleArray
open Model.MerkleArray

/-! ### soundness -/

/-- every digest of the layer has at most one pre-image under `H` -/
def UniquePre (c : Cfg) (L : List Bytes) : Prop := ∀ h ∈ L, ∀ x y, c.H x = h → c.H y = h → x = y

theorem nodeFor_back (c : Cfg) (hf : c.fixedOff = true) (hlen : ∀ x, (c.H x).length = c.d)
    (hnz : ∀ x, c.H x ≠ zeros c.d)
    (L : List Bytes) (hs : Sized c L) (hup : UniquePre c (upPure c L))
    (p : Nat) (h s n : Bytes) (hh : ∃ x, h = c.H x)
    (hn : nodeFor c p h s = some n) (hgood : (upPure c L)[p / 2]? = some n) :
    L[p]? = some h ∧ ((∃ y, s = c.H y) → L[p ^^^ 1]? = some s) := by
  obtain ⟨xh, rfl⟩ := hh
  have hhl : (c.H xh).length = c.d := hlen xh
  have hget := upPure_get c L (p / 2)
  rw [hgood] at hget
  cases ha : L[2 * (p / 2)]? with
  | none => rw [ha] at hget; simp at hget
  | some a =>
    rw [ha] at hget
    simp only [Option.map_some, Option.some.injEq] at hget
    have hal : a.length = c.d := hs a (List.mem_of_getElem? ha)
    have hmem : n ∈ upPure c L := List.mem_of_getElem? hgood
    by_cases he : p % 2 = 0
    · have e2 : 2 * (p / 2) = p := by omega
      simp only [nodeFor, he, if_true] at hn
      rw [nodeHash_left c _ _ hhl] at hn
      simp only [Option.some.injEq] at hn
      have hpre := hup n hmem _ _ hn hget.symm
      have hpre2 := List.append_cancel_left hpre
      have ⟨h1, h2⟩ := List.append_inj hpre2 (by rw [hhl, hal])
      rw [e2] at ha
      refine ⟨by rw [ha, h1], ?_⟩
      rintro ⟨y, rfl⟩
      rw [xor_one_even p he]
      rw [fit_self _ _ (hlen y), e2] at h2
      cases hb : L[p + 1]? with
      | none =>
        have : sibOf L (p + 1) = [] := by simp [sibOf, hb]
        rw [this, fit_nil] at h2
        exact absurd h2 (hnz y)
      | some b =>
        have hbl : b.length = c.d := hs b (List.mem_of_getElem? hb)
        rw [sibOf_of_get _ _ _ hb, fit_self _ _ hbl] at h2
        rw [h2]
    · have ho : p % 2 = 1 := by omega
      have e2 : 2 * (p / 2) = p - 1 := by omega
      have e3 : 2 * (p / 2) + 1 = p := by omega
      simp only [nodeFor, he, if_false] at hn
      obtain ⟨X, hXl, hX⟩ := pairBytes_fixed_right c s (c.H xh) hf hhl
      simp only [nodeHash, hX, Option.some.injEq] at hn
      have hpre := hup n hmem _ _ hn hget.symm
      have hpre2 := List.append_cancel_left hpre
      have ⟨h1, h2⟩ := List.append_inj hpre2 (by rw [hXl, hal])
      rw [e3] at h2
      have hfirst : L[p]? = some (c.H xh) := by
        cases hb : L[p]? with
        | none =>
          have : sibOf L p = [] := by simp [sibOf, hb]
          rw [this, fit_nil] at h2
          exact absurd h2 (hnz xh)
        | some b =>
          have hbl : b.length = c.d := hs b (List.mem_of_getElem? hb)
          rw [sibOf_of_get _ _ _ hb, fit_self _ _ hbl] at h2
          rw [h2]
      refine ⟨hfirst, ?_⟩
      rintro ⟨y, rfl⟩
      rw [xor_one_odd p ho, ← e2, ha]
      have hl := pairBytes_left c (c.H y) (c.H xh) (hlen y)
      rw [hX, fit_self _ _ hhl] at hl
      simp only [Option.some.injEq] at hl
      have ⟨h3, _⟩ := List.append_inj hl (by rw [hXl, hlen y])
      rw [← h1, h3]


def Good (L : List Bytes) (it : Item) : Prop := L[it.pos]? = some it.hash
def IsHash (c : Cfg) (it : Item) : Prop := ∃ x, it.hash = c.H x
def IsNode (c : Cfg) (it : Item) : Prop := ∃ b, it.hash = c.H (nodeTag ++ b)

theorem nodeFor_isNode (c : Cfg) (p : Nat) (h s n : Bytes) (hn : nodeFor c p h s = some n) :
    ∃ b, n = c.H (nodeTag ++ b) := by
  simp only [nodeFor, nodeHash] at hn
  split at hn
  · split at hn
    · simp at hn
    · simp only [Option.some.injEq] at hn; exact ⟨_, hn.symm⟩
  · split at hn
    · simp at hn
    · simp only [Option.some.injEq] at hn; exact ⟨_, hn.symm⟩

theorem upV_back (c : Cfg) (hf : c.fixedOff = true) (hlen : ∀ x, (c.H x).length = c.d)
    (hnz : ∀ x, c.H x ≠ zeros c.d) (L : List Bytes) (hs : Sized c L) (hup : UniquePre c (upPure c L)) :
    ∀ (pl : List Item) (hints : List Bytes) (pl' : List Item) (hints' : List Bytes),
      upV c pl hints = .ok (pl', hints') → (∀ it ∈ pl, IsHash c it) →
      (∀ it' ∈ pl', Good (upPure c L) it') →
      (∀ it ∈ pl, Good L it) ∧ (∀ it' ∈ pl', IsNode c it') ∧ (pl ≠ [] → pl' ≠ [])
  | [], hints, pl', hints', h, _, _ => by
    simp only [upV, Except.ok.injEq, Prod.mk.injEq] at h
    obtain ⟨rfl, _⟩ := h
    simp
  | [it], hints, pl', hints', h, hh, hg => by
    cases hints with
    | nil => simp [upV] at h
    | cons s hs' =>
      simp only [upV] at h
      split at h
      · simp at h
      · rename_i n hn
        simp only [Except.ok.injEq, Prod.mk.injEq] at h
        obtain ⟨rfl, _⟩ := h
        have hg0 := hg ⟨it.pos / 2, n⟩ (by simp)
        have := nodeFor_back c hf hlen hnz L hs hup it.pos it.hash s n (hh it (by simp)) hn hg0
        refine ⟨by simpa [Good] using this.1, ?_, by simp⟩
        intro it' hit'
        simp only [List.mem_singleton] at hit'
        subst hit'
        exact nodeFor_isNode c _ _ _ _ hn
  | it :: it2 :: rest, hints, pl', hints', h, hh, hg => by
    simp only [upV] at h
    split at h
    · rename_i hpair
      split at h
      · simp at h
      · rename_i n hn
        split at h
        · simp at h
        · rename_i r hr
          simp only [Except.ok.injEq, Prod.mk.injEq] at h
          obtain ⟨rfl, rfl⟩ := h
          have hg0 := hg ⟨it.pos / 2, n⟩ (by simp)
          have hb := nodeFor_back c hf hlen hnz L hs hup it.pos it.hash it2.hash n (hh it (by simp)) hn hg0
          have ih := upV_back c hf hlen hnz L hs hup rest hints r.1 r.2 (by rw [hr])
            (fun x hx => hh x (by simp [hx])) (fun x hx => hg x (by simp [hx]))
          refine ⟨?_, ?_, by simp⟩
          · intro x hx
            simp only [List.mem_cons] at hx
            rcases hx with rfl | rfl | hx
            · exact hb.1
            · have := hb.2 (hh x (by simp))
              simp only [Good, hpair]; exact this
            · exact ih.1 x hx
          · intro x hx
            simp only [List.mem_cons] at hx
            rcases hx with rfl | hx
            · exact nodeFor_isNode c _ _ _ _ hn
            · exact ih.2.1 x hx
    · rename_i hpair
      cases hints with
      | nil => simp at h
      | cons s hs' =>
        simp only at h
        split at h
        · simp at h
        · rename_i n hn
          split at h
          · simp at h
          · rename_i r hr
            simp only [Except.ok.injEq, Prod.mk.injEq] at h
            obtain ⟨rfl, rfl⟩ := h
            have hg0 := hg ⟨it.pos / 2, n⟩ (by simp)
            have hb := nodeFor_back c hf hlen hnz L hs hup it.pos it.hash s n (hh it (by simp)) hn hg0
            have ih := upV_back c hf hlen hnz L hs hup (it2 :: rest) hs' r.1 r.2 (by rw [hr])
              (fun x hx => hh x (by simp at hx ⊢; right; exact hx)) (fun x hx => hg x (by simp [hx]))
            refine ⟨?_, ?_, by simp⟩
            · intro x hx
              rw [List.mem_cons] at hx
              rcases hx with rfl | hx
              · exact hb.1
              · exact ih.1 x hx
            · intro x hx
              simp only [List.mem_cons] at hx
              rcases hx with rfl | hx
              · exact nodeFor_isNode c _ _ _ _ hn
              · exact ih.2.1 x hx


theorem upV_out (c : Cfg) : ∀ (pl : List Item) (hints : List Bytes) (pl' : List Item) (hints' : List Bytes),
    upV c pl hints = .ok (pl', hints') → (∀ it' ∈ pl', IsNode c it') ∧ (pl ≠ [] → pl' ≠ [])
  | [], hints, pl', hints', h => by
    simp only [upV, Except.ok.injEq, Prod.mk.injEq] at h
    obtain ⟨rfl, _⟩ := h
    simp
  | [it], hints, pl', hints', h => by
    cases hints with
    | nil => simp [upV] at h
    | cons s hs' =>
      simp only [upV] at h
      split at h
      · simp at h
      · rename_i n hn
        simp only [Except.ok.injEq, Prod.mk.injEq] at h
        obtain ⟨rfl, _⟩ := h
        refine ⟨?_, by simp⟩
        intro it' hit'
        simp only [List.mem_singleton] at hit'
        subst hit'
        exact nodeFor_isNode c _ _ _ _ hn
  | it :: it2 :: rest, hints, pl', hints', h => by
    simp only [upV] at h
    split at h
    · split at h
      · simp at h
      · rename_i n hn
        split at h
        · simp at h
        · rename_i r hr
          simp only [Except.ok.injEq, Prod.mk.injEq] at h
          obtain ⟨rfl, rfl⟩ := h
          have ih := upV_out c rest hints r.1 r.2 (by rw [hr])
          refine ⟨?_, by simp⟩
          intro x hx
          simp only [List.mem_cons] at hx
          rcases hx with rfl | hx
          · exact nodeFor_isNode c _ _ _ _ hn
          · exact ih.1 x hx
    · cases hints with
      | nil => simp at h
      | cons s hs' =>
        simp only at h
        split at h
        · simp at h
        · rename_i n hn
          split at h
          · simp at h
          · rename_i r hr
            simp only [Except.ok.injEq, Prod.mk.injEq] at h
            obtain ⟨rfl, rfl⟩ := h
            have ih := upV_out c (it2 :: rest) hs' r.1 r.2 (by rw [hr])
            refine ⟨?_, by simp⟩
            intro x hx
            simp only [List.mem_cons] at hx
            rcases hx with rfl | hx
            · exact nodeFor_isNode c _ _ _ _ hn
            · exact ih.1 x hx

theorem isNode_isHash (c : Cfg) (it : Item) (h : IsNode c it) : IsHash c it := by
  obtain ⟨b, hb⟩ := h; exact ⟨_, hb⟩

theorem verifyLoop_back (c : Cfg) (hf : c.fixedOff = true) (hlen : ∀ x, (c.H x).length = c.d)
    (hnz : ∀ x, c.H x ≠ zeros c.d) (lv : List (List Bytes)) (hc : Chain c lv) (hsz : AllSized c lv)
    (hup : ∀ L ∈ lv, UniquePre c L)
    (hleaf : ∀ L, lv[0]? = some L → ∀ h ∈ L, ∀ b, h ≠ c.H (nodeTag ++ b))
    (root : Bytes) (hroot : lv[lv.length - 1]? = some [root]) :
    ∀ (fuel l : Nat) (pl : List Item) (hints : List Bytes) (l' : Nat) (plf : List Item),
      verifyLoop c fuel l pl hints = .ok (l', plf) →
      (∃ it rest, plf = it :: rest ∧ it.pos = 0 ∧ it.hash = root) →
      pl ≠ [] → (∀ it ∈ pl, IsHash c it) →
      ∃ j L, lv[j]? = some L ∧ j + (l' - l) = lv.length - 1 ∧ l ≤ l' ∧ ∀ it ∈ pl, Good L it := by
  have hstop : ∀ (l : Nat) (pl : List Item) (l' : Nat) (plf : List Item), pl.length ≤ 1 →
      (l, pl) = (l', plf) → (∃ it rest, plf = it :: rest ∧ it.pos = 0 ∧ it.hash = root) → pl ≠ [] →
      ∃ j L, lv[j]? = some L ∧ j + (l' - l) = lv.length - 1 ∧ l ≤ l' ∧ ∀ it ∈ pl, Good L it := by
    intro l pl l' plf hl e hfin hne
    simp only [Prod.mk.injEq] at e
    obtain ⟨rfl, rfl⟩ := e
    obtain ⟨it, rest, rfl, hp, hh⟩ := hfin
    cases rest with
    | cons a t => simp at hl
    | nil =>
      refine ⟨lv.length - 1, [root], hroot, by omega, Nat.le_refl _, ?_⟩
      intro x hx
      simp only [List.mem_singleton] at hx
      subst hx
      simp [Good, hp, hh]
  intro fuel
  induction fuel with
  | zero =>
    intro l pl hints l' plf h hfin hne _
    simp only [verifyLoop] at h
    split at h
    · rename_i hcond
      simp only [Except.ok.injEq] at h
      exact hstop l pl l' plf hcond.2 h hfin hne
    · simp at h
  | succ f ih =>
    intro l pl hints l' plf h hfin hne hh
    simp only [verifyLoop] at h
    split at h
    · rename_i hcond
      simp only [Except.ok.injEq] at h
      exact hstop l pl l' plf hcond.2 h hfin hne
    · split at h
      · simp at h
      · rename_i r hr
        have hout := upV_out c pl hints r.1 r.2 (by rw [hr])
        have hne' := hout.2 hne
        obtain ⟨j', L', hL', harith, hle, hgood⟩ := ih (l + 1) r.1 r.2 l' plf h hfin hne'
          (fun x hx => isNode_isHash c x (hout.1 x hx))
        cases j' with
        | zero =>
          exfalso
          cases hr1 : r.1 with
          | nil => exact hne' hr1
          | cons x t =>
            have hx : x ∈ r.1 := by rw [hr1]; simp
            obtain ⟨b, hb⟩ := hout.1 x hx
            have hg := hgood x hx
            exact hleaf L' hL' x.hash (List.mem_of_getElem? hg) b hb
        | succ j =>
          have hjlt : j < lv.length := by
            have := (List.getElem?_eq_some_iff.mp hL').1; omega
          have hL : lv[j]? = some lv[j] := List.getElem?_eq_getElem hjlt
          have hstep := chain_step c lv j lv[j] L' hc hL hL'
          have hLmem : lv[j] ∈ lv := List.getElem_mem hjlt
          have hL'mem : L' ∈ lv := List.mem_of_getElem? hL'
          have hback := upV_back c hf hlen hnz lv[j] (hsz _ hLmem) (by rw [← hstep.1]; exact hup L' hL'mem)
            pl hints r.1 r.2 (by rw [hr]) hh (by rw [← hstep.1]; exact hgood)
          exact ⟨j, lv[j], hL, by omega, by omega, hback.1⟩


theorem insertItem_mem (x : Item) : ∀ (l : List Item) (y : Item), y ∈ insertItem x l ↔ y = x ∨ y ∈ l
  | [], y => by simp [insertItem]
  | a :: t, y => by
    by_cases h : x.pos ≤ a.pos
    · simp [insertItem, h]
    · simp only [insertItem, h, if_false, List.mem_cons, insertItem_mem x t y]
      constructor
      · rintro (h1 | h1 | h1) <;> simp [h1]
      · rintro (h1 | h1 | h1) <;> simp [h1]

theorem sortItems_mem : ∀ (l : List Item) (y : Item), y ∈ sortItems l ↔ y ∈ l
  | [], y => by simp [sortItems]
  | a :: t, y => by simp [sortItems, insertItem_mem, sortItems_mem t y]

theorem upV_err_ne_ok (c : Cfg) : ∀ (pl : List Item) (hints : List Bytes) (e : VRes),
    upV c pl hints = .error e → e ≠ .ok
  | [], hints, e, h => by simp [upV] at h
  | [it], hints, e, h => by
    cases hints with
    | nil => simp [upV] at h; subst h; simp
    | cons s hs' =>
      simp only [upV] at h
      split at h
      · simp at h; subst h; simp
      · simp at h
  | it :: it2 :: rest, hints, e, h => by
    simp only [upV] at h
    split at h
    · split at h
      · simp at h; subst h; simp
      · split at h
        · rename_i e' he'
          simp only [Except.error.injEq] at h; subst h
          exact upV_err_ne_ok c rest hints _ he'
        · simp at h
    · cases hints with
      | nil => simp at h; subst h; simp
      | cons s hs' =>
        simp only at h
        split at h
        · simp at h; subst h; simp
        · split at h
          · rename_i e' he'
            simp only [Except.error.injEq] at h; subst h
            exact upV_err_ne_ok c (it2 :: rest) hs' _ he'
          · simp at h

theorem verifyLoop_err_ne_ok (c : Cfg) : ∀ (fuel l : Nat) (pl : List Item) (hints : List Bytes) (e : VRes),
    verifyLoop c fuel l pl hints = .error e → e ≠ .ok
  | 0, l, pl, hints, e, h => by
    simp only [verifyLoop] at h
    split at h
    · simp at h
    · simp at h; subst h; simp
  | f + 1, l, pl, hints, e, h => by
    simp only [verifyLoop] at h
    split at h
    · simp at h
    · split at h
      · rename_i e' he'
        simp only [Except.error.injEq] at h; subst h
        exact upV_err_ne_ok c pl hints _ he'
      · exact verifyLoop_err_ne_ok c f _ _ _ e h

theorem verifyLoop_isHash (c : Cfg) : ∀ (fuel l : Nat) (pl : List Item) (hints : List Bytes) (l' : Nat) (plf : List Item),
    verifyLoop c fuel l pl hints = .ok (l', plf) → (∀ it ∈ pl, IsHash c it) → ∀ it ∈ plf, IsHash c it
  | 0, l, pl, hints, l', plf, h, hh => by
    simp only [verifyLoop] at h
    split at h
    · simp only [Except.ok.injEq, Prod.mk.injEq] at h; obtain ⟨_, rfl⟩ := h; exact hh
    · simp at h
  | f + 1, l, pl, hints, l', plf, h, hh => by
    simp only [verifyLoop] at h
    split at h
    · simp only [Except.ok.injEq, Prod.mk.injEq] at h; obtain ⟨_, rfl⟩ := h; exact hh
    · split at h
      · simp at h
      · rename_i r hr
        have hout := upV_out c pl hints r.1 r.2 (by rw [hr])
        exact verifyLoop_isHash c f _ _ _ l' plf h (fun x hx => isNode_isHash c x (hout.1 x hx))

end Lemmas.MerkleArray
