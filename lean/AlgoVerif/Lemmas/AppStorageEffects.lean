import AlgoVerif.Lemmas.AppStorageDirty
/-! Lemmas about Model.AppStorage: every effect (one opcode) preserves the state invariant `Inv` and the write-budget
invariant `GInv`; lifted to scripts. -/
namespace AlgoVerif.Model.AppStorage

attribute [local irreducible] M64 add64 sub64

/-- the invariant of the storage state: box counters exact (`BoxInv`), every global / local store consistent (`StoreOK`),
    local schemas far from 2^64, nothing stored under application ids not yet assigned -/
structure Inv (P : Proto) (n : Nat) (σ : State) : Prop where
  box : BoxInv P n σ
  apps_ok : ∀ a app, σ.apps a = some app → StoreOK app.g ∧ app.lschema.small
  locals_ok : ∀ u a s, σ.locals u a = some s → StoreOK s
  fresh : ∀ a, σ.nextApp ≤ a → σ.apps a = none ∧ σ.boxes a = []

theorem Inv.mono {P : Proto} {n m : Nat} {σ : State} (h : Inv P n σ) (hnm : n ≤ m) : Inv P m σ :=
  ⟨h.box.mono hnm, h.apps_ok, h.locals_ok, h.fresh⟩

theorem Inv.empty (P : Proto) : Inv P 0 State.empty :=
  ⟨BoxInv.empty P, fun a app h => by simp [State.empty] at h, fun u a s h => by simp [State.empty] at h,
   fun a _ => ⟨rfl, rfl⟩⟩

theorem Fits.mono {P : Proto} {n m : Nat} (h : Fits P m) (hnm : n ≤ m) : Fits P n := by
  unfold Fits at *
  have h1 : (n + 1) * (P.maxKeyLen + P.maxBoxSize) ≤ (m + 1) * (P.maxKeyLen + P.maxBoxSize) :=
    Nat.mul_le_mul_right _ (by omega)
  omega

theorem boxInv_congr {P : Proto} {n : Nat} {σ σ' : State} (h : BoxInv P n σ) (hb : σ'.boxes = σ.boxes) (h1 : σ'.tb = σ.tb)
    (h2 : σ'.tbb = σ.tbb) : BoxInv P n σ' := by
  refine ⟨?_, ?_, ?_, ?_, ?_⟩
  · intro a; rw [hb]; exact h.nodup a
  · intro a; rw [hb, h1]; exact h.tb_eq a
  · intro a; unfold boxBytes; rw [hb, h2]; exact h.tbb_eq a
  · intro a p hp; rw [hb] at hp; exact h.small a p hp
  · intro a; rw [hb]; exact h.len_le a

theorem boxLenAt_congr {σ σ' : State} (hb : σ'.boxes = σ.boxes) (r : BoxRef) : boxLenAt σ' r = boxLenAt σ r := by
  unfold boxLenAt; rw [hb]

theorem upd2_same {α : Type} (f : Nat → Nat → α) (a b : Nat) (v : α) : upd2 f a b v a b = v := by simp [upd2]
theorem upd2_other {α : Type} (f : Nat → Nat → α) {a b x y : Nat} (v : α) (h : ¬ (x = a ∧ y = b)) : upd2 f a b v x y = f x y := by
  simp only [upd2]; rw [if_neg h]

/-- writing the record of an EXISTING application -/
theorem inv_upd_app {P : Proto} {n : Nat} {σ : State} {a : AppId} {app' : App} (hi : Inv P n σ)
    (hex : ∃ app, σ.apps a = some app) (hok : StoreOK app'.g) (hls : app'.lschema.small) :
    Inv P n { σ with apps := upd σ.apps a (some app') } := by
  refine ⟨boxInv_congr hi.box rfl rfl rfl, ?_, hi.locals_ok, ?_⟩
  · intro x app hx
    have hx' : upd σ.apps a (some app') x = some app := hx
    by_cases hxa : x = a
    · subst hxa; rw [upd_same] at hx'; cases hx'; exact ⟨hok, hls⟩
    · rw [upd_other _ _ hxa] at hx'; exact hi.apps_ok x app hx'
  · intro x hx
    have hx' : σ.nextApp ≤ x := hx
    obtain ⟨app, happ⟩ := hex
    have hxa : x ≠ a := by
      intro e; subst e
      rw [(hi.fresh x hx').1] at happ; cases happ
    refine ⟨?_, (hi.fresh x hx').2⟩
    show upd σ.apps a (some app') x = none
    rw [upd_other _ _ hxa]; exact (hi.fresh x hx').1

theorem inv_del_app {P : Proto} {n : Nat} {σ : State} (a : AppId) (hi : Inv P n σ) :
    Inv P n { σ with apps := upd σ.apps a none } := by
  refine ⟨boxInv_congr hi.box rfl rfl rfl, ?_, hi.locals_ok, ?_⟩
  · intro x app hx
    have hx' : upd σ.apps a none x = some app := hx
    by_cases hxa : x = a
    · subst hxa; rw [upd_same] at hx'; cases hx'
    · rw [upd_other _ _ hxa] at hx'; exact hi.apps_ok x app hx'
  · intro x hx
    have hx' : σ.nextApp ≤ x := hx
    refine ⟨?_, (hi.fresh x hx').2⟩
    show upd σ.apps a none x = none
    by_cases hxa : x = a
    · subst hxa; rw [upd_same]
    · rw [upd_other _ _ hxa]; exact (hi.fresh x hx').1

theorem inv_upd_local {P : Proto} {n : Nat} {σ : State} {u : Addr} {a : AppId} {o : Option Store} (hi : Inv P n σ)
    (hok : ∀ s, o = some s → StoreOK s) : Inv P n { σ with locals := upd2 σ.locals u a o } := by
  refine ⟨boxInv_congr hi.box rfl rfl rfl, hi.apps_ok, ?_, hi.fresh⟩
  intro x y s hs
  have hs' : upd2 σ.locals u a o x y = some s := hs
  by_cases hxy : x = u ∧ y = a
  · obtain ⟨h1, h2⟩ := hxy
    subst h1; subst h2
    rw [upd2_same] at hs'; exact hok s hs'
  · rw [upd2_other _ _ hxy] at hs'; exact hi.locals_ok x y s hs'

/-- a box operation on the boxes of an existing application `owner` -/
theorem inv_box_frame {P : Proto} {n m : Nat} {σ σ' : State} {owner : AppId} (hi : Inv P n σ) (hbox : BoxInv P m σ')
    (happs : σ'.apps = σ.apps) (hloc : σ'.locals = σ.locals) (hnext : σ'.nextApp = σ.nextApp)
    (hother : ∀ x, x ≠ owner → σ'.boxes x = σ.boxes x) (howner : ∃ app, σ.apps owner = some app) : Inv P m σ' := by
  refine ⟨hbox, by rw [happs]; exact hi.apps_ok, by rw [hloc]; exact hi.locals_ok, ?_⟩
  intro x hx
  rw [hnext] at hx
  obtain ⟨app, happ⟩ := howner
  have hxa : x ≠ owner := by
    intro e; subst e
    rw [(hi.fresh x hx).1] at happ; cases happ
  rw [happs, hother x hxa]; exact hi.fresh x hx

theorem newBox_other {P : Proto} {σ σ' : State} {a : AppId} {name val : Bytes} (h : newBox P σ a name val = .ok σ') :
    ∀ x, x ≠ a → σ'.boxes x = σ.boxes x := by
  obtain ⟨_, _, _, he⟩ := newBox_eq h
  subst he
  intro x hx
  show upd σ.boxes a _ x = σ.boxes x
  rw [upd_other _ _ hx]

theorem setBox_other {σ σ' : State} {a : AppId} {name val : Bytes} (h : setBox σ a name val = .ok σ') :
    ∀ x, x ≠ a → σ'.boxes x = σ.boxes x := by
  obtain ⟨_, _, _, he⟩ := setBox_eq h
  subst he
  intro x hx
  show upd σ.boxes a _ x = σ.boxes x
  rw [upd_other _ _ hx]

theorem delBox_other (σ : State) (a : AppId) (name : Bytes) : ∀ x, x ≠ a → (delBox σ a name).2.boxes x = σ.boxes x := by
  intro x hx
  cases ho : aget (σ.boxes a) name with
  | none => rw [delBox_none ho]
  | some val =>
    rw [delBox_eq ho]
    show upd σ.boxes a _ x = σ.boxes x
    rw [upd_other _ _ hx]

theorem lengthChecks_ok {P : Proto} {name : Bytes} {sz : Nat} {u : Unit} (h : lengthChecks P name sz = .ok u) :
    sz ≤ P.maxBoxSize := by
  unfold lengthChecks at h
  split at h
  · cases h
  · split at h
    · cases h
    · split at h
      · cases h
      · omega

/-! ### key-value effects -/

theorem effGlobalPut_inv {P : Proto} {n : Nat} {cx : Cx} {σ σ' : State} {av av' : Avail} {k : Bytes} {v : TVal} {l : List Nat}
    (hi : Inv P n σ) (hg : GInv P σ av) (h : effGlobalPut P cx σ av k v = .ok (σ', av', l)) : Inv P n σ' ∧ GInv P σ' av' ∧ av'.started = av.started := by
  unfold effGlobalPut at h
  split at h
  · cases h
  · split at h
    · cases h
    · rename_i app happ
      split at h
      · cases h
      · split at h
        · cases h
        · rename_i g hset
          cases h
          exact ⟨inv_upd_app hi ⟨app, happ⟩ (setKey_ok (hi.apps_ok _ app happ).1 hset) (hi.apps_ok _ app happ).2,
                 ginv_frame hg (fun r => rfl) rfl rfl rfl, rfl⟩

theorem effGlobalDel_inv {P : Proto} {n : Nat} {cx : Cx} {σ σ' : State} {av av' : Avail} {k : Bytes} {l : List Nat}
    (hi : Inv P n σ) (hg : GInv P σ av) (h : effGlobalDel cx σ av k = .ok (σ', av', l)) : Inv P n σ' ∧ GInv P σ' av' ∧ av'.started = av.started := by
  unfold effGlobalDel at h
  split at h
  · cases h
  · rename_i app happ
    cases h
    exact ⟨inv_upd_app hi ⟨app, happ⟩ (delKey_ok k (hi.apps_ok _ app happ).1) (hi.apps_ok _ app happ).2,
           ginv_frame hg (fun r => rfl) rfl rfl rfl, rfl⟩

theorem effLocalPut_inv {P : Proto} {n : Nat} {cx : Cx} {σ σ' : State} {av av' : Avail} {a : Addr} {k : Bytes} {v : TVal}
    {l : List Nat} (hi : Inv P n σ) (hg : GInv P σ av) (h : effLocalPut P cx σ av a k v = .ok (σ', av', l)) :
    Inv P n σ' ∧ GInv P σ' av' ∧ av'.started = av.started := by
  unfold effLocalPut at h
  split at h
  · cases h
  · split at h
    · cases h
    · split at h
      · cases h
      · rename_i s hs
        split at h
        · cases h
        · split at h
          · cases h
          · rename_i s' hset
            cases h
            refine ⟨inv_upd_local hi ?_, ginv_frame hg (fun r => rfl) rfl rfl rfl, rfl⟩
            intro s2 hs2; cases hs2
            exact setKey_ok (hi.locals_ok _ _ s hs) hset

theorem effLocalDel_inv {P : Proto} {n : Nat} {cx : Cx} {σ σ' : State} {av av' : Avail} {a : Addr} {k : Bytes} {l : List Nat}
    (hi : Inv P n σ) (hg : GInv P σ av) (h : effLocalDel cx σ av a k = .ok (σ', av', l)) : Inv P n σ' ∧ GInv P σ' av' ∧ av'.started = av.started := by
  unfold effLocalDel at h
  split at h
  · cases h
  · split at h
    · cases h
    · rename_i s hs
      cases h
      refine ⟨inv_upd_local hi ?_, ginv_frame hg (fun r => rfl) rfl rfl rfl, rfl⟩
      intro s2 hs2; cases hs2
      exact delKey_ok k (hi.locals_ok _ _ s hs)

theorem effSetFlag_inv {P : Proto} {n : Nat} {cx : Cx} {σ σ' : State} {av av' : Avail} {fam : Bool} {b : Nat} {l : List Nat}
    (hi : Inv P n σ) (hg : GInv P σ av) (h : effSetFlag cx σ av fam b = .ok (σ', av', l)) : Inv P n σ' ∧ GInv P σ' av' ∧ av'.started = av.started := by
  unfold effSetFlag at h
  split at h
  · cases h
  · rename_i app happ
    dsimp only at h
    cases h
    have hok := hi.apps_ok _ app happ
    refine ⟨inv_upd_app hi ⟨app, happ⟩ ?_ ?_, ginv_frame hg (fun r => rfl) rfl rfl rfl, rfl⟩
    · cases fam <;> exact hok.1
    · cases fam <;> exact hok.2

/-! ### box effects -/

theorem bool_false_of_not {b : Bool} (h : ¬ b = true) : b = false := by cases b <;> simp_all

theorem effBoxCreate_inv {P : Proto} {n : Nat} {cx : Cx} {σ σ' : State} {av av' : Avail} {owner : AppId} {name : Bytes} {sz : Nat}
    {l : List Nat} (hi : Inv P n σ) (hg : GInv P σ av) (hf : Fits P n)
    (h : effBoxCreate P cx σ av owner name sz = .ok (σ', av', l)) : Inv P (n + 1) σ' ∧ GInv P σ' av' ∧ av'.started = av.started := by
  unfold effBoxCreate at h
  split at h
  · cases h
  · rename_i u hlc
    have hsz := lengthChecks_ok hlc
    split at h
    · cases h
    · rename_i av1 content ex hav
      obtain ⟨hex1, hex0, happ, _, hst, d1, hdel, hrd, hG⟩ := avail_ginv hg hi.box hsz hav
      split at h
      · rename_i hexx
        cases h
        refine ⟨hi.mono (by omega), hG σ (fun r _ => rfl) ?_, hst⟩
        intro _
        rw [boxLenAt_some (hex1 hexx)]; unfold opLen; rw [if_pos hexx]
      · rename_i hexx
        have hexf := bool_false_of_not hexx
        split at h
        · cases h
        · rename_i σ2 hnb
          cases h
          obtain ⟨ha, hl, hn, hlen, hfr⟩ := newBox_frame hnb
          refine ⟨inv_box_frame hi (newBox_inv hi.box hf hnb) ha hl hn (newBox_other hnb) happ, hG σ' hfr ?_, hst⟩
          intro _
          rw [hlen]; unfold opLen; rw [hexf]; simp [zeros]

theorem effBoxDel_inv {P : Proto} {n : Nat} {cx : Cx} {σ σ' : State} {av av' : Avail} {owner : AppId} {name : Bytes}
    {l : List Nat} (hi : Inv P n σ) (hg : GInv P σ av)
    (h : effBoxDel P cx σ av owner name = .ok (σ', av', l)) : Inv P n σ' ∧ GInv P σ' av' ∧ av'.started = av.started := by
  unfold effBoxDel at h
  split at h
  · cases h
  · rename_i u hlc
    split at h
    · cases h
    · rename_i av1 content ex hav
      obtain ⟨hex1, hex0, happ, _, hst, d1, hdel, hrd, hG⟩ := avail_ginv hg hi.box (Nat.zero_le _) hav
      have hd1 : d1 = false := hdel rfl
      split at h
      · cases h
        obtain ⟨ha, hl, hn, _, hfr⟩ := delBox_frame σ owner name
        refine ⟨inv_box_frame hi (delBox_inv owner name hi.box) ha hl hn (delBox_other σ owner name) happ, hG _ hfr ?_, hst⟩
        intro hd; rw [hd1] at hd; cases hd
      · cases h
        refine ⟨hi, hG σ (fun r _ => rfl) ?_, hst⟩
        intro hd; rw [hd1] at hd; cases hd

theorem effBoxLen_inv {P : Proto} {n : Nat} {cx : Cx} {σ σ' : State} {av av' : Avail} {owner : AppId} {name : Bytes}
    {l : List Nat} (hi : Inv P n σ) (hg : GInv P σ av)
    (h : effBoxLen P cx σ av owner name = .ok (σ', av', l)) : Inv P n σ' ∧ GInv P σ' av' ∧ av'.started = av.started := by
  unfold effBoxLen at h
  split at h
  · cases h
  · rename_i u hlc
    split at h
    · cases h
    · rename_i av1 content ex hav
      obtain ⟨hex1, hex0, happ, _, hst, d1, hdel, hrd, hG⟩ := avail_ginv hg hi.box (Nat.zero_le _) hav
      cases h
      refine ⟨hi, hG σ (fun r _ => rfl) ?_, hst⟩
      intro hd
      have hexx := hrd hd rfl
      rw [boxLenAt_some (hex1 hexx)]; rfl

theorem effBoxPut_inv {P : Proto} {n : Nat} {cx : Cx} {σ σ' : State} {av av' : Avail} {owner : AppId} {name v : Bytes}
    {l : List Nat} (hi : Inv P n σ) (hg : GInv P σ av) (hf : Fits P n)
    (h : effBoxPut P cx σ av owner name v = .ok (σ', av', l)) : Inv P (n + 1) σ' ∧ GInv P σ' av' ∧ av'.started = av.started := by
  unfold effBoxPut at h
  split at h
  · cases h
  · rename_i u hlc
    have hsz := lengthChecks_ok hlc
    split at h
    · cases h
    · rename_i av1 content ex hav
      obtain ⟨hex1, hex0, happ, _, hst, d1, hdel, hrd, hG⟩ := avail_ginv hg hi.box hsz hav
      split at h
      · rename_i hexx
        split at h
        · cases h
        · rename_i hsame
          split at h
          · cases h
          · rename_i σ2 hsb
            cases h
            obtain ⟨ha, hl, hn, hlen, hfr⟩ := setBox_frame hsb
            refine ⟨(inv_box_frame hi (setBox_inv hi.box hsb) ha hl hn (setBox_other hsb) happ).mono (by omega), hG σ' hfr ?_, hst⟩
            intro _
            rw [hlen]; unfold opLen; rw [if_pos hexx]
            have : content.length = v.length := by omega
            rw [this]
      · rename_i hexx
        have hexf := bool_false_of_not hexx
        split at h
        · cases h
        · rename_i σ2 hnb
          cases h
          obtain ⟨ha, hl, hn, hlen, hfr⟩ := newBox_frame hnb
          refine ⟨inv_box_frame hi (newBox_inv hi.box hf hnb) ha hl hn (newBox_other hnb) happ, hG σ' hfr ?_, hst⟩
          intro _
          rw [hlen]; unfold opLen; rw [hexf]; simp

theorem effBoxReplace_inv {P : Proto} {n : Nat} {cx : Cx} {σ σ' : State} {av av' : Avail} {owner : AppId} {name v : Bytes}
    {start : Nat} {l : List Nat} (hi : Inv P n σ) (hg : GInv P σ av)
    (h : effBoxReplace P cx σ av owner name start v = .ok (σ', av', l)) : Inv P n σ' ∧ GInv P σ' av' ∧ av'.started = av.started := by
  unfold effBoxReplace at h
  split at h
  · cases h
  · split at h
    · cases h
    · rename_i av1 content ex hav
      obtain ⟨hex1, hex0, happ, _, hst, d1, hdel, hrd, hG⟩ := avail_ginv hg hi.box (Nat.zero_le _) hav
      split at h
      · cases h
      · rename_i hexx
        have hext : ex = true := by cases ex <;> simp_all
        split at h
        · cases h
        · rename_i bytes hrep
          split at h
          · cases h
          · rename_i σ2 hsb
            cases h
            obtain ⟨ha, hl, hn, hlen, hfr⟩ := setBox_frame hsb
            refine ⟨inv_box_frame hi (setBox_inv hi.box hsb) ha hl hn (setBox_other hsb) happ, hG σ' hfr ?_, hst⟩
            intro _
            rw [hlen, replaceCarefully_length hrep]; unfold opLen; rw [if_pos hext]

theorem effBoxSplice_inv {P : Proto} {n : Nat} {cx : Cx} {σ σ' : State} {av av' : Avail} {owner : AppId} {name v : Bytes}
    {start len : Nat} {l : List Nat} (hi : Inv P n σ) (hg : GInv P σ av)
    (h : effBoxSplice P cx σ av owner name start len v = .ok (σ', av', l)) : Inv P n σ' ∧ GInv P σ' av' ∧ av'.started = av.started := by
  unfold effBoxSplice at h
  split at h
  · cases h
  · split at h
    · cases h
    · rename_i av1 content ex hav
      obtain ⟨hex1, hex0, happ, _, hst, d1, hdel, hrd, hG⟩ := avail_ginv hg hi.box (Nat.zero_le _) hav
      split at h
      · cases h
      · rename_i hexx
        have hext : ex = true := by cases ex <;> simp_all
        split at h
        · cases h
        · rename_i bytes hrep
          split at h
          · cases h
          · rename_i σ2 hsb
            cases h
            obtain ⟨ha, hl, hn, hlen, hfr⟩ := setBox_frame hsb
            refine ⟨inv_box_frame hi (setBox_inv hi.box hsb) ha hl hn (setBox_other hsb) happ, hG σ' hfr ?_, hst⟩
            intro _
            rw [hlen, spliceCarefully_length hrep]; unfold opLen; rw [if_pos hext]

theorem effBoxResize_inv {P : Proto} {n : Nat} {cx : Cx} {σ σ' : State} {av av' : Avail} {owner : AppId} {name : Bytes} {sz : Nat}
    {l : List Nat} (hi : Inv P n σ) (hg : GInv P σ av) (hf : Fits P n)
    (h : effBoxResize P cx σ av owner name sz = .ok (σ', av', l)) : Inv P (n + 1) σ' ∧ GInv P σ' av' ∧ av'.started = av.started := by
  unfold effBoxResize at h
  split at h
  · cases h
  · rename_i u hlc
    have hsz := lengthChecks_ok hlc
    split at h
    · cases h
    · rename_i av1 content ex hav
      obtain ⟨hex1, hex0, happ, _, hst, d1, hdel, hrd, hG⟩ := avail_ginv hg hi.box hsz hav
      split at h
      · cases h
      · split at h
        · cases h
        · rename_i σ2 hnb
          cases h
          obtain ⟨ha1, hl1, hn1, _, hfr1⟩ := delBox_frame σ owner name
          obtain ⟨ha, hl, hn, hlen, hfr⟩ := newBox_frame hnb
          have hbox := newBox_inv (delBox_inv owner name hi.box) hf hnb
          refine ⟨inv_box_frame hi hbox (by rw [ha, ha1]) (by rw [hl, hl1]) (by rw [hn, hn1]) ?_ happ, hG σ' ?_ ?_, hst⟩
          · intro x hx; rw [newBox_other hnb x hx, delBox_other σ owner name x hx]
          · intro r hr; rw [hfr r hr, hfr1 r hr]
          · intro _
            rw [hlen, resized_length]; rfl

/-- every effect preserves the invariants (one more box at most) -/
theorem evalEffect_inv {P : Proto} {n : Nat} {cx : Cx} {σ σ' : State} {av av' : Avail} {e : Effect} {l : List Nat}
    (hi : Inv P n σ) (hg : GInv P σ av) (hf : Fits P n) (h : evalEffect P cx σ av e = .ok (σ', av', l)) :
    Inv P (n + 1) σ' ∧ GInv P σ' av' ∧ av'.started = av.started := by
  have up : ∀ {s a}, Inv P n s ∧ GInv P s a ∧ a.started = av.started → Inv P (n + 1) s ∧ GInv P s a ∧ a.started = av.started :=
    fun h => ⟨h.1.mono (by omega), h.2⟩
  cases e with
  | globalPut k v => exact up (effGlobalPut_inv hi hg h)
  | globalDel k => exact up (effGlobalDel_inv hi hg h)
  | localPut a k v => exact up (effLocalPut_inv hi hg h)
  | localDel a k => exact up (effLocalDel_inv hi hg h)
  | boxCreate o name sz => exact effBoxCreate_inv hi hg hf h
  | boxResize o name sz => exact effBoxResize_inv hi hg hf h
  | boxPut o name v => exact effBoxPut_inv hi hg hf h
  | boxReplace o name st v => exact up (effBoxReplace_inv hi hg h)
  | boxSplice o name st ln v => exact up (effBoxSplice_inv hi hg h)
  | boxDel o name => exact up (effBoxDel_inv hi hg h)
  | boxLen o name => exact up (effBoxLen_inv hi hg h)
  | setFam b => exact up (effSetFlag_inv hi hg h)
  | setFbr b => exact up (effSetFlag_inv hi hg h)

/-- a straight-line script preserves the invariants -/
theorem runEffects_inv {P : Proto} {cx : Cx} (es : List Effect) : ∀ {n : Nat} {σ σ' : State} {av av' : Avail} {l : List Nat},
    Inv P n σ → GInv P σ av → Fits P (n + es.length) → runEffects P cx σ av es = .ok (σ', av', l) →
    Inv P (n + es.length) σ' ∧ GInv P σ' av' ∧ av'.started = av.started := by
  induction es with
  | nil =>
    intro n σ σ' av av' l hi hg _ h
    unfold runEffects at h
    cases h
    exact ⟨hi, hg, rfl⟩
  | cons e es ih =>
    intro n σ σ' av av' l hi hg hf h
    unfold runEffects at h
    split at h
    · cases h
    · rename_i σ1 av1 l1 he
      split at h
      · cases h
      · rename_i σ2 av2 l2 hr
        cases h
        have hlen : n + (e :: es).length = (n + 1) + es.length := by simp; omega
        obtain ⟨hi1, hg1, hs1⟩ := evalEffect_inv hi hg (hf.mono (by simp)) he
        rw [hlen] at hf ⊢
        obtain ⟨hi2, hg2, hs2⟩ := ih hi1 hg1 hf hr
        exact ⟨hi2, hg2, by rw [hs2, hs1]⟩

end AlgoVerif.Model.AppStorage
